(* ProofRefineZAlg.v — C05 (continued): the multi-key sorted-set operations
   (union / intersection, with or without storing) refine the specification;
   stored scores stay numbers under every operation; C02: the pivot inserts. *)
From Redka Require Import Base Db Glob ImplKey ImplString ImplList ImplSet ImplHash ImplZSet Ops Spec Abs Inv Excl Refine ProofNoTrace ProofInv ProofInv2 ProofRange ProofRefineStr ProofRefineList ProofRefineZSet.
From Coq Require Import Permutation Lia ZifyBool Sorted.

Definition zalg_op (o : op) : bool := match o with ZAlg _ _ _ | ZStore _ _ _ _ => true | _ => false end.

(* ================================================================== *)
(* Part 1: binary64 facts (from FloatAxioms)                          *)
(* ================================================================== *)

Lemma prim_inj a b : FloatOps.Prim2SF a = FloatOps.Prim2SF b -> a = b.
Proof.
  intros H. rewrite <- (FloatAxioms.SF2Prim_Prim2SF a), <- (FloatAxioms.SF2Prim_Prim2SF b), H. reflexivity.
Qed.

Lemma sf_zero : FloatOps.Prim2SF zero = SpecFloat.S754_zero false.
Proof. vm_compute. reflexivity. Qed.

(* a stored score is normalised: -0 is stored as +0 *)
Definition normal (f : float) : Prop := norm_zero f = f.

Definition sfn (x : SpecFloat.spec_float) : SpecFloat.spec_float :=
  match x with SpecFloat.S754_zero _ => SpecFloat.S754_zero false | _ => x end.

Lemma Prim2SF_norm a : FloatOps.Prim2SF (norm_zero a) = sfn (FloatOps.Prim2SF a).
Proof.
  unfold norm_zero. rewrite FloatAxioms.eqb_spec, sf_zero.
  destruct (FloatOps.Prim2SF a) as [s|s| |s m e] eqn:E; cbn [sfn].
  - destruct s; cbn; apply sf_zero.
  - destruct s; cbn; exact E.
  - cbn. exact E.
  - destruct s; cbn; exact E.
Qed.

Lemma SFcompare_sfn x y : SpecFloat.SFcompare (sfn x) (sfn y) = SpecFloat.SFcompare x y.
Proof. destruct x as [s|s| |s m e], y as [s'|s'| |s' m' e']; try destruct s; try destruct s'; reflexivity. Qed.

Lemma fltb_norm a b : (norm_zero a <? norm_zero b)%float = (a <? b)%float.
Proof. rewrite !FloatAxioms.ltb_spec, !Prim2SF_norm. unfold SpecFloat.SFltb. rewrite SFcompare_sfn. reflexivity. Qed.

Lemma feqb_norm a b : (norm_zero a =? norm_zero b)%float = (a =? b)%float.
Proof. rewrite !FloatAxioms.eqb_spec, !Prim2SF_norm. unfold SpecFloat.SFeqb. rewrite SFcompare_sfn. reflexivity. Qed.

Lemma norm_idem a : norm_zero (norm_zero a) = norm_zero a.
Proof.
  apply prim_inj. rewrite !Prim2SF_norm. destruct (FloatOps.Prim2SF a); reflexivity.
Qed.

Lemma normal_norm a : normal (norm_zero a).
Proof. apply norm_idem. Qed.

Lemma normal_zero : normal zero.
Proof. vm_compute. reflexivity. Qed.

Lemma not_nan_norm' a : not_nan a -> not_nan (norm_zero a).
Proof. unfold not_nan. rewrite feqb_norm. auto. Qed.

(* on numbers, the order key determines the value up to the sign of zero *)
Lemma FK_norm_eq a b : not_nan a -> not_nan b -> FK a = FK b -> norm_zero a = norm_zero b.
Proof.
  intros Ha Hb. apply not_nan_sf in Ha. apply not_nan_sf in Hb. unfold FK. intros E.
  apply prim_inj. rewrite !Prim2SF_norm.
  destruct (FloatOps.Prim2SF a) as [s|s| |s m e], (FloatOps.Prim2SF b) as [s'|s'| |s' m' e'];
    try contradiction; try reflexivity; cbn [fkey sfn] in *;
    try destruct s; try destruct s'; try discriminate E; try reflexivity.
  - injection E as E1 E2. f_equal; lia.
  - injection E as E1 E2. f_equal; lia.
Qed.

Lemma FK_normal_eq a b : not_nan a -> not_nan b -> normal a -> normal b -> FK a = FK b -> a = b.
Proof. intros Ha Hb Na Nb E. rewrite <- Na, <- Nb. apply FK_norm_eq; assumption. Qed.

Lemma SFadd_comm x y : SpecFloat.SFadd FloatOps.prec FloatOps.emax x y = SpecFloat.SFadd FloatOps.prec FloatOps.emax y x.
Proof.
  destruct x as [s|s| |s m e], y as [s'|s'| |s' m' e']; try reflexivity;
    try (destruct s, s'; reflexivity).
  unfold SpecFloat.SFadd. rewrite (Z.min_comm e e'), Z.add_comm. reflexivity.
Qed.

Lemma fadd_comm a b : (a + b = b + a)%float.
Proof. apply prim_inj. rewrite !FloatAxioms.add_spec. apply SFadd_comm. Qed.

(* ================================================================== *)
(* Part 2: association lists of scores; the specification's fold      *)
(* ================================================================== *)

Definition zl := list (string * float).

Lemma zget_nil e : zget [] e = None.
Proof. reflexivity. Qed.

Lemma zget_cons (p : string * float) (l : zl) e :
  zget (p :: l) e = if String.eqb (fst p) e then Some (snd p) else zget l e.
Proof. unfold zget, opt_lookup, bytes in *. cbn [find]. destruct (String.eqb (fst p) e); reflexivity. Qed.

Lemma zget_app (a b : zl) e : zget (a ++ b) e = match zget a e with Some v => Some v | None => zget b e end.
Proof.
  induction a as [|p a IH]; [reflexivity|]. cbn [app]. rewrite !zget_cons.
  destruct (String.eqb (fst p) e); [reflexivity | exact IH].
Qed.

Lemma zget_none_existsb (l : zl) e : zget l e = None <-> existsb (fun p => String.eqb (fst p) e) l = false.
Proof.
  induction l as [|p l IH]; [cbn; tauto|]. rewrite zget_cons. cbn [existsb]. unfold bytes in *.
  destruct (String.eqb (fst p) e); cbn [orb]; [split; discriminate | exact IH].
Qed.

Lemma zget_map_put (l : zl) e v e' :
  zget (map (fun p => if String.eqb (fst p) e then (e, v) else p) l) e' =
  if String.eqb e e' then (match zget l e with Some _ => Some v | None => None end) else zget l e'.
Proof.
  induction l as [|p l IH]; [cbn; destruct (String.eqb e e'); reflexivity|].
  cbn [map]. rewrite !zget_cons. destruct (String.eqb_spec (fst p) e) as [E|E].
  - cbn [fst snd]. destruct (String.eqb_spec e e') as [E'|E'].
    + reflexivity.
    + rewrite IH. destruct (String.eqb_spec e e'); [contradiction|].
      destruct (String.eqb_spec (fst p) e'); [congruence | reflexivity].
  - rewrite IH. destruct (String.eqb_spec e e') as [E'|E'].
    + destruct (String.eqb_spec (fst p) e'); [congruence | reflexivity].
    + reflexivity.
Qed.

Lemma zget_zput (l : zl) e v e' : zget (zput l e v) e' = if String.eqb e e' then Some v else zget l e'.
Proof.
  unfold zput. unfold bytes in *. destruct (existsb (fun p => String.eqb (fst p) e) l) eqn:X.
  - rewrite zget_map_put. destruct (String.eqb e e'); [| reflexivity].
    destruct (zget l e) eqn:G; [reflexivity|]. apply zget_none_existsb in G. congruence.
  - rewrite zget_app. apply zget_none_existsb in X.
    destruct (String.eqb_spec e e') as [<-|NE].
    + rewrite X, zget_cons. cbn [fst snd]. rewrite String.eqb_refl. reflexivity.
    + destruct (zget l e'); [reflexivity|]. rewrite zget_cons. cbn [fst].
      destruct (String.eqb_spec e e'); [contradiction | reflexivity].
Qed.

Lemma map_fst_zput_exists (l : zl) e v :
  map fst (map (fun p : string * float => if String.eqb (fst p) e then (e, v) else p) l) = map fst l.
Proof.
  rewrite map_map. apply map_ext. intros p. destruct (String.eqb_spec (fst p) e) as [E|E]; [symmetry; exact E | reflexivity].
Qed.

Lemma NoDup_zput (l : zl) e v : NoDup (map fst l) -> NoDup (map fst (zput l e v)).
Proof.
  intros N. unfold zput. unfold bytes in *. destruct (existsb (fun p => String.eqb (fst p) e) l) eqn:X.
  - rewrite map_fst_zput_exists. exact N.
  - rewrite map_app. cbn [map fst]. apply NoDup_snoc; [exact N|].
    intros H. apply in_map_iff in H as [p [E Hp]].
    assert (existsb (fun p => String.eqb (fst p) e) l = true); [| congruence].
    apply existsb_exists. exists p. split; [exact Hp | apply String.eqb_eq; exact E].
Qed.

Lemma zget_in (l : zl) e v : zget l e = Some v -> In (e, v) l.
Proof.
  induction l as [|p l IH]; [discriminate|]. rewrite zget_cons.
  destruct (String.eqb_spec (fst p) e) as [E|E].
  - intros H. injection H as <-. left. destruct p as [a b]. cbn [fst snd] in *. subst a. reflexivity.
  - intros H. right. apply IH. exact H.
Qed.

Lemma in_zget (l : zl) e v : NoDup (map fst l) -> In (e, v) l -> zget l e = Some v.
Proof.
  induction l as [|p l IH]; intros N H; [destruct H|]. cbn [map] in N. inversion N as [|? ? Hn N']; subst.
  rewrite zget_cons. destruct H as [-> | H].
  - cbn [fst snd]. rewrite String.eqb_refl. reflexivity.
  - destruct (String.eqb_spec (fst p) e) as [E|E]; [| apply IH; assumption].
    exfalso. apply Hn. rewrite E. change e with (fst (e, v)). apply in_map. exact H.
Qed.

Lemma zget_some_fst (l : zl) e : zget l e <> None <-> In e (map fst l).
Proof.
  induction l as [|p l IH]; [cbn; tauto|]. rewrite zget_cons. cbn [map In].
  destruct (String.eqb_spec (fst p) e) as [E|E].
  - split; [auto | discriminate].
  - rewrite IH. split; [auto | intros [H|H]; [contradiction | exact H]].
Qed.

(* ---- the specification's accumulation ---- *)

Definition supd (g : zagg) (acc : zl) (p : string * float) : zl :=
  match zget acc (fst p) with
  | Some old => zput acc (fst p) (zagg2 g old (snd p))
  | None => zput acc (fst p) (snd p)
  end.

Definition comb (g : zagg) (o : option float) (sc : float) : float :=
  match o with Some old => zagg2 g old sc | None => sc end.

Lemma zget_supd g acc p e :
  zget (supd g acc p) e = if String.eqb (fst p) e then Some (comb g (zget acc (fst p)) (snd p)) else zget acc e.
Proof.
  unfold supd, comb. destruct (zget acc (fst p)); rewrite zget_zput; reflexivity.
Qed.

Lemma NoDup_supd g acc p : NoDup (map fst acc) -> NoDup (map fst (supd g acc p)).
Proof. intros N. unfold supd. destruct (zget acc (fst p)); apply NoDup_zput; exact N. Qed.

Lemma zget_inner g (P : zl) : forall acc e,
  NoDup (map fst P) ->
  zget (fold_left (supd g) P acc) e =
  match zget P e with Some sc => Some (comb g (zget acc e) sc) | None => zget acc e end.
Proof.
  induction P as [|p P IH]; intros acc e N; [reflexivity|].
  cbn [map] in N. inversion N as [|? ? Hn N']; subst.
  cbn [fold_left]. rewrite IH by exact N'. rewrite zget_supd, zget_cons.
  destruct (String.eqb_spec (fst p) e) as [E|E].
  - subst e. destruct (zget P (fst p)) eqn:G; [| reflexivity].
    exfalso. apply Hn. apply zget_some_fst. congruence.
  - reflexivity.
Qed.

Lemma NoDup_inner g (P : zl) : forall acc, NoDup (map fst acc) -> NoDup (map fst (fold_left (supd g) P acc)).
Proof. induction P as [|p P IH]; intros acc N; [exact N|]. cbn [fold_left]. apply IH, NoDup_supd, N. Qed.

Section SpecFold.
Variable g : zagg.
Variable Mp : string -> zl.
Hypothesis Mp_nodup : forall k, NoDup (map fst (Mp k)).

Definition sall (ks : list string) (acc : zl) : zl :=
  fold_left (fun acc k => fold_left (supd g) (Mp k) acc) ks acc.

Definition stepo (e : string) (o : option float) (k : string) : option float :=
  match zget (Mp k) e with Some sc => Some (comb g o sc) | None => o end.

Lemma zget_sall ks : forall acc e, zget (sall ks acc) e = fold_left (stepo e) ks (zget acc e).
Proof.
  induction ks as [|k ks IH]; intros acc e; [reflexivity|].
  cbn [sall fold_left]. fold (sall ks (fold_left (supd g) (Mp k) acc)). rewrite IH.
  rewrite zget_inner by apply Mp_nodup. reflexivity.
Qed.

Lemma NoDup_sall ks : forall acc, NoDup (map fst acc) -> NoDup (map fst (sall ks acc)).
Proof.
  induction ks as [|k ks IH]; intros acc N; [exact N|]. cbn [sall fold_left]. apply IH, NoDup_inner, N.
Qed.

(* the scores of e in the keys listed, in the order of the list *)
Definition col (e : string) (ks : list string) : list float :=
  flat_map (fun k => match zget (Mp k) e with Some sc => [sc] | None => [] end) ks.

Lemma stepo_col e ks : forall o,
  fold_left (stepo e) ks o =
  match o with
  | Some x => Some (fold_left (zagg2 g) (col e ks) x)
  | None => match col e ks with [] => None | x :: r => Some (fold_left (zagg2 g) r x) end
  end.
Proof.
  induction ks as [|k ks IH]; intros o; [destruct o; reflexivity|].
  cbn [fold_left col flat_map]. fold (col e ks). rewrite IH. unfold stepo.
  destruct (zget (Mp k) e) as [sc|]; [| reflexivity].
  destruct o as [x|]; reflexivity.
Qed.

Lemma agg_fold x r : agg_scores g (x :: r) = fold_left (zagg2 g) r x.
Proof. destruct g; reflexivity. Qed.

Lemma zget_sall_nil ks e :
  zget (sall ks []) e = match col e ks with [] => None | _ => Some (agg_scores g (col e ks)) end.
Proof.
  rewrite zget_sall, zget_nil, stepo_col. destruct (col e ks) as [|x r]; [reflexivity|].
  rewrite agg_fold. reflexivity.
Qed.

Lemma col_nonempty e ks : col e ks <> [] <-> exists k, In k ks /\ In e (map fst (Mp k)).
Proof.
  unfold col. split.
  - intros H. destruct (flat_map _ ks) as [|x r] eqn:F; [contradiction|].
    assert (Hx : In x (flat_map (fun k => match zget (Mp k) e with Some sc => [sc] | None => [] end) ks))
      by (rewrite F; left; reflexivity).
    apply in_flat_map in Hx as [k [Hk Hx]]. exists k. split; [exact Hk|].
    apply zget_some_fst. destruct (zget (Mp k) e); [discriminate | destruct Hx].
  - intros [k [Hk He]] F. apply zget_some_fst in He. destruct (zget (Mp k) e) as [sc|] eqn:G; [| contradiction].
    assert (Hx : In sc (flat_map (fun k => match zget (Mp k) e with Some sc => [sc] | None => [] end) ks)).
    { apply in_flat_map. exists k. split; [exact Hk|]. rewrite G. left. reflexivity. }
    rewrite F in Hx. destruct Hx.
Qed.

End SpecFold.

Lemma spec_zalg_eq inter g s keys :
  spec_zalg inter g s keys =
  match dedup keys with
  | [] => []
  | _ => zorder false (map (fun p => (fst p, norm_score (snd p)))
           (if inter
            then filter (fun p => forallb (fun k => match zget (zmembers s k) (fst p) with
                                                    | Some _ => true | None => false end) (dedup keys))
                        (sall g (zmembers s) (dedup keys) [])
            else sall g (zmembers s) (dedup keys) []))
  end.
Proof. reflexivity. Qed.

(* ================================================================== *)
(* Part 3: the rows the model aggregates                              *)
(* ================================================================== *)

(* the scores of member e: in rowid order (the model) and in the order of the key list (the specification) *)
Definition rowscores (now : Z) (d : db) (keys : list bytes) (e : bytes) : list float :=
  map z_score (filter (fun r => String.eqb (z_elem r) e) (zrows_of_keys now d keys)).
Definition keyrows (now : Z) (d : db) (keys : list bytes) (e : bytes) : list zrow :=
  flat_map (fun k => match find (fun r => String.eqb (z_elem r) e) (live_zset_rows now d k) with
                     | Some r => [r] | None => [] end) (dedup keys).
Definition keyscores (now : Z) (d : db) (keys : list bytes) (e : bytes) : list float :=
  map z_score (keyrows now d keys e).

Definition zgroups (need : option Z) (now : Z) (d : db) (keys : list bytes) : list bytes :=
  filter (fun e => match need with
                   | Some n => zcount_distinct_kid (zrows_of_keys now d keys) e =? n
                   | None => true
                   end) (dedup_bytes (map z_elem (zrows_of_keys now d keys))).

Lemma zq_unfold g need now d keys :
  zq g need now d keys =
  z_sorted false (map (fun e => mkZ 0 0 e (agg_scores g (rowscores now d keys e))) (zgroups need now d keys)).
Proof. reflexivity. Qed.

Lemma NoDup_zgroups need now d keys : NoDup (zgroups need now d keys).
Proof. unfold zgroups. apply NoDup_filter'. rewrite dedup_bytes_eq. apply NoDup_dedup. Qed.

Lemma zgroups_zq g need now d keys e :
  In e (zgroups need now d keys) <-> In e (map z_elem (zq g need now d keys)).
Proof.
  rewrite zq_unfold. unfold z_sorted.
  set (mk := fun e => mkZ 0 0 e (agg_scores g (rowscores now d keys e))).
  assert (P : Permutation (map z_elem (isort z_le_asc (map mk (zgroups need now d keys)))) (zgroups need now d keys)).
  { eapply Permutation_trans; [apply Permutation_map, perm_isort|]. rewrite map_map. cbn [z_elem mk].
    rewrite map_id. apply Permutation_refl. }
  split; intros H; [apply (Permutation_in _ (Permutation_sym P)) | apply (Permutation_in _ P)]; exact H.
Qed.

Lemma elemsM_iff now d k e :
  In e (map z_elem (live_zset_rows now d k)) <->
  exists r, live_key now d k T_ZSET = Some r /\ In e (map z_elem (zset_rows d (k_id r))).
Proof.
  unfold live_zset_rows. destruct (live_key now d k T_ZSET) as [r|].
  - split; [intros H; exists r; auto | intros [r' [E H]]; injection E as <-; exact H].
  - split; [intros [] | intros [r' [E _]]; discriminate].
Qed.

Lemma zgroups_union now d keys e : InvH None d ->
  In e (zgroups None now d keys) <-> exists k, In k keys /\ In e (map z_elem (live_zset_rows now d k)).
Proof.
  intros I. rewrite (zgroups_zq GSum), (C05_union_membership GSum now d keys e) by (apply Inv_iff; exact I).
  split.
  - intros [k [r [Hk [L He]]]]. exists k. split; [exact Hk|]. apply elemsM_iff. exists r. auto.
  - intros [k [Hk He]]. apply elemsM_iff in He as [r [L He]]. exists k, r. auto.
Qed.

Lemma zgroups_inter now d keys e : InvH None d -> keys <> [] ->
  In e (zgroups (Some (zlen (dedup keys))) now d keys) <->
  forall k, In k keys -> In e (map z_elem (live_zset_rows now d k)).
Proof.
  intros I NE. rewrite (zgroups_zq GSum), (C05_inter_membership GSum now d keys e) by (try apply Inv_iff; assumption).
  split; intros H k Hk.
  - apply elemsM_iff. apply H. exact Hk.
  - apply elemsM_iff. apply H. exact Hk.
Qed.

Lemma zrows_nil now d : zrows_of_keys now d [] = [].
Proof.
  unfold zrows_of_keys, live_zset_ids. rewrite (filter_none _ (rkey d)) by reflexivity. cbn [map].
  apply filter_none. reflexivity.
Qed.

Lemma zq_nil g need now d : zq g need now d [] = [].
Proof. rewrite zq_unfold. unfold zgroups. rewrite zrows_nil. reflexivity. Qed.

(* ---- the rows of member e, both ways, are the same rows ---- *)

Lemma live_rows_iff now d k x :
  In x (live_zset_rows now d k) <->
  exists r, live_key now d k T_ZSET = Some r /\ In x (rzset d) /\ z_kid x = k_id r.
Proof.
  unfold live_zset_rows. destruct (live_key now d k T_ZSET) as [r|].
  - unfold zset_rows. rewrite filter_In. split.
    + intros [H1 H2]. exists r. split; [reflexivity|]. split; [exact H1 | lia].
    + intros [r' [E [H1 H2]]]. injection E as <-. split; [exact H1 | lia].
  - split; [intros [] | intros [r' [E _]]; discriminate].
Qed.

Lemma rows_keys_iff now d keys x : InvH None d ->
  In x (zrows_of_keys now d keys) <-> exists k, In k keys /\ In x (live_zset_rows now d k).
Proof.
  intros I. unfold zrows_of_keys. rewrite filter_In, zmem_In, (live_ids_iff now d keys _ I). split.
  - intros [Hx [k [r [Hk [L E]]]]]. exists k. split; [exact Hk|]. apply live_rows_iff. exists r. auto.
  - intros [k [Hk Hx]]. apply live_rows_iff in Hx as [r [L [Hx E]]]. split; [exact Hx|]. exists k, r. auto.
Qed.

Lemma find_elem_iff rows e x :
  NoDup (map z_elem rows) ->
  (find (fun r => String.eqb (z_elem r) e) rows = Some x <-> In x rows /\ z_elem x = e).
Proof.
  intros ND. split.
  - intros F. apply find_some in F as [H E]. apply String.eqb_eq in E. auto.
  - intros [H <-]. apply find_elem_in; assumption.
Qed.

Lemma keyrows_iff now d keys e x : InvH None d ->
  In x (keyrows now d keys e) <-> exists k, In k keys /\ In x (live_zset_rows now d k) /\ z_elem x = e.
Proof.
  intros I. unfold keyrows. rewrite in_flat_map. split.
  - intros [k [Hk Hx]]. apply (proj1 (In_dedup _ _)) in Hk. exists k. split; [exact Hk|].
    apply (find_elem_iff _ e x (NoDup_live_elems now d k I)).
    destruct (find _ (live_zset_rows now d k)) as [r|]; [| destruct Hx]. destruct Hx as [-> | []]. reflexivity.
  - intros [k [Hk [Hx E]]]. exists k. split; [apply (proj2 (In_dedup _ _)); exact Hk|].
    rewrite (proj2 (find_elem_iff _ e x (NoDup_live_elems now d k I)) (conj Hx E)). left. reflexivity.
Qed.

Lemma NoDup_flat_map {A B} (f : A -> list B) l :
  NoDup l -> (forall a, In a l -> NoDup (f a)) ->
  (forall a a' x, In a l -> In a' l -> In x (f a) -> In x (f a') -> a = a') ->
  NoDup (flat_map f l).
Proof.
  induction l as [|a l IH]; intros N H1 H2; [constructor|].
  inversion N as [|? ? Ha N']; subst. cbn [flat_map].
  assert (ND : NoDup (flat_map f l)).
  { apply IH; [exact N' | intros b Hb; apply H1; right; exact Hb |].
    intros b b' x Hb Hb'. apply H2; right; assumption. }
  assert (Dis : forall x, In x (f a) -> ~ In x (flat_map f l)).
  { intros x Hx Hin. apply in_flat_map in Hin as [b [Hb Hxb]].
    apply Ha. rewrite (H2 a b x (or_introl eq_refl) (or_intror Hb) Hx Hxb). exact Hb. }
  pose proof (H1 a (or_introl eq_refl)) as Na. revert Na Dis. generalize (f a) as fa.
  induction fa as [|y fa IHf]; intros Na Dis; [exact ND|].
  inversion Na as [|? ? Hy Na']; subst. cbn [app]. constructor.
  - intros Hin. apply in_app_iff in Hin as [Hin|Hin]; [contradiction|]. apply (Dis y (or_introl eq_refl) Hin).
  - apply IHf; [exact Na'|]. intros x Hx. apply Dis. right. exact Hx.
Qed.

Lemma live_rows_owner now d k k' x : InvH None d ->
  In x (live_zset_rows now d k) -> In x (live_zset_rows now d k') -> k = k'.
Proof.
  intros I H H'. apply live_rows_iff in H as [r [L [_ E]]]. apply live_rows_iff in H' as [r' [L' [_ E']]].
  apply live_key_some in L as [Hr [Kr _]]. apply live_key_some in L' as [Hr' [Kr' _]].
  assert (r = r') by (apply (row_same_id _ d r r' I Hr Hr'); congruence). subst r'. congruence.
Qed.

Lemma NoDup_keyrows now d keys e : InvH None d -> NoDup (keyrows now d keys e).
Proof.
  intros I. unfold keyrows. apply NoDup_flat_map.
  - apply NoDup_dedup.
  - intros k _. destruct (find _ (live_zset_rows now d k)); [repeat constructor; intros [] | constructor].
  - intros k k' x _ _ Hx Hx'.
    assert (X : forall k0, In x (match find (fun r => String.eqb (z_elem r) e) (live_zset_rows now d k0) with
                                 | Some r => [r] | None => [] end) -> In x (live_zset_rows now d k0)).
    { intros k0 H. destruct (find _ (live_zset_rows now d k0)) as [r|] eqn:F; [| destruct H].
      destruct H as [<- | []]. apply find_some in F. tauto. }
    apply (live_rows_owner now d k k' x I); apply X; assumption.
Qed.

Lemma rows_perm now d keys e : InvH None d ->
  Permutation (filter (fun r => String.eqb (z_elem r) e) (zrows_of_keys now d keys)) (keyrows now d keys e).
Proof.
  intros I. apply NoDup_Permutation.
  - apply NoDup_filter'. unfold zrows_of_keys. apply NoDup_filter'.
    apply (NoDup_map_inv z_rid). apply (i_z _ _ I).
  - apply NoDup_keyrows. exact I.
  - intros x. rewrite filter_In, (rows_keys_iff now d keys x I), (keyrows_iff now d keys e x I), String.eqb_eq.
    split; [intros [[k [Hk Hx]] E]; exists k; auto | intros [k [Hk [Hx E]]]; split; [exists k; auto | exact E]].
Qed.

Lemma scores_perm now d keys e : InvH None d -> Permutation (rowscores now d keys e) (keyscores now d keys e).
Proof. intros I. apply Permutation_map. apply rows_perm. exact I. Qed.

Lemma col_keyscores now d e ks :
  col (fun k => map pr (live_zset_rows now d k)) e ks =
  map z_score (flat_map (fun k => match find (fun r => String.eqb (z_elem r) e) (live_zset_rows now d k) with
                                  | Some r => [r] | None => [] end) ks).
Proof.
  unfold col. induction ks as [|k ks IH]; [reflexivity|]. cbn [flat_map]. rewrite map_app, <- IH. f_equal.
  rewrite zget_map. destruct (find _ (live_zset_rows now d k)); reflexivity.
Qed.

(* ================================================================== *)
(* Part 4: the order on (member, score) pairs; minimum and maximum    *)
(* ================================================================== *)

Definition normp (p : string * float) : string * float := (fst p, norm_score (snd p)).
Definition rowof (p : string * float) : zrow := mkZ 0 0 (fst p) (snd p).
Definition numpair (p : string * float) : Prop := not_nan (snd p).

Lemma zpair_le_row a b : zpair_le a b = z_le_asc (rowof a) (rowof b).
Proof. reflexivity. Qed.

Lemma zp_total a b : numpair a -> numpair b -> zpair_le a b = true \/ zpair_le b a = true.
Proof. intros Ha Hb. rewrite !zpair_le_row. apply zle_total; assumption. Qed.

Lemma zp_trans a b c : numpair a -> numpair b -> numpair c ->
  zpair_le a b = true -> zpair_le b c = true -> zpair_le a c = true.
Proof. intros Ha Hb Hc. rewrite !zpair_le_row. apply zle_trans; assumption. Qed.

Lemma zp_antisym a b : numpair a -> numpair b -> zpair_le a b = true -> zpair_le b a = true -> fst a = fst b.
Proof. intros Ha Hb. rewrite !zpair_le_row. apply (zle_antisym (rowof a) (rowof b)); assumption. Qed.

Lemma zpair_le_norm a b : zpair_le a b = zpair_le (normp a) (normp b).
Proof.
  unfold zpair_le, normp, norm_score. cbn [fst snd].
  change (fun f => if (f =? zero)%float then zero else f) with norm_zero.
  change (if (snd a =? zero)%float then zero else snd a) with (norm_zero (snd a)).
  change (if (snd b =? zero)%float then zero else snd b) with (norm_zero (snd b)).
  rewrite fltb_norm, feqb_norm. reflexivity.
Qed.

Lemma zorder_normp L : map normp (zorder false L) = zorder false (map normp L).
Proof. unfold zorder. apply isort_map. intros a b. apply zpair_le_norm. Qed.

Lemma SS_perm_unique {A} (le : A -> A -> bool) (l : list A) : forall l',
  StronglySorted (fun a b => le a b = true) l -> StronglySorted (fun a b => le a b = true) l' ->
  Permutation l l' ->
  (forall a b, In a l -> In b l -> le a b = true -> le b a = true -> a = b) -> l = l'.
Proof.
  induction l as [|x r IH]; intros l' S S' P Anti.
  - apply Permutation_nil in P. subst. reflexivity.
  - destruct l' as [|y r']; [apply Permutation_sym, Permutation_nil in P; discriminate|].
    inversion S as [|? ? Sr Fx]; subst. inversion S' as [|? ? Sr' Fy]; subst.
    rewrite Forall_forall in Fx, Fy.
    assert (Hy : In y (x :: r)) by (apply (Permutation_in _ (Permutation_sym P)); left; reflexivity).
    assert (Hx : In x (y :: r')) by (apply (Permutation_in _ P); left; reflexivity).
    assert (E : x = y).
    { destruct Hy as [E|Hy]; [exact E|]. destruct Hx as [E|Hx]; [symmetry; exact E|].
      apply Anti; [left; reflexivity | right; exact Hy | apply Fx; exact Hy | apply Fy; exact Hx]. }
    subst y. f_equal. apply IH; [exact Sr | exact Sr' | eapply Permutation_cons_inv; exact P |].
    intros a b Ha Hb. apply Anti; right; assumption.
Qed.

Lemma zorder_perm_eq L1 L2 :
  Permutation L1 L2 -> NoDup (map fst L1) -> Forall numpair L1 -> zorder false L1 = zorder false L2.
Proof.
  intros P ND N1. unfold zorder.
  assert (N2 : Forall numpair L2).
  { rewrite Forall_forall in *. intros x Hx. apply N1. apply (Permutation_in _ (Permutation_sym P)). exact Hx. }
  apply (SS_perm_unique zpair_le).
  - apply (isort_SS zpair_le numpair zp_total zp_trans). exact N1.
  - apply (isort_SS zpair_le numpair zp_total zp_trans). exact N2.
  - eapply Permutation_trans; [apply perm_isort|]. eapply Permutation_trans; [exact P|].
    apply Permutation_sym, perm_isort.
  - intros a b Ha Hb Lab Lba. apply (In_isort zpair_le) in Ha. apply (In_isort zpair_le) in Hb.
    rewrite Forall_forall in N1.
    apply (NoDup_map_inj fst L1 a b ND Ha Hb). apply zp_antisym; auto.
Qed.

Lemma existsb_perm {A} (f : A -> bool) l l' : Permutation l l' -> existsb f l = existsb f l'.
Proof.
  induction 1; cbn [existsb]; try congruence.
  destruct (f x), (f y); reflexivity.
Qed.

(* ---- the selection folds (min / max) ---- *)

Section Select.
Variable sel : float -> float -> float.
Variable lt : Z * Z * Z -> Z * Z * Z -> Prop.
Hypothesis lt_total : forall a b, lt a b \/ a = b \/ lt b a.
Hypothesis lt_trans : forall a b c, lt a b -> lt b c -> lt a c.
Hypothesis lt_irrefl : forall a, ~ lt a a.
Hypothesis sel_spec : forall x a, not_nan x -> not_nan a ->
  (sel x a = a /\ lt (FK a) (FK x)) \/ (sel x a = x /\ ~ lt (FK a) (FK x)).

Lemma lt_below a b c : lt a c -> ~ lt b c -> lt a b.
Proof.
  intros H1 H2. destruct (lt_total b c) as [H|[H|H]]; [contradiction | subst; exact H1 | eapply lt_trans; eassumption].
Qed.

Lemma fold_sel l : forall x, Forall not_nan (x :: l) ->
  In (fold_left sel l x) (x :: l) /\ forall y, In y (x :: l) -> ~ lt (FK y) (FK (fold_left sel l x)).
Proof.
  induction l as [|a l IH]; intros x N.
  - cbn [fold_left]. split; [left; reflexivity|]. intros y [<- | []]. apply lt_irrefl.
  - inversion N as [|? ? Nx N']; subst. inversion N' as [|? ? Na Nl]; subst.
    cbn [fold_left]. set (x' := sel x a).
    assert (Sx : (x' = a \/ x' = x) /\ ~ lt (FK x) (FK x') /\ ~ lt (FK a) (FK x')).
    { unfold x'. destruct (sel_spec x a Nx Na) as [[-> L] | [-> L]].
      - split; [auto|]. split; [| apply lt_irrefl]. intros L'. apply (lt_irrefl (FK a)). eapply lt_trans; eassumption.
      - split; [auto|]. split; [apply lt_irrefl | exact L]. }
    destruct Sx as [Sx [Lx La]].
    assert (N'' : Forall not_nan (x' :: l)) by (constructor; [destruct Sx as [-> | ->]; assumption | exact Nl]).
    destruct (IH x' N'') as [Hin Hmin]. split.
    + destruct Hin as [E | Hin]; [| right; right; exact Hin].
      rewrite <- E. destruct Sx as [-> | ->]; [right; left | left]; reflexivity.
    + intros y Hy L. pose proof (Hmin x' (or_introl eq_refl)) as Hx'.
      destruct Hy as [<- | [<- | Hy]].
      * apply Lx. eapply lt_below; eassumption.
      * apply La. eapply lt_below; eassumption.
      * apply (Hmin y (or_intror Hy) L).
Qed.

Lemma sel_perm_FK x r y r' :
  Permutation (x :: r) (y :: r') -> Forall not_nan (x :: r) ->
  FK (fold_left sel r x) = FK (fold_left sel r' y).
Proof.
  intros P N.
  assert (N' : Forall not_nan (y :: r')).
  { rewrite Forall_forall in *. intros z Hz. apply N. apply (Permutation_in _ (Permutation_sym P)). exact Hz. }
  destruct (fold_sel r x N) as [H1 M1]. destruct (fold_sel r' y N') as [H2 M2].
  apply (Permutation_in _ P) in H1. apply (Permutation_in _ (Permutation_sym P)) in H2.
  specialize (M1 _ H2). specialize (M2 _ H1).
  destruct (lt_total (FK (fold_left sel r x)) (FK (fold_left sel r' y))) as [H|[H|H]]; [contradiction | exact H | contradiction].
Qed.
End Select.

Lemma klt_asym a b : klt a b -> ~ klt b a.
Proof. intros H H'. apply (klt_irrefl a). eapply klt_trans; eassumption. Qed.

Lemma min_spec x a : not_nan x -> not_nan a ->
  (zagg2 GMin x a = a /\ klt (FK a) (FK x)) \/ (zagg2 GMin x a = x /\ ~ klt (FK a) (FK x)).
Proof.
  intros Nx Na. cbn [zagg2]. destruct (a <? x)%float eqn:L.
  - left. split; [reflexivity|]. apply fltb_key; assumption.
  - right. split; [reflexivity|]. intros H. apply (fltb_key a x Na Nx) in H. congruence.
Qed.

Lemma max_spec x a : not_nan x -> not_nan a ->
  (zagg2 GMax x a = a /\ klt (FK x) (FK a)) \/ (zagg2 GMax x a = x /\ ~ klt (FK x) (FK a)).
Proof.
  intros Nx Na. cbn [zagg2]. destruct (x <? a)%float eqn:L.
  - left. split; [reflexivity|]. apply fltb_key; assumption.
  - right. split; [reflexivity|]. intros H. apply (fltb_key x a Nx Na) in H. congruence.
Qed.

Definition is_sum (g : zagg) : bool := match g with GSum => true | _ => false end.

Lemma not_nan_zero : not_nan zero.
Proof. vm_compute. reflexivity. Qed.

(* minimum / maximum: a member of the list, whatever the order (on numbers) *)
Lemma agg_sel_in g l : is_sum g = false -> Forall not_nan l -> l <> [] -> In (agg_scores g l) l.
Proof.
  intros G N NE. destruct l as [|x r]; [contradiction|]. rewrite agg_fold.
  destruct g; try discriminate G.
  - apply (fold_sel (zagg2 GMin) klt klt_total klt_trans klt_irrefl min_spec r x N).
  - apply (fold_sel (zagg2 GMax) (fun a b => klt b a)); try assumption.
    + intros a b. destruct (klt_total a b) as [H|[H|H]]; auto.
    + intros a b c H1 H2. eapply klt_trans; eassumption.
    + intros a. apply klt_irrefl.
    + apply max_spec.
Qed.

Lemma agg_sel_perm g l l' : is_sum g = false -> Forall not_nan l -> Permutation l l' ->
  FK (agg_scores g l) = FK (agg_scores g l').
Proof.
  intros G N P. destruct l as [|x r].
  - apply Permutation_nil in P. subst. reflexivity.
  - destruct l' as [|y r']; [apply Permutation_sym, Permutation_nil in P; discriminate|].
    rewrite !agg_fold. destruct g; try discriminate G.
    + apply (sel_perm_FK (zagg2 GMin) klt klt_total klt_trans klt_irrefl min_spec); assumption.
    + apply (sel_perm_FK (zagg2 GMax) (fun a b => klt b a)); try assumption.
      * intros a b. destruct (klt_total a b) as [H|[H|H]]; auto.
      * intros a b c H1 H2. eapply klt_trans; eassumption.
      * intros a. apply klt_irrefl.
      * apply max_spec.
Qed.

Lemma agg_sel_num g l : is_sum g = false -> Forall not_nan l -> not_nan (agg_scores g l).
Proof.
  intros G N. destruct l as [|x r]; [apply not_nan_zero|].
  rewrite Forall_forall in N. apply N. apply agg_sel_in; [exact G | apply Forall_forall; exact N | discriminate].
Qed.

Lemma agg_sel_normal g l : is_sum g = false -> Forall not_nan l -> Forall normal l -> normal (agg_scores g l).
Proof.
  intros G N Nm. destruct l as [|x r]; [apply normal_zero|].
  rewrite Forall_forall in Nm. apply Nm. apply agg_sel_in; [exact G | exact N | discriminate].
Qed.

(* ================================================================== *)
(* Part 5: the model's query and the specification's result           *)
(* ================================================================== *)

Lemma col_ext (Mp Mp' : string -> zl) e ks : (forall k, Mp k = Mp' k) -> col Mp e ks = col Mp' e ks.
Proof. intros H. unfold col. apply flat_map_ext. intros k. rewrite H. reflexivity. Qed.

Lemma is_nanf_normp p : is_nanf (snd (normp p)) = is_nanf (snd p).
Proof. apply is_nanf_norm. Qed.

Lemma existsb_ext' {A} (f f' : A -> bool) l : (forall x, f x = f' x) -> existsb f l = existsb f' l.
Proof. intros H. induction l as [|x l IH]; [reflexivity|]. cbn. rewrite H, IH. reflexivity. Qed.

Lemma existsb_false_all {A} (f : A -> bool) l : existsb f l = false -> forall x, In x l -> f x = false.
Proof.
  induction l as [|y l IH]; intros H x Hx; [destruct Hx|]. cbn in H. apply orb_false_iff in H as [H1 H2].
  destruct Hx as [<- | Hx]; [exact H1 | apply IH; assumption].
Qed.

Lemma dedup_nonnil l : l <> [] -> dedup l <> [].
Proof.
  destruct l as [|k0 l]; [contradiction|]. intros _ E.
  assert (H : In k0 (dedup (k0 :: l))) by (apply (proj2 (In_dedup _ _)); left; reflexivity).
  rewrite E in H. destruct H.
Qed.

Lemma match_nonnil {A B} (l : list A) (a b : B) : l <> [] -> match l with [] => a | _ :: _ => b end = b.
Proof. destruct l; [contradiction | reflexivity]. Qed.

Section Core.
Variable now : Z.
Variable d : db.
Variable s : sstate.
Hypothesis I : InvH None d.
Hypothesis HR : R now d s.
Variable inter : bool.
Variable g : zagg.
Variable keys : list bytes.
Hypothesis Hscore : forall e,
  norm_score (agg_scores g (rowscores now d keys e)) = norm_score (agg_scores g (keyscores now d keys e)).

Let s1 := spurge now s.
Let need := if inter then Some (zlen (dedup keys)) else None.
Let IP := map (fun e => (e, agg_scores g (rowscores now d keys e))) (zgroups need now d keys).
Let ks := dedup keys.
Let all := sall g (zmembers s1) ks [].
Let keep := if inter
            then filter (fun p => forallb (fun k => match zget (zmembers s1 k) (fst p) with
                                                    | Some _ => true | None => false end) ks) all
            else all.

Lemma Mp_eq k : zmembers s1 k = map pr (live_zset_rows now d k).
Proof. apply (zmembers_rows now d s I HR). Qed.

Lemma Mp_nodup k : NoDup (map fst (zmembers s1 k)).
Proof. rewrite Mp_eq, map_map. apply (NoDup_live_elems now d k I). Qed.

Lemma Mp_fst k e : In e (map fst (zmembers s1 k)) <-> In e (map z_elem (live_zset_rows now d k)).
Proof. rewrite Mp_eq, map_map. reflexivity. Qed.

Lemma zq_pr : map pr (zq g need now d keys) = zorder false IP.
Proof. rewrite zq_unfold, zsorted_pr, map_map. reflexivity. Qed.

Lemma col_eq e : col (zmembers s1) e ks = keyscores now d keys e.
Proof. rewrite (col_ext _ _ e ks Mp_eq). apply col_keyscores. Qed.

Lemma zget_all e :
  zget all e = match keyscores now d keys e with [] => None | _ => Some (agg_scores g (keyscores now d keys e)) end.
Proof. unfold all. rewrite (zget_sall_nil g (zmembers s1) Mp_nodup), col_eq. reflexivity. Qed.

Lemma keyscores_nonempty e :
  keyscores now d keys e <> [] <-> exists k, In k keys /\ In e (map z_elem (live_zset_rows now d k)).
Proof.
  rewrite <- col_eq, col_nonempty. split; intros [k [Hk He]]; exists k.
  - split; [apply (proj1 (In_dedup _ _)); exact Hk | apply Mp_fst; exact He].
  - split; [apply (proj2 (In_dedup _ _)); exact Hk | apply Mp_fst; exact He].
Qed.

Lemma NoDup_all : NoDup (map fst all).
Proof. apply NoDup_sall. constructor. Qed.

Lemma keep_cond e :
  forallb (fun k => match zget (zmembers s1 k) e with Some _ => true | None => false end) ks = true <->
  forall k, In k keys -> In e (map z_elem (live_zset_rows now d k)).
Proof.
  rewrite forallb_forall. split; intros H k Hk.
  - apply Mp_fst. apply zget_some_fst. specialize (H k (proj2 (In_dedup _ _) Hk)).
    destruct (zget (zmembers s1 k) e); [discriminate | discriminate H].
  - apply (proj1 (In_dedup _ _)) in Hk. specialize (H k Hk). apply Mp_fst, zget_some_fst in H.
    destruct (zget (zmembers s1 k) e); [reflexivity | contradiction].
Qed.

Lemma groups_iff e : keys <> [] ->
  In e (zgroups need now d keys) <->
  keyscores now d keys e <> [] /\ (inter = true -> forall k, In k keys -> In e (map z_elem (live_zset_rows now d k))).
Proof.
  intros NE. unfold need. rewrite keyscores_nonempty. destruct inter.
  - rewrite (zgroups_inter now d keys e I NE). split.
    + intros H. split; [| intros _; exact H]. destruct keys as [|k0 ?]; [contradiction|].
      exists k0. split; [left; reflexivity | apply H; left; reflexivity].
    + intros [_ H]. apply H. reflexivity.
  - rewrite (zgroups_union now d keys e I). split; [intros H; split; [exact H | discriminate] | tauto].
Qed.

Lemma keep_iff e sc :
  In (e, sc) keep <->
  keyscores now d keys e <> [] /\ sc = agg_scores g (keyscores now d keys e) /\
  (inter = true -> forall k, In k keys -> In e (map z_elem (live_zset_rows now d k))).
Proof.
  assert (A : In (e, sc) all <-> keyscores now d keys e <> [] /\ sc = agg_scores g (keyscores now d keys e)).
  { split.
    - intros H. apply (in_zget _ _ _ NoDup_all) in H. rewrite zget_all in H.
      destruct (keyscores now d keys e); [discriminate|]. injection H as <-. split; [discriminate | reflexivity].
    - intros [H1 ->]. apply zget_in. rewrite zget_all. destruct (keyscores now d keys e); [contradiction | reflexivity]. }
  unfold keep. destruct inter.
  - rewrite filter_In, A. cbn [fst]. rewrite keep_cond. split.
    + intros [[H1 H2] H3]. auto.
    + intros [H1 [H2 H3]]. auto.
  - rewrite A. split; [intros [H1 H2]; split; [exact H1 | split; [exact H2 | discriminate]] | tauto].
Qed.

Lemma core_perm : keys <> [] -> Permutation (map normp IP) (map normp keep).
Proof.
  intros NE. apply NoDup_Permutation.
  - apply (NoDup_map_inv fst). unfold IP. rewrite !map_map. cbn [fst normp]. rewrite map_id. apply NoDup_zgroups.
  - apply (NoDup_map_inv fst). rewrite map_map. cbn [fst normp].
    unfold keep. destruct inter; [| apply NoDup_all].
    apply NoDup_map_filter. apply NoDup_all.
  - intros [e sc]. unfold IP. rewrite map_map, !in_map_iff. split.
    + intros [e0 [E H]]. unfold normp in E. cbn [fst snd] in E. injection E as -> <-.
      apply (groups_iff e NE) in H as [H1 H2].
      exists (e, agg_scores g (keyscores now d keys e)). split.
      * unfold normp. cbn [fst snd]. rewrite Hscore. reflexivity.
      * apply keep_iff. auto.
    + intros [[e0 sc0] [E H]]. unfold normp in E. cbn [fst snd] in E. injection E as -> <-.
      apply keep_iff in H as [H1 [-> H3]]. exists e. split.
      * unfold normp. cbn [fst snd]. rewrite Hscore. reflexivity.
      * apply (groups_iff e NE). auto.
Qed.

(* the specification's result, from the model's query *)
Lemma spec_from_zq :
  existsb (fun p => is_nanf (snd p)) (spec_zalg inter g s1 keys) = has_nan (zq g need now d keys) /\
  (has_nan (zq g need now d keys) = false ->
   spec_zalg inter g s1 keys = map normp (map pr (zq g need now d keys))).
Proof.
  assert (D : keys = [] \/ keys <> []) by (clear; destruct keys; [left; reflexivity | right; discriminate]).
  destruct D as [EK|NE].
  { unfold need. rewrite EK, zq_nil. cbn. auto. }
  rewrite spec_zalg_eq, (match_nonnil _ _ _ (dedup_nonnil _ NE)). fold ks. fold all. fold keep.
  change (fun p : bytes * float => (fst p, norm_score (snd p))) with normp.
  pose proof (core_perm NE) as P.
  assert (HN : has_nan (zq g need now d keys) = existsb (fun p => is_nanf (snd p)) (map normp IP)).
  { unfold has_nan. change (fun r : zrow => negb (z_score r =? z_score r)%float) with (fun r => is_nanf (snd (pr r))).
    rewrite <- (existsb_map' pr (fun p => is_nanf (snd p))), zq_pr.
    unfold zorder. rewrite (existsb_perm _ _ _ (perm_isort _ IP)).
    rewrite existsb_map'. apply existsb_ext'. intros p. symmetry. apply is_nanf_normp. }
  split.
  - rewrite HN. unfold zorder. rewrite (existsb_perm _ _ _ (perm_isort _ _)).
    symmetry. apply existsb_perm. exact P.
  - intros H. rewrite HN in H. rewrite zq_pr, zorder_normp. symmetry. apply zorder_perm_eq.
    + exact P.
    + unfold IP. rewrite !map_map. cbn [fst normp]. rewrite map_id. apply NoDup_zgroups.
    + apply Forall_forall. intros p Hp. unfold numpair, not_nan.
      pose proof (existsb_false_all _ _ H p Hp) as H'. clear H. rename H' into H. cbv beta in H. unfold is_nanf in H. apply negb_false_iff in H. exact H.
Qed.

End Core.

(* ================================================================== *)
(* Part 6: what the storing primitives do to the view                 *)
(* ================================================================== *)

Lemma ent_lv now v x : lv now x = true -> ent now v x = Some (mkEntry v x).
Proof. unfold ent. intros ->. reflexivity. Qed.

Lemma is_z_okz o : is_z o = true -> okz o = true.
Proof. destruct o as [[[]]|]; cbn; try discriminate; reflexivity. Qed.

Lemma notz_zmem o : is_z o = false -> zmem_of o = [].
Proof. destruct o as [[[]]|]; cbn; try discriminate; reflexivity. Qed.

(* sqlDeleteAll1 / sqlDeleteAll2 *)
Lemma zdelete_key_eff now key d :
  InvH None d ->
  exists d1, zset_delete_key now key d = (d1, Ok tt) /\ InvH None d1 /\
    forall k, view now d1 k =
      if String.eqb key k
      then (if is_z (view now d key) then ent now (AVZSet []) (exp_of (view now d key)) else view now d key)
      else view now d k.
Proof.
  intros I. destruct (live_key now d key T_ZSET) as [k0|] eqn:L.
  - pose proof (live_key_view_some _ _ _ _ I L) as V.
    assert (E : zset_delete_key now key d =
                (upd_key_id (k_id k0) (fun r => with_len (with_mtime (with_ver r 0) 0) (Some 0))
                   (set_rzset d (filter (fun r => negb (z_kid r =? k_id k0)) (rzset d))), Ok tt))
      by (unfold zset_delete_key; rewrite L; reflexivity).
    eexists. split; [exact E|].
    assert (I1 : InvH None (upd_key_id (k_id k0) (fun r => with_len (with_mtime (with_ver r 0) 0) (Some 0))
                   (set_rzset d (filter (fun r => negb (z_kid r =? k_id k0)) (rzset d)))))
      by (apply (pres_zset_delete_key now key d _ tt I E)).
    split; [exact I1|]. apply live_key_some in L as [Hk [Kk [Tk Lk]]].
    intros k.
    rewrite (view_zchange now d _ k0
               (fun r => if k_id r =? k_id k0 then with_len (with_mtime (with_ver r 0) 0) (Some 0) else r)
               I I1 Hk Tk); try reflexivity.
    + rewrite Kk. destruct (String.eqb key k); [| reflexivity].
      rewrite Lk, V. cbn [is_z exp_of en_exp]. rewrite ent_lv by (rewrite <- live_lv; exact Lk).
      f_equal. f_equal. f_equal. unfold zset_rows. cbn [rzset upd_key_id upd_keys set_rkey set_rzset].
      rewrite filter_filter, filter_none; [reflexivity|]. intros x _. destruct (z_kid x =? k_id k0); reflexivity.
    + intros r. destruct (k_id r =? k_id k0); cbn; auto.
    + intros id NE. cbn [rzset upd_key_id upd_keys set_rkey set_rzset]. rewrite filter_filter.
      apply filter_ext. intros x. destruct (Z.eqb_spec (z_kid x) (k_id k0)) as [E0|E0]; cbn [negb andb]; [| reflexivity].
      rewrite E0. symmetry. apply Z.eqb_neq. congruence.
  - exists d. split; [unfold zset_delete_key; rewrite L; reflexivity|]. split; [exact I|].
    intros k. rewrite (live_key_view_none _ _ _ I L). destruct (String.eqb_spec key k) as [<-|]; reflexivity.
Qed.

(* the items of a query result, added to an existing sorted-set key *)
Lemma zadd_all_eff kid items : forall d,
  InvH None d -> HasZ kid d -> has_nan items = false ->
  exists d' F, zset_add_all kid items d = (d', Ok tt) /\ InvH None d' /\
    rkey d' = map F (rkey d) /\
    (forall r, k_id (F r) = k_id r /\ k_key (F r) = k_key r /\ k_type (F r) = k_type r /\ k_etime (F r) = k_etime r) /\
    rstring d' = rstring d /\ rlist d' = rlist d /\ rset d' = rset d /\ rhash d' = rhash d /\
    (forall id, id <> kid -> filter (fun x => z_kid x =? id) (rzset d') = filter (fun x => z_kid x =? id) (rzset d)) /\
    map pr (zset_rows d' kid) =
      fold_left (fun l r => zput l (z_elem r) (norm_score (z_score r))) items (map pr (zset_rows d kid)).
Proof.
  induction items as [|it items IH]; intros d I Hz Hn.
  - exists d, (fun r => r). split; [reflexivity|]. split; [exact I|]. split; [symmetry; apply map_id|].
    split; [intros r; auto|]. do 4 (split; [reflexivity|]). split; [intros; reflexivity | reflexivity].
  - cbn [has_nan existsb] in Hn. apply orb_false_iff in Hn as [Hn1 Hn2].
    pose proof (zupsert_eff kid (z_elem it) (z_score it) (fun _ new => new) d I Hz) as H. cbv beta zeta in H.
    assert (X : match zget (map pr (zset_rows d kid)) (z_elem it) with Some _ => z_score it | None => z_score it end
                = z_score it) by (destruct (zget _ (z_elem it)); reflexivity).
    rewrite X in H. rewrite is_nanf_norm in H. unfold is_nanf in H. rewrite Hn1 in H.
    destruct H as [d1 [F1 [E1 [I1 [RK1 [HF1 [S1 [S2 [S3 [S4 [S5 Z1]]]]]]]]]]].
    assert (Hz1 : HasZ kid d1).
    { destruct Hz as [r [Hr [Er Tr]]]. exists (F1 r). destruct (HF1 r) as [A1 [_ [A3 _]]].
      split; [rewrite RK1; apply in_map; exact Hr|]. split; congruence. }
    destruct (IH d1 I1 Hz1 Hn2) as [d2 [F2 [E2 [I2 [RK2 [HF2 [T1 [T2 [T3 [T4 [T5 Z2]]]]]]]]]]].
    exists d2, (fun r => F2 (F1 r)). split.
    { cbn [zset_add_all]. rewrite (bind_ok _ _ _ _ _ E1). exact E2. }
    split; [exact I2|]. split; [rewrite RK2, RK1, map_map; reflexivity|].
    split.
    { intros r. destruct (HF1 r) as [A1 [A2 [A3 A4]]]. destruct (HF2 (F1 r)) as [B1 [B2 [B3 B4]]].
      repeat split; congruence. }
    split; [congruence|]. split; [congruence|]. split; [congruence|]. split; [congruence|].
    split; [intros id NE; rewrite T5, S5 by exact NE; reflexivity|].
    rewrite Z2, Z1. reflexivity.
Qed.

Lemma zput_fresh (l : zl) e v : ~ In e (map fst l) -> zput l e v = l ++ [(e, v)].
Proof.
  intros H. unfold zput. unfold bytes in *.
  destruct (existsb (fun p => String.eqb (fst p) e) l) eqn:X; [| reflexivity].
  exfalso. apply H. apply existsb_exists in X as [p [Hp E]]. apply String.eqb_eq in E. rewrite <- E.
  apply in_map. exact Hp.
Qed.

Lemma zput_fold items : forall (acc : zl),
  NoDup (map z_elem items) -> (forall r, In r items -> ~ In (z_elem r) (map fst acc)) ->
  fold_left (fun l r => zput l (z_elem r) (norm_score (z_score r))) items acc = acc ++ map normp (map pr items).
Proof.
  induction items as [|it items IH]; intros acc ND Hd; [cbn; rewrite app_nil_r; reflexivity|].
  cbn [map] in ND. inversion ND as [|? ? Hi ND']; subst.
  cbn [fold_left map]. rewrite zput_fresh by (apply Hd; left; reflexivity).
  rewrite IH; [rewrite <- app_assoc; reflexivity | exact ND' |].
  intros r Hr Hin. rewrite map_app in Hin. apply in_app_iff in Hin as [Hin | [Hin | []]].
  - apply (Hd r (or_intror Hr) Hin).
  - cbn [fst] in Hin. apply Hi. rewrite Hin. apply in_map. exact Hr.
Qed.

(* empty the destination, re-create it, add the items *)
Definition zreplace (now : Z) (dest : bytes) (items : list zrow) : M Z :=
  zset_delete_key now dest ;;;
  k <- zset_add1 now dest ;;
  zset_add_all (k_id k) items ;;;
  ret (zlen items).

Lemma zreplace_eff now dest items d :
  InvH None d -> NoDup (map z_elem items) -> has_nan items = false ->
  if okz (view now d dest) then
    exists d', zreplace now dest items d = (d', Ok (zlen items)) /\ InvH None d' /\
      forall k, view now d' k =
        if String.eqb dest k
        then ent now (AVZSet (map normp (map pr items))) (exp_of (view now d dest))
        else view now d k
  else exists d', zreplace now dest items d = (d', Err EKeyType).
Proof.
  intros I ND Hn. destruct (zdelete_key_eff now dest d I) as [d1 [E1 [I1 V1]]].
  pose proof (lv_exp_of now d dest) as Lx.
  assert (V1d : view now d1 dest =
                if is_z (view now d dest) then Some (mkEntry (AVZSet []) (exp_of (view now d dest))) else view now d dest).
  { rewrite V1, String.eqb_refl. destruct (is_z (view now d dest)); [apply ent_lv; exact Lx | reflexivity]. }
  assert (O1 : okz (view now d1 dest) = okz (view now d dest)).
  { rewrite V1d. destruct (is_z (view now d dest)) eqn:Z; [| reflexivity]. rewrite (is_z_okz _ Z). reflexivity. }
  assert (M1 : zmem_of (view now d1 dest) = []).
  { rewrite V1d. destruct (is_z (view now d dest)) eqn:Z; [reflexivity | apply notz_zmem; exact Z]. }
  assert (X1 : exp_of (view now d1 dest) = exp_of (view now d dest)).
  { rewrite V1d. destruct (is_z (view now d dest)); reflexivity. }
  pose proof (zadd1_eff now dest d1 I1) as H. rewrite O1 in H.
  destruct (okz (view now d dest)).
  2:{ destruct H as [d2 E2]. exists d2. unfold zreplace. rewrite (bind_ok _ _ _ _ _ E1).
      rewrite (bind_err _ _ _ _ _ E2). reflexivity. }
  destruct H as [d2 [k [E2 [I2 [Hk [Kk [Tk [Lk [Ek [Zk Fr]]]]]]]]]].
  rewrite M1 in Zk. rewrite X1 in Ek.
  assert (Hz : HasZ (k_id k) d2) by (exists k; auto).
  destruct (zadd_all_eff (k_id k) items d2 I2 Hz Hn) as [d3 [F [E3 [I3 [RK [HF [S1 [S2 [S3 [S4 [S5 Z3]]]]]]]]]]].
  rewrite Zk, zput_fold in Z3 by (try exact ND; intros r _ []). cbn [app] in Z3.
  exists d3. split.
  { unfold zreplace. rewrite (bind_ok _ _ _ _ _ E1). rewrite (bind_ok _ _ _ _ _ E2).
    rewrite (bind_ok _ _ _ _ _ E3). reflexivity. }
  split; [exact I3|]. intros k'.
  rewrite (view_zchange now d2 d3 k F I2 I3 Hk Tk RK HF S1 S2 S3 S4 S5 k'), Kk.
  destruct (String.eqb_spec dest k') as [E|E].
  - rewrite Lk, Z3, Ek. symmetry. apply ent_lv. exact Lx.
  - rewrite (view_frame now dest d1 d2 k') by (try (eapply InvH_names; eassumption); try exact Fr; congruence).
    rewrite V1. destruct (String.eqb_spec dest k'); [contradiction | reflexivity].
Qed.

(* ================================================================== *)
(* Part 7: the two steps                                              *)
(* ================================================================== *)

Lemma zq_normal_rows g need now d keys :
  (forall e, norm_score (agg_scores g (rowscores now d keys e)) = agg_scores g (rowscores now d keys e)) ->
  map normp (map pr (zq g need now d keys)) = map pr (zq g need now d keys).
Proof.
  intros Hn. rewrite map_map. apply map_ext_in. intros r Hr. rewrite zq_unfold in Hr.
  unfold z_sorted in Hr. apply In_isort in Hr. apply in_map_iff in Hr as [e [<- _]].
  unfold normp, pr. cbn [fst snd z_elem z_score]. rewrite Hn. reflexivity.
Qed.

Lemma item_rv_pr rows : map item_rv rows = map zitem_rv (map pr rows).
Proof. rewrite map_map. reflexivity. Qed.

Section ZAlgSteps.
Variable now : Z.
Variable d : db.
Variable s : sstate.
Hypothesis I : InvH None d.
Hypothesis HR : R now d s.

Let s1 := spurge now s.
Let G1' : forall k, sget s1 k = view now d k := G1 now d s I HR.
Let R1' : R now d s1 := R1 now d s HR.

Lemma step_ZAlg inter g keys :
  (forall e, norm_score (agg_scores g (rowscores now d keys e)) = norm_score (agg_scores g (keyscores now d keys e))) ->
  (forall e, norm_score (agg_scores g (rowscores now d keys e)) = agg_scores g (rowscores now d keys e)) ->
  step_refines now (ZAlg inter g keys) d s.
Proof.
  intros Hs Hn. destruct (spec_from_zq now d s I HR inter g keys Hs) as [EN EQ].
  change (spurge now s) with s1 in EN, EQ.
  set (Z := zq g (if inter then Some (zlen (dedup keys)) else None) now d keys) in *.
  assert (Es : spec_step now (ZAlg inter g keys) s =
               if existsb (fun p => is_nanf (snd p)) (spec_zalg inter g s1 keys)
               then (s1, out_err (ESql SqScanNull))
               else (s1, out_ok (VL (map zitem_rv (spec_zalg inter g s1 keys))))) by reflexivity.
  rewrite EN in Es.
  destruct (has_nan Z) eqn:HN.
  - eapply step_intro.
    + eapply exec_unwrapped_run; [reflexivity | reflexivity |]. unfold zset_alg. fold Z. rewrite HN. reflexivity.
    + exact Es.
    + apply out_equiv_refl. reflexivity.
    + exact R1'.
  - eapply step_intro.
    + eapply exec_unwrapped_run; [reflexivity | reflexivity |]. unfold zset_alg. fold Z. rewrite HN. reflexivity.
    + exact Es.
    + split; [reflexivity|]. cbn [proj_result res_out o_val out_ok].
      rewrite (EQ eq_refl). unfold Z. rewrite (zq_normal_rows g _ now d keys Hn), <- item_rv_pr. apply rve_refl.
    + exact R1'.
Qed.

Lemma step_ZStore inter g dest keys :
  (forall e, norm_score (agg_scores g (rowscores now d keys e)) = norm_score (agg_scores g (keyscores now d keys e))) ->
  step_refines now (ZStore inter g dest keys) d s.
Proof.
  intros Hs. destruct (spec_from_zq now d s I HR inter g keys Hs) as [EN EQ].
  change (spurge now s) with s1 in EN, EQ.
  set (Z := zq g (if inter then Some (zlen (dedup keys)) else None) now d keys) in *.
  assert (Es : spec_step now (ZStore inter g dest keys) s =
               if existsb (fun p => is_nanf (snd p)) (spec_zalg inter g s1 keys)
               then (s1, out_err (ESql SqScanNull))
               else if negb (okz (view now d dest)) then (s1, out_err EKeyType)
               else (sput_val s1 dest (AVZSet (spec_zalg inter g s1 keys)),
                     out_ok (VI (zlen (spec_zalg inter g s1 keys))))).
  { cbn [spec_step]. change (spurge now s) with s1. unfold spec_zstore. rewrite other_type_okz, G1'. reflexivity. }
  rewrite EN in Es.
  assert (Em : zset_store inter g now dest keys d =
               if has_nan Z then (d, Err (ESql SqScanNull)) else zreplace now dest Z d).
  { unfold zset_store, bind at 1, zset_alg. fold Z. destruct (has_nan Z); reflexivity. }
  destruct (has_nan Z) eqn:HN.
  - eapply step_intro.
    + eapply exec_wrapped_run; [reflexivity | reflexivity | exact Em].
    + exact Es.
    + apply out_equiv_refl. reflexivity.
    + exact R1'.
  - rewrite (EQ eq_refl) in Es.
    pose proof (zreplace_eff now dest Z d I (C05_alg_no_duplicates g _ now d keys) HN) as H.
    destruct (okz (view now d dest)); cbn [negb] in Es.
    + destruct H as [d' [E [I' V]]]. eapply step_intro.
      * eapply exec_wrapped_run; [reflexivity | reflexivity | rewrite Em; exact E].
      * exact Es.
      * split; [reflexivity|]. cbn [proj_result res_out o_val out_ok]. rewrite !zlen_map. apply rve_refl.
      * apply (R_zput now d s I HR); assumption.
    + destruct H as [d' E]. eapply step_intro.
      * eapply exec_wrapped_run; [reflexivity | reflexivity | rewrite Em; exact E].
      * exact Es.
      * apply out_equiv_refl. reflexivity.
      * exact R1'.
Qed.

End ZAlgSteps.

(* ================================================================== *)
(* Part 8: the side condition and the step theorem                    *)
(* ================================================================== *)

Definition nums (d : db) : Prop := Forall (fun r => not_nan (z_score r)) (rzset d).
Definition normals (d : db) : Prop := Forall (fun r => normal (z_score r)) (rzset d).

(* The side condition.
   - minimum / maximum: every stored score is a number (ZStore), and no stored score is -0 (ZAlg, whose
     result shows the aggregated score itself; the storing path normalises it);
   - sum: binary64 addition is not associative, the model adds the scores of a member in rowid order and
     the specification in the order of the key list: the two sums must agree. *)
Definition wf_zalg (o : op) (d : db) : Prop :=
  match o with
  | ZAlg _ GSum keys =>
      forall now e, agg_scores GSum (rowscores now d keys e) = norm_score (agg_scores GSum (keyscores now d keys e))
  | ZAlg _ _ _ => nums d /\ normals d
  | ZStore _ GSum _ keys =>
      forall now e, norm_score (agg_scores GSum (rowscores now d keys e)) =
                    norm_score (agg_scores GSum (keyscores now d keys e))
  | ZStore _ _ _ _ => nums d
  | _ => True
  end.

Lemma rowscores_sub now d keys e x : In x (rowscores now d keys e) -> exists r, In r (rzset d) /\ z_score r = x.
Proof.
  unfold rowscores, zrows_of_keys. intros H. apply in_map_iff in H as [r [E H]].
  apply filter_In in H as [H _]. apply filter_In in H as [H _]. exists r. auto.
Qed.

Lemma rowscores_forall (P : float -> Prop) now d keys e :
  Forall (fun r => P (z_score r)) (rzset d) -> Forall P (rowscores now d keys e).
Proof.
  intros H. rewrite Forall_forall in *. intros x Hx. apply rowscores_sub in Hx as [r [Hr <-]]. apply H. exact Hr.
Qed.

Lemma sel_scores_agree g now d keys e :
  InvH None d -> is_sum g = false -> nums d ->
  norm_score (agg_scores g (rowscores now d keys e)) = norm_score (agg_scores g (keyscores now d keys e)).
Proof.
  intros I G N. pose proof (rowscores_forall not_nan now d keys e N) as N1.
  pose proof (scores_perm now d keys e I) as P.
  assert (N2 : Forall not_nan (keyscores now d keys e)).
  { rewrite Forall_forall in *. intros x Hx. apply N1. apply (Permutation_in _ (Permutation_sym P)). exact Hx. }
  apply FK_norm_eq; [apply agg_sel_num; assumption | apply agg_sel_num; assumption |].
  apply agg_sel_perm; assumption.
Qed.

Theorem C05_zalg_step_refines_partial : forall now o d s,
  zalg_op o = true -> wf_zalg o d -> Inv d -> R now d s -> step_refines now o d s.
Proof.
  intros now o d s Ho Wf I HR. apply Inv_iff in I.
  destruct o; try discriminate Ho; cbn [wf_zalg] in Wf.
  - (* ZAlg *)
    destruct g.
    + apply step_ZAlg; try assumption.
      * intros e. rewrite Wf. apply norm_idem.
      * intros e. rewrite Wf. apply norm_idem.
    + destruct Wf as [N Nm]. apply step_ZAlg; try assumption.
      * intros e. apply sel_scores_agree; auto.
      * intros e. apply agg_sel_normal; [reflexivity | apply rowscores_forall; exact N | apply rowscores_forall; exact Nm].
    + destruct Wf as [N Nm]. apply step_ZAlg; try assumption.
      * intros e. apply sel_scores_agree; auto.
      * intros e. apply agg_sel_normal; [reflexivity | apply rowscores_forall; exact N | apply rowscores_forall; exact Nm].
  - (* ZStore *)
    apply step_ZStore; try assumption. destruct g.
    + intros e. apply Wf.
    + intros e. apply sel_scores_agree; auto.
    + intros e. apply sel_scores_agree; auto.
Qed.

(* ================================================================== *)
(* Part 9: why each clause of the side condition is there             *)
(* ================================================================== *)

Lemma rv_equiv_VL a b : rv_equiv (VL a) (VL b) -> a = b.
Proof. intros H. inversion H. reflexivity. Qed.

Lemma float_neq (a b : float) (q : float -> bool) : q a = true -> q b = false -> a <> b.
Proof. intros Ha Hb E. rewrite E in Ha. congruence. Qed.

Definition keys_of (o : op) : list bytes :=
  match o with ZAlg _ _ ks | ZStore _ _ _ ks => ks | _ => [] end.

(* (a) SUM over three keys: the model adds in rowid order ((1e16 + -1e16) + 1 = 1), the specification in
   the order of the key list ((1e16 + 1) + -1e16 = 0).  All scores are numbers, none is -0, the keys are
   distinct. *)
Definition cexs_d : db :=
  mkDb [mkKey 1 "a" 5 1 None 0 (Some 1); mkKey 2 "b" 5 1 None 0 (Some 1); mkKey 3 "c" 5 1 None 0 (Some 1)]
       [] [] [] []
       [mkZ 1 1 "x" 1e16; mkZ 2 3 "x" (-1e16); mkZ 3 2 "x" 1] true.

Theorem C05_zalg_step_refines_counterexample :
  ~ (forall now o d s, zalg_op o = true -> nums d -> normals d -> NoDup (keys_of o) ->
       Inv d -> R now d s -> step_refines now o d s).
Proof.
  intros H.
  assert (I0 : Inv cexs_d) by (split; vm_compute; reflexivity).
  assert (R0 : R 0 cexs_d (abs 0 cexs_d)).
  { split; [vm_compute; repeat constructor; cbn; intuition discriminate|]. intros k. reflexivity. }
  assert (N0 : nums cexs_d) by (repeat constructor; vm_compute; reflexivity).
  assert (M0 : normals cexs_d) by (repeat constructor; vm_compute; reflexivity).
  assert (K0 : NoDup (keys_of (ZAlg false GSum ["a"; "b"; "c"]))).
  { cbn. repeat constructor; cbn; intuition discriminate. }
  specialize (H 0 (ZAlg false GSum ["a"; "b"; "c"]) cexs_d (abs 0 cexs_d) eq_refl N0 M0 K0 I0 R0).
  unfold step_refines in H.
  assert (E1 : exec_db 0 (ZAlg false GSum ["a"; "b"; "c"]) cexs_d = (cexs_d, out_ok (VL [VL [VS "x"; VF 1]])))
    by (vm_compute; reflexivity).
  assert (E2 : snd (spec_step 0 (ZAlg false GSum ["a"; "b"; "c"]) (abs 0 cexs_d)) = out_ok (VL [VL [VS "x"; VF 0]]))
    by (vm_compute; reflexivity).
  rewrite E1 in H. destruct (spec_step 0 (ZAlg false GSum ["a"; "b"; "c"]) (abs 0 cexs_d)) as [s' r'].
  cbn [snd] in E2. subst r'. destruct H as [[_ Hv] _]. cbn in Hv. apply rv_equiv_VL in Hv.
  injection Hv as Hx. revert Hx.
  apply (float_neq 1 0 (fun f => (f =? 1)%float)); vm_compute; reflexivity.
Qed.

(* the same state, storing: the destination holds x = 1 in the model and x = 0 in the specification *)
Theorem C05_zstore_sum_counterexample :
  exists d s, Inv d /\ R 0 d s /\ nums d /\ normals d /\
    ~ step_refines 0 (ZStore false GSum "dst" ["a"; "b"; "c"]) d s.
Proof.
  exists cexs_d, (abs 0 cexs_d).
  split; [split; vm_compute; reflexivity|].
  split; [split; [vm_compute; repeat constructor; cbn; intuition discriminate | intros k; reflexivity]|].
  split; [repeat constructor; vm_compute; reflexivity|].
  split; [repeat constructor; vm_compute; reflexivity|].
  unfold step_refines.
  destruct (exec_db 0 (ZStore false GSum "dst" ["a"; "b"; "c"]) cexs_d) as [d' r] eqn:E1.
  destruct (spec_step 0 (ZStore false GSum "dst" ["a"; "b"; "c"]) (abs 0 cexs_d)) as [s' r'] eqn:E2.
  intros [_ [_ HR]]. specialize (HR "dst").
  apply (f_equal fst) in E1. apply (f_equal fst) in E2. cbn [fst] in E1, E2. subst d' s'.
  vm_compute in HR. injection HR as HR. revert HR.
  apply (float_neq 0 1 (fun f => (f =? 0)%float)); vm_compute; reflexivity.
Qed.

(* (b) a stored -0 (the write path never stores one, the invariant does not say so): the query shows it,
   the specification shows +0 *)
Definition cexn_d : db :=
  mkDb [mkKey 1 "a" 5 1 None 0 (Some 1)] [] [] [] [] [mkZ 1 1 "x" neg_zero] true.

Theorem C05_zalg_negzero_counterexample :
  ~ (forall now o d s, zalg_op o = true -> nums d -> (match o with ZAlg _ GSum _ | ZStore _ GSum _ _ => False | _ => True end) ->
       Inv d -> R now d s -> step_refines now o d s).
Proof.
  intros H.
  assert (I0 : Inv cexn_d) by (split; vm_compute; reflexivity).
  assert (R0 : R 0 cexn_d (abs 0 cexn_d)).
  { split; [vm_compute; repeat constructor; cbn; intuition discriminate|]. intros k. reflexivity. }
  assert (N0 : nums cexn_d) by (repeat constructor; vm_compute; reflexivity).
  specialize (H 0 (ZAlg false GMin ["a"]) cexn_d (abs 0 cexn_d) eq_refl N0 Logic.I I0 R0).
  unfold step_refines in H.
  assert (E1 : exec_db 0 (ZAlg false GMin ["a"]) cexn_d = (cexn_d, out_ok (VL [VL [VS "x"; VF neg_zero]])))
    by (vm_compute; reflexivity).
  assert (E2 : snd (spec_step 0 (ZAlg false GMin ["a"]) (abs 0 cexn_d)) = out_ok (VL [VL [VS "x"; VF 0]]))
    by (vm_compute; reflexivity).
  rewrite E1 in H. destruct (spec_step 0 (ZAlg false GMin ["a"]) (abs 0 cexn_d)) as [s' r'].
  cbn [snd] in E2. subst r'. destruct H as [[_ Hv] _]. cbn in Hv. apply rv_equiv_VL in Hv.
  injection Hv as Hx. revert Hx.
  apply (float_neq neg_zero 0 (fun f => (1 / f <? 0)%float)); vm_compute; reflexivity.
Qed.

(* (c) a stored NaN: the minimum depends on the order (the model reports the NULL aggregate, the
   specification finds 1) *)
Definition cexq_d : db :=
  mkDb [mkKey 1 "a" 5 1 None 0 (Some 1); mkKey 2 "b" 5 1 None 0 (Some 1)] [] [] [] []
       [mkZ 1 2 "x" nan; mkZ 2 1 "x" 1] true.

Theorem C05_zalg_nan_counterexample :
  ~ (forall now o d s, zalg_op o = true -> normals d -> (match o with ZAlg _ GSum _ | ZStore _ GSum _ _ => False | _ => True end) ->
       Inv d -> R now d s -> step_refines now o d s).
Proof.
  intros H.
  assert (I0 : Inv cexq_d) by (split; vm_compute; reflexivity).
  assert (R0 : R 0 cexq_d (abs 0 cexq_d)).
  { split; [vm_compute; repeat constructor; cbn; intuition discriminate|]. intros k. reflexivity. }
  assert (M0 : normals cexq_d) by (repeat constructor; vm_compute; reflexivity).
  specialize (H 0 (ZStore false GMin "dst" ["a"; "b"]) cexq_d (abs 0 cexq_d) eq_refl M0 Logic.I I0 R0).
  unfold step_refines in H.
  assert (E1 : snd (exec_db 0 (ZStore false GMin "dst" ["a"; "b"]) cexq_d) = out_err (ESql SqScanNull))
    by (vm_compute; reflexivity).
  assert (E2 : snd (spec_step 0 (ZStore false GMin "dst" ["a"; "b"]) (abs 0 cexq_d)) = out_ok (VI 1))
    by (vm_compute; reflexivity).
  destruct (exec_db 0 (ZStore false GMin "dst" ["a"; "b"]) cexq_d) as [d' r].
  destruct (spec_step 0 (ZStore false GMin "dst" ["a"; "b"]) (abs 0 cexq_d)) as [s' r'].
  cbn [snd] in E1, E2. subst r r'. destruct H as [[He _] _]. discriminate He.
Qed.

(* ================================================================== *)
(* Part 10: a checkable sufficient condition for SUM: at most two     *)
(*          distinct keys.  Needs one more binary64 fact (a sum is -0 *)
(*          only when both summands are), taken from Flocq: the       *)
(*          lemmas of this part - and only they - depend on the       *)
(*          axioms of the real numbers.                               *)
(* ================================================================== *)
From Coq Require Reals Lra Floats.
From Flocq Require Core BinarySingleNaN PrimFloat Plus_error.

Module NegZero.
Import Coq.Reals.Reals Coq.micromega.Lra Coq.Floats.Floats.
Import Flocq.Core.Core Flocq.IEEE754.BinarySingleNaN Flocq.IEEE754.PrimFloat Flocq.Prop.Plus_error.

Local Instance Hprec' : FLX.Prec_gt_0 prec := eq_refl _.
Local Instance Hmax' : Prec_lt_emax prec emax := eq_refl _.

Lemma Bplus_negzero (x y : binary_float prec emax) :
  @Bplus prec emax Hprec Hmax mode_NE x y = B754_zero true -> x = B754_zero true /\ y = B754_zero true.
Proof.
  destruct x as [sx|sx| |sx mx ex Hx], y as [sy|sy| |sy my ey Hy]; try (cbn; discriminate).
  - destruct sx, sy; cbn; try discriminate; auto.
  - cbn. destruct (Bool.eqb sx sy); discriminate.
  - intros H.
    pose proof (Bplus_correct prec emax Hprec Hmax mode_NE (B754_finite sx mx ex Hx) (B754_finite sy my ey Hy) eq_refl eq_refl) as C.
    rewrite H in C.
    destruct (Rlt_bool _ _).
    + destruct C as [C1 [_ C3]]. cbn [B2R Bsign] in C1, C3.
      set (X := F2R (Float radix2 (cond_Zopp sx (Z.pos mx)) ex)) in *.
      set (Y := F2R (Float radix2 (cond_Zopp sy (Z.pos my)) ey)) in *.
      assert (S0 : (X + Y = 0)%R).
      { destruct (Req_dec (X + Y) 0) as [E|NE]; [exact E|]. exfalso.
        refine (@round_plus_neq_0 radix2 (fexp prec emax) _ _ (round_mode mode_NE) _ X Y _ _ NE _).
        - apply (generic_format_B2R prec emax (B754_finite sx mx ex Hx)).
        - apply (generic_format_B2R prec emax (B754_finite sy my ey Hy)).
        - symmetry. exact C1. }
      rewrite S0, Rcompare_Eq in C3 by reflexivity.
      symmetry in C3. apply andb_prop in C3 as [-> ->].
      assert (X < 0)%R by (apply F2R_lt_0; cbn; lia).
      assert (Y < 0)%R by (apply F2R_lt_0; cbn; lia).
      lra.
    + destruct C as [C1 _]. cbn in C1. discriminate.
Qed.

Lemma fadd_negzero (a b : Coq.Floats.PrimFloat.float) :
  Prim2SF (a + b) = S754_zero true -> Prim2SF a = S754_zero true /\ Prim2SF b = S754_zero true.
Proof.
  intros H. rewrite <- B2SF_Prim2B, add_equiv in H.
  destruct (Bplus mode_NE (Prim2B a) (Prim2B b)) as [s0| | |] eqn:E; try discriminate H.
  cbn in H. injection H as ->. apply Bplus_negzero in E as [Ea Eb].
  rewrite <- (B2SF_Prim2B a), <- (B2SF_Prim2B b), Ea, Eb. split; reflexivity.
Qed.
End NegZero.

Lemma normal_iff a : normal a <-> FloatOps.Prim2SF a <> SpecFloat.S754_zero true.
Proof.
  unfold normal. split.
  - intros H E. apply (f_equal FloatOps.Prim2SF) in H. rewrite Prim2SF_norm, E in H. discriminate H.
  - intros H. apply prim_inj. rewrite Prim2SF_norm.
    destruct (FloatOps.Prim2SF a) as [[]| | |]; try reflexivity. contradiction.
Qed.

Lemma fadd_normal a b : normal a -> normal b -> normal (a + b)%float.
Proof.
  rewrite !normal_iff. intros Ha Hb E. apply NegZero.fadd_negzero in E as [E _]. contradiction.
Qed.

Lemma sum_perm_short l1 l2 :
  Permutation l1 l2 -> (List.length l1 <= 2)%nat -> agg_scores GSum l1 = agg_scores GSum l2.
Proof.
  intros P L. destruct l1 as [|a [|b [|c l1]]].
  - apply Permutation_nil in P. subst. reflexivity.
  - apply Permutation_length_1_inv in P. subst. reflexivity.
  - apply Permutation_length_2_inv in P as [-> | ->]; [reflexivity|]. cbn. apply fadd_comm.
  - cbn in L. lia.
Qed.

Lemma sum_normal_short l : (List.length l <= 2)%nat -> Forall normal l -> normal (agg_scores GSum l).
Proof.
  intros L N. destruct l as [|a [|b [|c l]]].
  - apply normal_zero.
  - inversion N; assumption.
  - inversion N as [|? ? Na N']; subst. inversion N' as [|? ? Nb _]; subst. cbn. apply fadd_normal; assumption.
  - cbn in L. lia.
Qed.

Lemma keyrows_length now d keys e : (List.length (keyrows now d keys e) <= List.length (dedup keys))%nat.
Proof.
  unfold keyrows. induction (dedup keys) as [|k ks IH]; [apply Nat.le_refl|].
  cbn [flat_map]. rewrite app_length. destruct (find _ (live_zset_rows now d k)); cbn [List.length app]; lia.
Qed.

(* with at most two distinct keys, numbers and no -0, the side condition holds *)
Theorem C05_wf_zalg_two_keys : forall o d,
  zalg_op o = true -> Inv d -> nums d -> normals d -> zlen (dedup (keys_of o)) <= 2 -> wf_zalg o d.
Proof.
  intros o d Ho I N Nm L. apply Inv_iff in I.
  assert (S : forall keys now e, zlen (dedup keys) <= 2 ->
              agg_scores GSum (rowscores now d keys e) = norm_score (agg_scores GSum (keyscores now d keys e))).
  { intros keys now e Lk. pose proof (scores_perm now d keys e I) as P.
    assert (L2 : (List.length (rowscores now d keys e) <= 2)%nat).
    { rewrite (Permutation_length P). unfold keyscores. rewrite map_length.
      pose proof (keyrows_length now d keys e). unfold zlen in Lk. lia. }
    rewrite <- (sum_perm_short _ _ P L2). symmetry.
    apply (sum_normal_short _ L2). apply rowscores_forall. exact Nm. }
  destruct o; try discriminate Ho; cbn [wf_zalg keys_of] in *.
  - destruct g; [| split; assumption | split; assumption]. intros now e. apply S. exact L.
  - destruct g; [| assumption | assumption]. intros now e. rewrite (S keys now e L). apply norm_idem.
Qed.

(* ================================================================== *)
(* Part 11: stored scores stay numbers under every operation          *)
(* ================================================================== *)

(* every sorted-set row of d' is a row of d *)
Definition zsub (d d' : db) : Prop := incl (rzset d') (rzset d).
Definition ZS {A} (m : M A) : Prop := forall d, zsub d (fst (m d)).

Lemma zsub_refl d : zsub d d.
Proof. apply incl_refl. Qed.
Lemma zsub_trans d1 d2 d3 : zsub d1 d2 -> zsub d2 d3 -> zsub d1 d3.
Proof. unfold zsub. intros H1 H2. eapply incl_tran; eassumption. Qed.

Lemma NP_zsub d d' : zsub d d' -> NP d -> NP d'.
Proof. intros H. apply NP_incl. exact H. Qed.

Lemma ZS_ret {A} (a : A) : ZS (ret a).
Proof. intros d. apply zsub_refl. Qed.
Lemma ZS_fail {A} e : ZS (@fail A e).
Proof. intros d. apply zsub_refl. Qed.
Lemma ZS_lift_read {A} (f : db -> A) : ZS (lift_read f).
Proof. intros d. apply zsub_refl. Qed.
Lemma ZS_get_db : ZS get_db.
Proof. intros d. apply zsub_refl. Qed.
Lemma ZS_RO {A} (m : M A) : RO m -> ZS m.
Proof. intros H d. rewrite H. apply zsub_refl. Qed.

Lemma ZS_bind {A B} (m : M A) (f : A -> M B) : ZS m -> (forall a, ZS (f a)) -> ZS (bind m f).
Proof.
  intros Hm Hf d. unfold bind. specialize (Hm d). destruct (m d) as [d1 [a|e]]; cbn [fst] in *.
  - eapply zsub_trans; [exact Hm | apply Hf].
  - exact Hm.
Qed.

Lemma ZS_try {A B} (m : M A) (f : res A -> M B) : ZS m -> (forall r, ZS (f r)) -> ZS (try_ m f).
Proof.
  intros Hm Hf d. unfold try_. specialize (Hm d). destruct (m d) as [d1 r]; cbn [fst] in *.
  eapply zsub_trans; [exact Hm | apply Hf].
Qed.

Lemma ZS_typed_error {A} (m : M A) : ZS m -> ZS (typed_error m).
Proof.
  intros Hm d. unfold typed_error. specialize (Hm d). destruct (m d) as [d1 r]; cbn [fst] in *.
  repeat match goal with |- context [match ?x with _ => _ end] => destruct x end; exact Hm.
Qed.

Ltac dm := repeat match goal with |- context [match ?x with _ => _ end] => destruct x eqn:? end.

Ltac zs :=
  repeat first
    [ assumption
    | solve [auto with zs]
    | apply ZS_ret | apply ZS_fail | apply ZS_lift_read | apply ZS_get_db
    | apply ZS_typed_error
    | apply ZS_bind; [| intros ?]
    | apply ZS_try; [| intros ?]
    | match goal with |- ZS (match ?x with _ => _ end) => destruct x end ].

(* ---- the schema-level primitives ---- *)

Lemma zsub_delete p d : zsub d (fst (delete_keys p d)).
Proof.
  unfold delete_keys, zsub. cbn [fst]. destruct (fk_on d); cbn [rzset set_rkey]; [apply incl_filter | apply incl_refl].
Qed.

Lemma zsub_reset now key typ d : zsub d (reset_expired now key typ d).
Proof. intros x. apply rzset_reset_incl. Qed.

Lemma ZS_upsert_key now key typ ne nl oc : ZS (upsert_key now key typ ne nl oc).
Proof.
  intros d. unfold upsert_key. destruct (find_key (reset_expired now key typ d) key) as [r|].
  - destruct (k_type r =? typ); cbn [fst]; [apply (zsub_reset now key typ d) | apply zsub_refl].
  - cbn [fst]. apply (zsub_reset now key typ d).
Qed.
#[local] Hint Resolve ZS_upsert_key : zs.

(* a statement that leaves the rzset table alone *)
Ltac same_rz :=
  let d := fresh "d" in intros d; cbv beta; dm; cbn [fst]; unfold zsub; exact (incl_refl (rzset d)).

Lemma ZS_sql_set2 key v : ZS (sql_set2 key v).
Proof. unfold sql_set2. same_rz. Qed.
Lemma ZS_bytes_args vs : ZS (bytes_args vs).
Proof. unfold bytes_args. destruct (values_bytes vs); zs. Qed.
Lemma ZS_bytes_arg v : ZS (bytes_arg v).
Proof. unfold bytes_arg. destruct (to_bytes v); zs. Qed.
Lemma ZS_scan_len r : ZS (scan_len r).
Proof. unfold scan_len. destruct (k_len r); zs. Qed.
#[local] Hint Resolve ZS_sql_set2 ZS_bytes_args ZS_bytes_arg ZS_scan_len : zs.

(* ---- keys ---- *)

Lemma ZS_key_delete now keys : ZS (key_delete now keys).
Proof.
  intros d. unfold key_delete. pose proof (zsub_delete (fun r => key_in keys r && live now r) d) as H.
  destruct (delete_keys _ d) as [d' n]. exact H.
Qed.
Lemma ZS_key_delete_all b : ZS (key_delete_all b).
Proof.
  intros d. unfold key_delete_all. pose proof (zsub_delete (fun _ => true) d) as H.
  destruct (delete_keys _ d) as [d' n]. destruct b; exact H.
Qed.
Lemma ZS_key_delete_expired now n : ZS (key_delete_expired now n).
Proof.
  intros d. unfold key_delete_expired. destruct (0 <? n).
  - match goal with |- context [delete_keys ?p d] => pose proof (zsub_delete p d) as H; destruct (delete_keys p d) end. exact H.
  - pose proof (zsub_delete (expired now) d) as H. destruct (delete_keys _ d). exact H.
Qed.
Lemma ZS_key_expire_at now key a : ZS (key_expire_at now key a).
Proof. unfold key_expire_at. same_rz. Qed.
Lemma ZS_key_persist now key : ZS (key_persist now key).
Proof. unfold key_persist. same_rz. Qed.
Lemma ZS_key_get now key : ZS (key_get now key).
Proof. unfold key_get. same_rz. Qed.
Lemma ZS_key_exists now key : ZS (key_exists now key).
Proof. unfold key_exists, key_count. zs. Qed.
Lemma ZS_sql_rename now key newkey : ZS (sql_rename now key newkey).
Proof.
  intros d. unfold sql_rename. destruct (live_any now d key) as [old|]; [| apply zsub_refl].
  match goal with |- context [delete_keys ?p d] => pose proof (zsub_delete p d) as H; destruct (delete_keys p d) end.
  exact H.
Qed.
#[local] Hint Resolve ZS_key_get ZS_key_exists ZS_sql_rename : zs.
Lemma ZS_key_rename now key newkey : ZS (key_rename now key newkey).
Proof. unfold key_rename. zs. Qed.
Lemma ZS_key_rename_nx now key newkey : ZS (key_rename_nx now key newkey).
Proof. unfold key_rename_nx. zs. Qed.

(* ---- strings ---- *)

Lemma ZS_str_get now key : ZS (str_get now key).
Proof. unfold str_get. same_rz. Qed.
Lemma ZS_str_set_at now key v a : ZS (str_set_at now key v a).
Proof. unfold str_set_at. zs. Qed.
Lemma ZS_str_update now key v : ZS (str_update now key v).
Proof. unfold str_update. zs. Qed.
#[local] Hint Resolve ZS_str_get ZS_str_set_at ZS_str_update : zs.
Lemma ZS_str_set_each now items : ZS (str_set_each now items).
Proof. induction items as [|[k v] r IH]; cbn [str_set_each]; zs. Qed.
#[local] Hint Resolve ZS_str_set_each : zs.
Lemma ZS_str_set_many now items : ZS (str_set_many now items).
Proof. unfold str_set_many. zs. Qed.
Lemma ZS_str_incr now key delta : ZS (str_incr now key delta).
Proof. unfold str_incr. zs. Qed.
Lemma ZS_str_incr_float now key delta parsed fmt : ZS (str_incr_float now key delta parsed fmt).
Proof. unfold str_incr_float. zs. Qed.
Lemma zsub_str_set_with now key v o d : zsub d (fst (str_set_with now key v o d)).
Proof.
  unfold str_set_with. destruct (negb (is_value_type v)); [apply zsub_refl|].
  destruct (str_get now key d) as [d0 r]. 
  destruct (so_ifx o && negb _); [apply zsub_refl|]. destruct (so_ifnx o && _); [apply zsub_refl|].
  match goal with |- context [(if so_keep o then ?a else ?b) d] =>
    assert (H : zsub d (fst ((if so_keep o then a else b) d))) by (destruct (so_keep o); [apply ZS_str_update | apply ZS_str_set_at]);
    destruct ((if so_keep o then a else b) d) as [d' w] end.
  destruct w; exact H.
Qed.

(* ---- lists ---- *)

Lemma rz_delete_rows now kid vs d : rzset (fst (delete_rows now kid vs d)) = rzset d.
Proof. unfold delete_rows, trig_list_delete. cbn [fst]. destruct (zlen vs =? 0); reflexivity. Qed.

Lemma zsub_let_delete_rows {A} now kid vs d (f : Z -> res A) :
  zsub d (fst (let '(d', n) := delete_rows now kid vs d in (d', f n))).
Proof.
  pose proof (rz_delete_rows now kid vs d) as H. destruct (delete_rows now kid vs d) as [d' n]. cbn [fst] in *.
  unfold zsub. rewrite H. apply incl_refl.
Qed.

Lemma ZS_insert_row kid pos elem : ZS (insert_row kid pos elem).
Proof. unfold insert_row. same_rz. Qed.
Lemma ZS_sql_insert now key : ZS (sql_insert now key).
Proof. unfold sql_insert. same_rz. Qed.
#[local] Hint Resolve ZS_insert_row ZS_sql_insert : zs.

Lemma ZS_list_push now key v front : ZS (list_push now key v front).
Proof. unfold list_push. zs. Qed.
Lemma ZS_list_pop now key back : ZS (list_pop now key back).
Proof.
  intros d. unfold list_pop. destruct (live_key now d key T_LIST) as [k|]; [| apply zsub_refl].
  destruct (if back then rows_desc d (k_id k) else rows_asc d (k_id k)) as [|r ?]; [apply zsub_refl|].
  apply (zsub_let_delete_rows now (k_id k) [r] d (fun _ => Ok (l_elem r))).
Qed.
Lemma ZS_list_delete now key v : ZS (list_delete now key v).
Proof.
  unfold list_delete. apply ZS_bind; [zs|]. intros elemb d.
  destruct (live_key now d key T_LIST) as [k|]; [| apply zsub_refl]. destruct elemb as [e|]; [| apply zsub_refl].
  apply (zsub_let_delete_rows now (k_id k) _ d (fun n => Ok n)).
Qed.
Lemma ZS_list_delete_n now key v count back : ZS (list_delete_n now key v count back).
Proof.
  unfold list_delete_n. destruct (count <=? 0); [zs|]. apply ZS_bind; [zs|]. intros elemb d.
  destruct (live_key now d key T_LIST) as [k|]; [| apply zsub_refl]. destruct elemb as [e|]; [| apply zsub_refl].
  apply (zsub_let_delete_rows now (k_id k) _ d (fun n => Ok n)).
Qed.
Lemma ZS_list_set now key idx v : ZS (list_set now key idx v).
Proof.
  unfold list_set. apply ZS_bind; [zs|]. intros elemb. unfold trig_list_update. same_rz.
Qed.
Lemma ZS_list_trim now key start stop : ZS (list_trim now key start stop).
Proof.
  intros d. unfold list_trim. destruct (live_key now d key T_LIST) as [r|]; [| apply zsub_refl].
  destruct (range_window (k_len r) start stop) as [off cnt].
  apply (zsub_let_delete_rows now (k_id r) _ d (fun n => Ok n)).
Qed.
Lemma zsub_list_insert now key pivot elem after d : zsub d (fst (list_insert now key pivot elem after d)).
Proof.
  unfold list_insert. destruct (to_bytes pivot) as [pb|]; [| apply zsub_refl].
  destruct (to_bytes elem) as [eb|]; [| apply zsub_refl].
  destruct (live_key now d key T_LIST) as [k0|]; [| apply zsub_refl].
  destruct (list_rows d (k_id k0)); [apply zsub_refl|].
  pose proof (ZS_insert_row (k_id k0) (insert_pos d (k_id k0) pb after) eb d) as H1.
  destruct (insert_row (k_id k0) (insert_pos d (k_id k0) pb after) eb d) as [d1 w]. cbn [fst] in H1.
  destruct w as [u|e].
  - pose proof (ZS_sql_insert now key d1) as H2. destruct (sql_insert now key d1) as [d2 r]. cbn [fst] in H2.
    assert (H : zsub d d2) by (eapply zsub_trans; eassumption).
    dm; exact H.
  - dm; exact H1.
Qed.
Lemma zsub_list_pop_push now src dest d : zsub d (fst (list_pop_push now src dest d)).
Proof.
  unfold list_pop_push. pose proof (ZS_list_pop now src true d) as H1.
  destruct (list_pop now src true d) as [d1 r]. cbn [fst] in H1. destruct r as [e|er]; [| exact H1].
  pose proof (ZS_list_push now dest (ABytes e) true d1) as H2.
  destruct (list_push now dest (ABytes e) true d1) as [d2 w]. cbn [fst] in H2.
  assert (H : zsub d d2) by (eapply zsub_trans; eassumption). destruct w; exact H.
Qed.

(* ---- sets ---- *)

Lemma ZS_set_add2 kid e : ZS (set_add2 kid e).
Proof. unfold set_add2. same_rz. Qed.
#[local] Hint Resolve ZS_set_add2 : zs.
Lemma ZS_set_add1 now key : ZS (set_add1 now key).
Proof. unfold set_add1. zs. Qed.
Lemma ZS_set_add_each kid es : forall n, ZS (set_add_each kid es n).
Proof. induction es as [|e r IH]; intros n; cbn [set_add_each]; zs. Qed.
Lemma ZS_set_add_all kid es : ZS (set_add_all kid es).
Proof. induction es as [|e r IH]; cbn [set_add_all]; zs. Qed.
#[local] Hint Resolve ZS_set_add1 ZS_set_add_each ZS_set_add_all : zs.
Lemma ZS_set_add now key vs : ZS (set_add now key vs).
Proof. unfold set_add. zs. Qed.
Lemma ZS_set_delete now key vs : ZS (set_delete now key vs).
Proof. unfold set_delete. apply ZS_bind; [zs|]. intros elembs. same_rz. Qed.
Lemma ZS_set_delete_key now key : ZS (set_delete_key now key).
Proof. unfold set_delete_key. same_rz. Qed.
Lemma ZS_set_alg a now keys : ZS (set_alg a now keys).
Proof. unfold set_alg. destruct keys; zs. Qed.
#[local] Hint Resolve ZS_set_add ZS_set_delete ZS_set_delete_key ZS_set_alg : zs.
Lemma ZS_set_store a now dest keys : ZS (set_store a now dest keys).
Proof. unfold set_store, set_replace. destruct keys; zs. Qed.
Lemma ZS_set_move now src dest v : ZS (set_move now src dest v).
Proof. unfold set_move. zs. Qed.
Lemma ZS_set_pop now key c : ZS (set_pop now key c).
Proof. unfold set_pop. same_rz. Qed.

(* ---- hashes ---- *)

Lemma ZS_hash_set2 kid f v : ZS (hash_set2 kid f v).
Proof. unfold hash_set2. same_rz. Qed.
Lemma ZS_hash_get now key f : ZS (hash_get now key f).
Proof. unfold hash_get. same_rz. Qed.
#[local] Hint Resolve ZS_hash_set2 ZS_hash_get : zs.
Lemma ZS_hash_set_raw now key f v : ZS (hash_set_raw now key f v).
Proof. unfold hash_set_raw, hash_set1. zs. Qed.
#[local] Hint Resolve ZS_hash_set_raw : zs.
Lemma ZS_hash_delete now key fs : ZS (hash_delete now key fs).
Proof. unfold hash_delete. same_rz. Qed.
Lemma ZS_hash_incr now key f dl : ZS (hash_incr now key f dl).
Proof. unfold hash_incr. zs. Qed.
Lemma ZS_hash_incr_float now key f dl parsed fmt : ZS (hash_incr_float now key f dl parsed fmt).
Proof. unfold hash_incr_float. zs. Qed.
Lemma ZS_hash_set now key f v : ZS (hash_set now key f v).
Proof. unfold hash_set, hash_count. zs. Qed.
Lemma ZS_hash_set_each now key items : ZS (hash_set_each now key items).
Proof. induction items as [|[f v] r IH]; cbn [hash_set_each]; zs. Qed.
#[local] Hint Resolve ZS_hash_set_each : zs.
Lemma ZS_hash_set_many now key items : ZS (hash_set_many now key items).
Proof. unfold hash_set_many, hash_count. zs. Qed.
Lemma ZS_hash_set_nx now key f v : ZS (hash_set_nx now key f v).
Proof. unfold hash_set_nx, hash_exists, hash_count. zs. Qed.

(* ---- storing a union / intersection ---- *)

Lemma NP_add_all kid rows : hoare NP (zset_add_all kid rows) (fun _ => NP).
Proof.
  induction rows as [|r rest IH]; cbn [zset_add_all].
  - apply hoare_ret. auto.
  - eapply hoare_bind; [apply NP_upsert|]. intros ?. exact IH.
Qed.

Lemma NP_delete_key now key : hoare NP (zset_delete_key now key) (fun _ => NP).
Proof.
  intros d d' a Hd. unfold zset_delete_key. destruct (live_key now d key T_ZSET) as [k|]; intros E; inversion E; subst; [| exact Hd].
  eapply NP_incl; [| exact Hd]. cbn [rzset upd_key_id upd_keys set_rkey set_rzset]. intros x Hx. apply filter_In in Hx. tauto.
Qed.

Lemma NP_zset_store inter g now dest keys : hoare NP (zset_store inter g now dest keys) (fun _ => NP).
Proof.
  unfold zset_store. apply hoare_bind_read; [intros d; apply RO_zset_alg|]. intros items.
  eapply hoare_bind; [apply NP_delete_key|]. intros ?.
  eapply hoare_bind; [apply NP_add1|]. intros k.
  eapply hoare_bind; [apply NP_add_all|]. intros ?. apply hoare_ret. auto.
Qed.

Lemma exec_db_fst_cases now o d :
  fst (exec_db now o d) = d \/ fst (exec_db now o d) = fst (exec_tx (wrapped o) now o d).
Proof.
  unfold exec_db. destruct (exec_tx (wrapped o) now o d) as [d' r]. destruct (wrapped o && is_err r); auto.
Qed.

Lemma zsub_run {A} (m : M A) f d : ZS m -> zsub d (fst (run m f d)).
Proof. intros H. rewrite run_fst. apply H. Qed.

(* the operations that never add a sorted-set row *)
Definition zwriter (o : op) : bool :=
  match o with ZAdd _ _ _ | ZAddMany _ _ | ZIncr _ _ _ | ZStore _ _ _ _ => true | _ => false end.

Lemma exec_tx_zsub b now o d : zwriter o = false -> zset_op o = false -> zsub d (fst (exec_tx b now o d)).
Proof.
  intros W Zo. destruct (is_read o) eqn:Rd; [rewrite read_no_trace by exact Rd; apply zsub_refl|].
  destruct o; try discriminate W; try discriminate Zo; try discriminate Rd; cbn [exec_tx];
    try (apply zsub_run);
    first [ apply ZS_key_delete | apply ZS_key_delete_all | apply ZS_key_delete_expired | apply ZS_key_expire_at
          | apply ZS_key_persist | apply ZS_key_rename | apply ZS_key_rename_nx
          | apply ZS_str_incr | apply ZS_str_incr_float | apply ZS_str_set_at | apply ZS_str_set_many
          | apply zsub_str_set_with
          | apply ZS_list_delete | apply ZS_list_delete_n | apply zsub_list_insert | apply ZS_list_pop
          | apply zsub_list_pop_push | apply ZS_list_push | apply ZS_list_set | apply ZS_list_trim
          | apply ZS_set_add | apply ZS_set_delete | apply ZS_set_store | apply ZS_set_move | apply ZS_set_pop
          | apply ZS_hash_delete | apply ZS_hash_incr | apply ZS_hash_incr_float | apply ZS_hash_set
          | apply ZS_hash_set_many | apply ZS_hash_set_nx ].
Qed.

Theorem C05_scores_stay_numbers_all : forall now o d,
  Forall (fun r => not_nan (z_score r)) (rzset d) ->
  Forall (fun r => not_nan (z_score r)) (rzset (fst (exec_db now o d))).
Proof.
  intros now o d Hd.
  destruct (zset_op o) eqn:Zo; [apply C05_scores_stay_numbers; assumption|].
  change (NP (fst (exec_db now o d))). change (NP d) in Hd.
  destruct (zwriter o) eqn:W.
  - destruct o; try discriminate W; try discriminate Zo.
    rewrite exec_wrapped_fst by reflexivity. cbn [exec_tx]. apply NP_run_wrapped; [apply NP_zset_store | exact Hd].
  - destruct (exec_db_fst_cases now o d) as [E|E]; rewrite E; [exact Hd|].
    eapply NP_zsub; [apply exec_tx_zsub; assumption | exact Hd].
Qed.

(* ---- and no operation ever stores -0: the other premise of the union / intersection queries is an
        invariant too ---- *)

Lemma normals_zsub d d' : zsub d d' -> normals d -> normals d'.
Proof. unfold normals, zsub. rewrite !Forall_forall. intros H Hd x Hx. apply Hd, H, Hx. Qed.

Lemma ZS_hoare {A} (m : M A) : ZS m -> hoare normals m (fun _ => normals).
Proof. intros H d d' a Hd E. pose proof (H d) as S. rewrite E in S. eapply normals_zsub; eassumption. Qed.

Lemma NQ_upsert kid e sc cmb : hoare normals (zset_upsert kid e sc cmb) (fun _ => normals).
Proof.
  intros d d' a Hd. unfold zset_upsert. destruct e as [e|]; [| discriminate].
  destruct (find _ (rzset d)) as [old|].
  - destruct (negb _); [discriminate|]. intros E. inversion E; subst. unfold normals in *. cbn [rzset set_rzset].
    rewrite Forall_forall in *. intros x Hx. apply in_map_iff in Hx as [y [<- Hy]]. destruct (_ && _); [| auto].
    cbn [z_score]. apply normal_norm.
  - destruct (negb _); [discriminate|]. intros E. inversion E; subst. unfold normals in *.
    cbn [rzset set_rzset upd_key_id upd_keys set_rkey]. apply Forall_app. split; [exact Hd|].
    constructor; [| constructor]. cbn [z_score]. apply normal_norm.
Qed.

Lemma ZS_zset_add1 now key : ZS (zset_add1 now key).
Proof. unfold zset_add1. zs. Qed.

Lemma NQ_add_raw now key v sc : hoare normals (zset_add_raw now key v sc) (fun _ => normals).
Proof.
  unfold zset_add_raw. destruct (to_bytes v); [| apply hoare_fail].
  eapply hoare_bind; [apply ZS_hoare, ZS_zset_add1|]. intros k.
  eapply hoare_bind; [apply NQ_upsert|]. intros ?. apply hoare_ret. auto.
Qed.

Lemma NQ_add_each now key items : hoare normals (zset_add_each now key items) (fun _ => normals).
Proof.
  induction items as [|[v sc] r IH]; cbn [zset_add_each].
  - apply hoare_ret. auto.
  - eapply hoare_bind; [apply NQ_add_raw|]. intros ?. exact IH.
Qed.

Lemma NQ_add_all kid rows : hoare normals (zset_add_all kid rows) (fun _ => normals).
Proof.
  induction rows as [|r rest IH]; cbn [zset_add_all].
  - apply hoare_ret. auto.
  - eapply hoare_bind; [apply NQ_upsert|]. intros ?. exact IH.
Qed.

Lemma ZS_zset_delete_key now key : ZS (zset_delete_key now key).
Proof.
  intros d. unfold zset_delete_key. destruct (live_key now d key T_ZSET) as [k|]; [| apply zsub_refl].
  cbn [fst]. unfold zsub. cbn [rzset upd_key_id upd_keys set_rkey set_rzset]. apply incl_filter.
Qed.

Lemma ZS_delete_zrows now key vs : ZS (delete_zrows now key vs).
Proof.
  intros d. unfold delete_zrows. destruct (zlen vs =? 0); [apply zsub_refl|].
  cbn [fst]. unfold zsub. cbn [rzset bump_key_len upd_keys set_rkey set_rzset]. apply incl_filter.
Qed.

Lemma ZS_zset_delete now key vs : ZS (zset_delete now key vs).
Proof.
  unfold zset_delete. apply ZS_bind; [zs|]. intros elembs d.
  destruct (live_key now d key T_ZSET) as [k|]; [| apply zsub_refl]. cbv zeta.
  destruct (_ =? 0); [apply zsub_refl|].
  cbn [fst]. unfold zsub. cbn [rzset bump_key_len upd_keys set_rkey set_rzset]. apply incl_filter.
Qed.

Lemma ZS_zset_delete_rank now key a b : ZS (zset_delete_rank now key a b).
Proof.
  unfold zset_delete_rank. destruct ((a <? 0) || (b <? 0)); [zs|]. destruct (b <? a); [zs|].
  apply ZS_bind; [zs|]. intros d0. apply ZS_delete_zrows.
Qed.

Lemma ZS_zset_delete_score now key lo hi : ZS (zset_delete_score now key lo hi).
Proof. unfold zset_delete_score. apply ZS_bind; [zs|]. intros d0. apply ZS_delete_zrows. Qed.

Lemma normals_run_wrapped {A} (m : M A) f d :
  hoare normals m (fun _ => normals) -> normals d ->
  normals (if is_err (snd (run m f d)) then d else fst (run m f d)).
Proof.
  intros Hm Hd. unfold run. destruct (m d) as [d' r] eqn:E. destruct r as [a|e]; cbn.
  - eapply Hm; eauto.
  - exact Hd.
Qed.

Theorem C05_scores_stay_normal_all : forall now o d,
  Forall (fun r => normal (z_score r)) (rzset d) ->
  Forall (fun r => normal (z_score r)) (rzset (fst (exec_db now o d))).
Proof.
  intros now o d Hd. change (normals (fst (exec_db now o d))). change (normals d) in Hd.
  destruct (is_read o) eqn:Rd.
  { rewrite exec_unwrapped_fst by (apply read_not_wrapped, Rd). rewrite read_no_trace by exact Rd. exact Hd. }
  destruct (zset_op o || zwriter o) eqn:Zo.
  - destruct o; try discriminate Zo; try discriminate Rd;
      rewrite exec_wrapped_fst by reflexivity; cbn [exec_tx]; apply normals_run_wrapped; try exact Hd.
    + unfold zset_add. apply hoare_bind_read; [apply readonly_bytes_args|]. intros elembs.
      apply hoare_bind_read; [apply readonly_lift_read|]. intros c.
      eapply hoare_bind; [apply NQ_add_raw|]. intros ?. apply hoare_ret. auto.
    + unfold zset_add_many. apply hoare_bind_read; [apply readonly_bytes_args|]. intros elembs.
      apply hoare_bind_read; [apply readonly_lift_read|]. intros c.
      eapply hoare_bind; [apply NQ_add_each|]. intros ?. apply hoare_ret. auto.
    + apply ZS_hoare, ZS_zset_delete.
    + apply ZS_hoare, ZS_zset_delete_rank.
    + apply ZS_hoare, ZS_zset_delete_score.
    + unfold zset_incr. apply hoare_bind_read; [apply readonly_bytes_args|]. intros elembs.
      eapply hoare_bind; [apply ZS_hoare, ZS_zset_add1|]. intros k. apply NQ_upsert.
    + unfold zset_store. apply hoare_bind_read; [intros d0; apply RO_zset_alg|]. intros items.
      eapply hoare_bind; [apply ZS_hoare, ZS_zset_delete_key|]. intros ?.
      eapply hoare_bind; [apply ZS_hoare, ZS_zset_add1|]. intros k.
      eapply hoare_bind; [apply NQ_add_all|]. intros ?. apply hoare_ret. auto.
  - apply orb_false_iff in Zo as [Zo W].
    destruct (exec_db_fst_cases now o d) as [E|E]; rewrite E; [exact Hd|].
    eapply normals_zsub; [apply exec_tx_zsub; assumption | exact Hd].
Qed.

(* ================================================================== *)
(* Part 12: C02, the pivot inserts of lists                           *)
(* ================================================================== *)

Lemma fminF_in l : forall m m', fold_left fminF l (Some m) = Some m' -> m' = m \/ In m' l.
Proof.
  induction l as [|p r IH]; intros m m' H; cbn [fold_left] in H.
  - injection H as <-. left. reflexivity.
  - unfold fminF at 2 in H. destruct (p <? m)%float; apply IH in H as [-> | H]; cbn; auto.
Qed.

Lemma fmin_in l m : fmin l = Some m -> In m l.
Proof.
  unfold fmin. change (fun acc p => _) with fminF. destruct l as [|p r]; [discriminate|].
  cbn [fold_left fminF]. intros H. apply fminF_in in H as [-> | H]; [left | right]; auto.
Qed.

Lemma fmaxF_in l : forall m m', fold_left fmaxF l (Some m) = Some m' -> m' = m \/ In m' l.
Proof.
  induction l as [|p r IH]; intros m m' H; cbn [fold_left] in H.
  - injection H as <-. left. reflexivity.
  - unfold fmaxF at 2 in H. destruct (m <? p)%float; apply IH in H as [-> | H]; cbn; auto.
Qed.

Lemma fmax_in l m : fmax l = Some m -> In m l.
Proof.
  unfold fmax. change (fun acc p => _) with fmaxF. destruct l as [|p r]; [discriminate|].
  cbn [fold_left fmaxF]. intros H. apply fmaxF_in in H as [-> | H]; [left | right]; auto.
Qed.

Lemma split_first {A} (q : A -> bool) l :
  (exists x, In x l /\ q x = true) ->
  exists l1 x0 l2, l = l1 ++ x0 :: l2 /\ q x0 = true /\ forall y, In y l1 -> q y = false.
Proof.
  induction l as [|a l IH]; intros [x [Hx Q]]; [destruct Hx|].
  destruct (q a) eqn:Qa.
  - exists [], a, l. split; [reflexivity|]. split; [exact Qa | intros y []].
  - destruct Hx as [-> | Hx]; [congruence|].
    destruct (IH (ex_intro _ x (conj Hx Q))) as [l1 [x0 [l2 [E [Q0 H1]]]]].
    exists (a :: l1), x0, l2. split; [rewrite E; reflexivity|]. split; [exact Q0|].
    intros y [<- | Hy]; [exact Qa | apply H1; exact Hy].
Qed.

Lemma insert_at_pivot_split pv e after (A1 : list lrow) x0 A2 :
  l_elem x0 = pv -> (forall y, In y A1 -> l_elem y <> pv) ->
  insert_at_pivot pv e after (map l_elem (A1 ++ x0 :: A2)) =
  Some (map l_elem A1 ++ (if after then pv :: e :: map l_elem A2 else e :: pv :: map l_elem A2)).
Proof.
  intros E0 H. induction A1 as [|a A1 IH]; cbn [app map insert_at_pivot].
  - rewrite E0, String.eqb_refl. destruct after; reflexivity.
  - destruct (String.eqb_spec (l_elem a) pv) as [E|E]; [exfalso; apply (H a (or_introl eq_refl) E)|].
    rewrite IH by (intros y Hy; apply H; right; exact Hy). reflexivity.
Qed.

Lemma insert_at_pivot_none pv e after l : ~ In pv l -> insert_at_pivot pv e after l = None.
Proof.
  induction l as [|x l IH]; intros H; [reflexivity|]. cbn [insert_at_pivot].
  destruct (String.eqb_spec x pv) as [E|E]; [exfalso; apply H; left; exact E|].
  rewrite IH; [reflexivity|]. intros Hin. apply H. right. exact Hin.
Qed.

Lemma SS_app_inv {A} (Rl : A -> A -> Prop) l1 x l2 :
  StronglySorted Rl (l1 ++ x :: l2) -> (forall y, In y l1 -> Rl y x) /\ (forall y, In y l2 -> Rl x y).
Proof.
  induction l1 as [|a l1 IH]; cbn [app]; intros S; inversion S as [|? ? S' F]; subst.
  - split; [intros y [] | rewrite Forall_forall in F; exact F].
  - destruct (IH S') as [H1 H2]. split; [| exact H2].
    intros y [<- | Hy]; [| apply H1; exact Hy]. rewrite Forall_forall in F. apply F. apply in_or_app. right. left. reflexivity.
Qed.

Lemma SS_insert_mid {A} (Rl : A -> A -> Prop) l1 x l2 :
  StronglySorted Rl (l1 ++ l2) -> (forall y, In y l1 -> Rl y x) -> (forall y, In y l2 -> Rl x y) ->
  StronglySorted Rl (l1 ++ x :: l2).
Proof.
  induction l1 as [|a l1 IH]; cbn [app]; intros S H1 H2.
  - constructor; [exact S | rewrite Forall_forall; exact H2].
  - inversion S as [|? ? S' F]; subst. constructor.
    + apply IH; [exact S' | intros y Hy; apply H1; right; exact Hy | exact H2].
    + rewrite Forall_forall in *. intros y Hy. apply in_app_iff in Hy as [Hy | [<- | Hy]].
      * apply F. apply in_or_app. left. exact Hy.
      * apply H1. left. reflexivity.
      * apply F. apply in_or_app. right. exact Hy.
Qed.

(* the new position did not collide with an existing one *)
Definition insert_free (now : Z) (o : op) (d : db) : Prop :=
  forall c, o_err (snd (exec_db now o d)) <> Some (ESql (SqUnique c)).

Definition is_linsert (o : op) : Prop :=
  match o with LInsertAfter _ _ _ | LInsertBefore _ _ _ => True | _ => False end.

Section LInsertGen.
  Hypothesis fle_refl : forall x, (x =? x)%float = true -> (x <=? x)%float = true.
  Hypothesis fle_trans : forall x y z, (x <=? y)%float = true -> (y <=? z)%float = true -> (x <=? z)%float = true.
  Hypothesis fle_total : forall x y, (x =? x)%float = true -> (y =? y)%float = true -> (x <=? y)%float = true \/ (y <=? x)%float = true.
  Hypothesis flt_le : forall x y, (x <? y)%float = true <-> ((x <=? y)%float = true /\ (y <=? x)%float = false).
  Hypothesis feq_le : forall x y, (x =? y)%float = true <-> ((x <=? y)%float = true /\ (y <=? x)%float = true).
  Hypothesis fle_num : forall x y, (x <=? y)%float = true -> (x =? x)%float = true /\ (y =? y)%float = true.
  Hypothesis fadd1_ge : forall x, (x =? x)%float = true -> (x <=? x + 1)%float = true.
  Hypothesis fsub1_le : forall x, (x =? x)%float = true -> (x - 1 <=? x)%float = true.
  Hypothesis fzero_num : (zero =? zero)%float = true.
  (* the midpoint lies between, for the positions that satisfy [small] (the unrestricted statement is
     false in binary64: see fmid_between_false below) *)
  Variable small : float -> bool.
  Hypothesis fmid_small : forall a b, small a = true -> small b = true -> (a <? b)%float = true ->
    (a <=? (a + b) / 2)%float = true /\ ((a + b) / 2 <=? b)%float = true.

  Let rows_PosOK' := rows_PosOK feq_le fzero_num.
  Let rows_asc_SS' := rows_asc_SS fle_trans fle_total feq_le fzero_num.
  Let rows_asc_char' := rows_asc_char fle_trans fle_total feq_le fzero_num.
  Let fmin_spec' := fmin_spec fle_refl fle_trans fle_total flt_le fle_num.
  Let fmax_spec' := fmax_spec fle_refl fle_trans fle_total flt_le fle_num.
  Let live_list_facts' := live_list_facts fzero_num.

  Lemma insert_pos_spec d kid pv after :
    InvH None d -> (forall x, In x (list_rows d kid) -> small (l_pos x) = true) ->
    match insert_pos d kid (Some pv) after with
    | None => ~ In pv (map l_elem (rows_asc d kid))
    | Some m =>
        exists A1 x0 A2, rows_asc d kid = A1 ++ x0 :: A2 /\ l_elem x0 = pv /\
          (forall y, In y A1 -> l_elem y <> pv) /\ (m =? m)%float = true /\
          (forall y, In y (if after then A1 ++ [x0] else A1) -> (l_pos y <=? m)%float = true) /\
          (forall y, In y (if after then A2 else x0 :: A2) -> (m <=? l_pos y)%float = true)
    end.
  Proof.
    intros I Hsm. unfold insert_pos.
    set (rows := list_rows d kid) in *. set (A := rows_asc d kid).
    destruct (rows_PosOK' d kid I) as [Num Inj]. fold rows in Num, Inj.
    assert (InA : forall x, In x A <-> In x rows) by (intros x; apply rows_asc_in).
    set (atp := map l_pos (filter (fun r => String.eqb (l_elem r) pv) rows)).
    assert (NumAtp : forall p, In p atp -> (p =? p)%float = true).
    { intros p Hp. apply in_map_iff in Hp as [x [<- Hx]]. apply filter_In in Hx as [Hx _]. apply Num. exact Hx. }
    pose proof (fmin_spec' atp NumAtp) as FS. destruct (fmin atp) as [p|] eqn:FM.
    2:{ intros Hin. apply in_map_iff in Hin as [x [Ex Hx]]. apply InA in Hx.
        assert (Hf : In x (filter (fun r => String.eqb (l_elem r) pv) rows)).
        { apply filter_In. split; [exact Hx | apply String.eqb_eq; exact Ex]. }
        apply (in_map l_pos) in Hf. fold atp in Hf. rewrite FS in Hf. destruct Hf. }
    destruct FS as [Np Minp]. apply fmin_in in FM. unfold atp in FM. apply in_map_iff in FM as [x' [Ex' Hx']].
    apply filter_In in Hx' as [Hx' Qx']. apply String.eqb_eq in Qx'.
    destruct (split_first (fun r => String.eqb (l_elem r) pv) A) as [A1 [x0 [A2 [EA [Q0 NA1]]]]].
    { exists x'. split; [apply InA; exact Hx' | apply String.eqb_eq; exact Qx']. }
    apply String.eqb_eq in Q0.
    assert (NA1' : forall y, In y A1 -> l_elem y <> pv).
    { intros y Hy E. apply NA1 in Hy. apply String.eqb_neq in Hy. contradiction. }
    pose proof (rows_asc_SS' d kid I) as SS. fold A in SS. rewrite EA in SS.
    destruct (SS_app_inv _ _ _ _ SS) as [Lo Hi]. unfold leP, pos_leb in Lo, Hi.
    pose proof (rows_asc_NoDup d kid I) as ND. fold A in ND. rewrite EA in ND.
    assert (Hx0 : In x0 rows) by (apply InA; rewrite EA; apply in_or_app; right; left; reflexivity).
    assert (HA1 : forall y, In y A1 -> In y rows) by (intros y Hy; apply InA; rewrite EA; apply in_or_app; left; exact Hy).
    assert (HA2 : forall y, In y A2 -> In y rows) by (intros y Hy; apply InA; rewrite EA; apply in_or_app; right; right; exact Hy).
    assert (Ep : p = l_pos x0).
    { assert (Hle : (p <=? l_pos x0)%float = true).
      { apply Minp. unfold atp. apply in_map. apply filter_In. split; [exact Hx0 | apply String.eqb_eq; exact Q0]. }
      assert (Hin : In x' (A1 ++ x0 :: A2)) by (rewrite <- EA; apply InA; exact Hx').
      apply in_app_iff in Hin as [Hin | [<- | Hin]]; [exfalso; apply (NA1' x' Hin Qx') | symmetry; exact Ex' |].
      assert (x0 = x'); [| subst x'; symmetry; exact Ex'].
      apply Inj; [exact Hx0 | exact Hx' |]. apply feq_le. split; [apply Hi; exact Hin | rewrite Ex'; exact Hle]. }
    rewrite Ep in Np, Minp |- *. clear Ep. set (P := l_pos x0) in *.
    assert (NotIn : ~ In x0 (A1 ++ A2)) by (apply NoDup_remove_2 in ND; exact ND).
    assert (GT : forall y, In y A2 -> (P <? l_pos y)%float = true).
    { intros y Hy. apply flt_le. split; [apply Hi; exact Hy|].
      destruct (l_pos y <=? P)%float eqn:C; [| reflexivity]. exfalso. apply NotIn.
      assert (x0 = y); [| subst y; apply in_or_app; right; exact Hy].
      apply Inj; [exact Hx0 | apply HA2; exact Hy |]. apply feq_le. split; [apply Hi; exact Hy | exact C]. }
    assert (LT : forall y, In y A1 -> (l_pos y <? P)%float = true).
    { intros y Hy. apply flt_le. split; [apply Lo; exact Hy|].
      destruct (P <=? l_pos y)%float eqn:C; [| reflexivity]. exfalso. apply NotIn.
      assert (x0 = y); [| subst y; apply in_or_app; left; exact Hy].
      apply Inj; [exact Hx0 | apply HA1; exact Hy |]. apply feq_le. split; [exact C | apply Lo; exact Hy]. }
    assert (PP : (P <=? P)%float = true) by (apply fle_refl; exact Np).
    destruct after.
    - set (S := filter (fun q => (P <? q)%float) (map l_pos rows)).
      assert (NumS : forall q, In q S -> (q =? q)%float = true).
      { intros q Hq. apply filter_In in Hq as [Hq _]. apply in_map_iff in Hq as [y [<- Hy]]. apply Num. exact Hy. }
      assert (InS : forall y, In y A2 -> In (l_pos y) S).
      { intros y Hy. apply filter_In. split; [apply in_map, HA2; exact Hy | apply GT; exact Hy]. }
      pose proof (fmin_spec' S NumS) as FS. destruct (fmin S) as [nx|] eqn:FM.
      + destruct FS as [Nnx Minx]. apply fmin_in in FM. apply filter_In in FM as [FM Lnx].
        apply in_map_iff in FM as [y1 [E1 Hy1]].
        destruct (fmid_small P nx) as [M1 M2]; [apply Hsm; exact Hx0 | rewrite <- E1; apply Hsm; exact Hy1 | exact Lnx |].
        exists A1, x0, A2. split; [exact EA|]. split; [exact Q0|]. split; [exact NA1'|].
        split; [exact (proj2 (fle_num _ _ M1))|]. split.
        * intros y Hy. apply in_app_iff in Hy as [Hy | [<- | []]]; [| exact M1].
          eapply fle_trans; [apply Lo; exact Hy | exact M1].
        * intros y Hy. eapply fle_trans; [exact M2 | apply Minx, InS; exact Hy].
      + assert (A2 = []) by (destruct A2 as [|y ?]; [reflexivity|]; specialize (InS y (or_introl eq_refl)); rewrite FS in InS; destruct InS).
        subst A2. pose proof (fadd1_ge P Np) as M1.
        exists A1, x0, []. split; [exact EA|]. split; [exact Q0|]. split; [exact NA1'|].
        split; [exact (proj2 (fle_num _ _ M1))|]. split; [| intros y []].
        intros y Hy. apply in_app_iff in Hy as [Hy | [<- | []]]; [| exact M1].
        eapply fle_trans; [apply Lo; exact Hy | exact M1].
    - set (S := filter (fun q => (q <? P)%float) (map l_pos rows)).
      assert (NumS : forall q, In q S -> (q =? q)%float = true).
      { intros q Hq. apply filter_In in Hq as [Hq _]. apply in_map_iff in Hq as [y [<- Hy]]. apply Num. exact Hy. }
      assert (InS : forall y, In y A1 -> In (l_pos y) S).
      { intros y Hy. apply filter_In. split; [apply in_map, HA1; exact Hy | apply LT; exact Hy]. }
      pose proof (fmax_spec' S NumS) as FS. destruct (fmax S) as [pr|] eqn:FM.
      + destruct FS as [Npr Maxp]. apply fmax_in in FM. apply filter_In in FM as [FM Lpr].
        apply in_map_iff in FM as [y1 [E1 Hy1]].
        destruct (fmid_small pr P) as [M1 M2]; [rewrite <- E1; apply Hsm; exact Hy1 | apply Hsm; exact Hx0 | exact Lpr |].
        exists A1, x0, A2. split; [exact EA|]. split; [exact Q0|]. split; [exact NA1'|].
        split; [exact (proj2 (fle_num _ _ M1))|]. split.
        * intros y Hy. eapply fle_trans; [apply Maxp, InS; exact Hy | exact M1].
        * intros y [<- | Hy]; [exact M2|]. eapply fle_trans; [exact M2 | apply Hi; exact Hy].
      + assert (A1 = []) by (destruct A1 as [|y ?]; [reflexivity|]; specialize (InS y (or_introl eq_refl)); rewrite FS in InS; destruct InS).
        subst A1. pose proof (fsub1_le P Np) as M1.
        exists [], x0, A2. split; [exact EA|]. split; [exact Q0|]. split; [exact NA1'|].
        split; [exact (proj1 (fle_num _ _ M1))|]. split; [intros y []|].
        intros y [<- | Hy]; [exact M1|]. eapply fle_trans; [exact M1 | apply Hi; exact Hy].
  Qed.

  Definition ins_row' (now : Z) (k0 : keyrow) : keyrow :=
    with_len (with_mtime (with_ver k0 (k_ver k0 + 1)) now) (opt_add (k_len k0) 1).

  Lemma list_insert_eq now key pivot elem after d pv e k0 :
    to_bytes pivot = Some (Some pv) -> to_bytes elem = Some (Some e) ->
    live_key now d key T_LIST = Some k0 -> list_rows d (k_id k0) <> [] ->
    list_insert now key pivot elem after d =
    match insert_pos d (k_id k0) (Some pv) after with
    | None => (d, out_both (VI (-1)) ENotFound)
    | Some m =>
        if negb (m =? m)%float then (d, out_both (VI (-1)) ENotFound) else
        if existsb (fun r => (l_kid r =? k_id k0) && (l_pos r =? m)%float) (rlist d)
        then (d, out_both (VI 0) (ESql (SqUnique "rlist.kid,rlist.pos")))
        else match opt_add (k_len k0) 1 with
             | Some n => (upd_key_id (k_id k0) (fun _ => ins_row' now k0)
                            (set_rlist d (rlist d ++ [mkL (k_id k0) m e])), out_ok (VI n))
             | None => (upd_key_id (k_id k0) (fun _ => ins_row' now k0)
                            (set_rlist d (rlist d ++ [mkL (k_id k0) m e])), out_both (VI 0) (ESql SqScanNull))
             end
    end.
  Proof.
    intros Tp Te LK NE. unfold list_insert. rewrite Tp, Te, LK.
    destruct (list_rows d (k_id k0)) as [|x xs] eqn:LR; [contradiction|]. clear NE.
    unfold insert_row. destruct (insert_pos d (k_id k0) (Some pv) after) as [m|]; [| reflexivity].
    destruct (negb (m =? m)%float); [reflexivity|].
    destruct (existsb _ (rlist d)); [reflexivity|].
    unfold sql_insert.
    change (live_key now (set_rlist d (rlist d ++ [mkL (k_id k0) m e])) key T_LIST) with (live_key now d key T_LIST).
    rewrite LK. fold (ins_row' now k0). change (k_len (ins_row' now k0)) with (opt_add (k_len k0) 1).
    destruct (opt_add (k_len k0) 1); reflexivity.
  Qed.

  Lemma list_insert_sim now key pivot elem after d s1 :
    Sim now d s1 -> (forall x, In x (rlist d) -> small (l_pos x) = true) ->
    let '(d', r) := list_insert now key pivot elem after d in
    (exists c, o_err r = Some (ESql (SqUnique c))) \/
    exists s', spec_linsert s1 key pivot elem after = (s', r) /\ Sim now (if is_err r then d else d') s'.
  Proof.
    intros S Hsm. pose proof S as [I [N G]]. unfold spec_linsert.
    destruct (to_bytes_cases pivot) as [[Tp [Bp _]] | [pv [Tp [Bp _]]]]; rewrite Bp.
    { unfold list_insert. rewrite Tp. right. exists s1. split; [reflexivity | exact S]. }
    destruct (to_bytes_cases elem) as [[Te [Be _]] | [e [Te [Be _]]]]; rewrite Be.
    { unfold list_insert. rewrite Tp, Te. right. exists s1. split; [reflexivity | exact S]. }
    rewrite (spec_list_sim _ _ _ key S).
    destruct (live_key now d key T_LIST) as [k0|] eqn:LK.
    2:{ unfold list_insert. rewrite Tp, Te, LK. right. exists s1. split; [reflexivity | exact S]. }
    destruct (list_rows d (k_id k0)) as [|x0' xs'] eqn:LR.
    { unfold list_insert. rewrite Tp, Te, LK, LR. right. exists s1. split; [| exact S].
      unfold seq_of. pose proof (rows_asc_perm d (k_id k0)) as P. rewrite LR in P. apply Permutation_sym, Permutation_nil in P.
      rewrite P. reflexivity. }
    assert (NE : list_rows d (k_id k0) <> []) by (rewrite LR; discriminate).
    rewrite (list_insert_eq now key pivot elem after d pv e k0 Tp Te LK NE).
    assert (Hsm' : forall x, In x (list_rows d (k_id k0)) -> small (l_pos x) = true).
    { intros x Hx. apply Hsm. apply filter_In in Hx. tauto. }
    pose proof (insert_pos_spec d (k_id k0) pv after I Hsm') as IP.
    destruct (insert_pos d (k_id k0) (Some pv) after) as [m|] eqn:EIP.
    2:{ right. exists s1. split; [| exact S]. unfold seq_of. rewrite (insert_at_pivot_none _ _ _ _ IP). reflexivity. }
    destruct IP as [A1 [x0 [A2 [EA [Q0 [NA1 [Nm [Lo Hi]]]]]]]]. rewrite Nm. cbn [negb].
    destruct (existsb (fun r => (l_kid r =? k_id k0) && (l_pos r =? m)%float) (rlist d)) eqn:X.
    { left. exists "rlist.kid,rlist.pos". reflexivity. }
    destruct (live_list_facts' _ _ _ _ I LK) as [Hk [Kk [Tk [Lk [KL _]]]]].
    rewrite KL. cbn [opt_add]. right.
    set (new := mkL (k_id k0) m e).
    set (d2 := upd_key_id (k_id k0) (fun _ => ins_row' now k0) (set_rlist d (rlist d ++ [new]))).
    set (l1 := if after then A1 ++ [x0] else A1) in *.
    set (l2 := if after then A2 else x0 :: A2) in *.
    assert (EL : rows_asc d (k_id k0) = l1 ++ l2).
    { rewrite EA. unfold l1, l2. destruct after; [rewrite <- app_assoc|]; reflexivity. }
    assert (E : list_insert now key pivot elem after d = (d2, out_ok (VI (zlen (rows_asc d (k_id k0)) + 1)))).
    { rewrite (list_insert_eq now key pivot elem after d pv e k0 Tp Te LK NE). rewrite EIP, Nm, X, KL. reflexivity. }
    assert (I2 : InvH None d2).
    { pose proof (HI_list_insert now key pivot elem after d I) as H. rewrite E in H. exact H. }
    assert (LR2 : list_rows d2 (k_id k0) = list_rows d (k_id k0) ++ [new]).
    { unfold list_rows. change (rlist d2) with (rlist d ++ [new]). rewrite filter_app.
      cbn [filter new l_kid]. rewrite Z.eqb_refl. reflexivity. }
    assert (RA : rows_asc d2 (k_id k0) = l1 ++ new :: l2).
    { apply rows_asc_char'; [exact I2 | |].
      - rewrite LR2. eapply Permutation_trans; [| apply Permutation_middle].
        eapply Permutation_trans; [apply Permutation_app_comm|]. cbn [app]. apply perm_skip.
        rewrite <- EL. apply Permutation_sym. apply rows_asc_perm.
      - apply SS_insert_mid.
        + rewrite <- EL. apply rows_asc_SS'. exact I.
        + intros y Hy. unfold leP, pos_leb. cbn [new l_pos]. apply Lo. exact Hy.
        + intros y Hy. unfold leP, pos_leb. cbn [new l_pos]. apply Hi. exact Hy. }
    assert (VW : list_view now key k0 d d2).
    { unfold list_view. apply (view_list_upd fzero_num now key d d2 k0 (fun _ => ins_row' now k0)); auto.
      split; [reflexivity|]. repeat (split; [reflexivity|]).
      intros id Hid. change (rlist d2) with (rlist d ++ [new]). rewrite filter_app.
      cbn [filter new l_kid]. destruct (Z.eqb_spec (k_id k0) id); [congruence | apply app_nil_r]. }
    assert (SQ : insert_at_pivot pv e after (seq_of d (k_id k0)) = Some (seq_of d2 (k_id k0))).
    { unfold seq_of. rewrite EA, RA, (insert_at_pivot_split pv e after A1 x0 A2 Q0 NA1).
      f_equal. unfold l1, l2. destruct after.
      - rewrite <- app_assoc. cbn [app]. rewrite map_app. cbn [map new l_elem]. rewrite Q0. reflexivity.
      - rewrite map_app. cbn [map new l_elem]. rewrite Q0. reflexivity. }
    rewrite SQ. eexists. split.
    - f_equal. f_equal. f_equal. unfold seq_of. rewrite RA, EL, !zlen_map, !zlen_app, zlen_cons. lia.
    - cbn [is_err out_ok o_err]. apply (Sim_list_put fzero_num now d s1 d2 key k0); auto.
  Qed.

  Theorem C02_linsert_step_refines_bounded : forall now o d s,
    is_linsert o -> Inv d -> R now d s ->
    (forall x, In x (rlist d) -> small (l_pos x) = true) ->
    insert_free now o d -> step_refines now o d s.
  Proof.
    intros now o d s Ho I HR Hsm PF. apply Inv_iff in I.
    pose proof (Sim_of_R now d s I HR) as S. set (s1 := spurge now s) in *.
    destruct o; try contradiction; clear Ho.
    - pose proof (list_insert_sim now key pivot elem true d s1 S Hsm) as H.
      unfold insert_free in PF. rewrite exec_db_wrapped in PF by reflexivity. cbn [exec_tx snd] in PF.
      destruct (list_insert now key pivot elem true d) as [d' r] eqn:E.
      destruct H as [[c Hc] | [s' [Es S']]]; [exfalso; exact (PF c Hc)|].
      eapply step_sim; [| exact Es | intros x; reflexivity | exact S'].
      rewrite exec_db_wrapped by reflexivity. cbn [exec_tx]. rewrite E. reflexivity.
    - pose proof (list_insert_sim now key pivot elem false d s1 S Hsm) as H.
      unfold insert_free in PF. rewrite exec_db_wrapped in PF by reflexivity. cbn [exec_tx snd] in PF.
      destruct (list_insert now key pivot elem false d) as [d' r] eqn:E.
      destruct H as [[c Hc] | [s' [Es S']]]; [exfalso; exact (PF c Hc)|].
      eapply step_sim; [| exact Es | intros x; reflexivity | exact S'].
      rewrite exec_db_wrapped by reflexivity. cbn [exec_tx]. rewrite E. reflexivity.
  Qed.
End LInsertGen.

(* the statement as asked: with the midpoint fact assumed for ALL binary64 values *)
Section LInsert.
  Hypothesis fle_refl : forall x, (x =? x)%float = true -> (x <=? x)%float = true.
  Hypothesis fle_trans : forall x y z, (x <=? y)%float = true -> (y <=? z)%float = true -> (x <=? z)%float = true.
  Hypothesis fle_total : forall x y, (x =? x)%float = true -> (y =? y)%float = true -> (x <=? y)%float = true \/ (y <=? x)%float = true.
  Hypothesis flt_le : forall x y, (x <? y)%float = true <-> ((x <=? y)%float = true /\ (y <=? x)%float = false).
  Hypothesis feq_le : forall x y, (x =? y)%float = true <-> ((x <=? y)%float = true /\ (y <=? x)%float = true).
  Hypothesis fle_num : forall x y, (x <=? y)%float = true -> (x =? x)%float = true /\ (y =? y)%float = true.
  Hypothesis fadd1_ge : forall x, (x =? x)%float = true -> (x <=? x + 1)%float = true.
  Hypothesis fsub1_le : forall x, (x =? x)%float = true -> (x - 1 <=? x)%float = true.
  Hypothesis fzero_num : (zero =? zero)%float = true.
  Hypothesis fmid_between : forall a b, (a <? b)%float = true -> (a <=? (a + b) / 2)%float = true /\ ((a + b) / 2 <=? b)%float = true.

  Theorem C02_linsert_step_refines_partial : forall now o d s,
    (match o with LInsertAfter _ _ _ | LInsertBefore _ _ _ => True | _ => False end) ->
    Inv d -> R now d s -> insert_free now o d -> step_refines now o d s.
  Proof.
    intros now o d s Ho I HR PF.
    apply (C02_linsert_step_refines_bounded fle_refl fle_trans fle_total flt_le feq_le fle_num fadd1_ge fsub1_le
             fzero_num (fun _ => true) (fun a b _ _ => fmid_between a b)); auto.
  Qed.
End LInsert.

(* ... but that tenth hypothesis is not a fact of binary64: the sum overflows *)
Theorem fmid_between_false :
  ~ (forall a b, (a <? b)%float = true -> (a <=? (a + b) / 2)%float = true /\ ((a + b) / 2 <=? b)%float = true).
Proof.
  intros H. destruct (H 0x1p+1023%float 0x1.8p+1023%float) as [_ H2]; [vm_compute; reflexivity|].
  vm_compute in H2. discriminate H2.
Qed.

(* and without a bound on the positions the step statement is false: positions 2^1023 and 1.5 * 2^1023,
   insert after the first: the "midpoint" is +inf, the new element lands at the END in the model *)
Definition cexl_d : db :=
  mkDb [mkKey 1 "k" 2 1 None 0 (Some 2)] [] [mkL 1 0x1p+1023 "a"; mkL 1 0x1.8p+1023 "b"] [] [] [] true.

Theorem C02_linsert_step_refines_counterexample :
  ~ (forall now o d s, is_linsert o -> Inv d -> R now d s -> insert_free now o d -> step_refines now o d s).
Proof.
  intros H.
  assert (I0 : Inv cexl_d) by (split; vm_compute; reflexivity).
  assert (R0 : R 0 cexl_d (abs 0 cexl_d)).
  { split; [vm_compute; repeat constructor; cbn; intuition discriminate|]. intros k. reflexivity. }
  assert (F0 : insert_free 0 (LInsertAfter "k" (AStr "a") (AStr "x")) cexl_d).
  { intros c. vm_compute. discriminate. }
  specialize (H 0 (LInsertAfter "k" (AStr "a") (AStr "x")) cexl_d (abs 0 cexl_d) Logic.I I0 R0 F0).
  unfold step_refines in H.
  destruct (exec_db 0 (LInsertAfter "k" (AStr "a") (AStr "x")) cexl_d) as [d' r] eqn:E1.
  destruct (spec_step 0 (LInsertAfter "k" (AStr "a") (AStr "x")) (abs 0 cexl_d)) as [s' r'] eqn:E2.
  destruct H as [_ [_ HR]]. specialize (HR "k").
  apply (f_equal fst) in E1. apply (f_equal fst) in E2. cbn [fst] in E1, E2. subst d' s'.
  vm_compute in HR. discriminate HR.
Qed.

Print Assumptions C05_zalg_step_refines_partial.
Print Assumptions C05_zalg_step_refines_counterexample.
Print Assumptions C05_zstore_sum_counterexample.
Print Assumptions C05_zalg_negzero_counterexample.
Print Assumptions C05_zalg_nan_counterexample.
Print Assumptions C05_wf_zalg_two_keys.
Print Assumptions C05_scores_stay_numbers_all.
Print Assumptions C05_scores_stay_normal_all.
Print Assumptions C02_linsert_step_refines_bounded.
Print Assumptions C02_linsert_step_refines_partial.
Print Assumptions fmid_between_false.
Print Assumptions C02_linsert_step_refines_counterexample.
