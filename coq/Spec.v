(* Spec.v — the abstract specification: what the operations mean on a plain
   keyspace  name -> (typed value, expiry).  Short enough to read in minutes.
   No rowids, positions, versions, cached lengths or stored-but-expired keys:
   every operation first forgets the entries whose expiry has been reached.
   No proofs here. *)
From Redka Require Import Base Db Glob ImplString ImplSet ImplZSet Ops.

Inductive aval :=
| AVStr (s : bytes)
| AVList (l : list bytes)                 (* head first *)
| AVSet (l : list bytes)                  (* no duplicates, order irrelevant *)
| AVHash (l : list (bytes * bytes))       (* distinct fields, order irrelevant *)
| AVZSet (l : list (bytes * float)).      (* distinct members, order irrelevant *)

Record entry := mkEntry { en_val : aval; en_exp : option Z }.
Definition sstate := list (bytes * entry).   (* distinct names, order irrelevant *)

Definition atype (v : aval) : Z :=
  match v with AVStr _ => 1 | AVList _ => 2 | AVSet _ => 3 | AVHash _ => 4 | AVZSet _ => 5 end.

Definition en_live (now : Z) (e : entry) : bool :=
  match en_exp e with None => true | Some t => now <? t end.

(* forget what has expired *)
Definition spurge (now : Z) (s : sstate) : sstate :=
  filter (fun kv => en_live now (snd kv)) s.

Definition sget (s : sstate) (k : bytes) : option entry := opt_lookup s k.
Definition sdel (k : bytes) (s : sstate) : sstate :=
  filter (fun kv => negb (String.eqb (fst kv) k)) s.
Definition sput (k : bytes) (e : entry) (s : sstate) : sstate :=
  if existsb (fun kv => String.eqb (fst kv) k) s
  then map (fun kv => if String.eqb (fst kv) k then (k, e) else kv) s
  else s ++ [(k, e)].

Definition key_info (k : bytes) (e : entry) : rv :=
  VL [VS k; VI (atype (en_val e)); match en_exp e with Some t => VI t | None => VNone end].

(* what of a faithful result the specification talks about *)
Definition proj_key (r : rv) : rv :=
  match r with
  | VL [_; VS k; VI t; _; e; _] => VL [VS k; VI t; e]
  | _ => r
  end.

(* ---------- strings ---------- *)

Definition spec_str (s : sstate) (k : bytes) : option bytes :=
  match sget s k with
  | Some (mkEntry (AVStr v) _) => Some v
  | _ => None
  end.

(* a creating write of type [t] is refused when the name holds another type *)
Definition other_type (s : sstate) (k : bytes) (t : Z) : bool :=
  match sget s k with
  | Some e => negb (atype (en_val e) =? t)
  | None => false
  end.

Definition bytes_of_value (v : value) : option bytes :=
  match to_bytes v with
  | Some (Some b) => Some b
  | Some None => Some ""         (* a nil byte slice is the empty byte string *)
  | None => None
  end.

Definition keep_exp (s : sstate) (k : bytes) : option Z :=
  match sget s k with Some e => en_exp e | None => None end.

Definition spec_set (s : sstate) (k : bytes) (v : value) (exp : option Z) : sstate * out :=
  match bytes_of_value v with
  | None => (s, out_err EValueType)
  | Some b =>
      if other_type s k 1 then (s, out_err EKeyType)
      else (sput k (mkEntry (AVStr b) exp) s, out_ok VNone)
  end.

Definition spec_set_many (s : sstate) (items : list (bytes * value)) : sstate * out :=
  if negb (forallb (fun kv => is_value_type (snd kv)) items) then (s, out_err EValueType)
  else if existsb (fun kv => other_type s (fst kv) 1) items then (s, out_err EKeyType)
  else (fold_left (fun acc kv => fst (spec_set acc (fst kv) (snd kv) None)) items s, out_ok VNone).

Definition spec_incr (s : sstate) (k : bytes) (delta : Z) : sstate * out :=
  if other_type s k 1 then (s, out_err EKeyType) else
  let cur := match spec_str s k with Some v => v | None => "" end in
  match value_int cur with
  | None => (s, out_err EValueType)
  | Some n =>
      let nv := n + delta in
      (* a sum outside the integer range is refused like a non-number *)
      if negb (in_int64 nv) then (s, out_err EValueType) else
      (sput k (mkEntry (AVStr (itoa nv)) (keep_exp s k)) s, out_ok (VI nv))
  end.

Definition spec_incr_float (s : sstate) (k : bytes) (delta : float)
           (parsed : list (bytes * option float)) (sumtext : bytes) : sstate * out :=
  if other_type s k 1 then (s, out_err EKeyType) else
  let cur := match spec_str s k with Some v => v | None => "" end in
  let p := match cur with
           | EmptyString => Some zero
           | _ => match opt_lookup parsed cur with Some r => r | None => None end
           end in
  match p with
  | None => (s, out_err EValueType)
  | Some f =>
      let nv := (f + delta)%float in
      (sput k (mkEntry (AVStr sumtext) (keep_exp s k)) s, out_ok (VF nv))
  end.

Definition spec_set_with (now : Z) (s : sstate) (k : bytes) (v : value) (o : setopts)
  : sstate * out :=
  if negb (is_value_type v) then (s, out_both (VL [VNone; VB false; VB false]) EValueType) else
  let prev := match spec_str s k with Some p => VS p | None => VNone end in
  let exists_ := match spec_str s k with Some _ => true | None => false end in
  let nothing := (s, out_ok (VL [prev; VB false; VB false])) in
  if so_ifx o && negb exists_ then nothing else
  if so_ifnx o && exists_ then nothing else
  let exp := if so_keep o then keep_exp s k
             else if 0 <? so_ttl o then Some (now + so_ttl o) else so_at o in
  let '(s', r) := spec_set s k v exp in
  match o_err r with
  | Some e => (s', out_both (VL [prev; VB false; VB false]) e)
  | None => (s', out_ok (VL [prev; VB (negb exists_); VB exists_]))
  end.

(* ---------- keys ---------- *)

Definition spec_rename (now : Z) (s : sstate) (k nk : bytes) : sstate * out :=
  match sget s k with
  | None => (s, out_err ENotFound)
  | Some e =>
      if String.eqb k nk then (s, out_ok VNone) else
      if other_type s nk (atype (en_val e)) then (s, out_err EKeyType)
      else (sput nk e (sdel nk (sdel k s)), out_ok VNone)
  end.

Definition spec_rename_nx (now : Z) (s : sstate) (k nk : bytes) : sstate * out :=
  match sget s k with
  | None => (s, out_err ENotFound)
  | Some e =>
      if String.eqb k nk then (s, out_ok (VB false)) else
      match sget s nk with
      | Some _ => (s, out_ok (VB false))
      | None => (sput nk e (sdel k s), out_ok (VB true))
      end
  end.


(* ---------- generic shape of the typed operations ---------- *)

(* the value of type [t] held under [k]; a missing key or a key of another
   type reads as "nothing" *)
Definition spec_list (s : sstate) (k : bytes) : option (list bytes) :=
  match sget s k with Some (mkEntry (AVList l) _) => Some l | _ => None end.
Definition spec_set_ (s : sstate) (k : bytes) : option (list bytes) :=
  match sget s k with Some (mkEntry (AVSet l) _) => Some l | _ => None end.
Definition spec_hash (s : sstate) (k : bytes) : option (list (bytes * bytes)) :=
  match sget s k with Some (mkEntry (AVHash l) _) => Some l | _ => None end.
Definition spec_zset (s : sstate) (k : bytes) : option (list (bytes * float)) :=
  match sget s k with Some (mkEntry (AVZSet l) _) => Some l | _ => None end.

Definition or_nil {A} (o : option (list A)) : list A := match o with Some l => l | None => [] end.

(* store a new value under [k], keeping the expiry the key already had *)
Definition sput_val (s : sstate) (k : bytes) (v : aval) : sstate :=
  sput k (mkEntry v (keep_exp s k)) s.

(* ---------- lists: an ordered sequence ---------- *)

(* Redis index rules for a range over a sequence of length n: negative indexes
   count from the tail, bounds are clamped, an inverted range is empty *)
Definition redis_range (n start stop : Z) : option (Z * Z) :=
  let s0 := if start <? 0 then Z.max (n + start) 0 else start in
  let e0 := if stop <? 0 then n + stop else stop in
  let e1 := Z.min e0 (n - 1) in
  if (e1 <? s0) || (n <=? s0) || (e1 <? 0) then None else Some (s0, e1 - s0 + 1).

Definition slice {A} (l : list A) (start stop : Z) : list A :=
  match redis_range (zlen l) start stop with
  | Some (off, cnt) => ztake cnt (zdrop off l)
  | None => []
  end.

Definition norm_index (n idx : Z) : option Z :=
  let i := if idx <? 0 then n + idx else idx in
  if (0 <=? i) && (i <? n) then Some i else None.

Fixpoint remove_first_n (e : bytes) (n : Z) (l : list bytes) : list bytes :=
  match l with
  | [] => []
  | x :: r => if (0 <? n) && String.eqb x e then remove_first_n e (n - 1) r
              else x :: remove_first_n e n r
  end.
Definition count_occ (e : bytes) (l : list bytes) : Z :=
  zlen (filter (String.eqb e) l).

Fixpoint insert_at_pivot (pivot e : bytes) (after : bool) (l : list bytes) : option (list bytes) :=
  match l with
  | [] => None
  | x :: r =>
      if String.eqb x pivot then Some (if after then x :: e :: r else e :: x :: r)
      else match insert_at_pivot pivot e after r with
           | Some r' => Some (x :: r')
           | None => None
           end
  end.

Fixpoint set_nth (i : Z) (e : bytes) (l : list bytes) : list bytes :=
  match l with
  | [] => []
  | x :: r => if i <=? 0 then e :: r else x :: set_nth (i - 1) e r
  end.

Definition spec_push (s : sstate) (k : bytes) (v : value) (front : bool) : sstate * out :=
  match bytes_of_value v with
  | None => (s, out_err EValueType)
  | Some b =>
      if other_type s k 2 then (s, out_err EKeyType) else
      let l := or_nil (spec_list s k) in
      let l' := if front then b :: l else l ++ [b] in
      (sput_val s k (AVList l'), out_ok (VI (zlen l')))
  end.

Definition spec_pop (s : sstate) (k : bytes) (back : bool) : sstate * out :=
  match spec_list s k with
  | None | Some [] => (s, out_err ENotFound)
  | Some l =>
      if back then
        match rev l with
        | e :: r => (sput_val s k (AVList (rev r)), out_ok (VS e))
        | [] => (s, out_err ENotFound)
        end
      else
        match l with
        | e :: r => (sput_val s k (AVList r), out_ok (VS e))
        | [] => (s, out_err ENotFound)
        end
  end.

Definition spec_pop_push (s : sstate) (src dest : bytes) : sstate * out :=
  let '(s1, r) := spec_pop s src true in
  match o_err r, o_val r with
  | None, VS e =>
      if other_type s1 dest 2 then (s, out_both (VS e) EKeyType)
      else (fst (spec_push s1 dest (ABytes e) true), out_ok (VS e))
  | _, _ => (s, r)
  end.

Definition spec_linsert (s : sstate) (k : bytes) (pivot elem : value) (after : bool) : sstate * out :=
  match bytes_of_value pivot, bytes_of_value elem with
  | Some p, Some e =>
      match spec_list s k with
      | None => (s, out_both (VI 0) ENotFound)
      | Some l =>
          match insert_at_pivot p e after l with
          | Some l' => (sput_val s k (AVList l'), out_ok (VI (zlen l')))
          | None => (s, out_both (VI (-1)) ENotFound)
          end
      end
  | _, _ => (s, out_both (VI 0) EValueType)
  end.

Definition spec_lset (s : sstate) (k : bytes) (idx : Z) (v : value) : sstate * out :=
  match bytes_of_value v with
  | None => (s, out_err EValueType)
  | Some e =>
      match spec_list s k with
      | None => (s, out_err ENotFound)
      | Some l =>
          match norm_index (zlen l) idx with
          | Some i => (sput_val s k (AVList (set_nth i e l)), out_ok VNone)
          | None => (s, out_err ENotFound)
          end
      end
  end.

Definition spec_ldelete (s : sstate) (k : bytes) (v : value) (count : option Z) (back : bool)
  : sstate * out :=
  match count with
  | Some c => if c <=? 0 then (s, out_ok (VI 0)) else
      match bytes_of_value v with
      | None => (s, out_err EValueType)
      | Some e =>
          match spec_list s k with
          | None => (s, out_ok (VI 0))
          | Some l =>
              let l' := if back then rev (remove_first_n e c (rev l)) else remove_first_n e c l in
              let n := zlen l - zlen l' in
              if n =? 0 then (s, out_ok (VI 0)) else (sput_val s k (AVList l'), out_ok (VI n))
          end
      end
  | None =>
      match bytes_of_value v with
      | None => (s, out_err EValueType)
      | Some e =>
          match spec_list s k with
          | None => (s, out_ok (VI 0))
          | Some l =>
              let n := count_occ e l in
              if n =? 0 then (s, out_ok (VI 0))
              else (sput_val s k (AVList (filter (fun x => negb (String.eqb x e)) l)), out_ok (VI n))
          end
      end
  end.

Definition spec_ltrim (s : sstate) (k : bytes) (start stop : Z) : sstate * out :=
  match spec_list s k with
  | None => (s, out_ok (VI 0))
  | Some l =>
      let l' := slice l start stop in
      let n := zlen l - zlen l' in
      if n =? 0 then (s, out_ok (VI 0)) else (sput_val s k (AVList l'), out_ok (VI n))
  end.

(* ---------- sets ---------- *)

Definition add_members (l : list bytes) (new : list bytes) : list bytes :=
  fold_left (fun acc e => if str_in e acc then acc else acc ++ [e]) new l.

Fixpoint values_of (vs : list value) : option (list bytes) :=
  match vs with
  | [] => Some []
  | v :: r => match bytes_of_value v, values_of r with
              | Some b, Some bs => Some (b :: bs)
              | _, _ => None
              end
  end.

Definition spec_sadd (s : sstate) (k : bytes) (vs : list value) : sstate * out :=
  match values_of vs with
  | None => (s, out_err EValueType)
  | Some es =>
      if other_type s k 3 then (s, out_err EKeyType) else
      let l := or_nil (spec_set_ s k) in
      let l' := add_members l es in
      (sput_val s k (AVSet l'), out_ok (VI (zlen l' - zlen l)))
  end.

Definition spec_sdelete (s : sstate) (k : bytes) (vs : list value) : sstate * out :=
  match values_of vs with
  | None => (s, out_err EValueType)
  | Some es =>
      match spec_set_ s k with
      | None => (s, out_ok (VI 0))
      | Some l =>
          let l' := filter (fun e => negb (str_in e es)) l in
          let n := zlen l - zlen l' in
          if n =? 0 then (s, out_ok (VI 0)) else (sput_val s k (AVSet l'), out_ok (VI n))
      end
  end.

(* the mathematical result: a missing key or a key of another type is the empty set *)
Definition members (s : sstate) (k : bytes) : list bytes := or_nil (spec_set_ s k).
Definition spec_alg (a : setalg) (s : sstate) (keys : list bytes) : list bytes :=
  match keys with
  | [] => []
  | first :: others =>
      match a with
      | AUnion => fold_left (fun acc k => add_members acc (members s k)) keys []
      | AInter => fold_left (fun acc k => filter (fun e => str_in e (members s k)) acc) others (members s first)
      | ADiff => fold_left (fun acc k => filter (fun e => negb (str_in e (members s k))) acc) others (members s first)
      end
  end.

Definition spec_sstore (a : setalg) (s : sstate) (dest : bytes) (keys : list bytes) : sstate * out :=
  match keys with
  | [] => (s, out_ok (VI 0))
  | _ =>
      if other_type s dest 3 then (s, out_err EKeyType) else
      (* (the order of a set is irrelevant; the members are kept sorted here so
         that the stored representation can be compared literally) *)
      let r := isort String.leb (spec_alg a s keys) in
      (sput_val s dest (AVSet r), out_ok (VI (zlen r)))
  end.

Definition spec_smove (s : sstate) (src dest : bytes) (v : value) : sstate * out :=
  match bytes_of_value v with
  | None => (s, out_err EValueType)
  | Some e =>
      if negb (str_in e (members s src)) then (s, out_err ENotFound) else
      if other_type s dest 3 then (s, out_err EKeyType) else
      let s1 := sput_val s src (AVSet (filter (fun x => negb (String.eqb x e)) (members s src))) in
      (sput_val s1 dest (AVSet (add_members (members s1 dest) [e])), out_ok VNone)
  end.

(* ---------- hashes ---------- *)

Definition hget (l : list (bytes * bytes)) (f : bytes) : option bytes := opt_lookup l f.
Definition hput (l : list (bytes * bytes)) (f v : bytes) : list (bytes * bytes) :=
  if existsb (fun p => String.eqb (fst p) f) l
  then map (fun p => if String.eqb (fst p) f then (f, v) else p) l
  else l ++ [(f, v)].

Definition fields_of (s : sstate) (k : bytes) : list (bytes * bytes) := or_nil (spec_hash s k).

Definition spec_hset_many (s : sstate) (k : bytes) (items : list (bytes * value)) : sstate * out :=
  match items with [] => (s, out_ok (VI 0)) | _ =>
  if negb (forallb (fun fv => is_value_type (snd fv)) items) then (s, out_err EValueType) else
  if other_type s k 4 then (s, out_err EKeyType) else
  let l := fields_of s k in
  let created := zlen (filter (fun fv => match hget l (fst fv) with None => true | Some _ => false end) items) in
  let l' := fold_left (fun acc fv => match bytes_of_value (snd fv) with
                                     | Some b => hput acc (fst fv) b
                                     | None => acc
                                     end) items l in
  (sput_val s k (AVHash l'), out_ok (VI created))
  end.

Definition spec_hset (s : sstate) (k f : bytes) (v : value) : sstate * out :=
  let '(s', r) := spec_hset_many s k [(f, v)] in
  match o_err r, o_val r with
  | None, VI n => (s', out_ok (VB (n =? 1)))
  | _, _ => (s', r)
  end.

Definition spec_hset_nx (s : sstate) (k f : bytes) (v : value) : sstate * out :=
  if negb (is_value_type v) then (s, out_err EValueType) else
  match hget (fields_of s k) f with
  | Some _ => (s, out_ok (VB false))
  | None => let '(s', r) := spec_hset_many s k [(f, v)] in
            match o_err r with None => (s', out_ok (VB true)) | Some _ => (s', r) end
  end.

Definition spec_hdelete (s : sstate) (k : bytes) (fields : list bytes) : sstate * out :=
  match spec_hash s k with
  | None => (s, out_ok (VI 0))
  | Some l =>
      let l' := filter (fun p => negb (str_in (fst p) fields)) l in
      let n := zlen l - zlen l' in
      if n =? 0 then (s, out_ok (VI 0)) else (sput_val s k (AVHash l'), out_ok (VI n))
  end.

Definition spec_hincr (s : sstate) (k f : bytes) (delta : Z) : sstate * out :=
  let cur := match hget (fields_of s k) f with Some v => v | None => "" end in
  match value_int cur with
  | None => (s, out_err EValueType)
  | Some n =>
      if other_type s k 4 then (s, out_err EKeyType) else
      let nv := n + delta in
      if negb (in_int64 nv) then (s, out_err EValueType) else
      (sput_val s k (AVHash (hput (fields_of s k) f (itoa nv))), out_ok (VI nv))
  end.

Definition spec_hincr_float (s : sstate) (k f : bytes) (delta : float)
           (parsed : list (bytes * option float)) (sumtext : bytes) : sstate * out :=
  let cur := match hget (fields_of s k) f with Some v => v | None => "" end in
  let p := match cur with
           | EmptyString => Some zero
           | _ => match opt_lookup parsed cur with Some r => r | None => None end
           end in
  match p with
  | None => (s, out_err EValueType)
  | Some x =>
      if other_type s k 4 then (s, out_err EKeyType) else
      let nv := (x + delta)%float in
      (sput_val s k (AVHash (hput (fields_of s k) f sumtext)), out_ok (VF nv))
  end.

Definition pair_rv (p : bytes * bytes) : rv := VL [VS (fst p); VS (snd p)].

(* ---------- sorted sets ---------- *)

Definition zmembers (s : sstate) (k : bytes) : list (bytes * float) := or_nil (spec_zset s k).
Definition zget (l : list (bytes * float)) (e : bytes) : option float := opt_lookup l e.
Definition zput (l : list (bytes * float)) (e : bytes) (sc : float) : list (bytes * float) :=
  if existsb (fun p => String.eqb (fst p) e) l
  then map (fun p => if String.eqb (fst p) e then (e, sc) else p) l
  else l ++ [(e, sc)].

(* the order every rank/score query is defined by: score, then member bytes *)
Definition zpair_le (a b : bytes * float) : bool :=
  (snd a <? snd b)%float || ((snd a =? snd b)%float && String.leb (fst a) (fst b)).
Definition zorder (desc : bool) (l : list (bytes * float)) : list (bytes * float) :=
  isort (if desc then (fun a b => zpair_le b a) else zpair_le) l.
Definition zitem_rv (p : bytes * float) : rv := VL [VS (fst p); VF (snd p)].
Definition in_score (lo hi : float) (p : bytes * float) : bool :=
  (lo <=? snd p)%float && (snd p <=? hi)%float.
Definition is_nanf (f : float) : bool := negb (f =? f)%float.

(* stored scores: -0 and +0 are the same score *)
Definition norm_score (f : float) : float := if (f =? zero)%float then zero else f.

Definition spec_zadd_many (s : sstate) (k : bytes) (items : list (value * float)) : sstate * out :=
  match items with [] => (s, out_ok (VI 0)) | _ =>
  match values_of (map fst items) with
  | None => (s, out_err EValueType)
  | Some es =>
      if other_type s k 5 then (s, out_err EKeyType) else
      let l := zmembers s k in
      let created := zlen (filter (fun e => match zget l e with None => true | Some _ => false end) es) in
      let l' := fold_left (fun acc p => zput acc (fst p) (norm_score (snd p))) (combine es (map snd items)) l in
      (sput_val s k (AVZSet l'), out_ok (VI created))
  end end.

Definition spec_zadd (s : sstate) (k : bytes) (v : value) (sc : float) : sstate * out :=
  let '(s', r) := spec_zadd_many s k [(v, sc)] in
  match o_err r, o_val r with
  | None, VI n => (s', out_ok (VB (n =? 1)))
  | _, _ => (s', r)
  end.

Definition spec_zincr (s : sstate) (k : bytes) (v : value) (delta : float) : sstate * out :=
  match bytes_of_value v with
  | None => (s, out_err EValueType)
  | Some e =>
      if other_type s k 5 then (s, out_err EKeyType) else
      let l := zmembers s k in
      let nv := norm_score (match zget l e with Some old => (old + delta)%float | None => delta end) in
      (* a sum that is not a number (+inf + -inf) is refused by the storage layer *)
      if is_nanf nv then (s, out_err (ESql (SqNotNull "rzset.score"))) else
      (sput_val s k (AVZSet (zput l e nv)), out_ok (VF nv))
  end.

Definition spec_zdelete_where (s : sstate) (k : bytes) (gone : bytes * float -> bool) : sstate * out :=
  match spec_zset s k with
  | None => (s, out_ok (VI 0))
  | Some l =>
      let l' := filter (fun p => negb (gone p)) l in
      let n := zlen l - zlen l' in
      if n =? 0 then (s, out_ok (VI 0)) else (sput_val s k (AVZSet l'), out_ok (VI n))
  end.

(* the segment of ranks [start, stop] of the sorted sequence; negative ranks
   select nothing (documented), an inverted range selects nothing *)
Definition rank_segment {A} (l : list A) (start stop : Z) : list A :=
  if (start <? 0) || (stop <? 0) || (stop <? start) then []
  else ztake (stop - start + 1) (zdrop start l).

Definition dedup_keys := dedup.

(* union / intersection of the member sets of the distinct keys listed, with
   the scores aggregated over those keys *)
Definition zagg2 (g : zagg) (a b : float) : float :=
  match g with
  | GSum => (a + b)%float
  | GMin => if (b <? a)%float then b else a
  | GMax => if (a <? b)%float then b else a
  end.
Definition spec_zalg (inter : bool) (g : zagg) (s : sstate) (keys : list bytes) : list (bytes * float) :=
  let ks := dedup_keys keys in
  let all := fold_left (fun acc k =>
                          fold_left (fun acc2 p =>
                                       match zget acc2 (fst p) with
                                       | Some old => zput acc2 (fst p) (zagg2 g old (snd p))
                                       | None => zput acc2 (fst p) (snd p)
                                       end) (zmembers s k) acc) ks [] in
  let keep := if inter
              then filter (fun p => forallb (fun k => match zget (zmembers s k) (fst p) with
                                                      | Some _ => true | None => false end) ks) all
              else all in
  match ks with [] => [] | _ => zorder false (map (fun p => (fst p, norm_score (snd p))) keep) end.

Definition spec_zstore (inter : bool) (g : zagg) (s : sstate) (dest : bytes) (keys : list bytes)
  : sstate * out :=
  let r := spec_zalg inter g s keys in
  (* an aggregated score that is not a number is refused by the storage layer *)
  if existsb (fun p => is_nanf (snd p)) r then (s, out_err (ESql SqScanNull)) else
  if other_type s dest 5 then (s, out_err EKeyType) else
  (sput_val s dest (AVZSet r), out_ok (VI (zlen r))).

(* How a specification result is compared with the faithful one *)
Inductive cmpmode :=
| CmpFull          (* result (after projection) and state *)
| CmpState         (* state only: the result is not determined by the abstract state *)
| CmpNone.         (* outside the specification (storage-level operation) *)

Definition spec_mode (in_tx : bool) (o : op) : cmpmode :=
  match o with
  | KDeleteExpired _ => CmpState
  | KScan _ _ _ _ => CmpState
  | KDeleteAll => if in_tx then CmpNone else CmpFull
  | EScan _ _ _ _ | HScan _ _ _ _ | ZScan _ _ _ _ => CmpState
  (* a NaN score is outside the specification's score universe *)
  | ZAdd _ _ sc => if is_nanf sc then CmpNone else CmpFull
  | ZAddMany _ items => if existsb (fun p => is_nanf (snd p)) items then CmpNone else CmpFull
  | ZIncr _ _ dl => if is_nanf dl then CmpNone else CmpFull
  | _ => CmpFull
  end.

(* projection of a faithful result onto what the specification determines *)
Definition proj_result (o : op) (r : rv) : rv :=
  match o, r with
  | KGet _, _ | KRandom _, _ => proj_key r
  | KKeys _, VU l => VU (map proj_key l)
  | _, _ => r
  end.

Definition spec_step (now : Z) (o : op) (s0 : sstate) : sstate * out :=
  let s := spurge now s0 in
  match o with
  | KCount keys => (s, out_ok (VI (zlen (filter (fun kv => str_in (fst kv) keys) s))))
  | KDelete keys =>
      (filter (fun kv => negb (str_in (fst kv) keys)) s,
       out_ok (VI (zlen (filter (fun kv => str_in (fst kv) keys) s))))
  | KDeleteAll => ([], out_ok VNone)
  | KDeleteExpired _ => (s, out_ok VNone)
  | KExists k => (s, out_ok (VB (match sget s k with Some _ => true | None => false end)))
  | KExpire k ttl =>
      match sget s k with
      | Some e => (sput k (mkEntry (en_val e) (Some (now + ttl))) s, out_ok VNone)
      | None => (s, out_err ENotFound)
      end
  | KExpireAt k a =>
      match sget s k with
      | Some e => (sput k (mkEntry (en_val e) (Some a)) s, out_ok VNone)
      | None => (s, out_err ENotFound)
      end
  | KGet k =>
      match sget s k with
      | Some e => (s, out_ok (key_info k e))
      | None => (s, out_err ENotFound)
      end
  | KKeys p => (s, out_ok (VU (map (fun kv => key_info (fst kv) (snd kv))
                                   (filter (fun kv => glob p (fst kv)) s))))
  | KLen => (s, out_ok (VI (zlen s)))
  | KPersist k =>
      match sget s k with
      | Some e => (sput k (mkEntry (en_val e) None) s, out_ok VNone)
      | None => (s, out_err ENotFound)
      end
  | KRandom c =>
      match s with
      | [] => (s, out_err ENotFound)
      | _ => match c with
             | Some k => match sget s k with
                         | Some e => (s, out_ok (key_info k e))
                         | None => (s, out_err ENotFound)   (* not a live key: disagreement *)
                         end
             | None => (s, out_err ENotFound)
             end
      end
  | KRename k nk => spec_rename now s k nk
  | KRenameNX k nk => spec_rename_nx now s k nk
  | KScan _ _ _ _ => (s, out_ok VNone)
  | SGet k => match spec_str s k with
              | Some v => (s, out_ok (VS v))
              | None => (s, out_err ENotFound)
              end
  | SGetMany ks =>
      (s, out_ok (VU (flat_map (fun kv =>
                        if str_in (fst kv) ks then
                          match en_val (snd kv) with
                          | AVStr v => [VL [VS (fst kv); VS v]]
                          | _ => []
                          end
                        else []) s)))
  | SIncr k dl => spec_incr s k dl
  | SIncrFloat k dl parsed sumtext => spec_incr_float s k dl parsed sumtext
  | SSet k v => spec_set s k v None
  | SSetExpires k v ttl => spec_set s k v (if 0 <? ttl then Some (now + ttl) else None)
  | SSetMany items => spec_set_many s items
  | SSetWith k v calls => spec_set_with now s k v (setopts_of calls)
  (* lists *)
  | LDelete k v => spec_ldelete s k v None false
  | LDeleteBack k v n => spec_ldelete s k v (Some n) true
  | LDeleteFront k v n => spec_ldelete s k v (Some n) false
  | LGet k i =>
      let l := or_nil (spec_list s k) in
      match norm_index (zlen l) i with
      | Some j => match hd_error (zdrop j l) with
                  | Some e => (s, out_ok (VS e))
                  | None => (s, out_err ENotFound)
                  end
      | None => (s, out_err ENotFound)
      end
  | LInsertAfter k p e => spec_linsert s k p e true
  | LInsertBefore k p e => spec_linsert s k p e false
  | LLen k => (s, out_ok (VI (zlen (or_nil (spec_list s k)))))
  | LPopBack k => spec_pop s k true
  | LPopBackPushFront a b => spec_pop_push s a b
  | LPopFront k => spec_pop s k false
  | LPushBack k v => spec_push s k v false
  | LPushFront k v => spec_push s k v true
  | LRange k a b => (s, out_ok (VL (map VS (slice (or_nil (spec_list s k)) a b))))
  | LSet k i v => spec_lset s k i v
  | LTrim k a b => spec_ltrim s k a b
  (* sets *)
  | EAdd k vs => spec_sadd s k vs
  | EDelete k vs => spec_sdelete s k vs
  | EAlg a ks => (s, out_ok (VU (map VS (spec_alg a s ks))))
  | EStore a dst ks => spec_sstore a s dst ks
  | EExists k v =>
      match bytes_of_value v with
      | Some e => (s, out_ok (VB (str_in e (members s k))))
      | None => (s, out_err EValueType)
      end
  | EItems k => (s, out_ok (VU (map VS (members s k))))
  | ELen k => (s, out_ok (VI (zlen (members s k))))
  | EMove a b v => spec_smove s a b v
  | EPop k c =>
      match c with
      | Some e => if str_in e (members s k)
                  then (sput_val s k (AVSet (filter (fun x => negb (String.eqb x e)) (members s k))), out_ok (VS e))
                  else (s, out_err ENotFound)
      | None => (s, out_err ENotFound)
      end
  | ERandom k c =>
      match c with
      | Some e => if str_in e (members s k) then (s, out_ok (VS e)) else (s, out_err ENotFound)
      | None => (s, out_err ENotFound)
      end
  | EScan _ _ _ _ => (s, out_ok VNone)
  (* hashes *)
  | HDelete k fs => spec_hdelete s k fs
  | HExists k f => (s, out_ok (VB (match hget (fields_of s k) f with Some _ => true | None => false end)))
  | HFields k => (s, out_ok (VU (map (fun p => VS (fst p)) (fields_of s k))))
  | HGet k f => match hget (fields_of s k) f with
                | Some v => (s, out_ok (VS v))
                | None => (s, out_err ENotFound)
                end
  | HGetMany k fs => (s, out_ok (VU (map pair_rv (filter (fun p => str_in (fst p) fs) (fields_of s k)))))
  | HIncr k f dl => spec_hincr s k f dl
  | HIncrFloat k f dl parsed sumtext => spec_hincr_float s k f dl parsed sumtext
  | HItems k => (s, out_ok (VU (map pair_rv (fields_of s k))))
  | HLen k => (s, out_ok (VI (zlen (fields_of s k))))
  | HScan _ _ _ _ => (s, out_ok VNone)
  | HSet k f v => spec_hset s k f v
  | HSetMany k items => spec_hset_many s k items
  | HSetNX k f v => spec_hset_nx s k f v
  | HValues k => (s, out_ok (VU (map (fun p => VS (snd p)) (fields_of s k))))
  (* sorted sets *)
  | ZAdd k v sc => spec_zadd s k v sc
  | ZAddMany k items => spec_zadd_many s k items
  | ZCount k lo hi => (s, out_ok (VI (zlen (filter (in_score lo hi) (zmembers s k)))))
  | ZDelete k vs =>
      match values_of vs with
      | Some es => spec_zdelete_where s k (fun p => str_in (fst p) es)
      | None => (s, out_err EValueType)
      end
  | ZDeleteRank k a b =>
      let gone := rank_segment (zorder false (zmembers s k)) a b in
      spec_zdelete_where s k (fun p => str_in (fst p) (map fst gone))
  | ZDeleteScore k lo hi => spec_zdelete_where s k (in_score lo hi)
  | ZGetRank k v desc =>
      match bytes_of_value v with
      | None => (s, out_err EValueType)
      | Some e =>
          match zget (zmembers s k) e with
          | None => (s, out_err ENotFound)
          | Some sc =>
              (* the rank is the number of members sorted strictly before it *)
              let before := filter (fun p => negb (String.eqb (fst p) e) &&
                                             (if desc then zpair_le (e, sc) p else zpair_le p (e, sc)))
                                   (zmembers s k) in
              (s, out_ok (VL [VI (zlen before); VF sc]))
          end
      end
  | ZGetScore k v =>
      match bytes_of_value v with
      | None => (s, out_err EValueType)
      | Some e => match zget (zmembers s k) e with
                  | Some sc => (s, out_ok (VF sc))
                  | None => (s, out_err ENotFound)
                  end
      end
  | ZIncr k v dl => spec_zincr s k v dl
  | ZAlg inter g ks =>
      let r := spec_zalg inter g s ks in
      if existsb (fun p => is_nanf (snd p)) r then (s, out_err (ESql SqScanNull))
      else (s, out_ok (VL (map zitem_rv r)))
  | ZStore inter g dst ks => spec_zstore inter g s dst ks
  | ZLen k => (s, out_ok (VI (zlen (zmembers s k))))
  | ZRangeRank k a b desc =>
      (s, out_ok (VL (map zitem_rv (rank_segment (zorder desc (zmembers s k)) a b))))
  | ZRangeScore k lo hi desc off cnt =>
      let rows := zorder desc (filter (in_score lo hi) (zmembers s k)) in
      let rows := if 0 <? off then zdrop off rows else rows in
      let rows := if 0 <? cnt then ztake cnt rows else rows in
      (s, out_ok (VL (map zitem_rv rows)))
  | ZScan _ _ _ _ => (s, out_ok VNone)
  end.

(* a caller-managed transaction in the specification: all or nothing when the
   callback stops at the first error; when it ignores errors, each operation
   is the DB-level one *)
Fixpoint spec_block (now : Z) (ops : list op) (stop_on_err : bool) (s : sstate)
  : sstate * list out * bool :=
  match ops with
  | [] => (s, [], false)
  | o :: rest =>
      let '(s1, r) := spec_step now o s in
      if stop_on_err && is_err r then (s1, [r], true)
      else let '(s2, rs, f) := spec_block now rest stop_on_err s1 in (s2, r :: rs, f)
  end.
Definition spec_update (now : Z) (ops : list op) (stop_on_err : bool) (s : sstate)
  : sstate * list out :=
  let '(s1, rs, failed) := spec_block now ops stop_on_err s in
  if failed then (s, rs) else (s1, rs).
