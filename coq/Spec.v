(* Spec.v — the abstract specification: what the operations mean on a plain
   keyspace  name -> (typed value, expiry).  Short enough to read in minutes.
   No rowids, positions, versions, cached lengths or stored-but-expired keys:
   every operation first forgets the entries whose expiry has been reached.
   No proofs here. *)
From Redka Require Import Base Db Glob ImplString Ops.

Inductive aval :=
| AVStr (s : bytes)
| AVList (l : list bytes)                 (* head first *)
| AVSet (l : list bytes)                  (* no duplicates, order irrelevant *)
| AVHash (l : list (bytes * bytes))       (* distinct fields, order irrelevant *)
| AVZSet (l : list (bytes * float)).      (* distinct members, order irrelevant *)

Record entry := mkEntry { en_val : aval; en_exp : option Z }.
Definition sstate := list (bytes * entry).   (* distinct names, order irrelevant *)

Definition atype (v : aval) : Z :=
  match v with AVStr _ => 1 | AVList _ => 2 | AVSet _ => 3 | AVHash _ => 4 | AVZSet _ => 5 end.

Definition en_live (now : Z) (e : entry) : bool :=
  match en_exp e with None => true | Some t => now <? t end.

(* forget what has expired *)
Definition spurge (now : Z) (s : sstate) : sstate :=
  filter (fun kv => en_live now (snd kv)) s.

Definition sget (s : sstate) (k : bytes) : option entry := opt_lookup s k.
Definition sdel (k : bytes) (s : sstate) : sstate :=
  filter (fun kv => negb (String.eqb (fst kv) k)) s.
Definition sput (k : bytes) (e : entry) (s : sstate) : sstate :=
  if existsb (fun kv => String.eqb (fst kv) k) s
  then map (fun kv => if String.eqb (fst kv) k then (k, e) else kv) s
  else s ++ [(k, e)].

Definition key_info (k : bytes) (e : entry) : rv :=
  VL [VS k; VI (atype (en_val e)); match en_exp e with Some t => VI t | None => VNone end].

(* what of a faithful result the specification talks about *)
Definition proj_key (r : rv) : rv :=
  match r with
  | VL [_; VS k; VI t; _; e; _] => VL [VS k; VI t; e]
  | _ => r
  end.

(* ---------- strings ---------- *)

Definition spec_str (s : sstate) (k : bytes) : option bytes :=
  match sget s k with
  | Some (mkEntry (AVStr v) _) => Some v
  | _ => None
  end.

(* a creating write of type [t] is refused when the name holds another type *)
Definition other_type (s : sstate) (k : bytes) (t : Z) : bool :=
  match sget s k with
  | Some e => negb (atype (en_val e) =? t)
  | None => false
  end.

Definition bytes_of_value (v : value) : option bytes :=
  match to_bytes v with
  | Some (Some b) => Some b
  | Some None => Some ""         (* a nil byte slice is the empty byte string *)
  | None => None
  end.

Definition keep_exp (s : sstate) (k : bytes) : option Z :=
  match sget s k with Some e => en_exp e | None => None end.

Definition spec_set (s : sstate) (k : bytes) (v : value) (exp : option Z) : sstate * out :=
  match bytes_of_value v with
  | None => (s, out_err EValueType)
  | Some b =>
      if other_type s k 1 then (s, out_err EKeyType)
      else (sput k (mkEntry (AVStr b) exp) s, out_ok VNone)
  end.

Definition spec_set_many (s : sstate) (items : list (bytes * value)) : sstate * out :=
  if negb (forallb (fun kv => is_value_type (snd kv)) items) then (s, out_err EValueType)
  else if existsb (fun kv => other_type s (fst kv) 1) items then (s, out_err EKeyType)
  else (fold_left (fun acc kv => fst (spec_set acc (fst kv) (snd kv) None)) items s, out_ok VNone).

Definition spec_incr (s : sstate) (k : bytes) (delta : Z) : sstate * out :=
  if other_type s k 1 then (s, out_err EKeyType) else
  let cur := match spec_str s k with Some v => v | None => "" end in
  match value_int cur with
  | None => (s, out_err EValueType)
  | Some n =>
      let nv := n + delta in
      (sput k (mkEntry (AVStr (itoa nv)) (keep_exp s k)) s, out_ok (VI nv))
  end.

Definition spec_incr_float (s : sstate) (k : bytes) (delta : float)
           (parsed : list (bytes * option float)) (sumtext : bytes) : sstate * out :=
  if other_type s k 1 then (s, out_err EKeyType) else
  let cur := match spec_str s k with Some v => v | None => "" end in
  let p := match cur with
           | EmptyString => Some zero
           | _ => match opt_lookup parsed cur with Some r => r | None => None end
           end in
  match p with
  | None => (s, out_err EValueType)
  | Some f =>
      let nv := (f + delta)%float in
      (sput k (mkEntry (AVStr sumtext) (keep_exp s k)) s, out_ok (VF nv))
  end.

Definition spec_set_with (now : Z) (s : sstate) (k : bytes) (v : value) (o : setopts)
  : sstate * out :=
  if negb (is_value_type v) then (s, out_both (VL [VNone; VB false; VB false]) EValueType) else
  let prev := match spec_str s k with Some p => VS p | None => VNone end in
  let exists_ := match spec_str s k with Some _ => true | None => false end in
  let nothing := (s, out_ok (VL [prev; VB false; VB false])) in
  if so_ifx o && negb exists_ then nothing else
  if so_ifnx o && exists_ then nothing else
  let exp := if so_keep o then keep_exp s k
             else if 0 <? so_ttl o then Some (now + so_ttl o) else so_at o in
  let '(s', r) := spec_set s k v exp in
  match o_err r with
  | Some e => (s', out_both (VL [prev; VB false; VB false]) e)
  | None => (s', out_ok (VL [prev; VB (negb exists_); VB exists_]))
  end.

(* ---------- keys ---------- *)

Definition spec_rename (now : Z) (s : sstate) (k nk : bytes) : sstate * out :=
  match sget s k with
  | None => (s, out_err ENotFound)
  | Some e =>
      if String.eqb k nk then (s, out_ok VNone) else
      if other_type s nk (atype (en_val e)) then (s, out_err EKeyType)
      else (sput nk e (sdel nk (sdel k s)), out_ok VNone)
  end.

Definition spec_rename_nx (now : Z) (s : sstate) (k nk : bytes) : sstate * out :=
  match sget s k with
  | None => (s, out_err ENotFound)
  | Some e =>
      if String.eqb k nk then (s, out_ok (VB false)) else
      match sget s nk with
      | Some _ => (s, out_ok (VB false))
      | None => (sput nk e (sdel k s), out_ok (VB true))
      end
  end.

(* How a specification result is compared with the faithful one *)
Inductive cmpmode :=
| CmpFull          (* result (after projection) and state *)
| CmpState         (* state only: the result is not determined by the abstract state *)
| CmpNone.         (* outside the specification (storage-level operation) *)

Definition spec_mode (in_tx : bool) (o : op) : cmpmode :=
  match o with
  | KDeleteExpired _ => CmpState
  | KScan _ _ _ _ => CmpState
  | KDeleteAll => if in_tx then CmpNone else CmpFull
  | _ => CmpFull
  end.

(* projection of a faithful result onto what the specification determines *)
Definition proj_result (o : op) (r : rv) : rv :=
  match o, r with
  | KGet _, _ | KRandom _, _ => proj_key r
  | KKeys _, VU l => VU (map proj_key l)
  | _, _ => r
  end.

Definition spec_step (now : Z) (o : op) (s0 : sstate) : sstate * out :=
  let s := spurge now s0 in
  match o with
  | KCount keys => (s, out_ok (VI (zlen (filter (fun kv => str_in (fst kv) keys) s))))
  | KDelete keys =>
      (filter (fun kv => negb (str_in (fst kv) keys)) s,
       out_ok (VI (zlen (filter (fun kv => str_in (fst kv) keys) s))))
  | KDeleteAll => ([], out_ok VNone)
  | KDeleteExpired _ => (s, out_ok VNone)
  | KExists k => (s, out_ok (VB (match sget s k with Some _ => true | None => false end)))
  | KExpire k ttl =>
      match sget s k with
      | Some e => (sput k (mkEntry (en_val e) (Some (now + ttl))) s, out_ok VNone)
      | None => (s, out_err ENotFound)
      end
  | KExpireAt k a =>
      match sget s k with
      | Some e => (sput k (mkEntry (en_val e) (Some a)) s, out_ok VNone)
      | None => (s, out_err ENotFound)
      end
  | KGet k =>
      match sget s k with
      | Some e => (s, out_ok (key_info k e))
      | None => (s, out_err ENotFound)
      end
  | KKeys p => (s, out_ok (VU (map (fun kv => key_info (fst kv) (snd kv))
                                   (filter (fun kv => glob p (fst kv)) s))))
  | KLen => (s, out_ok (VI (zlen s)))
  | KPersist k =>
      match sget s k with
      | Some e => (sput k (mkEntry (en_val e) None) s, out_ok VNone)
      | None => (s, out_err ENotFound)
      end
  | KRandom c =>
      match s with
      | [] => (s, out_err ENotFound)
      | _ => match c with
             | Some k => match sget s k with
                         | Some e => (s, out_ok (key_info k e))
                         | None => (s, out_err ENotFound)   (* not a live key: disagreement *)
                         end
             | None => (s, out_err ENotFound)
             end
      end
  | KRename k nk => spec_rename now s k nk
  | KRenameNX k nk => spec_rename_nx now s k nk
  | KScan _ _ _ _ => (s, out_ok VNone)
  | SGet k => match spec_str s k with
              | Some v => (s, out_ok (VS v))
              | None => (s, out_err ENotFound)
              end
  | SGetMany ks =>
      (s, out_ok (VU (flat_map (fun kv =>
                        if str_in (fst kv) ks then
                          match en_val (snd kv) with
                          | AVStr v => [VL [VS (fst kv); VS v]]
                          | _ => []
                          end
                        else []) s)))
  | SIncr k dl => spec_incr s k dl
  | SIncrFloat k dl parsed sumtext => spec_incr_float s k dl parsed sumtext
  | SSet k v => spec_set s k v None
  | SSetExpires k v ttl => spec_set s k v (if 0 <? ttl then Some (now + ttl) else None)
  | SSetMany items => spec_set_many s items
  | SSetWith k v calls => spec_set_with now s k v (setopts_of calls)
  end.

(* a caller-managed transaction in the specification: all or nothing when the
   callback stops at the first error; when it ignores errors, each operation
   is the DB-level one *)
Fixpoint spec_block (now : Z) (ops : list op) (stop_on_err : bool) (s : sstate)
  : sstate * list out * bool :=
  match ops with
  | [] => (s, [], false)
  | o :: rest =>
      let '(s1, r) := spec_step now o s in
      if stop_on_err && is_err r then (s1, [r], true)
      else let '(s2, rs, f) := spec_block now rest stop_on_err s1 in (s2, r :: rs, f)
  end.
Definition spec_update (now : Z) (ops : list op) (stop_on_err : bool) (s : sstate)
  : sstate * list out :=
  let '(s1, rs, failed) := spec_block now ops stop_on_err s in
  if failed then (s, rs) else (s1, rs).
