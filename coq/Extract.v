(* Extract.v — extraction of the executable model to OCaml for the
   correspondence check.  Only the standard extraction libraries are used:
   ExtrOcamlBasic (bool, option, list, pairs ...), ExtrOcamlNativeString
   (string/ascii -> OCaml string/char) and ExtrOCamlFloats (PrimFloat -> the
   kernel's Float64 module).  Z, N, positive stay the extracted datatypes. *)
From Redka Require Import Base Db Glob ImplKey ImplString Ops Spec Abs Excl Inv.
From Coq Require Import ExtrOcamlBasic ExtrOcamlNativeString ExtrOCamlFloats.
Extraction Language OCaml.
(* keep extracted file names from shadowing OCaml's standard library *)
Extraction Blacklist String List Nat Int Char Bool Float Float64 Buffer Printf Stdlib.
Separate Extraction
  Base Db Glob.glob Ops.exec_db Ops.exec_update Ops.exec_tx Ops.wrapped Ops.is_read
  Spec.spec_step Spec.spec_update Spec.spec_mode Spec.proj_result Abs.abs
  Excl.excluded Excl.excluded_block Inv.inv_ok Inv.no_trace_ok Inv.meta_ok Inv.block_no_trace Inv.block_meta_ok.
