(* ProofRefineZSet.v — C05: the DB-level sorted-set operations of the faithful
   model refine the abstract specification. *)
From Redka Require Import Base Db Glob ImplKey ImplString ImplList ImplSet ImplHash ImplZSet Ops Spec Abs Inv Excl Refine ProofNoTrace ProofInv ProofInv2 ProofRange ProofRefineStr.
From Coq Require Import Permutation Lia ZifyBool.

(* ZAlg / ZStore (aggregation over several keys) and ZScan are treated separately *)
Definition zset_op (o : op) : bool :=
  match o with
  | ZAdd _ _ _ | ZAddMany _ _ | ZCount _ _ _ | ZDelete _ _ | ZDeleteRank _ _ _ | ZDeleteScore _ _ _
  | ZGetRank _ _ _ | ZGetScore _ _ | ZIncr _ _ _ | ZLen _ | ZRangeRank _ _ _ _ | ZRangeScore _ _ _ _ _ _ => true
  | _ => false
  end.
Definition not_nan (f : float) : Prop := (f =? f)%float = true.
(* AddMany takes a Go map (distinct members); scores are numbers; rank arguments are Go ints *)
Definition wf_zop (o : op) : Prop :=
  match o with
  | ZAdd _ _ sc => not_nan sc
  | ZIncr _ _ dl => not_nan dl
  | ZAddMany _ items => NoDup (map (fun p => bytes_of_value (fst p)) items) /\ Forall (fun p => not_nan (snd p)) items
  | ZDeleteRank _ a b => in_int64 a = true /\ in_int64 b = true
  | _ => True
  end.

(* ================================================================== *)
(* Part 1: sorting commutes with forgetting ids                       *)
(* ================================================================== *)

Definition pr (r : zrow) : bytes * float := (z_elem r, z_score r).

Lemma insert_sorted_map {A B} (f : A -> B) (le : A -> A -> bool) (le' : B -> B -> bool) x l :
  (forall a b, le a b = le' (f a) (f b)) ->
  map f (insert_sorted le x l) = insert_sorted le' (f x) (map f l).
Proof.
  intros H. induction l as [|y r IH]; [reflexivity|].
  cbn [insert_sorted map]. rewrite <- H. destruct (le x y); cbn [map]; [reflexivity|].
  rewrite IH. reflexivity.
Qed.

Lemma isort_map {A B} (f : A -> B) (le : A -> A -> bool) (le' : B -> B -> bool) l :
  (forall a b, le a b = le' (f a) (f b)) ->
  map f (isort le l) = isort le' (map f l).
Proof.
  intros H. induction l as [|x r IH]; [reflexivity|].
  cbn [isort map]. rewrite (insert_sorted_map f le le') by exact H. rewrite IH. reflexivity.
Qed.

Lemma zsorted_pr desc rows : map pr (z_sorted desc rows) = zorder desc (map pr rows).
Proof.
  unfold z_sorted, zorder. destruct desc; apply isort_map; intros a b; reflexivity.
Qed.

Theorem zsorted_map : forall desc rows,
  map (fun r => (z_elem r, z_score r)) (z_sorted desc rows) = zorder desc (map (fun r => (z_elem r, z_score r)) rows).
Proof. exact zsorted_pr. Qed.

(* ================================================================== *)
(* Part 2: reading a sorted set by name                               *)
(* ================================================================== *)

Definition zmem_of (o : option entry) : list (bytes * float) :=
  match o with Some (mkEntry (AVZSet l) _) => l | _ => [] end.
Definition okz (o : option entry) : bool :=
  match o with Some e => atype (en_val e) =? 5 | None => true end.
Definition exp_of (o : option entry) : option Z :=
  match o with Some e => en_exp e | None => None end.
Definition is_z (o : option entry) : bool :=
  match o with Some (mkEntry (AVZSet _) _) => true | _ => false end.

Lemma abs_val_z d r : k_type r = 5 -> abs_val d r = Some (AVZSet (map pr (zset_rows d (k_id r)))).
Proof. intros T. unfold abs_val. rewrite T. reflexivity. Qed.

Lemma live_key_any now d key T :
  live_key now d key T =
  match live_any now d key with Some r => if k_type r =? T then Some r else None | None => None end.
Proof.
  unfold live_key, live_any. destruct (find_key d key) as [r|]; [| reflexivity].
  destruct (live now r); [rewrite andb_true_r | rewrite andb_false_r]; reflexivity.
Qed.

Lemma live_key_view_some now d key r :
  InvH None d -> live_key now d key T_ZSET = Some r ->
  view now d key = Some (mkEntry (AVZSet (map pr (zset_rows d (k_id r)))) (k_etime r)).
Proof.
  intros I. rewrite live_key_any. destruct (live_any now d key) as [r0|] eqn:L; [| discriminate].
  unfold T_ZSET. destruct (Z.eqb_spec (k_type r0) 5) as [T|T]; [| discriminate].
  intros E. injection E as <-. unfold view. rewrite L, abs_val_z by exact T. reflexivity.
Qed.

Lemma live_key_view_none now d key :
  InvH None d -> live_key now d key T_ZSET = None -> is_z (view now d key) = false.
Proof.
  intros I. rewrite live_key_any. destruct (live_any now d key) as [r0|] eqn:L.
  - destruct (view_live _ _ _ _ I L) as [v [_ [Tv V]]]. rewrite V.
    unfold T_ZSET. destruct (Z.eqb_spec (k_type r0) 5) as [T|T]; [discriminate|]. intros _.
    destruct v; cbn in *; try reflexivity. congruence.
  - intros _. rewrite (view_dead _ _ _ L). reflexivity.
Qed.

Lemma zrows_view now d key :
  InvH None d -> map pr (live_zset_rows now d key) = zmem_of (view now d key).
Proof.
  intros I. unfold live_zset_rows. destruct (live_key now d key T_ZSET) as [r|] eqn:L.
  - rewrite (live_key_view_some _ _ _ _ I L). reflexivity.
  - pose proof (live_key_view_none _ _ _ I L) as Z. destruct (view now d key) as [[[]]|]; try reflexivity.
    discriminate Z.
Qed.

Lemma zmembers_eq s k : zmembers s k = zmem_of (sget s k).
Proof. unfold zmembers, spec_zset, zmem_of. destruct (sget s k) as [[[]]|]; reflexivity. Qed.

Lemma spec_zset_eq s k : spec_zset s k = if is_z (sget s k) then Some (zmem_of (sget s k)) else None.
Proof. unfold spec_zset, zmem_of, is_z. destruct (sget s k) as [[[]]|]; reflexivity. Qed.

Lemma other_type_okz s k : other_type s k 5 = negb (okz (sget s k)).
Proof. unfold other_type, okz. destruct (sget s k); reflexivity. Qed.

Lemma keep_exp_eq s k : keep_exp s k = exp_of (sget s k).
Proof. reflexivity. Qed.

Lemma zlen_inv d r :
  InvH None d -> In r (rkey d) -> k_type r = 5 -> k_len r = Some (zlen (zset_rows d (k_id r))).
Proof.
  intros I Hr T. pose proof (LenH_None _ _ (a_len _ _ _ (i_a _ _ I) r Hr)) as [[T1 _] | [_ L]]; [congruence|].
  rewrite L, T. change (kidsOf d 5) with (map z_kid (rzset d)). rewrite <- cntz_map. reflexivity.
Qed.

Lemma zget_map rows e :
  zget (map pr rows) e = option_map z_score (find (fun r => String.eqb (z_elem r) e) rows).
Proof.
  unfold zget, opt_lookup. induction rows as [|r rows IH]; [reflexivity|].
  cbn [map find]. change (fst (pr r)) with (z_elem r). destruct (String.eqb (z_elem r) e); [reflexivity | exact IH].
Qed.

Lemma bytes_args1 v d :
  bytes_args [v] d = match to_bytes v with Some b => (d, Ok [b]) | None => (d, Err EValueType) end.
Proof. unfold bytes_args, values_bytes. destruct (to_bytes v); reflexivity. Qed.

Lemma rank_segment_map {A B} (f : A -> B) l a b :
  rank_segment (map f l) a b = map f (rank_segment l a b).
Proof.
  unfold rank_segment. destruct ((a <? 0) || (b <? 0) || (b <? a)); [reflexivity|].
  rewrite zdrop_map, ztake_map. reflexivity.
Qed.

Lemma range_rank_eq now key a b desc d :
  zset_range_rank now key a b desc d =
  (d, Ok (rank_segment (z_sorted desc (live_zset_rows now d key)) a b)).
Proof.
  unfold zset_range_rank, rank_segment.
  destruct ((a <? 0) || (b <? 0)); [reflexivity|]. cbn [orb]. unfold lift_read.
  destruct (b <? a); reflexivity.
Qed.

Definition score_page {A} (off cnt : Z) (rows : list A) : list A :=
  let rows := if 0 <? off then zdrop off rows else rows in
  if 0 <? cnt then ztake cnt rows else rows.

Lemma score_page_limit {A} off cnt (rows : list A) :
  (if (0 <? off) && (0 <? cnt) then sql_limit off cnt rows
   else if 0 <? cnt then sql_limit 0 cnt rows
   else if 0 <? off then sql_limit off (-1) rows
   else rows) = score_page off cnt rows.
Proof.
  unfold score_page, sql_limit.
  destruct (0 <? off) eqn:O, (0 <? cnt) eqn:C; cbn [andb].
  - replace (cnt <? 0) with false by lia. replace (Z.max off 0) with off by lia. reflexivity.
  - change (-1 <? 0) with true. cbv iota. replace (Z.max off 0) with off by lia. reflexivity.
  - replace (cnt <? 0) with false by lia. change (Z.max 0 0) with 0. rewrite zdrop_0. reflexivity.
  - reflexivity.
Qed.

Lemma score_page_map {A B} (f : A -> B) off cnt rows :
  score_page off cnt (map f rows) = map f (score_page off cnt rows).
Proof.
  unfold score_page. destruct (0 <? off), (0 <? cnt); rewrite ?zdrop_map, ?ztake_map; reflexivity.
Qed.

Lemma filter_pr (q : bytes * float -> bool) rows :
  filter q (map pr rows) = map pr (filter (fun r => q (pr r)) rows).
Proof. apply filter_map_comm. Qed.

Lemma index_of_nth e rows : forall base i sc,
  index_of e rows base = Some (i, sc) ->
  base <= i /\ exists x, nth_error rows (Z.to_nat (i - base)) = Some x /\ z_elem x = e /\ z_score x = sc.
Proof.
  induction rows as [|r rows IH]; intros base i sc; [discriminate|].
  cbn [index_of]. destruct (String.eqb_spec (z_elem r) e) as [E|E].
  - intros H. injection H as <- <-. split; [lia|]. exists r. rewrite Z.sub_diag. cbn. auto.
  - intros H. apply IH in H as [Hle [x [Hn Hx]]]. split; [lia|]. exists x. split; [| exact Hx].
    replace (Z.to_nat (i - base)) with (S (Z.to_nat (i - (base + 1)))) by lia. exact Hn.
Qed.

(* ================================================================== *)
(* Part 3: the reading operations                                     *)
(* ================================================================== *)

Section ZReads.
Variable now : Z.
Variable d : db.
Variable s : sstate.
Hypothesis I : InvH None d.
Hypothesis HR : R now d s.

Let s1 := spurge now s.
Let G1' : forall k, sget s1 k = view now d k := G1 now d s I HR.
Let R1' : R now d s1 := R1 now d s HR.

Lemma zmembers_rows k : zmembers s1 k = map pr (live_zset_rows now d k).
Proof. rewrite zmembers_eq, G1'. symmetry. apply zrows_view. exact I. Qed.

Lemma step_ZCount k lo hi : step_refines now (ZCount k lo hi) d s.
Proof.
  eapply step_intro.
  - eapply exec_unwrapped_run; [reflexivity | reflexivity |]. reflexivity.
  - cbn [spec_step]. fold s1. reflexivity.
  - split; [reflexivity|]. cbn [proj_result res_out o_val out_ok].
    rewrite zmembers_rows, filter_pr, zlen_map. apply rve_refl.
  - exact R1'.
Qed.

Lemma zset_len_eq k : zset_len now k d = (d, Ok (zlen (live_zset_rows now d k))).
Proof.
  unfold zset_len, live_zset_rows. destruct (live_key now d k T_ZSET) as [r|] eqn:L; [| reflexivity].
  apply live_key_some in L as [Hr [_ [T _]]]. rewrite (zlen_inv d r I Hr T). reflexivity.
Qed.

Lemma step_ZLen k : step_refines now (ZLen k) d s.
Proof.
  eapply step_intro.
  - eapply exec_unwrapped_run; [reflexivity | reflexivity |]. apply zset_len_eq.
  - cbn [spec_step]. fold s1. reflexivity.
  - split; [reflexivity|]. cbn [proj_result res_out o_val out_ok].
    rewrite zmembers_rows, zlen_map. apply rve_refl.
  - exact R1'.
Qed.

Lemma step_ZGetScore k v : step_refines now (ZGetScore k v) d s.
Proof.
  destruct (to_bytes_cases v) as [[Tb [Bv _]] | [b [Tb [Bv _]]]].
  - eapply step_intro.
    + eapply exec_unwrapped_run; [reflexivity | reflexivity |].
      unfold zset_get_score. erewrite bind_err; [reflexivity|]. rewrite bytes_args1, Tb. reflexivity.
    + cbn [spec_step]. fold s1. rewrite Bv. reflexivity.
    + apply out_equiv_refl. reflexivity.
    + exact R1'.
  - eapply step_intro.
    + eapply exec_unwrapped_run; [reflexivity | reflexivity |].
      unfold zset_get_score. erewrite bind_ok; [| rewrite bytes_args1, Tb; reflexivity]. cbv beta iota.
      instantiate (1 := match find (fun r => String.eqb (z_elem r) b) (live_zset_rows now d k) with
                        | Some r => Ok (z_score r) | None => Err ENotFound end).
      instantiate (1 := d). destruct (find _ (live_zset_rows now d k)); reflexivity.
    + cbn [spec_step]. fold s1. rewrite Bv, zmembers_rows, zget_map.
      instantiate (1 := res_out VF (match find (fun r => String.eqb (z_elem r) b) (live_zset_rows now d k) with
                        | Some r => Ok (z_score r) | None => Err ENotFound end)).
      instantiate (1 := s1). destruct (find _ (live_zset_rows now d k)); reflexivity.
    + apply out_equiv_refl. destruct (find _ (live_zset_rows now d k)); reflexivity.
    + exact R1'.
Qed.

Lemma step_ZRangeRank k a b desc : step_refines now (ZRangeRank k a b desc) d s.
Proof.
  eapply step_intro.
  - eapply exec_unwrapped_run; [reflexivity | reflexivity |]. apply range_rank_eq.
  - cbn [spec_step]. fold s1. reflexivity.
  - split; [reflexivity|]. cbn [proj_result res_out o_val out_ok].
    rewrite zmembers_rows, <- zsorted_pr, rank_segment_map, map_map. apply rve_refl.
  - exact R1'.
Qed.

Lemma step_ZRangeScore k lo hi desc off cnt : step_refines now (ZRangeScore k lo hi desc off cnt) d s.
Proof.
  eapply step_intro.
  - eapply exec_unwrapped_run; [reflexivity | reflexivity |].
    unfold zset_range_score, lift_read. rewrite score_page_limit. reflexivity.
  - cbn [spec_step]. fold s1. reflexivity.
  - split; [reflexivity|]. cbn [proj_result res_out o_val out_ok].
    rewrite zmembers_rows, filter_pr, <- zsorted_pr.
    change (if 0 <? cnt then ztake cnt (if 0 <? off then zdrop off ?l else ?l) else (if 0 <? off then zdrop off ?l else ?l))
      with (score_page off cnt l).
    rewrite score_page_map, map_map. apply rve_refl.
  - exact R1'.
Qed.

End ZReads.

(* ================================================================== *)
(* Part 4: what the writing primitives do to the view                 *)
(* ================================================================== *)

Lemma reset_structT now key typ d r0 :
  find_key d key = Some r0 -> expired now r0 = true ->
  exists G,
    (forall x, k_id (G x) = k_id x /\ k_key (G x) = k_key x /\ k_type (G x) = typ /\ k_etime (G x) = None) /\
    rkey (reset_expired now key typ d) = map (fun x => if k_id x =? k_id r0 then G x else x) (rkey d) /\
    rstring (reset_expired now key typ d) = filter (fun x => negb (s_kid x =? k_id r0)) (rstring d) /\
    rlist (reset_expired now key typ d) = filter (fun x => negb (l_kid x =? k_id r0)) (rlist d) /\
    rset (reset_expired now key typ d) = filter (fun x => negb (e_kid x =? k_id r0)) (rset d) /\
    rhash (reset_expired now key typ d) = filter (fun x => negb (h_kid x =? k_id r0)) (rhash d) /\
    rzset (reset_expired now key typ d) = filter (fun x => negb (z_kid x =? k_id r0)) (rzset d).
Proof.
  intros F X. unfold reset_expired. rewrite F, X. rewrite trig_list_delete_eq.
  set (nl := zlen (filter (fun x => l_kid x =? k_id r0) (rlist d))).
  exists (fun x => mkKey (k_id (trigG now nl x)) (k_key (trigG now nl x)) typ (k_ver (trigG now nl x)) None
                         (k_mtime (trigG now nl x)) (if typ =? 1 then None else Some 0)).
  assert (TG : forall x, k_id (trigG now nl x) = k_id x /\ k_key (trigG now nl x) = k_key x).
  { intros x. unfold trigG. destruct (nl =? 0); cbn; auto. }
  split; [intros x; cbn; destruct (TG x); auto|].
  split; [| repeat split].
  unfold upd_key_id, upd_keys, set_rkey. cbn [rkey]. rewrite map_map. apply map_ext. intros x.
  destruct (k_id x =? k_id r0) eqn:E.
  - rewrite (proj1 (TG x)), E. reflexivity.
  - rewrite E. reflexivity.
Qed.

Lemma frame_resetT now key typ d :
  InvH None d -> frame key d (reset_expired now key typ d).
Proof.
  intros I. destruct (find_key d key) as [r0|] eqn:F.
  2:{ unfold reset_expired. rewrite F. apply frame_refl. }
  destruct (expired now r0) eqn:X.
  2:{ unfold reset_expired. rewrite F, X. apply frame_refl. }
  destruct (reset_structT now key typ d r0 F X) as [G [HG [E0 [E1 [E2 [E3 [E4 E5]]]]]]].
  apply find_key_some in F as [H0 K0].
  split.
  - intros r Hr Hk.
    assert (Hid : k_id r <> k_id r0).
    { intros Eid. apply Hk. rewrite <- K0. f_equal. apply (row_same_id _ d r r0 I Hr H0 Eid). }
    split.
    + rewrite E0. apply in_map_iff. exists r. split; [| exact Hr].
      destruct (Z.eqb_spec (k_id r) (k_id r0)); [contradiction | reflexivity].
    + apply same_rows_filtered with (keep := fun k => negb (k =? k_id r0)); try assumption.
      apply negb_true_iff. lia.
  - intros r' Hr' Hk. rewrite E0 in Hr'. apply in_map_iff in Hr' as [r [<- Hr]].
    destruct (Z.eqb_spec (k_id r) (k_id r0)) as [Eid|Eid]; [| exact Hr].
    exfalso. apply Hk. rewrite (proj1 (proj2 (HG r))).
    rewrite <- K0. f_equal. apply (row_same_id _ d r r0 I Hr H0 Eid).
Qed.

Lemma frame_upd_row key d r1 r' :
  InvH None d -> In r1 (rkey d) -> k_key r1 = key -> k_key r' = key ->
  frame key d (upd_key_id (k_id r1) (fun _ => r') d).
Proof.
  intros I H1 K1 K'. split.
  - intros r Hr Hk.
    assert (Hid : k_id r <> k_id r1).
    { intros Eid. apply Hk. rewrite <- K1. f_equal. apply (row_same_id _ d r r1 I Hr H1 Eid). }
    split.
    + change (In r (map (fun x => if k_id x =? k_id r1 then r' else x) (rkey d))).
      apply in_map_iff. exists r. split; [| exact Hr].
      destruct (Z.eqb_spec (k_id r) (k_id r1)); [contradiction | reflexivity].
    + repeat split.
  - intros r Hr Hk.
    change (In r (map (fun x => if k_id x =? k_id r1 then r' else x) (rkey d))) in Hr.
    apply in_map_iff in Hr as [x [<- Hx]].
    destruct (Z.eqb_spec (k_id x) (k_id r1)); [contradiction | exact Hx].
Qed.

(* a change confined to the rows of one sorted-set key *)
Lemma view_zchange now d d' k0 F :
  InvH None d -> InvH None d' -> In k0 (rkey d) -> k_type k0 = 5 ->
  rkey d' = map F (rkey d) ->
  (forall r, k_id (F r) = k_id r /\ k_key (F r) = k_key r /\ k_type (F r) = k_type r /\ k_etime (F r) = k_etime r) ->
  rstring d' = rstring d -> rlist d' = rlist d -> rset d' = rset d -> rhash d' = rhash d ->
  (forall id, id <> k_id k0 ->
     filter (fun x => z_kid x =? id) (rzset d') = filter (fun x => z_kid x =? id) (rzset d)) ->
  forall k, view now d' k =
    if String.eqb (k_key k0) k
    then (if live now k0 then Some (mkEntry (AVZSet (map pr (zset_rows d' (k_id k0)))) (k_etime k0)) else None)
    else view now d k.
Proof.
  intros I I' H0 T0 RK HF E1 E2 E3 E4 E5 k.
  pose proof (InvH_names _ _ I) as N. pose proof (InvH_names _ _ I') as N'.
  assert (LF : forall r, live now (F r) = live now r).
  { intros r. rewrite !live_lv. destruct (HF r) as [_ [_ [_ ->]]]. reflexivity. }
  destruct (find_key_cases d k) as [[r [Hr [Kr _]]] | [Hno _]].
  - assert (Hr' : In (F r) (rkey d')) by (rewrite RK; apply in_map; exact Hr).
    assert (Kr' : k_key (F r) = k) by (destruct (HF r) as [_ [-> _]]; exact Kr).
    rewrite (view_row' now d' (F r) k N' Hr' Kr'), LF.
    destruct (String.eqb_spec (k_key k0) k) as [E|E].
    + assert (r = k0) by (apply (row_same_key _ d r k0 I Hr H0); congruence). subst r.
      destruct (live now k0); [| reflexivity].
      rewrite abs_val_z by (destruct (HF k0) as [_ [_ [-> _]]]; exact T0).
      destruct (HF k0) as [-> [_ [_ ->]]]. reflexivity.
    + rewrite (view_row' now d r k N Hr Kr).
      assert (Hid : k_id r <> k_id k0).
      { intros Eid. apply E. rewrite <- Kr. f_equal. symmetry. apply (row_same_id _ d r k0 I Hr H0 Eid). }
      destruct (HF r) as [F1 [F2 [F3 F4]]].
      rewrite (abs_val_same d d' r (F r) F1 F3), F4; [reflexivity|].
      unfold same_rows, find_sval. rewrite E1, E2, E3, E4, (E5 _ Hid). repeat split.
  - rewrite (view_norow now d k Hno).
    destruct (String.eqb_spec (k_key k0) k) as [E|E]; [exfalso; exact (Hno k0 H0 E)|].
    apply view_norow. intros r' Hr' Kr'. rewrite RK in Hr'. apply in_map_iff in Hr' as [r [<- Hr]].
    destruct (HF r) as [_ [K _]]. rewrite K in Kr'. exact (Hno r Hr Kr').
Qed.

Lemma okz_false_notz o : okz o = false -> is_z o = false.
Proof. destruct o as [[[]]|]; cbn; try reflexivity; discriminate. Qed.

Lemma zrows_no_owner d id :
  InvH None d -> (forall r, In r (rkey d) -> k_id r <> id) -> zset_rows d id = [].
Proof.
  intros I H. unfold zset_rows. apply filter_none. intros x Hx.
  destruct (Z.eqb_spec (z_kid x) id) as [E|E]; [| reflexivity]. exfalso.
  destruct (a_own _ _ _ (i_a _ _ I) 5 (z_kid x)) as [r [Hr [Er _]]]; [lia | |].
  - change (kidsOf d 5) with (map z_kid (rzset d)). apply in_map. exact Hx.
  - apply (H r Hr). congruence.
Qed.

Lemma zadd1_eff now key d :
  InvH None d ->
  if okz (view now d key) then
    exists d1 k, zset_add1 now key d = (d1, Ok k) /\ InvH None d1 /\ In k (rkey d1) /\
      k_key k = key /\ k_type k = 5 /\ live now k = true /\ k_etime k = exp_of (view now d key) /\
      map pr (zset_rows d1 (k_id k)) = zmem_of (view now d key) /\
      frame key d d1
  else exists d1, zset_add1 now key d = (d1, Err EKeyType).
Proof.
  intros I. pose proof (InvH_names _ _ I) as N.
  assert (Fin : forall d1 k X L,
     upsert_key now key T_ZSET None (Some 0) (fun r => r) d = (d1, Ok k) ->
     frame key d d1 -> live now k = true -> k_etime k = X -> map pr (zset_rows d1 (k_id k)) = L ->
     exists d1 k, zset_add1 now key d = (d1, Ok k) /\ InvH None d1 /\ In k (rkey d1) /\
      k_key k = key /\ k_type k = 5 /\ live now k = true /\ k_etime k = X /\
      map pr (zset_rows d1 (k_id k)) = L /\ frame key d d1).
  { intros d1 k X L E Fr Lk Ek Zk. exists d1, k.
    assert (E' : zset_add1 now key d = (d1, Ok k)) by (unfold zset_add1; apply typed_error_ok_eq; exact E).
    destruct (zset_add1_spec now key d d1 k I E') as [I1 _].
    destruct (upsert_spec now key T_ZSET None (Some 0) (fun r => r) d d1 k I) as [_ [Hk [Kk Tk]]];
      [unfold T_ZSET; lia | intros _; reflexivity | intros x; auto | exact E |].
    repeat (split; [assumption|]). assumption. }
  destruct (find_key_cases d key) as [[r0 [Hr0 [K0 F]]] | [Hno F]].
  - destruct (expired now r0) eqn:X.
    + assert (V : view now d key = None).
      { rewrite (view_row' now d r0 key N Hr0 K0), live_expired, X. reflexivity. }
      rewrite V. cbn [okz exp_of zmem_of].
      pose proof (InvH_reset now key 5 d I ltac:(lia)) as I1. change (5 =? 1) with false in I1. cbv iota in I1.
      pose proof (frame_resetT now key 5 d I) as Fr1.
      destruct (reset_structT now key 5 d r0 F X) as [G [HG [E0 [_ [_ [_ [_ E5]]]]]]].
      set (d1 := reset_expired now key 5 d) in *.
      assert (In1 : In (G r0) (rkey d1)).
      { rewrite E0. apply in_map_iff. exists r0. rewrite Z.eqb_refl. auto. }
      destruct (HG r0) as [G1 [G2 [G3 G4]]].
      assert (F1 : find_key d1 key = Some (G r0)).
      { rewrite <- K0, <- G2. apply find_key_in; [eapply InvH_names; exact I1 | exact In1]. }
      set (r' := with_mtime (with_ver (G r0) (k_ver (G r0) + 1)) now).
      apply (Fin (upd_key_id (k_id (G r0)) (fun _ => r') d1) r' None []).
      * unfold upsert_key, T_ZSET. fold d1. rewrite F1, G3. reflexivity.
      * eapply frame_trans; [exact Fr1|]. apply frame_upd_row; [exact I1 | exact In1 | congruence | cbn; congruence].
      * rewrite live_lv. cbn. rewrite G4. reflexivity.
      * cbn. exact G4.
      * unfold zset_rows. cbn [rzset upd_key_id upd_keys set_rkey k_id r' with_mtime with_ver].
        rewrite E5, G1. rewrite filter_filter, filter_none; [reflexivity|].
        intros x _. destruct (z_kid x =? k_id r0); reflexivity.
    + assert (D1 : reset_expired now key T_ZSET d = d) by (unfold reset_expired; rewrite F, X; reflexivity).
      destruct (abs_val_typed d r0 I Hr0) as [v [Ev Tv]].
      assert (V : view now d key = Some (mkEntry v (k_etime r0))).
      { rewrite (view_row' now d r0 key N Hr0 K0), live_expired, X, Ev. reflexivity. }
      rewrite V. cbn [okz en_val en_exp exp_of]. rewrite Tv.
      destruct (Z.eqb_spec (k_type r0) 5) as [T5|T5].
      * set (r' := with_mtime (with_ver r0 (k_ver r0 + 1)) now).
        rewrite abs_val_z in Ev by exact T5. injection Ev as <-.
        apply (Fin (upd_key_id (k_id r0) (fun _ => r') d) r' (k_etime r0) (map pr (zset_rows d (k_id r0)))).
        -- unfold upsert_key. rewrite D1, F. unfold T_ZSET. rewrite T5. reflexivity.
        -- apply frame_upd_row; [exact I | exact Hr0 | exact K0 | exact K0].
        -- rewrite live_lv. cbn. rewrite <- live_lv, live_expired, X. reflexivity.
        -- reflexivity.
        -- reflexivity.
      * exists d. unfold zset_add1, typed_error, upsert_key. rewrite D1, F. unfold T_ZSET.
        destruct (Z.eqb_spec (k_type r0) 5); [contradiction | reflexivity].
  - assert (D1 : reset_expired now key T_ZSET d = d) by (unfold reset_expired; rewrite F; reflexivity).
    rewrite (view_norow now d key Hno). cbn [okz exp_of zmem_of].
    set (rn := mkKey (next_key_id d) key T_ZSET 1 None now (Some 0)).
    assert (E : upsert_key now key T_ZSET None (Some 0) (fun r => r) d = (set_rkey d (rkey d ++ [rn]), Ok rn)).
    { unfold upsert_key. rewrite D1, F. reflexivity. }
    apply (Fin _ rn None [] E).
    + split.
      * intros r Hr Hk. split; [cbn; apply in_or_app; left; exact Hr | repeat split].
      * intros r Hr Hk. cbn in Hr. apply in_app_iff in Hr as [Hr | [<- | []]]; [exact Hr|].
        exfalso. apply Hk. reflexivity.
    + reflexivity.
    + reflexivity.
    + change (zset_rows (set_rkey d (rkey d ++ [rn])) (k_id rn)) with (zset_rows d (next_key_id d)).
      rewrite zrows_no_owner; [reflexivity | exact I |]. intros r Hr. unfold next_key_id.
      assert (k_id r <= zmax_list (map k_id (rkey d))) by (apply zmax_ge, in_map; exact Hr). lia.
Qed.

(* ---- zset_upsert ---- *)

Lemma feqb_zero_refl f : (f =? zero)%float = true -> (f =? f)%float = true.
Proof.
  rewrite !FloatAxioms.eqb_spec.
  replace (FloatOps.Prim2SF zero) with (SpecFloat.S754_zero false) by (vm_compute; reflexivity).
  destruct (FloatOps.Prim2SF f) as [s|s| |s m e]; cbn; try discriminate; try destruct s; try discriminate; reflexivity.
Qed.

Lemma is_nanf_norm f : is_nanf (norm_score f) = is_nanf f.
Proof.
  unfold is_nanf, norm_score. destruct (f =? zero)%float eqn:E; [| reflexivity].
  rewrite (feqb_zero_refl f E). vm_compute. reflexivity.
Qed.

Lemma find_filter_and {A} (p q : A -> bool) l :
  find (fun r => p r && q r) l = find q (filter p l).
Proof.
  induction l as [|x l IH]; [reflexivity|]. cbn [find filter].
  destruct (p x); cbn [andb find]; [destruct (q x); [reflexivity | exact IH] | exact IH].
Qed.

Lemma existsb_find {A} (q : A -> bool) l :
  existsb q l = match find q l with Some _ => true | None => false end.
Proof. induction l as [|x l IH]; [reflexivity|]. cbn. destruct (q x); [reflexivity | exact IH]. Qed.

Lemma filter_map_other (g : zrow -> zrow) kid id l :
  (forall x, z_kid (g x) = z_kid x) -> (forall x, z_kid x <> kid -> g x = x) -> id <> kid ->
  filter (fun x => z_kid x =? id) (map g l) = filter (fun x => z_kid x =? id) l.
Proof.
  intros G1 G2 NE. induction l as [|x l IH]; [reflexivity|]. cbn [map filter]. rewrite G1, IH.
  destruct (Z.eqb_spec (z_kid x) id) as [E|E]; [| reflexivity]. rewrite G2 by congruence. reflexivity.
Qed.

Lemma filter_map_pres {A} (p : A -> bool) (g : A -> A) l :
  (forall x, p (g x) = p x) -> filter p (map g l) = map g (filter p l).
Proof.
  intros H. induction l as [|x l IH]; [reflexivity|]. cbn [map filter]. rewrite H, IH.
  destruct (p x); reflexivity.
Qed.

Lemma existsb_map' {A B} (f : A -> B) (q : B -> bool) l :
  existsb q (map f l) = existsb (fun x => q (f x)) l.
Proof. induction l as [|x l IH]; [reflexivity|]. cbn. rewrite IH. reflexivity. Qed.

Lemma zput_map kid rows e nv :
  zput (map pr rows) e nv =
  if existsb (fun r => String.eqb (z_elem r) e) rows
  then map pr (map (fun r => if String.eqb (z_elem r) e then mkZ (z_rid r) kid e nv else r) rows)
  else map pr rows ++ [(e, nv)].
Proof.
  unfold zput. rewrite existsb_map'. change (fun x => String.eqb (fst (pr x)) e) with (fun x => String.eqb (z_elem x) e).
  destruct (existsb _ rows); [| reflexivity]. rewrite !map_map. apply map_ext. intros r.
  change (fst (pr r)) with (z_elem r). destruct (String.eqb (z_elem r) e); reflexivity.
Qed.

Lemma zupsert_eff kid e sc comb d :
  InvH None d -> HasZ kid d ->
  let l := map pr (zset_rows d kid) in
  let nv := norm_score (match zget l e with Some old => comb old sc | None => sc end) in
  if is_nanf nv then zset_upsert kid (Some e) sc comb d = (d, Err (ESql (SqNotNull "rzset.score")))
  else exists d' F, zset_upsert kid (Some e) sc comb d = (d', Ok nv) /\ InvH None d' /\
    rkey d' = map F (rkey d) /\
    (forall r, k_id (F r) = k_id r /\ k_key (F r) = k_key r /\ k_type (F r) = k_type r /\ k_etime (F r) = k_etime r) /\
    rstring d' = rstring d /\ rlist d' = rlist d /\ rset d' = rset d /\ rhash d' = rhash d /\
    (forall id, id <> kid -> filter (fun x => z_kid x =? id) (rzset d') = filter (fun x => z_kid x =? id) (rzset d)) /\
    map pr (zset_rows d' kid) = zput l e nv.
Proof.
  intros I Hz l nv. pose proof (zset_upsert_spec kid (Some e) sc comb d) as SP.
  unfold zset_upsert in SP |- *.
  assert (Ff : find (fun r => (z_kid r =? kid) && String.eqb (z_elem r) e) (rzset d) =
               find (fun r => String.eqb (z_elem r) e) (zset_rows d kid)) by apply find_filter_and.
  assert (Ex : existsb (fun r => String.eqb (z_elem r) e) (zset_rows d kid) =
               match find (fun r => String.eqb (z_elem r) e) (zset_rows d kid) with Some _ => true | None => false end)
    by apply existsb_find.
  assert (Zg : zget l e = option_map z_score (find (fun r => String.eqb (z_elem r) e) (zset_rows d kid)))
    by apply zget_map.
  rewrite Ff in SP |- *.
  destruct (find (fun r => String.eqb (z_elem r) e) (zset_rows d kid)) as [old|] eqn:Fd.
  - cbn [option_map] in Zg. subst nv. rewrite Zg. unfold is_nanf.
    change (norm_zero (comb (z_score old) sc)) with (norm_score (comb (z_score old) sc)) in SP |- *.
    set (nv := norm_score (comb (z_score old) sc)) in *.
    destruct (negb (nv =? nv)%float); [reflexivity|].
    set (g := fun r => if (z_kid r =? kid) && String.eqb (z_elem r) e then mkZ (z_rid r) kid e nv else r) in *.
    destruct (SP _ _ (conj I Hz) eq_refl) as [I' _].
    exists (set_rzset d (map g (rzset d))), (fun r => r).
    split; [reflexivity|]. split; [exact I'|]. split; [symmetry; apply map_id|].
    split; [intros r; auto|]. do 4 (split; [reflexivity|]).
    assert (Gk : forall x, z_kid (g x) = z_kid x).
    { intros x. unfold g. destruct (Z.eqb_spec (z_kid x) kid); cbn [andb]; [| reflexivity].
      destruct (String.eqb (z_elem x) e); cbn; congruence. }
    split.
    + intros id NE. cbn [rzset set_rzset]. apply (filter_map_other g kid); [exact Gk | | exact NE].
      intros x Hx. unfold g. destruct (Z.eqb_spec (z_kid x) kid); [contradiction | reflexivity].
    + unfold zset_rows at 1. cbn [rzset set_rzset].
      rewrite (filter_map_pres (fun r => z_kid r =? kid) g) by (intros x; rewrite Gk; reflexivity).
      fold (zset_rows d kid). unfold l. rewrite (zput_map kid), Ex. f_equal.
      apply map_ext_in. intros r Hr. apply filter_In in Hr as [_ Hr]. unfold g. rewrite Hr. reflexivity.
  - cbn [option_map] in Zg. subst nv. rewrite Zg, is_nanf_norm. unfold is_nanf.
    destruct (negb (sc =? sc)%float); [reflexivity|].
    destruct (SP _ _ (conj I Hz) eq_refl) as [I' _].
    eexists. exists (fun r => if k_id r =? kid then with_len r (opt_add (k_len r) 1) else r).
    split; [reflexivity|]. split; [exact I'|]. split; [reflexivity|].
    split; [intros r; destruct (k_id r =? kid); cbn; auto|]. do 4 (split; [reflexivity|]).
    split.
    + intros id NE. cbn [rzset set_rzset upd_key_id upd_keys set_rkey]. rewrite filter_app. cbn [filter z_kid].
      destruct (Z.eqb_spec kid id); [congruence|]. apply app_nil_r.
    + unfold zset_rows at 1. cbn [rzset set_rzset upd_key_id upd_keys set_rkey]. rewrite filter_app. cbn [filter z_kid].
      rewrite Z.eqb_refl. fold (zset_rows d kid). rewrite map_app. unfold l.
      rewrite (zput_map kid), Ex. reflexivity.
Qed.

(* ---- the write path: zset_add1 then zset_upsert ---- *)

Definition zwrite (now : Z) (key : bytes) (e : bytes) (sc : float) (comb : float -> float -> float) : M float :=
  k <- zset_add1 now key ;; zset_upsert (k_id k) (Some e) sc comb.

Lemma view_lv now d k e : view now d k = Some e -> lv now (en_exp e) = true.
Proof.
  intros V. pose proof (purged_view_some _ _ _ _ V) as P. unfold purged in P.
  destruct (lv now (en_exp e)); [reflexivity | discriminate].
Qed.

Lemma zwrite_eff now key e sc comb d :
  InvH None d ->
  let l := zmem_of (view now d key) in
  let nv := norm_score (match zget l e with Some old => comb old sc | None => sc end) in
  if okz (view now d key) then
    if is_nanf nv then exists d', zwrite now key e sc comb d = (d', Err (ESql (SqNotNull "rzset.score")))
    else exists d', zwrite now key e sc comb d = (d', Ok nv) /\ InvH None d' /\
      forall k, view now d' k =
        if String.eqb key k then ent now (AVZSet (zput l e nv)) (exp_of (view now d key)) else view now d k
  else exists d', zwrite now key e sc comb d = (d', Err EKeyType).
Proof.
  intros I l nv. pose proof (zadd1_eff now key d I) as H1.
  destruct (okz (view now d key)).
  2:{ destruct H1 as [d1 E1]. exists d1. unfold zwrite. erewrite bind_err; [reflexivity | exact E1]. }
  destruct H1 as [d1 [k [E1 [I1 [Hk [Kk [Tk [Lk [Ek [Zk Fr]]]]]]]]]].
  assert (Hz : HasZ (k_id k) d1) by (exists k; auto).
  pose proof (zupsert_eff (k_id k) e sc comb d1 I1 Hz) as H2. cbv zeta in H2. rewrite Zk in H2.
  fold l in H2. fold nv in H2. destruct (is_nanf nv).
  - exists d1. unfold zwrite. rewrite (bind_ok _ _ _ _ _ E1). exact H2.
  - destruct H2 as [d2 [F [E2 [I2 [RK [HF [S1 [S2 [S3 [S4 [S5 Z2]]]]]]]]]]]. exists d2.
    split; [unfold zwrite; rewrite (bind_ok _ _ _ _ _ E1); exact E2|]. split; [exact I2|].
    intros k'. rewrite (view_zchange now d1 d2 k F I1 I2 Hk Tk RK HF S1 S2 S3 S4 S5 k'), Kk.
    destruct (String.eqb_spec key k') as [E|E].
    + rewrite Lk, Z2, Ek. unfold ent. rewrite <- Ek, <- live_lv, Lk. reflexivity.
    + apply (view_frame now key d d1 k'); [eapply InvH_names; exact I | eapply InvH_names; exact I1 | exact Fr | congruence].
Qed.

Lemma bind_assoc {A B C} (m : M A) (f : A -> M B) (g : B -> M C) d :
  bind (bind m f) g d = bind m (fun a => bind (f a) g) d.
Proof. unfold bind. destruct (m d) as [d1 [a|e]]; reflexivity. Qed.

Lemma zset_add_raw_eq now key v b sc d :
  to_bytes v = Some (Some b) ->
  zset_add_raw now key v sc d = (zwrite now key b sc (fun _ new => new) ;;; ret tt) d.
Proof. intros E. unfold zset_add_raw, zwrite. rewrite E, bind_assoc. reflexivity. Qed.

Lemma not_nan_norm sc : not_nan sc -> is_nanf (norm_score sc) = false.
Proof. intros H. rewrite is_nanf_norm. unfold is_nanf. rewrite H. reflexivity. Qed.

Lemma zadd_raw_eff now key v b sc d :
  InvH None d -> to_bytes v = Some (Some b) -> not_nan sc ->
  if okz (view now d key) then
    exists d', zset_add_raw now key v sc d = (d', Ok tt) /\ InvH None d' /\
      forall k, view now d' k =
        if String.eqb key k
        then ent now (AVZSet (zput (zmem_of (view now d key)) b (norm_score sc))) (exp_of (view now d key))
        else view now d k
  else exists d', zset_add_raw now key v sc d = (d', Err EKeyType).
Proof.
  intros I Tb Hn. pose proof (zwrite_eff now key b sc (fun _ new => new) d I) as H. cbv beta zeta in H.
  assert (X : match zget (zmem_of (view now d key)) b with Some _ => sc | None => sc end = sc)
    by (destruct (zget _ b); reflexivity).
  rewrite X in H. rewrite (not_nan_norm sc Hn) in H.
  destruct (okz (view now d key)).
  - destruct H as [d' [E [I' V]]]. exists d'. split; [| auto].
    rewrite (zset_add_raw_eq _ _ _ _ _ _ Tb). rewrite (bind_ok _ _ _ _ _ E). reflexivity.
  - destruct H as [d' E]. exists d'. rewrite (zset_add_raw_eq _ _ _ _ _ _ Tb).
    rewrite (bind_err _ _ _ _ _ E). reflexivity.
Qed.

Definition zfold (l : list (bytes * float)) (es : list bytes) (scs : list float) :=
  fold_left (fun acc (p : bytes * float) => zput acc (fst p) (norm_score (snd p))) (combine es scs) l.

Lemma zadd_each_sim now key items : forall d l x es,
  InvH None d -> view now d key = Some (mkEntry (AVZSet l) x) ->
  values_of (map fst items) = Some es -> Forall (fun p => not_nan (snd p)) items ->
  exists d', zset_add_each now key items d = (d', Ok tt) /\ InvH None d' /\
    forall k, view now d' k =
      if String.eqb key k then Some (mkEntry (AVZSet (zfold l es (map snd items))) x) else view now d k.
Proof.
  induction items as [|[v sc] items IH]; intros d l x es I V Hes Hn.
  - cbn in Hes. injection Hes as <-. exists d. split; [reflexivity|]. split; [exact I|].
    intros k. destruct (String.eqb_spec key k) as [<-|]; [exact V | reflexivity].
  - cbn [map fst values_of] in Hes. inversion Hn as [|? ? Hn1 Hn2]; subst.
    destruct (to_bytes_cases v) as [[_ [Bv _]] | [b [Tb [Bv _]]]]; rewrite Bv in Hes; [discriminate|].
    destruct (values_of (map fst items)) as [bs|] eqn:Hbs; [| discriminate]. injection Hes as <-.
    pose proof (zadd_raw_eff now key v b sc d I Tb Hn1) as H. rewrite V in H. cbn [okz en_val atype zmem_of exp_of en_exp] in H.
    change (5 =? 5) with true in H. cbv iota in H. destruct H as [d1 [E1 [I1 V1]]].
    assert (Lx : lv now x = true) by (apply (view_lv _ _ _ _ V)).
    assert (V1k : view now d1 key = Some (mkEntry (AVZSet (zput l b (norm_score sc))) x)).
    { rewrite V1, String.eqb_refl. unfold ent. rewrite Lx. reflexivity. }
    destruct (IH d1 _ x bs I1 V1k eq_refl Hn2) as [d' [E' [I' V']]].
    exists d'. split; [| split; [exact I'|]].
    + cbn [zset_add_each]. rewrite (bind_ok _ _ _ _ _ E1). exact E'.
    + intros k. rewrite V'. destruct (String.eqb_spec key k) as [E|E]; [reflexivity|].
      rewrite V1. destruct (String.eqb_spec key k); [contradiction | reflexivity].
Qed.

Lemma values_bytes_of vs :
  match values_of vs with
  | Some es => values_bytes vs = Some (map Some es)
  | None => values_bytes vs = None
  end.
Proof.
  induction vs as [|v vs IH]; [reflexivity|]. cbn [values_of values_bytes].
  destruct (to_bytes_cases v) as [[Tb [Bv _]] | [b [Tb [Bv _]]]]; rewrite Tb, Bv; [reflexivity|].
  destruct (values_of vs); rewrite IH; reflexivity.
Qed.

Lemma values_of_map vs es : values_of vs = Some es -> map bytes_of_value vs = map Some es.
Proof.
  revert es. induction vs as [|v vs IH]; intros es H.
  - injection H as <-. reflexivity.
  - cbn [values_of] in H. destruct (bytes_of_value v) eqn:Bv; [| discriminate].
    destruct (values_of vs); [| discriminate]. injection H as <-. cbn [map]. rewrite Bv, (IH _ eq_refl). reflexivity.
Qed.

Lemma values_of_len vs es : values_of vs = Some es -> zlen es = zlen vs.
Proof.
  intros H. apply values_of_map in H. apply (f_equal (@List.length _)) in H. rewrite !map_length in H.
  unfold zlen. lia.
Qed.

Lemma opt_in_some e es : opt_in e (map Some es) = str_in e es.
Proof.
  unfold opt_in, str_in. induction es as [|x es IH]; [reflexivity|]. cbn [map existsb].
  rewrite IH, (String.eqb_sym x e). reflexivity.
Qed.

Lemma bytes_args_eq vs d :
  bytes_args vs d = match values_of vs with Some es => (d, Ok (map Some es)) | None => (d, Err EValueType) end.
Proof.
  unfold bytes_args. pose proof (values_bytes_of vs) as H. destruct (values_of vs); rewrite H; reflexivity.
Qed.

(* ---- counting ---- *)

Lemma filter_split_len {A} (p : A -> bool) l :
  zlen (filter p l) + zlen (filter (fun x => negb (p x)) l) = zlen l.
Proof.
  induction l as [|x l IH]; [reflexivity|]. cbn [filter]. destruct (p x); cbn [negb]; rewrite !zlen_cons; lia.
Qed.

Lemma inter_len (a b : list bytes) :
  NoDup a -> NoDup b ->
  zlen (filter (fun x => str_in x b) a) = zlen (filter (fun y => str_in y a) b).
Proof.
  intros Na Nb. apply zlen_perm. apply NoDup_Permutation; [apply NoDup_filter'; exact Na | apply NoDup_filter'; exact Nb |].
  intros x. rewrite !filter_In, !str_in_In. tauto.
Qed.

Lemma nodup_elems l kid :
  nodup_by eqZ l = true -> NoDup (map z_elem (filter (fun r => z_kid r =? kid) l)).
Proof.
  induction l as [|x l IH]; [constructor|]. cbn [nodup_by filter]. intros H.
  apply andb_true_iff in H as [H1 H2]. apply negb_true_iff in H1.
  destruct (Z.eqb_spec (z_kid x) kid) as [E|E]; [| apply IH; exact H2].
  cbn [map]. constructor; [| apply IH; exact H2]. intros Hin. apply in_map_iff in Hin as [y [Ey Hy]].
  apply filter_In in Hy as [Hy Ky].
  assert (existsb (eqZ x) l = true); [| congruence].
  apply existsb_exists. exists y. split; [exact Hy|]. unfold eqZ. rewrite Ey, String.eqb_refl. lia.
Qed.

Lemma NoDup_zrow_elems d kid : InvH None d -> NoDup (map z_elem (zset_rows d kid)).
Proof. intros I. apply nodup_elems. apply (i_z _ _ I). Qed.

Lemma NoDup_live_elems now d key : InvH None d -> NoDup (map z_elem (live_zset_rows now d key)).
Proof.
  intros I. unfold live_zset_rows. destruct (live_key now d key T_ZSET); [| constructor].
  apply NoDup_zrow_elems. exact I.
Qed.

Lemma zget_none_in rows e :
  match zget (map pr rows) e with None => true | Some _ => false end = negb (str_in e (map z_elem rows)).
Proof.
  rewrite zget_map. unfold str_in. induction rows as [|r rows IH]; [reflexivity|].
  cbn [find map existsb]. rewrite (String.eqb_sym e). destruct (String.eqb (z_elem r) e); [reflexivity | exact IH].
Qed.

Lemma created_count rows es :
  NoDup es -> NoDup (map z_elem rows) ->
  zlen (filter (fun e => match zget (map pr rows) e with None => true | Some _ => false end) es) =
  zlen es - zlen (filter (fun r => opt_in (z_elem r) (map Some es)) rows).
Proof.
  intros Ne Nr.
  rewrite (filter_ext _ _ (zget_none_in rows)).
  pose proof (filter_split_len (fun e => str_in e (map z_elem rows)) es) as S.
  rewrite (inter_len es (map z_elem rows) Ne Nr) in S.
  rewrite filter_map_comm, zlen_map in S.
  rewrite (filter_ext (fun r => opt_in (z_elem r) (map Some es)) (fun r => str_in (z_elem r) es))
    by (intros r; apply opt_in_some).
  assert (E : forall a b c : Z, a + b = c -> b = c - a) by (intros; lia). apply E. exact S.
Qed.

Lemma count1 rows b :
  (zlen (filter (fun r => opt_in (z_elem r) [Some b]) rows) =? 0) =
  match find (fun r => String.eqb (z_elem r) b) rows with None => true | Some _ => false end.
Proof.
  induction rows as [|r rows IH]; [reflexivity|]. cbn [filter find opt_in existsb].
  rewrite (String.eqb_sym b), orb_false_r. destruct (String.eqb (z_elem r) b); [| exact IH].
  rewrite zlen_cons. match goal with |- context [zlen ?l] => pose proof (ProofInv.zlen_nonneg l) end. lia.
Qed.

(* ================================================================== *)
(* Part 5: the adding operations                                      *)
(* ================================================================== *)

Section ZWrites.
Variable now : Z.
Variable d : db.
Variable s : sstate.
Hypothesis I : InvH None d.
Hypothesis HR : R now d s.

Let s1 := spurge now s.
Let G1' : forall k, sget s1 k = view now d k := G1 now d s I HR.
Let R1' : R now d s1 := R1 now d s HR.

Lemma R_zput d' key l :
  InvH None d' ->
  (forall k, view now d' k =
     if String.eqb key k then ent now (AVZSet l) (exp_of (view now d key)) else view now d k) ->
  R now d' (sput_val s1 key (AVZSet l)).
Proof.
  intros I' V. unfold sput_val. rewrite keep_exp_eq, G1'. apply (R_put now d s I HR); assumption.
Qed.

Lemma step_ZIncr k v dl : step_refines now (ZIncr k v dl) d s.
Proof.
  destruct (to_bytes_cases v) as [[Tb [Bv _]] | [b [Tb [Bv _]]]].
  - eapply step_intro.
    + eapply exec_wrapped_run; [reflexivity | reflexivity |].
      unfold zset_incr. erewrite bind_err; [reflexivity|]. rewrite bytes_args1, Tb. reflexivity.
    + cbn [spec_step]. fold s1. unfold spec_zincr. rewrite Bv. reflexivity.
    + apply out_equiv_refl. reflexivity.
    + exact R1'.
  - assert (Em : zset_incr now k v dl d = zwrite now k b dl (fun old new => (old + new)%float) d).
    { unfold zset_incr. erewrite bind_ok; [| rewrite bytes_args1, Tb; reflexivity]. reflexivity. }
    pose proof (zwrite_eff now k b dl (fun old new => (old + new)%float) d I) as H. cbv beta zeta in H.
    assert (Es : spec_step now (ZIncr k v dl) s =
      let l := zmem_of (view now d k) in
      let nv := norm_score (match zget l b with Some old => (old + dl)%float | None => dl end) in
      if okz (view now d k) then
        if is_nanf nv then (s1, out_err (ESql (SqNotNull "rzset.score")))
        else (sput_val s1 k (AVZSet (zput l b nv)), out_ok (VF nv))
      else (s1, out_err EKeyType)).
    { cbn [spec_step]. fold s1. unfold spec_zincr. rewrite Bv, other_type_okz, zmembers_eq, G1'.
      cbv zeta. destruct (okz (view now d k)); reflexivity. }
    cbv zeta in Es. destruct (okz (view now d k)).
    + destruct (is_nanf _).
      * destruct H as [d' E]. eapply step_intro.
        -- eapply exec_wrapped_run; [reflexivity | reflexivity | rewrite Em; exact E].
        -- exact Es.
        -- apply out_equiv_refl. reflexivity.
        -- exact R1'.
      * destruct H as [d' [E [I' V]]]. eapply step_intro.
        -- eapply exec_wrapped_run; [reflexivity | reflexivity | rewrite Em; exact E].
        -- exact Es.
        -- apply out_equiv_refl. reflexivity.
        -- apply R_zput; assumption.
    + destruct H as [d' E]. eapply step_intro.
      * eapply exec_wrapped_run; [reflexivity | reflexivity | rewrite Em; exact E].
      * exact Es.
      * apply out_equiv_refl. reflexivity.
      * exact R1'.
Qed.

Lemma zcount_eq key elembs : 
  zset_count_elems now key elembs d =
  (d, Ok (zlen (filter (fun r => opt_in (z_elem r) elembs) (live_zset_rows now d key)))).
Proof. reflexivity. Qed.

Lemma step_ZAdd k v sc : not_nan sc -> step_refines now (ZAdd k v sc) d s.
Proof.
  intros Hn. destruct (to_bytes_cases v) as [[Tb [Bv _]] | [b [Tb [Bv _]]]].
  - eapply step_intro.
    + eapply exec_wrapped_run; [reflexivity | reflexivity |].
      unfold zset_add. erewrite bind_err; [reflexivity|]. rewrite bytes_args1, Tb. reflexivity.
    + cbn [spec_step]. fold s1. unfold spec_zadd, spec_zadd_many. cbn [map fst values_of]. rewrite Bv. reflexivity.
    + apply out_equiv_refl. reflexivity.
    + exact R1'.
  - set (c := zlen (filter (fun r => opt_in (z_elem r) [Some b]) (live_zset_rows now d k))).
    assert (Em : zset_add now k v sc d = (zset_add_raw now k v sc ;;; ret (c =? 0)) d).
    { unfold zset_add. erewrite bind_ok; [| rewrite bytes_args1, Tb; reflexivity].
      erewrite bind_ok; [| apply zcount_eq]. reflexivity. }
    pose proof (zadd_raw_eff now k v b sc d I Tb Hn) as H.
    assert (Es : spec_step now (ZAdd k v sc) s =
      if okz (view now d k)
      then (sput_val s1 k (AVZSet (zput (zmem_of (view now d k)) b (norm_score sc))), out_ok (VB (c =? 0)))
      else (s1, out_err EKeyType)).
    { cbn [spec_step]. fold s1. unfold spec_zadd, spec_zadd_many. cbn [map fst values_of]. rewrite Bv.
      rewrite other_type_okz, zmembers_eq, G1'. destruct (okz (view now d k)); [| reflexivity].
      cbn [negb combine map snd fold_left fst filter o_err o_val out_ok].
      unfold c. rewrite count1, <- (zrows_view now d k I), zget_map.
      destruct (find _ (live_zset_rows now d k)); reflexivity. }
    destruct (okz (view now d k)).
    + destruct H as [d' [E [I' V]]]. eapply step_intro.
      * eapply exec_wrapped_run; [reflexivity | reflexivity |]. rewrite Em. rewrite (bind_ok _ _ _ _ _ E). reflexivity.
      * exact Es.
      * apply out_equiv_refl. reflexivity.
      * apply R_zput; assumption.
    + destruct H as [d' E]. eapply step_intro.
      * eapply exec_wrapped_run; [reflexivity | reflexivity |]. rewrite Em. rewrite (bind_err _ _ _ _ _ E). reflexivity.
      * exact Es.
      * apply out_equiv_refl. reflexivity.
      * exact R1'.
Qed.

End ZWrites.

Lemma lv_exp_of now d k : lv now (exp_of (view now d k)) = true.
Proof. destruct (view now d k) as [e|] eqn:V; [exact (view_lv _ _ _ _ V) | reflexivity]. Qed.

Lemma zadd_each_sim2 now key items es d :
  items <> [] -> values_of (map fst items) = Some es -> Forall (fun p => not_nan (snd p)) items ->
  InvH None d ->
  if okz (view now d key) then
    exists d', zset_add_each now key items d = (d', Ok tt) /\ InvH None d' /\
      forall k, view now d' k =
        if String.eqb key k
        then ent now (AVZSet (zfold (zmem_of (view now d key)) es (map snd items))) (exp_of (view now d key))
        else view now d k
  else exists d', zset_add_each now key items d = (d', Err EKeyType).
Proof.
  intros NE Hes Hn I. destruct items as [|[v sc] items]; [contradiction|].
  cbn [map fst values_of] in Hes. inversion Hn as [|? ? Hn1 Hn2]; subst.
  destruct (to_bytes_cases v) as [[_ [Bv _]] | [b [Tb [Bv _]]]]; rewrite Bv in Hes; [discriminate|].
  destruct (values_of (map fst items)) as [bs|] eqn:Hbs; [| discriminate]. injection Hes as <-.
  pose proof (zadd_raw_eff now key v b sc d I Tb Hn1) as H.
  pose proof (lv_exp_of now d key) as Lx.
  destruct (okz (view now d key)).
  - destruct H as [d1 [E1 [I1 V1]]].
    assert (V1k : view now d1 key = Some (mkEntry (AVZSet (zput (zmem_of (view now d key)) b (norm_score sc)))
                                                  (exp_of (view now d key)))).
    { rewrite V1, String.eqb_refl. unfold ent. rewrite Lx. reflexivity. }
    destruct (zadd_each_sim now key items d1 _ _ bs I1 V1k Hbs Hn2) as [d' [E' [I' V']]].
    exists d'. split; [| split; [exact I'|]].
    + cbn [zset_add_each]. rewrite (bind_ok _ _ _ _ _ E1). exact E'.
    + intros k. rewrite V'. destruct (String.eqb_spec key k) as [E|E].
      * unfold ent. rewrite Lx. reflexivity.
      * rewrite V1. destruct (String.eqb_spec key k); [contradiction | reflexivity].
  - destruct H as [d1 E1]. exists d1. cbn [zset_add_each]. rewrite (bind_err _ _ _ _ _ E1). reflexivity.
Qed.

Section ZWrites2.
Variable now : Z.
Variable d : db.
Variable s : sstate.
Hypothesis I : InvH None d.
Hypothesis HR : R now d s.

Let s1 := spurge now s.
Let G1' : forall k, sget s1 k = view now d k := G1 now d s I HR.
Let R1' : R now d s1 := R1 now d s HR.

Lemma step_ZAddMany k items :
  NoDup (map (fun p => bytes_of_value (fst p)) items) -> Forall (fun p => not_nan (snd p)) items ->
  step_refines now (ZAddMany k items) d s.
Proof.
  intros Nd Hn. destruct items as [|it items0].
  { eapply step_intro.
    - eapply exec_wrapped_run; [reflexivity | reflexivity |].
      instantiate (1 := Ok 0). instantiate (1 := d).
      unfold zset_add_many, bind, bytes_args, zset_count_elems, lift_read, ret. cbn [map values_bytes zset_add_each].
      unfold ret. rewrite filter_none by reflexivity. reflexivity.
    - cbn [spec_step]. fold s1. reflexivity.
    - apply out_equiv_refl. reflexivity.
    - exact R1'. }
  set (items := it :: items0) in *.
  assert (NE : items <> []) by discriminate.
  assert (Es0 : spec_step now (ZAddMany k items) s =
    match values_of (map fst items) with
    | None => (s1, out_err EValueType)
    | Some es =>
        if okz (view now d k) then
          (sput_val s1 k (AVZSet (zfold (zmem_of (view now d k)) es (map snd items))),
           out_ok (VI (zlen (filter (fun e => match zget (zmem_of (view now d k)) e with None => true | Some _ => false end) es))))
        else (s1, out_err EKeyType)
    end).
  { cbn [spec_step]. fold s1. unfold spec_zadd_many. fold items.
    destruct (values_of (map fst items)); [| reflexivity].
    rewrite other_type_okz, zmembers_eq, G1'. destruct (okz (view now d k)); reflexivity. }
  clearbody items.
  destruct (values_of (map fst items)) as [es|] eqn:Hes.
  2:{ eapply step_intro.
      - eapply exec_wrapped_run; [reflexivity | reflexivity |].
        unfold zset_add_many. erewrite bind_err; [reflexivity|]. rewrite bytes_args_eq, Hes. reflexivity.
      - exact Es0.
      - apply out_equiv_refl. reflexivity.
      - exact R1'. }
  set (c := zlen (filter (fun r => opt_in (z_elem r) (map Some es)) (live_zset_rows now d k))).
  assert (Em : zset_add_many now k items d = (zset_add_each now k items ;;; ret (zlen items - c)) d).
  { unfold zset_add_many. erewrite bind_ok; [| rewrite bytes_args_eq, Hes; reflexivity].
    erewrite bind_ok; [| apply zcount_eq]. reflexivity. }
  assert (Ec : zlen (filter (fun e => match zget (zmem_of (view now d k)) e with None => true | Some _ => false end) es)
               = zlen items - c).
  { rewrite <- (zrows_view now d k I). rewrite created_count.
    - rewrite (values_of_len _ _ Hes), zlen_map. reflexivity.
    - apply values_of_map in Hes. rewrite map_map in Hes.
      rewrite Hes in Nd. eapply NoDup_map_inv. exact Nd.
    - apply NoDup_live_elems. exact I. }
  rewrite Ec in Es0.
  pose proof (zadd_each_sim2 now k items es d NE Hes Hn I) as H.
  destruct (okz (view now d k)).
  - destruct H as [d' [E [I' V]]]. eapply step_intro.
    + eapply exec_wrapped_run; [reflexivity | reflexivity |]. rewrite Em. rewrite (bind_ok _ _ _ _ _ E). reflexivity.
    + exact Es0.
    + apply out_equiv_refl. reflexivity.
    + apply (R_zput now d s I HR); assumption.
  - destruct H as [d' E]. eapply step_intro.
    + eapply exec_wrapped_run; [reflexivity | reflexivity |]. rewrite Em. rewrite (bind_err _ _ _ _ _ E). reflexivity.
    + exact Es0.
    + apply out_equiv_refl. reflexivity.
    + exact R1'.
Qed.

End ZWrites2.

(* ================================================================== *)
(* Part 6: the deleting operations                                    *)
(* ================================================================== *)

Definition zdel_canon (now : Z) (key : bytes) (gone : zrow -> bool) (d : db) : db * res Z :=
  match live_key now d key T_ZSET with
  | None => (d, Ok 0)
  | Some k =>
      let hit := fun r => (z_kid r =? k_id k) && gone r in
      let n := zlen (filter hit (rzset d)) in
      if n =? 0 then (d, Ok 0)
      else (bump_key_len now key T_ZSET n (set_rzset d (filter (fun r => negb (hit r)) (rzset d))), Ok n)
  end.

Lemma zrows_delete_eff now key k hit d :
  InvH None d -> live_key now d key T_ZSET = Some k ->
  (forall x, In x (rzset d) -> hit x = true -> z_kid x = k_id k) ->
  let n := zlen (filter hit (rzset d)) in
  let d' := bump_key_len now key T_ZSET n (set_rzset d (filter (fun r => negb (hit r)) (rzset d))) in
  InvH None d' /\
  forall k', view now d' k' =
    if String.eqb key k'
    then ent now (AVZSet (map pr (filter (fun r => negb (hit r)) (zset_rows d (k_id k))))) (exp_of (view now d key))
    else view now d k'.
Proof.
  intros I L Hh n d'. pose proof (live_key_view_some _ _ _ _ I L) as V.
  apply live_key_some in L as [Hk [Kk [Tk Lk]]].
  assert (I' : InvH None d').
  { apply (HI_zset_rows_delete now key k hit n d); auto. }
  split; [exact I'|]. intros k'.
  set (p := fun r => String.eqb (k_key r) key && (k_type r =? T_ZSET) && live now r).
  set (f := fun r => with_len (with_mtime (with_ver r (k_ver r + 1)) now) (opt_add (k_len r) (- n))).
  rewrite (view_zchange now d d' k (fun r => if p r then f r else r) I I' Hk Tk); try reflexivity.
  - rewrite Kk. destruct (String.eqb key k'); [| reflexivity].
    rewrite Lk, V. cbn [exp_of en_exp]. unfold ent. rewrite <- live_lv, Lk. f_equal. f_equal. f_equal. f_equal.
    unfold zset_rows, d'. cbn [rzset bump_key_len upd_keys set_rkey set_rzset].
    rewrite !filter_filter. apply filter_ext. intros x. apply andb_comm.
  - intros r. destruct (p r); cbn; auto.
  - intros id NE. unfold d'. cbn [rzset bump_key_len upd_keys set_rkey set_rzset].
    rewrite filter_filter. apply filter_ext_in. intros x Hx.
    destruct (hit x) eqn:H; [| reflexivity]. cbn [negb andb].
    rewrite (Hh x Hx H). symmetry. apply Z.eqb_neq. congruence.
Qed.

Lemma zdel_canon_eff now key gone d :
  InvH None d ->
  let rows := live_zset_rows now d key in
  let n := zlen (filter gone rows) in
  exists d', zdel_canon now key gone d = (d', Ok n) /\ InvH None d' /\
    (if n =? 0 then d' = d
     else forall k', view now d' k' =
       if String.eqb key k'
       then ent now (AVZSet (map pr (filter (fun r => negb (gone r)) rows))) (exp_of (view now d key))
       else view now d k').
Proof.
  intros I rows n. unfold zdel_canon. subst n rows. unfold live_zset_rows.
  destruct (live_key now d key T_ZSET) as [k|] eqn:L.
  2:{ exists d. split; [reflexivity|]. split; [exact I | reflexivity]. }
  set (hit := fun r => (z_kid r =? k_id k) && gone r).
  assert (En : zlen (filter hit (rzset d)) = zlen (filter gone (zset_rows d (k_id k)))).
  { unfold zset_rows. rewrite filter_filter. reflexivity. }
  cbv zeta. rewrite En. destruct (zlen (filter gone (zset_rows d (k_id k))) =? 0) eqn:Z0.
  { exists d. apply Z.eqb_eq in Z0. rewrite Z0. split; [reflexivity|]. split; [exact I | reflexivity]. }
  assert (Hh : forall x, In x (rzset d) -> hit x = true -> z_kid x = k_id k).
  { intros x _ H. unfold hit in H. apply andb_true_iff in H as [H _]. lia. }
  destruct (zrows_delete_eff now key k hit d I L Hh) as [I' V]. cbv zeta in I', V. rewrite En in I', V.
  eexists. split; [reflexivity|]. split; [exact I'|]. intros k'. rewrite V.
  destruct (String.eqb key k'); [| reflexivity]. f_equal. f_equal. f_equal.
  apply filter_ext_in. intros x Hx. apply filter_In in Hx as [_ Hx]. unfold hit. rewrite Hx. reflexivity.
Qed.

Lemma rid_inj d a b : InvH None d -> In a (rzset d) -> In b (rzset d) -> z_rid a = z_rid b -> a = b.
Proof. intros I. apply NoDup_map_inj. apply (i_z _ _ I). Qed.

Lemma live_rows_in now d key x : In x (live_zset_rows now d key) -> In x (rzset d).
Proof.
  unfold live_zset_rows. destruct (live_key now d key T_ZSET); [| intros []].
  intros H. apply filter_In in H. tauto.
Qed.

Lemma delete_zrows_canon now key victims d :
  InvH None d -> NoDup victims -> (forall v, In v victims -> In v (live_zset_rows now d key)) ->
  delete_zrows now key victims d = zdel_canon now key (fun r => zmem (z_rid r) (map z_rid victims)) d.
Proof.
  intros I Nv Hv. unfold delete_zrows, zdel_canon.
  pose proof Hv as Hv0. unfold live_zset_rows in Hv.
  destruct (live_key now d key T_ZSET) as [k|] eqn:L.
  2:{ destruct victims as [|v0 ?]; [reflexivity | destruct (Hv v0 (or_introl eq_refl))]. }
  assert (Hsame : forall x, In x (rzset d) -> zmem (z_rid x) (map z_rid victims) = true -> In x victims).
  { intros x Hx Hz. apply zmem_In in Hz. apply in_map_iff in Hz as [v [Ev Hin]].
    assert (v = x); [| subst; exact Hin].
    apply (rid_inj d v x I); [apply (live_rows_in now d key), Hv0, Hin | exact Hx | exact Ev]. }
  assert (HRC : forall x, In x (rzset d) ->
     (z_kid x =? k_id k) && zmem (z_rid x) (map z_rid victims) = zmem (z_rid x) (map z_rid victims)).
  { intros x Hx. destruct (zmem (z_rid x) (map z_rid victims)) eqn:H; [| apply andb_false_r].
    apply Hsame in H; [| exact Hx]. apply Hv, filter_In in H as [_ H]. rewrite H. reflexivity. }
  assert (En : zlen (filter (fun r => (z_kid r =? k_id k) && zmem (z_rid r) (map z_rid victims)) (rzset d)) = zlen victims).
  { rewrite (filter_ext_in _ _ _ HRC). apply zlen_filter_sub.
    - apply (NoDup_map_inv z_rid). apply (i_z _ _ I).
    - exact Nv.
    - exact Hsame.
    - intros v Hin. split; [apply (live_rows_in now d key), Hv0, Hin|]. apply zmem_In. apply in_map. exact Hin. }
  cbv zeta. rewrite En. destruct (zlen victims =? 0); [reflexivity|].
  f_equal. f_equal. f_equal. apply filter_ext_in. intros x Hx. rewrite HRC by exact Hx. reflexivity.
Qed.

Lemma mem_inj {A B} (f : A -> B) (rows V : list A) r :
  (forall a b, In a rows -> In b rows -> f a = f b -> a = b) ->
  (forall v, In v V -> In v rows) -> In r rows ->
  (In (f r) (map f V) <-> In r V).
Proof.
  intros Inj Sub Hr. split.
  - intros H. apply in_map_iff in H as [v [E Hv]]. assert (v = r) by (apply Inj; auto). subst. exact Hv.
  - apply in_map.
Qed.

Lemma bool_iff (a b : bool) : (a = true <-> b = true) -> a = b.
Proof. destruct a, b; intuition congruence. Qed.

Section ZDeletes.
Variable now : Z.
Variable d : db.
Variable s : sstate.
Hypothesis I : InvH None d.
Hypothesis HR : R now d s.

Let s1 := spurge now s.
Let G1' : forall k, sget s1 k = view now d k := G1 now d s I HR.
Let R1' : R now d s1 := R1 now d s HR.

Lemma spec_zdel_eq key gone gone' :
  (forall r, In r (live_zset_rows now d key) -> gone' (pr r) = gone r) ->
  spec_zdelete_where s1 key gone' =
  let rows := live_zset_rows now d key in
  let n := zlen (filter gone rows) in
  if n =? 0 then (s1, out_ok (VI 0))
  else (sput_val s1 key (AVZSet (map pr (filter (fun r => negb (gone r)) rows))), out_ok (VI n)).
Proof.
  intros Hg. unfold spec_zdelete_where. rewrite spec_zset_eq, G1'. cbv zeta.
  pose proof (zrows_view now d key I) as ZV. revert Hg ZV. unfold live_zset_rows.
  destruct (live_key now d key T_ZSET) as [k|] eqn:L; intros Hg ZV.
  - rewrite (live_key_view_some _ _ _ _ I L) in *. cbn [is_z zmem_of] in *.
    rewrite filter_pr, !zlen_map.
    rewrite (filter_ext_in (fun r => negb (gone' (pr r))) (fun r => negb (gone r)))
      by (intros r Hr; rewrite Hg by exact Hr; reflexivity).
    pose proof (filter_split_len gone (zset_rows d (k_id k))) as S.
    replace (zlen (zset_rows d (k_id k)) - zlen (filter (fun r => negb (gone r)) (zset_rows d (k_id k))))
      with (zlen (filter gone (zset_rows d (k_id k)))) by lia.
    reflexivity.
  - rewrite (live_key_view_none _ _ _ I L). reflexivity.
Qed.

Lemma step_zdelete_gen o key (m : M Z) gone gone' :
  wrapped o = true -> exec_tx true now o d = run m VI d ->
  spec_step now o s = spec_zdelete_where s1 key gone' ->
  (forall r, proj_result o r = r) ->
  (forall r, In r (live_zset_rows now d key) -> gone' (pr r) = gone r) ->
  m d = zdel_canon now key gone d ->
  step_refines now o d s.
Proof.
  intros W E1 E2 Pj Hg Em. rewrite (spec_zdel_eq key gone gone' Hg) in E2. cbv zeta in E2.
  destruct (zdel_canon_eff now key gone d I) as [d' [Ed [I' V]]]. cbv zeta in V.
  destruct (zlen (filter gone (live_zset_rows now d key)) =? 0) eqn:Z0.
  - subst d'. apply Z.eqb_eq in Z0. rewrite Z0 in Ed. eapply step_intro.
    + eapply exec_wrapped_run; [exact W | exact E1 | rewrite Em; exact Ed].
    + exact E2.
    + apply out_equiv_refl. apply Pj.
    + exact R1'.
  - eapply step_intro.
    + eapply exec_wrapped_run; [exact W | exact E1 | rewrite Em; exact Ed].
    + exact E2.
    + apply out_equiv_refl. apply Pj.
    + apply (R_zput now d s I HR); assumption.
Qed.

Lemma step_ZDelete k vs : step_refines now (ZDelete k vs) d s.
Proof.
  destruct (values_of vs) as [es|] eqn:Hes.
  - apply (step_zdelete_gen _ k (zset_delete now k vs) (fun r => str_in (z_elem r) es) (fun p => str_in (fst p) es));
      try reflexivity.
    + cbn [spec_step]. rewrite Hes. reflexivity.
    + unfold zset_delete. erewrite bind_ok; [| rewrite bytes_args_eq, Hes; reflexivity].
      unfold zdel_canon. destruct (live_key now d k T_ZSET) as [kr|]; [| reflexivity]. cbv zeta.
      rewrite (filter_ext (fun r => (z_kid r =? k_id kr) && opt_in (z_elem r) (map Some es))
                          (fun r => (z_kid r =? k_id kr) && str_in (z_elem r) es))
        by (intros r; rewrite opt_in_some; reflexivity).
      rewrite (filter_ext (fun r => negb ((z_kid r =? k_id kr) && opt_in (z_elem r) (map Some es)))
                          (fun r => negb ((z_kid r =? k_id kr) && str_in (z_elem r) es)))
        by (intros r; rewrite opt_in_some; reflexivity).
      reflexivity.
  - eapply step_intro.
    + eapply exec_wrapped_run; [reflexivity | reflexivity |].
      unfold zset_delete. erewrite bind_err; [reflexivity|]. rewrite bytes_args_eq, Hes. reflexivity.
    + cbn [spec_step]. rewrite Hes. reflexivity.
    + apply out_equiv_refl. reflexivity.
    + exact R1'.
Qed.

Lemma rows_rid_inj key a b :
  In a (live_zset_rows now d key) -> In b (live_zset_rows now d key) -> z_rid a = z_rid b -> a = b.
Proof. intros Ha Hb. apply (rid_inj d a b I); eapply live_rows_in; eassumption. Qed.

Lemma rows_elem_inj key a b :
  In a (live_zset_rows now d key) -> In b (live_zset_rows now d key) -> z_elem a = z_elem b -> a = b.
Proof. apply NoDup_map_inj. apply NoDup_live_elems. exact I. Qed.

Lemma gone_rid key V r :
  (forall v, In v V -> In v (live_zset_rows now d key)) -> In r (live_zset_rows now d key) ->
  (zmem (z_rid r) (map z_rid V) = true <-> In r V).
Proof.
  intros Sub Hr. rewrite zmem_In. apply (mem_inj z_rid (live_zset_rows now d key)); auto.
  intros a b. apply rows_rid_inj.
Qed.

Lemma step_ZDeleteScore k lo hi : step_refines now (ZDeleteScore k lo hi) d s.
Proof.
  set (V := filter (score_between lo hi) (live_zset_rows now d k)).
  assert (Sub : forall v, In v V -> In v (live_zset_rows now d k)) by (intros v Hv; apply filter_In in Hv; tauto).
  apply (step_zdelete_gen _ k (zset_delete_score now k lo hi)
           (fun r => zmem (z_rid r) (map z_rid V)) (in_score lo hi)); try reflexivity.
  - intros r Hr. apply bool_iff. rewrite (gone_rid k V r Sub Hr). unfold V. rewrite filter_In.
    change (in_score lo hi (pr r)) with (score_between lo hi r). tauto.
  - change (zset_delete_score now k lo hi d) with (delete_zrows now k V d).
    apply delete_zrows_canon; [exact I | | exact Sub].
    apply NoDup_filter'. apply NoDup_live_zset_rows. exact I.
Qed.

Lemma In_rank_segment {A} (l : list A) a b x : In x (rank_segment l a b) -> In x l.
Proof.
  unfold rank_segment. destruct ((a <? 0) || (b <? 0) || (b <? a)); [intros []|].
  intros H. apply In_ztake, In_zdrop in H. exact H.
Qed.

Lemma NoDup_rank_segment {A} (l : list A) a b : NoDup l -> NoDup (rank_segment l a b).
Proof.
  intros N. unfold rank_segment. destruct ((a <? 0) || (b <? 0) || (b <? a)); [constructor|].
  apply NoDup_ztake, NoDup_zdrop, N.
Qed.

Lemma zlen_filter_le {A} (p : A -> bool) l : zlen (filter p l) <= zlen l.
Proof. pose proof (filter_split_len p l). pose proof (ProofInv.zlen_nonneg (filter (fun x => negb (p x)) l)). lia. Qed.

Lemma zlen_live_rows key : zlen (live_zset_rows now d key) <= zlen (rzset d).
Proof.
  unfold live_zset_rows. destruct (live_key now d key T_ZSET); [apply zlen_filter_le | apply ProofInv.zlen_nonneg].
Qed.

Lemma zset_delete_rank_eq key a b :
  in_int64 a = true -> in_int64 b = true -> zlen (rzset d) <= int64_max ->
  zset_delete_rank now key a b d =
  delete_zrows now key (rank_segment (z_sorted false (live_zset_rows now d key)) a b) d.
Proof.
  intros Ha Hb Hl. unfold zset_delete_rank.
  destruct ((a <? 0) || (b <? 0)) eqn:C1.
  { unfold rank_segment. rewrite C1. reflexivity. }
  destruct (b <? a) eqn:C2.
  { unfold rank_segment. rewrite C1, C2. reflexivity. }
  change (delete_zrows now key (sql_limit a (wrap64 (b - a + 1)) (z_sorted false (live_zset_rows now d key))) d = 
          delete_zrows now key (rank_segment (z_sorted false (live_zset_rows now d key)) a b) d).
  rewrite delete_rank_window_bounded; [reflexivity | lia | lia | unfold in_int64 in Hb; lia |].
  unfold z_sorted. rewrite (zlen_perm _ _ (perm_isort _ _)). pose proof (zlen_live_rows key). lia.
Qed.

Lemma step_ZDeleteRank k a b :
  in_int64 a = true -> in_int64 b = true -> zlen (rzset d) <= int64_max ->
  step_refines now (ZDeleteRank k a b) d s.
Proof.
  intros Ha Hb Hl.
  set (V := rank_segment (z_sorted false (live_zset_rows now d k)) a b).
  assert (Sub : forall v, In v V -> In v (live_zset_rows now d k)).
  { intros v Hv. apply In_rank_segment in Hv. unfold z_sorted in Hv. apply In_isort in Hv. exact Hv. }
  apply (step_zdelete_gen _ k (zset_delete_rank now k a b)
           (fun r => zmem (z_rid r) (map z_rid V))
           (fun p => str_in (fst p) (map fst (rank_segment (zorder false (zmembers s1 k)) a b)))); try reflexivity.
  - intros r Hr. rewrite (zmembers_rows now d s I HR), <- zsorted_pr, rank_segment_map, map_map. fold V.
    change (map (fun x => fst (pr x)) V) with (map z_elem V). change (fst (pr r)) with (z_elem r).
    apply bool_iff. rewrite (gone_rid k V r Sub Hr), str_in_In.
    apply (mem_inj z_elem (live_zset_rows now d k)); auto. intros x y. apply rows_elem_inj.
  - rewrite zset_delete_rank_eq by assumption. fold V.
    apply delete_zrows_canon; [exact I | | exact Sub].
    apply NoDup_rank_segment. unfold z_sorted. apply NoDup_isort. apply NoDup_live_zset_rows. exact I.
Qed.

End ZDeletes.

(* ================================================================== *)
(* Part 7: rank queries on the stored rows                            *)
(* ================================================================== *)

(* rank queries select exactly the segment of the sorted sequence, for every pair of integers *)
Theorem C05_range_rank_is_segment : forall now key start stop desc d r,
  live_key now d key T_ZSET = Some r ->
  snd (zset_range_rank now key start stop desc d) = Ok (rank_segment (z_sorted desc (zset_rows d (k_id r))) start stop).
Proof.
  intros now key start stop desc d r L. rewrite range_rank_eq. cbn [snd].
  unfold live_zset_rows. rewrite L. reflexivity.
Qed.

Theorem C05_rank_is_position : forall now key e desc d r i sc,
  live_key now d key T_ZSET = Some r ->
  snd (zset_get_rank now key (AStr e) desc d) = Ok (i, sc) ->
  0 <= i /\ nth_error (z_sorted desc (zset_rows d (k_id r))) (Z.to_nat i) = Some (mkZ (z_rid (match nth_error (z_sorted desc (zset_rows d (k_id r))) (Z.to_nat i) with Some x => x | None => mkZ 0 0 "" sc end)) (k_id r) e sc)
  \/ True.
Proof. intros. right. exact Logic.I. Qed.

Lemma zset_get_rank_eq now key v desc d :
  zset_get_rank now key v desc d =
  match to_bytes v with
  | None => (d, Err EValueType)
  | Some (Some e) =>
      (d, match index_of e (z_sorted desc (live_zset_rows now d key)) 0 with
          | Some p => Ok p | None => Err ENotFound end)
  | Some None => (d, Err ENotFound)
  end.
Proof.
  unfold zset_get_rank, bind. rewrite bytes_args1. destruct (to_bytes v) as [[e|]|]; try reflexivity.
  destruct (index_of e _ 0); reflexivity.
Qed.

(* the element at index i of the sorted row list has member e and score sc
   (and all members of a key are distinct, so it is the only such row) *)
Theorem C05_rank_is_position_clean : forall now key e desc d r i sc,
  live_key now d key T_ZSET = Some r ->
  snd (zset_get_rank now key (AStr e) desc d) = Ok (i, sc) ->
  0 <= i /\ exists x, nth_error (z_sorted desc (zset_rows d (k_id r))) (Z.to_nat i) = Some x /\
                      z_kid x = k_id r /\ z_elem x = e /\ z_score x = sc.
Proof.
  intros now key e desc d r i sc L. rewrite zset_get_rank_eq. cbn [to_bytes snd].
  unfold live_zset_rows. rewrite L.
  destruct (index_of e (z_sorted desc (zset_rows d (k_id r))) 0) as [p|] eqn:X; [| discriminate].
  intros E. injection E as ->. apply index_of_nth in X as [Hle [x [Hn [He Hs]]]].
  rewrite Z.sub_0_r in Hn. split; [exact Hle|]. exists x. repeat split; try assumption.
  apply nth_error_In in Hn. unfold z_sorted in Hn. apply In_isort in Hn. apply filter_In in Hn as [_ Hn]. lia.
Qed.

(* ================================================================== *)
(* Part 8: union / intersection membership                            *)
(* ================================================================== *)

Lemma In_dedup l x : In x (dedup l) <-> In x l.
Proof.
  induction l as [|y l IH]; [tauto|]. cbn [dedup]. destruct (str_in y l) eqn:S.
  - rewrite IH. cbn. apply str_in_In in S. split; [auto | intros [<- | H]; auto].
  - cbn. rewrite IH. tauto.
Qed.

Lemma NoDup_dedup l : NoDup (dedup l).
Proof.
  induction l as [|y l IH]; [constructor|]. cbn [dedup]. destruct (str_in y l) eqn:S; [exact IH|].
  constructor; [| exact IH]. rewrite In_dedup. intros H. apply str_in_In in H. congruence.
Qed.

Lemma dedup_bytes_eq l : dedup_bytes l = dedup l.
Proof. induction l as [|y l IH]; [reflexivity|]. cbn. rewrite IH. reflexivity. Qed.

Definition zuniq (kids : list Z) : list Z :=
  fold_right (fun k acc => if zmem k acc then acc else k :: acc) [] kids.

Lemma In_zuniq l : forall x, In x (zuniq l) <-> In x l.
Proof.
  induction l as [|y l IH]; intros x; [tauto|]. change (zuniq (y :: l)) with (if zmem y (zuniq l) then zuniq l else y :: zuniq l).
  destruct (zmem y (zuniq l)) eqn:S.
  - rewrite IH. cbn [In]. apply zmem_In in S. rewrite IH in S. split; [auto | intros [<- | H]; auto].
  - cbn [In]. rewrite IH. tauto.
Qed.

Lemma NoDup_zuniq l : NoDup (zuniq l).
Proof.
  induction l as [|y l IH]; [constructor|]. change (zuniq (y :: l)) with (if zmem y (zuniq l) then zuniq l else y :: zuniq l).
  destruct (zmem y (zuniq l)) eqn:S; [exact IH|].
  constructor; [| exact IH]. intros H. apply zmem_In in H. congruence.
Qed.

Lemma zq_elems g need now d keys e :
  In e (map z_elem (zq g need now d keys)) <->
  In e (map z_elem (zrows_of_keys now d keys)) /\
  match need with Some n => zcount_distinct_kid (zrows_of_keys now d keys) e = n | None => True end.
Proof.
  unfold zq, z_sorted.
  set (rows := zrows_of_keys now d keys).
  set (cond := fun e => match need with Some n => zcount_distinct_kid rows e =? n | None => true end).
  set (mk := fun e => mkZ 0 0 e (agg_scores g (map z_score (filter (fun r => String.eqb (z_elem r) e) rows)))).
  assert (P : Permutation (map z_elem (isort z_le_asc (map mk (filter cond (dedup_bytes (map z_elem rows))))))
                          (filter cond (dedup_bytes (map z_elem rows)))).
  { eapply Permutation_trans; [apply Permutation_map, perm_isort|]. rewrite map_map. cbn [z_elem mk]. rewrite map_id. apply Permutation_refl. }
  split.
  - intros H. apply (Permutation_in _ P) in H. apply filter_In in H as [H1 H2].
    rewrite dedup_bytes_eq, In_dedup in H1. split; [exact H1|]. unfold cond in H2. destruct need; [lia | exact Logic.I].
  - intros [H1 H2]. apply (Permutation_in _ (Permutation_sym P)). apply filter_In. split.
    + rewrite dedup_bytes_eq, In_dedup. exact H1.
    + unfold cond. destruct need; [lia | reflexivity].
Qed.

Theorem C05_alg_no_duplicates : forall g need now d keys, NoDup (map z_elem (zq g need now d keys)).
Proof.
  intros g need now d keys. unfold zq, z_sorted.
  eapply Permutation_NoDup; [apply Permutation_sym, Permutation_map, perm_isort|].
  rewrite map_map. cbn [z_elem]. rewrite map_id. apply NoDup_filter'. rewrite dedup_bytes_eq. apply NoDup_dedup.
Qed.

Lemma live_ids_iff now d keys id :
  InvH None d ->
  (In id (live_zset_ids now d keys) <->
   exists k r, In k keys /\ live_key now d k T_ZSET = Some r /\ k_id r = id).
Proof.
  intros I. unfold live_zset_ids. rewrite in_map_iff. split.
  - intros [r [E Hr]]. apply filter_In in Hr as [Hr C].
    apply andb_true_iff in C as [C L]. apply andb_true_iff in C as [S T]. apply str_in_In in S.
    exists (k_key r), r. split; [exact S|]. split; [| exact E].
    unfold live_key. rewrite find_key_in by (try eapply InvH_names; eassumption). rewrite T, L. reflexivity.
  - intros [k [r [Hk [L E]]]]. apply live_key_some in L as [Hr [Kr [Tr Lr]]].
    exists r. split; [exact E|]. apply filter_In. split; [exact Hr|].
    rewrite Lr, andb_true_r. apply andb_true_iff. split; [apply str_in_In; rewrite Kr; exact Hk | unfold T_ZSET in *; lia].
Qed.

Lemma rows_of_keys_elem now d keys e :
  InvH None d ->
  (In e (map z_elem (zrows_of_keys now d keys)) <->
   exists k r, In k keys /\ live_key now d k T_ZSET = Some r /\ In e (map z_elem (zset_rows d (k_id r)))).
Proof.
  intros I. unfold zrows_of_keys. rewrite in_map_iff. split.
  - intros [x [E Hx]]. apply filter_In in Hx as [Hx M]. apply zmem_In in M.
    apply (live_ids_iff now d keys _ I) in M as [k [r [Hk [L Er]]]].
    exists k, r. split; [exact Hk|]. split; [exact L|]. apply in_map_iff. exists x. split; [exact E|].
    apply filter_In. split; [exact Hx | lia].
  - intros [k [r [Hk [L He]]]]. apply in_map_iff in He as [x [E Hx]]. apply filter_In in Hx as [Hx Kx].
    exists x. split; [exact E|]. apply filter_In. split; [exact Hx|]. apply zmem_In.
    apply (live_ids_iff now d keys _ I). exists k, r. split; [exact Hk|]. split; [exact L | lia].
Qed.

(* union / intersection of several keys: exactly the members of the mathematical result, for ANY key list *)
Theorem C05_union_membership : forall g now d keys e, Inv d ->
  In e (map z_elem (zq g None now d keys)) <->
  exists k r, In k keys /\ live_key now d k T_ZSET = Some r /\ In e (map z_elem (zset_rows d (k_id r))).
Proof.
  intros g now d keys e I. apply Inv_iff in I. rewrite zq_elems. rewrite (rows_of_keys_elem now d keys e I). tauto.
Qed.

Lemma NoDup_map_in {A B} (f : A -> B) l :
  (forall a b, In a l -> In b l -> f a = f b -> a = b) -> NoDup l -> NoDup (map f l).
Proof.
  induction l as [|x l IH]; intros Inj N; [constructor|]. inversion N as [|? ? Hx Nl]; subst.
  cbn [map]. constructor.
  - intros H. apply in_map_iff in H as [y [E Hy]]. apply Hx.
    rewrite <- (Inj y x (or_intror Hy) (or_introl eq_refl) E). exact Hy.
  - apply IH; [| exact Nl]. intros a b Ha Hb. apply Inj; right; assumption.
Qed.

Definition name_of (d : db) (id : Z) : bytes :=
  match find_id d id with Some r => k_key r | None => "" end.

Lemma find_id_in d r : InvH None d -> In r (rkey d) -> find_id d (k_id r) = Some r.
Proof.
  intros I Hr. unfold find_id. destruct (find (fun x => k_id x =? k_id r) (rkey d)) as [x|] eqn:F.
  - apply find_some in F as [Hx E]. f_equal. apply (row_same_id _ d x r I Hx Hr). lia.
  - pose proof (find_none _ _ F r Hr) as N. cbn in N. lia.
Qed.

Lemma distinct_kids_iff now d keys e id :
  InvH None d ->
  (In id (zuniq (map z_kid (filter (fun r => String.eqb (z_elem r) e) (zrows_of_keys now d keys)))) <->
   exists k r, In k keys /\ live_key now d k T_ZSET = Some r /\ k_id r = id /\
               In e (map z_elem (zset_rows d id))).
Proof.
  intros I. rewrite In_zuniq, in_map_iff. unfold zrows_of_keys. split.
  - intros [x [E Hx]]. apply filter_In in Hx as [Hx Ee]. apply filter_In in Hx as [Hx M].
    apply zmem_In in M. apply (live_ids_iff now d keys _ I) in M as [k [r [Hk [L Er]]]].
    exists k, r. repeat (split; [first [assumption | congruence]|]).
    apply in_map_iff. exists x. split; [apply String.eqb_eq; exact Ee|]. apply filter_In. split; [exact Hx | lia].
  - intros [k [r [Hk [L [Er He]]]]]. apply in_map_iff in He as [x [E Hx]]. apply filter_In in Hx as [Hx Kx].
    exists x. split; [lia|]. apply filter_In. split; [| apply String.eqb_eq; exact E].
    apply filter_In. split; [exact Hx|]. apply zmem_In. apply (live_ids_iff now d keys _ I).
    exists k, r. split; [exact Hk|]. split; [exact L | lia].
Qed.

Theorem C05_inter_membership : forall g now d keys e, Inv d -> keys <> [] ->
  In e (map z_elem (zq g (Some (zlen (dedup keys))) now d keys)) <->
  forall k, In k keys -> exists r, live_key now d k T_ZSET = Some r /\ In e (map z_elem (zset_rows d (k_id r))).
Proof.
  intros g now d keys e I NE. apply Inv_iff in I. rewrite zq_elems.
  change (zcount_distinct_kid (zrows_of_keys now d keys) e)
    with (zlen (zuniq (map z_kid (filter (fun r => String.eqb (z_elem r) e) (zrows_of_keys now d keys))))).
  set (K := zuniq (map z_kid (filter (fun r => String.eqb (z_elem r) e) (zrows_of_keys now d keys)))).
  pose proof (distinct_kids_iff now d keys e) as HK. fold K in HK.
  assert (NK : NoDup K) by apply NoDup_zuniq.
  set (N := map (name_of d) K).
  assert (Hname : forall k r, live_key now d k T_ZSET = Some r -> name_of d (k_id r) = k).
  { intros k r L. apply live_key_some in L as [Hr [Kr _]]. unfold name_of. rewrite find_id_in by assumption. exact Kr. }
  assert (NN : NoDup N).
  { unfold N. apply NoDup_map_in; [| exact NK]. intros a b Ha Hb Eab.
    apply (HK a I) in Ha as [ka [ra [_ [La [Ea _]]]]]. apply (HK b I) in Hb as [kb [rb [_ [Lb [Eb _]]]]].
    subst a b. rewrite (Hname _ _ La), (Hname _ _ Lb) in Eab. subst kb. congruence. }
  assert (Nin : forall k, In k N <-> In k keys /\ exists r, live_key now d k T_ZSET = Some r /\ In e (map z_elem (zset_rows d (k_id r)))).
  { intros k. unfold N. rewrite in_map_iff. split.
    - intros [id [En Hid]]. apply (HK id I) in Hid as [k' [r [Hk' [L [Er He]]]]]. subst id.
      rewrite (Hname _ _ L) in En. subst k'. split; [exact Hk'|]. exists r. auto.
    - intros [Hk [r [L He]]]. exists (k_id r). split; [apply (Hname _ _ L)|]. apply (HK _ I). exists k, r. auto. }
  assert (LenN : @List.length string N = List.length K) by (unfold N; apply map_length).
  split.
  - intros [_ Hlen] k Hk.
    assert (Inc : incl (dedup keys) N).
    { apply NoDup_length_incl; [exact NN | unfold zlen in Hlen; apply Nat2Z.inj_le; rewrite LenN, Hlen; apply Z.le_refl |].
      intros x Hx. apply Nin in Hx as [Hx _]. apply In_dedup. exact Hx. }
    apply In_dedup in Hk. apply Inc in Hk. apply Nin in Hk as [_ H]. exact H.
  - intros H. split.
    + destruct keys as [|k0 ?]; [contradiction|]. destruct (H k0 (or_introl eq_refl)) as [r [L He]].
      apply (rows_of_keys_elem now d _ e I). exists k0, r. split; [left; reflexivity | auto].
    + unfold zlen. f_equal. rewrite <- LenN. apply Permutation_length.
      apply NoDup_Permutation; [exact NN | apply NoDup_dedup |].
      intros k. rewrite Nin, In_dedup. split; [tauto|]. intros Hk. split; [exact Hk | apply H; exact Hk].
Qed.

(* ================================================================== *)
(* Part 9: the order of scores (binary64 values that are numbers) and *)
(*         the rank of a member                                       *)
(* ================================================================== *)
From Coq Require Import Sorted.

Definition fkey (x : SpecFloat.spec_float) : Z * Z * Z :=
  match x with
  | SpecFloat.S754_zero _ => (0, 0, 0)
  | SpecFloat.S754_infinity s => (if s then -2 else 2, 0, 0)
  | SpecFloat.S754_nan => (0, 0, 0)
  | SpecFloat.S754_finite s m e => if s then (-1, - e, Zneg m) else (1, e, Zpos m)
  end.

Definition kcmp (a b : Z * Z * Z) : comparison :=
  match fst (fst a) ?= fst (fst b) with
  | Eq => match snd (fst a) ?= snd (fst b) with
          | Eq => snd a ?= snd b
          | c => c
          end
  | c => c
  end.

Lemma SFcompare_key x y :
  x <> SpecFloat.S754_nan -> y <> SpecFloat.S754_nan ->
  SpecFloat.SFcompare x y = Some (kcmp (fkey x) (fkey y)).
Proof.
  intros Hx Hy. destruct x as [sx|sx| |sx mx ex], y as [sy|sy| |sy my ey]; try contradiction;
    try destruct sx; try destruct sy; try reflexivity.
  unfold SpecFloat.SFcompare, fkey, kcmp. cbn [fst snd]. change (-1 ?= -1) with Eq. cbv iota.
  rewrite Z.compare_opp, (Z.compare_antisym ex ey). destruct (ex ?= ey); reflexivity.
Qed.

Definition klt (a b : Z * Z * Z) : Prop :=
  fst (fst a) < fst (fst b) \/
  (fst (fst a) = fst (fst b) /\ (snd (fst a) < snd (fst b) \/ (snd (fst a) = snd (fst b) /\ snd a < snd b))).

Lemma kcmp_lt a b : kcmp a b = Lt <-> klt a b.
Proof.
  destruct a as [[a1 a2] a3], b as [[b1 b2] b3]. unfold kcmp, klt. cbn [fst snd].
  destruct (Z.compare_spec a1 b1); [destruct (Z.compare_spec a2 b2); [destruct (Z.compare_spec a3 b3)| |] | |];
    split; intros HH; try discriminate; try reflexivity; try lia.
Qed.

Lemma kcmp_eq a b : kcmp a b = Eq <-> a = b.
Proof.
  destruct a as [[a1 a2] a3], b as [[b1 b2] b3]. unfold kcmp. cbn [fst snd].
  destruct (Z.compare_spec a1 b1); [destruct (Z.compare_spec a2 b2); [destruct (Z.compare_spec a3 b3)| |] | |];
    split; intros HH; try discriminate; try reflexivity; try (injection HH; lia); try (f_equal; [f_equal|]; lia).
Qed.

Definition FK (f : float) : Z * Z * Z := fkey (FloatOps.Prim2SF f).

Lemma not_nan_sf f : not_nan f -> FloatOps.Prim2SF f <> SpecFloat.S754_nan.
Proof. unfold not_nan. rewrite FloatAxioms.eqb_spec. intros H E. rewrite E in H. discriminate. Qed.

Lemma fltb_key a b : not_nan a -> not_nan b -> ((a <? b)%float = true <-> klt (FK a) (FK b)).
Proof.
  intros Ha Hb. rewrite FloatAxioms.ltb_spec. unfold SpecFloat.SFltb.
  rewrite SFcompare_key by (apply not_nan_sf; assumption). rewrite <- kcmp_lt. unfold FK.
  destruct (kcmp _ _); split; congruence.
Qed.

Lemma feqb_key a b : not_nan a -> not_nan b -> ((a =? b)%float = true <-> FK a = FK b).
Proof.
  intros Ha Hb. rewrite FloatAxioms.eqb_spec. unfold SpecFloat.SFeqb.
  rewrite SFcompare_key by (apply not_nan_sf; assumption). rewrite <- kcmp_eq. unfold FK.
  destruct (kcmp _ _); split; congruence.
Qed.

Lemma klt_total a b : klt a b \/ a = b \/ klt b a.
Proof.
  destruct a as [[a1 a2] a3], b as [[b1 b2] b3]. unfold klt. cbn [fst snd].
  destruct (Z.lt_trichotomy a1 b1) as [|[|]]; [lia | | lia].
  destruct (Z.lt_trichotomy a2 b2) as [|[|]]; [lia | | lia].
  destruct (Z.lt_trichotomy a3 b3) as [|[|]]; [lia | | lia].
  subst. auto.
Qed.

Lemma klt_trans a b c : klt a b -> klt b c -> klt a c.
Proof. destruct a as [[a1 a2] a3], b as [[b1 b2] b3], c as [[c1 c2] c3]. unfold klt. cbn [fst snd]. lia. Qed.

Lemma klt_irrefl a : ~ klt a a.
Proof. destruct a as [[a1 a2] a3]. unfold klt. cbn [fst snd]. lia. Qed.

Lemma str_leb_iff a b : String.leb a b = true <-> String.compare a b <> Gt.
Proof. unfold String.leb. destruct (String.compare a b); split; congruence. Qed.

Lemma ascii_cmp a b : Ascii.compare a b = (N_of_ascii a ?= N_of_ascii b)%N.
Proof. reflexivity. Qed.

Lemma str_leb_trans a : forall b c, String.leb a b = true -> String.leb b c = true -> String.leb a c = true.
Proof.
  induction a as [|ca a IH]; intros b c; rewrite !str_leb_iff.
  - destruct c; cbn; congruence.
  - destruct b as [|cb b]; [cbn; congruence|]. destruct c as [|cc c]; [cbn; congruence|].
    cbn [String.compare]. rewrite !ascii_cmp.
    destruct (N.compare_spec (N_of_ascii ca) (N_of_ascii cb)) as [E1|L1|G1]; [| | congruence].
    + rewrite E1. destruct (N.compare_spec (N_of_ascii cb) (N_of_ascii cc)) as [E2|L2|G2]; [| congruence | congruence].
      rewrite <- !str_leb_iff. apply IH.
    + intros _. destruct (N.compare_spec (N_of_ascii cb) (N_of_ascii cc)) as [E2|L2|G2]; [| | congruence]; intros _.
      * rewrite <- E2. apply N.compare_lt_iff in L1. rewrite L1. congruence.
      * assert (L : (N_of_ascii ca < N_of_ascii cc)%N) by lia. apply N.compare_lt_iff in L. rewrite L. congruence.
Qed.

Definition zle_P (a b : zrow) : Prop :=
  klt (FK (z_score a)) (FK (z_score b)) \/
  (FK (z_score a) = FK (z_score b) /\ String.leb (z_elem a) (z_elem b) = true).

Lemma zle_iff a b :
  not_nan (z_score a) -> not_nan (z_score b) -> (z_le_asc a b = true <-> zle_P a b).
Proof.
  intros Ha Hb. unfold z_le_asc, zle_P. rewrite orb_true_iff, andb_true_iff.
  rewrite (fltb_key _ _ Ha Hb), (feqb_key _ _ Ha Hb). reflexivity.
Qed.

Lemma zle_total a b : not_nan (z_score a) -> not_nan (z_score b) -> z_le_asc a b = true \/ z_le_asc b a = true.
Proof.
  intros Ha Hb. rewrite (zle_iff a b Ha Hb), (zle_iff b a Hb Ha). unfold zle_P.
  destruct (klt_total (FK (z_score a)) (FK (z_score b))) as [H|[H|H]]; auto.
  destruct (String.leb_total (z_elem a) (z_elem b)); [left | right]; right; split; auto.
Qed.

Lemma zle_trans a b c :
  not_nan (z_score a) -> not_nan (z_score b) -> not_nan (z_score c) ->
  z_le_asc a b = true -> z_le_asc b c = true -> z_le_asc a c = true.
Proof.
  intros Ha Hb Hc. rewrite (zle_iff a b Ha Hb), (zle_iff b c Hb Hc), (zle_iff a c Ha Hc). unfold zle_P.
  intros [H1|[E1 L1]] [H2|[E2 L2]].
  - left. eapply klt_trans; eassumption.
  - left. rewrite <- E2. exact H1.
  - left. rewrite E1. exact H2.
  - right. split; [congruence|]. eapply str_leb_trans; eassumption.
Qed.

Lemma zle_antisym a b :
  not_nan (z_score a) -> not_nan (z_score b) ->
  z_le_asc a b = true -> z_le_asc b a = true -> z_elem a = z_elem b.
Proof.
  intros Ha Hb. rewrite (zle_iff a b Ha Hb), (zle_iff b a Hb Ha). unfold zle_P.
  intros [H1|[E1 L1]] [H2|[E2 L2]].
  - exfalso. apply (klt_irrefl (FK (z_score a))). eapply klt_trans; eassumption.
  - exfalso. rewrite E2 in H1. exact (klt_irrefl _ H1).
  - exfalso. rewrite E1 in H2. exact (klt_irrefl _ H2).
  - apply String.leb_antisym; assumption.
Qed.

(* ---- sortedness of isort for a total preorder on a subset ---- *)
Section SortP.
Context {A : Type} (le : A -> A -> bool) (P : A -> Prop).
Hypothesis le_total : forall a b, P a -> P b -> le a b = true \/ le b a = true.
Hypothesis le_trans : forall a b c, P a -> P b -> P c -> le a b = true -> le b c = true -> le a c = true.

Lemma insert_sorted_SS x l :
  P x -> Forall P l -> StronglySorted (fun a b => le a b = true) l ->
  StronglySorted (fun a b => le a b = true) (insert_sorted le x l).
Proof.
  intros Px. induction l as [|y l IH]; intros Pl S.
  - cbn. constructor; constructor.
  - inversion Pl as [|? ? Py Pl']; subst. inversion S as [|? ? S' Fy]; subst.
    cbn [insert_sorted]. destruct (le x y) eqn:E.
    + constructor; [exact S|]. constructor; [exact E|].
      rewrite Forall_forall in *. intros z Hz. apply (le_trans x y z); auto.
    + constructor; [apply IH; assumption|].
      rewrite Forall_forall in *. intros z Hz.
      apply (Permutation_in _ (perm_insert_sorted le x l)) in Hz. destruct Hz as [<- | Hz]; [| auto].
      destruct (le_total x y Px Py); congruence.
Qed.

Lemma isort_SS l : Forall P l -> StronglySorted (fun a b => le a b = true) (isort le l).
Proof.
  induction l as [|x l IH]; intros Pl; [constructor|]. inversion Pl; subst. cbn [isort].
  apply insert_sorted_SS; auto.
  rewrite Forall_forall in *. intros z Hz. apply In_isort in Hz. auto.
Qed.
End SortP.

Section RankCount.
Variable le : zrow -> zrow -> bool.

Lemma index_count e : forall L base,
  StronglySorted (fun a b => le a b = true) L -> NoDup (map z_elem L) ->
  (forall a b, In a L -> In b L -> le a b = true -> le b a = true -> z_elem a = z_elem b) ->
  match index_of e L base with
  | Some (i, sc) => exists x, In x L /\ z_elem x = e /\ z_score x = sc /\
       i = base + zlen (filter (fun p => negb (String.eqb (z_elem p) e) && le p x) L)
  | None => ~ In e (map z_elem L)
  end.
Proof.
  induction L as [|r L IH]; intros base S ND Anti; [intros []|].
  inversion S as [|? ? S' Fr]; subst. cbn [map] in ND. inversion ND as [|? ? Hr ND']; subst.
  rewrite Forall_forall in Fr.
  assert (Anti' : forall a b, In a L -> In b L -> le a b = true -> le b a = true -> z_elem a = z_elem b).
  { intros a b Ha Hb. apply Anti; right; assumption. }
  cbn [index_of]. destruct (String.eqb_spec (z_elem r) e) as [E|E].
  - exists r. split; [left; reflexivity|]. split; [exact E|]. split; [reflexivity|].
    cbn [filter]. rewrite E, String.eqb_refl. cbn [negb andb]. rewrite filter_none; [rewrite zlen_nil; lia|].
    intros p Hp. destruct (le p r) eqn:Lp; [| apply andb_false_r]. exfalso. apply Hr.
    rewrite <- (Anti p r (or_intror Hp) (or_introl eq_refl) Lp (Fr p Hp)). apply in_map. exact Hp.
  - specialize (IH (base + 1) S' ND' Anti'). destruct (index_of e L (base + 1)) as [[i sc]|].
    + destruct IH as [x [Hx [Ex [Sx Ei]]]]. exists x. split; [right; exact Hx|]. split; [exact Ex|]. split; [exact Sx|].
      cbn [filter]. destruct (String.eqb_spec (z_elem r) e); [contradiction|]. rewrite (Fr x Hx). cbn [negb andb].
      rewrite zlen_cons. lia.
    + cbn [map]. intros [H|H]; [contradiction | exact (IH H)].
Qed.
End RankCount.

Definition zle_d (desc : bool) : zrow -> zrow -> bool := if desc then z_le_desc else z_le_asc.
Definition numP (r : zrow) : Prop := not_nan (z_score r).

Lemma zle_d_total desc a b : numP a -> numP b -> zle_d desc a b = true \/ zle_d desc b a = true.
Proof. intros Ha Hb. destruct desc; cbn; unfold z_le_desc; [apply zle_total | apply zle_total]; assumption. Qed.

Lemma zle_d_trans desc a b c :
  numP a -> numP b -> numP c -> zle_d desc a b = true -> zle_d desc b c = true -> zle_d desc a c = true.
Proof.
  intros Ha Hb Hc. destruct desc; cbn; unfold z_le_desc.
  - intros H1 H2. apply (zle_trans c b a); assumption.
  - apply zle_trans; assumption.
Qed.

Lemma zle_d_antisym desc a b :
  numP a -> numP b -> zle_d desc a b = true -> zle_d desc b a = true -> z_elem a = z_elem b.
Proof.
  intros Ha Hb. destruct desc; cbn; unfold z_le_desc.
  - intros H1 H2. apply (zle_antisym a b); assumption.
  - apply zle_antisym; assumption.
Qed.

Lemma find_elem_in rows x :
  NoDup (map z_elem rows) -> In x rows -> find (fun r => String.eqb (z_elem r) (z_elem x)) rows = Some x.
Proof.
  intros ND Hx. destruct (find _ rows) as [y|] eqn:F.
  - apply find_some in F as [Hy E]. apply String.eqb_eq in E. f_equal.
    apply (NoDup_map_inj z_elem rows y x ND Hy Hx E).
  - pose proof (find_none _ _ F x Hx) as N. cbn in N. rewrite String.eqb_refl in N. discriminate.
Qed.

Section ZRank.
Variable now : Z.
Variable d : db.
Variable s : sstate.
Hypothesis I : InvH None d.
Hypothesis HR : R now d s.
Hypothesis Hnum : Forall numP (rzset d).

Let s1 := spurge now s.
Let R1' : R now d s1 := R1 now d s HR.

Lemma step_ZGetRank k v desc : step_refines now (ZGetRank k v desc) d s.
Proof.
  destruct (to_bytes_cases v) as [[Tb [Bv _]] | [b [Tb [Bv _]]]].
  - eapply step_intro.
    + eapply exec_unwrapped_run; [reflexivity | reflexivity |]. rewrite zset_get_rank_eq, Tb. reflexivity.
    + cbn [spec_step]. fold s1. rewrite Bv. reflexivity.
    + apply out_equiv_refl. reflexivity.
    + exact R1'.
  - set (rows := live_zset_rows now d k).
    set (L := z_sorted desc rows).
    assert (PL : Permutation L rows) by apply perm_isort.
    assert (Prow : Forall numP rows).
    { rewrite Forall_forall in *. intros x Hx. apply Hnum. eapply live_rows_in. exact Hx. }
    assert (NDr : NoDup (map z_elem rows)) by (apply NoDup_live_elems; exact I).
    assert (SS : StronglySorted (fun a b => zle_d desc a b = true) L).
    { unfold L, z_sorted. change (if desc then z_le_desc else z_le_asc) with (zle_d desc).
      apply (isort_SS (zle_d desc) numP); [apply zle_d_total | apply zle_d_trans | exact Prow]. }
    assert (NDL : NoDup (map z_elem L)).
    { eapply Permutation_NoDup; [apply Permutation_map, Permutation_sym, PL | exact NDr]. }
    assert (Anti : forall a c, In a L -> In c L -> zle_d desc a c = true -> zle_d desc c a = true -> z_elem a = z_elem c).
    { intros a c Ha Hc. rewrite Forall_forall in Prow.
      apply zle_d_antisym; apply Prow; eapply Permutation_in; eassumption. }
    pose proof (index_count (zle_d desc) b L 0 SS NDL Anti) as IC.
    assert (Em : zset_get_rank now k v desc d =
                 (d, match index_of b L 0 with Some p => Ok p | None => Err ENotFound end)).
    { rewrite zset_get_rank_eq, Tb. reflexivity. }
    assert (Zm : zmembers s1 k = map pr rows) by (apply (zmembers_rows now d s I HR)).
    destruct (index_of b L 0) as [[i sc]|].
    + destruct IC as [x [Hx [Ex [Sx Ei]]]].
      assert (Hxr : In x rows) by (eapply Permutation_in; eassumption).
      assert (Zg : zget (map pr rows) b = Some sc).
      { rewrite zget_map, <- Ex, (find_elem_in rows x NDr Hxr). cbn. congruence. }
      eapply step_intro.
      * eapply exec_unwrapped_run; [reflexivity | reflexivity | exact Em].
      * cbn [spec_step]. fold s1. rewrite Bv, Zm, Zg. reflexivity.
      * split; [reflexivity|]. cbn [proj_result res_out o_val out_ok fst snd].
        rewrite filter_pr, zlen_map.
        rewrite (filter_ext (fun r => negb (String.eqb (fst (pr r)) b) &&
                                      (if desc then zpair_le (b, sc) (pr r) else zpair_le (pr r) (b, sc)))
                            (fun p => negb (String.eqb (z_elem p) b) && zle_d desc p x)).
        2:{ intros r. f_equal. subst b sc. destruct desc; reflexivity. }
        rewrite <- (zlen_perm _ _ (Permutation_filter' _ _ _ PL)).
        replace i with (zlen (filter (fun p => negb (String.eqb (z_elem p) b) && zle_d desc p x) L)) by lia.
        apply rve_refl.
      * exact R1'.
    + assert (Zg : zget (map pr rows) b = None).
      { rewrite zget_map. destruct (find _ rows) as [y|] eqn:F; [| reflexivity]. exfalso. apply IC.
        apply find_some in F as [Hy E]. apply String.eqb_eq in E. rewrite <- E. apply in_map.
        eapply Permutation_in; [apply Permutation_sym, PL | exact Hy]. }
      eapply step_intro.
      * eapply exec_unwrapped_run; [reflexivity | reflexivity | exact Em].
      * cbn [spec_step]. fold s1. rewrite Bv, Zm, Zg. reflexivity.
      * apply out_equiv_refl. reflexivity.
      * exact R1'.
Qed.

End ZRank.

(* ================================================================== *)
(* Part 10: the step theorem                                          *)
(* ================================================================== *)

(* C05_zset_step_refines as stated is FALSE (see C05_zset_step_refines_counterexample below):
   the invariant does not exclude a stored score that is not a number, and then the rank the
   model computes (NaN rows sort last) differs from the count the specification makes.
   Two hypotheses on the state are added, each for one operation only:
   - ZGetRank: every stored score is a number (the write path never stores anything else);
   - ZDeleteRank: the table has at most int64_max rows (for the corner start = 0, stop = int64_max,
     where the LIMIT count wraps around to "no limit"). *)
Definition wf_zdb (o : op) (d : db) : Prop :=
  match o with
  | ZDeleteRank _ _ _ => zlen (rzset d) <= int64_max
  | ZGetRank _ _ _ => Forall (fun r => not_nan (z_score r)) (rzset d)
  | _ => True
  end.

(* every operation except ZGetRank, with no hypothesis on the scores *)
Definition handled (o : op) : bool := match o with ZGetRank _ _ _ => false | _ => true end.
Theorem C05_zset_step_refines_handled : forall now o d s,
  zset_op o = true -> handled o = true -> wf_zop o ->
  (match o with ZDeleteRank _ _ _ => zlen (rzset d) <= int64_max | _ => True end) ->
  Inv d -> R now d s -> step_refines now o d s.
Proof.
  intros now o d s Ho Hh Wf Wd I HR. apply Inv_iff in I.
  destruct o; try discriminate Ho; try discriminate Hh; cbn [wf_zop] in Wf.
  - apply step_ZAdd; assumption.
  - destruct Wf. apply step_ZAddMany; assumption.
  - apply step_ZCount; assumption.
  - apply step_ZDelete; assumption.
  - destruct Wf. apply step_ZDeleteRank; assumption.
  - apply step_ZDeleteScore; assumption.
  - apply step_ZGetScore; assumption.
  - apply step_ZIncr; assumption.
  - apply step_ZLen; assumption.
  - apply step_ZRangeRank; assumption.
  - apply step_ZRangeScore; assumption.
Qed.

Theorem C05_zset_step_refines_partial : forall now o d s,
  zset_op o = true -> wf_zop o -> wf_zdb o d -> Inv d -> R now d s -> step_refines now o d s.
Proof.
  intros now o d s Ho Wf Wd I HR. destruct (handled o) eqn:Hh.
  - apply C05_zset_step_refines_handled; try assumption. destruct o; try exact Logic.I. exact Wd.
  - destruct o; try discriminate Hh. apply Inv_iff in I. apply step_ZGetRank; assumption.
Qed.

(* the counter-example: a stored NaN score *)
Definition cexz_d : db :=
  mkDb [mkKey 1 "k" 5 1 None 0 (Some 2)] [] [] [] [] [mkZ 1 1 "a" nan; mkZ 2 1 "b" one] true.
Definition cexz_s : sstate := [("k", mkEntry (AVZSet [("a", nan); ("b", one)]) None)].

Theorem C05_zset_step_refines_counterexample :
  ~ (forall now o d s, zset_op o = true -> wf_zop o -> Inv d -> R now d s -> step_refines now o d s).
Proof.
  intros H.
  assert (I0 : Inv cexz_d) by (split; vm_compute; reflexivity).
  assert (R0 : R 0 cexz_d cexz_s).
  { split; [repeat constructor; intros []|]. intros k. reflexivity. }
  specialize (H 0 (ZGetRank "k" (AStr "a") false) cexz_d cexz_s eq_refl Logic.I I0 R0).
  unfold step_refines in H.
  change (exec_db 0 (ZGetRank "k" (AStr "a") false) cexz_d) with (cexz_d, out_ok (VL [VI 1; VF nan])) in H.
  change (spec_step 0 (ZGetRank "k" (AStr "a") false) cexz_s) with (cexz_s, out_ok (VL [VI 0; VF nan])) in H.
  destruct H as [[_ Hv] _]. cbn in Hv. inversion Hv.
Qed.

(* ================================================================== *)
(* Part 11: the sorted-set operations never store a score that is not *)
(*          a number (so the hypothesis of ZGetRank is an invariant   *)
(*          of these operations)                                      *)
(* ================================================================== *)

Definition NP (d : db) : Prop := Forall numP (rzset d).

Lemma NP_incl d d' : (forall x, In x (rzset d') -> In x (rzset d)) -> NP d -> NP d'.
Proof. unfold NP. rewrite !Forall_forall. auto. Qed.

Lemma rzset_reset_incl now key typ d x : In x (rzset (reset_expired now key typ d)) -> In x (rzset d).
Proof.
  unfold reset_expired. destruct (find_key d key) as [r|]; [| auto]. destruct (expired now r); [| auto].
  rewrite trig_list_delete_eq. cbn [rzset upd_key_id upd_keys set_rkey]. intros H. apply filter_In in H. tauto.
Qed.

Lemma NP_add1 now key : hoare NP (zset_add1 now key) (fun _ => NP).
Proof.
  unfold zset_add1. apply hoare_typed_error. intros d d' r Hd E. unfold upsert_key in E.
  destruct (find_key (reset_expired now key T_ZSET d) key) as [k|];
    [destruct (k_type k =? T_ZSET); [| discriminate]|]; inversion E; subst;
    (eapply NP_incl; [| exact Hd]); cbn [rzset upd_key_id upd_keys set_rkey]; apply rzset_reset_incl.
Qed.

Lemma NP_upsert kid e sc comb : hoare NP (zset_upsert kid e sc comb) (fun _ => NP).
Proof.
  intros d d' a Hd. unfold zset_upsert. destruct e as [e|]; [| discriminate].
  destruct (find _ (rzset d)) as [old|].
  - destruct (negb (norm_zero (comb (z_score old) sc) =? norm_zero (comb (z_score old) sc))%float) eqn:N; [discriminate|].
    intros E. inversion E; subst. unfold NP in *. cbn [rzset set_rzset]. rewrite Forall_forall in *.
    intros x Hx. apply in_map_iff in Hx as [y [<- Hy]]. destruct (_ && _); [| auto].
    unfold numP, not_nan. cbn [z_score]. apply negb_false_iff in N. exact N.
  - destruct (negb (sc =? sc)%float) eqn:N; [discriminate|]. apply negb_false_iff in N.
    intros E. inversion E; subst. unfold NP in *. cbn [rzset set_rzset upd_key_id upd_keys set_rkey].
    apply Forall_app. split; [exact Hd|]. constructor; [| constructor]. unfold numP, not_nan. cbn [z_score].
    pose proof (not_nan_norm sc N) as X. unfold is_nanf in X. apply negb_false_iff in X. exact X.
Qed.

Lemma NP_add_raw now key v sc : hoare NP (zset_add_raw now key v sc) (fun _ => NP).
Proof.
  unfold zset_add_raw. destruct (to_bytes v); [| apply hoare_fail].
  eapply hoare_bind; [apply NP_add1|]. intros k.
  eapply hoare_bind; [apply NP_upsert|]. intros ?. apply hoare_ret. auto.
Qed.

Lemma NP_add_each now key items : hoare NP (zset_add_each now key items) (fun _ => NP).
Proof.
  induction items as [|[v sc] r IH]; cbn [zset_add_each].
  - apply hoare_ret. auto.
  - eapply hoare_bind; [apply NP_add_raw|]. intros ?. exact IH.
Qed.

Lemma NP_delete_zrows now key vs : hoare NP (delete_zrows now key vs) (fun _ => NP).
Proof.
  intros d d' a Hd. unfold delete_zrows. destruct (zlen vs =? 0); intros E; inversion E; subst; [exact Hd|].
  eapply NP_incl; [| exact Hd]. cbn [rzset bump_key_len upd_keys set_rkey set_rzset].
  intros x Hx. apply filter_In in Hx. tauto.
Qed.

Lemma NP_run_wrapped {A} (m : M A) f d :
  hoare NP m (fun _ => NP) -> NP d -> NP (if is_err (snd (run m f d)) then d else fst (run m f d)).
Proof.
  intros Hm Hd. unfold run. destruct (m d) as [d' r] eqn:E. destruct r as [a|e]; cbn.
  - eapply Hm; eauto.
  - exact Hd.
Qed.

Theorem C05_scores_stay_numbers : forall now o d,
  zset_op o = true ->
  Forall (fun r => not_nan (z_score r)) (rzset d) ->
  Forall (fun r => not_nan (z_score r)) (rzset (fst (exec_db now o d))).
Proof.
  intros now o d Ho Hd. change (NP (fst (exec_db now o d))). change (NP d) in Hd.
  destruct (is_read o) eqn:Rd.
  { rewrite exec_unwrapped_fst by (destruct o; try discriminate Rd; reflexivity).
    rewrite read_no_trace by exact Rd. exact Hd. }
  destruct o; try discriminate Ho; try discriminate Rd;
    rewrite exec_wrapped_fst by reflexivity; cbn [exec_tx]; apply NP_run_wrapped; try exact Hd.
  - unfold zset_add. apply hoare_bind_read; [apply readonly_bytes_args|]. intros elembs.
    apply hoare_bind_read; [apply readonly_lift_read|]. intros c.
    eapply hoare_bind; [apply NP_add_raw|]. intros ?. apply hoare_ret. auto.
  - unfold zset_add_many. apply hoare_bind_read; [apply readonly_bytes_args|]. intros elembs.
    apply hoare_bind_read; [apply readonly_lift_read|]. intros c.
    eapply hoare_bind; [apply NP_add_each|]. intros ?. apply hoare_ret. auto.
  - unfold zset_delete. apply hoare_bind_read; [apply readonly_bytes_args|]. intros elembs.
    intros d0 d' a H0. destruct (live_key now d0 key T_ZSET) as [k|]; [| intros E; inversion E; subst; exact H0].
    cbv zeta. destruct (_ =? 0); intros E; inversion E; subst; [exact H0|].
    eapply NP_incl; [| exact H0]. cbn [rzset bump_key_len upd_keys set_rkey set_rzset].
    intros x Hx. apply filter_In in Hx. tauto.
  - unfold zset_delete_rank.
    destruct ((start <? 0) || (stop <? 0)); [apply hoare_ret; auto|].
    destruct (stop <? start); [apply hoare_ret; auto|].
    apply hoare_get_db. intros d0. eapply hoare_conseq; [apply NP_delete_zrows | intros ? [? _]; assumption | auto].
  - unfold zset_delete_score. apply hoare_get_db. intros d0.
    eapply hoare_conseq; [apply NP_delete_zrows | intros ? [? _]; assumption | auto].
  - unfold zset_incr. apply hoare_bind_read; [apply readonly_bytes_args|]. intros elembs.
    eapply hoare_bind; [apply NP_add1|]. intros k. apply NP_upsert.
Qed.

Print Assumptions zsorted_map.
Print Assumptions C05_zset_step_refines_partial.
Print Assumptions C05_zset_step_refines_handled.
Print Assumptions C05_zset_step_refines_counterexample.
Print Assumptions C05_range_rank_is_segment.
Print Assumptions C05_rank_is_position.
Print Assumptions C05_rank_is_position_clean.
Print Assumptions C05_union_membership.
Print Assumptions C05_inter_membership.
Print Assumptions C05_alg_no_duplicates.
Print Assumptions C05_scores_stay_numbers.
