(* ImplString.v — internal/rstring/tx.go and set.go.  No proofs here. *)
From Redka Require Import Base Db.

(* sqlGet: select value from rstring join rkey on kid = rkey.id and type = 1
   where key = ? and live *)
Definition find_sval (d : db) (kid : Z) : option bytes :=
  match find (fun r => s_kid r =? kid) (rstring d) with
  | Some r => Some (s_val r)
  | None => None
  end.

Definition str_get (now : Z) (key : bytes) : M bytes :=
  fun d =>
    match live_key now d key T_STRING with
    | Some k => match find_sval d (k_id k) with
                | Some v => (d, Ok v)
                | None => (d, Err ENotFound)
                end
    | None => (d, Err ENotFound)
    end.

(* sqlGetMany: key in (:keys) and live; returned as a Go map *)
Definition str_get_many (now : Z) (keys : list bytes) : M (list (bytes * bytes)) :=
  lift_read (fun d =>
    flat_map (fun k =>
      if str_in (k_key k) keys && (k_type k =? T_STRING) && live now k
      then match find_sval d (k_id k) with Some v => [(k_key k, v)] | None => [] end
      else []) (rkey d)).

(* sqlSet2 / sqlUpdate2: insert into rstring (kid, value)
   values ((select id from rkey where key = ?), ?)
   on conflict (kid) do update set value = excluded.value *)
Definition sql_set2 (key : bytes) (v : option bytes) : M unit :=
  fun d =>
    match v with
    | None => (d, Err (ESql (SqNotNull "rstring.value")))
    | Some v =>
        match find_key d key with
        | None => (d, Err (ESql (SqNotNull "rstring.kid")))
        | Some k =>
            let kid := k_id k in
            if existsb (fun r => s_kid r =? kid) (rstring d)
            then (set_rstring d (map (fun r => if s_kid r =? kid then mkS kid v else r) (rstring d)), Ok tt)
            else (set_rstring d (rstring d ++ [mkS kid v]), Ok tt)
        end
    end.

(* set(): sqlSet1 then sqlSet2.  [at_] = None means "no expiry" *)
Definition str_set_at (now : Z) (key : bytes) (v : value) (at_ : option Z) : M unit :=
  match to_bytes v with
  | None => fail EValueType
  | Some vb =>
      typed_error (upsert_key now key T_STRING at_ None (fun r => with_etime r at_)) ;;;
      sql_set2 key vb
  end.

(* update(): sqlUpdate1 (etime untouched on conflict) then sqlUpdate2 *)
Definition str_update (now : Z) (key : bytes) (v : value) : M unit :=
  match to_bytes v with
  | None => fail EValueType
  | Some vb =>
      typed_error (upsert_key now key T_STRING None None (fun r => r)) ;;;
      sql_set2 key vb
  end.

(* SetExpires: ttl > 0 -> at = now + ttl (milliseconds) *)
Definition str_set_expires (now : Z) (key : bytes) (v : value) (ttl : Z) : M unit :=
  str_set_at now key v (if 0 <? ttl then Some (now + ttl) else None).

(* SetMany: every value is checked first; then one set() per item in Go map
   iteration order -- given here as a list with distinct keys *)
Fixpoint str_set_each (now : Z) (items : list (bytes * value)) : M unit :=
  match items with
  | [] => ret tt
  | (k, v) :: r => str_set_at now k v None ;;; str_set_each now r
  end.
Definition str_set_many (now : Z) (items : list (bytes * value)) : M unit :=
  if forallb (fun kv => is_value_type (snd kv)) items
  then str_set_each now items else fail EValueType.

(* Incr *)
Definition str_incr (now : Z) (key : bytes) (delta : Z) : M Z :=
  try_ (str_get now key) (fun r =>
    match r with
    | Err ENotFound | Ok _ =>
        let cur := match r with Ok v => v | _ => "" end in
        match value_int cur with
        | None => fail EValueType
        | Some n =>
            (* the overflow test of Incr: the wrapped sum moved the wrong way *)
            if negb (in_int64 (n + delta)) then fail EValueType else
            let nv := n + delta in
            str_update now key (AInt nv) ;;; ret nv
        end
    | Err e => fail e
    end).

(* IncrFloat.  strconv.ParseFloat of the stored text and FormatFloat of the
   sum are oracle inputs: [parsed] is what ParseFloat returns for the current
   text ([None] = syntax error), [fmt] the text of the sum. *)
Definition str_incr_float (now : Z) (key : bytes) (delta : float)
           (parsed : bytes -> option float) (fmt : float -> bytes) : M float :=
  try_ (str_get now key) (fun r =>
    match r with
    | Err ENotFound | Ok _ =>
        let cur := match r with Ok v => v | _ => "" end in
        match (match cur with EmptyString => Some zero | _ => parsed cur end) with
        | None => fail EValueType
        | Some f =>
            let nv := (f + delta)%float in
            str_update now key (AFloat nv (fmt nv)) ;;; ret nv
        end
    | Err e => fail e
    end).

(* SetCmd.run *)
Record setopts := mkSetOpts {
  so_ifx : bool; so_ifnx : bool; so_ttl : Z; so_at : option Z; so_keep : bool }.

(* returns (prev, created, updated); on a write error Go returns SetOut{Prev}, err *)
Definition str_set_with (now : Z) (key : bytes) (v : value) (o : setopts)
  : db -> db * out :=
  fun d =>
    if negb (is_value_type v) then (d, out_both (VL [VNone; VB false; VB false]) EValueType) else
    let '(_, r) := str_get now key d in
    let exists_ := match r with Err ENotFound => false | _ => true end in
    let prev := match r with Ok p => VS p | _ => VNone end in
    let at_ := if 0 <? so_ttl o then Some (now + so_ttl o) else so_at o in
    let unchanged := (d, out_ok (VL [prev; VB false; VB false])) in
    if so_ifx o && negb exists_ then unchanged else
    if so_ifnx o && exists_ then unchanged else
    let '(d', w) := (if so_keep o then str_update now key v else str_set_at now key v at_) d in
    match w with
    | Err e => (d', out_both (VL [prev; VB false; VB false]) e)
    | Ok _ => (d', out_ok (VL [prev; VB (negb exists_); VB exists_]))
    end.
