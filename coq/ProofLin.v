(* ProofLin.v — property C08: concurrent callers see one atomic operation at a
   time.  Theorems about the definitions of Lin.v. *)
From Redka Require Import Base Db ImplString ImplList Ops Spec Abs Inv Refine
  ProofConv ProofNoTrace ProofInv ProofInv2 ProofExpiry ProofRefineStr Lin.
From Coq Require Import Permutation.

(* ================================================================== *)
(* Part 1: sequential runs                                            *)
(* ================================================================== *)

Lemma effects_app a b : effects (a ++ b) = effects a ++ effects b.
Proof. apply flat_map_app. Qed.

Lemma effects_mid a c b : effects (a ++ Eff c :: b) = effects a ++ c :: effects b.
Proof. rewrite effects_app. reflexivity. Qed.

Lemma seq_run_cons d c rest :
  seq_run d (c :: rest) =
  (fst (seq_run (fst (apply_call c d)) rest),
   snd (apply_call c d) :: snd (seq_run (fst (apply_call c d)) rest)).
Proof.
  cbn [seq_run]. destruct (apply_call c d) as [d1 r]. cbn [fst snd].
  destruct (seq_run d1 rest) as [d2 rs]. reflexivity.
Qed.

Lemma seq_run_app a : forall d b,
  seq_run d (a ++ b) =
  (fst (seq_run (fst (seq_run d a)) b),
   snd (seq_run d a) ++ snd (seq_run (fst (seq_run d a)) b)).
Proof.
  induction a as [|c a IH]; intros d b.
  - cbn [app seq_run fst snd]. destruct (seq_run d b); reflexivity.
  - cbn [app]. rewrite !seq_run_cons, IH. reflexivity.
Qed.

Lemma seq_run_length a : forall d, List.length (snd (seq_run d a)) = List.length a.
Proof.
  induction a as [|c a IH]; intros d; [reflexivity|].
  rewrite seq_run_cons. cbn [snd List.length]. rewrite IH. reflexivity.
Qed.

Lemma seq_run_nth d a c b :
  nth_error (snd (seq_run d (a ++ c :: b))) (List.length a) =
  Some (snd (apply_call c (fst (seq_run d a)))).
Proof.
  rewrite seq_run_app. cbn [snd].
  rewrite nth_error_app2 by (rewrite seq_run_length; apply Nat.le_refl).
  rewrite seq_run_length, Nat.sub_diag, seq_run_cons. reflexivity.
Qed.

Lemma nth_error_mid {A} (a : list A) x b : nth_error (a ++ x :: b) (List.length a) = Some x.
Proof. rewrite nth_error_app2 by apply Nat.le_refl. rewrite Nat.sub_diag. reflexivity. Qed.

Lemma apply_One c o d :
  c_work c = One o ->
  apply_call c d = (fst (exec_db (c_time c) o d), [snd (exec_db (c_time c) o d)]).
Proof. intros W. unfold apply_call. rewrite W. destruct (exec_db (c_time c) o d); reflexivity. Qed.

Lemma apply_Block c ops d :
  c_work c = Block ops -> apply_call c d = exec_update (c_time c) ops true d.
Proof. intros W. unfold apply_call. rewrite W. reflexivity. Qed.

(* ================================================================== *)
(* Part 2: the invariant of the transition system                     *)
(* ================================================================== *)

Definition cl_of (x : call * option reply) : nat := c_client (fst x).

(* what a pending entry records about the history so far *)
Definition pend_ok (d0 : db) (tr : list event) (x : call * option reply) : Prop :=
  match snd x with
  | None => exists tr0 tr0', tr = tr0 ++ Inv_ (fst x) :: tr0' /\ quiet (cl_of x) tr0'
  | Some r => exists tr0 tr0', tr = tr0 ++ Eff (fst x) :: tr0' /\ quiet (cl_of x) tr0' /\
                r = snd (apply_call (fst x) (fst (seq_run d0 (effects tr0))))
  end.

Record J (d0 : db) (tr : list event) (s : sys) : Prop := mkJ {
  j_db : fst s = fst (seq_run d0 (effects tr));
  j_nd : NoDup (map cl_of (snd s));
  j_p : forall x, In x (snd s) -> pend_ok d0 tr x }.

Lemma quiet_nil cl : quiet cl [].
Proof. intros e []. Qed.

Lemma quiet_snoc cl tr e : quiet cl tr -> ev_client e <> cl -> quiet cl (tr ++ [e]).
Proof.
  intros Q N x Hx. apply in_app_or in Hx as [Hx | [<- | []]]; [apply Q; exact Hx | exact N].
Qed.

Lemma pend_ok_snoc d0 tr x e :
  pend_ok d0 tr x -> ev_client e <> cl_of x -> pend_ok d0 (tr ++ [e]) x.
Proof.
  unfold pend_ok. destruct (snd x) as [r|].
  - intros (tr0 & tr0' & -> & Q & E) N. exists tr0, (tr0' ++ [e]).
    rewrite <- app_assoc. split; [reflexivity|]. split; [apply quiet_snoc; assumption | exact E].
  - intros (tr0 & tr0' & -> & Q) N. exists tr0, (tr0' ++ [e]).
    rewrite <- app_assoc. split; [reflexivity | apply quiet_snoc; assumption].
Qed.

Lemma NoDup_mid {A B} (f : A -> B) p1 y p2 :
  NoDup (map f (p1 ++ y :: p2)) -> forall x, In x (p1 ++ p2) -> f x <> f y.
Proof.
  rewrite map_app. cbn [map]. intros N x Hx E. apply NoDup_remove_2 in N. apply N.
  rewrite <- map_app, <- E. apply in_map. exact Hx.
Qed.

Lemma in_mid {A} (x y : A) p1 p2 : In x (p1 ++ y :: p2) -> x = y \/ In x (p1 ++ p2).
Proof.
  intros H. apply in_app_or in H as [H | [H | H]];
    [right; apply in_or_app; left; exact H | left; symmetry; exact H | right; apply in_or_app; right; exact H].
Qed.

Lemma step_J d0 tr s e s' : J d0 tr s -> lts_step s e s' -> J d0 (tr ++ [e]) s'.
Proof.
  intros [Jd Jn Jp] St. inversion St; subst; cbn [fst snd] in *.
  - (* Inv_ *)
    constructor; cbn [fst snd].
    + rewrite effects_app. cbn. rewrite app_nil_r. exact Jd.
    + cbn [map]. constructor; [|exact Jn]. intros Hin.
      apply in_map_iff in Hin as [x [E Hx]]. exact (H x Hx E).
    + intros x [<- | Hx].
      * exists tr, []. split; [reflexivity | apply quiet_nil].
      * apply pend_ok_snoc; [apply Jp; exact Hx|]. intros E. apply (H x Hx). symmetry. exact E.
  - (* Eff *)
    constructor; cbn [fst snd].
    + rewrite effects_app, seq_run_app. cbn [fst]. rewrite <- Jd.
      change (effects [Eff c]) with [c]. rewrite seq_run_cons. reflexivity.
    + rewrite map_app in *. exact Jn.
    + intros x Hx. apply in_mid in Hx as [-> | Hx].
      * exists tr, []. split; [reflexivity|]. split; [apply quiet_nil|].
        cbn [fst]. rewrite <- Jd. reflexivity.
      * apply pend_ok_snoc.
        -- apply Jp. apply in_app_or in Hx as [Hx | Hx]; apply in_or_app; [left | right; right]; exact Hx.
        -- intros E. apply (NoDup_mid cl_of _ _ _ Jn x Hx). symmetry. exact E.
  - (* Ret *)
    constructor; cbn [fst snd].
    + rewrite effects_app. cbn. rewrite app_nil_r. exact Jd.
    + rewrite map_app in *. cbn [map] in Jn. apply NoDup_remove_1 in Jn. exact Jn.
    + intros x Hx. apply pend_ok_snoc.
      * apply Jp. apply in_app_or in Hx as [Hx | Hx]; apply in_or_app; [left | right; right]; exact Hx.
      * intros E. apply (NoDup_mid cl_of _ _ _ Jn x Hx). symmetry. exact E.
Qed.

Lemma reach_J d0 tr s : reach d0 tr s -> J d0 tr s.
Proof.
  induction 1 as [|tr s e s' _ IH St].
  - constructor; cbn; [reflexivity | constructor | intros x []].
  - eapply step_J; eassumption.
Qed.

(* ---------- histories are closed under prefixes ---------- *)

Lemma reach_snoc_inv d0 tr e s' :
  reach d0 (tr ++ [e]) s' -> exists s, reach d0 tr s /\ lts_step s e s'.
Proof.
  intros H. inversion H as [E | tr1 s e1 s1 R St E].
  - destruct tr; discriminate E.
  - apply app_inj_tail in E as [-> ->]. exists s. split; assumption.
Qed.

Lemma reach_prefix d0 tr1 tr2 : forall s,
  reach d0 (tr1 ++ tr2) s -> exists s1, reach d0 tr1 s1.
Proof.
  induction tr2 as [|e tr2 IH] using rev_ind; intros s H.
  - rewrite app_nil_r in H. exists s. exact H.
  - rewrite app_assoc in H. apply reach_snoc_inv in H as [s0 [H _]]. eapply IH. exact H.
Qed.

Lemma reach_split d0 tr1 e tr2 s :
  reach d0 (tr1 ++ e :: tr2) s -> exists s1 s2, reach d0 tr1 s1 /\ lts_step s1 e s2.
Proof.
  intros H. replace (tr1 ++ e :: tr2) with ((tr1 ++ [e]) ++ tr2) in H
    by (rewrite <- app_assoc; reflexivity).
  apply reach_prefix in H as [s2 H]. apply reach_snoc_inv in H as [s1 [H St]].
  exists s1, s2. split; assumption.
Qed.

(* ---------- where the effect of a call lies ---------- *)

(* a returned call took effect before, between it and the return the client did nothing,
   and the reply is the one the effect produced *)
Lemma ret_matched d0 tr1 c r tr2 s :
  reach d0 (tr1 ++ Ret c r :: tr2) s ->
  exists tr0 tr0', tr1 = tr0 ++ Eff c :: tr0' /\ quiet (c_client c) tr0' /\
    r = snd (apply_call c (fst (seq_run d0 (effects tr0)))).
Proof.
  intros H. apply reach_split in H as (s1 & s2 & R1 & St).
  apply reach_J in R1 as [_ _ Jp]. inversion St; subst. cbn [snd] in Jp.
  apply (Jp (c, Some r)). apply in_or_app. right. left. reflexivity.
Qed.

(* an effect lies after the invocation of its call *)
Lemma eff_matched d0 tr1 c tr2 s :
  reach d0 (tr1 ++ Eff c :: tr2) s ->
  exists tr0 tr0', tr1 = tr0 ++ Inv_ c :: tr0' /\ quiet (c_client c) tr0'.
Proof.
  intros H. apply reach_split in H as (s1 & s2 & R1 & St).
  apply reach_J in R1 as [_ _ Jp]. inversion St; subst. cbn [snd] in Jp.
  apply (Jp (c, None)). apply in_or_app. right. left. reflexivity.
Qed.

(* ================================================================== *)
(* Part 3: C08_linearizable                                           *)
(* ================================================================== *)

Theorem C08_linearizable : forall d tr d', trace d tr d' ->
  (* the final state is that of the sequential run of the calls in the order of their effects *)
  d' = fst (seq_run d (effects tr)) /\
  (* every answer is the one the sequential run gives that call: the call took
     effect before it returned, and at its place in the linearization the
     sequential run produces exactly the reply the client got *)
  (forall tr1 c r tr2, tr = tr1 ++ Ret c r :: tr2 ->
     exists tr0 tr0', tr1 = tr0 ++ Eff c :: tr0' /\ quiet (c_client c) tr0' /\
       nth_error (effects tr) (lin_index tr0) = Some c /\
       nth_error (snd (seq_run d (effects tr))) (lin_index tr0) = Some r) /\
  (* a call takes effect after it was invoked *)
  (forall tr1 c tr2, tr = tr1 ++ Eff c :: tr2 ->
     exists tr0 tr0', tr1 = tr0 ++ Inv_ c :: tr0' /\ quiet (c_client c) tr0') /\
  (* real time: if c1 returned before c2 was invoked, c1 comes before c2 in the linearization *)
  (forall tr1 c1 r1 tr2 c2 tr3, tr = tr1 ++ Ret c1 r1 :: tr2 ++ Inv_ c2 :: tr3 ->
     exists tr0 tr0', tr1 = tr0 ++ Eff c1 :: tr0' /\ quiet (c_client c1) tr0' /\
       forall tr3a tr3b, tr3 = tr3a ++ Eff c2 :: tr3b ->
         (lin_index tr0 < lin_index (tr1 ++ Ret c1 r1 :: tr2 ++ Inv_ c2 :: tr3a))%nat).
Proof.
  intros d tr d' [p H].
  split; [| split; [| split]].
  - apply reach_J in H as [Jd _ _]. exact Jd.
  - intros tr1 c r tr2 ->.
    destruct (ret_matched _ _ _ _ _ _ H) as (tr0 & tr0' & -> & Q & E).
    exists tr0, tr0'. split; [reflexivity|]. split; [exact Q|].
    rewrite <- app_assoc. cbn [app]. rewrite effects_mid. unfold lin_index. split.
    + apply nth_error_mid.
    + rewrite seq_run_nth, E. reflexivity.
  - intros tr1 c tr2 ->. eapply eff_matched. exact H.
  - intros tr1 c1 r1 tr2 c2 tr3 ->.
    destruct (ret_matched _ _ _ _ _ _ H) as (tr0 & tr0' & -> & Q & E).
    exists tr0, tr0'. split; [reflexivity|]. split; [exact Q|].
    intros tr3a tr3b _. unfold lin_index.
    rewrite <- app_assoc. cbn [app]. rewrite effects_mid, app_length. cbn [List.length]. lia.
Qed.

(* a caller-managed transaction is ONE effect: every state the system passes
   through is the outcome of a whole number of whole calls - there is no state
   in which part of a block (or part of a method) is visible *)
Theorem C08_block_not_torn : forall d tr d', trace d tr d' ->
  forall tr1 tr2 x p, tr = tr1 ++ tr2 -> reach d tr1 (x, p) ->
    x = fst (seq_run d (firstn (lin_index tr1) (effects tr))).
Proof.
  intros d tr d' _ tr1 tr2 x p -> R. apply reach_J in R as [Jd _ _]. cbn [fst] in Jd.
  unfold lin_index. rewrite effects_app, firstn_app, firstn_all, Nat.sub_diag. cbn [firstn].
  rewrite app_nil_r. exact Jd.
Qed.

Lemma seq_run_two d a b :
  snd (seq_run d [a; b]) = [snd (apply_call a d); snd (apply_call b (fst (apply_call a d)))].
Proof. rewrite !seq_run_cons. reflexivity. Qed.

(* the same for one block and one other call, spelled out: the other call is
   answered either from the state before the block or from the state after the
   whole block *)
Theorem C08_block_seen_whole : forall d c rd ops o tr d' tr1 r tr2,
  c_work c = Block ops -> c_work rd = One o ->
  trace d tr d' -> Permutation [c; rd] (effects tr) ->
  tr = tr1 ++ Ret rd r :: tr2 ->
  r = [snd (exec_db (c_time rd) o d)] \/
  r = [snd (exec_db (c_time rd) o (fst (exec_update (c_time c) ops true d)))].
Proof.
  intros d c rd ops o tr d' tr1 r tr2 Wc Wr T P E.
  assert (NE : rd <> c) by (intros ->; rewrite Wc in Wr; discriminate Wr).
  destruct (C08_linearizable d tr d' T) as (_ & L2 & _).
  destruct (L2 tr1 rd r tr2 E) as (tr0 & tr0' & _ & _ & N1 & N2).
  apply Permutation_length_2_inv in P. destruct P as [P | P]; rewrite P in N1, N2;
    rewrite seq_run_two in N2; destruct (lin_index tr0) as [|[|n]]; cbn [nth_error] in N1, N2;
    try discriminate N1; try (injection N1 as N1; exfalso; apply NE; congruence).
  - right. injection N2 as <-. rewrite (apply_Block c ops) by exact Wc.
    rewrite (apply_One rd o) by exact Wr. reflexivity.
  - destruct n; discriminate N1.
  - left. injection N2 as <-. rewrite (apply_One rd o) by exact Wr. reflexivity.
  - destruct n; discriminate N1.
Qed.

(* ================================================================== *)
(* Part 4: no lost update                                             *)
(* ================================================================== *)

(* the key reads, at every time, as the text [t] with no expiry (or as absent) *)
Definition St (d : db) (k : bytes) (t : option bytes) : Prop :=
  forall now, view now d k =
              match t with Some s => Some (mkEntry (AVStr s) None) | None => None end.
Definition cur (t : option bytes) : bytes := match t with Some s => s | None => "" end.

Lemma St_of_raw d k v :
  stored_int d k = Some v -> no_expiry d k -> exists t, St d k t /\ value_int (cur t) = Some v.
Proof.
  unfold stored_int, stored_text, no_expiry. destruct (find_key d k) as [r|] eqn:F.
  - intros H NE. specialize (NE r eq_refl).
    destruct (k_type r =? T_STRING) eqn:T; [|discriminate].
    destruct (find_sval d (k_id r)) as [s|] eqn:FS; [|discriminate].
    exists (Some s). split; [|exact H]. intros now. unfold view, live_any. rewrite F.
    unfold live. rewrite NE. rewrite abs_val_str1 by (apply Z.eqb_eq; exact T).
    rewrite FS, NE. reflexivity.
  - intros H _. injection H as <-. exists None. split; [|reflexivity].
    intros now. unfold view, live_any. rewrite F. reflexivity.
Qed.

Lemma St_to_raw d k s : St d k (Some s) -> stored_text d k = Some s /\ no_expiry d k.
Proof.
  intros H. specialize (H 0). unfold view, live_any in H.
  destruct (find_key d k) as [r|] eqn:F; [|discriminate].
  destruct (live 0 r); [|discriminate].
  destruct (abs_val d r) as [v|] eqn:A; [|discriminate].
  injection H as -> E. apply abs_val_str in A as [T FS].
  unfold stored_text, no_expiry. rewrite F, T. change (1 =? T_STRING) with true. cbv iota.
  split; [exact FS|]. intros r' E'. injection E' as <-. exact E.
Qed.

Lemma view_noexp now now' d k v :
  view now d k = Some (mkEntry v None) -> view now' d k = Some (mkEntry v None).
Proof.
  unfold view, live_any. destruct (find_key d k) as [r|]; [|discriminate].
  destruct (live now r); [|discriminate]. cbv beta iota.
  destruct (abs_val d r) as [a|] eqn:A; [|discriminate].
  intros E. injection E as -> E2. unfold live. rewrite E2. cbv beta iota.
  rewrite A, E2. reflexivity.
Qed.

Lemma value_int_range s v : value_int s = Some v -> in_int64 v = true.
Proof.
  destruct s as [|a s]; [intros E; injection E as <-; reflexivity|].
  unfold value_int. apply atoi_in_range.
Qed.

Lemma in_int64_iff z : in_int64 z = true <-> int64_min <= z <= int64_max.
Proof. unfold in_int64. rewrite andb_true_iff, !Z.leb_le. reflexivity. Qed.

(* one increment, at any time *)
Lemma incr_step now d k t v :
  InvH None d -> St d k t -> value_int (cur t) = Some v -> in_int64 (v + 1) = true ->
  exists d', exec_db now (SIncr k 1) d = (d', out_ok (VI (v + 1))) /\ InvH None d' /\
             St d' k (Some (itoa (v + 1))).
Proof.
  intros I S V R.
  assert (C : cur_of (view now d k) = cur t) by (rewrite (S now); destruct t; reflexivity).
  assert (O : okt (view now d k) = true) by (rewrite (S now); destruct t; reflexivity).
  assert (X : match view now d k with Some e => en_exp e | None => None end = None)
    by (rewrite (S now); destruct t; reflexivity).
  pose proof (str_update_eff now k (AInt (v + 1)) d (itoa (v + 1)) I eq_refl) as U.
  rewrite O in U. destruct U as (d' & U & I' & Vw).
  exists d'. split; [| split; [exact I'|]].
  - rewrite (exec_wrapped_run now (SIncr k 1) (str_incr now k 1) VI d d' (Ok (v + 1)));
      [reflexivity | reflexivity | reflexivity |].
    rewrite str_incr_eq, C, V, R. cbn [negb]. unfold bind. rewrite U. reflexivity.
  - intros now'. apply (view_noexp now). rewrite Vw, String.eqb_refl, X. reflexivity.
Qed.

Lemma incr_replies_shift v n :
  [out_ok (VI (v + 1))] :: map (fun i => [out_ok (VI (v + 1 + Z.of_nat i))]) (seq 1 n) =
  map (fun i => [out_ok (VI (v + Z.of_nat i))]) (seq 1 (S n)).
Proof.
  cbn [seq map]. rewrite <- (seq_shift n 1), map_map. f_equal.
  apply map_ext. intros i. do 3 f_equal. lia.
Qed.

Lemma incr_run k : forall cs d t v,
  (forall c, In c cs -> c_work c = One (SIncr k 1)) ->
  InvH None d -> St d k t -> value_int (cur t) = Some v -> v + zlen cs <= int64_max ->
  snd (seq_run d cs) = map (fun i => [out_ok (VI (v + Z.of_nat i))]) (seq 1 (List.length cs)) /\
  (cs = [] \/ St (fst (seq_run d cs)) k (Some (itoa (v + zlen cs)))).
Proof.
  induction cs as [|c cs IH]; intros d t v W I S V B.
  - split; [reflexivity | left; reflexivity].
  - assert (Lv : in_int64 v = true) by (eapply value_int_range; exact V).
    assert (Z0 : 0 <= zlen cs) by (unfold zlen; lia).
    assert (Zc : zlen (c :: cs) = 1 + zlen cs) by (unfold zlen; cbn [List.length]; lia).
    assert (R : in_int64 (v + 1) = true).
    { apply in_int64_iff. apply in_int64_iff in Lv. lia. }
    destruct (incr_step (c_time c) d k t v I S V R) as (d1 & E & I1 & S1).
    rewrite seq_run_cons, (apply_One c (SIncr k 1)) by (apply W; left; reflexivity).
    rewrite E. cbn [fst snd].
    destruct (IH d1 (Some (itoa (v + 1))) (v + 1)) as [Rs Fin].
    + intros c' Hc'. apply W. right. exact Hc'.
    + exact I1.
    + exact S1.
    + apply value_int_itoa. exact R.
    + lia.
    + split.
      * rewrite Rs. cbn [List.length]. apply incr_replies_shift.
      * right. destruct Fin as [-> | Fin].
        -- cbn [seq_run fst]. replace (v + zlen [c]) with (v + 1) by (unfold zlen; cbn; lia). exact S1.
        -- replace (v + zlen (c :: cs)) with (v + 1 + zlen cs) by lia. exact Fin.
Qed.

(* N increments by one of a counter (a missing key, or a string key that reads
   as an integer) with no expiry, executed one after the other at any times,
   leave it at initial + N, and the callers are told initial+1 ... initial+N *)
Theorem C08_no_lost_update : forall d k (cs : list call) v0,
  (forall c, In c cs -> c_work c = One (SIncr k 1)) -> Inv d ->
  stored_int d k = Some v0 -> no_expiry d k -> v0 + zlen cs <= int64_max ->
  let d' := fst (seq_run d cs) in
  stored_int d' k = Some (v0 + zlen cs) /\ no_expiry d' k /\
  (cs <> [] -> stored_text d' k = Some (itoa (v0 + zlen cs))) /\
  snd (seq_run d cs) =
    map (fun i => [out_ok (VI (v0 + Z.of_nat i))]) (seq 1 (List.length cs)).
Proof.
  intros d k cs v0 W I SI NE B d'.
  destruct (St_of_raw d k v0 SI NE) as (t & S & V).
  destruct (incr_run k cs d t v0 W (proj1 (Inv_iff d) I) S V B) as [Rs Fin].
  destruct Fin as [-> | Fin].
  - subst d'. cbn [seq_run fst]. replace (v0 + zlen []) with v0 by (unfold zlen; cbn; lia).
    repeat split; [exact SI | exact NE | intros N; exfalso; apply N; reflexivity].
  - fold d' in Fin. apply St_to_raw in Fin as [ST NE'].
    assert (R : in_int64 (v0 + zlen cs) = true).
    { apply value_int_range in V. apply in_int64_iff. apply in_int64_iff in V.
      assert (0 <= zlen cs) by (unfold zlen; lia). lia. }
    split; [| split; [exact NE' | split; [intros _; exact ST | exact Rs]]].
    unfold stored_int. rewrite ST. destruct (find_key d' k) eqn:F.
    + apply value_int_itoa. exact R.
    + unfold stored_text in ST. rewrite F in ST. discriminate ST.
Qed.

(* hence for any interleaving of any number of clients: whatever the trace, if
   the calls that took effect are increments of k, none is lost *)
Theorem C08_no_lost_update_concurrent : forall d tr d' k v0,
  trace d tr d' -> (forall c, In c (effects tr) -> c_work c = One (SIncr k 1)) -> Inv d ->
  stored_int d k = Some v0 -> no_expiry d k -> v0 + zlen (effects tr) <= int64_max ->
  stored_int d' k = Some (v0 + zlen (effects tr)).
Proof.
  intros d tr d' k v0 T W I SI NE B.
  destruct (C08_linearizable d tr d' T) as [-> _].
  apply (C08_no_lost_update d k (effects tr) v0 W I SI NE B).
Qed.

(* ================================================================== *)
(* Part 5: no element is popped twice, none is lost                   *)
(* ================================================================== *)

Lemma filter_all {A} (p : A -> bool) l : (forall y, In y l -> p y = true) -> filter p l = l.
Proof.
  induction l as [|x l IH]; intros H; [reflexivity|]. cbn [filter].
  rewrite (H x (or_introl eq_refl)), IH; [reflexivity|]. intros y Hy. apply H. right. exact Hy.
Qed.

Lemma TL_tail x l : TL (x :: l) -> TL l.
Proof.
  intros [A B]. cbn [nodup_by forallb] in A, B.
  apply andb_true_iff in A as [_ A]. apply andb_true_iff in B as [_ B]. split; assumption.
Qed.

(* taking one row out of a table whose (kid,pos) pairs are unique *)
Lemma perm_remove (l : list lrow) r :
  TL l -> In r l -> Permutation (r :: filter (fun x => negb (same_row x r)) l) l.
Proof.
  induction l as [|x l IH]; intros T Hr; [destruct Hr|].
  cbn [filter]. destruct (same_row x r) eqn:E; cbn [negb].
  - assert (x = r) by (apply (TL_inj (x :: l)); [exact T | left; reflexivity | exact Hr | exact E]).
    subst x. rewrite filter_all; [apply Permutation_refl|].
    intros y Hy. apply negb_true_iff. destruct (same_row y r) eqn:E2; [|reflexivity].
    assert (y = r) by (apply (TL_inj (r :: l)); [exact T | right; exact Hy | left; reflexivity | exact E2]).
    subst y. apply TL_NoDup in T. inversion T; contradiction.
  - destruct Hr as [-> | Hr].
    + rewrite eqL_same, (TL_refl (r :: l) r T (or_introl eq_refl)) in E. discriminate E.
    + eapply perm_trans; [apply perm_swap|]. apply perm_skip. apply IH; [eapply TL_tail; exact T | exact Hr].
Qed.

Lemma live_key_find now d key T k :
  live_key now d key T = Some k -> find_key d key = Some k /\ k_type k = T.
Proof.
  unfold live_key. destruct (find_key d key) as [r|]; [|discriminate].
  destruct ((k_type r =? T) && live now r) eqn:C; [|discriminate].
  intros E. injection E as <-. apply andb_true_iff in C as [C _]. apply Z.eqb_eq in C. auto.
Qed.

Lemma trigG_type now n r : k_type (trigG now n r) = k_type r.
Proof. unfold trigG. destruct (n =? 0); reflexivity. Qed.

(* the rows of the key after one of them was deleted *)
Lemma list_of_delete now key k row d :
  find_key d key = Some k -> k_type k = T_LIST ->
  list_of (fst (delete_rows now (k_id k) [row] d)) key =
  filter (fun x => negb (same_row x row)) (list_rows d (k_id k)).
Proof.
  intros F T. unfold delete_rows. cbn [fst]. rewrite trig_list_delete_eq.
  set (n := zlen [row]).
  set (G := fun r => if k_id r =? k_id k then trigG now n r else r).
  assert (GK : forall x, k_key (G x) = k_key x)
    by (intros x; unfold G; destruct (k_id x =? k_id k); [apply trigG_key | reflexivity]).
  unfold list_of, find_key, upd_key_id, upd_keys, set_rkey, set_rlist. cbn [rkey].
  rewrite (find_map_key G key _ GK). fold (find_key d key). rewrite F. cbn [option_map].
  unfold G at 1 2. rewrite Z.eqb_refl, trigG_type, trigG_id, T. change (T_LIST =? T_LIST) with true. cbv iota.
  unfold list_rows. cbn [rlist]. rewrite !filter_filter. apply filter_ext. intros x.
  cbn [existsb]. rewrite orb_false_r. apply andb_comm.
Qed.

(* one pop at DB level: refused and nothing changed, or exactly one row taken out *)
Lemma pop_step now key (back : bool) d :
  InvH None d ->
  let o := if back then LPopBack key else LPopFront key in
  (is_err (snd (exec_db now o d)) = true /\ fst (exec_db now o d) = d) \/
  (exists row, snd (exec_db now o d) = out_ok (VS (l_elem row)) /\
               Permutation (row :: list_of (fst (exec_db now o d)) key) (list_of d key)).
Proof.
  intros I o. destruct (is_err (snd (exec_db now o d))) eqn:Er.
  - left. split; [reflexivity | apply db_error_no_trace; exact Er].
  - right.
    assert (W : wrapped o = true) by (destruct back; reflexivity).
    assert (E : exec_tx true now o d = run (list_pop now key back) VS d) by (destruct back; reflexivity).
    destruct (list_pop now key back d) as [d1 r] eqn:P.
    rewrite (exec_wrapped_run now o (list_pop now key back) VS d d1 r W E P) in *.
    cbn [fst snd] in *. destruct r as [v|e]; [| discriminate Er].
    unfold list_pop in P. destruct (live_key now d key T_LIST) as [k|] eqn:LK; [|discriminate P].
    destruct (if back then rows_desc d (k_id k) else rows_asc d (k_id k)) as [|row rest] eqn:RW;
      [discriminate P|].
    destruct (delete_rows now (k_id k) [row] d) as [d2 n] eqn:DR. injection P as <- <-.
    apply live_key_find in LK as [F T].
    exists row. split; [reflexivity|].
    change d2 with (fst (d2, n)). rewrite <- DR, (list_of_delete now key k row d F T).
    unfold list_of. rewrite F, T. change (T_LIST =? T_LIST) with true. cbv iota.
    apply perm_remove.
    + unfold list_rows. apply TL_filter. apply I.
    + assert (Hin : In row (row :: rest)) by (left; reflexivity). rewrite <- RW in Hin.
      destruct back; unfold rows_desc, rows_asc in Hin; eapply In_isort; exact Hin.
Qed.

Lemma list_of_NoDup d key : InvH None d -> NoDup (list_of d key).
Proof.
  intros I. unfold list_of. destruct (find_key d key) as [k|]; [|constructor].
  destruct (k_type k =? T_LIST); [|constructor].
  unfold list_rows. apply TL_NoDup, TL_filter. apply I.
Qed.

Lemma NoDup_app_left {A} (a b : list A) : NoDup (a ++ b) -> NoDup a.
Proof.
  induction a as [|x a IH]; intros N; [constructor|].
  cbn [app] in N. inversion N as [|? ? Hn Hr]; subst. constructor; [| apply IH; exact Hr].
  intros Hin. apply Hn. apply in_or_app. left. exact Hin.
Qed.

Lemma popped_values_cons r rs :
  popped_values (r :: rs) =
  match r with [mkOut (VS v) None] => [v] | _ => [] end ++ popped_values rs.
Proof. reflexivity. Qed.

Lemma popped_err r : is_err r = true ->
  match [r] with [mkOut (VS v) None] => [v] | _ => [] end = [].
Proof. destruct r as [v [e|]]; [destruct v; reflexivity | discriminate]. Qed.

(* Any number of pops from either end of one list key, executed one after the
   other at any times on any consistent state: the rows handed out, together
   with the rows still stored, are exactly the rows stored at the start (as a
   multiset), the values returned are the values of those rows, and no row is
   handed out twice.  Pops that fail (no such key, expired, wrong type, empty)
   hand out nothing. *)
Theorem C08_pop_unique : forall d key cs,
  Inv d -> (forall c, In c cs -> is_pop key c) ->
  exists popped : list lrow,
    Permutation (popped ++ list_of (fst (seq_run d cs)) key) (list_of d key) /\
    popped_values (snd (seq_run d cs)) = map l_elem popped /\
    NoDup popped.
Proof.
  intros d key cs I W.
  assert (X : exists popped : list lrow,
    Permutation (popped ++ list_of (fst (seq_run d cs)) key) (list_of d key) /\
    popped_values (snd (seq_run d cs)) = map l_elem popped).
  { revert d I W. induction cs as [|c cs IH]; intros d I W.
    - exists []. split; [apply Permutation_refl | reflexivity].
    - assert (B : exists back : bool, c_work c = One (if back then LPopBack key else LPopFront key)).
      { destruct (W c (or_introl eq_refl)) as [H | H]; [exists false | exists true]; exact H. }
      destruct B as [back Wc].
      rewrite seq_run_cons, (apply_One c _ d Wc). cbn [fst snd]. rewrite popped_values_cons.
      assert (I1 : Inv (fst (exec_db (c_time c) (if back then LPopBack key else LPopFront key) d)))
        by (apply C11_inv_preserved; exact I).
      destruct (IH _ I1 (fun c' H => W c' (or_intror H))) as (popped & P & V).
      destruct (pop_step (c_time c) key back d (proj1 (Inv_iff d) I)) as [[Er Ed] | (row & Eo & Pr)].
      + exists popped. rewrite Ed in P, V |- *. split; [exact P|].
        rewrite (popped_err _ Er). exact V.
      + exists (row :: popped). split.
        * cbn [app]. eapply perm_trans; [| exact Pr]. apply perm_skip. exact P.
        * rewrite Eo, V. reflexivity. }
  destruct X as (popped & P & V). exists popped. split; [exact P | split; [exact V|]].
  assert (N : NoDup (popped ++ list_of (fst (seq_run d cs)) key)).
  { eapply Permutation_NoDup; [apply Permutation_sym; exact P|].
    apply list_of_NoDup. apply Inv_iff. exact I. }
  eapply NoDup_app_left. exact N.
Qed.

(* in numbers: the list is shorter by exactly the number of successful pops *)
Theorem C08_pop_count : forall d key cs,
  Inv d -> (forall c, In c cs -> is_pop key c) ->
  zlen (list_of (fst (seq_run d cs)) key) =
  zlen (list_of d key) - zlen (popped_values (snd (seq_run d cs))).
Proof.
  intros d key cs I W. destruct (C08_pop_unique d key cs I W) as (popped & P & V & _).
  apply Permutation_length in P. rewrite app_length in P. rewrite V.
  unfold zlen. rewrite map_length. lia.
Qed.

(* ================================================================== *)
(* Part 6: the model is not empty                                     *)
(* ================================================================== *)

(* two clients whose calls overlap; the second one invoked takes effect first *)
Definition ex_a : call := mkCall 1 10 (One (SIncr "n" 1)).
Definition ex_b : call := mkCall 2 11 (Block [SIncr "n" 1; LPushBack "l" (AStr "x")]).
Definition ex_trace : list event :=
  [Inv_ ex_a; Inv_ ex_b; Eff ex_b; Eff ex_a;
   Ret ex_a [out_ok (VI 2)]; Ret ex_b [out_ok (VI 1); out_ok (VI 1)]].

Example C08_trace_example :
  trace empty_db ex_trace (fst (seq_run empty_db [ex_b; ex_a])) /\ effects ex_trace = [ex_b; ex_a].
Proof.
  split; [| reflexivity]. exists []. unfold ex_trace.
  change [Inv_ ex_a; Inv_ ex_b; Eff ex_b; Eff ex_a; Ret ex_a [out_ok (VI 2)];
          Ret ex_b [out_ok (VI 1); out_ok (VI 1)]]
    with ((((((([] ++ [Inv_ ex_a]) ++ [Inv_ ex_b]) ++ [Eff ex_b]) ++ [Eff ex_a]) ++
            [Ret ex_a [out_ok (VI 2)]]) ++ [Ret ex_b [out_ok (VI 1); out_ok (VI 1)]])).
  set (d1 := fst (apply_call ex_b empty_db)).
  set (d2 := fst (apply_call ex_a d1)).
  assert (E : fst (seq_run empty_db [ex_b; ex_a]) = d2) by (rewrite !seq_run_cons; reflexivity).
  rewrite E.
  eapply reach_snoc; [eapply reach_snoc; [eapply reach_snoc; [eapply reach_snoc;
    [eapply reach_snoc; [eapply reach_snoc; [apply reach_nil|] |] |] |] |] |].
  - apply (step_inv empty_db [] ex_a). intros x [].
  - apply (step_inv empty_db [(ex_a, None)] ex_b). intros x [<- | []]. cbn. discriminate.
  - apply (step_eff empty_db [] [(ex_a, None)] ex_b).
  - apply (step_eff d1 [(ex_b, Some (snd (apply_call ex_b empty_db)))] [] ex_a).
  - assert (R : snd (apply_call ex_a d1) = [out_ok (VI 2)]) by (vm_compute; reflexivity).
    rewrite R.
    apply (step_ret d2 [(ex_b, Some (snd (apply_call ex_b empty_db)))] [] ex_a [out_ok (VI 2)]).
  - assert (R : snd (apply_call ex_b empty_db) = [out_ok (VI 1); out_ok (VI 1)]) by (vm_compute; reflexivity).
    rewrite R. cbn [app].
    apply (step_ret d2 [] [] ex_b [out_ok (VI 1); out_ok (VI 1)]).
Qed.

Print Assumptions C08_linearizable.
Print Assumptions C08_block_not_torn.
Print Assumptions C08_block_seen_whole.
Print Assumptions C08_no_lost_update.
Print Assumptions C08_no_lost_update_concurrent.
Print Assumptions C08_pop_unique.
Print Assumptions C08_pop_count.
Print Assumptions C08_trace_example.
