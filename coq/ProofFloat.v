(** Order and rounding facts about Coq's primitive binary64 floats.

    Part A (the seven order facts) is derived directly from the comparison
    specification axioms of [Coq.Floats.FloatAxioms] ([eqb_spec], [ltb_spec],
    [leb_spec]) by analysing [SpecFloat.SFcompare]; it uses neither the real
    numbers nor Flocq.

    Part B (x <= x + 1 and x - 1 <= x) goes through Flocq's bridge
    ([Flocq.IEEE754.PrimFloat]) to [binary_float] and uses monotonicity of
    rounding on the reals ([Bplus_correct], [round_ge_generic]). *)

From Coq Require Import ZArith Floats SpecFloat Lia Bool.

(** * Part A: comparison is a total preorder on non-NaN values *)

Module OrderA.

Local Open Scope Z_scope.

(** A non-NaN [spec_float] is mapped to a key in Z^3 such that [SFcompare]
    is the lexicographic comparison of keys. *)

Definition key3 : Type := (Z * Z * Z)%type.

Definition key (f : spec_float) : option key3 :=
  match f with
  | S754_nan => None
  | S754_zero _ => Some (0, 0, 0)
  | S754_infinity true => Some (-2, 0, 0)
  | S754_infinity false => Some (2, 0, 0)
  | S754_finite true m e => Some (-1, - e, Z.neg m)
  | S754_finite false m e => Some (1, e, Z.pos m)
  end.

Definition lexc (k1 k2 : key3) : comparison :=
  let '(a, b, c) := k1 in
  let '(a', b', c') := k2 in
  match a ?= a' with
  | Eq => match b ?= b' with Eq => c ?= c' | r => r end
  | r => r
  end.

Lemma SFcompare_key :
  forall f1 f2,
  SFcompare f1 f2 =
  match key f1, key f2 with
  | Some k1, Some k2 => Some (lexc k1 k2)
  | _, _ => None
  end.
Proof.
intros [s1|s1| |s1 m1 e1] [s2|s2| |s2 m2 e2];
  try destruct s1; try destruct s2; try reflexivity.
cbn [SFcompare key lexc]. rewrite Z.compare_refl.
rewrite Z.compare_opp, (Z.compare_antisym e1 e2).
destruct (e1 ?= e2); reflexivity.
Qed.

Definition klt (k1 k2 : key3) : Prop :=
  let '(a, b, c) := k1 in
  let '(a', b', c') := k2 in
  a < a' \/ (a = a' /\ (b < b' \/ (b = b' /\ c < c'))).

Lemma lexc_spec :
  forall k1 k2, CompareSpec (k1 = k2) (klt k1 k2) (klt k2 k1) (lexc k1 k2).
Proof.
intros [[a b] c] [[a' b'] c']. unfold lexc, klt.
destruct (Z.compare_spec a a'); destruct (Z.compare_spec b b');
  destruct (Z.compare_spec c c'); constructor; try lia.
subst. reflexivity.
Qed.

Lemma klt_irrefl : forall k, ~ klt k k.
Proof. intros [[a b] c]. unfold klt. lia. Qed.

Lemma klt_asym : forall k1 k2, klt k1 k2 -> klt k2 k1 -> False.
Proof. intros [[a b] c] [[a' b'] c']. unfold klt. lia. Qed.

Lemma klt_trans : forall k1 k2 k3, klt k1 k2 -> klt k2 k3 -> klt k1 k3.
Proof. intros [[a b] c] [[a' b'] c'] [[a'' b''] c'']. unfold klt. lia. Qed.

Lemma klt_total : forall k1 k2, klt k1 k2 \/ k1 = k2 \/ klt k2 k1.
Proof. intros k1 k2. destruct (lexc_spec k1 k2); tauto. Qed.

Definition kle (k1 k2 : key3) : Prop := klt k1 k2 \/ k1 = k2.

Definition ole (o1 o2 : option key3) : Prop :=
  match o1, o2 with Some k1, Some k2 => kle k1 k2 | _, _ => False end.

Definition olt (o1 o2 : option key3) : Prop :=
  match o1, o2 with Some k1, Some k2 => klt k1 k2 | _, _ => False end.

Definition oeq (o1 o2 : option key3) : Prop :=
  match o1, o2 with Some k1, Some k2 => k1 = k2 | _, _ => False end.

Definition onum (o : option key3) : Prop :=
  match o with Some _ => True | None => False end.

Lemma SFleb_ole : forall f1 f2, SFleb f1 f2 = true <-> ole (key f1) (key f2).
Proof.
intros f1 f2. unfold SFleb. rewrite SFcompare_key.
destruct (key f1) as [k1|]; destruct (key f2) as [k2|]; simpl; try easy.
unfold kle. destruct (lexc_spec k1 k2) as [H|H|H]; split; intros H'; try tauto; try easy.
destruct H' as [H'|H'].
- elim (klt_asym _ _ H H').
- subst. elim (klt_irrefl _ H).
Qed.

Lemma SFltb_olt : forall f1 f2, SFltb f1 f2 = true <-> olt (key f1) (key f2).
Proof.
intros f1 f2. unfold SFltb. rewrite SFcompare_key.
destruct (key f1) as [k1|]; destruct (key f2) as [k2|]; simpl; try easy.
destruct (lexc_spec k1 k2) as [H|H|H]; split; intros H'; try tauto; try easy.
- subst. elim (klt_irrefl _ H').
- elim (klt_asym _ _ H H').
Qed.

Lemma SFeqb_oeq : forall f1 f2, SFeqb f1 f2 = true <-> oeq (key f1) (key f2).
Proof.
intros f1 f2. unfold SFeqb. rewrite SFcompare_key.
destruct (key f1) as [k1|]; destruct (key f2) as [k2|]; simpl; try easy.
destruct (lexc_spec k1 k2) as [H|H|H]; split; intros H'; try tauto; try easy.
- subst. elim (klt_irrefl _ H).
- subst. elim (klt_irrefl _ H).
Qed.

(** Transfer to primitive floats. *)

Definition pk (x : float) : option key3 := key (Prim2SF x).

Lemma leb_ole : forall x y, (x <=? y)%float = true <-> ole (pk x) (pk y).
Proof. intros x y. rewrite FloatAxioms.leb_spec. apply SFleb_ole. Qed.

Lemma ltb_olt : forall x y, (x <? y)%float = true <-> olt (pk x) (pk y).
Proof. intros x y. rewrite FloatAxioms.ltb_spec. apply SFltb_olt. Qed.

Lemma eqb_oeq : forall x y, (x =? y)%float = true <-> oeq (pk x) (pk y).
Proof. intros x y. rewrite FloatAxioms.eqb_spec. apply SFeqb_oeq. Qed.

Lemma leb_false_ole : forall x y, (x <=? y)%float = false <-> ~ ole (pk x) (pk y).
Proof.
intros x y. rewrite <- leb_ole.
destruct (x <=? y)%float; split; intros H; easy.
Qed.

Lemma eqb_refl_onum : forall x, (x =? x)%float = true <-> onum (pk x).
Proof.
intros x. rewrite eqb_oeq. destruct (pk x); simpl; split; intros H; easy.
Qed.

(** Order facts on keys. *)

Lemma ole_refl : forall a, onum a -> ole a a.
Proof. intros [k|] H; simpl; try easy. now right. Qed.

Lemma ole_trans : forall a b c, ole a b -> ole b c -> ole a c.
Proof.
intros [k1|] [k2|] [k3|]; simpl; try easy.
unfold kle. intros [H1|H1] [H2|H2]; subst; auto.
left. now apply klt_trans with k2.
Qed.

Lemma ole_total : forall a b, onum a -> onum b -> ole a b \/ ole b a.
Proof.
intros [k1|] [k2|]; simpl; try easy. intros _ _. unfold kle.
destruct (klt_total k1 k2) as [H|[H|H]]; auto.
Qed.

Lemma olt_ole : forall a b, olt a b <-> (ole a b /\ ~ ole b a).
Proof.
intros [k1|] [k2|]; simpl; try tauto. unfold kle. split.
- intros H. split; [now left|]. intros [H'|H'].
  + elim (klt_asym _ _ H H').
  + subst. elim (klt_irrefl _ H).
- intros [[H|H] H']; [exact H|]. elim H'. right. now symmetry.
Qed.

Lemma oeq_ole : forall a b, oeq a b <-> (ole a b /\ ole b a).
Proof.
intros [k1|] [k2|]; simpl; try tauto. unfold kle. split.
- intros H. split; right; [exact H | now symmetry].
- intros [[H|H] [H'|H']]; auto.
  elim (klt_asym _ _ H H').
Qed.

Lemma ole_onum : forall a b, ole a b -> onum a /\ onum b.
Proof. intros [k1|] [k2|]; simpl; tauto. Qed.

End OrderA.

Import OrderA.

Open Scope float_scope.

Theorem fle_refl : forall x, (x =? x) = true -> (x <=? x) = true.
Proof.
intros x H. apply leb_ole, ole_refl. now apply eqb_refl_onum.
Qed.

Theorem fle_trans :
  forall x y z, (x <=? y) = true -> (y <=? z) = true -> (x <=? z) = true.
Proof.
intros x y z H1 H2. apply leb_ole. apply ole_trans with (pk y); now apply leb_ole.
Qed.

Theorem fle_total :
  forall x y, (x =? x) = true -> (y =? y) = true ->
  (x <=? y) = true \/ (y <=? x) = true.
Proof.
intros x y Hx Hy. rewrite !leb_ole. apply ole_total; now apply eqb_refl_onum.
Qed.

Theorem flt_le :
  forall x y, (x <? y) = true <-> ((x <=? y) = true /\ (y <=? x) = false).
Proof.
intros x y. rewrite ltb_olt, leb_ole, leb_false_ole. apply olt_ole.
Qed.

Theorem feq_le :
  forall x y, (x =? y) = true <-> ((x <=? y) = true /\ (y <=? x) = true).
Proof.
intros x y. rewrite eqb_oeq, !leb_ole. apply oeq_ole.
Qed.

Theorem fle_num :
  forall x y, (x <=? y) = true -> (x =? x) = true /\ (y =? y) = true.
Proof.
intros x y H. rewrite !eqb_refl_onum. apply ole_onum. now apply leb_ole.
Qed.

Theorem fzero_num : (zero =? zero) = true.
Proof. rewrite FloatAxioms.eqb_spec. reflexivity. Qed.

Close Scope float_scope.

(** * Part B: rounding facts, through Flocq *)

From Coq Require Import Reals Lra.
From Flocq Require Import Core BinarySingleNaN PrimFloat.

Local Existing Instance Hprec.
Local Existing Instance Hmax.

(** * Classification of a binary float on the extended real line *)

Inductive cls : Type :=
| CNaN : cls
| CNInf : cls
| CFin : R -> cls
| CPInf : cls.

Definition cl (x : binary_float prec emax) : cls :=
  match x with
  | B754_nan => CNaN
  | B754_infinity true => CNInf
  | B754_infinity false => CPInf
  | _ => CFin (B2R x)
  end.

Definition cle (a b : cls) : Prop :=
  match a, b with
  | CNaN, _ => False
  | _, CNaN => False
  | CNInf, _ => True
  | _, CPInf => True
  | CFin r, CFin s => (r <= s)%R
  | _, _ => False
  end.

Definition ceq (a b : cls) : Prop :=
  match a, b with
  | CNInf, CNInf => True
  | CPInf, CPInf => True
  | CFin r, CFin s => r = s
  | _, _ => False
  end.

Definition cnum (a : cls) : Prop :=
  match a with CNaN => False | _ => True end.

Lemma cl_finite :
  forall x : binary_float prec emax, is_finite x = true -> cl x = CFin (B2R x).
Proof. intros [s|s| |s m e H] Hx; try easy. Qed.

Lemma Bleb_cle :
  forall x y : binary_float prec emax, Bleb x y = true <-> cle (cl x) (cl y).
Proof.
intros x y.
destruct (is_finite x) eqn:Fx; destruct (is_finite y) eqn:Fy.
- rewrite (Bleb_correct _ _ x y Fx Fy), (cl_finite x Fx), (cl_finite y Fy).
  simpl. case Rle_bool_spec; intros H; split; intros H'; try easy; lra.
- rewrite (cl_finite x Fx).
  destruct x as [sx|sx| |[|] mx ex Hx]; try easy;
    destruct y as [sy|[|]| |sy my ey Hy]; easy.
- rewrite (cl_finite y Fy).
  destruct y as [sy|sy| |[|] my ey Hy]; try easy;
    destruct x as [sx|[|]| |sx mx ex Hx]; easy.
- destruct x as [sx|[|]| |sx mx ex Hx]; try easy;
    destruct y as [sy|[|]| |sy my ey Hy]; easy.
Qed.

Lemma Beqb_ceq :
  forall x y : binary_float prec emax, Beqb x y = true <-> ceq (cl x) (cl y).
Proof.
intros x y.
destruct (is_finite x) eqn:Fx; destruct (is_finite y) eqn:Fy.
- rewrite (Beqb_correct _ _ x y Fx Fy), (cl_finite x Fx), (cl_finite y Fy).
  simpl. case Req_bool_spec; intros H; split; intros H'; easy.
- rewrite (cl_finite x Fx).
  destruct x as [sx|sx| |[|] mx ex Hx]; try easy;
    destruct y as [sy|[|]| |sy my ey Hy]; easy.
- rewrite (cl_finite y Fy).
  destruct y as [sy|sy| |[|] my ey Hy]; try easy;
    destruct x as [sx|[|]| |sx mx ex Hx]; easy.
- destruct x as [sx|[|]| |sx mx ex Hx]; try easy;
    destruct y as [sy|[|]| |sy my ey Hy]; easy.
Qed.

(** Transfer to primitive floats. *)

Definition pc (x : Coq.Floats.PrimFloat.float) : cls := cl (Prim2B x).

Lemma leb_cle : forall x y : Coq.Floats.PrimFloat.float, (x <=? y)%float = true <-> cle (pc x) (pc y).
Proof. intros x y. rewrite leb_equiv. apply Bleb_cle. Qed.

Lemma eqb_ceq : forall x y : Coq.Floats.PrimFloat.float, (x =? y)%float = true <-> ceq (pc x) (pc y).
Proof. intros x y. rewrite eqb_equiv. apply Beqb_ceq. Qed.

Lemma eqb_refl_cnum : forall x : Coq.Floats.PrimFloat.float, (x =? x)%float = true <-> cnum (pc x).
Proof.
intros x. rewrite eqb_ceq. destruct (pc x); simpl; split; intros H; easy.
Qed.

(** Rounding facts. *)

Open Scope float_scope.

Lemma Prim2B_one : Prim2B 1 = Bone.
Proof.
change 1 with one. rewrite one_equiv. apply Prim2B_B2Prim.
Qed.

Lemma cl_overflow_NE :
  forall (z : binary_float prec emax) s,
  B2SF z = binary_overflow prec emax mode_NE s ->
  cl z = if s then CNInf else CPInf.
Proof.
intros z s. unfold binary_overflow. simpl.
destruct z as [sz|sz| |sz mz ez Hz]; simpl; try easy.
intros H. injection H as ->. reflexivity.
Qed.

Lemma Bplus_one_ge :
  forall x : binary_float prec emax,
  cnum (cl x) -> cle (cl x) (cl (Bplus mode_NE x Bone)).
Proof.
intros x Nx.
destruct (is_finite x) eqn:Fx.
- generalize (Bplus_correct _ _ Hprec Hmax mode_NE x Bone Fx (is_finite_Bone _ _ _ _)).
  rewrite (cl_finite x Fx).
  case Rlt_bool.
  + intros (Hr & Hf & _).
    rewrite (cl_finite _ Hf), Hr, Bone_correct. simpl.
    apply round_ge_generic.
    * apply FLT_exp_valid. exact Hprec.
    * apply valid_rnd_N.
    * apply generic_format_B2R.
    * lra.
  + intros (Ho & Hs).
    rewrite Bsign_Bone in Hs.
    rewrite (cl_overflow_NE _ _ Ho), Hs. exact I.
- generalize (is_finite_Bone prec emax Hprec Hmax).
  destruct x as [sx|sx| |sx mx ex Hx]; try easy.
  destruct (@Bone prec emax Hprec Hmax) as [sy|sy| |sy my ey Hy]; try easy;
    destruct sx; easy.
Qed.

Lemma Bminus_one_le :
  forall x : binary_float prec emax,
  cnum (cl x) -> cle (cl (Bminus mode_NE x Bone)) (cl x).
Proof.
intros x Nx.
destruct (is_finite x) eqn:Fx.
- generalize (Bminus_correct _ _ Hprec Hmax mode_NE x Bone Fx (is_finite_Bone _ _ _ _)).
  rewrite (cl_finite x Fx).
  case Rlt_bool.
  + intros (Hr & Hf & _).
    rewrite (cl_finite _ Hf), Hr, Bone_correct. simpl.
    apply round_le_generic.
    * apply FLT_exp_valid. exact Hprec.
    * apply valid_rnd_N.
    * apply generic_format_B2R.
    * lra.
  + intros (Ho & Hs).
    rewrite Bsign_Bone in Hs.
    rewrite (cl_overflow_NE _ _ Ho), Hs. exact I.
- generalize (is_finite_Bone prec emax Hprec Hmax).
  destruct x as [sx|sx| |sx mx ex Hx]; try easy.
  destruct (@Bone prec emax Hprec Hmax) as [sy|sy| |sy my ey Hy]; try easy;
    destruct sx; easy.
Qed.

Theorem fadd1_ge : forall x, (x =? x) = true -> (x <=? x + 1) = true.
Proof.
intros x H. apply leb_cle. unfold pc.
rewrite add_equiv, Prim2B_one.
apply Bplus_one_ge. now apply eqb_refl_cnum.
Qed.

Theorem fsub1_le : forall x, (x =? x) = true -> (x - 1 <=? x) = true.
Proof.
intros x H. apply leb_cle. unfold pc.
rewrite sub_equiv, Prim2B_one.
apply Bminus_one_le. now apply eqb_refl_cnum.
Qed.

(** * Optional: the midpoint

    [fmid_between] is FALSE as stated: [a + b] can overflow.  With
    a = 0x1.ffffffffffffep+1023 and b = 0x1.fffffffffffffp+1023 (max_float),
    a < b but (a + b) / 2 = +infinity, which is not <= b. *)

Theorem fmid_between_counterexample :
  exists a b,
  (a <? b) = true /\ ((a + b) / 2 <=? b) = false.
Proof.
exists 0x1.ffffffffffffep+1023, 0x1.fffffffffffffp+1023.
split; vm_compute; reflexivity.
Qed.

(** The closest true variant: it holds whenever [a + b] is finite. *)

Lemma generic_format_double :
  forall x : R,
  generic_format radix2 (fexp prec emax) x ->
  generic_format radix2 (fexp prec emax) (2 * x).
Proof.
intros x Hx.
apply generic_format_FLT.
apply FLT_format_generic in Hx; [|exact Hprec].
destruct Hx as [[m e] H1 H2 H3]. simpl in H2, H3.
exists (Float radix2 m (e + 1)); simpl.
- rewrite H1. unfold F2R. simpl Fnum. simpl Fexp.
  rewrite bpow_plus_1. simpl IZR. ring.
- exact H2.
- apply Z.le_trans with e; [exact H3|]. apply Z.le_succ_diag_r.
Qed.

Lemma Bplus_finite_inv :
  forall x y : binary_float prec emax,
  is_finite (Bplus mode_NE x y) = true ->
  is_finite x = true /\ is_finite y = true.
Proof.
intros [sx|sx| |sx mx ex Hx] [sy|sy| |sy my ey Hy]; simpl; try easy.
destruct (Bool.eqb sx sy); easy.
Qed.

Lemma B2R_two : B2R (Prim2B 2) = 2%R.
Proof.
rewrite <- SF2R_B2SF, B2SF_Prim2B.
replace (Prim2SF 2) with (S754_finite false 4503599627370496 (-51))
  by (vm_compute; reflexivity).
unfold SF2R, F2R. simpl. lra.
Qed.

Lemma Bmid_between :
  forall x y : binary_float prec emax,
  is_finite (Bplus mode_NE x y) = true ->
  Bltb x y = true ->
  let m := Bdiv mode_NE (Bplus mode_NE x y) (Prim2B 2) in
  cle (cl x) (cl m) /\ cle (cl m) (cl y).
Proof.
intros x y Fs Hlt m.
destruct (Bplus_finite_inv x y Fs) as [Fx Fy].
rewrite (Bltb_correct _ _ x y Fx Fy) in Hlt.
assert (Hxy : (B2R x < B2R y)%R).
{ revert Hlt. case Rlt_bool_spec; easy. }
clear Hlt.
assert (Hs : B2R (Bplus mode_NE x y)
             = round radix2 (fexp prec emax) (round_mode mode_NE) (B2R x + B2R y)).
{ generalize (Bplus_correct _ _ Hprec Hmax mode_NE x y Fx Fy).
  case Rlt_bool.
  - intros (Hr & _). exact Hr.
  - intros (Ho & _). exfalso.
    revert Fs. rewrite <- is_finite_SF_B2SF, Ho. easy. }
set (rs := B2R (Bplus mode_NE x y)) in *.
assert (Hlo : (2 * B2R x <= rs)%R).
{ rewrite Hs. apply round_ge_generic.
  - apply fexp_correct. exact Hprec.
  - apply valid_rnd_N.
  - apply generic_format_double, generic_format_B2R.
  - lra. }
assert (Hhi : (rs <= 2 * B2R y)%R).
{ rewrite Hs. apply round_le_generic.
  - apply fexp_correct. exact Hprec.
  - apply valid_rnd_N.
  - apply generic_format_double, generic_format_B2R.
  - lra. }
set (rm := round radix2 (fexp prec emax) (round_mode mode_NE) (rs / 2)).
assert (Hmlo : (B2R x <= rm)%R).
{ apply round_ge_generic.
  - apply fexp_correct. exact Hprec.
  - apply valid_rnd_N.
  - apply generic_format_B2R.
  - lra. }
assert (Hmhi : (rm <= B2R y)%R).
{ apply round_le_generic.
  - apply fexp_correct. exact Hprec.
  - apply valid_rnd_N.
  - apply generic_format_B2R.
  - lra. }
assert (Hnz : B2R (Prim2B 2) <> 0%R) by (rewrite B2R_two; lra).
generalize (Bdiv_correct _ _ Hprec Hmax mode_NE (Bplus mode_NE x y) (Prim2B 2) Hnz).
fold m. fold rs. rewrite B2R_two. fold rm.
rewrite Rlt_bool_true.
- intros (Hr & Hf & _).
  rewrite Fs in Hf.
  rewrite (cl_finite x Fx), (cl_finite y Fy), (cl_finite m Hf), Hr.
  simpl. split; assumption.
- generalize (abs_B2R_lt_emax _ _ x) (abs_B2R_lt_emax _ _ y).
  intros Hax Hay.
  apply Rabs_def2 in Hax. apply Rabs_def2 in Hay.
  apply Rabs_def1; lra.
Qed.

Theorem fmid_between_partial :
  forall a b,
  Coq.Floats.PrimFloat.is_finite (a + b) = true ->
  (a <? b) = true ->
  (a <=? (a + b) / 2) = true /\ ((a + b) / 2 <=? b) = true.
Proof.
intros a b Hf Hlt.
rewrite is_finite_equiv, add_equiv in Hf.
rewrite ltb_equiv in Hlt.
rewrite !leb_cle. unfold pc.
rewrite div_equiv, add_equiv.
exact (Bmid_between _ _ Hf Hlt).
Qed.

Print Assumptions fle_refl.
Print Assumptions fle_trans.
Print Assumptions fle_total.
Print Assumptions flt_le.
Print Assumptions feq_le.
Print Assumptions fle_num.
Print Assumptions fadd1_ge.
Print Assumptions fsub1_le.
Print Assumptions fzero_num.
Print Assumptions fmid_between_counterexample.
Print Assumptions fmid_between_partial.
