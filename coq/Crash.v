(* Crash.v — process death and reopening (property C09), the logical part.
   The durable state is the database after the last COMMITTED DB-level
   operation; a crash strikes while operation number n of a workload is in
   flight, and SQLite's atomic commit leaves either none or all of that
   operation's effects.  Definitions only; the theorems are in ProofCrash.v.

   What this model CANNOT exhibit, and which is therefore covered by runs of
   the real program (kill -9 and reopen) and not by these theorems:
   - the write-ahead log and its recovery on open (that a committed transaction
     is in the WAL, that a torn WAL frame is discarded): the atomicity of a
     commit is the ASSUMPTION built into [recovered], not a consequence;
   - "pragma synchronous = normal": in WAL mode a commit is durable against
     process death but not necessarily against power loss or an OS crash; the
     model knows only process death;
   - the file system (fsync, rename, directory entries, a full disk) and the
     read-only/read-write connection pools that are re-created on open. *)
From Redka Require Import Base Db Ops.

(* the state after the first n operations of the workload, each one a
   committed DB-level call *)
Fixpoint run_prefix (h : list (Z * op)) (n : nat) (d : db) : db :=
  match n, h with
  | O, _ => d
  | _, [] => d
  | S n', (t, o) :: rest => run_prefix rest n' (fst (exec_db t o d))
  end.

(* the crash happens while operation number n (counting from 0) is in flight:
   the reopened database has either none or all of its effects *)
Inductive recovered (h : list (Z * op)) (n : nat) (d : db) : db -> Prop :=
| rec_before : recovered h n d (run_prefix h n d)
| rec_after : (n < List.length h)%nat -> recovered h n d (run_prefix h (S n) d).

(* opening runs the schema script again; every statement in it is
   "create ... if not exists" / a pragma, so on an existing database it changes
   no table *)
Definition reopen (d : db) : db := d.
