(* ProofRefineStr.v — C01 / C06: the DB-level string and key operations of the
   faithful model refine the abstract specification. *)
From Redka Require Import Base Db Glob ImplKey ImplString ImplList ImplSet ImplHash ImplZSet Ops Spec Abs Inv Excl Refine ProofNoTrace ProofInv.
From Coq Require Import Permutation Lia ZifyBool.

Definition str_op (o : op) : bool :=
  match o with
  | SGet _ | SGetMany _ | SIncr _ _ | SIncrFloat _ _ _ _ | SSet _ _ | SSetExpires _ _ _
  | SSetMany _ | SSetWith _ _ _ => true
  | _ => false
  end.
(* the key operations whose result the abstract state determines; KLen is a recorded known finding
   (it counts expired keys), KScan/KDeleteExpired/KRandom-with-bad-oracle are compared on state only *)
Definition key_op (o : op) : bool :=
  match o with
  | KCount _ | KDelete _ | KDeleteAll | KExists _ | KExpire _ _ | KExpireAt _ _ | KGet _
  | KKeys _ | KPersist _ | KRename _ _ | KRenameNX _ _ => true
  | _ => false
  end.
(* SetMany takes a Go map: the item list has distinct keys *)
Definition wf_op (o : op) : Prop :=
  match o with
  | SSetMany items => NoDup (map fst items)
  | _ => True
  end.

(* ================================================================== *)
(* Part 1: the abstract keyspace as a finite map                      *)
(* ================================================================== *)

Definition lv (now : Z) (x : option Z) : bool :=
  match x with None => true | Some t => now <? t end.

Lemma live_lv now r : live now r = lv now (k_etime r).
Proof. reflexivity. Qed.
Lemma en_live_lv now e : en_live now e = lv now (en_exp e).
Proof. reflexivity. Qed.

Lemma lv_mono now now' x : now <= now' -> lv now' x = true -> lv now x = true.
Proof. unfold lv. destruct x; [lia | auto]. Qed.

Definition purged (now : Z) (o : option entry) : option entry :=
  match o with
  | Some e => if lv now (en_exp e) then Some e else None
  | None => None
  end.

Definition ent (now : Z) (v : aval) (x : option Z) : option entry :=
  if lv now x then Some (mkEntry v x) else None.

Lemma sget_nil k : sget [] k = None.
Proof. reflexivity. Qed.

Lemma sget_cons k k0 e s :
  sget ((k0, e) :: s) k = if String.eqb k0 k then Some e else sget s k.
Proof. unfold sget, opt_lookup. cbn [find fst]. destruct (String.eqb k0 k); reflexivity. Qed.

Lemma sget_app a b k :
  sget (a ++ b) k = match sget a k with Some e => Some e | None => sget b k end.
Proof.
  induction a as [|[k0 e0] a IH]; [reflexivity|].
  rewrite <- app_comm_cons, !sget_cons. destruct (String.eqb k0 k); [reflexivity | exact IH].
Qed.

Lemma sget_in s k e : sget s k = Some e -> In (k, e) s.
Proof.
  induction s as [|[k0 e0] s IH]; [discriminate|].
  rewrite sget_cons. destruct (String.eqb_spec k0 k).
  - intros E. injection E as <-. subst. left. reflexivity.
  - intros E. right. auto.
Qed.

Lemma sget_notin s k : ~ In k (map fst s) -> sget s k = None.
Proof.
  induction s as [|[k0 e0] s IH]; [reflexivity|].
  cbn [map fst In]. intros H. rewrite sget_cons.
  destruct (String.eqb_spec k0 k); [tauto | apply IH; tauto].
Qed.

Lemma sget_none_notin s k : sget s k = None -> ~ In k (map fst s).
Proof.
  induction s as [|[k0 e0] s IH]; [intros _ []|].
  rewrite sget_cons. cbn [map fst In]. destruct (String.eqb_spec k0 k); [discriminate|].
  intros G [E | H]; [contradiction | exact (IH G H)].
Qed.

Lemma sget_some_in s k e : sget s k = Some e -> In k (map fst s).
Proof. intros H. apply sget_in in H. apply in_map_iff. exists (k, e). auto. Qed.

Lemma in_sget s k e : NoDup (map fst s) -> In (k, e) s -> sget s k = Some e.
Proof.
  induction s as [|[k0 e0] s IH]; [intros _ []|].
  cbn [map fst]. intros ND [E | H]; inversion ND as [|? ? Hn Hr]; subst; rewrite sget_cons.
  - injection E as -> ->. rewrite String.eqb_refl. reflexivity.
  - destruct (String.eqb_spec k0 k).
    + subst. exfalso. apply Hn. apply in_map_iff. exists (k, e). auto.
    + auto.
Qed.

Lemma sget_filter (q : bytes * entry -> bool) s k :
  NoDup (map fst s) ->
  sget (filter q s) k =
  match sget s k with Some e => if q (k, e) then Some e else None | None => None end.
Proof.
  induction s as [|[k0 e0] s IH]; [reflexivity|].
  cbn [map fst filter]. intros ND. inversion ND as [|? ? Hn Hr]; subst.
  rewrite sget_cons. destruct (q (k0, e0)) eqn:Q.
  - rewrite sget_cons. destruct (String.eqb_spec k0 k); [subst; rewrite Q; reflexivity | auto].
  - destruct (String.eqb_spec k0 k); [| auto]. subst. rewrite Q.
    apply sget_notin. intros Hin. apply Hn.
    apply in_map_iff in Hin as [x [E Hx]]. apply filter_In in Hx as [Hx _].
    apply in_map_iff. exists x. auto.
Qed.

Lemma sget_spurge now s k :
  NoDup (map fst s) -> sget (spurge now s) k = purged now (sget s k).
Proof. intros ND. unfold spurge. rewrite sget_filter by exact ND. reflexivity. Qed.

Lemma sget_sdel k s k' :
  sget (sdel k s) k' = if String.eqb k k' then None else sget s k'.
Proof.
  unfold sdel. induction s as [|[k0 e0] s IH]; cbn [filter fst].
  - destruct (String.eqb k k'); reflexivity.
  - destruct (String.eqb_spec k0 k); cbn [negb].
    + subst. rewrite IH, sget_cons. destruct (String.eqb k k'); reflexivity.
    + rewrite !sget_cons, IH. destruct (String.eqb_spec k0 k'); [| reflexivity].
      subst. destruct (String.eqb_spec k k'); [congruence | reflexivity].
Qed.

Lemma sget_none_existsb s k :
  existsb (fun kv : bytes * entry => String.eqb (fst kv) k) s = false -> sget s k = None.
Proof.
  induction s as [|[k0 e0] s IH]; [reflexivity|].
  cbn [existsb fst]. rewrite orb_false_iff. intros [A B]. rewrite sget_cons, A. auto.
Qed.

Lemma sget_map_put k e s k' :
  sget (map (fun kv : bytes * entry => if String.eqb (fst kv) k then (k, e) else kv) s) k' =
  if String.eqb k k' then match sget s k with Some _ => Some e | None => None end
  else sget s k'.
Proof.
  induction s as [|[k0 e0] s IH]; cbn [map fst].
  - destruct (String.eqb k k'); reflexivity.
  - destruct (String.eqb_spec k0 k).
    + subst. rewrite !sget_cons, String.eqb_refl. destruct (String.eqb k k'); [reflexivity | exact IH].
    + rewrite !sget_cons, IH. destruct (String.eqb_spec k0 k) as [|_]; [contradiction|].
      destruct (String.eqb_spec k k').
      * subst. destruct (String.eqb_spec k0 k'); [contradiction | reflexivity].
      * reflexivity.
Qed.

Lemma sget_sput k e s k' :
  sget (sput k e s) k' = if String.eqb k k' then Some e else sget s k'.
Proof.
  unfold sput. match goal with |- context [existsb ?f s] => destruct (existsb f s) eqn:X end.
  - rewrite sget_map_put. destruct (String.eqb k k'); [| reflexivity].
    destruct (sget s k) eqn:G; [reflexivity|]. exfalso.
    apply existsb_exists in X as [[k0 e0] [Hx Ex]]. cbn in Ex. apply String.eqb_eq in Ex. subst.
    apply (sget_none_notin _ _ G). apply in_map_iff. exists (k, e0). auto.
  - rewrite sget_app, sget_cons, sget_nil. destruct (String.eqb_spec k k').
    + subst. rewrite (sget_none_existsb _ _ X). reflexivity.
    + destruct (sget s k'); reflexivity.
Qed.

Lemma NoDup_sput k e s : NoDup (map fst s) -> NoDup (map fst (sput k e s)).
Proof.
  intros ND. unfold sput. match goal with |- context [existsb ?f s] => destruct (existsb f s) eqn:X end.
  - rewrite map_map. erewrite map_ext; [exact ND|]. intros [k0 e0]. cbn [fst].
    destruct (String.eqb_spec k0 k); [subst; reflexivity | reflexivity].
  - rewrite map_app. apply NoDup_snoc; [exact ND|]. cbn [map fst].
    intros Hin. apply in_map_iff in Hin as [[k0 e0] [E Hx]]. cbn in E. subst.
    assert (existsb (fun kv : bytes * entry => String.eqb (fst kv) k) s = true).
    { apply existsb_exists. exists (k, e0). split; [exact Hx | apply String.eqb_refl]. }
    exact (eq_true_false_abs _ H X).
Qed.

Lemma NoDup_sfilter (q : bytes * entry -> bool) s :
  NoDup (map fst s) -> NoDup (map fst (filter q s)).
Proof. apply NoDup_map_filter. Qed.

Lemma NoDup_spurge now s : NoDup (map fst s) -> NoDup (map fst (spurge now s)).
Proof. apply NoDup_sfilter. Qed.

Lemma NoDup_sdel k s : NoDup (map fst s) -> NoDup (map fst (sdel k s)).
Proof. apply NoDup_sfilter. Qed.

Lemma purged_idem now o : purged now (purged now o) = purged now o.
Proof. destruct o as [e|]; [| reflexivity]. cbn. destruct (lv now (en_exp e)) eqn:L; cbn; [rewrite L|]; reflexivity. Qed.

Lemma purged_ent now v x : purged now (ent now v x) = ent now v x.
Proof. unfold ent. destruct (lv now x) eqn:L; cbn; [rewrite L|]; reflexivity. Qed.

Lemma purged_some now v x : purged now (Some (mkEntry v x)) = ent now v x.
Proof. reflexivity. Qed.

(* two duplicate-free association lists with the same lookups are permutations *)
Lemma lookup_perm (a b : sstate) :
  NoDup (map fst a) -> NoDup (map fst b) -> (forall k, sget a k = sget b k) -> Permutation a b.
Proof.
  intros Na Nb H. apply NoDup_Permutation.
  - eapply NoDup_map_inv; exact Na.
  - eapply NoDup_map_inv; exact Nb.
  - intros [k e]. split; intros Hin.
    + apply sget_in. rewrite <- H. apply in_sget; assumption.
    + apply sget_in. rewrite H. apply in_sget; assumption.
Qed.

(* ================================================================== *)
(* Part 2: reading the faithful state by name                         *)
(* ================================================================== *)

Definition view (now : Z) (d : db) (k : bytes) : option entry :=
  match live_any now d k with
  | Some r => match abs_val d r with
              | Some v => Some (mkEntry v (k_etime r))
              | None => None
              end
  | None => None
  end.

Definition absF (now : Z) (av : keyrow -> option aval) (r : keyrow) : list (bytes * entry) :=
  if live now r then
    match av r with
    | Some v => [(k_key r, mkEntry v (k_etime r))]
    | None => []
    end
  else [].

Lemma abs_eq now d : abs now d = flat_map (absF now (abs_val d)) (rkey d).
Proof. reflexivity. Qed.

Lemma absF_names now av ks k :
  In k (map fst (flat_map (absF now av) ks)) -> In k (map k_key ks).
Proof.
  induction ks as [|r ks IH]; [auto|].
  cbn [flat_map map]. rewrite map_app, in_app_iff. intros [H | H]; [left | right; auto].
  unfold absF in H. destruct (live now r); [| destruct H]. destruct (av r); [| destruct H].
  destruct H as [H | []]. exact H.
Qed.

Lemma absF_NoDup now av ks :
  NoDup (map k_key ks) -> NoDup (map fst (flat_map (absF now av) ks)).
Proof.
  induction ks as [|r ks IH]; [constructor|].
  cbn [flat_map map]. intros ND. inversion ND as [|? ? Hn Hr]; subst.
  unfold absF at 1. destruct (live now r); [| apply IH; exact Hr].
  destruct (av r); [| apply IH; exact Hr].
  cbn. constructor; [| apply IH; exact Hr]. intros Hin. apply Hn. eapply absF_names; exact Hin.
Qed.

Lemma abs_NoDup now d : NoDup (map k_key (rkey d)) -> NoDup (map fst (abs now d)).
Proof. apply absF_NoDup. Qed.

Lemma sget_abs now d k :
  NoDup (map k_key (rkey d)) -> sget (abs now d) k = view now d k.
Proof.
  rewrite abs_eq. unfold view, live_any, find_key. generalize (abs_val d) as av. intros av.
  generalize (rkey d) as ks. induction ks as [|r ks IH]; [reflexivity|].
  intros ND. inversion ND as [|? ? Hn Hr]; subst.
  cbn [flat_map find]. rewrite sget_app. destruct (String.eqb_spec (k_key r) k).
  - subst. unfold absF at 1. destruct (live now r).
    + destruct (av r).
      * rewrite sget_cons, String.eqb_refl. reflexivity.
      * rewrite sget_nil. apply sget_notin. intros Hin. apply Hn. eapply absF_names; exact Hin.
    + rewrite sget_nil. apply sget_notin. intros Hin. apply Hn. eapply absF_names; exact Hin.
  - assert (E : sget (absF now av r) k = None).
    { unfold absF. destruct (live now r); [| reflexivity]. destruct (av r); [| reflexivity].
      rewrite sget_cons, sget_nil. destruct (String.eqb_spec (k_key r) k); [contradiction | reflexivity]. }
    rewrite E. apply IH. exact Hr.
Qed.

(* rows and names *)
Lemma find_key_in d r :
  NoDup (map k_key (rkey d)) -> In r (rkey d) -> find_key d (k_key r) = Some r.
Proof.
  unfold find_key. generalize (rkey d) as ks. induction ks as [|x ks IH]; [intros _ []|].
  cbn [map find]. intros ND [E | H]; inversion ND as [|? ? Hn Hr]; subst.
  - rewrite String.eqb_refl. reflexivity.
  - destruct (String.eqb_spec (k_key x) (k_key r)) as [E|E]; [| auto].
    exfalso. apply Hn. rewrite E. apply in_map. exact H.
Qed.

Lemma find_key_notin d k :
  (forall r, In r (rkey d) -> k_key r <> k) -> find_key d k = None.
Proof.
  intros H. unfold find_key. destruct (find _ (rkey d)) as [r|] eqn:F; [| reflexivity].
  apply find_some in F as [Hr E]. apply String.eqb_eq in E. exfalso. exact (H r Hr E).
Qed.

Lemma view_row now d r :
  NoDup (map k_key (rkey d)) -> In r (rkey d) ->
  view now d (k_key r) =
  if live now r then match abs_val d r with Some v => Some (mkEntry v (k_etime r)) | None => None end
  else None.
Proof. intros ND Hr. unfold view, live_any. rewrite find_key_in by assumption. destruct (live now r); reflexivity. Qed.

Lemma view_norow now d k :
  (forall r, In r (rkey d) -> k_key r <> k) -> view now d k = None.
Proof. intros H. unfold view, live_any. rewrite find_key_notin by exact H. reflexivity. Qed.

Lemma purged_view now d k : purged now (view now d k) = view now d k.
Proof.
  unfold view, live_any. destruct (find_key d k) as [r|]; [| reflexivity].
  destruct (live now r) eqn:L; [| reflexivity]. destruct (abs_val d r); [| reflexivity].
  cbn. rewrite <- live_lv, L. reflexivity.
Qed.

Lemma purged_view_some now d k e : view now d k = Some e -> purged now (Some e) = Some e.
Proof. intros V. rewrite <- V. apply purged_view. Qed.

(* the rows that belong to one id *)
Definition same_rows (d d' : db) (id : Z) : Prop :=
  find_sval d' id = find_sval d id /\
  filter (fun x => l_kid x =? id) (rlist d') = filter (fun x => l_kid x =? id) (rlist d) /\
  filter (fun x => e_kid x =? id) (rset d') = filter (fun x => e_kid x =? id) (rset d) /\
  filter (fun x => h_kid x =? id) (rhash d') = filter (fun x => h_kid x =? id) (rhash d) /\
  filter (fun x => z_kid x =? id) (rzset d') = filter (fun x => z_kid x =? id) (rzset d).

Lemma abs_val_same d d' r r' :
  k_id r' = k_id r -> k_type r' = k_type r -> same_rows d d' (k_id r) ->
  abs_val d' r' = abs_val d r.
Proof.
  intros E1 E2 [S1 [S2 [S3 [S4 S5]]]]. unfold abs_val. rewrite E1, E2, S1, S2, S3, S4, S5. reflexivity.
Qed.

Lemma same_rows_refl d id : same_rows d d id.
Proof. repeat split. Qed.

Lemma abs_val_type d r v : abs_val d r = Some v -> atype v = k_type r.
Proof.
  unfold abs_val. destruct (k_type r) as [|p|p]; [discriminate | | discriminate].
  destruct p as [[[?|?|]|[?|?|]|]|[[?|?|]|[?|?|]|]|]; try discriminate;
    try (intros E; injection E as <-; reflexivity).
  destruct (find_sval d (k_id r)); [| discriminate]. intros E; injection E as <-; reflexivity.
Qed.

Lemma abs_val_str d r v :
  abs_val d r = Some (AVStr v) -> k_type r = 1 /\ find_sval d (k_id r) = Some v.
Proof.
  intros H. pose proof (abs_val_type _ _ _ H) as T. cbn in T. split; [auto|].
  unfold abs_val in H. rewrite <- T in H. destruct (find_sval d (k_id r)); [| discriminate].
  injection H as ->. reflexivity.
Qed.

Lemma abs_val_str1 d r :
  k_type r = 1 ->
  abs_val d r = match find_sval d (k_id r) with Some v => Some (AVStr v) | None => None end.
Proof. intros T. unfold abs_val. rewrite T. reflexivity. Qed.

Lemma abs_val_typed d r :
  InvH None d -> In r (rkey d) -> exists v, abs_val d r = Some v /\ atype v = k_type r.
Proof.
  intros I Hr. pose proof (i_a _ _ I) as A.
  destruct (a_range _ _ _ A r Hr) as [_ Ht].
  assert (C : k_type r = 1 \/ k_type r = 2 \/ k_type r = 3 \/ k_type r = 4 \/ k_type r = 5) by lia.
  destruct C as [E | [E | [E | [E | E]]]].
  - pose proof (LenH_None _ _ (a_len _ _ _ A r Hr)) as [[_ L] | [L _]]; [| congruence].
    change (kidsOf d 1) with (map s_kid (rstring d)) in L. rewrite <- cntz_map in L.
    rewrite abs_val_str1 by exact E. unfold find_sval.
    destruct (find (fun x => s_kid x =? k_id r) (rstring d)) as [x|] eqn:F.
    + eexists. split; [reflexivity | cbn; congruence].
    + exfalso. rewrite (filter_none (fun x => s_kid x =? k_id r) (rstring d)) in L.
      * discriminate L.
      * intros x Hx. exact (find_none _ _ F x Hx).
  - unfold abs_val. rewrite E. eexists. split; [reflexivity | reflexivity].
  - unfold abs_val. rewrite E. eexists. split; [reflexivity | reflexivity].
  - unfold abs_val. rewrite E. eexists. split; [reflexivity | reflexivity].
  - unfold abs_val. rewrite E. eexists. split; [reflexivity | reflexivity].
Qed.

Lemma InvH_names h d : InvH h d -> NoDup (map k_key (rkey d)).
Proof. intros I. exact (a_names _ _ _ (i_a _ _ I)). Qed.
Lemma InvH_ids h d : InvH h d -> NoDup (map k_id (rkey d)).
Proof. intros I. exact (a_ids _ _ _ (i_a _ _ I)). Qed.

Lemma row_same_id h d a b : InvH h d -> In a (rkey d) -> In b (rkey d) -> k_id a = k_id b -> a = b.
Proof. intros I. eapply same_id. exact (i_a _ _ I). Qed.
Lemma row_same_key h d a b : InvH h d -> In a (rkey d) -> In b (rkey d) -> k_key a = k_key b -> a = b.
Proof. intros I. eapply same_key. exact (i_a _ _ I). Qed.

(* view through the invariant *)
Lemma view_live now d k r :
  InvH None d -> live_any now d k = Some r ->
  exists v, abs_val d r = Some v /\ atype v = k_type r /\ view now d k = Some (mkEntry v (k_etime r)).
Proof.
  intros I L. pose proof (live_any_some _ _ _ _ L) as [Hr [Kr Lr]].
  destruct (abs_val_typed d r I Hr) as [v [Ev Tv]]. exists v. split; [auto | split; [auto|]].
  unfold view. rewrite L, Ev. reflexivity.
Qed.

Lemma view_dead now d k : live_any now d k = None -> view now d k = None.
Proof. intros L. unfold view. rewrite L. reflexivity. Qed.

Lemma view_none_live now d k : InvH None d -> view now d k = None -> live_any now d k = None.
Proof.
  intros I V. destruct (live_any now d k) as [r|] eqn:L; [| reflexivity].
  destruct (view_live _ _ _ _ I L) as [v [_ [_ E]]]. congruence.
Qed.

(* ================================================================== *)
(* Part 3: the relation R                                             *)
(* ================================================================== *)

Lemma R_view now d s :
  NoDup (map k_key (rkey d)) ->
  (R now d s <-> NoDup (map fst s) /\ forall k, purged now (sget s k) = view now d k).
Proof.
  intros ND. unfold R. split; intros [N H]; (split; [exact N|]); intros k.
  - rewrite <- sget_spurge by exact N. rewrite H. apply sget_abs. exact ND.
  - rewrite sget_spurge by exact N. rewrite H. symmetry. apply sget_abs. exact ND.
Qed.

Theorem R_mono_names : forall now now' d s,
  NoDup (map k_key (rkey d)) -> now <= now' -> R now d s -> R now' d s.
Proof.
  intros now now' d s ND Hle HR. apply R_view in HR; [| exact ND]. apply R_view; [exact ND|].
  destruct HR as [N H]. split; [exact N|]. intros k. specialize (H k).
  unfold view, live_any in *.
  assert (M : forall x, lv now' x = true -> lv now x = true) by (intros x; apply lv_mono; exact Hle).
  destruct (find_key d k) as [r|].
  - change (live now r) with (lv now (k_etime r)) in H.
    change (live now' r) with (lv now' (k_etime r)).
    destruct (lv now' (k_etime r)) eqn:L2.
    + rewrite (M _ L2) in H. destruct (abs_val d r) as [v|] eqn:AV.
      * destruct (sget s k) as [e|]; cbn [purged] in *; [| discriminate].
        destruct (lv now (en_exp e)); [| discriminate]. injection H as H. subst e.
        cbn [en_exp]. rewrite L2. reflexivity.
      * destruct (sget s k) as [e|]; cbn [purged] in *; [| reflexivity].
        destruct (lv now' (en_exp e)) eqn:L'; [| reflexivity].
        rewrite (M _ L') in H. discriminate.
    + destruct (sget s k) as [e|]; cbn [purged] in *; [| reflexivity].
      destruct (lv now' (en_exp e)) eqn:L'; [| reflexivity]. rewrite (M _ L') in H.
      destruct (lv now (k_etime r)); [| discriminate].
      destruct (abs_val d r) as [v|]; [| discriminate]. injection H as H. subst e.
      cbn in L'. congruence.
  - destruct (sget s k) as [e|]; cbn [purged] in *; [| reflexivity].
    destruct (lv now' (en_exp e)) eqn:L'; [| reflexivity].
    rewrite (M _ L') in H. discriminate.
Qed.

Lemma Inv_names d : Inv d -> NoDup (map k_key (rkey d)).
Proof. intros I. apply Inv_iff in I. eapply InvH_names; exact I. Qed.

(* R_mono as stated (without any hypothesis on d) is false: see R_mono_counterexample *)
Theorem R_mono_partial : forall now now' d s, Inv d -> now <= now' -> R now d s -> R now' d s.
Proof. intros now now' d s I. apply R_mono_names. apply Inv_names. exact I. Qed.

Definition cex_d : db :=
  mkDb [mkKey 1 "k" 2 1 (Some 5) 0 (Some 0); mkKey 2 "k" 2 1 None 0 (Some 0)] [] [] [] [] [] true.
Definition cex_s : sstate := [("k", mkEntry (AVList []) (Some 5))].

Theorem R_mono_counterexample :
  ~ (forall now now' d s, now <= now' -> R now d s -> R now' d s).
Proof.
  intros H. assert (R0 : R 0 cex_d cex_s).
  { split; [repeat constructor; intros []|]. intros k.
    change (spurge 0 cex_s) with cex_s.
    change (abs 0 cex_d) with [("k", mkEntry (AVList []) (Some 5)); ("k", mkEntry (AVList []) None)].
    unfold cex_s. rewrite !sget_cons. destruct (String.eqb "k" k); reflexivity. }
  apply (H 0 10) in R0; [| lia]. destruct R0 as [_ R0]. specialize (R0 "k"). discriminate R0.
Qed.

Theorem R_empty : forall now, R now empty_db [].
Proof. intros now. split; [constructor | intros k; reflexivity]. Qed.

Lemma R_spurge now d s : R now d s -> R now d (spurge now s).
Proof.
  intros [N H]. split; [apply NoDup_spurge; exact N|]. intros k. rewrite <- H.
  rewrite !sget_spurge by (try apply NoDup_spurge; exact N). apply purged_idem.
Qed.

(* what R gives about the purged abstract state *)
Lemma R_facts now d s :
  InvH None d -> R now d s ->
  NoDup (map fst (spurge now s)) /\
  (forall k, sget (spurge now s) k = view now d k) /\
  Permutation (abs now d) (spurge now s).
Proof.
  intros I [N H]. pose proof (InvH_names _ _ I) as ND.
  split; [apply NoDup_spurge; exact N|]. split.
  - intros k. rewrite H. apply sget_abs. exact ND.
  - apply lookup_perm; [apply abs_NoDup; exact ND | apply NoDup_spurge; exact N |].
    intros k. symmetry. apply H.
Qed.

Lemma R_intro now d s :
  InvH None d -> NoDup (map fst s) ->
  (forall k, purged now (sget s k) = view now d k) -> R now d s.
Proof. intros I N H. apply R_view; [eapply InvH_names; exact I | auto]. Qed.

(* ================================================================== *)
(* Part 4: the shape of a step; the reading operations                *)
(* ================================================================== *)

Lemma Permutation_filter' {A} (p : A -> bool) l l' :
  Permutation l l' -> Permutation (filter p l) (filter p l').
Proof.
  induction 1 as [| x l l' _ IH | x y l | l l' l'' _ IH1 _ IH2]; cbn [filter].
  - constructor.
  - destruct (p x); [constructor|]; exact IH.
  - destruct (p x), (p y); try apply Permutation_refl. apply perm_swap.
  - eapply Permutation_trans; eassumption.
Qed.

Lemma zlen_perm {A} (l l' : list A) : Permutation l l' -> zlen l = zlen l'.
Proof. intros P. unfold zlen. rewrite (Permutation_length P). reflexivity. Qed.

Lemma zlen_map {A B} (f : A -> B) l : zlen (map f l) = zlen l.
Proof. unfold zlen. rewrite map_length. reflexivity. Qed.

Lemma filter_map_comm {A B} (f : A -> B) (q : B -> bool) l :
  filter q (map f l) = map f (filter (fun x => q (f x)) l).
Proof.
  induction l as [|x r IH]; [reflexivity|]. cbn [map filter].
  destruct (q (f x)); cbn [map]; rewrite IH; reflexivity.
Qed.

Lemma filter_filter {A} (p q : A -> bool) l :
  filter p (filter q l) = filter (fun x => q x && p x) l.
Proof.
  induction l as [|x r IH]; [reflexivity|]. cbn [filter].
  destruct (q x); cbn [filter andb]; [destruct (p x)|]; rewrite IH; reflexivity.
Qed.

Lemma filter_absorb {A} (p q : A -> bool) l :
  (forall x, q x = true -> p x = true) -> filter q (filter p l) = filter q l.
Proof.
  intros H. rewrite filter_filter. apply filter_ext. intros x.
  destruct (q x) eqn:Q; [rewrite (H x Q); reflexivity | apply andb_false_r].
Qed.

Lemma find_absorb {A} (p q : A -> bool) l :
  (forall x, q x = true -> p x = true) -> find q (filter p l) = find q l.
Proof.
  intros H. induction l as [|x r IH]; [reflexivity|]. cbn [filter find].
  destruct (q x) eqn:Q.
  - rewrite (H x Q). cbn [find]. rewrite Q. reflexivity.
  - destruct (p x); cbn [find]; [rewrite Q|]; exact IH.
Qed.

Lemma find_app' {A} (p : A -> bool) a b :
  find p (a ++ b) = match find p a with Some x => Some x | None => find p b end.
Proof.
  induction a as [|x r IH]; [reflexivity|]. cbn [app find]. destruct (p x); [reflexivity | exact IH].
Qed.

(* the state as the list of its live rows *)
Definition the_val (d : db) (r : keyrow) : aval :=
  match abs_val d r with Some v => v | None => AVStr "" end.
Definition rowent (d : db) (r : keyrow) : bytes * entry :=
  (k_key r, mkEntry (the_val d r) (k_etime r)).

Lemma abs_map now d :
  InvH None d -> abs now d = map (rowent d) (filter (live now) (rkey d)).
Proof.
  intros I. rewrite abs_eq.
  assert (H : forall r, In r (rkey d) -> exists v, abs_val d r = Some v).
  { intros r Hr. destruct (abs_val_typed d r I Hr) as [v [E _]]. eauto. }
  revert H. generalize (rkey d) as ks. induction ks as [|r ks IH]; [reflexivity|].
  intros H. cbn [flat_map filter]. rewrite IH by (intros x Hx; apply H; right; exact Hx).
  unfold absF. destruct (live now r); [| reflexivity].
  destruct (H r (or_introl eq_refl)) as [v E]. rewrite E. cbn [map app]. unfold rowent, the_val.
  rewrite E. reflexivity.
Qed.

Lemma the_val_type d r : InvH None d -> In r (rkey d) -> atype (the_val d r) = k_type r.
Proof.
  intros I Hr. destruct (abs_val_typed d r I Hr) as [v [E T]]. unfold the_val. rewrite E. exact T.
Qed.

(* shape of the execution *)
Lemma exec_db_unwrapped now o d :
  wrapped o = false -> exec_db now o d = exec_tx false now o d.
Proof. unfold exec_db. intros ->. destruct (exec_tx false now o d). reflexivity. Qed.

Lemma exec_db_wrapped now o d :
  wrapped o = true ->
  exec_db now o d = (if is_err (snd (exec_tx true now o d)) then d else fst (exec_tx true now o d),
                     snd (exec_tx true now o d)).
Proof.
  unfold exec_db. intros ->. destruct (exec_tx true now o d) as [d' r]. cbn.
  destruct (is_err r); reflexivity.
Qed.

Lemma run_ok {A} (m : M A) f d d' a : m d = (d', Ok a) -> run m f d = (d', out_ok (f a)).
Proof. unfold run. intros ->. reflexivity. Qed.
Lemma run_err {A} (m : M A) (f : A -> rv) d d' e : m d = (d', Err e) -> run m f d = (d', out_err e).
Proof. unfold run. intros ->. reflexivity. Qed.

Definition res_out {A} (f : A -> rv) (r : res A) : out :=
  match r with Ok a => out_ok (f a) | Err e => out_err e end.
Lemma run_eq {A} (m : M A) f d d' r : m d = (d', r) -> run m f d = (d', res_out f r).
Proof. unfold run. intros ->. destruct r; reflexivity. Qed.

Lemma bind_ok {A B} (m : M A) (f : A -> M B) d d1 a : m d = (d1, Ok a) -> bind m f d = f a d1.
Proof. unfold bind. intros ->. reflexivity. Qed.
Lemma bind_err {A B} (m : M A) (f : A -> M B) d d1 e : m d = (d1, Err e) -> bind m f d = (d1, Err e).
Proof. unfold bind. intros ->. reflexivity. Qed.

Lemma step_intro now o d s d' r s' r' :
  exec_db now o d = (d', r) -> spec_step now o s = (s', r') ->
  out_equiv o r r' -> R now d' s' -> step_refines now o d s.
Proof. unfold step_refines. intros -> -> H1 H2. auto. Qed.

Lemma out_equiv_refl o r : proj_result o (o_val r) = o_val r -> out_equiv o r r.
Proof. intros E. split; [reflexivity | rewrite E; apply rve_refl]. Qed.

(* ---- string reads ---- *)

Lemma str_get_view now d k :
  str_get now k d =
  (d, match view now d k with
      | Some (mkEntry (AVStr v) _) => Ok v
      | _ => Err ENotFound
      end).
Proof.
  unfold str_get, view, live_key, live_any. destruct (find_key d k) as [r|]; [| reflexivity].
  destruct (live now r); [| rewrite andb_false_r; reflexivity]. rewrite andb_true_r.
  unfold T_STRING. destruct (Z.eqb_spec (k_type r) 1) as [T|T].
  - rewrite abs_val_str1 by exact T. destruct (find_sval d (k_id r)); reflexivity.
  - destruct (abs_val d r) as [v|] eqn:AV; [| reflexivity]. destruct v; try reflexivity.
    apply abs_val_str in AV. tauto.
Qed.

Lemma spec_str_view s k :
  spec_str s k = match sget s k with Some (mkEntry (AVStr v) _) => Some v | _ => None end.
Proof. reflexivity. Qed.

Section Steps.
Variable now : Z.
Variable d : db.
Variable s : sstate.
Hypothesis I : InvH None d.
Hypothesis HR : R now d s.

Let s1 := spurge now s.
Lemma N1 : NoDup (map fst s1).
Proof. exact (proj1 (R_facts _ _ _ I HR)). Qed.
Lemma G1 : forall k, sget s1 k = view now d k.
Proof. exact (proj1 (proj2 (R_facts _ _ _ I HR))). Qed.
Lemma P1 : Permutation (abs now d) s1.
Proof. exact (proj2 (proj2 (R_facts _ _ _ I HR))). Qed.
Lemma R1 : R now d s1.
Proof. apply R_spurge. exact HR. Qed.

Lemma step_SGet k : step_refines now (SGet k) d s.
Proof.
  eapply step_intro.
  - rewrite exec_db_unwrapped by reflexivity. cbn [exec_tx].
    apply run_eq. apply str_get_view.
  - cbn [spec_step]. fold s1. rewrite spec_str_view, G1.
    instantiate (1 := res_out VS (match view now d k with
      | Some (mkEntry (AVStr v) _) => Ok v | _ => Err ENotFound end)).
    instantiate (1 := s1).
    destruct (view now d k) as [[[v| | | |] x]|]; reflexivity.
  - apply out_equiv_refl. destruct (view now d k) as [[[v| | | |] x]|]; reflexivity.
  - exact R1.
Qed.

Definition sgm_spec (ks : list bytes) (kv : bytes * entry) : list rv :=
  if str_in (fst kv) ks then
    match en_val (snd kv) with
    | AVStr v => [VL [VS (fst kv); VS v]]
    | _ => []
    end
  else [].

Lemma step_SGetMany ks : step_refines now (SGetMany ks) d s.
Proof.
  eapply step_intro.
  - rewrite exec_db_unwrapped by reflexivity. cbn [exec_tx]. reflexivity.
  - cbn [spec_step]. fold s1. reflexivity.
  - split; [reflexivity|]. cbn [proj_result o_val out_ok].
    apply rve_perm. fold (sgm_spec ks).
    eapply Permutation_trans; [| apply Permutation_flat_map; exact P1].
    rewrite abs_eq. generalize (rkey d) as rows. intros rows.
    match goal with |- Permutation ?a ?b => assert (E : a = b); [| rewrite E; apply Permutation_refl] end.
    induction rows as [|r rows IH]; [reflexivity|].
    cbn [flat_map]. rewrite map_app, flat_map_app, IH. f_equal.
    unfold absF, sgm_spec. destruct (live now r); [| rewrite !andb_false_r; reflexivity].
    rewrite andb_true_r. unfold T_STRING. destruct (Z.eqb_spec (k_type r) 1) as [T|T].
    + rewrite andb_true_r, abs_val_str1 by exact T.
      destruct (find_sval d (k_id r)); cbn; destruct (str_in (k_key r) ks); reflexivity.
    + rewrite andb_false_r. destruct (abs_val d r) as [v|] eqn:AV; [| reflexivity].
      cbn. destruct (str_in (k_key r) ks); [| reflexivity].
      destruct v; try reflexivity. apply abs_val_str in AV. tauto.
  - exact R1.
Qed.

(* ---- key reads ---- *)

Lemma count_abs (q : bytes -> bool) :
  zlen (filter (fun kv : bytes * entry => q (fst kv)) s1) =
  zlen (filter (fun r => q (k_key r) && live now r) (rkey d)).
Proof.
  rewrite <- (zlen_perm _ _ (Permutation_filter' _ _ _ P1)).
  rewrite abs_map by exact I. rewrite filter_map_comm, zlen_map, filter_filter.
  f_equal. apply filter_ext. intros r. cbn. apply andb_comm.
Qed.

Lemma VI_equiv a b : a = b -> rv_equiv (VI a) (VI b).
Proof. intros ->. apply rve_refl. Qed.

Lemma step_KCount keys : step_refines now (KCount keys) d s.
Proof.
  eapply step_intro.
  - rewrite exec_db_unwrapped by reflexivity. cbn [exec_tx]. reflexivity.
  - cbn [spec_step]. fold s1. reflexivity.
  - split; [reflexivity|]. cbn [proj_result o_val out_ok].
    pose proof (count_abs (fun k => str_in k keys)) as C. cbv beta in C.
    apply VI_equiv. symmetry. exact C.
  - exact R1.
Qed.

Lemma count_one_name k :
  zlen (filter (fun r => str_in (k_key r) [k] && live now r) (rkey d)) =
  match live_any now d k with Some _ => 1 | None => 0 end.
Proof.
  pose proof (count_abs (fun k' => str_in k' [k])) as C. cbv beta in C. rewrite <- C. clear C.
  destruct (live_any now d k) as [r|] eqn:L.
  - destruct (view_live _ _ _ _ I L) as [v [_ [_ V]]]. rewrite <- G1 in V.
    apply sget_in in V.
    assert (P : Permutation (filter (fun kv : bytes * entry => str_in (fst kv) [k]) s1)
                            [(k, mkEntry v (k_etime r))]).
    { apply NoDup_Permutation.
      - apply NoDup_filter. eapply NoDup_map_inv. exact N1.
      - constructor; [intros [] | constructor].
      - intros [k' e']. rewrite filter_In. cbn [fst str_in existsb In]. rewrite orb_false_r. split.
        + intros [Hin E]. apply String.eqb_eq in E. subst k'. left.
          f_equal. apply in_sget in Hin; [| exact N1]. apply in_sget in V; [| exact N1]. congruence.
        + intros [E | []]. injection E as <- <-. split; [exact V | apply String.eqb_refl]. }
    rewrite (zlen_perm _ _ P). reflexivity.
  - pose proof (view_dead _ _ _ L) as V. rewrite <- G1 in V.
    rewrite (filter_none (fun kv : bytes * entry => str_in (fst kv) [k]) s1); [reflexivity|].
    intros [k' e'] Hin. cbn [fst str_in existsb]. rewrite orb_false_r.
    destruct (String.eqb_spec k' k); [| reflexivity]. subst k'.
    apply in_sget in Hin; [| exact N1]. congruence.
Qed.

Lemma key_exists_view k :
  key_exists now k d = (d, Ok (match view now d k with Some _ => true | None => false end)).
Proof.
  unfold key_exists, bind, key_count, lift_read, ret, count_keys, key_in.
  rewrite count_one_name. destruct (live_any now d k) as [r|] eqn:L.
  - destruct (view_live _ _ _ _ I L) as [v [_ [_ V]]]. rewrite V. reflexivity.
  - rewrite (view_dead _ _ _ L). reflexivity.
Qed.

Lemma step_KExists k : step_refines now (KExists k) d s.
Proof.
  eapply step_intro.
  - rewrite exec_db_unwrapped by reflexivity. cbn [exec_tx]. apply run_eq. apply key_exists_view.
  - cbn [spec_step]. fold s1. rewrite G1. reflexivity.
  - apply out_equiv_refl. reflexivity.
  - exact R1.
Qed.

Lemma key_get_eq k :
  key_get now k d = (d, match live_any now d k with Some r => Ok r | None => Err ENotFound end).
Proof. unfold key_get. destruct (live_any now d k); reflexivity. Qed.

Lemma step_KGet k : step_refines now (KGet k) d s.
Proof.
  destruct (live_any now d k) as [r|] eqn:L.
  - destruct (view_live _ _ _ _ I L) as [v [_ [T V]]].
    destruct (live_any_some _ _ _ _ L) as [_ [K _]].
    eapply step_intro.
    + rewrite exec_db_unwrapped by reflexivity. cbn [exec_tx]. apply run_eq. apply key_get_eq.
    + cbn [spec_step]. fold s1. rewrite G1, V. reflexivity.
    + rewrite L. split; [reflexivity|]. cbn. unfold key_info. cbn [en_val en_exp]. rewrite T, K. apply rve_refl.
    + exact R1.
  - eapply step_intro.
    + rewrite exec_db_unwrapped by reflexivity. cbn [exec_tx]. apply run_eq. apply key_get_eq.
    + cbn [spec_step]. fold s1. rewrite G1, (view_dead _ _ _ L). reflexivity.
    + rewrite L. apply out_equiv_refl. reflexivity.
    + exact R1.
Qed.

Lemma step_KKeys p : step_refines now (KKeys p) d s.
Proof.
  eapply step_intro.
  - rewrite exec_db_unwrapped by reflexivity. cbn [exec_tx]. reflexivity.
  - cbn [spec_step]. fold s1. reflexivity.
  - split; [reflexivity|]. cbn [proj_result o_val out_ok]. apply rve_perm.
    eapply Permutation_trans;
      [| apply Permutation_map; apply (Permutation_filter' (fun kv : bytes * entry => glob p (fst kv))); exact P1].
    rewrite abs_map by exact I. rewrite filter_map_comm, filter_filter, !map_map.
    match goal with |- Permutation ?a ?b => assert (E : a = b); [| rewrite E; apply Permutation_refl] end.
    erewrite filter_ext; [apply map_ext_in |].
    + intros r Hr. apply filter_In in Hr as [Hr _]. cbn. unfold key_info. cbn [en_val en_exp].
      rewrite (the_val_type d r I Hr). reflexivity.
    + intros r. cbn. apply andb_comm.
  - exact R1.
Qed.

End Steps.

(* ================================================================== *)
(* Part 5: what the writing primitives do to the view                 *)
(* ================================================================== *)

Lemma find_key_cases d k :
  (exists r, In r (rkey d) /\ k_key r = k /\ find_key d k = Some r) \/
  ((forall r, In r (rkey d) -> k_key r <> k) /\ find_key d k = None).
Proof.
  destruct (find_key d k) as [r|] eqn:F.
  - left. exists r. apply find_key_some in F. tauto.
  - right. split; [| reflexivity]. intros r Hr E. apply find_key_none in F. apply F.
    rewrite <- E. apply in_map. exact Hr.
Qed.

Lemma view_row' now d r k :
  NoDup (map k_key (rkey d)) -> In r (rkey d) -> k_key r = k ->
  view now d k =
  if live now r then match abs_val d r with Some v => Some (mkEntry v (k_etime r)) | None => None end
  else None.
Proof. intros ND Hr <-. apply view_row; assumption. Qed.

Lemma same_rows_trans d1 d2 d3 id : same_rows d1 d2 id -> same_rows d2 d3 id -> same_rows d1 d3 id.
Proof.
  intros [A1 [A2 [A3 [A4 A5]]]] [B1 [B2 [B3 [B4 B5]]]].
  repeat split; etransitivity; eassumption.
Qed.

(* everything not named [key] is untouched *)
Definition frame (key : bytes) (d d' : db) : Prop :=
  (forall r, In r (rkey d) -> k_key r <> key -> In r (rkey d') /\ same_rows d d' (k_id r)) /\
  (forall r, In r (rkey d') -> k_key r <> key -> In r (rkey d)).

Lemma frame_refl key d : frame key d d.
Proof. split; [intros r Hr _; split; [exact Hr | apply same_rows_refl] | auto]. Qed.

Lemma frame_trans key d1 d2 d3 : frame key d1 d2 -> frame key d2 d3 -> frame key d1 d3.
Proof.
  intros [A1 A2] [B1 B2]. split.
  - intros r Hr Hk. destruct (A1 r Hr Hk) as [H1 S1]. destruct (B1 r H1 Hk) as [H2 S2].
    split; [exact H2 | eapply same_rows_trans; eassumption].
  - intros r Hr Hk. auto.
Qed.

Lemma view_frame now key d d' k :
  NoDup (map k_key (rkey d)) -> NoDup (map k_key (rkey d')) -> frame key d d' -> k <> key ->
  view now d' k = view now d k.
Proof.
  intros N N' [F1 F2] Hk. destruct (find_key_cases d k) as [[r [Hr [Kr _]]] | [Hno _]].
  - assert (Kr' : k_key r <> key) by congruence. destruct (F1 r Hr Kr') as [Hr' S].
    rewrite (view_row' now d r k N Hr Kr), (view_row' now d' r k N' Hr' Kr).
    rewrite (abs_val_same d d' r r eq_refl eq_refl S). reflexivity.
  - rewrite (view_norow now d k Hno). apply view_norow. intros r Hr E.
    apply (Hno r); [| exact E]. apply F2; [exact Hr | congruence].
Qed.

(* the row named [key] after a change, everything else framed *)
Lemma view_after now key d d' :
  NoDup (map k_key (rkey d)) -> NoDup (map k_key (rkey d')) -> frame key d d' ->
  forall X,
  view now d' key = X ->
  forall k, view now d' k = if String.eqb key k then X else view now d k.
Proof.
  intros N N' F X HX k. destruct (String.eqb_spec key k) as [<- | NE]; [exact HX|].
  eapply view_frame; eauto.
Qed.

(* ---- tables filtered by owner id ---- *)

Lemma same_rows_filtered d d' (keep : Z -> bool) id :
  keep id = true ->
  rstring d' = filter (fun x => keep (s_kid x)) (rstring d) ->
  rlist d' = filter (fun x => keep (l_kid x)) (rlist d) ->
  rset d' = filter (fun x => keep (e_kid x)) (rset d) ->
  rhash d' = filter (fun x => keep (h_kid x)) (rhash d) ->
  rzset d' = filter (fun x => keep (z_kid x)) (rzset d) ->
  same_rows d d' id.
Proof.
  intros K E1 E2 E3 E4 E5. unfold same_rows, find_sval. rewrite E1, E2, E3, E4, E5.
  repeat split.
  - rewrite find_absorb; [reflexivity|]. intros x Hx. apply Z.eqb_eq in Hx. rewrite Hx. exact K.
  - apply filter_absorb. intros x Hx. apply Z.eqb_eq in Hx. rewrite Hx. exact K.
  - apply filter_absorb. intros x Hx. apply Z.eqb_eq in Hx. rewrite Hx. exact K.
  - apply filter_absorb. intros x Hx. apply Z.eqb_eq in Hx. rewrite Hx. exact K.
  - apply filter_absorb. intros x Hx. apply Z.eqb_eq in Hx. rewrite Hx. exact K.
Qed.

Lemma same_rows_delete p d r :
  InvH None d -> In r (rkey d) -> p r = false ->
  same_rows d (fst (delete_keys p d)) (k_id r).
Proof.
  intros I Hr Hp. pose proof (i_fk _ _ I) as FK.
  apply same_rows_filtered with (keep := fun k => negb (zmem k (map k_id (filter p (rkey d)))));
    try (unfold delete_keys; rewrite FK; reflexivity).
  apply negb_true_iff, zmem_false. intros Hin. apply in_map_iff in Hin as [r' [E Hr']].
  apply filter_In in Hr' as [Hr' Hp']. assert (r' = r) by (apply (row_same_id _ d r' r I Hr' Hr); exact E). congruence.
Qed.

(* ---- delete ---- *)

Lemma view_delete now p d k :
  InvH None d ->
  view now (fst (delete_keys p d)) k =
  match find_key d k with
  | Some r => if p r then None else view now d k
  | None => None
  end.
Proof.
  intros I. pose proof (InvH_delete p d I) as I'.
  pose proof (InvH_names _ _ I) as N. pose proof (InvH_names _ _ I') as N'.
  assert (Hsub : forall r, In r (rkey (fst (delete_keys p d))) -> In r (rkey d) /\ p r = false).
  { intros r. rewrite rkey_delete, filter_In, negb_true_iff. tauto. }
  destruct (find_key_cases d k) as [[r [Hr [Kr F]]] | [Hno F]]; rewrite F.
  - destruct (p r) eqn:Hp.
    + apply view_norow. intros r' Hr' E. apply Hsub in Hr' as [Hr' Hp'].
      assert (r' = r) by (apply (row_same_key _ d r' r I Hr' Hr); congruence). congruence.
    + assert (Hr' : In r (rkey (fst (delete_keys p d)))).
      { rewrite rkey_delete, filter_In, Hp. auto. }
      rewrite (view_row' now d r k N Hr Kr), (view_row' now _ r k N' Hr' Kr).
      rewrite (abs_val_same d _ r r eq_refl eq_refl (same_rows_delete p d r I Hr Hp)). reflexivity.
  - apply view_norow. intros r Hr. apply Hsub in Hr as [Hr _]. auto.
Qed.

(* ---- expire / persist ---- *)

Lemma view_upd_etime now key x d k :
  InvH None d ->
  view now (upd_keys (fun r => String.eqb (k_key r) key && live now r)
                     (fun r => with_etime (with_ver r (k_ver r + 1)) x) d) k =
  if String.eqb key k
  then match view now d key with Some e => ent now (en_val e) x | None => None end
  else view now d k.
Proof.
  intros I.
  set (p := fun r => String.eqb (k_key r) key && live now r).
  set (f := fun r => with_etime (with_ver r (k_ver r + 1)) x).
  assert (I' : InvH None (upd_keys p f d)).
  { apply InvH_upd_keys; [exact I|]. intros r _ _. apply keeps_expire. }
  pose proof (InvH_names _ _ I) as N. pose proof (InvH_names _ _ I') as N'.
  set (g := fun r => if p r then f r else r).
  assert (RK : rkey (upd_keys p f d) = map g (rkey d)) by reflexivity.
  assert (Gk : forall r, k_key (g r) = k_key r /\ k_id (g r) = k_id r /\ k_type (g r) = k_type r).
  { intros r. unfold g. destruct (p r); cbn; auto. }
  assert (AV : forall r, abs_val (upd_keys p f d) (g r) = abs_val d r).
  { intros r. apply abs_val_same; [apply Gk | apply Gk | repeat split]. }
  destruct (find_key_cases d k) as [[r [Hr [Kr F]]] | [Hno F]].
  - assert (Hr' : In (g r) (rkey (upd_keys p f d))) by (rewrite RK; apply in_map; exact Hr).
    assert (Kr' : k_key (g r) = k) by (rewrite (proj1 (Gk r)); exact Kr).
    rewrite (view_row' now _ (g r) k N' Hr' Kr'), AV.
    destruct (String.eqb_spec key k) as [<- | NE].
    + rewrite (view_row' now d r key N Hr Kr).
      unfold g, p. rewrite Kr, String.eqb_refl. cbn [andb].
      destruct (live now r) eqn:L; [| rewrite L; reflexivity].
      destruct (abs_val_typed d r I Hr) as [v [Ev _]]. rewrite Ev.
      unfold f, ent. cbn. reflexivity.
    + rewrite (view_row' now d r k N Hr Kr). unfold g, p.
      destruct (String.eqb_spec (k_key r) key); [congruence|]. reflexivity.
  - rewrite (view_norow now d k Hno).
    assert (V : view now (upd_keys p f d) k = None).
    { apply view_norow. intros r' Hr' E. rewrite RK in Hr'. apply in_map_iff in Hr' as [r [<- Hr]].
      rewrite (proj1 (Gk r)) in E. exact (Hno r Hr E). }
    rewrite V. destruct (String.eqb_spec key k) as [<- | NE]; [| reflexivity].
    rewrite (view_norow now d key Hno). reflexivity.
Qed.

Lemma count_live_name now key d :
  InvH None d ->
  (0 <? count_keys (fun r => String.eqb (k_key r) key && live now r) d) =
  match view now d key with Some _ => true | None => false end.
Proof.
  intros I. unfold count_keys. pose proof (InvH_names _ _ I) as N.
  destruct (find_key_cases d key) as [[r [Hr [Kr F]]] | [Hno F]].
  - rewrite (view_row' now d r key N Hr Kr).
    destruct (live now r) eqn:L.
    + destruct (abs_val_typed d r I Hr) as [v [Ev _]]. rewrite Ev.
      assert (Hin : In r (filter (fun r => String.eqb (k_key r) key && live now r) (rkey d))).
      { apply filter_In. rewrite Kr, String.eqb_refl, L. auto. }
      destruct (filter _ (rkey d)); [destruct Hin|]. rewrite zlen_cons.
      pose proof (zlen_nonneg l). lia.
    + rewrite filter_none; [reflexivity|]. intros r' Hr'.
      destruct (String.eqb_spec (k_key r') key) as [E|]; [| reflexivity].
      assert (r' = r) by (apply (row_same_key _ d r' r I Hr' Hr); congruence). subst. rewrite L. reflexivity.
  - rewrite (view_norow now d key Hno). rewrite filter_none; [reflexivity|].
    intros r Hr. destruct (String.eqb_spec (k_key r) key) as [E|]; [| reflexivity].
    exfalso. exact (Hno r Hr E).
Qed.

(* ---- rename ---- *)

Lemma view_rename now key newkey d old :
  InvH None d -> live_any now d key = Some old -> key <> newkey ->
  exists d', sql_rename now key newkey d = (d', Ok tt) /\ InvH None d' /\
    forall k, view now d' k =
      if String.eqb newkey k then view now d key
      else if String.eqb key k then None else view now d k.
Proof.
  intros I L NE. unfold sql_rename. rewrite L.
  set (p := fun r => String.eqb (k_key r) newkey && negb (k_id r =? k_id old)).
  set (f := fun r => with_mtime (with_ver (with_key r newkey) (k_ver r + 1)) now).
  assert (E : delete_keys p d = (fst (delete_keys p d), snd (delete_keys p d)))
    by (destruct (delete_keys p d); reflexivity).
  rewrite E. set (d1 := fst (delete_keys p d)).
  eexists. split; [reflexivity|].
  assert (I' : InvH None (upd_key_id (k_id old) f d1)).
  { apply (pres_sql_rename now key newkey d _ tt I). unfold sql_rename. rewrite L.
    fold p. rewrite E. reflexivity. }
  split; [exact I'|].
  pose proof (InvH_names _ _ I) as N. pose proof (InvH_names _ _ I') as N'.
  destruct (live_any_some _ _ _ _ L) as [Hold [Kold Lold]].
  destruct (view_live _ _ _ _ I L) as [v [Ev [_ Vold]]].
  set (g := fun r => if k_id r =? k_id old then f r else r).
  assert (RK : rkey (upd_key_id (k_id old) f d1) = map g (rkey d1)) by reflexivity.
  assert (R1 : forall r, In r (rkey d1) <-> In r (rkey d) /\ p r = false).
  { intros r. unfold d1. rewrite rkey_delete, filter_In, negb_true_iff. tauto. }
  assert (Pold : p old = false).
  { unfold p. rewrite Z.eqb_refl. apply andb_false_r. }
  assert (SR : forall r, In r (rkey d) -> p r = false ->
               same_rows d (upd_key_id (k_id old) f d1) (k_id r)).
  { intros r Hr Hp. exact (same_rows_delete p d r I Hr Hp). }
  assert (Hin : forall r', In r' (rkey (upd_key_id (k_id old) f d1)) ->
            r' = f old \/ (In r' (rkey d) /\ p r' = false /\ k_id r' <> k_id old)).
  { intros r' Hr'. rewrite RK in Hr'. apply in_map_iff in Hr' as [r [<- Hr]].
    apply R1 in Hr as [Hr Hp]. unfold g. destruct (Z.eqb_spec (k_id r) (k_id old)) as [Eid|Eid].
    - left. f_equal. apply (row_same_id _ d r old I Hr Hold Eid).
    - right. auto. }
  intros k. destruct (String.eqb_spec newkey k) as [<- | NK].
  - assert (Hr' : In (g old) (rkey (upd_key_id (k_id old) f d1))).
    { rewrite RK. apply in_map. apply R1. auto. }
    assert (Gold : g old = f old) by (unfold g; rewrite Z.eqb_refl; reflexivity).
    rewrite Gold in Hr'.
    rewrite (view_row' now _ (f old) newkey N' Hr' eq_refl).
    change (live now (f old)) with (live now old). rewrite Lold.
    rewrite (abs_val_same d _ old (f old) eq_refl eq_refl (SR old Hold Pold)), Ev.
    rewrite Vold. reflexivity.
  - destruct (String.eqb_spec key k) as [<- | KK].
    + apply view_norow. intros r' Hr' Er'. apply Hin in Hr' as [-> | [Hr' [Hp' Hid]]].
      * cbn in Er'. congruence.
      * apply Hid. f_equal. apply (row_same_key _ d r' old I Hr' Hold). congruence.
    + destruct (find_key_cases d k) as [[r [Hr [Kr _]]] | [Hno _]].
      * assert (Hp : p r = false).
        { unfold p. destruct (String.eqb_spec (k_key r) newkey); [congruence | reflexivity]. }
        assert (Hid : k_id r <> k_id old).
        { intros Eid. apply KK. rewrite <- Kold, <- Kr. f_equal. symmetry.
          apply (row_same_id _ d r old I Hr Hold Eid). }
        assert (Hr' : In r (rkey (upd_key_id (k_id old) f d1))).
        { rewrite RK. apply in_map_iff. exists r. split; [| apply R1; auto].
          unfold g. destruct (Z.eqb_spec (k_id r) (k_id old)); [contradiction | reflexivity]. }
        rewrite (view_row' now _ r k N' Hr' Kr), (view_row' now d r k N Hr Kr).
        rewrite (abs_val_same d _ r r eq_refl eq_refl (SR r Hr Hp)). reflexivity.
      * rewrite (view_norow now d k Hno). apply view_norow.
        intros r' Hr' Er'. apply Hin in Hr' as [-> | [Hr' _]].
        -- cbn in Er'. congruence.
        -- exact (Hno r' Hr' Er').
Qed.

(* ================================================================== *)
(* Part 6: the key operations that write                              *)
(* ================================================================== *)

Lemma exec_wrapped_run {A} now o (m : M A) f d d' r :
  wrapped o = true -> exec_tx true now o d = run m f d -> m d = (d', r) ->
  exec_db now o d = (match r with Ok _ => d' | Err _ => d end, res_out f r).
Proof.
  intros W E Hm. rewrite exec_db_wrapped by exact W. rewrite E, (run_eq _ _ _ _ _ Hm).
  destruct r; reflexivity.
Qed.

Lemma exec_unwrapped_run {A} now o (m : M A) f d d' r :
  wrapped o = false -> exec_tx false now o d = run m f d -> m d = (d', r) ->
  exec_db now o d = (d', res_out f r).
Proof.
  intros W E Hm. rewrite exec_db_unwrapped by exact W. rewrite E. apply run_eq. exact Hm.
Qed.

Lemma delete_keys_eq p d :
  delete_keys p d = (fst (delete_keys p d), zlen (filter p (rkey d))).
Proof. unfold delete_keys. cbn [fst]. rewrite zlen_map. reflexivity. Qed.

Section Steps2.
Variable now : Z.
Variable d : db.
Variable s : sstate.
Hypothesis I : InvH None d.
Hypothesis HR : R now d s.

Let s1 := spurge now s.
Let N1' : NoDup (map fst s1) := N1 now d s I HR.
Let G1' : forall k, sget s1 k = view now d k := G1 now d s I HR.
Let R1' : R now d s1 := R1 now d s HR.

Lemma view_key_delete keys k :
  view now (fst (delete_keys (fun r => key_in keys r && live now r) d)) k =
  if str_in k keys then None else view now d k.
Proof.
  rewrite view_delete by exact I. unfold view, live_any.
  destruct (find_key d k) as [r|] eqn:F.
  - apply find_key_some in F as [_ Kr]. unfold key_in. rewrite Kr.
    destruct (str_in k keys); cbn [andb]; [| reflexivity].
    destruct (live now r); reflexivity.
  - destruct (str_in k keys); reflexivity.
Qed.

Lemma step_KDelete keys : step_refines now (KDelete keys) d s.
Proof.
  eapply step_intro.
  - eapply exec_unwrapped_run; [reflexivity | reflexivity |].
    unfold key_delete. rewrite delete_keys_eq. reflexivity.
  - cbn [spec_step]. fold s1. reflexivity.
  - split; [reflexivity|]. cbn [proj_result res_out o_val out_ok].
    pose proof (count_abs now d s I HR (fun k => str_in k keys)) as C. cbv beta in C.
    apply VI_equiv. symmetry. exact C.
  - apply R_intro.
    + apply InvH_delete. exact I.
    + apply NoDup_sfilter. exact N1'.
    + intros k. rewrite sget_filter by exact N1'. rewrite view_key_delete, G1'. cbn [fst].
      destruct (view now d k) as [e|] eqn:V.
      * destruct (str_in k keys); cbn [negb]; [reflexivity|]. rewrite <- V. apply purged_view.
      * destruct (str_in k keys); reflexivity.
Qed.

Lemma step_KDeleteAll : step_refines now KDeleteAll d s.
Proof.
  eapply step_intro.
  - eapply exec_unwrapped_run; [reflexivity | reflexivity |].
    unfold key_delete_all. rewrite delete_keys_eq. reflexivity.
  - cbn [spec_step]. reflexivity.
  - apply out_equiv_refl. reflexivity.
  - apply R_intro.
    + apply InvH_delete. exact I.
    + constructor.
    + intros k. rewrite view_delete by exact I. destruct (find_key d k); reflexivity.
Qed.

Lemma key_expire_eq key x :
  key_expire_at now key x d =
  match view now d key with
  | Some _ => (upd_keys (fun r => String.eqb (k_key r) key && live now r)
                        (fun r => with_etime (with_ver r (k_ver r + 1)) (Some x)) d, Ok tt)
  | None => (d, Err ENotFound)
  end.
Proof.
  unfold key_expire_at. rewrite (count_live_name now key d I).
  destruct (view now d key); reflexivity.
Qed.

Lemma key_persist_eq key :
  key_persist now key d =
  match view now d key with
  | Some _ => (upd_keys (fun r => String.eqb (k_key r) key && live now r)
                        (fun r => with_etime (with_ver r (k_ver r + 1)) None) d, Ok tt)
  | None => (d, Err ENotFound)
  end.
Proof.
  unfold key_persist. rewrite (count_live_name now key d I).
  destruct (view now d key); reflexivity.
Qed.

Lemma R_upd_etime key x e :
  view now d key = Some e ->
  R now (upd_keys (fun r => String.eqb (k_key r) key && live now r)
                  (fun r => with_etime (with_ver r (k_ver r + 1)) x) d)
        (sput key (mkEntry (en_val e) x) s1).
Proof.
  intros V. apply R_intro.
  - apply InvH_upd_keys; [exact I|]. intros r _ _. apply keeps_expire.
  - apply NoDup_sput. exact N1'.
  - intros k. rewrite sget_sput, view_upd_etime by exact I. rewrite V.
    destruct (String.eqb key k); [reflexivity|]. rewrite G1'. apply purged_view.
Qed.

Lemma step_expire_gen o key x :
  wrapped o = false ->
  exec_tx false now o d = run (key_expire_at now key x) unit_rv d ->
  spec_step now o s =
    match sget s1 key with
    | Some e => (sput key (mkEntry (en_val e) (Some x)) s1, out_ok VNone)
    | None => (s1, out_err ENotFound)
    end ->
  (forall r, proj_result o r = r) ->
  step_refines now o d s.
Proof.
  intros W E1 E2 Pj. destruct (view now d key) as [e|] eqn:V.
  - eapply step_intro.
    + eapply exec_unwrapped_run; [exact W | exact E1 |]. rewrite key_expire_eq, V. reflexivity.
    + rewrite E2, G1', V. reflexivity.
    + apply out_equiv_refl. apply Pj.
    + apply R_upd_etime. exact V.
  - eapply step_intro.
    + eapply exec_unwrapped_run; [exact W | exact E1 |]. rewrite key_expire_eq, V. reflexivity.
    + rewrite E2, G1', V. reflexivity.
    + apply out_equiv_refl. apply Pj.
    + exact R1'.
Qed.

Lemma step_KExpire key ttl : step_refines now (KExpire key ttl) d s.
Proof. apply (step_expire_gen _ key (now + ttl)); reflexivity. Qed.

Lemma step_KExpireAt key x : step_refines now (KExpireAt key x) d s.
Proof. apply (step_expire_gen _ key x); reflexivity. Qed.

Lemma step_KPersist key : step_refines now (KPersist key) d s.
Proof.
  destruct (view now d key) as [e|] eqn:V.
  - eapply step_intro.
    + eapply exec_unwrapped_run; [reflexivity | reflexivity |]. rewrite key_persist_eq, V. reflexivity.
    + cbn [spec_step]. fold s1. rewrite G1', V. reflexivity.
    + apply out_equiv_refl. reflexivity.
    + apply R_upd_etime. exact V.
  - eapply step_intro.
    + eapply exec_unwrapped_run; [reflexivity | reflexivity |]. rewrite key_persist_eq, V. reflexivity.
    + cbn [spec_step]. fold s1. rewrite G1', V. reflexivity.
    + apply out_equiv_refl. reflexivity.
    + exact R1'.
Qed.

End Steps2.

Section Steps3.
Variable now : Z.
Variable d : db.
Variable s : sstate.
Hypothesis I : InvH None d.
Hypothesis HR : R now d s.

Let s1 := spurge now s.
Let N1' : NoDup (map fst s1) := N1 now d s I HR.
Let G1' : forall k, sget s1 k = view now d k := G1 now d s I HR.
Let R1' : R now d s1 := R1 now d s HR.

Lemma struct_exists_row old : In old (rkey d) -> negb (key_struct_exists old) = false.
Proof.
  intros H. destruct (a_range _ _ _ (i_a _ _ I) old H) as [Hid _].
  unfold key_struct_exists. destruct (Z.eqb_spec (k_id old) 0); [lia | reflexivity].
Qed.

Lemma key_rename_eq key nk :
  key_rename now key nk d =
  match live_any now d key with
  | None => (d, Err ENotFound)
  | Some old =>
      if String.eqb key nk then (d, Ok tt) else
      match live_any now d nk with
      | Some newk => if k_type old =? k_type newk then sql_rename now key nk d else (d, Err EKeyType)
      | None => sql_rename now key nk d
      end
  end.
Proof.
  unfold key_rename. destruct (live_any now d key) as [old|] eqn:L.
  - erewrite bind_ok; [| rewrite key_get_eq, L; reflexivity].
    rewrite (struct_exists_row old) by (apply (live_any_some _ _ _ _ L)).
    destruct (String.eqb key nk); [reflexivity|].
    unfold try_. rewrite key_get_eq. destruct (live_any now d nk) as [newk|]; [| reflexivity].
    destruct (k_type old =? k_type newk); reflexivity.
  - erewrite bind_err; [reflexivity|]. rewrite key_get_eq, L. reflexivity.
Qed.

Lemma key_rename_nx_eq key nk :
  key_rename_nx now key nk d =
  match live_any now d key with
  | None => (d, Err ENotFound)
  | Some old =>
      if String.eqb key nk then (d, Ok false) else
      match view now d nk with
      | Some _ => (d, Ok false)
      | None => bind (sql_rename now key nk) (fun _ => ret true) d
      end
  end.
Proof.
  unfold key_rename_nx. destruct (live_any now d key) as [old|] eqn:L.
  - erewrite bind_ok; [| rewrite key_get_eq, L; reflexivity].
    rewrite (struct_exists_row old) by (apply (live_any_some _ _ _ _ L)).
    destruct (String.eqb key nk); [reflexivity|].
    erewrite bind_ok; [| apply (key_exists_view now d s I HR)].
    destruct (view now d nk); reflexivity.
  - erewrite bind_err; [reflexivity|]. rewrite key_get_eq, L. reflexivity.
Qed.

Lemma R_rename key nk d' e :
  InvH None d' -> view now d key = Some e ->
  (forall k, view now d' k =
     if String.eqb nk k then view now d key
     else if String.eqb key k then None else view now d k) ->
  R now d' (sput nk e (sdel nk (sdel key s1))).
Proof.
  intros I' V Hv. apply R_intro; [exact I' | |].
  - apply NoDup_sput, NoDup_sdel, NoDup_sdel. exact N1'.
  - intros k. rewrite sget_sput, !sget_sdel, Hv.
    destruct (String.eqb nk k).
    + rewrite <- V. apply purged_view.
    + destruct (String.eqb key k); [reflexivity|]. rewrite G1'. apply purged_view.
Qed.

Lemma step_KRename key nk : step_refines now (KRename key nk) d s.
Proof.
  destruct (live_any now d key) as [old|] eqn:L.
  2:{ eapply step_intro.
      - eapply exec_wrapped_run; [reflexivity | reflexivity |]. rewrite key_rename_eq, L. reflexivity.
      - cbn [spec_step]. fold s1. unfold spec_rename. rewrite G1', (view_dead _ _ _ L). reflexivity.
      - apply out_equiv_refl. reflexivity.
      - exact R1'. }
  destruct (view_live _ _ _ _ I L) as [v [_ [Tv V]]].
  destruct (String.eqb key nk) eqn:EQ.
  { eapply step_intro.
    - eapply exec_wrapped_run; [reflexivity | reflexivity |]. rewrite key_rename_eq, L, EQ. reflexivity.
    - cbn [spec_step]. fold s1. unfold spec_rename. rewrite G1', V, EQ. reflexivity.
    - apply out_equiv_refl. reflexivity.
    - exact R1'. }
  assert (NE : key <> nk) by (apply String.eqb_neq; exact EQ).
  destruct (view_rename now key nk d old I L NE) as [d' [Ed' [I' Hv]]].
  assert (OT : other_type s1 nk (atype (en_val (mkEntry v (k_etime old)))) =
               match live_any now d nk with
               | Some newk => negb (k_type old =? k_type newk)
               | None => false
               end).
  { unfold other_type. rewrite G1'. cbn [en_val]. destruct (live_any now d nk) as [newk|] eqn:L2.
    - destruct (view_live _ _ _ _ I L2) as [v2 [_ [Tv2 V2]]]. rewrite V2. cbn [en_val].
      rewrite Tv, Tv2, Z.eqb_sym. reflexivity.
    - rewrite (view_dead _ _ _ L2). reflexivity. }
  assert (OKerr : key_rename now key nk d = (d, Err EKeyType) ->
     other_type s1 nk (atype (en_val (mkEntry v (k_etime old)))) = true ->
     step_refines now (KRename key nk) d s).
  { intros E Eb. eapply step_intro.
    - eapply exec_wrapped_run; [reflexivity | reflexivity | exact E].
    - cbn [spec_step]. fold s1. unfold spec_rename. rewrite G1', V, EQ, Eb. reflexivity.
    - apply out_equiv_refl; reflexivity.
    - exact R1'. }
  assert (OKok : key_rename now key nk d = (d', Ok tt) ->
     other_type s1 nk (atype (en_val (mkEntry v (k_etime old)))) = false ->
     step_refines now (KRename key nk) d s).
  { intros E Eb. eapply step_intro.
    - eapply exec_wrapped_run; [reflexivity | reflexivity | exact E].
    - cbn [spec_step]. fold s1. unfold spec_rename. rewrite G1', V, EQ, Eb. reflexivity.
    - apply out_equiv_refl; reflexivity.
    - eapply R_rename; eauto. }
  rewrite OT in OKerr, OKok. rewrite key_rename_eq, L, EQ in OKerr, OKok.
  destruct (live_any now d nk) as [newk|].
  - destruct (k_type old =? k_type newk).
    + apply OKok; [exact Ed' | reflexivity].
    + apply OKerr; reflexivity.
  - apply OKok; [exact Ed' | reflexivity].
Qed.

Lemma step_KRenameNX key nk : step_refines now (KRenameNX key nk) d s.
Proof.
  destruct (live_any now d key) as [old|] eqn:L.
  2:{ eapply step_intro.
      - eapply exec_wrapped_run; [reflexivity | reflexivity |]. rewrite key_rename_nx_eq, L. reflexivity.
      - cbn [spec_step]. fold s1. unfold spec_rename_nx. rewrite G1', (view_dead _ _ _ L). reflexivity.
      - apply out_equiv_refl. reflexivity.
      - exact R1'. }
  destruct (view_live _ _ _ _ I L) as [v [_ [Tv V]]].
  destruct (String.eqb key nk) eqn:EQ.
  { eapply step_intro.
    - eapply exec_wrapped_run; [reflexivity | reflexivity |]. rewrite key_rename_nx_eq, L, EQ. reflexivity.
    - cbn [spec_step]. fold s1. unfold spec_rename_nx. rewrite G1', V, EQ. reflexivity.
    - apply out_equiv_refl. reflexivity.
    - exact R1'. }
  assert (NE : key <> nk) by (apply String.eqb_neq; exact EQ).
  destruct (view_rename now key nk d old I L NE) as [d' [Ed' [I' Hv]]].
  destruct (view now d nk) as [e2|] eqn:V2.
  - eapply step_intro.
    + eapply exec_wrapped_run; [reflexivity | reflexivity |]. rewrite key_rename_nx_eq, L, EQ, V2. reflexivity.
    + cbn [spec_step]. fold s1. unfold spec_rename_nx. rewrite G1', V, EQ, G1', V2. reflexivity.
    + apply out_equiv_refl. reflexivity.
    + exact R1'.
  - eapply step_intro.
    + eapply exec_wrapped_run; [reflexivity | reflexivity |]. rewrite key_rename_nx_eq, L, EQ, V2.
      erewrite bind_ok; [| exact Ed']. reflexivity.
    + cbn [spec_step]. fold s1. unfold spec_rename_nx. rewrite G1', V, EQ, G1', V2. reflexivity.
    + apply out_equiv_refl. reflexivity.
    + apply R_intro; [exact I' | |].
      * apply NoDup_sput, NoDup_sdel. exact N1'.
      * intros k. rewrite sget_sput, sget_sdel, Hv.
        destruct (String.eqb nk k).
        -- rewrite V. apply purged_view_some with (d := d) (k := key). exact V.
        -- destruct (String.eqb key k); [reflexivity|]. rewrite G1'. apply purged_view.
Qed.

End Steps3.

(* ================================================================== *)
(* Part 7: the string write path                                      *)
(* ================================================================== *)

Lemma find_map_other kid vb rs id :
  id <> kid ->
  find (fun r => s_kid r =? id) (map (fun r => if s_kid r =? kid then mkS kid vb else r) rs) =
  find (fun r => s_kid r =? id) rs.
Proof.
  intros NE. induction rs as [|r rs IH]; [reflexivity|]. cbn [map find].
  destruct (Z.eqb_spec (s_kid r) kid) as [E|E].
  - cbn [s_kid]. destruct (Z.eqb_spec kid id); [congruence|].
    destruct (Z.eqb_spec (s_kid r) id); [congruence | exact IH].
  - destruct (s_kid r =? id); [reflexivity | exact IH].
Qed.

Lemma find_map_hit kid vb rs :
  existsb (fun r => s_kid r =? kid) rs = true ->
  find (fun r => s_kid r =? kid) (map (fun r => if s_kid r =? kid then mkS kid vb else r) rs) =
  Some (mkS kid vb).
Proof.
  induction rs as [|r rs IH]; [discriminate|]. cbn [map find existsb].
  destruct (Z.eqb_spec (s_kid r) kid) as [E|E].
  - cbn [s_kid]. rewrite Z.eqb_refl. reflexivity.
  - cbn [orb]. intros H. destruct (Z.eqb_spec (s_kid r) kid); [contradiction | auto].
Qed.

Lemma find_none_existsb {A} (p : A -> bool) l : existsb p l = false -> find p l = None.
Proof.
  induction l as [|x l IH]; [reflexivity|]. cbn [existsb find]. destruct (p x); [discriminate | exact IH].
Qed.

Lemma sql_set2_eff key vb d kk :
  find_key d key = Some kk ->
  exists d', sql_set2 key (Some vb) d = (d', Ok tt) /\ rkey d' = rkey d /\
    find_sval d' (k_id kk) = Some vb /\
    (forall id, id <> k_id kk -> same_rows d d' id).
Proof.
  intros F. unfold sql_set2. rewrite F.
  destruct (existsb (fun r => s_kid r =? k_id kk) (rstring d)) eqn:X; eexists; (split; [reflexivity|]);
    (split; [reflexivity|]); split.
  - unfold find_sval. cbn [rstring set_rstring]. rewrite find_map_hit by exact X. reflexivity.
  - intros id NE. unfold same_rows, find_sval. cbn [rstring rlist rset rhash rzset set_rstring].
    rewrite find_map_other by exact NE. repeat split.
  - unfold find_sval. cbn [rstring set_rstring]. rewrite find_app', (find_none_existsb _ _ X).
    cbn [find s_kid]. rewrite Z.eqb_refl. reflexivity.
  - intros id NE. unfold same_rows, find_sval. cbn [rstring rlist rset rhash rzset set_rstring].
    rewrite find_app'. cbn [find s_kid]. destruct (Z.eqb_spec (k_id kk) id); [congruence|].
    destruct (find (fun r => s_kid r =? id) (rstring d)); repeat split.
Qed.

Lemma live_expired now r : live now r = negb (expired now r).
Proof. unfold live, expired. destruct (k_etime r); [lia | reflexivity]. Qed.

(* the reset of an expired row, structurally *)
Lemma reset_struct now key d r0 :
  find_key d key = Some r0 -> expired now r0 = true ->
  exists G,
    (forall x, k_id (G x) = k_id x /\ k_key (G x) = k_key x /\ k_type (G x) = 1 /\ k_etime (G x) = None) /\
    rkey (reset_expired now key 1 d) = map (fun x => if k_id x =? k_id r0 then G x else x) (rkey d) /\
    rstring (reset_expired now key 1 d) = filter (fun x => negb (s_kid x =? k_id r0)) (rstring d) /\
    rlist (reset_expired now key 1 d) = filter (fun x => negb (l_kid x =? k_id r0)) (rlist d) /\
    rset (reset_expired now key 1 d) = filter (fun x => negb (e_kid x =? k_id r0)) (rset d) /\
    rhash (reset_expired now key 1 d) = filter (fun x => negb (h_kid x =? k_id r0)) (rhash d) /\
    rzset (reset_expired now key 1 d) = filter (fun x => negb (z_kid x =? k_id r0)) (rzset d).
Proof.
  intros F X. unfold reset_expired. rewrite F, X. rewrite trig_list_delete_eq.
  set (nl := zlen (filter (fun x => l_kid x =? k_id r0) (rlist d))).
  exists (fun x => mkKey (k_id (trigG now nl x)) (k_key (trigG now nl x)) 1 (k_ver (trigG now nl x)) None
                         (k_mtime (trigG now nl x)) None).
  assert (TG : forall x, k_id (trigG now nl x) = k_id x /\ k_key (trigG now nl x) = k_key x).
  { intros x. unfold trigG. destruct (nl =? 0); cbn; auto. }
  split; [intros x; cbn; destruct (TG x); auto|].
  split; [| repeat split].
  unfold upd_key_id, upd_keys, set_rkey. cbn [rkey]. rewrite map_map. apply map_ext. intros x.
  destruct (k_id x =? k_id r0) eqn:E.
  - rewrite (proj1 (TG x)), E. reflexivity.
  - rewrite E. reflexivity.
Qed.

Lemma frame_reset now key d :
  InvH None d -> frame key d (reset_expired now key 1 d).
Proof.
  intros I. destruct (find_key d key) as [r0|] eqn:F.
  2:{ unfold reset_expired. rewrite F. apply frame_refl. }
  destruct (expired now r0) eqn:X.
  2:{ unfold reset_expired. rewrite F, X. apply frame_refl. }
  destruct (reset_struct now key d r0 F X) as [G [HG [E0 [E1 [E2 [E3 [E4 E5]]]]]]].
  apply find_key_some in F as [H0 K0].
  split.
  - intros r Hr Hk.
    assert (Hid : k_id r <> k_id r0).
    { intros Eid. apply Hk. rewrite <- K0. f_equal. apply (row_same_id _ d r r0 I Hr H0 Eid). }
    split.
    + rewrite E0. apply in_map_iff. exists r. split; [| exact Hr].
      destruct (Z.eqb_spec (k_id r) (k_id r0)); [contradiction | reflexivity].
    + apply same_rows_filtered with (keep := fun k => negb (k =? k_id r0)); try assumption.
      apply negb_true_iff. lia.
  - intros r' Hr' Hk. rewrite E0 in Hr'. apply in_map_iff in Hr' as [r [<- Hr]].
    destruct (Z.eqb_spec (k_id r) (k_id r0)) as [Eid|Eid]; [| exact Hr].
    exfalso. apply Hk. rewrite (proj1 (proj2 (HG r))).
    rewrite <- K0. f_equal. apply (row_same_id _ d r r0 I Hr H0 Eid).
Qed.

Lemma conflict_eff now key oc vb h d1 r1 :
  InvH h d1 -> keeps oc -> find_key d1 key = Some r1 ->
  exists d3,
    sql_set2 key (Some vb)
      (upd_key_id (k_id r1) (fun _ => oc (with_mtime (with_ver r1 (k_ver r1 + 1)) now)) d1) = (d3, Ok tt) /\
    frame key d1 d3 /\
    In (oc (with_mtime (with_ver r1 (k_ver r1 + 1)) now)) (rkey d3) /\
    find_sval d3 (k_id r1) = Some vb.
Proof.
  intros I1 Hoc F. apply find_key_some in F as [H1 K1].
  set (r' := oc (with_mtime (with_ver r1 (k_ver r1 + 1)) now)).
  assert (Hr' : k_id r' = k_id r1 /\ k_key r' = k_key r1 /\ k_type r' = k_type r1 /\ k_len r' = k_len r1).
  { unfold r'. destruct (Hoc (with_mtime (with_ver r1 (k_ver r1 + 1)) now)) as [? [? [? ?]]]. cbn in *. auto. }
  set (d2 := upd_key_id (k_id r1) (fun _ => r') d1).
  assert (I2 : InvH h d2).
  { apply InvH_upd_keys; [exact I1|]. intros x Hx Px. apply Z.eqb_eq in Px.
    assert (x = r1) by (apply (row_same_id _ d1 x r1 I1 Hx H1 Px)). subst x. exact Hr'. }
  assert (RK : rkey d2 = map (fun x => if k_id x =? k_id r1 then r' else x) (rkey d1)) by reflexivity.
  assert (In2 : In r' (rkey d2)).
  { rewrite RK. apply in_map_iff. exists r1. rewrite Z.eqb_refl. auto. }
  assert (F2 : find_key d2 key = Some r').
  { replace key with (k_key r') by (destruct Hr' as [_ [-> _]]; exact K1).
    apply find_key_in; [eapply InvH_names; exact I2 | exact In2]. }
  destruct (sql_set2_eff key vb d2 r' F2) as [d3 [E3 [RK3 [FS S]]]].
  exists d3. split; [exact E3|]. split; [| split].
  - split.
    + intros r Hr Hk.
      assert (Hid : k_id r <> k_id r1).
      { intros Eid. apply Hk. rewrite <- K1. f_equal. apply (row_same_id _ d1 r r1 I1 Hr H1 Eid). }
      split.
      * rewrite RK3, RK. apply in_map_iff. exists r. split; [| exact Hr].
        destruct (Z.eqb_spec (k_id r) (k_id r1)); [contradiction | reflexivity].
      * apply (S (k_id r)). destruct Hr' as [-> _]. exact Hid.
    + intros r Hr Hk. rewrite RK3, RK in Hr. apply in_map_iff in Hr as [x [<- Hx]].
      destruct (Z.eqb_spec (k_id x) (k_id r1)) as [Eid|Eid]; [| exact Hx].
      exfalso. apply Hk. destruct Hr' as [_ [-> _]]. exact K1.
  - rewrite RK3. exact In2.
  - destruct Hr' as [<- _]. exact FS.
Qed.

Lemma create_eff now key ne vb h d :
  InvH h d -> find_key d key = None ->
  exists d3,
    sql_set2 key (Some vb)
      (set_rkey d (rkey d ++ [mkKey (next_key_id d) key 1 1 ne now None])) = (d3, Ok tt) /\
    frame key d d3 /\
    In (mkKey (next_key_id d) key 1 1 ne now None) (rkey d3) /\
    find_sval d3 (next_key_id d) = Some vb.
Proof.
  intros I F.
  set (rn := mkKey (next_key_id d) key 1 1 ne now None).
  set (d2 := set_rkey d (rkey d ++ [rn])).
  assert (F2 : find_key d2 key = Some rn).
  { unfold find_key in *. cbn [rkey d2 set_rkey]. rewrite find_app', F. cbn [find rn k_key].
    rewrite String.eqb_refl. reflexivity. }
  destruct (sql_set2_eff key vb d2 rn F2) as [d3 [E3 [RK3 [FS S]]]].
  exists d3. split; [exact E3|]. split; [| split].
  - split.
    + intros r Hr Hk. split.
      * rewrite RK3. cbn [rkey d2 set_rkey]. apply in_or_app. left. exact Hr.
      * apply (S (k_id r)). cbn [rn k_id]. unfold next_key_id.
        assert (k_id r <= zmax_list (map k_id (rkey d))) by (apply zmax_ge, in_map; exact Hr). lia.
    + intros r Hr Hk. rewrite RK3 in Hr. cbn [rkey d2 set_rkey] in Hr.
      apply in_app_iff in Hr as [Hr | [<- | []]]; [exact Hr|]. exfalso. apply Hk. reflexivity.
  - rewrite RK3. cbn [rkey d2 set_rkey]. apply in_or_app. right. left. reflexivity.
  - exact FS.
Qed.

Definition okt (o : option entry) : bool :=
  match o with Some e => atype (en_val e) =? 1 | None => true end.

Definition str_write (now : Z) (key : bytes) (ne : option Z) (oc : keyrow -> keyrow) (vb : bytes) : M unit :=
  typed_error (upsert_key now key T_STRING ne None oc) ;;; sql_set2 key (Some vb).

Lemma typed_error_ok_eq {A} (m : M A) d d' a : m d = (d', Ok a) -> typed_error m d = (d', Ok a).
Proof. unfold typed_error. intros ->. reflexivity. Qed.

Lemma str_write_eff now key ne oc eo vb d :
  InvH None d -> keeps oc -> (forall r, k_etime (oc r) = eo (k_etime r)) -> eo None = ne ->
  if okt (view now d key) then
    exists d', str_write now key ne oc vb d = (d', Ok tt) /\ InvH None d' /\
      forall k, view now d' k =
        if String.eqb key k
        then ent now (AVStr vb) (match view now d key with Some e => eo (en_exp e) | None => ne end)
        else view now d k
  else exists d', str_write now key ne oc vb d = (d', Err EKeyType).
Proof.
  intros I Hoc Heo Hne. pose proof (InvH_names _ _ I) as N.
  assert (Fin : forall d3 r' E,
     str_write now key ne oc vb d = (d3, Ok tt) -> frame key d d3 -> In r' (rkey d3) ->
     k_key r' = key -> k_type r' = 1 -> k_etime r' = E -> find_sval d3 (k_id r') = Some vb ->
     exists d', str_write now key ne oc vb d = (d', Ok tt) /\ InvH None d' /\
      forall k, view now d' k = if String.eqb key k then ent now (AVStr vb) E else view now d k).
  { intros d3 r' E Ew Fr Hr' Kr' Tr' Er' FS. exists d3. split; [exact Ew|].
    assert (I3 : InvH None d3).
    { apply (pres_str_write now key ne oc (Some vb) Hoc d d3 tt I Ew). }
    split; [exact I3|]. pose proof (InvH_names _ _ I3) as N3.
    apply view_after; [exact N | exact N3 | exact Fr |].
    rewrite (view_row' now d3 r' key N3 Hr' Kr'), abs_val_str1 by exact Tr'.
    rewrite FS, live_lv, Er'. reflexivity. }
  unfold str_write in *.
  destruct (find_key_cases d key) as [[r0 [Hr0 [K0 F]]] | [Hno F]].
  - destruct (expired now r0) eqn:X.
    + (* an expired row is stripped and merged into *)
      assert (V : view now d key = None).
      { rewrite (view_row' now d r0 key N Hr0 K0), live_expired, X. reflexivity. }
      rewrite V. cbn [okt].
      pose proof (InvH_reset now key 1 d I ltac:(lia)) as I1. change (1 =? 1) with true in I1. cbv iota in I1.
      pose proof (frame_reset now key d I) as Fr1.
      destruct (reset_struct now key d r0 F X) as [G [HG [E0 _]]].
      set (d1 := reset_expired now key 1 d) in *.
      assert (In1 : In (G r0) (rkey d1)).
      { rewrite E0. apply in_map_iff. exists r0. rewrite Z.eqb_refl. auto. }
      destruct (HG r0) as [G1 [G2 [G3 G4]]].
      assert (F1 : find_key d1 key = Some (G r0)).
      { rewrite <- K0, <- G2. apply find_key_in; [eapply InvH_names; exact I1 | exact In1]. }
      destruct (conflict_eff now key oc vb _ d1 (G r0) I1 Hoc F1) as [d3 [E3 [Fr3 [In3 FS]]]].
      set (r' := oc (with_mtime (with_ver (G r0) (k_ver (G r0) + 1)) now)) in *.
      destruct (Hoc (with_mtime (with_ver (G r0) (k_ver (G r0) + 1)) now)) as [O1 [O2 [O3 O4]]].
      cbn in O1, O2, O3, O4. fold r' in O1, O2, O3, O4.
      apply (Fin d3 r' ne).
      * erewrite bind_ok; [exact E3|]. apply typed_error_ok_eq.
        unfold upsert_key, T_STRING. fold d1. rewrite F1, G3. reflexivity.
      * eapply frame_trans; eassumption.
      * exact In3.
      * congruence.
      * congruence.
      * unfold r'. rewrite Heo. cbn [k_etime with_mtime with_ver]. rewrite G4. exact Hne.
      * rewrite O1. exact FS.
    + (* a live row *)
      assert (D1 : reset_expired now key 1 d = d) by (unfold reset_expired; rewrite F, X; reflexivity).
      destruct (abs_val_typed d r0 I Hr0) as [v [Ev Tv]].
      assert (V : view now d key = Some (mkEntry v (k_etime r0))).
      { rewrite (view_row' now d r0 key N Hr0 K0), live_expired, X, Ev. reflexivity. }
      rewrite V. cbn [okt en_val en_exp]. rewrite Tv.
      destruct (k_type r0 =? 1) eqn:T1.
      * destruct (conflict_eff now key oc vb _ d r0 I Hoc F) as [d3 [E3 [Fr3 [In3 FS]]]].
        set (r' := oc (with_mtime (with_ver r0 (k_ver r0 + 1)) now)) in *.
        destruct (Hoc (with_mtime (with_ver r0 (k_ver r0 + 1)) now)) as [O1 [O2 [O3 O4]]].
        cbn in O1, O2, O3, O4. fold r' in O1, O2, O3, O4.
        apply (Fin d3 r' (eo (k_etime r0))).
        -- erewrite bind_ok; [exact E3|]. apply typed_error_ok_eq.
           unfold upsert_key, T_STRING. rewrite D1, F, T1. reflexivity.
        -- exact Fr3.
        -- exact In3.
        -- congruence.
        -- rewrite O3. lia.
        -- unfold r'. rewrite Heo. reflexivity.
        -- rewrite O1. exact FS.
      * exists d. erewrite bind_err; [reflexivity|].
        unfold typed_error, upsert_key, T_STRING. rewrite D1, F, T1. reflexivity.
  - assert (D1 : reset_expired now key 1 d = d) by (unfold reset_expired; rewrite F; reflexivity).
    rewrite (view_norow now d key Hno). cbn [okt].
    destruct (create_eff now key ne vb _ d I F) as [d3 [E3 [Fr3 [In3 FS]]]].
    apply (Fin d3 (mkKey (next_key_id d) key 1 1 ne now None) ne).
    + erewrite bind_ok; [exact E3|]. apply typed_error_ok_eq.
      unfold upsert_key, T_STRING. rewrite D1, F. reflexivity.
    + exact Fr3.
    + exact In3.
    + reflexivity.
    + reflexivity.
    + reflexivity.
    + exact FS.
Qed.

Lemma to_bytes_cases v :
  (to_bytes v = None /\ bytes_of_value v = None /\ is_value_type v = false) \/
  (exists b, to_bytes v = Some (Some b) /\ bytes_of_value v = Some b /\ is_value_type v = true).
Proof. destruct v; cbn; eauto 6. Qed.

Lemma other_type_okt s k : other_type s k 1 = negb (okt (sget s k)).
Proof. unfold other_type, okt. destruct (sget s k); reflexivity. Qed.

Lemma str_set_at_eff now key v at_ d b :
  InvH None d -> to_bytes v = Some (Some b) ->
  if okt (view now d key) then
    exists d', str_set_at now key v at_ d = (d', Ok tt) /\ InvH None d' /\
      forall k, view now d' k = if String.eqb key k then ent now (AVStr b) at_ else view now d k
  else exists d', str_set_at now key v at_ d = (d', Err EKeyType).
Proof.
  intros I E. unfold str_set_at. rewrite E.
  pose proof (str_write_eff now key at_ (fun r => with_etime r at_) (fun _ => at_) b d I) as H.
  unfold str_write in H.
  assert (X : match view now d key with Some _ => at_ | None => at_ end = at_)
    by (destruct (view now d key); reflexivity).
  rewrite X in H. apply H; [intros r; cbn; auto | reflexivity | reflexivity].
Qed.

Lemma str_update_eff now key v d b :
  InvH None d -> to_bytes v = Some (Some b) ->
  if okt (view now d key) then
    exists d', str_update now key v d = (d', Ok tt) /\ InvH None d' /\
      forall k, view now d' k =
        if String.eqb key k
        then ent now (AVStr b) (match view now d key with Some e => en_exp e | None => None end)
        else view now d k
  else exists d', str_update now key v d = (d', Err EKeyType).
Proof.
  intros I E. unfold str_update. rewrite E.
  apply (str_write_eff now key None (fun r => r) (fun x => x) b d I);
    [intros r; auto | reflexivity | reflexivity].
Qed.

Section Steps4.
Variable now : Z.
Variable d : db.
Variable s : sstate.
Hypothesis I : InvH None d.
Hypothesis HR : R now d s.

Let s1 := spurge now s.
Let N1' : NoDup (map fst s1) := N1 now d s I HR.
Let G1' : forall k, sget s1 k = view now d k := G1 now d s I HR.
Let R1' : R now d s1 := R1 now d s HR.

Lemma R_put d' key v x :
  InvH None d' ->
  (forall k, view now d' k = if String.eqb key k then ent now v x else view now d k) ->
  R now d' (sput key (mkEntry v x) s1).
Proof.
  intros I' Hv. apply R_intro; [exact I' | apply NoDup_sput; exact N1' |].
  intros k. rewrite sget_sput, Hv. destruct (String.eqb key k); [reflexivity|].
  rewrite G1'. apply purged_view.
Qed.

Lemma step_set_gen o k v exp :
  wrapped o = true ->
  exec_tx true now o d = run (str_set_at now k v exp) unit_rv d ->
  spec_step now o s = spec_set s1 k v exp ->
  (forall r, proj_result o r = r) ->
  step_refines now o d s.
Proof.
  intros W E1 E2 Pj. unfold spec_set in E2. rewrite other_type_okt, G1' in E2.
  destruct (to_bytes_cases v) as [[Tb [Bv _]] | [b [Tb [Bv _]]]]; rewrite Bv in E2.
  - eapply step_intro.
    + eapply exec_wrapped_run; [exact W | exact E1 |]. unfold str_set_at. rewrite Tb. reflexivity.
    + exact E2.
    + apply out_equiv_refl. apply Pj.
    + exact R1'.
  - pose proof (str_set_at_eff now k v exp d b I Tb) as H.
    destruct (okt (view now d k)); cbn [negb] in E2.
    + destruct H as [d' [Ed [I' Hv]]]. eapply step_intro.
      * eapply exec_wrapped_run; [exact W | exact E1 | exact Ed].
      * exact E2.
      * apply out_equiv_refl. apply Pj.
      * apply R_put; assumption.
    + destruct H as [d' Ed]. eapply step_intro.
      * eapply exec_wrapped_run; [exact W | exact E1 | exact Ed].
      * exact E2.
      * apply out_equiv_refl. apply Pj.
      * exact R1'.
Qed.

Lemma step_SSet k v : step_refines now (SSet k v) d s.
Proof. apply (step_set_gen _ k v None); reflexivity. Qed.

Lemma step_SSetExpires k v ttl : step_refines now (SSetExpires k v ttl) d s.
Proof. apply (step_set_gen _ k v (if 0 <? ttl then Some (now + ttl) else None)); reflexivity. Qed.

End Steps4.

(* SetMany: one set per item, against a running abstract state *)
Lemma set_each_sim now items : forall d s1,
  InvH None d -> NoDup (map fst s1) -> (forall k, sget s1 k = view now d k) ->
  forallb (fun kv : bytes * value => is_value_type (snd kv)) items = true ->
  NoDup (map fst items) ->
  if existsb (fun kv : bytes * value => other_type s1 (fst kv) 1) items
  then exists d', str_set_each now items d = (d', Err EKeyType)
  else exists d', str_set_each now items d = (d', Ok tt) /\ InvH None d' /\
       let s' := fold_left (fun acc (kv : bytes * value) => fst (spec_set acc (fst kv) (snd kv) None)) items s1 in
       NoDup (map fst s') /\ forall k, sget s' k = view now d' k.
Proof.
  induction items as [|[k v] items IH]; intros d s1 I N G Hv ND.
  - cbn. exists d. auto.
  - cbn [forallb snd] in Hv. apply andb_true_iff in Hv as [Hv1 Hv2].
    cbn [map fst] in ND. inversion ND as [|? ? Hk NDr]; subst.
    cbn [existsb fst str_set_each fold_left snd].
    destruct (to_bytes_cases v) as [[_ [_ C]] | [b [Tb [Bv _]]]]; [congruence|].
    pose proof (str_set_at_eff now k v None d b I Tb) as H.
    rewrite other_type_okt, G. destruct (okt (view now d k)) eqn:OK; cbn [negb orb].
    + destruct H as [d1 [Ed [I1 Hv']]].
      assert (E1 : fst (spec_set s1 k v None) = sput k (mkEntry (AVStr b) None) s1).
      { unfold spec_set. rewrite Bv, other_type_okt, G, OK. reflexivity. }
      rewrite E1. set (s2 := sput k (mkEntry (AVStr b) None) s1).
      assert (N2 : NoDup (map fst s2)) by (apply NoDup_sput; exact N).
      assert (G2 : forall k', sget s2 k' = view now d1 k').
      { intros k'. unfold s2. rewrite sget_sput, Hv'. destruct (String.eqb k k'); [reflexivity | apply G]. }
      assert (EX : existsb (fun kv : bytes * value => other_type s2 (fst kv) 1) items =
                   existsb (fun kv : bytes * value => other_type s1 (fst kv) 1) items).
      { clear - Hk. induction items as [|[k' v'] items IH]; [reflexivity|].
        cbn [existsb fst]. cbn [map fst In] in Hk. rewrite IH by tauto. f_equal.
        unfold other_type, s2. rewrite sget_sput.
        destruct (String.eqb_spec k k'); [subst; tauto | reflexivity]. }
      specialize (IH d1 s2 I1 N2 G2 Hv2 NDr). rewrite EX in IH.
      destruct (existsb (fun kv : bytes * value => other_type s1 (fst kv) 1) items).
      * destruct IH as [d' Ed']. exists d'. erewrite bind_ok; [exact Ed' | exact Ed].
      * destruct IH as [d' [Ed' R']]. exists d'. split; [| exact R'].
        erewrite bind_ok; [exact Ed' | exact Ed].
    + destruct H as [d1 Ed]. exists d1. erewrite bind_err; [reflexivity | exact Ed].
Qed.

Lemma step_SSetMany now d s items :
  InvH None d -> R now d s -> NoDup (map fst items) -> step_refines now (SSetMany items) d s.
Proof.
  intros I HR ND.
  pose proof (N1 now d s I HR) as N1'. pose proof (G1 now d s I HR) as G1'.
  pose proof (R1 now d s HR) as R1'. set (s1 := spurge now s) in *.
  destruct (forallb (fun kv : bytes * value => is_value_type (snd kv)) items) eqn:Hv.
  - pose proof (set_each_sim now items d s1 I N1' G1' Hv ND) as H.
    destruct (existsb (fun kv : bytes * value => other_type s1 (fst kv) 1) items) eqn:EX.
    + destruct H as [d' Ed]. eapply step_intro.
      * eapply exec_wrapped_run; [reflexivity | reflexivity |]. unfold str_set_many. rewrite Hv. exact Ed.
      * cbn [spec_step]. fold s1. unfold spec_set_many. rewrite Hv, EX. reflexivity.
      * apply out_equiv_refl. reflexivity.
      * exact R1'.
    + destruct H as [d' [Ed [I' [N' G']]]]. eapply step_intro.
      * eapply exec_wrapped_run; [reflexivity | reflexivity |]. unfold str_set_many. rewrite Hv. exact Ed.
      * cbn [spec_step]. fold s1. unfold spec_set_many. rewrite Hv, EX. reflexivity.
      * apply out_equiv_refl. reflexivity.
      * apply R_intro; [exact I' | exact N' |]. intros k. rewrite G'. apply purged_view.
  - eapply step_intro.
    + eapply exec_wrapped_run; [reflexivity | reflexivity |]. unfold str_set_many. rewrite Hv. reflexivity.
    + cbn [spec_step]. fold s1. unfold spec_set_many. rewrite Hv. reflexivity.
    + apply out_equiv_refl. reflexivity.
    + exact R1'.
Qed.

Definition int_ok (o : op) : Prop :=
  match o with
  | SIncr _ dl => in_int64 dl = true
  | _ => True
  end.

Section Steps5.
Variable now : Z.
Variable d : db.
Variable s : sstate.
Hypothesis I : InvH None d.
Hypothesis HR : R now d s.

Let s1 := spurge now s.
Let N1' : NoDup (map fst s1) := N1 now d s I HR.
Let G1' : forall k, sget s1 k = view now d k := G1 now d s I HR.
Let R1' : R now d s1 := R1 now d s HR.

Lemma fin_err {A} o (m : M A) f e :
  wrapped o = true -> exec_tx true now o d = run m f d ->
  m d = (d, Err e) -> spec_step now o s = (s1, out_err e) ->
  (forall r, proj_result o r = r) -> step_refines now o d s.
Proof.
  intros W E1 Em E2 Pj. eapply step_intro.
  - eapply exec_wrapped_run; [exact W | exact E1 | exact Em].
  - exact E2.
  - apply out_equiv_refl. apply Pj.
  - exact R1'.
Qed.

Lemma fin_update {A} o (m : M A) f key v b (a : A) :
  wrapped o = true -> exec_tx true now o d = run m f d ->
  to_bytes v = Some (Some b) ->
  m d = bind (str_update now key v) (fun _ => ret a) d ->
  (okt (view now d key) = true ->
   spec_step now o s = (sput key (mkEntry (AVStr b) (keep_exp s1 key)) s1, out_ok (f a))) ->
  (okt (view now d key) = false -> spec_step now o s = (s1, out_err EKeyType)) ->
  (forall r, proj_result o r = r) -> step_refines now o d s.
Proof.
  intros W E1 Tb Em E2 E3 Pj. pose proof (str_update_eff now key v d b I Tb) as H.
  destruct (okt (view now d key)).
  - destruct H as [d' [Ed [I' Hv]]]. eapply step_intro.
    + eapply exec_wrapped_run; [exact W | exact E1 |]. rewrite Em. erewrite bind_ok; [| exact Ed]. reflexivity.
    + apply E2. reflexivity.
    + apply out_equiv_refl. apply Pj.
    + apply (R_put now d s I HR); [exact I'|]. unfold keep_exp. fold s1. rewrite G1'. exact Hv.
  - destruct H as [d' Ed]. eapply step_intro.
    + eapply exec_wrapped_run; [exact W | exact E1 |]. rewrite Em. erewrite bind_err; [| exact Ed]. reflexivity.
    + apply E3. reflexivity.
    + apply out_equiv_refl. apply Pj.
    + exact R1'.
Qed.

Definition cur_of (o : option entry) : bytes :=
  match o with Some (mkEntry (AVStr v) _) => v | _ => "" end.

Lemma spec_str_cur k : match spec_str s1 k with Some v => v | None => "" end = cur_of (view now d k).
Proof. rewrite spec_str_view, G1'. destruct (view now d k) as [[[v| | | |] x]|]; reflexivity. Qed.

Lemma str_incr_eq key delta :
  str_incr now key delta d =
  match value_int (cur_of (view now d key)) with
  | None => (d, Err EValueType)
  | Some n =>
      if negb (in_int64 (n + delta)) then (d, Err EValueType)
      else bind (str_update now key (AInt (n + delta))) (fun _ => ret (n + delta)) d
  end.
Proof.
  unfold str_incr, try_. rewrite str_get_view.
  destruct (view now d key) as [[[v| | | |] x]|]; cbv beta iota; cbn [cur_of];
    match goal with |- context [value_int ?c] => destruct (value_int c) as [n|] end;
    try reflexivity; destruct (negb (in_int64 (n + delta))); reflexivity.
Qed.

Lemma okt_false_cur o : okt o = false -> cur_of o = "".
Proof. destruct o as [[[v| | | |] x]|]; try reflexivity; discriminate. Qed.

Lemma step_SIncr key delta : in_int64 delta = true -> step_refines now (SIncr key delta) d s.
Proof.
  intros Hd.
  assert (SP : spec_step now (SIncr key delta) s =
    if negb (okt (view now d key)) then (s1, out_err EKeyType) else
    match value_int (cur_of (view now d key)) with
    | None => (s1, out_err EValueType)
    | Some n =>
        if negb (in_int64 (n + delta)) then (s1, out_err EValueType)
        else (sput key (mkEntry (AVStr (itoa (n + delta))) (keep_exp s1 key)) s1, out_ok (VI (n + delta)))
    end).
  { cbn [spec_step]. fold s1. unfold spec_incr. rewrite other_type_okt, G1', spec_str_cur. reflexivity. }
  destruct (okt (view now d key)) eqn:OK; cbn [negb] in SP.
  - destruct (value_int (cur_of (view now d key))) as [n|] eqn:VIN.
    + destruct (negb (in_int64 (n + delta))) eqn:IN.
      * apply (fin_err _ (str_incr now key delta) VI EValueType); try reflexivity; [| exact SP].
        rewrite str_incr_eq, VIN, IN. reflexivity.
      * apply (fin_update _ (str_incr now key delta) VI key (AInt (n + delta)) (itoa (n + delta)) (n + delta));
          try reflexivity.
        -- rewrite str_incr_eq, VIN, IN. reflexivity.
        -- intros _. exact SP.
        -- congruence.
    + apply (fin_err _ (str_incr now key delta) VI EValueType); try reflexivity; [| exact SP].
      rewrite str_incr_eq, VIN. reflexivity.
  - apply (fin_update _ (str_incr now key delta) VI key (AInt delta) (itoa delta) delta); try reflexivity.
    + rewrite str_incr_eq, (okt_false_cur _ OK). cbn [value_int]. change (0 + delta) with delta.
      rewrite Hd. reflexivity.
    + congruence.
    + intros _. exact SP.
Qed.

Definition parse_of (parsed : list (bytes * option float)) (cur : bytes) : option float :=
  match cur with
  | EmptyString => Some zero
  | _ => match opt_lookup parsed cur with Some r => r | None => None end
  end.

Lemma str_incr_float_eq key delta parsed sumtext :
  str_incr_float now key delta
    (fun t => match opt_lookup parsed t with Some r => r | None => None end) (fun _ => sumtext) d =
  match parse_of parsed (cur_of (view now d key)) with
  | None => (d, Err EValueType)
  | Some f =>
      bind (str_update now key (AFloat (f + delta)%float sumtext)) (fun _ => ret (f + delta)%float) d
  end.
Proof.
  unfold str_incr_float, try_. rewrite str_get_view.
  destruct (view now d key) as [[[v| | | |] x]|]; cbv beta iota; cbn [cur_of]; try reflexivity.
  unfold parse_of. destruct v; [reflexivity|].
  destruct (opt_lookup parsed (String a v)) as [[f|]|]; reflexivity.
Qed.

Lemma step_SIncrFloat key delta parsed sumtext :
  step_refines now (SIncrFloat key delta parsed sumtext) d s.
Proof.
  assert (SP : spec_step now (SIncrFloat key delta parsed sumtext) s =
    if negb (okt (view now d key)) then (s1, out_err EKeyType) else
    match parse_of parsed (cur_of (view now d key)) with
    | None => (s1, out_err EValueType)
    | Some f =>
        (sput key (mkEntry (AVStr sumtext) (keep_exp s1 key)) s1, out_ok (VF (f + delta)%float))
    end).
  { cbn [spec_step]. fold s1. unfold spec_incr_float. rewrite other_type_okt, G1', spec_str_cur. reflexivity. }
  destruct (okt (view now d key)) eqn:OK; cbn [negb] in SP.
  - destruct (parse_of parsed (cur_of (view now d key))) as [f|] eqn:PF.
    + eapply (fin_update _ _ VF key (AFloat (f + delta)%float sumtext) sumtext (f + delta)%float);
          try reflexivity.
      * rewrite str_incr_float_eq, PF. reflexivity.
      * intros _. exact SP.
      * congruence.
    + eapply (fin_err _ _ VF EValueType); try reflexivity; [| exact SP].
      rewrite str_incr_float_eq, PF. reflexivity.
  - eapply (fin_update _ _ VF key (AFloat (zero + delta)%float sumtext) sumtext (zero + delta)%float);
      try reflexivity.
    + rewrite str_incr_float_eq, (okt_false_cur _ OK). reflexivity.
    + congruence.
    + intros _. exact SP.
Qed.

End Steps5.

Definition ex_of (o : option entry) : bool :=
  match o with Some (mkEntry (AVStr _) _) => true | _ => false end.
Definition prev_of (o : option entry) : rv :=
  match o with Some (mkEntry (AVStr p) _) => VS p | _ => VNone end.

Section Steps6.
Variable now : Z.
Variable d : db.
Variable s : sstate.
Hypothesis I : InvH None d.
Hypothesis HR : R now d s.

Let s1 := spurge now s.
Let N1' : NoDup (map fst s1) := N1 now d s I HR.
Let G1' : forall k, sget s1 k = view now d k := G1 now d s I HR.
Let R1' : R now d s1 := R1 now d s HR.

Lemma str_set_with_eq key v o :
  is_value_type v = true ->
  str_set_with now key v o d =
  let V := view now d key in
  let at_ := if 0 <? so_ttl o then Some (now + so_ttl o) else so_at o in
  if so_ifx o && negb (ex_of V) then (d, out_ok (VL [prev_of V; VB false; VB false])) else
  if so_ifnx o && ex_of V then (d, out_ok (VL [prev_of V; VB false; VB false])) else
  let '(d', w) := (if so_keep o then str_update now key v else str_set_at now key v at_) d in
  match w with
  | Err e => (d', out_both (VL [prev_of V; VB false; VB false]) e)
  | Ok _ => (d', out_ok (VL [prev_of V; VB (negb (ex_of V)); VB (ex_of V)]))
  end.
Proof.
  intros Hv. unfold str_set_with. rewrite Hv. cbn [negb]. rewrite str_get_view.
  destruct (view now d key) as [[[p| | | |] x]|]; reflexivity.
Qed.

Lemma spec_set_with_eq key v o :
  is_value_type v = true ->
  spec_set_with now s1 key v o =
  let V := view now d key in
  if so_ifx o && negb (ex_of V) then (s1, out_ok (VL [prev_of V; VB false; VB false])) else
  if so_ifnx o && ex_of V then (s1, out_ok (VL [prev_of V; VB false; VB false])) else
  let exp := if so_keep o then keep_exp s1 key
             else if 0 <? so_ttl o then Some (now + so_ttl o) else so_at o in
  let '(s', r) := spec_set s1 key v exp in
  match o_err r with
  | Some e => (s', out_both (VL [prev_of V; VB false; VB false]) e)
  | None => (s', out_ok (VL [prev_of V; VB (negb (ex_of V)); VB (ex_of V)]))
  end.
Proof.
  intros Hv. unfold spec_set_with. rewrite Hv. cbn [negb]. rewrite spec_str_view, G1'.
  destruct (view now d key) as [[[p| | | |] x]|]; reflexivity.
Qed.

Lemma exec_set_with key v calls d' r :
  str_set_with now key v (setopts_of calls) d = (d', r) ->
  exec_db now (SSetWith key v calls) d = (if is_err r then d else d', r).
Proof. intros E. rewrite exec_db_wrapped by reflexivity. cbn [exec_tx]. rewrite E. reflexivity. Qed.

Lemma step_SSetWith key v calls : step_refines now (SSetWith key v calls) d s.
Proof.
  set (o := setopts_of calls).
  destruct (to_bytes_cases v) as [[_ [_ Hv]] | [b [Tb [Bv Hv]]]].
  { eapply step_intro.
    - apply exec_set_with. unfold str_set_with. rewrite Hv. reflexivity.
    - cbn [spec_step]. fold s1. unfold spec_set_with. rewrite Hv. reflexivity.
    - apply out_equiv_refl. reflexivity.
    - exact R1'. }
  pose proof (str_set_with_eq key v o Hv) as EI. pose proof (spec_set_with_eq key v o Hv) as ES.
  cbv zeta in EI, ES.
  destruct (so_ifx o && negb (ex_of (view now d key))).
  { eapply step_intro; [apply exec_set_with; exact EI | cbn [spec_step]; exact ES | |].
    - apply out_equiv_refl. reflexivity.
    - exact R1'. }
  destruct (so_ifnx o && ex_of (view now d key)).
  { eapply step_intro; [apply exec_set_with; exact EI | cbn [spec_step]; exact ES | |].
    - apply out_equiv_refl. reflexivity.
    - exact R1'. }
  unfold spec_set in ES. rewrite Bv, other_type_okt, G1' in ES.
  assert (W : forall exp,
    (if okt (view now d key) then
      exists d', (if so_keep o then str_update now key v
                  else str_set_at now key v (if 0 <? so_ttl o then Some (now + so_ttl o) else so_at o)) d
                 = (d', Ok tt) /\ InvH None d' /\
        forall k, view now d' k = if String.eqb key k then ent now (AVStr b) exp else view now d k
     else exists d', (if so_keep o then str_update now key v
                  else str_set_at now key v (if 0 <? so_ttl o then Some (now + so_ttl o) else so_at o)) d
                 = (d', Err EKeyType)) ->
    exp = (if so_keep o then keep_exp s1 key
           else if 0 <? so_ttl o then Some (now + so_ttl o) else so_at o) ->
    step_refines now (SSetWith key v calls) d s).
  { intros exp H Eexp. rewrite <- Eexp in ES. destruct (okt (view now d key)); cbn [negb] in ES.
    - destruct H as [d' [Ed [I' Hv']]]. rewrite Ed in EI.
      eapply step_intro; [apply exec_set_with; exact EI | cbn [spec_step]; exact ES | |].
      + apply out_equiv_refl. reflexivity.
      + apply (R_put now d s I HR); assumption.
    - destruct H as [d' Ed]. rewrite Ed in EI.
      eapply step_intro; [apply exec_set_with; exact EI | cbn [spec_step]; exact ES | |].
      + apply out_equiv_refl. reflexivity.
      + exact R1'. }
  destruct (so_keep o).
  - apply (W (keep_exp s1 key)); [| reflexivity]. unfold keep_exp. rewrite G1'.
    apply (str_update_eff now key v d b I Tb).
  - apply (W (if 0 <? so_ttl o then Some (now + so_ttl o) else so_at o)); [| reflexivity].
    apply (str_set_at_eff now key v _ d b I Tb).
Qed.

End Steps6.

(* ================================================================== *)
(* Part 8: the theorems                                               *)
(* ================================================================== *)

(* C01_string_step_refines as stated is false: for SIncr with a delta outside
   the int64 range on a live key of another type the model answers EValueType
   (overflow test before the write) and the specification EKeyType; see
   C01_counterexample.  Go's delta is an int, hence [int_ok]. *)
Theorem C01_string_step_refines_partial : forall now o d s,
  str_op o = true -> wf_op o -> int_ok o -> Inv d -> R now d s -> step_refines now o d s.
Proof.
  intros now o d s So Wf Io I HR. apply Inv_iff in I.
  destruct o; try discriminate So.
  - apply step_SGet; assumption.
  - apply step_SGetMany; assumption.
  - apply step_SIncr; assumption.
  - apply step_SIncrFloat; assumption.
  - apply step_SSet; assumption.
  - apply step_SSetExpires; assumption.
  - apply step_SSetMany; assumption.
  - apply step_SSetWith; assumption.
Qed.

Definition cex_d2 : db := mkDb [mkKey 1 "k" 2 1 None 0 (Some 0)] [] [] [] [] [] true.
Definition cex_s2 : sstate := [("k", mkEntry (AVList []) None)].

Theorem C01_counterexample :
  ~ (forall now o d s, str_op o = true -> wf_op o -> Inv d -> R now d s -> step_refines now o d s).
Proof.
  intros H.
  assert (R0 : R 0 cex_d2 cex_s2).
  { split; [repeat constructor; intros []|]. intros k.
    change (spurge 0 cex_s2) with cex_s2. change (abs 0 cex_d2) with cex_s2. reflexivity. }
  specialize (H 0 (SIncr "k" (2 ^ 63)) cex_d2 cex_s2 eq_refl I (conj eq_refl eq_refl) R0).
  unfold step_refines in H.
  assert (E1 : snd (exec_db 0 (SIncr "k" (2 ^ 63)) cex_d2) = out_err EValueType) by (vm_compute; reflexivity).
  assert (E2 : snd (spec_step 0 (SIncr "k" (2 ^ 63)) cex_s2) = out_err EKeyType) by (vm_compute; reflexivity).
  destruct (exec_db 0 (SIncr "k" (2 ^ 63)) cex_d2) as [d' r].
  destruct (spec_step 0 (SIncr "k" (2 ^ 63)) cex_s2) as [s' r'].
  cbn [snd] in E1, E2. subst. destruct H as [[H _] _]. discriminate H.
Qed.

Theorem C06_key_step_refines : forall now o d s,
  key_op o = true -> Inv d -> R now d s -> step_refines now o d s.
Proof.
  intros now o d s Ko I HR. apply Inv_iff in I.
  destruct o; try discriminate Ko.
  - apply step_KCount; assumption.
  - apply step_KDelete; assumption.
  - apply step_KDeleteAll; assumption.
  - apply step_KExists; assumption.
  - apply step_KExpire; assumption.
  - apply step_KExpireAt; assumption.
  - apply step_KGet; assumption.
  - apply step_KKeys; assumption.
  - apply step_KPersist; assumption.
  - apply step_KRename; assumption.
  - apply step_KRenameNX; assumption.
Qed.

(* whole histories: a list of (time, operation) with non-decreasing times *)
Fixpoint times_ok (t : Z) (h : list (Z * op)) : Prop :=
  match h with [] => True | (t', _) :: r => t <= t' /\ times_ok t' r end.
Fixpoint run_impl (h : list (Z * op)) (d : db) : db * list out :=
  match h with
  | [] => (d, [])
  | (t, o) :: r => let '(d1, x) := exec_db t o d in let '(d2, xs) := run_impl r d1 in (d2, x :: xs)
  end.
Fixpoint run_spec (h : list (Z * op)) (s : sstate) : sstate * list out :=
  match h with
  | [] => (s, [])
  | (t, o) :: r => let '(s1, x) := spec_step t o s in let '(s2, xs) := run_spec r s1 in (s2, x :: xs)
  end.

Lemma ops_fam_ks o : (str_op o || key_op o) = true -> fam_ks o = true.
Proof. destruct o; cbn; intros H; try reflexivity; discriminate H. Qed.

(* the history theorem over the operations of the step theorems ([int_ok] added, see above) *)
Theorem C01_history_refines_partial : forall h t0 d s,
  (forall p, In p h -> (str_op (snd p) || key_op (snd p)) = true /\ wf_op (snd p) /\ int_ok (snd p)) ->
  times_ok t0 h -> Inv d -> R t0 d s ->
  Forall2 (fun (po : (Z * op) * out) (so : out) => out_equiv (snd (fst po)) (snd po) so)
          (combine h (snd (run_impl h d))) (snd (run_spec h s))
  /\ (forall tl, (match rev h with (t, _) :: _ => t | [] => t0 end) = tl -> R tl (fst (run_impl h d)) (fst (run_spec h s))).
Proof.
  induction h as [|[t o] h IH]; intros t0 d s Hall Ht I HR.
  - cbn. split; [constructor | intros tl <-; exact HR].
  - cbn [times_ok] in Ht. destruct Ht as [Hle Ht].
    assert (HR' : R t d s) by (eapply R_mono_partial; eauto).
    destruct (Hall (t, o) (or_introl eq_refl)) as [Hop [Hwf Hint]]. cbn [snd] in Hop, Hwf, Hint.
    assert (ST : step_refines t o d s).
    { destruct (str_op o) eqn:So.
      - apply C01_string_step_refines_partial; assumption.
      - apply C06_key_step_refines; assumption. }
    assert (I1 : Inv (fst (exec_db t o d))).
    { apply inv_preserved_key_str; [apply ops_fam_ks; exact Hop | exact I]. }
    unfold step_refines in ST. cbn [run_impl run_spec].
    destruct (exec_db t o d) as [d1 x]. destruct (spec_step t o s) as [s1 y].
    destruct ST as [OE HR1]. cbn [fst] in I1.
    specialize (IH t d1 s1 (fun p Hp => Hall p (or_intror Hp)) Ht I1 HR1).
    destruct (run_impl h d1) as [d2 xs]. destruct (run_spec h s1) as [s2 ys].
    cbn [fst snd combine] in *. destruct IH as [F Rl]. split.
    + constructor; [exact OE | exact F].
    + intros tl Etl. apply Rl. rewrite <- Etl. cbn [rev].
      destruct (rev h) as [|[t' o'] r']; reflexivity.
Qed.

Print Assumptions R_mono_partial.
Print Assumptions R_mono_counterexample.
Print Assumptions R_empty.
Print Assumptions C01_string_step_refines_partial.
Print Assumptions C01_counterexample.
Print Assumptions C06_key_step_refines.
Print Assumptions C01_history_refines_partial.
