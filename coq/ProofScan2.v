(* ProofScan2.v — property C16, continued: the ordering hypothesis of ProofScan.v
   is an invariant of every operation, and iterations whose pages are
   interleaved with arbitrary operations. *)
From Redka Require Import Base Db Glob ImplKey ImplString ImplList ImplSet ImplHash ImplZSet Ops Inv Refine.
From Redka Require Import ProofInv ProofInv2 ProofScan ProofRefineStr ProofNoTrace.
From Coq Require Import Lia ZifyBool Sorted.

(* ================================================================== *)
(* Part A: one sweep over all operations                              *)
(* ================================================================== *)

(* A predicate on databases is [closed] when the elementary table changes keep
   it: id-preserving updates of rkey rows, deletions, an insert into rkey with
   the next id, anything on rstring / rlist, deletions from rset / rhash /
   rzset, updates of rhash / rzset rows that keep (rowid, kid, field|elem), and
   -- when the flag is set -- an insert with the next rowid. *)
Record closed (aS aH aZ : bool) (P : db -> Prop) : Prop := mkClosed {
  c_kmap : forall d f, (forall r, k_id (f r) = k_id r) -> P d -> P (set_rkey d (map f (rkey d)));
  c_kfilter : forall d p, P d -> P (set_rkey d (filter p (rkey d)));
  c_kadd : forall d r, k_id r = next_key_id d -> P d -> P (set_rkey d (rkey d ++ [r]));
  c_str : forall d x, P d -> P (set_rstring d x);
  c_list : forall d x, P d -> P (set_rlist d x);
  c_efilter : forall d p, P d -> P (set_rset d (filter p (rset d)));
  c_hfilter : forall d p, P d -> P (set_rhash d (filter p (rhash d)));
  c_zfilter : forall d p, P d -> P (set_rzset d (filter p (rzset d)));
  c_hmap : forall d g,
      (forall r, h_rid (g r) = h_rid r /\ h_kid (g r) = h_kid r /\ h_field (g r) = h_field r) ->
      P d -> P (set_rhash d (map g (rhash d)));
  c_zmap : forall d g,
      (forall r, z_rid (g r) = z_rid r /\ z_kid (g r) = z_kid r /\ z_elem (g r) = z_elem r) ->
      P d -> P (set_rzset d (map g (rzset d)));
  c_eadd : aS = true -> forall d kid e, P d -> P (set_rset d (rset d ++ [mkE (next_set_rid d) kid e]));
  c_hadd : aH = true -> forall d kid f v, P d -> P (set_rhash d (rhash d ++ [mkH (next_hash_rid d) kid f v]));
  c_zadd : aZ = true -> forall d kid e s, P d -> P (set_rzset d (rzset d ++ [mkZ (next_zset_rid d) kid e s])) }.

(* which operations insert rows into rset / rhash / rzset *)
Definition adds_set (o : op) : bool :=
  match o with EAdd _ _ | EStore _ _ _ | EMove _ _ _ => true | _ => false end.
Definition adds_hash (o : op) : bool :=
  match o with HSet _ _ _ | HSetMany _ _ | HSetNX _ _ _ | HIncr _ _ _ | HIncrFloat _ _ _ _ _ => true | _ => false end.
Definition adds_zset (o : op) : bool :=
  match o with ZAdd _ _ _ | ZAddMany _ _ | ZIncr _ _ _ | ZStore _ _ _ _ => true | _ => false end.

Section Sweep.
  Variables (aS aH aZ : bool) (P : db -> Prop).
  Hypothesis HC : closed aS aH aZ P.

  Definition keeps {A} (m : M A) : Prop := forall d, P d -> P (fst (m d)).

  Lemma keeps_RO {A} (m : M A) : RO m -> keeps m.
  Proof. intros H d Hd. rewrite H. exact Hd. Qed.

  Lemma keeps_bind {A B} (m : M A) (f : A -> M B) :
    keeps m -> (forall a, keeps (f a)) -> keeps (bind m f).
  Proof.
    intros Hm Hf d Hd. unfold bind. specialize (Hm d Hd). destruct (m d) as [d1 r].
    cbn [fst] in Hm. destruct r as [a|e]; [apply Hf; exact Hm | exact Hm].
  Qed.

  Lemma keeps_try {A B} (m : M A) (f : res A -> M B) :
    keeps m -> (forall r, keeps (f r)) -> keeps (try_ m f).
  Proof.
    intros Hm Hf d Hd. unfold try_. specialize (Hm d Hd). destruct (m d) as [d1 r].
    cbn [fst] in Hm. apply Hf; exact Hm.
  Qed.

  Lemma keeps_typed {A} (m : M A) : keeps m -> keeps (typed_error m).
  Proof.
    intros Hm d Hd. unfold typed_error. specialize (Hm d Hd). destruct (m d) as [d1 r].
    cbn [fst] in Hm.
    repeat match goal with |- context [match ?x with _ => _ end] => destruct x end; exact Hm.
  Qed.

  (* ---- the primitives of Db.v ---- *)

  Lemma L_upd_keys p f d :
    (forall x, p x = true -> k_id (f x) = k_id x) -> P d -> P (upd_keys p f d).
  Proof.
    intros Hf Hd. unfold upd_keys. apply (c_kmap _ _ _ _ HC); [|exact Hd].
    intros r. destruct (p r) eqn:E; [apply Hf; exact E | reflexivity].
  Qed.

  Lemma L_upd_key_id id f d :
    (forall x, k_id x = id -> k_id (f x) = id) -> P d -> P (upd_key_id id f d).
  Proof.
    intros Hf Hd. unfold upd_key_id. apply L_upd_keys; [|exact Hd].
    intros x Hx. apply Z.eqb_eq in Hx. rewrite (Hf x Hx). symmetry; exact Hx.
  Qed.

  Lemma L_bump now key typ n d : P d -> P (bump_key_len now key typ n d).
  Proof. intros Hd. unfold bump_key_len. apply L_upd_keys; [reflexivity | exact Hd]. Qed.

  Lemma L_trig_del now kid n d : P d -> P (trig_list_delete now kid n d).
  Proof.
    intros Hd. unfold trig_list_delete. destruct (n =? 0); [exact Hd|].
    apply L_upd_key_id; [|exact Hd]. intros x Hx. exact Hx.
  Qed.

  Lemma L_trig_upd now kid n d : P d -> P (trig_list_update now kid n d).
  Proof.
    intros Hd. unfold trig_list_update. destruct (n =? 0); [exact Hd|].
    apply L_upd_key_id; [|exact Hd]. intros x Hx. exact Hx.
  Qed.

  (* five child tables filtered at once *)
  Lemma L_children d ps pl pe ph pz :
    P d ->
    P (mkDb (rkey d) (filter ps (rstring d)) (filter pl (rlist d)) (filter pe (rset d))
            (filter ph (rhash d)) (filter pz (rzset d)) (fk_on d)).
  Proof.
    intros Hd.
    pose proof (c_str _ _ _ _ HC d (filter ps (rstring d)) Hd) as H1.
    pose proof (c_list _ _ _ _ HC _ (filter pl (rlist d)) H1) as H2.
    pose proof (c_efilter _ _ _ _ HC _ pe H2) as H3.
    pose proof (c_hfilter _ _ _ _ HC _ ph H3) as H4.
    pose proof (c_zfilter _ _ _ _ HC _ pz H4) as H5.
    destruct d; exact H5.
  Qed.

  Lemma L_delete_keys p d : P d -> P (fst (delete_keys p d)).
  Proof.
    intros Hd. unfold delete_keys. cbn [fst].
    pose proof (c_kfilter _ _ _ _ HC d (fun r => negb (p r)) Hd) as H1.
    destruct (fk_on d) eqn:F; [|exact H1].
    apply (L_children (set_rkey d (filter (fun r => negb (p r)) (rkey d)))). exact H1.
  Qed.

  Lemma L_reset now key typ d : P d -> P (reset_expired now key typ d).
  Proof.
    intros Hd. unfold reset_expired. destruct (find_key d key) as [r|]; [|exact Hd].
    destruct (expired now r); [|exact Hd].
    apply L_upd_key_id; [intros x Hx; exact Hx|].
    apply L_trig_del. apply L_children. exact Hd.
  Qed.

  Lemma keeps_upsert now key typ ne nl oc :
    (forall r, k_id (oc r) = k_id r) -> keeps (upsert_key now key typ ne nl oc).
  Proof.
    intros Hoc d Hd. unfold upsert_key.
    pose proof (L_reset now key typ d Hd) as H1.
    destruct (find_key (reset_expired now key typ d) key) as [r|].
    - destruct (k_type r =? typ); cbn [fst]; [|exact Hd].
      apply L_upd_key_id; [|exact H1]. intros x _. rewrite Hoc. reflexivity.
    - cbn [fst]. apply (c_kadd _ _ _ _ HC); [reflexivity | exact H1].
  Qed.

  Lemma L_efilter d p : P d -> P (set_rset d (filter p (rset d))).
  Proof. apply (c_efilter _ _ _ _ HC). Qed.
  Lemma L_hfilter d p : P d -> P (set_rhash d (filter p (rhash d))).
  Proof. apply (c_hfilter _ _ _ _ HC). Qed.
  Lemma L_zfilter d p : P d -> P (set_rzset d (filter p (rzset d))).
  Proof. apply (c_zfilter _ _ _ _ HC). Qed.
  Lemma L_str d x : P d -> P (set_rstring d x).
  Proof. apply (c_str _ _ _ _ HC). Qed.
  Lemma L_list d x : P d -> P (set_rlist d x).
  Proof. apply (c_list _ _ _ _ HC). Qed.
  Lemma L_upd_key_id_same id f d :
    (forall x, k_id (f x) = k_id x) -> P d -> P (upd_key_id id f d).
  Proof. intros Hf. apply L_upd_key_id. intros x Hx. rewrite Hf. exact Hx. Qed.

  Create HintDb kprim.
  Create HintDb kdb.
  #[local] Hint Resolve L_bump L_trig_del L_trig_upd L_efilter L_hfilter L_zfilter L_str L_list
    L_delete_keys L_reset : kprim.
  #[local] Hint Extern 2 (P (upd_key_id _ _ _)) => (apply L_upd_key_id_same; [intros; reflexivity|]) : kprim.
  #[local] Hint Extern 2 (P (upd_keys _ _ _)) => (apply L_upd_keys; [intros; reflexivity|]) : kprim.

  Ltac kd :=
    unfold keeps; intros ? ?;
    repeat (cbv beta iota zeta; dm); cbv beta iota zeta; cbn [fst]; eauto 6 with kprim.

  Ltac kp :=
    cbv beta iota zeta;
    first
      [ solve [auto with kdb]
      | solve [apply keeps_RO; auto with mdb]
      | lazymatch goal with
        | |- keeps (bind _ _) => apply keeps_bind; [kp | intro; kp]
        | |- keeps (try_ _ _) => apply keeps_try; [kp | intro; kp]
        | |- keeps (typed_error _) => apply keeps_typed; kp
        | |- keeps (ret _) => apply keeps_RO, RO_ret
        | |- keeps (fail _) => apply keeps_RO, RO_fail
        | |- keeps (lift_read _) => apply keeps_RO, RO_lift_read
        | |- keeps get_db => apply keeps_RO, RO_get_db
        | |- keeps (match ?x with _ => _ end) => destruct x eqn:?; kp
        | |- keeps (fun _ => _) => idtac
        | |- keeps ?m => let h := head m in unfold h; kp
        end ].

  Lemma fst_pair_eq {X} (pr : db * X) d' n : pr = (d', n) -> d' = fst pr.
  Proof. intros ->. reflexivity. Qed.

  (* ---- rkey ---- *)

  Lemma keeps_key_delete now keys : keeps (key_delete now keys).
  Proof.
    intros d Hd. unfold key_delete.
    match goal with |- context [delete_keys ?p d] => destruct (delete_keys p d) as [d' n] eqn:E end.
    cbn [fst]. rewrite (fst_pair_eq _ _ _ E). apply L_delete_keys; exact Hd.
  Qed.

  Lemma keeps_key_delete_all b : keeps (key_delete_all b).
  Proof.
    intros d Hd. unfold key_delete_all.
    match goal with |- context [delete_keys ?p d] => destruct (delete_keys p d) as [d' n] eqn:E end.
    rewrite (fst_pair_eq _ _ _ E). destruct b; cbn [fst]; apply L_delete_keys; exact Hd.
  Qed.

  Lemma keeps_key_delete_expired now n : keeps (key_delete_expired now n).
  Proof.
    intros d Hd. unfold key_delete_expired. destruct (0 <? n);
    match goal with |- context [delete_keys ?p d] => destruct (delete_keys p d) as [d' c] eqn:E end;
    cbn [fst]; rewrite (fst_pair_eq _ _ _ E); apply L_delete_keys; exact Hd.
  Qed.

  Lemma keeps_key_expire_at now key a : keeps (key_expire_at now key a).
  Proof. unfold key_expire_at. kd. Qed.
  Lemma keeps_key_persist now key : keeps (key_persist now key).
  Proof. unfold key_persist. kd. Qed.

  Lemma keeps_sql_rename now key newkey : keeps (sql_rename now key newkey).
  Proof.
    intros d Hd. unfold sql_rename. destruct (live_any now d key) as [old|]; [|exact Hd].
    match goal with |- context [delete_keys ?p d] => destruct (delete_keys p d) as [d' c] eqn:E end.
    cbn [fst]. rewrite (fst_pair_eq _ _ _ E). eauto with kprim.
  Qed.
  #[local] Hint Resolve keeps_key_delete keeps_key_delete_all keeps_key_delete_expired
    keeps_key_expire_at keeps_key_persist keeps_sql_rename : kdb.

  Lemma keeps_key_rename now key newkey : keeps (key_rename now key newkey).
  Proof. kp. Qed.
  Lemma keeps_key_rename_nx now key newkey : keeps (key_rename_nx now key newkey).
  Proof. kp. Qed.

  (* ---- rstring ---- *)

  Lemma keeps_sql_set2 key v : keeps (sql_set2 key v).
  Proof. unfold sql_set2. kd. Qed.
  Lemma keeps_upsert_etime now key typ ne nl at_ :
    keeps (upsert_key now key typ ne nl (fun r => with_etime r at_)).
  Proof. apply keeps_upsert. reflexivity. Qed.
  Lemma keeps_upsert_id now key typ ne nl : keeps (upsert_key now key typ ne nl (fun r => r)).
  Proof. apply keeps_upsert. reflexivity. Qed.
  Lemma keeps_upsert_len now key typ ne nl :
    keeps (upsert_key now key typ ne nl (fun r => with_len r (opt_add (k_len r) 1))).
  Proof. apply keeps_upsert. reflexivity. Qed.
  #[local] Hint Resolve keeps_sql_set2 keeps_upsert_etime keeps_upsert_id keeps_upsert_len : kdb.

  Lemma keeps_str_set_at now key v a : keeps (str_set_at now key v a).
  Proof. kp. Qed.
  Lemma keeps_str_update now key v : keeps (str_update now key v).
  Proof. kp. Qed.
  #[local] Hint Resolve keeps_str_set_at keeps_str_update : kdb.
  Lemma keeps_str_set_expires now key v t : keeps (str_set_expires now key v t).
  Proof. kp. Qed.
  Lemma keeps_str_set_each now items : keeps (str_set_each now items).
  Proof. induction items as [|[k v] r IH]; cbn [str_set_each]; kp. Qed.
  #[local] Hint Resolve keeps_str_set_expires keeps_str_set_each : kdb.
  Lemma keeps_str_set_many now items : keeps (str_set_many now items).
  Proof. kp. Qed.
  Lemma keeps_str_incr now key dl : keeps (str_incr now key dl).
  Proof. kp. Qed.
  Lemma keeps_str_incr_float now key dl p f : keeps (str_incr_float now key dl p f).
  Proof. kp. Qed.

  Lemma L_str_set_with now key v o d : P d -> P (fst (str_set_with now key v o d)).
  Proof.
    intros Hd. unfold str_set_with.
    destruct (negb (is_value_type v)); [exact Hd|].
    destruct (str_get now key d) as [d0 r].
    destruct (so_ifx o && negb match r with Err ENotFound => false | _ => true end); [exact Hd|].
    destruct (so_ifnx o && match r with Err ENotFound => false | _ => true end); [exact Hd|].
    assert (H : P (fst ((if so_keep o then str_update now key v
                         else str_set_at now key v (if 0 <? so_ttl o then Some (now + so_ttl o) else so_at o)) d))).
    { destruct (so_keep o); [apply keeps_str_update | apply keeps_str_set_at]; exact Hd. }
    match goal with |- context [let '(d', w) := ?m in _] => destruct m as [d' w] end.
    cbn [fst] in H. destruct w; exact H.
  Qed.

  (* ---- rlist ---- *)

  Lemma L_delete_rows now kid vs d : P d -> P (fst (delete_rows now kid vs d)).
  Proof. intros Hd. unfold delete_rows. cbn [fst]. eauto with kprim. Qed.
  #[local] Hint Resolve L_delete_rows : kprim.

  Lemma keeps_insert_row kid pos e : keeps (insert_row kid pos e).
  Proof. unfold insert_row. kd. Qed.
  Lemma keeps_sql_insert now key : keeps (sql_insert now key).
  Proof.
    intros d Hd. unfold sql_insert. destruct (live_key now d key T_LIST) as [r|]; [|exact Hd].
    cbn [fst]. apply L_upd_key_id; [intros x _; reflexivity | exact Hd].
  Qed.
  #[local] Hint Resolve keeps_insert_row keeps_sql_insert : kdb.

  Lemma keeps_list_push now key v front : keeps (list_push now key v front).
  Proof. kp. Qed.

  Lemma keeps_list_pop now key back : keeps (list_pop now key back).
  Proof.
    intros d Hd. unfold list_pop. destruct (live_key now d key T_LIST) as [k|]; [|exact Hd].
    destruct (if back then rows_desc d (k_id k) else rows_asc d (k_id k)) as [|r rs]; [exact Hd|].
    destruct (delete_rows now (k_id k) [r] d) as [d' n] eqn:E. cbn [fst].
    rewrite (fst_pair_eq _ _ _ E). apply L_delete_rows; exact Hd.
  Qed.
  #[local] Hint Resolve keeps_list_push keeps_list_pop : kdb.

  Lemma keeps_list_delete now key v : keeps (list_delete now key v).
  Proof.
    unfold list_delete. apply keeps_bind; [kp|]. intros eb d Hd.
    destruct (live_key now d key T_LIST) as [k|]; [|exact Hd].
    destruct eb as [e|]; [|exact Hd].
    match goal with |- context [delete_rows ?a ?b ?c d] => destruct (delete_rows a b c d) as [d' n] eqn:E end.
    cbn [fst]. rewrite (fst_pair_eq _ _ _ E). apply L_delete_rows; exact Hd.
  Qed.

  Lemma keeps_list_delete_n now key v count back : keeps (list_delete_n now key v count back).
  Proof.
    unfold list_delete_n. destruct (count <=? 0); [kp|]. apply keeps_bind; [kp|]. intros eb d Hd.
    destruct (live_key now d key T_LIST) as [k|]; [|exact Hd].
    destruct eb as [e|]; [|exact Hd].
    match goal with |- context [delete_rows ?a ?b ?c d] => destruct (delete_rows a b c d) as [d' n] eqn:E end.
    cbn [fst]. rewrite (fst_pair_eq _ _ _ E). apply L_delete_rows; exact Hd.
  Qed.

  Lemma keeps_list_set now key idx v : keeps (list_set now key idx v).
  Proof.
    unfold list_set. apply keeps_bind; [kp|]. intros eb d Hd.
    destruct (norm_idx idx) as [rv i].
    destruct (live_key now d key T_LIST) as [k|]; [|exact Hd].
    destruct (znth i _) as [r|]; [|exact Hd].
    destruct eb as [e|]; [|exact Hd]. cbn [fst]. eauto with kprim.
  Qed.

  Lemma keeps_list_trim now key start stop : keeps (list_trim now key start stop).
  Proof.
    intros d Hd. unfold list_trim. destruct (live_key now d key T_LIST) as [r|]; [|exact Hd].
    destruct (range_window (k_len r) start stop) as [off cnt].
    match goal with |- context [delete_rows ?a ?b ?c d] => destruct (delete_rows a b c d) as [d' n] eqn:E end.
    cbn [fst]. rewrite (fst_pair_eq _ _ _ E). apply L_delete_rows; exact Hd.
  Qed.

  Lemma L_list_insert now key pivot elem after d : P d -> P (fst (list_insert now key pivot elem after d)).
  Proof.
    intros Hd. unfold list_insert.
    destruct (to_bytes pivot) as [pb|]; [|exact Hd].
    destruct (to_bytes elem) as [eb|]; [|exact Hd].
    destruct (live_key now d key T_LIST) as [k0|]; [|exact Hd].
    destruct (list_rows d (k_id k0)) as [|x xs]; [exact Hd|].
    pose proof (keeps_insert_row (k_id k0) (insert_pos d (k_id k0) pb after) eb d Hd) as H1.
    destruct (insert_row (k_id k0) (insert_pos d (k_id k0) pb after) eb d) as [d1 w].
    cbn [fst] in H1. destruct w as [u|e].
    - pose proof (keeps_sql_insert now key d1 H1) as H2.
      destruct (sql_insert now key d1) as [d2 r]. cbn [fst] in H2.
      repeat match goal with |- context [match ?x with _ => _ end] => destruct x end; exact H2.
    - repeat match goal with |- context [match ?x with _ => _ end] => destruct x end; exact H1.
  Qed.

  Lemma L_list_pop_push now src dest d : P d -> P (fst (list_pop_push now src dest d)).
  Proof.
    intros Hd. unfold list_pop_push.
    pose proof (keeps_list_pop now src true d Hd) as H1.
    destruct (list_pop now src true d) as [d1 r]. cbn [fst] in H1.
    destruct r as [e|er]; [|exact H1].
    pose proof (keeps_list_push now dest (ABytes e) true d1 H1) as H2.
    destruct (list_push now dest (ABytes e) true d1) as [d2 w]. cbn [fst] in H2.
    destruct w; exact H2.
  Qed.

  (* ---- rset ---- *)

  Lemma keeps_set_add2 kid e : aS = true -> keeps (set_add2 kid e).
  Proof.
    intros Ha d Hd. unfold set_add2. destruct e as [e|]; [|exact Hd].
    destruct (existsb _ (rset d)); [exact Hd|]. cbn [fst].
    apply L_upd_key_id_same; [reflexivity|]. apply (c_eadd _ _ _ _ HC Ha). exact Hd.
  Qed.

  Lemma keeps_set_add_each kid es : aS = true -> forall n, keeps (set_add_each kid es n).
  Proof.
    intros Ha. induction es as [|e r IH]; intros n; cbn [set_add_each]; [kp|].
    apply keeps_bind; [apply keeps_set_add2; exact Ha | intros c; apply IH].
  Qed.

  Lemma keeps_set_add_all kid es : aS = true -> keeps (set_add_all kid es).
  Proof.
    intros Ha. induction es as [|e r IH]; cbn [set_add_all]; [kp|].
    apply keeps_bind; [apply keeps_set_add2; exact Ha | intros c; apply IH].
  Qed.

  Lemma keeps_set_add1 now key : keeps (set_add1 now key).
  Proof. kp. Qed.
  #[local] Hint Resolve keeps_set_add1 : kdb.

  Lemma keeps_set_add now key vs : aS = true -> keeps (set_add now key vs).
  Proof.
    intros Ha. unfold set_add. apply keeps_bind; [kp|]. intros eb.
    apply keeps_bind; [kp|]. intros k. apply keeps_set_add_each; exact Ha.
  Qed.

  Lemma keeps_set_delete now key vs : keeps (set_delete now key vs).
  Proof. unfold set_delete. apply keeps_bind; [kp|]. intros eb. kd. Qed.
  Lemma keeps_set_delete_key now key : keeps (set_delete_key now key).
  Proof. unfold set_delete_key. kd. Qed.
  Lemma keeps_set_pop now key c : keeps (set_pop now key c).
  Proof. unfold set_pop. kd. Qed.
  #[local] Hint Resolve keeps_set_delete keeps_set_delete_key keeps_set_pop : kdb.

  Lemma keeps_set_replace now dest elems : aS = true -> keeps (set_replace now dest elems).
  Proof.
    intros Ha. unfold set_replace. apply keeps_bind; [kp|]. intros _.
    apply keeps_bind; [kp|]. intros k.
    apply keeps_bind; [apply keeps_set_add_all; exact Ha|]. intros _. kp.
  Qed.

  Lemma keeps_set_store a now dest keys : aS = true -> keeps (set_store a now dest keys).
  Proof.
    intros Ha. unfold set_store. destruct keys as [|k0 ks]; [kp|].
    apply keeps_bind; [kp|]. intros elems. apply keeps_set_replace; exact Ha.
  Qed.

  Lemma keeps_set_move now src dest v : aS = true -> keeps (set_move now src dest v).
  Proof.
    intros Ha. unfold set_move. apply keeps_bind; [kp|]. intros n.
    destruct (n =? 0); [kp|]. apply keeps_bind; [apply keeps_set_add; exact Ha|]. intros _. kp.
  Qed.

  (* ---- rhash ---- *)

  Lemma keeps_hash_set2 kid field v : aH = true -> keeps (hash_set2 kid field v).
  Proof.
    intros Ha d Hd. unfold hash_set2. destruct v as [v|]; [|exact Hd].
    destruct (existsb _ (rhash d)); cbn [fst].
    - apply (c_hmap _ _ _ _ HC); [|exact Hd]. intros r.
      destruct ((h_kid r =? kid) && String.eqb (h_field r) field) eqn:E; [|auto].
      apply andb_true_iff in E as [E1 E2]. apply Z.eqb_eq in E1. apply String.eqb_eq in E2.
      cbn. auto.
    - match goal with |- P (set_rhash ?d1 _) => apply (c_hadd _ _ _ _ HC Ha d1) end.
      apply L_upd_key_id_same; [reflexivity | exact Hd].
  Qed.

  Lemma keeps_hash_set1 now key : keeps (hash_set1 now key).
  Proof. kp. Qed.
  #[local] Hint Resolve keeps_hash_set1 : kdb.

  Lemma keeps_hash_set_raw now key field v : aH = true -> keeps (hash_set_raw now key field v).
  Proof.
    intros Ha. unfold hash_set_raw. destruct (to_bytes v); [|kp].
    apply keeps_bind; [kp|]. intros k. apply keeps_hash_set2; exact Ha.
  Qed.

  Lemma keeps_hash_delete now key fields : keeps (hash_delete now key fields).
  Proof. unfold hash_delete. kd. Qed.

  Lemma keeps_hash_incr now key field dl : aH = true -> keeps (hash_incr now key field dl).
  Proof.
    intros Ha. pose proof (fun v => keeps_hash_set_raw now key field v Ha) as K.
    unfold hash_incr. apply keeps_try; [kp|]. intros r.
    assert (G : forall cur, keeps (match value_int cur with
       | None => fail EValueType
       | Some n => if negb (in_int64 (n + dl)) then fail EValueType
                   else hash_set_raw now key field (AInt (n + dl)) ;;; ret (n + dl) end)).
    { intros cur. destruct (value_int cur) as [n|]; [|kp].
      destruct (negb (in_int64 (n + dl))); [kp|]. apply keeps_bind; [apply K|]. intros _. kp. }
    destruct r as [v|e]; [apply G|]. destruct e; try (apply keeps_RO, RO_fail). apply G.
  Qed.

  Lemma keeps_hash_incr_float now key field dl p f : aH = true -> keeps (hash_incr_float now key field dl p f).
  Proof.
    intros Ha. pose proof (fun v => keeps_hash_set_raw now key field v Ha) as K.
    unfold hash_incr_float. apply keeps_try; [kp|]. intros r.
    assert (G : forall (o : option float), keeps (match o with
       | None => fail EValueType
       | Some x => hash_set_raw now key field (AFloat (x + dl)%float (f (x + dl)%float)) ;;; ret (x + dl)%float end)).
    { intros o. destruct o as [x|]; [|kp]. apply keeps_bind; [apply K|]. intros _. kp. }
    destruct r as [v|e]; [apply G|]. destruct e; try (apply keeps_RO, RO_fail). apply (G (Some zero)).
  Qed.

  Lemma keeps_hash_set now key field v : aH = true -> keeps (hash_set now key field v).
  Proof.
    intros Ha. unfold hash_set. destruct (negb (is_value_type v)); [kp|].
    apply keeps_bind; [kp|]. intros c.
    apply keeps_bind; [apply keeps_hash_set_raw; exact Ha|]. intros _. kp.
  Qed.

  Lemma keeps_hash_set_each now key items : aH = true -> keeps (hash_set_each now key items).
  Proof.
    intros Ha. induction items as [|[f v] r IH]; cbn [hash_set_each]; [kp|].
    apply keeps_bind; [apply keeps_hash_set_raw; exact Ha | intros _; exact IH].
  Qed.

  Lemma keeps_hash_set_many now key items : aH = true -> keeps (hash_set_many now key items).
  Proof.
    intros Ha. unfold hash_set_many. destruct (negb _); [kp|].
    apply keeps_bind; [kp|]. intros c.
    apply keeps_bind; [apply keeps_hash_set_each; exact Ha|]. intros _. kp.
  Qed.

  Lemma keeps_hash_set_nx now key field v : aH = true -> keeps (hash_set_nx now key field v).
  Proof.
    intros Ha. unfold hash_set_nx. destruct (negb (is_value_type v)); [kp|].
    apply keeps_bind; [kp|]. intros ex. destruct ex; [kp|].
    apply keeps_bind; [apply keeps_hash_set_raw; exact Ha|]. intros _. kp.
  Qed.

  (* ---- rzset ---- *)

  Lemma keeps_zset_upsert kid elem score comb : aZ = true -> keeps (zset_upsert kid elem score comb).
  Proof.
    intros Ha d Hd. unfold zset_upsert. destruct elem as [e|]; [|exact Hd].
    destruct (find _ (rzset d)) as [old|].
    - destruct (negb _); [exact Hd|]. cbn [fst].
      apply (c_zmap _ _ _ _ HC); [|exact Hd]. intros r.
      destruct ((z_kid r =? kid) && String.eqb (z_elem r) e) eqn:E; [|auto].
      apply andb_true_iff in E as [E1 E2]. apply Z.eqb_eq in E1. apply String.eqb_eq in E2.
      cbn. auto.
    - destruct (negb _); [exact Hd|]. cbn [fst].
      match goal with |- P (set_rzset ?d1 _) => apply (c_zadd _ _ _ _ HC Ha d1) end.
      apply L_upd_key_id_same; [reflexivity | exact Hd].
  Qed.

  Lemma keeps_zset_add1 now key : keeps (zset_add1 now key).
  Proof. kp. Qed.
  #[local] Hint Resolve keeps_zset_add1 : kdb.

  Lemma keeps_zset_add_raw now key v score : aZ = true -> keeps (zset_add_raw now key v score).
  Proof.
    intros Ha. unfold zset_add_raw. destruct (to_bytes v); [|kp].
    apply keeps_bind; [kp|]. intros k.
    apply keeps_bind; [apply keeps_zset_upsert; exact Ha|]. intros _. kp.
  Qed.

  Lemma keeps_zset_add now key v score : aZ = true -> keeps (zset_add now key v score).
  Proof.
    intros Ha. unfold zset_add. apply keeps_bind; [kp|]. intros eb.
    apply keeps_bind; [kp|]. intros c.
    apply keeps_bind; [apply keeps_zset_add_raw; exact Ha|]. intros _. kp.
  Qed.

  Lemma keeps_zset_add_each now key items : aZ = true -> keeps (zset_add_each now key items).
  Proof.
    intros Ha. induction items as [|[v s] r IH]; cbn [zset_add_each]; [kp|].
    apply keeps_bind; [apply keeps_zset_add_raw; exact Ha | intros _; exact IH].
  Qed.

  Lemma keeps_zset_add_many now key items : aZ = true -> keeps (zset_add_many now key items).
  Proof.
    intros Ha. unfold zset_add_many. apply keeps_bind; [kp|]. intros eb.
    apply keeps_bind; [kp|]. intros c.
    apply keeps_bind; [apply keeps_zset_add_each; exact Ha|]. intros _. kp.
  Qed.

  Lemma keeps_zset_delete now key vs : keeps (zset_delete now key vs).
  Proof. unfold zset_delete. apply keeps_bind; [kp|]. intros eb. kd. Qed.
  Lemma keeps_delete_zrows now key vs : keeps (delete_zrows now key vs).
  Proof. unfold delete_zrows. kd. Qed.
  Lemma keeps_zset_delete_key now key : keeps (zset_delete_key now key).
  Proof. unfold zset_delete_key. kd. Qed.
  #[local] Hint Resolve keeps_zset_delete keeps_delete_zrows keeps_zset_delete_key : kdb.

  Lemma keeps_zset_delete_rank now key a b : keeps (zset_delete_rank now key a b).
  Proof. kp. Qed.
  Lemma keeps_zset_delete_score now key lo hi : keeps (zset_delete_score now key lo hi).
  Proof. kp. Qed.

  Lemma keeps_zset_incr now key v dl : aZ = true -> keeps (zset_incr now key v dl).
  Proof.
    intros Ha. unfold zset_incr. apply keeps_bind; [kp|]. intros eb.
    apply keeps_bind; [kp|]. intros k. apply keeps_zset_upsert; exact Ha.
  Qed.

  Lemma keeps_zset_add_all kid rows : aZ = true -> keeps (zset_add_all kid rows).
  Proof.
    intros Ha. induction rows as [|r rest IH]; cbn [zset_add_all]; [kp|].
    apply keeps_bind; [apply keeps_zset_upsert; exact Ha | intros _; exact IH].
  Qed.

  Lemma keeps_zset_store inter g now dest keys : aZ = true -> keeps (zset_store inter g now dest keys).
  Proof.
    intros Ha. unfold zset_store. apply keeps_bind; [kp|]. intros items.
    apply keeps_bind; [kp|]. intros _. apply keeps_bind; [kp|]. intros k.
    apply keeps_bind; [apply keeps_zset_add_all; exact Ha|]. intros _. kp.
  Qed.

  (* ---- every operation ---- *)

  Lemma wrapped_keeps {A} (m : M A) f d :
    keeps m -> P d -> P (if is_err (snd (run m f d)) then d else fst (run m f d)).
  Proof.
    intros Hm Hd. destruct (is_err _); [exact Hd|]. rewrite run_fst. apply Hm; exact Hd.
  Qed.

  Theorem exec_db_keeps now o d :
    (adds_set o = true -> aS = true) -> (adds_hash o = true -> aH = true) ->
    (adds_zset o = true -> aZ = true) ->
    P d -> P (fst (exec_db now o d)).
  Proof.
    intros HS HH HZ Hd.
    destruct (is_read o) eqn:R.
    { assert (W : wrapped o = false) by (destruct o; try discriminate R; reflexivity).
      rewrite exec_unwrapped_fst by exact W. rewrite read_no_trace by exact R. exact Hd. }
    destruct o; try discriminate R;
      first [ rewrite exec_unwrapped_fst by reflexivity; cbn [exec_tx]; rewrite run_fst
            | rewrite exec_wrapped_fst by reflexivity; cbn [exec_tx];
              first [ apply wrapped_keeps; [|exact Hd]
                    | match goal with |- P (if ?c then _ else _) => destruct c; [exact Hd|] end ] ];
      cbn [adds_set adds_hash adds_zset] in HS, HH, HZ;
      try specialize (HS eq_refl); try specialize (HH eq_refl); try specialize (HZ eq_refl).
    all: try (solve [ auto with kdb ]).
    all: first
      [ apply keeps_key_delete | apply keeps_key_delete_all | apply keeps_key_delete_expired
      | apply keeps_key_expire_at | apply keeps_key_persist | apply keeps_key_rename
      | apply keeps_key_rename_nx | apply keeps_str_incr | apply keeps_str_incr_float
      | apply keeps_str_set_many | apply L_str_set_with | apply keeps_list_delete
      | apply keeps_list_delete_n | apply L_list_insert | apply L_list_pop_push
      | apply keeps_list_set | apply keeps_list_trim | apply keeps_set_add | apply keeps_set_store
      | apply keeps_set_move | apply keeps_hash_delete | apply keeps_hash_incr
      | apply keeps_hash_incr_float | apply keeps_hash_set | apply keeps_hash_set_many
      | apply keeps_hash_set_nx | apply keeps_zset_add | apply keeps_zset_add_many
      | apply keeps_zset_delete_rank | apply keeps_zset_delete_score | apply keeps_zset_incr
      | apply keeps_zset_store ]; assumption.
  Qed.
End Sweep.

Arguments exec_db_keeps {aS aH aZ P} HC now o d _ _ _ _.

(* ================================================================== *)
(* Part B: ids_ascending is an invariant                              *)
(* ================================================================== *)

Definition okl (l : list Z) : bool := ascending l && forallb (fun z => 0 <? z) l.

Lemma forallb_pos_map {A} (id : A -> Z) l :
  forallb (fun r => 0 <? id r) l = forallb (fun z => 0 <? z) (map id l).
Proof. induction l as [|x l IH]; cbn [map forallb]; [reflexivity | rewrite IH; reflexivity]. Qed.

Lemma ids_ascending_okl d :
  ids_ascending d = true <->
  okl (map k_id (rkey d)) = true /\ okl (map e_rid (rset d)) = true /\
  okl (map h_rid (rhash d)) = true /\ okl (map z_rid (rzset d)) = true.
Proof.
  unfold ids_ascending, okl.
  rewrite (forallb_pos_map k_id), (forallb_pos_map e_rid), (forallb_pos_map h_rid), (forallb_pos_map z_rid).
  rewrite !andb_true_iff. tauto.
Qed.

Lemma ascending_iff l : ascending l = true <-> StronglySorted Z.lt l.
Proof.
  split.
  - intros H. rewrite <- (map_id l) in H. apply ascending_Asc in H.
    unfold Asc in H. exact H.
  - induction 1 as [|a l Hs IH Hf]; [reflexivity|].
    destruct l as [|b l']; [reflexivity|].
    change (ascending (a :: b :: l')) with ((a <? b) && ascending (b :: l')). rewrite IH, andb_true_r.
    inversion Hf; subst. lia.
Qed.

Lemma SS_map_filter {A} (id : A -> Z) p l :
  StronglySorted Z.lt (map id l) -> StronglySorted Z.lt (map id (filter p l)).
Proof.
  induction l as [|x l IH]; cbn [map filter]; intros H; [constructor|].
  inversion H as [|? ? Hs Hf]; subst. destruct (p x); [|apply IH; exact Hs].
  cbn [map]. constructor; [apply IH; exact Hs|].
  rewrite Forall_forall in *. intros y Hy. apply in_map_iff in Hy as [z [<- Hz]].
  apply filter_In in Hz as [Hz _]. apply Hf, in_map, Hz.
Qed.

Lemma okl_filter {A} (id : A -> Z) p l : okl (map id l) = true -> okl (map id (filter p l)) = true.
Proof.
  unfold okl. rewrite !andb_true_iff. intros [H1 H2]. split.
  - apply ascending_iff, SS_map_filter, ascending_iff, H1.
  - rewrite <- (forallb_pos_map id) in *. apply forallb_filter. exact H2.
Qed.

Lemma okl_map {A} (id : A -> Z) g l :
  (forall r, id (g r) = id r) -> okl (map id l) = true -> okl (map id (map g l)) = true.
Proof.
  intros Hg H. rewrite map_map. rewrite (map_ext _ id); [exact H | exact Hg].
Qed.

Lemma okl_snoc l : okl l = true -> okl (l ++ [zmax_list l + 1]) = true.
Proof.
  unfold okl. rewrite !andb_true_iff. intros [H1 H2]. split.
  - apply ascending_snoc; [exact H1|]. intros y Hy. apply zmax_ge_in in Hy. lia.
  - rewrite forallb_app, H2. cbn [forallb andb]. pose proof (zmax_ge0 l). rewrite andb_true_r. lia.
Qed.

Lemma okl_snoc_map {A} (id : A -> Z) l x :
  id x = zmax_list (map id l) + 1 -> okl (map id l) = true -> okl (map id (l ++ [x])) = true.
Proof. intros E H. rewrite map_app. cbn [map]. rewrite E. apply okl_snoc. exact H. Qed.

Lemma ids_ascending_closed : closed true true true (fun d => ids_ascending d = true).
Proof.
  constructor; intros;
    repeat match goal with H : ids_ascending _ = true |- _ => apply ids_ascending_okl in H; destruct H as (HK & HE & HH & HZ) end;
    apply ids_ascending_okl;
    cbn [set_rkey set_rstring set_rlist set_rset set_rhash set_rzset rkey rset rhash rzset];
    repeat split; try assumption;
    first [ apply okl_filter; assumption
          | apply okl_map; [|assumption]; intros r0;
            match goal with Hg : forall r, _ |- _ => first [ apply Hg | apply (Hg r0) ] end
          | apply okl_snoc_map; [|assumption]; first [assumption | reflexivity] ].
Qed.

Theorem ids_ascending_preserved : forall now o d,
  Inv d -> ids_ascending d = true -> ids_ascending (fst (exec_db now o d)) = true.
Proof.
  intros now o d _ H.
  apply (exec_db_keeps ids_ascending_closed now o d); auto.
Qed.

Lemma run_impl_fst_cons t o h d : fst (run_impl ((t, o) :: h) d) = fst (run_impl h (fst (exec_db t o d))).
Proof.
  cbn [run_impl]. destruct (exec_db t o d) as [d1 x]. cbn [fst].
  destruct (run_impl h d1) as [d2 xs]. reflexivity.
Qed.

Lemma ids_ascending_history : forall h d, Inv d -> ids_ascending d = true ->
  Inv (fst (run_impl h d)) /\ ids_ascending (fst (run_impl h d)) = true.
Proof.
  induction h as [|[t o] h IH]; intros d I H; [split; assumption|].
  rewrite run_impl_fst_cons. apply IH.
  - apply C11_inv_preserved; exact I.
  - apply ids_ascending_preserved; assumption.
Qed.

Theorem ids_ascending_reachable : forall h, ids_ascending (fst (run_impl h empty_db)) = true.
Proof.
  intros h. apply ids_ascending_history; [apply inv_empty | reflexivity].
Qed.

(* ================================================================== *)
(* Part C: pages taken from a CHANGING list                           *)
(* ================================================================== *)

Section GenericSeq.
  Context {A : Type} (id : A -> Z).
  Variable count : Z.
  Variable cur : list A -> Z.
  Hypothesis Hcount : count <> 0.
  Hypothesis Hcur : forall p x, Asc id (p ++ [x]) -> 0 < id x -> cur (p ++ [x]) = id x.

  (* the i-th page is cut from the i-th list with the cursor of page i-1; the
     flag says that an empty page was reached *)
  Fixpoint gseq (Ls : list (list A)) (c : Z) : list A * bool :=
    match Ls with
    | [] => ([], false)
    | L :: rest =>
        match gpage id count L c with
        | [] => ([], true)
        | pg => (pg ++ fst (gseq rest (cur pg)), snd (gseq rest (cur pg)))
        end
    end.

  Definition goodL (L : list A) : Prop := Asc id L /\ forall a, In a L -> 0 < id a.

  Lemma Asc_app_intro p q :
    Asc id p -> Asc id q -> (forall a b, In a p -> In b q -> id a < id b) -> Asc id (p ++ q).
  Proof.
    induction p as [|x p IH]; cbn [app]; intros Hp Hq Hpq; [exact Hq|].
    inversion Hp as [|? ? Hs Hf]; subst. constructor.
    - apply IH; [exact Hs | exact Hq | intros a b Ha Hb; apply Hpq; [right; exact Ha | exact Hb]].
    - rewrite Forall_forall in *. intros y Hy. apply in_app_or in Hy as [Hy|Hy].
      + apply Hf, Hy.
      + apply Hpq; [left; reflexivity | exact Hy].
  Qed.

  (* one non-empty page *)
  Lemma page_facts L c y pg : goodL L -> gpage id count L c = y :: pg ->
    exists p x, y :: pg = p ++ [x] /\ cur (y :: pg) = id x /\ c < id x /\
      after id L c = (y :: pg) ++ after id L (id x) /\
      Asc id (y :: pg) /\ (forall a, In a (y :: pg) -> In a L /\ c < id a /\ id a <= id x).
  Proof.
    intros [HL Hpos] Hp.
    destruct (@exists_last _ (y :: pg)) as [p [x Hpx]]; [discriminate|].
    assert (Hp' : gpage id count L c = p ++ [x]) by congruence.
    destruct (gpage_step id count L cur HL Hpos Hcur c x p Hp') as [Hc [Hlt [Hx Hsplit]]].
    exists p, x. rewrite <- Hp. split; [congruence|]. split; [exact Hc|]. split; [exact Hlt|].
    split; [exact Hsplit|].
    assert (Ha : Asc id (after id L c)) by (apply Asc_filter, HL).
    rewrite Hsplit in Ha. destruct (Asc_app id _ _ Ha) as [Hpg [_ _]].
    split; [exact Hpg|].
    intros a Hin.
    assert (Hin' : In a (after id L c)) by (rewrite Hsplit; apply in_or_app; left; exact Hin).
    unfold after in Hin'. apply filter_In in Hin' as [HinL Hca].
    split; [exact HinL|]. split; [lia|].
    rewrite Hp' in Hin, Hpg. apply in_app_or in Hin as [Hin|[<-|[]]]; [|lia].
    destruct (Asc_app id _ _ Hpg) as [_ [_ Hl2]].
    assert (id a < id x) by (apply Hl2; [exact Hin | left; reflexivity]). lia.
  Qed.

  (* the concatenated pages ascend strictly: nothing is returned twice *)
  Lemma gseq_sorted : forall Ls c, Forall goodL Ls ->
    Asc id (fst (gseq Ls c)) /\ forall a, In a (fst (gseq Ls c)) -> c < id a.
  Proof.
    induction Ls as [|L rest IH]; intros c HG; cbn [gseq].
    - split; [constructor | intros a []].
    - inversion HG as [|? ? HL HR]; subst.
      destruct (gpage id count L c) as [|y pg] eqn:Hp.
      + split; [constructor | intros a []].
      + destruct (page_facts L c y pg HL Hp) as [p [x [Hpx [Hc [Hlt [Hsplit [Hpg Hin]]]]]]].
        cbn [fst]. destruct (IH (cur (y :: pg)) HR) as [Hs Hb]. rewrite Hc in Hs, Hb. rewrite Hc.
        split.
        * apply Asc_app_intro; [exact Hpg | exact Hs|].
          intros a b Ha Hb'. specialize (Hb b Hb'). destruct (Hin a Ha) as [_ [_ Hle]]. lia.
        * intros a Ha. apply in_app_or in Ha as [Ha|Ha].
          -- destruct (Hin a Ha) as [_ [H1 _]]. exact H1.
          -- specialize (Hb a Ha). lia.
  Qed.

  Lemma gseq_in : forall Ls c a, Forall goodL Ls -> In a (fst (gseq Ls c)) -> exists L, In L Ls /\ In a L.
  Proof.
    induction Ls as [|L rest IH]; intros c a HG; cbn [gseq]; [intros []|].
    inversion HG as [|? ? HL HR]; subst.
    destruct (gpage id count L c) as [|y pg] eqn:Hp; [intros []|].
    destruct (page_facts L c y pg HL Hp) as [p [x [Hpx [Hc [Hlt [Hsplit [Hpg Hin]]]]]]].
    cbn [fst]. intros Ha. apply in_app_or in Ha as [Ha|Ha].
    - exists L. split; [left; reflexivity | apply Hin, Ha].
    - destruct (IH _ a HR Ha) as [L' [H1 H2]]. exists L'. split; [right; exact H1 | exact H2].
  Qed.

  (* a row id that is in every list is returned when the iteration finishes *)
  Lemma gseq_crossing r : forall Ls c, Forall goodL Ls ->
    snd (gseq Ls c) = true -> c < r ->
    (forall L, In L Ls -> exists a, In a L /\ id a = r) ->
    exists a, In a (fst (gseq Ls c)) /\ id a = r.
  Proof.
    induction Ls as [|L rest IH]; intros c HG Hfin Hcr Hall; cbn [gseq] in *; [discriminate|].
    inversion HG as [|? ? HL HR]; subst.
    destruct (Hall L (or_introl eq_refl)) as [a [HaL Har]].
    assert (Haft : In a (after id L c)).
    { unfold after. apply filter_In. split; [exact HaL | lia]. }
    destruct (gpage id count L c) as [|y pg] eqn:Hp.
    - exfalso. apply (lim_nil_inv count) in Hp; [|exact Hcount].
      fold (after id L c) in Hp. rewrite Hp in Haft. destruct Haft.
    - destruct (page_facts L c y pg HL Hp) as [p [x [Hpx [Hc [Hlt [Hsplit [Hpg Hin]]]]]]].
      cbn [fst snd] in *. rewrite Hsplit in Haft. apply in_app_or in Haft as [H1|H1].
      + exists a. split; [apply in_or_app; left; exact H1 | exact Har].
      + unfold after in H1. apply filter_In in H1 as [_ H1].
        destruct (IH (cur (y :: pg)) HR Hfin) as [b [Hb1 Hb2]].
        * rewrite Hc. lia.
        * intros L' HL'. apply Hall. right; exact HL'.
        * exists b. split; [apply in_or_app; right; exact Hb1 | exact Hb2].
  Qed.

  Lemma Asc_count r l : Asc id l -> (List.length (filter (fun a => Z.eqb (id a) r) l) <= 1)%nat.
  Proof.
    induction 1 as [|a l Hs IH Hf]; cbn [filter List.length]; [lia|].
    destruct (id a =? r) eqn:E; [|exact IH]. cbn [List.length].
    rewrite (filter_false_all _ l); [cbn [List.length]; lia|].
    rewrite Forall_forall in Hf. intros b Hb. specialize (Hf b Hb). lia.
  Qed.

  Lemma in_count r l a : In a l -> id a = r -> (1 <= List.length (filter (fun a => Z.eqb (id a) r) l))%nat.
  Proof.
    intros Ha Hr. assert (H : In a (filter (fun a => Z.eqb (id a) r) l)) by (apply filter_In; split; [exact Ha | lia]).
    destruct (filter _ l); [destruct H | cbn [List.length]; lia].
  Qed.

  Theorem gseq_at_most_once r Ls c : Forall goodL Ls ->
    (List.length (filter (fun a => Z.eqb (id a) r) (fst (gseq Ls c))) <= 1)%nat.
  Proof. intros HG. apply Asc_count. apply gseq_sorted. exact HG. Qed.

  Theorem gseq_exactly_once r Ls c : Forall goodL Ls ->
    snd (gseq Ls c) = true -> c < r ->
    (forall L, In L Ls -> exists a, In a L /\ id a = r) ->
    List.length (filter (fun a => Z.eqb (id a) r) (fst (gseq Ls c))) = 1%nat.
  Proof.
    intros HG Hfin Hcr Hall.
    pose proof (gseq_at_most_once r Ls c HG) as H1.
    destruct (gseq_crossing r Ls c HG Hfin Hcr Hall) as [a [Ha1 Ha2]].
    pose proof (in_count r _ a Ha1 Ha2). lia.
  Qed.
End GenericSeq.

(* ================================================================== *)
(* Part D: iterations interleaved with operations                     *)
(* ================================================================== *)

(* A run is a list of steps: [None] fetches the next page with the current
   cursor, [Some o] executes the operation [o] (exec_db) in between.  The
   iteration stops at the first empty page (flag [true]: finished); the steps
   after it are ignored.  Flag [false]: the steps ran out before an empty page. *)
Fixpoint set_iter_with (now : Z) (key pat : bytes) (count : Z) (steps : list (option op)) (d : db) (cursor : Z)
  : list bytes * bool :=
  match steps with
  | [] => ([], false)
  | Some o :: rest => set_iter_with now key pat count rest (fst (exec_db now o d)) cursor
  | None :: rest =>
      match snd (set_scan now key cursor pat count d) with
      | Ok (c, page) =>
          match page with
          | [] => ([], true)
          | _ => (page ++ fst (set_iter_with now key pat count rest d c),
                  snd (set_iter_with now key pat count rest d c))
          end
      | Err _ => ([], false)
      end
  end.

(* every state the run goes through / the states in which a page is fetched *)
Fixpoint run_dbs (now : Z) (steps : list (option op)) (d : db) : list db :=
  d :: match steps with
       | [] => []
       | Some o :: rest => run_dbs now rest (fst (exec_db now o d))
       | None :: rest => run_dbs now rest d
       end.
Fixpoint page_dbs (now : Z) (steps : list (option op)) (d : db) : list db :=
  match steps with
  | [] => []
  | Some o :: rest => page_dbs now rest (fst (exec_db now o d))
  | None :: rest => d :: page_dbs now rest d
  end.

Lemma page_dbs_incl now : forall steps d, incl (page_dbs now steps d) (run_dbs now steps d).
Proof.
  induction steps as [|[o|] rest IH]; intros d; cbn [page_dbs run_dbs].
  - intros x [].
  - apply incl_tl. apply IH.
  - intros x [<-|H]; [left; reflexivity | right; apply IH; exact H].
Qed.

Lemma run_dbs_good now : forall steps d, Inv d -> ids_ascending d = true ->
  Forall (fun D => Inv D /\ ids_ascending D = true) (run_dbs now steps d).
Proof.
  induction steps as [|[o|] rest IH]; intros d I H; cbn [run_dbs]; constructor; auto.
  apply IH; [apply C11_inv_preserved; exact I | apply ids_ascending_preserved; assumption].
Qed.

Definition safe_steps (safe : op -> bool) (steps : list (option op)) : Prop :=
  Forall (fun s => match s with Some o => safe o = true | None => True end) steps.

Lemma count_occ_map_filter {A} (f : A -> bytes) e l :
  count_occ string_dec (map f l) e = List.length (filter (fun y => String.eqb (f y) e) l).
Proof.
  induction l as [|x l IH]; cbn [map count_occ filter List.length]; [reflexivity|].
  destruct (string_dec (f x) e) as [E|E].
  - rewrite E, String.eqb_refl. cbn [List.length]. rewrite IH. reflexivity.
  - destruct (String.eqb_spec (f x) e); [contradiction | exact IH].
Qed.

Lemma filter_len_mono {A} (f g : A -> bool) l :
  (forall y, In y l -> f y = true -> g y = true) ->
  (List.length (filter f l) <= List.length (filter g l))%nat.
Proof.
  induction l as [|x l IH]; intros H; cbn [filter List.length]; [lia|].
  assert (IH' := IH (fun y Hy => H y (or_intror Hy))).
  destruct (f x) eqn:E.
  - rewrite (H x (or_introl eq_refl) E). cbn [List.length]. lia.
  - destruct (g x); cbn [List.length]; lia.
Qed.

Lemma gpage_nil {A} (id : A -> Z) cnt c : gpage id cnt [] c = [].
Proof. unfold gpage, after, sql_limit. cbn. destruct (cnt <? 0); reflexivity. Qed.

Lemma Inv_ids d : Inv d -> NoDup (map k_id (rkey d)).
Proof. intros I. apply Inv_iff in I. exact (a_ids _ _ _ (i_a _ _ I)). Qed.

Lemma live_not_expired now k : live now k = true -> expired now k = true -> False.
Proof. unfold live, expired. destruct (k_etime k); intros; [lia | discriminate]. Qed.

Lemma fst_bind {A B} (m : M A) (f : A -> M B) d :
  fst (bind m f d) = match snd (m d) with Ok a => fst (f a (fst (m d))) | Err _ => fst (m d) end.
Proof. unfold bind. destruct (m d) as [d1 r]. destruct r; reflexivity. Qed.

Lemma fst_typed {A} (m : M A) d : fst (typed_error m d) = fst (m d).
Proof.
  unfold typed_error. destruct (m d) as [d1 r]. cbn [fst].
  repeat match goal with |- context [match ?x with _ => _ end] => destruct x end; reflexivity.
Qed.

(* ---------- sets: rows only disappear, except in EAdd / EMove / EStore ---------- *)

Lemma rset_incl_closed L : closed false true true (fun d => incl (rset d) L).
Proof.
  constructor; intros; try discriminate;
    cbn [set_rkey set_rstring set_rlist set_rset set_rhash set_rzset rset]; try assumption.
  intros y Hy. apply filter_In in Hy as [Hy _]. auto.
Qed.

Theorem set_rows_only_removed : forall now o d,
  adds_set o = false -> incl (rset (fst (exec_db now o d))) (rset d).
Proof.
  intros now o d Ha.
  apply (exec_db_keeps (rset_incl_closed (rset d)) now o d); auto.
  - rewrite Ha. discriminate.
  - apply incl_refl.
Qed.

Definition key_alive (now : Z) (d : db) (kid : Z) : Prop :=
  exists k, In k (rkey d) /\ k_id k = kid /\ live now k = true.

Lemma rset_trig now id n d : rset (trig_list_delete now id n d) = rset d.
Proof. unfold trig_list_delete. destruct (n =? 0); reflexivity. Qed.

Lemma reset_keeps_row now key typ d x :
  NoDup (map k_id (rkey d)) -> In x (rset d) -> key_alive now d (e_kid x) ->
  In x (rset (reset_expired now key typ d)).
Proof.
  intros ND Hx [k [Hk [Hid Hl]]]. unfold reset_expired.
  destruct (find_key d key) as [r|] eqn:F; [|exact Hx].
  destruct (expired now r) eqn:X; [|exact Hx].
  unfold upd_key_id, upd_keys. cbn [rset set_rkey]. rewrite rset_trig. cbn [rset].
  apply filter_In. split; [exact Hx|].
  destruct (Z.eqb_spec (e_kid x) (k_id r)) as [E|E]; [|reflexivity]. exfalso.
  apply find_key_some in F as [Hr _].
  assert (r = k) by (eapply NoDup_map_inj; eauto; congruence). subst r.
  eapply live_not_expired; eauto.
Qed.

Lemma upsert_rset now key typ ne nl oc d :
  rset (fst (upsert_key now key typ ne nl oc d)) = rset (reset_expired now key typ d) \/
  rset (fst (upsert_key now key typ ne nl oc d)) = rset d.
Proof.
  unfold upsert_key. destruct (find_key (reset_expired now key typ d) key) as [r|].
  - destruct (k_type r =? typ); cbn [fst]; [left; reflexivity | right; reflexivity].
  - left. reflexivity.
Qed.

Lemma upsert_keeps_row now key typ ne nl oc d x :
  NoDup (map k_id (rkey d)) -> In x (rset d) -> key_alive now d (e_kid x) ->
  In x (rset (fst (upsert_key now key typ ne nl oc d))).
Proof.
  intros ND Hx Hk. destruct (upsert_rset now key typ ne nl oc d) as [E|E]; rewrite E; [|exact Hx].
  apply reset_keeps_row; assumption.
Qed.

Lemma set_add2_incl kid e d : incl (rset d) (rset (fst (set_add2 kid e d))).
Proof.
  unfold set_add2. destruct e as [e|]; [|apply incl_refl].
  destruct (existsb _ (rset d)); [apply incl_refl|]. cbn [fst].
  unfold upd_key_id, upd_keys. cbn [rset set_rkey set_rset]. apply incl_appl, incl_refl.
Qed.

Lemma set_add_each_incl kid : forall es n d, incl (rset d) (rset (fst (set_add_each kid es n d))).
Proof.
  induction es as [|e es IH]; intros n d; cbn [set_add_each]; [apply incl_refl|].
  rewrite fst_bind. pose proof (set_add2_incl kid e d) as H.
  destruct (snd (set_add2 kid e d)); [|exact H].
  eapply incl_tran; [exact H | apply IH].
Qed.

Lemma set_add_keeps_row now key vs d x :
  NoDup (map k_id (rkey d)) -> In x (rset d) -> key_alive now d (e_kid x) ->
  In x (rset (fst (set_add now key vs d))).
Proof.
  intros ND Hx Hk. unfold set_add. rewrite fst_bind.
  rewrite (RO_bytes_args vs d). destruct (snd (bytes_args vs d)) as [eb|]; [|exact Hx].
  rewrite fst_bind. unfold set_add1 at 2 3. rewrite fst_typed.
  pose proof (upsert_keeps_row now key T_SET None (Some 0) (fun r => r) d x ND Hx Hk) as H.
  destruct (snd (set_add1 now key d)) as [k|]; [|exact H].
  apply set_add_each_incl. exact H.
Qed.

Lemma eqE_sym a b : eqE a b = eqE b a.
Proof. unfold eqE. rewrite Z.eqb_sym, String.eqb_sym. reflexivity. Qed.

Lemma set_row_unique d x y :
  Inv d -> In x (rset d) -> In y (rset d) -> e_kid y = e_kid x -> e_elem y = e_elem x -> y = x.
Proof.
  intros I Hx Hy E1 E2. apply Inv_iff in I. destruct (i_e _ _ I) as [ND _].
  eapply nodup_by_eq; [exact eqE_sym | exact ND | exact Hy | exact Hx|].
  unfold eqE. rewrite E1, E2, Z.eqb_refl, String.eqb_refl. reflexivity.
Qed.

(* the operations of a run under which a persisting member keeps its rowid *)
Definition set_safe (o : op) : bool :=
  match o with EStore _ _ _ | EMove _ _ _ => false | _ => true end.

(* (i) for sets: a member of a live key that is still a member after the
   operation has kept its row, rowid included *)
Theorem set_rowid_stable : forall now o d x,
  Inv d -> set_safe o = true -> In x (rset d) -> key_alive now d (e_kid x) ->
  (exists x', In x' (rset (fst (exec_db now o d))) /\ e_kid x' = e_kid x /\ e_elem x' = e_elem x) ->
  In x (rset (fst (exec_db now o d))).
Proof.
  intros now o d x I Hs Hx Hk [x' [Hx' [E1 E2]]].
  destruct (adds_set o) eqn:Ha.
  - destruct o; try discriminate Ha; try discriminate Hs.
    rewrite exec_wrapped_fst by reflexivity. cbn [exec_tx].
    destruct (is_err _); [exact Hx|]. rewrite run_fst.
    apply set_add_keeps_row; [apply Inv_ids; exact I | exact Hx | exact Hk].
  - pose proof (set_rows_only_removed now o d Ha x' Hx') as Hin.
    rewrite <- (set_row_unique d x x' I Hx Hin E1 E2). exact Hx'.
Qed.

(* ---------- sets: the iteration as pages cut from changing lists ---------- *)

Definition Lset (now : Z) (key pat : bytes) (d : db) : list erow :=
  match live_key now d key T_SET with
  | Some k => filter (fun r => (e_kid r =? k_id k) && glob pat (e_elem r)) (rset d)
  | None => []
  end.

Definition cnt_of (count : Z) : Z := if count =? 0 then 10 else count.

Lemma set_scan_L now key pat count d c :
  snd (set_scan now key c pat count d) =
  let pg := gpage e_rid (cnt_of count) (Lset now key pat d) c in Ok (rid_cur e_rid pg, map e_elem pg).
Proof.
  unfold Lset, cnt_of. destruct (live_key now d key T_SET) as [k|] eqn:Hk.
  - apply (set_scan_unfold now key pat count d k Hk).
  - rewrite gpage_nil. unfold set_scan, lift_read. cbn [snd]. rewrite Hk. reflexivity.
Qed.

Lemma set_iter_with_gseq now key pat count : forall steps d c,
  set_iter_with now key pat count steps d c =
  (map e_elem (fst (gseq e_rid (cnt_of count) (rid_cur e_rid) (map (Lset now key pat) (page_dbs now steps d)) c)),
   snd (gseq e_rid (cnt_of count) (rid_cur e_rid) (map (Lset now key pat) (page_dbs now steps d)) c)).
Proof.
  induction steps as [|[o|] rest IH]; intros d c; cbn [set_iter_with page_dbs map gseq].
  - reflexivity.
  - apply IH.
  - rewrite set_scan_L. cbv zeta.
    destruct (gpage e_rid (cnt_of count) (Lset now key pat d) c) as [|y pg] eqn:E; [reflexivity|].
    cbn [map]. rewrite IH. cbn [fst snd]. rewrite map_app. reflexivity.
Qed.

Lemma Lset_good now key pat d : ids_ascending d = true -> goodL e_rid (Lset now key pat d).
Proof.
  intros H. unfold Lset. destruct (live_key now d key T_SET) as [k|].
  - destruct (ids_ascending_inv d H) as [_ [[Ha Hp] _]].
    destruct (filtered_ok e_rid (fun r => (e_kid r =? k_id k) && glob pat (e_elem r)) _ Ha Hp) as [Ha' Hp'].
    split; assumption.
  - split; [constructor | intros a []].
Qed.

Lemma Lset_in now key pat d k y : live_key now d key T_SET = Some k ->
  (In y (Lset now key pat d) <-> In y (rset d) /\ e_kid y = k_id k /\ glob pat (e_elem y) = true).
Proof.
  intros Hk. unfold Lset. rewrite Hk, filter_In, andb_true_iff, Z.eqb_eq. tauto.
Qed.

Lemma rid_cur_last {A} (id : A -> Z) p x : Asc id (p ++ [x]) -> 0 < id x -> rid_cur id (p ++ [x]) = id x.
Proof. apply zmax_last. Qed.

(* the steps after the finishing page are ignored *)
Lemma set_iter_with_finished now key pat count more : forall steps d c,
  snd (set_iter_with now key pat count steps d c) = true ->
  set_iter_with now key pat count (steps ++ more) d c = set_iter_with now key pat count steps d c.
Proof.
  induction steps as [|[o|] rest IH]; intros d c; cbn [app set_iter_with].
  - discriminate.
  - apply IH.
  - destruct (snd (set_scan now key c pat count d)) as [[c' page]|]; [|discriminate].
    destruct page as [|y pg]; [reflexivity|]. cbn [snd]. intros H. rewrite (IH d c' H). reflexivity.
Qed.

(* [e] is a member of the set that the live key [key] with id [kid] holds *)
Definition set_member (now : Z) (key : bytes) (kid : Z) (e : bytes) (d : db) : Prop :=
  exists k, live_key now d key T_SET = Some k /\ k_id k = kid /\
  exists x, In x (rset d) /\ e_kid x = kid /\ e_elem x = e.

Lemma set_stable_run now key kid e : forall steps d x,
  Inv d -> ids_ascending d = true -> safe_steps set_safe steps ->
  Forall (set_member now key kid e) (run_dbs now steps d) ->
  In x (rset d) -> e_kid x = kid -> e_elem x = e ->
  Forall (fun D => In x (rset D)) (run_dbs now steps d).
Proof.
  induction steps as [|[o|] rest IH]; intros d x I H Hs Hm Hx Ek Ee; cbn [run_dbs] in *.
  - constructor; [exact Hx | constructor].
  - inversion Hm as [|? ? Hm0 Hm1]; subst. inversion Hs as [|? ? Hs0 Hs1]; subst.
    constructor; [exact Hx|].
    apply IH; auto.
    + apply C11_inv_preserved; exact I.
    + apply ids_ascending_preserved; assumption.
    + destruct Hm0 as [k [Hk [Hid _]]]. apply live_key_some in Hk as [Hin [_ [_ Hl]]].
      assert (Hm1' : set_member now key (e_kid x) (e_elem x) (fst (exec_db now o d))).
      { destruct rest as [|[o'|] rest']; cbn [run_dbs] in Hm1; inversion Hm1; assumption. }
      destruct Hm1' as [_ [_ [_ [x' Hx']]]].
      apply set_rowid_stable; auto.
      * exists k. auto.
      * exists x'. exact Hx'.
  - inversion Hm as [|? ? Hm0 Hm1]; subst. inversion Hs as [|? ? Hs0 Hs1]; subst.
    constructor; [exact Hx|]. apply IH; auto.
Qed.

Lemma run_dbs_head now steps d : exists tl, run_dbs now steps d = d :: tl.
Proof. destruct steps as [|[o|] rest]; cbn [run_dbs]; eexists; reflexivity. Qed.

Theorem C16_set_present_throughout_exactly_once : forall now key pat count steps d kid e,
  Inv d -> ids_ascending d = true ->
  safe_steps set_safe steps ->
  glob pat e = true ->
  Forall (set_member now key kid e) (run_dbs now steps d) ->
  snd (set_iter_with now key pat count steps d 0) = true ->
  count_occ string_dec (fst (set_iter_with now key pat count steps d 0)) e = 1%nat.
Proof.
  intros now key pat count steps d kid e I H Hs Hg Hm Hfin.
  destruct (run_dbs_head now steps d) as [tl Htl].
  assert (Hm0 : set_member now key kid e d) by (rewrite Htl in Hm; inversion Hm; assumption).
  destruct Hm0 as [k0 [Hk0 [Hid0 [x [Hx [Ek Ee]]]]]].
  pose proof (set_stable_run now key kid e steps d x I H Hs Hm Hx Ek Ee) as Hst.
  pose proof (run_dbs_good now steps d I H) as Hgood.
  rewrite Forall_forall in Hst, Hgood, Hm.
  assert (HP : forall D, In D (page_dbs now steps d) ->
            Inv D /\ ids_ascending D = true /\ In x (rset D) /\
            exists k, live_key now D key T_SET = Some k /\ k_id k = kid).
  { intros D HD. apply page_dbs_incl in HD. destruct (Hgood D HD) as [I' H'].
    destruct (Hm D HD) as [k [Hk [Hid _]]].
    split; [exact I'|]. split; [exact H'|]. split; [apply Hst; exact HD|]. exists k. auto. }
  rewrite set_iter_with_gseq in Hfin |- *. cbn [fst snd] in *.
  set (Ls := map (Lset now key pat) (page_dbs now steps d)) in *.
  assert (HG : Forall (goodL e_rid) Ls).
  { apply Forall_forall. intros L HL. apply in_map_iff in HL as [D [<- HD]].
    apply Lset_good. apply HP, HD. }
  assert (HxL : forall L, In L Ls -> In x L).
  { intros L HL. apply in_map_iff in HL as [D [<- HD]].
    destruct (HP D HD) as [_ [_ [HxD [k [Hk Hid]]]]].
    apply (Lset_in now key pat D k x Hk). repeat split; [exact HxD | congruence | rewrite Ee; exact Hg]. }
  assert (Hpos : 0 < e_rid x).
  { destruct (ids_ascending_inv d H) as [_ [[_ Hp] _]]. apply Hp, Hx. }
  rewrite count_occ_map_filter.
  rewrite (filter_ext_in _ (fun a => Z.eqb (e_rid a) (e_rid x))).
  - apply (gseq_exactly_once e_rid (cnt_of count) (rid_cur e_rid)); auto.
    + apply count_norm_nz.
    + intros p y. apply rid_cur_last.
    + intros L HL. exists x. split; [apply HxL, HL | reflexivity].
  - intros y Hy.
    destruct (gseq_in e_rid (cnt_of count) (rid_cur e_rid) (fun p y => rid_cur_last e_rid p y) Ls 0 y HG Hy)
      as [L [HL HyL]].
    pose proof (HxL L HL) as HxL'.
    apply in_map_iff in HL as [D [<- HD]].
    destruct (HP D HD) as [ID [_ [HxD [k [Hk Hid]]]]].
    apply (Lset_in now key pat D k y Hk) in HyL as [HyD [Eky _]].
    destruct (String.eqb_spec (e_elem y) e) as [E|E]; destruct (Z.eqb_spec (e_rid y) (e_rid x)) as [E'|E']; auto.
    + exfalso. apply E'. f_equal. apply (set_row_unique D x y ID HxD HyD); congruence.
    + exfalso. apply E. apply Inv_iff in ID. destruct (i_e _ _ ID) as [_ ND].
      rewrite (NoDup_map_inj e_rid (rset D) y x ND HyD HxD E'). exact Ee.
Qed.

(* at most once, for every run and every operation: an element whose rowid is
   the same whenever a page is fetched (additions during the iteration
   included) is never returned twice *)
Theorem C16_set_at_most_once : forall now key pat count steps d e r,
  Inv d -> ids_ascending d = true ->
  (forall D k y, In D (page_dbs now steps d) -> live_key now D key T_SET = Some k ->
                 In y (rset D) -> e_kid y = k_id k -> e_elem y = e -> e_rid y = r) ->
  (count_occ string_dec (fst (set_iter_with now key pat count steps d 0)) e <= 1)%nat.
Proof.
  intros now key pat count steps d e r I H Hst.
  pose proof (run_dbs_good now steps d I H) as Hgood. rewrite Forall_forall in Hgood.
  rewrite set_iter_with_gseq. cbn [fst].
  set (Ls := map (Lset now key pat) (page_dbs now steps d)).
  assert (HG : Forall (goodL e_rid) Ls).
  { apply Forall_forall. intros L HL. apply in_map_iff in HL as [D [<- HD]].
    apply Lset_good. apply Hgood, page_dbs_incl, HD. }
  rewrite count_occ_map_filter.
  eapply Nat.le_trans; [|apply (gseq_at_most_once e_rid (cnt_of count) (rid_cur e_rid)
                                  (fun p y => rid_cur_last e_rid p y) r Ls 0 HG)].
  apply filter_len_mono. intros y Hy Ey. apply String.eqb_eq in Ey.
  destruct (gseq_in e_rid (cnt_of count) (rid_cur e_rid) (fun p y => rid_cur_last e_rid p y) Ls 0 y HG Hy)
    as [L [HL HyL]].
  apply in_map_iff in HL as [D [<- HD]].
  unfold Lset in HyL. destruct (live_key now D key T_SET) as [k|] eqn:Hk; [|destruct HyL].
  apply filter_In in HyL as [HyD Hc]. apply andb_true_iff in Hc as [Hc _]. apply Z.eqb_eq in Hc.
  apply Z.eqb_eq. eapply Hst; eauto.
Qed.

(* ---------- counter-examples found with the model (sets) ---------- *)

Definition cex_set_db : db :=
  fst (run_impl [(0, EAdd "k" [AStr "b"]); (0, EAdd "k" [AStr "a"])] empty_db).

(* rowids: b = 1, a = 2 *)
Example cex_set_db_rows : rset cex_set_db = [mkE 1 1 "b"; mkE 2 1 "a"].
Proof. vm_compute. reflexivity. Qed.

(* A store INTO the iterated key between two pages re-creates its rows in element
   order with fresh rowids (a = 1, b = 2): "a" is a member in every state of the
   run, the key keeps its id, and yet "b" is returned twice and "a" never. *)
Example cex_store_during_iteration :
  set_iter_with 0 "k" "*" 1 [None; Some (EStore AUnion "k" ["k"]); None; None] cex_set_db 0
  = (["b"; "b"], true)
  /\ Forall (set_member 0 "k" 1 "a") (run_dbs 0 [None; Some (EStore AUnion "k" ["k"]); None; None] cex_set_db).
Proof.
  split; [vm_compute; reflexivity|].
  cbn [run_dbs].
  repeat (apply Forall_cons;
    [ eexists; split; [vm_compute; reflexivity|]; split; [reflexivity|];
      first [ exists (mkE 2 1 "a"); split; [solve [vm_compute; auto] | split; reflexivity]
            | exists (mkE 1 1 "a"); split; [solve [vm_compute; auto] | split; reflexivity] ] |]).
  apply Forall_nil.
Qed.

(* Moving a member from a key to the same key deletes and re-inserts it: new rowid,
   returned twice. *)
Example cex_move_same_key_during_iteration :
  set_iter_with 0 "k" "*" 1 [None; Some (EMove "k" "k" (AStr "b")); None; None; None] cex_set_db 0
  = (["b"; "a"; "b"], true).
Proof. vm_compute. reflexivity. Qed.

(* Rowids are max+1 over the CURRENT table, so they are reused: the row that
   EMove creates in k2 gets rowid 2, which is not larger than every rowid of the
   table before the operation.  "(ii)" as literally stated in the task is false;
   what holds is that the table stays in ascending rowid order (Part B). *)
Example cex_rowid_reused :
  rset (fst (exec_db 0 (EMove "k" "k2" (AStr "a")) cex_set_db)) = [mkE 1 1 "b"; mkE 2 2 "a"].
Proof. vm_compute. reflexivity. Qed.

(* ================================================================== *)
(* Part E: hashes and sorted sets                                     *)
(* ================================================================== *)

Lemma SS_lt_NoDup l : StronglySorted Z.lt l -> NoDup l.
Proof.
  induction 1 as [|a l Hs IH Hf]; constructor; [|exact IH].
  intros Hin. rewrite Forall_forall in Hf. specialize (Hf a Hin). lia.
Qed.

Lemma asc_NoDup_ids d : ids_ascending d = true -> NoDup (map k_id (rkey d)).
Proof.
  intros H. apply ids_ascending_okl in H as [HK _]. unfold okl in HK.
  apply andb_true_iff in HK as [HK _]. apply SS_lt_NoDup, ascending_iff, HK.
Qed.

Lemma key_alive_ext now d d' kid : rkey d' = rkey d -> key_alive now d kid -> key_alive now d' kid.
Proof. unfold key_alive. intros ->. auto. Qed.

Lemma alive_map now d d' kid g :
  (forall r, k_id (g r) = k_id r) -> (forall r, live now r = true -> live now (g r) = true) ->
  rkey d' = map g (rkey d) -> key_alive now d kid -> key_alive now d' kid.
Proof.
  intros Hid Hl E [k [Hk [Hi Hv]]]. exists (g k). rewrite E.
  split; [apply in_map; exact Hk|]. split; [rewrite Hid; exact Hi | apply Hl; exact Hv].
Qed.

Lemma reset_rkey now key typ d : exists g,
  (forall r, k_id (g r) = k_id r) /\ (forall r, live now r = true -> live now (g r) = true) /\
  rkey (reset_expired now key typ d) = map g (rkey d).
Proof.
  unfold reset_expired.
  destruct (find_key d key) as [r0|]; [|exists (fun r => r); rewrite map_id; auto].
  destruct (expired now r0); [|exists (fun r => r); rewrite map_id; auto].
  unfold trig_list_delete. cbv zeta.
  match goal with |- context [if (zlen ?l =? 0) then _ else _] => destruct (zlen l =? 0) end;
    unfold upd_key_id, upd_keys; cbn [rkey set_rkey].
  - eexists. split; [|split; [|reflexivity]]; intros r; cbv beta;
      destruct (k_id r =? k_id r0); auto.
  - rewrite map_map. eexists. split; [|split; [|reflexivity]]; intros r; cbv beta;
      destruct (k_id r =? k_id r0) eqn:E; cbn [k_id with_len with_mtime with_ver]; rewrite ?E; auto.
Qed.

Lemma upsert_alive now key typ ne nl d kid :
  NoDup (map k_id (rkey (reset_expired now key typ d))) -> key_alive now d kid ->
  key_alive now (fst (upsert_key now key typ ne nl (fun r => r) d)) kid.
Proof.
  intros ND Hk0.
  assert (A1 : key_alive now (reset_expired now key typ d) kid).
  { destruct (reset_rkey now key typ d) as [g [G1 [G2 E]]]. eapply alive_map; eauto. }
  unfold upsert_key. destruct (find_key (reset_expired now key typ d) key) as [r|] eqn:F.
  - destruct (k_type r =? typ); cbn [fst]; [|exact Hk0].
    destruct A1 as [k [Hk [Hi Hv]]]. apply find_key_some in F as [Hr _].
    unfold key_alive, upd_key_id, upd_keys. cbn [rkey set_rkey].
    destruct (Z.eq_dec (k_id k) (k_id r)) as [E|E].
    + assert (k = r) by (eapply NoDup_map_inj; eauto). subst k.
      exists (with_mtime (with_ver r (k_ver r + 1)) now). split; [|split; [exact Hi | exact Hv]].
      apply in_map_iff. exists r. rewrite Z.eqb_refl. auto.
    + exists k. split; [|auto]. apply in_map_iff. exists k.
      destruct (Z.eqb_spec (k_id k) (k_id r)); [contradiction | auto].
  - cbn [fst]. destruct A1 as [k [Hk Hrest]]. exists k. cbn [rkey set_rkey].
    split; [apply in_or_app; left; exact Hk | exact Hrest].
Qed.

Lemma upsert_tables now key typ ne nl oc d :
  (rset (fst (upsert_key now key typ ne nl oc d)) = rset (reset_expired now key typ d) /\
   rhash (fst (upsert_key now key typ ne nl oc d)) = rhash (reset_expired now key typ d) /\
   rzset (fst (upsert_key now key typ ne nl oc d)) = rzset (reset_expired now key typ d)) \/
  fst (upsert_key now key typ ne nl oc d) = d.
Proof.
  unfold upsert_key. destruct (find_key (reset_expired now key typ d) key) as [r|].
  - destruct (k_type r =? typ); cbn [fst]; [left; auto | right; reflexivity].
  - left. auto.
Qed.

Lemma rhash_trig now id n d : rhash (trig_list_delete now id n d) = rhash d.
Proof. unfold trig_list_delete. destruct (n =? 0); reflexivity. Qed.
Lemma rzset_trig now id n d : rzset (trig_list_delete now id n d) = rzset d.
Proof. unfold trig_list_delete. destruct (n =? 0); reflexivity. Qed.

Lemma reset_keeps_hrow now key typ d x :
  NoDup (map k_id (rkey d)) -> In x (rhash d) -> key_alive now d (h_kid x) ->
  In x (rhash (reset_expired now key typ d)).
Proof.
  intros ND Hx [k [Hk [Hid Hl]]]. unfold reset_expired.
  destruct (find_key d key) as [r|] eqn:F; [|exact Hx].
  destruct (expired now r) eqn:X; [|exact Hx].
  unfold upd_key_id, upd_keys. cbn [rhash set_rkey]. rewrite rhash_trig. cbn [rhash].
  apply filter_In. split; [exact Hx|].
  destruct (Z.eqb_spec (h_kid x) (k_id r)) as [E|E]; [|reflexivity]. exfalso.
  apply find_key_some in F as [Hr _].
  assert (r = k) by (eapply NoDup_map_inj; eauto; congruence). subst r.
  eapply live_not_expired; eauto.
Qed.

Lemma reset_keeps_zrow now key typ d x :
  NoDup (map k_id (rkey d)) -> In x (rzset d) -> key_alive now d (z_kid x) ->
  In x (rzset (reset_expired now key typ d)).
Proof.
  intros ND Hx [k [Hk [Hid Hl]]]. unfold reset_expired.
  destruct (find_key d key) as [r|] eqn:F; [|exact Hx].
  destruct (expired now r) eqn:X; [|exact Hx].
  unfold upd_key_id, upd_keys. cbn [rzset set_rkey]. rewrite rzset_trig. cbn [rzset].
  apply filter_In. split; [exact Hx|].
  destruct (Z.eqb_spec (z_kid x) (k_id r)) as [E|E]; [|reflexivity]. exfalso.
  apply find_key_some in F as [Hr _].
  assert (r = k) by (eapply NoDup_map_inj; eauto; congruence). subst r.
  eapply live_not_expired; eauto.
Qed.

Ltac kq :=
  cbv beta iota zeta;
  first
    [ assumption
    | solve [apply keeps_RO; auto with mdb]
    | lazymatch goal with
      | |- keeps _ (bind _ _) => apply keeps_bind; [kq | intro; kq]
      | |- keeps _ (try_ _ _) => apply keeps_try; [kq | intro; kq]
      | |- keeps _ (ret _) => apply keeps_RO, RO_ret
      | |- keeps _ (fail _) => apply keeps_RO, RO_fail
      | |- keeps _ (lift_read _) => apply keeps_RO, RO_lift_read
      | |- keeps _ (match ?x with _ => _ end) => destruct x eqn:?; kq
      | |- keeps _ (fun _ => _) => idtac
      | |- keeps _ ?m => let h := head m in unfold h; kq
      end ].

(* ---------- hashes ---------- *)

Definition hkey (r : hrow) : Z * Z * bytes := (h_rid r, h_kid r, h_field r).

Lemma rhash_incl_closed L : closed true false true (fun d => incl (map hkey (rhash d)) L).
Proof.
  constructor; intros; try discriminate;
    cbn [set_rkey set_rstring set_rlist set_rset set_rhash set_rzset rhash]; try assumption.
  - intros y Hy. apply in_map_iff in Hy as [z [<- Hz]]. apply filter_In in Hz as [Hz _].
    match goal with H : incl _ L |- _ => apply H end. apply in_map. exact Hz.
  - rewrite map_map. rewrite (map_ext _ hkey); [assumption|]. intros r. unfold hkey.
    match goal with H : forall r, _ |- _ => destruct (H r) as [-> [-> ->]] end. reflexivity.
Qed.

Theorem hash_rows_only_removed : forall now o d,
  adds_hash o = false -> incl (map hkey (rhash (fst (exec_db now o d)))) (map hkey (rhash d)).
Proof.
  intros now o d Ha.
  apply (exec_db_keeps (rhash_incl_closed (map hkey (rhash d))) now o d); auto.
  - rewrite Ha. discriminate.
  - apply incl_refl.
Qed.

Definition QH (now : Z) (x3 : Z * Z * bytes) (d : db) : Prop :=
  ids_ascending d = true /\ key_alive now d (snd (fst x3)) /\ In x3 (map hkey (rhash d)).

Lemma QH_upsert now key typ x3 :
  keeps (QH now x3) (typed_error (upsert_key now key typ None (Some 0) (fun r => r))).
Proof.
  intros d [H [Hk Hx]]. rewrite fst_typed.
  assert (H1 : ids_ascending (reset_expired now key typ d) = true)
    by (apply (L_reset _ _ _ _ ids_ascending_closed); exact H).
  split; [apply (keeps_upsert _ _ _ _ ids_ascending_closed); [reflexivity | exact H]|].
  split; [apply upsert_alive; [apply asc_NoDup_ids; exact H1 | exact Hk]|].
  destruct (upsert_tables now key typ None (Some 0) (fun r => r) d) as [[_ [E _]]|E];
    rewrite E; [|exact Hx].
  apply in_map_iff in Hx as [x [E3 Hx]]. apply in_map_iff. exists x. split; [exact E3|].
  apply reset_keeps_hrow; [apply asc_NoDup_ids; exact H | exact Hx|].
  subst x3. exact Hk.
Qed.

Lemma QH_hash_set2 now x3 kid f v : keeps (QH now x3) (hash_set2 kid f v).
Proof.
  intros d [H [Hk Hx]].
  split; [apply (keeps_hash_set2 _ _ _ _ ids_ascending_closed kid f v eq_refl d H)|].
  unfold hash_set2. destruct v as [v|]; [|cbn [fst]; auto].
  destruct (existsb _ (rhash d)); cbn [fst].
  - split; [exact Hk|]. cbn [rhash set_rhash]. rewrite map_map.
    erewrite map_ext; [exact Hx|]. intros r. cbv beta.
    destruct ((h_kid r =? kid) && String.eqb (h_field r) f) eqn:E; [|reflexivity].
    apply andb_true_iff in E as [E1 E2]. apply Z.eqb_eq in E1. apply String.eqb_eq in E2.
    unfold hkey. cbn. congruence.
  - split.
    + eapply alive_map with (g := fun r => if k_id r =? kid then with_len r (opt_add (k_len r) 1) else r);
        [| |reflexivity | exact Hk]; intros r; destruct (k_id r =? kid); auto.
    + unfold upd_key_id, upd_keys. cbn [rhash set_rkey set_rhash]. rewrite map_app.
      apply in_or_app. left. exact Hx.
Qed.

Lemma QH_hash_set_raw now x3 key f v : keeps (QH now x3) (hash_set_raw now key f v).
Proof.
  unfold hash_set_raw. destruct (to_bytes v); [|kq].
  apply keeps_bind; [apply QH_upsert | intros k; apply QH_hash_set2].
Qed.

Section HashOps.
  Variables (Q : db -> Prop) (now : Z).
  Hypothesis Hraw : forall key field v, keeps Q (hash_set_raw now key field v).

  Lemma HO_incr key field dl : keeps Q (hash_incr now key field dl).
  Proof.
    unfold hash_incr. apply keeps_try; [kq|]. intros r.
    assert (G : forall cur, keeps Q (match value_int cur with
       | None => fail EValueType
       | Some n => if negb (in_int64 (n + dl)) then fail EValueType
                   else hash_set_raw now key field (AInt (n + dl)) ;;; ret (n + dl) end)).
    { intros cur. destruct (value_int cur) as [n|]; [|kq].
      destruct (negb (in_int64 (n + dl))); [kq|]. apply keeps_bind; [apply Hraw|]. intros _. kq. }
    destruct r as [v|e]; [apply G|]. destruct e; try (apply keeps_RO, RO_fail). apply G.
  Qed.

  Lemma HO_incr_float key field dl p f : keeps Q (hash_incr_float now key field dl p f).
  Proof.
    unfold hash_incr_float. apply keeps_try; [kq|]. intros r.
    assert (G : forall (o : option float), keeps Q (match o with
       | None => fail EValueType
       | Some x => hash_set_raw now key field (AFloat (x + dl)%float (f (x + dl)%float)) ;;; ret (x + dl)%float end)).
    { intros o. destruct o as [x|]; [|kq]. apply keeps_bind; [apply Hraw|]. intros _. kq. }
    destruct r as [v|e]; [apply G|]. destruct e; try (apply keeps_RO, RO_fail). apply (G (Some zero)).
  Qed.

  Lemma HO_set key field v : keeps Q (hash_set now key field v).
  Proof.
    unfold hash_set. destruct (negb (is_value_type v)); [kq|].
    apply keeps_bind; [kq|]. intros c. apply keeps_bind; [apply Hraw|]. intros _. kq.
  Qed.

  Lemma HO_set_each key items : keeps Q (hash_set_each now key items).
  Proof.
    induction items as [|[f v] r IH]; cbn [hash_set_each]; [kq|].
    apply keeps_bind; [apply Hraw | intros _; exact IH].
  Qed.

  Lemma HO_set_many key items : keeps Q (hash_set_many now key items).
  Proof.
    unfold hash_set_many. destruct (negb _); [kq|].
    apply keeps_bind; [kq|]. intros c. apply keeps_bind; [apply HO_set_each|]. intros _. kq.
  Qed.

  Lemma HO_set_nx key field v : keeps Q (hash_set_nx now key field v).
  Proof.
    unfold hash_set_nx. destruct (negb (is_value_type v)); [kq|].
    apply keeps_bind; [kq|]. intros ex. destruct ex; [kq|].
    apply keeps_bind; [apply Hraw|]. intros _. kq.
  Qed.
End HashOps.

Lemma eqH_sym a b : eqH a b = eqH b a.
Proof. unfold eqH. rewrite Z.eqb_sym, String.eqb_sym. reflexivity. Qed.

Lemma hash_row_unique d x y :
  Inv d -> In x (rhash d) -> In y (rhash d) -> h_kid y = h_kid x -> h_field y = h_field x -> y = x.
Proof.
  intros I Hx Hy E1 E2. apply Inv_iff in I. destruct (i_h _ _ I) as [ND _].
  eapply nodup_by_eq; [exact eqH_sym | exact ND | exact Hy | exact Hx|].
  unfold eqH. rewrite E1, E2, Z.eqb_refl, String.eqb_refl. reflexivity.
Qed.

(* (i) for hashes, every operation: a field of a live key that is still a field
   after the operation has kept its rowid (its value may have changed) *)
Theorem hash_rowid_stable : forall now o d x3,
  Inv d -> ids_ascending d = true -> In x3 (map hkey (rhash d)) -> key_alive now d (snd (fst x3)) ->
  (exists y3, In y3 (map hkey (rhash (fst (exec_db now o d)))) /\
              snd (fst y3) = snd (fst x3) /\ snd y3 = snd x3) ->
  In x3 (map hkey (rhash (fst (exec_db now o d)))).
Proof.
  intros now o d x3 I H Hx Hk [y3 [Hy [E1 E2]]].
  destruct (adds_hash o) eqn:Ha.
  - assert (Q0 : QH now x3 d) by (split; [exact H | split; assumption]).
    assert (Q1 : QH now x3 (fst (exec_db now o d))).
    { pose proof (QH_hash_set_raw now x3) as Hraw.
      destruct o; try discriminate Ha;
        rewrite exec_wrapped_fst by reflexivity; cbn [exec_tx];
        (destruct (is_err _); [exact Q0|]); rewrite run_fst.
      - apply HO_incr; assumption.
      - apply HO_incr_float; assumption.
      - apply HO_set; assumption.
      - apply HO_set_many; assumption.
      - apply HO_set_nx; assumption. }
    apply Q1.
  - pose proof (hash_rows_only_removed now o d Ha y3 Hy) as Hin.
    apply in_map_iff in Hin as [y [Ey Hyd]]. apply in_map_iff in Hx as [x [Ex Hxd]].
    subst x3 y3. unfold hkey in E1, E2. cbn [fst snd] in E1, E2.
    rewrite (hash_row_unique d x y I Hxd Hyd E1 E2) in Hy. exact Hy.
Qed.

Fixpoint hash_iter_with (now : Z) (key pat : bytes) (count : Z) (steps : list (option op)) (d : db) (cursor : Z)
  : list (bytes * bytes) * bool :=
  match steps with
  | [] => ([], false)
  | Some o :: rest => hash_iter_with now key pat count rest (fst (exec_db now o d)) cursor
  | None :: rest =>
      match snd (hash_scan now key cursor pat count d) with
      | Ok (c, page) =>
          match page with
          | [] => ([], true)
          | _ => (page ++ fst (hash_iter_with now key pat count rest d c),
                  snd (hash_iter_with now key pat count rest d c))
          end
      | Err _ => ([], false)
      end
  end.

Definition Lhash (now : Z) (key pat : bytes) (d : db) : list hrow :=
  match live_key now d key T_HASH with
  | Some k => filter (fun r => (h_kid r =? k_id k) && glob pat (h_field r)) (rhash d)
  | None => []
  end.

Definition hpair (r : hrow) : bytes * bytes := (h_field r, h_val r).

Lemma hash_scan_L now key pat count d c :
  snd (hash_scan now key c pat count d) =
  let pg := gpage h_rid (cnt_of count) (Lhash now key pat d) c in Ok (rid_cur h_rid pg, map hpair pg).
Proof.
  unfold Lhash, cnt_of. destruct (live_key now d key T_HASH) as [k|] eqn:Hk.
  - apply (hash_scan_unfold now key pat count d k Hk).
  - rewrite gpage_nil. unfold hash_scan, lift_read, live_hash_rows. cbn [snd]. rewrite Hk.
    cbn [filter]. unfold sql_limit. cbn [zdrop ztake].
    destruct ((if count =? 0 then 10 else count) <? 0); reflexivity.
Qed.

Lemma hash_iter_with_gseq now key pat count : forall steps d c,
  hash_iter_with now key pat count steps d c =
  (map hpair (fst (gseq h_rid (cnt_of count) (rid_cur h_rid) (map (Lhash now key pat) (page_dbs now steps d)) c)),
   snd (gseq h_rid (cnt_of count) (rid_cur h_rid) (map (Lhash now key pat) (page_dbs now steps d)) c)).
Proof.
  induction steps as [|[o|] rest IH]; intros d c; cbn [hash_iter_with page_dbs map gseq].
  - reflexivity.
  - apply IH.
  - rewrite hash_scan_L. cbv zeta.
    destruct (gpage h_rid (cnt_of count) (Lhash now key pat d) c) as [|y pg] eqn:E; [reflexivity|].
    cbn [map]. rewrite IH. cbn [fst snd]. rewrite map_app. reflexivity.
Qed.

Lemma Lhash_good now key pat d : ids_ascending d = true -> goodL h_rid (Lhash now key pat d).
Proof.
  intros H. unfold Lhash. destruct (live_key now d key T_HASH) as [k|].
  - destruct (ids_ascending_inv d H) as [_ [_ [[Ha Hp] _]]].
    destruct (filtered_ok h_rid (fun r => (h_kid r =? k_id k) && glob pat (h_field r)) _ Ha Hp) as [Ha' Hp'].
    split; assumption.
  - split; [constructor | intros a []].
Qed.

Lemma Lhash_in now key pat d k y : live_key now d key T_HASH = Some k ->
  (In y (Lhash now key pat d) <-> In y (rhash d) /\ h_kid y = k_id k /\ glob pat (h_field y) = true).
Proof.
  intros Hk. unfold Lhash. rewrite Hk, filter_In, andb_true_iff, Z.eqb_eq. tauto.
Qed.

Lemma hash_iter_with_finished now key pat count more : forall steps d c,
  snd (hash_iter_with now key pat count steps d c) = true ->
  hash_iter_with now key pat count (steps ++ more) d c = hash_iter_with now key pat count steps d c.
Proof.
  induction steps as [|[o|] rest IH]; intros d c; cbn [app hash_iter_with].
  - discriminate.
  - apply IH.
  - destruct (snd (hash_scan now key c pat count d)) as [[c' page]|]; [|discriminate].
    destruct page as [|y pg]; [reflexivity|]. cbn [snd]. intros H. rewrite (IH d c' H). reflexivity.
Qed.

Definition hash_member (now : Z) (key : bytes) (kid : Z) (f : bytes) (d : db) : Prop :=
  exists k, live_key now d key T_HASH = Some k /\ k_id k = kid /\
  exists x, In x (rhash d) /\ h_kid x = kid /\ h_field x = f.

Lemma hash_stable_run now key kid f : forall steps d rid,
  Inv d -> ids_ascending d = true ->
  Forall (hash_member now key kid f) (run_dbs now steps d) ->
  In (rid, kid, f) (map hkey (rhash d)) ->
  Forall (fun D => In (rid, kid, f) (map hkey (rhash D))) (run_dbs now steps d).
Proof.
  induction steps as [|[o|] rest IH]; intros d rid I H Hm Hx; cbn [run_dbs] in *.
  - constructor; [exact Hx | constructor].
  - inversion Hm as [|? ? Hm0 Hm1]; subst.
    constructor; [exact Hx|].
    apply IH; auto.
    + apply C11_inv_preserved; exact I.
    + apply ids_ascending_preserved; assumption.
    + destruct Hm0 as [k [Hk [Hid _]]]. apply live_key_some in Hk as [Hin [_ [_ Hl]]].
      assert (Hm1' : hash_member now key kid f (fst (exec_db now o d))).
      { destruct rest as [|[o'|] rest']; cbn [run_dbs] in Hm1; inversion Hm1; assumption. }
      destruct Hm1' as [_ [_ [_ [x' [Hx' [Ek Ef]]]]]].
      apply hash_rowid_stable; auto.
      * exists k. auto.
      * exists (hkey x'). split; [apply in_map; exact Hx' | split; [exact Ek | exact Ef]].
  - inversion Hm as [|? ? Hm0 Hm1]; subst.
    constructor; [exact Hx|]. apply IH; auto.
Qed.

Lemma filter_map_len {A B} (g : A -> B) (p : B -> bool) l :
  List.length (filter p (map g l)) = List.length (filter (fun y => p (g y)) l).
Proof.
  induction l as [|x l IH]; cbn [map filter List.length]; [reflexivity|].
  destruct (p (g x)); cbn [List.length]; rewrite IH; reflexivity.
Qed.

(* hashes: every operation is allowed in the run *)
Theorem C16_hash_present_throughout_exactly_once : forall now key pat count steps d kid f,
  Inv d -> ids_ascending d = true ->
  glob pat f = true ->
  Forall (hash_member now key kid f) (run_dbs now steps d) ->
  snd (hash_iter_with now key pat count steps d 0) = true ->
  List.length (filter (fun fv => String.eqb (fst fv) f)
                      (fst (hash_iter_with now key pat count steps d 0))) = 1%nat.
Proof.
  intros now key pat count steps d kid f I H Hg Hm Hfin.
  destruct (run_dbs_head now steps d) as [tl Htl].
  assert (Hm0 : hash_member now key kid f d) by (rewrite Htl in Hm; inversion Hm; assumption).
  destruct Hm0 as [k0 [Hk0 [Hid0 [x [Hx [Ek Ee]]]]]].
  assert (Hx3 : In (h_rid x, kid, f) (map hkey (rhash d))).
  { apply in_map_iff. exists x. split; [unfold hkey; rewrite Ek, Ee; reflexivity | exact Hx]. }
  pose proof (hash_stable_run now key kid f steps d (h_rid x) I H Hm Hx3) as Hst.
  pose proof (run_dbs_good now steps d I H) as Hgood.
  rewrite Forall_forall in Hst, Hgood, Hm.
  assert (HP : forall D, In D (page_dbs now steps d) ->
            Inv D /\ ids_ascending D = true /\
            (exists xD, In xD (rhash D) /\ hkey xD = (h_rid x, kid, f)) /\
            exists k, live_key now D key T_HASH = Some k /\ k_id k = kid).
  { intros D HD. apply page_dbs_incl in HD. destruct (Hgood D HD) as [I' H'].
    destruct (Hm D HD) as [k [Hk [Hid _]]].
    split; [exact I'|]. split; [exact H'|]. split.
    - specialize (Hst D HD). apply in_map_iff in Hst as [xD [E HxD]]. exists xD. auto.
    - exists k. auto. }
  rewrite hash_iter_with_gseq in Hfin |- *. cbn [fst snd] in *.
  set (Ls := map (Lhash now key pat) (page_dbs now steps d)) in *.
  assert (HG : Forall (goodL h_rid) Ls).
  { apply Forall_forall. intros L HL. apply in_map_iff in HL as [D [<- HD]].
    apply Lhash_good. apply HP, HD. }
  assert (HxL : forall L, In L Ls -> exists a, In a L /\ h_rid a = h_rid x).
  { intros L HL. apply in_map_iff in HL as [D [<- HD]].
    destruct (HP D HD) as [_ [_ [[xD [HxD E]] [k [Hk Hid]]]]].
    unfold hkey in E. injection E as E1 E2 E3.
    exists xD. split; [|exact E1].
    apply (Lhash_in now key pat D k xD Hk). repeat split; [exact HxD | congruence | rewrite E3; exact Hg]. }
  assert (Hpos : 0 < h_rid x).
  { destruct (ids_ascending_inv d H) as [_ [_ [[_ Hp] _]]]. apply Hp, Hx. }
  rewrite filter_map_len.
  rewrite (filter_ext_in _ (fun a => Z.eqb (h_rid a) (h_rid x))).
  - apply (gseq_exactly_once h_rid (cnt_of count) (rid_cur h_rid)); auto.
    + apply count_norm_nz.
    + intros p y. apply rid_cur_last.
  - intros y Hy.
    destruct (gseq_in h_rid (cnt_of count) (rid_cur h_rid) (fun p y => rid_cur_last h_rid p y) Ls 0 y HG Hy)
      as [L [HL HyL]].
    apply in_map_iff in HL as [D [<- HD]].
    destruct (HP D HD) as [ID [_ [[xD [HxD E]] [k [Hk Hid]]]]].
    unfold hkey in E. injection E as E1 E2 E3.
    apply (Lhash_in now key pat D k y Hk) in HyL as [HyD [Eky _]].
    unfold hpair. cbn [fst].
    destruct (String.eqb_spec (h_field y) f) as [E|E]; destruct (Z.eqb_spec (h_rid y) (h_rid x)) as [E'|E']; auto.
    + exfalso. apply E'. rewrite <- E1. f_equal. apply (hash_row_unique D xD y ID HxD HyD); congruence.
    + exfalso. apply E. apply Inv_iff in ID. destruct (i_h _ _ ID) as [_ ND].
      rewrite (NoDup_map_inj h_rid (rhash D) y xD ND HyD HxD); [exact E3 | congruence].
Qed.

Theorem C16_hash_at_most_once : forall now key pat count steps d f r,
  Inv d -> ids_ascending d = true ->
  (forall D k y, In D (page_dbs now steps d) -> live_key now D key T_HASH = Some k ->
                 In y (rhash D) -> h_kid y = k_id k -> h_field y = f -> h_rid y = r) ->
  (List.length (filter (fun fv => String.eqb (fst fv) f)
                       (fst (hash_iter_with now key pat count steps d 0))) <= 1)%nat.
Proof.
  intros now key pat count steps d f r I H Hst.
  pose proof (run_dbs_good now steps d I H) as Hgood. rewrite Forall_forall in Hgood.
  rewrite hash_iter_with_gseq. cbn [fst].
  set (Ls := map (Lhash now key pat) (page_dbs now steps d)).
  assert (HG : Forall (goodL h_rid) Ls).
  { apply Forall_forall. intros L HL. apply in_map_iff in HL as [D [<- HD]].
    apply Lhash_good. apply Hgood, page_dbs_incl, HD. }
  rewrite filter_map_len.
  eapply Nat.le_trans; [|apply (gseq_at_most_once h_rid (cnt_of count) (rid_cur h_rid)
                                  (fun p y => rid_cur_last h_rid p y) r Ls 0 HG)].
  apply filter_len_mono. intros y Hy Ey. unfold hpair in Ey. cbn [fst] in Ey. apply String.eqb_eq in Ey.
  destruct (gseq_in h_rid (cnt_of count) (rid_cur h_rid) (fun p y => rid_cur_last h_rid p y) Ls 0 y HG Hy)
    as [L [HL HyL]].
  apply in_map_iff in HL as [D [<- HD]].
  unfold Lhash in HyL. destruct (live_key now D key T_HASH) as [k|] eqn:Hk; [|destruct HyL].
  apply filter_In in HyL as [HyD Hc]. apply andb_true_iff in Hc as [Hc _]. apply Z.eqb_eq in Hc.
  apply Z.eqb_eq. eapply Hst; eauto.
Qed.

(* ---------- sorted sets ---------- *)

Definition zkey (r : zrow) : Z * Z * bytes := (z_rid r, z_kid r, z_elem r).

Lemma rzset_incl_closed L : closed true true false (fun d => incl (map zkey (rzset d)) L).
Proof.
  constructor; intros; try discriminate;
    cbn [set_rkey set_rstring set_rlist set_rset set_rhash set_rzset rzset]; try assumption.
  - intros y Hy. apply in_map_iff in Hy as [z [<- Hz]]. apply filter_In in Hz as [Hz _].
    match goal with H : incl _ L |- _ => apply H end. apply in_map. exact Hz.
  - rewrite map_map. rewrite (map_ext _ zkey); [assumption|]. intros r. unfold zkey.
    match goal with H : forall r, _ |- _ => destruct (H r) as [-> [-> ->]] end. reflexivity.
Qed.

Theorem zset_rows_only_removed : forall now o d,
  adds_zset o = false -> incl (map zkey (rzset (fst (exec_db now o d)))) (map zkey (rzset d)).
Proof.
  intros now o d Ha.
  apply (exec_db_keeps (rzset_incl_closed (map zkey (rzset d))) now o d); auto.
  - rewrite Ha. discriminate.
  - apply incl_refl.
Qed.

Definition QZ (now : Z) (x3 : Z * Z * bytes) (d : db) : Prop :=
  ids_ascending d = true /\ key_alive now d (snd (fst x3)) /\ In x3 (map zkey (rzset d)).

Lemma QZ_upsert now key typ x3 :
  keeps (QZ now x3) (typed_error (upsert_key now key typ None (Some 0) (fun r => r))).
Proof.
  intros d [H [Hk Hx]]. rewrite fst_typed.
  assert (H1 : ids_ascending (reset_expired now key typ d) = true)
    by (apply (L_reset _ _ _ _ ids_ascending_closed); exact H).
  split; [apply (keeps_upsert _ _ _ _ ids_ascending_closed); [reflexivity | exact H]|].
  split; [apply upsert_alive; [apply asc_NoDup_ids; exact H1 | exact Hk]|].
  destruct (upsert_tables now key typ None (Some 0) (fun r => r) d) as [[_ [_ E]]|E];
    rewrite E; [|exact Hx].
  apply in_map_iff in Hx as [x [E3 Hx]]. apply in_map_iff. exists x. split; [exact E3|].
  apply reset_keeps_zrow; [apply asc_NoDup_ids; exact H | exact Hx|].
  subst x3. exact Hk.
Qed.

Lemma QZ_zset_upsert now x3 kid e s comb : keeps (QZ now x3) (zset_upsert kid e s comb).
Proof.
  intros d [H [Hk Hx]].
  split; [apply (keeps_zset_upsert _ _ _ _ ids_ascending_closed kid e s comb eq_refl d H)|].
  unfold zset_upsert. destruct e as [e|]; [|cbn [fst]; auto].
  destruct (find _ (rzset d)) as [old|].
  - destruct (negb _); cbn [fst]; [auto|].
    split; [exact Hk|]. cbn [rzset set_rzset]. rewrite map_map.
    erewrite map_ext; [exact Hx|]. intros r. cbv beta.
    destruct ((z_kid r =? kid) && String.eqb (z_elem r) e) eqn:E; [|reflexivity].
    apply andb_true_iff in E as [E1 E2]. apply Z.eqb_eq in E1. apply String.eqb_eq in E2.
    unfold zkey. cbn. congruence.
  - destruct (negb _); cbn [fst]; [auto|]. split.
    + eapply alive_map with (g := fun r => if k_id r =? kid then with_len r (opt_add (k_len r) 1) else r);
        [| |reflexivity | exact Hk]; intros r; destruct (k_id r =? kid); auto.
    + unfold upd_key_id, upd_keys. cbn [rzset set_rkey set_rzset]. rewrite map_app.
      apply in_or_app. left. exact Hx.
Qed.

Lemma QZ_zset_add_raw now x3 key v s : keeps (QZ now x3) (zset_add_raw now key v s).
Proof.
  unfold zset_add_raw. destruct (to_bytes v); [|kq].
  apply keeps_bind; [apply QZ_upsert | intros k].
  apply keeps_bind; [apply QZ_zset_upsert | intros _; kq].
Qed.

Lemma QZ_zset_add_each now x3 key items : keeps (QZ now x3) (zset_add_each now key items).
Proof.
  induction items as [|[v s] r IH]; cbn [zset_add_each]; [kq|].
  apply keeps_bind; [apply QZ_zset_add_raw | intros _; exact IH].
Qed.

Lemma eqZ_sym a b : eqZ a b = eqZ b a.
Proof. unfold eqZ. rewrite Z.eqb_sym, String.eqb_sym. reflexivity. Qed.

Lemma zset_row_unique d x y :
  Inv d -> In x (rzset d) -> In y (rzset d) -> z_kid y = z_kid x -> z_elem y = z_elem x -> y = x.
Proof.
  intros I Hx Hy E1 E2. apply Inv_iff in I. destruct (i_z _ _ I) as [ND _].
  eapply nodup_by_eq; [exact eqZ_sym | exact ND | exact Hy | exact Hx|].
  unfold eqZ. rewrite E1, E2, Z.eqb_refl, String.eqb_refl. reflexivity.
Qed.

Definition zset_safe (o : op) : bool := match o with ZStore _ _ _ _ => false | _ => true end.

(* (i) for sorted sets: every operation except ZStore (inter / union store) *)
Theorem zset_rowid_stable : forall now o d x3,
  Inv d -> ids_ascending d = true -> zset_safe o = true ->
  In x3 (map zkey (rzset d)) -> key_alive now d (snd (fst x3)) ->
  (exists y3, In y3 (map zkey (rzset (fst (exec_db now o d)))) /\
              snd (fst y3) = snd (fst x3) /\ snd y3 = snd x3) ->
  In x3 (map zkey (rzset (fst (exec_db now o d)))).
Proof.
  intros now o d x3 I H Hs Hx Hk [y3 [Hy [E1 E2]]].
  destruct (adds_zset o) eqn:Ha.
  - assert (Q0 : QZ now x3 d) by (split; [exact H | split; assumption]).
    assert (Q1 : QZ now x3 (fst (exec_db now o d))).
    { assert (KA : forall key v s, keeps (QZ now x3) (zset_add now key v s)).
      { intros. unfold zset_add. apply keeps_bind; [kq|]. intros eb. apply keeps_bind; [kq|]. intros c.
        apply keeps_bind; [apply QZ_zset_add_raw|]. intros _. kq. }
      assert (KM : forall key items, keeps (QZ now x3) (zset_add_many now key items)).
      { intros. unfold zset_add_many. apply keeps_bind; [kq|]. intros eb. apply keeps_bind; [kq|]. intros c.
        apply keeps_bind; [apply QZ_zset_add_each|]. intros _. kq. }
      assert (KI : forall key v dl, keeps (QZ now x3) (zset_incr now key v dl)).
      { intros. unfold zset_incr. apply keeps_bind; [kq|]. intros eb.
        apply keeps_bind; [apply QZ_upsert|]. intros k. apply QZ_zset_upsert. }
      destruct o; try discriminate Ha; try discriminate Hs;
        rewrite exec_wrapped_fst by reflexivity; cbn [exec_tx];
        (destruct (is_err _); [exact Q0|]); rewrite run_fst;
        first [apply KA | apply KM | apply KI]; exact Q0. }
    apply Q1.
  - pose proof (zset_rows_only_removed now o d Ha y3 Hy) as Hin.
    apply in_map_iff in Hin as [y [Ey Hyd]]. apply in_map_iff in Hx as [x [Ex Hxd]].
    subst x3 y3. unfold zkey in E1, E2. cbn [fst snd] in E1, E2.
    rewrite (zset_row_unique d x y I Hxd Hyd E1 E2) in Hy. exact Hy.
Qed.

Fixpoint zset_iter_with (now : Z) (key pat : bytes) (count : Z) (steps : list (option op)) (d : db) (cursor : Z)
  : list zrow * bool :=
  match steps with
  | [] => ([], false)
  | Some o :: rest => zset_iter_with now key pat count rest (fst (exec_db now o d)) cursor
  | None :: rest =>
      match snd (zset_scan now key cursor pat count d) with
      | Ok (c, page) =>
          match page with
          | [] => ([], true)
          | _ => (page ++ fst (zset_iter_with now key pat count rest d c),
                  snd (zset_iter_with now key pat count rest d c))
          end
      | Err _ => ([], false)
      end
  end.

Definition Lzset (now : Z) (key pat : bytes) (d : db) : list zrow :=
  match live_key now d key T_ZSET with
  | Some k => filter (fun r => (z_kid r =? k_id k) && glob pat (z_elem r)) (rzset d)
  | None => []
  end.

Lemma zset_scan_L now key pat count d c :
  snd (zset_scan now key c pat count d) =
  let pg := gpage z_rid (cnt_of count) (Lzset now key pat d) c in Ok (rid_cur z_rid pg, pg).
Proof.
  unfold Lzset, cnt_of. destruct (live_key now d key T_ZSET) as [k|] eqn:Hk.
  - apply (zset_scan_unfold now key pat count d k Hk).
  - rewrite gpage_nil. unfold zset_scan, lift_read, live_zset_rows. cbn [snd]. rewrite Hk.
    cbn [filter]. unfold sql_limit. cbn [zdrop ztake].
    destruct ((if count =? 0 then 10 else count) <? 0); reflexivity.
Qed.

Lemma zset_iter_with_gseq now key pat count : forall steps d c,
  zset_iter_with now key pat count steps d c =
  gseq z_rid (cnt_of count) (rid_cur z_rid) (map (Lzset now key pat) (page_dbs now steps d)) c.
Proof.
  induction steps as [|[o|] rest IH]; intros d c; cbn [zset_iter_with page_dbs map gseq].
  - reflexivity.
  - apply IH.
  - rewrite zset_scan_L. cbv zeta.
    destruct (gpage z_rid (cnt_of count) (Lzset now key pat d) c) as [|y pg] eqn:E; [reflexivity|].
    rewrite IH. reflexivity.
Qed.

Lemma Lzset_good now key pat d : ids_ascending d = true -> goodL z_rid (Lzset now key pat d).
Proof.
  intros H. unfold Lzset. destruct (live_key now d key T_ZSET) as [k|].
  - destruct (ids_ascending_inv d H) as [_ [_ [_ [Ha Hp]]]].
    destruct (filtered_ok z_rid (fun r => (z_kid r =? k_id k) && glob pat (z_elem r)) _ Ha Hp) as [Ha' Hp'].
    split; assumption.
  - split; [constructor | intros a []].
Qed.

Lemma Lzset_in now key pat d k y : live_key now d key T_ZSET = Some k ->
  (In y (Lzset now key pat d) <-> In y (rzset d) /\ z_kid y = k_id k /\ glob pat (z_elem y) = true).
Proof.
  intros Hk. unfold Lzset. rewrite Hk, filter_In, andb_true_iff, Z.eqb_eq. tauto.
Qed.

Lemma zset_iter_with_finished now key pat count more : forall steps d c,
  snd (zset_iter_with now key pat count steps d c) = true ->
  zset_iter_with now key pat count (steps ++ more) d c = zset_iter_with now key pat count steps d c.
Proof.
  induction steps as [|[o|] rest IH]; intros d c; cbn [app zset_iter_with].
  - discriminate.
  - apply IH.
  - destruct (snd (zset_scan now key c pat count d)) as [[c' page]|]; [|discriminate].
    destruct page as [|y pg]; [reflexivity|]. cbn [snd]. intros H. rewrite (IH d c' H). reflexivity.
Qed.

Definition zset_member (now : Z) (key : bytes) (kid : Z) (e : bytes) (d : db) : Prop :=
  exists k, live_key now d key T_ZSET = Some k /\ k_id k = kid /\
  exists x, In x (rzset d) /\ z_kid x = kid /\ z_elem x = e.

Lemma zset_stable_run now key kid e : forall steps d rid,
  Inv d -> ids_ascending d = true -> safe_steps zset_safe steps ->
  Forall (zset_member now key kid e) (run_dbs now steps d) ->
  In (rid, kid, e) (map zkey (rzset d)) ->
  Forall (fun D => In (rid, kid, e) (map zkey (rzset D))) (run_dbs now steps d).
Proof.
  induction steps as [|[o|] rest IH]; intros d rid I H Hs Hm Hx; cbn [run_dbs] in *.
  - constructor; [exact Hx | constructor].
  - inversion Hm as [|? ? Hm0 Hm1]; subst. inversion Hs as [|? ? Hs0 Hs1]; subst.
    constructor; [exact Hx|].
    apply IH; auto.
    + apply C11_inv_preserved; exact I.
    + apply ids_ascending_preserved; assumption.
    + destruct Hm0 as [k [Hk [Hid _]]]. apply live_key_some in Hk as [Hin [_ [_ Hl]]].
      assert (Hm1' : zset_member now key kid e (fst (exec_db now o d))).
      { destruct rest as [|[o'|] rest']; cbn [run_dbs] in Hm1; inversion Hm1; assumption. }
      destruct Hm1' as [_ [_ [_ [x' [Hx' [Ek Ef]]]]]].
      apply zset_rowid_stable; auto.
      * exists k. auto.
      * exists (zkey x'). split; [apply in_map; exact Hx' | split; [exact Ek | exact Ef]].
  - inversion Hm as [|? ? Hm0 Hm1]; subst. inversion Hs as [|? ? Hs0 Hs1]; subst.
    constructor; [exact Hx|]. apply IH; auto.
Qed.

Theorem C16_zset_present_throughout_exactly_once : forall now key pat count steps d kid e,
  Inv d -> ids_ascending d = true ->
  safe_steps zset_safe steps ->
  glob pat e = true ->
  Forall (zset_member now key kid e) (run_dbs now steps d) ->
  snd (zset_iter_with now key pat count steps d 0) = true ->
  List.length (filter (fun r => String.eqb (z_elem r) e)
                      (fst (zset_iter_with now key pat count steps d 0))) = 1%nat.
Proof.
  intros now key pat count steps d kid e I H Hs Hg Hm Hfin.
  destruct (run_dbs_head now steps d) as [tl Htl].
  assert (Hm0 : zset_member now key kid e d) by (rewrite Htl in Hm; inversion Hm; assumption).
  destruct Hm0 as [k0 [Hk0 [Hid0 [x [Hx [Ek Ee]]]]]].
  assert (Hx3 : In (z_rid x, kid, e) (map zkey (rzset d))).
  { apply in_map_iff. exists x. split; [unfold zkey; rewrite Ek, Ee; reflexivity | exact Hx]. }
  pose proof (zset_stable_run now key kid e steps d (z_rid x) I H Hs Hm Hx3) as Hst.
  pose proof (run_dbs_good now steps d I H) as Hgood.
  rewrite Forall_forall in Hst, Hgood, Hm.
  assert (HP : forall D, In D (page_dbs now steps d) ->
            Inv D /\ ids_ascending D = true /\
            (exists xD, In xD (rzset D) /\ zkey xD = (z_rid x, kid, e)) /\
            exists k, live_key now D key T_ZSET = Some k /\ k_id k = kid).
  { intros D HD. apply page_dbs_incl in HD. destruct (Hgood D HD) as [I' H'].
    destruct (Hm D HD) as [k [Hk [Hid _]]].
    split; [exact I'|]. split; [exact H'|]. split.
    - specialize (Hst D HD). apply in_map_iff in Hst as [xD [E HxD]]. exists xD. auto.
    - exists k. auto. }
  rewrite zset_iter_with_gseq in Hfin |- *.
  set (Ls := map (Lzset now key pat) (page_dbs now steps d)) in *.
  assert (HG : Forall (goodL z_rid) Ls).
  { apply Forall_forall. intros L HL. apply in_map_iff in HL as [D [<- HD]].
    apply Lzset_good. apply HP, HD. }
  assert (HxL : forall L, In L Ls -> exists a, In a L /\ z_rid a = z_rid x).
  { intros L HL. apply in_map_iff in HL as [D [<- HD]].
    destruct (HP D HD) as [_ [_ [[xD [HxD E]] [k [Hk Hid]]]]].
    unfold zkey in E. injection E as E1 E2 E3.
    exists xD. split; [|exact E1].
    apply (Lzset_in now key pat D k xD Hk). repeat split; [exact HxD | congruence | rewrite E3; exact Hg]. }
  assert (Hpos : 0 < z_rid x).
  { destruct (ids_ascending_inv d H) as [_ [_ [_ [_ Hp]]]]. apply Hp, Hx. }
  rewrite (filter_ext_in _ (fun a => Z.eqb (z_rid a) (z_rid x))).
  - apply (gseq_exactly_once z_rid (cnt_of count) (rid_cur z_rid)); auto.
    + apply count_norm_nz.
    + intros p y. apply rid_cur_last.
  - intros y Hy.
    destruct (gseq_in z_rid (cnt_of count) (rid_cur z_rid) (fun p y => rid_cur_last z_rid p y) Ls 0 y HG Hy)
      as [L [HL HyL]].
    apply in_map_iff in HL as [D [<- HD]].
    destruct (HP D HD) as [ID [_ [[xD [HxD E]] [k [Hk Hid]]]]].
    unfold zkey in E. injection E as E1 E2 E3.
    apply (Lzset_in now key pat D k y Hk) in HyL as [HyD [Eky _]].
    destruct (String.eqb_spec (z_elem y) e) as [E|E]; destruct (Z.eqb_spec (z_rid y) (z_rid x)) as [E'|E']; auto.
    + exfalso. apply E'. rewrite <- E1. f_equal. apply (zset_row_unique D xD y ID HxD HyD); congruence.
    + exfalso. apply E. apply Inv_iff in ID. destruct (i_z _ _ ID) as [_ ND].
      rewrite (NoDup_map_inj z_rid (rzset D) y xD ND HyD HxD); [exact E3 | congruence].
Qed.

Theorem C16_zset_at_most_once : forall now key pat count steps d e r,
  Inv d -> ids_ascending d = true ->
  (forall D k y, In D (page_dbs now steps d) -> live_key now D key T_ZSET = Some k ->
                 In y (rzset D) -> z_kid y = k_id k -> z_elem y = e -> z_rid y = r) ->
  (List.length (filter (fun r => String.eqb (z_elem r) e)
                       (fst (zset_iter_with now key pat count steps d 0))) <= 1)%nat.
Proof.
  intros now key pat count steps d e r I H Hst.
  pose proof (run_dbs_good now steps d I H) as Hgood. rewrite Forall_forall in Hgood.
  rewrite zset_iter_with_gseq.
  set (Ls := map (Lzset now key pat) (page_dbs now steps d)).
  assert (HG : Forall (goodL z_rid) Ls).
  { apply Forall_forall. intros L HL. apply in_map_iff in HL as [D [<- HD]].
    apply Lzset_good. apply Hgood, page_dbs_incl, HD. }
  eapply Nat.le_trans; [|apply (gseq_at_most_once z_rid (cnt_of count) (rid_cur z_rid)
                                  (fun p y => rid_cur_last z_rid p y) r Ls 0 HG)].
  apply filter_len_mono. intros y Hy Ey. apply String.eqb_eq in Ey.
  destruct (gseq_in z_rid (cnt_of count) (rid_cur z_rid) (fun p y => rid_cur_last z_rid p y) Ls 0 y HG Hy)
    as [L [HL HyL]].
  apply in_map_iff in HL as [D [<- HD]].
  unfold Lzset in HyL. destruct (live_key now D key T_ZSET) as [k|] eqn:Hk; [|destruct HyL].
  apply filter_In in HyL as [HyD Hc]. apply andb_true_iff in Hc as [Hc _]. apply Z.eqb_eq in Hc.
  apply Z.eqb_eq. eapply Hst; eauto.
Qed.

(* ---------- the keyspace scan ---------- *)

Lemma gseq_fin_ne {A} (id : A -> Z) count cur Ls c :
  snd (gseq id count cur Ls c) = true -> exists L, In L Ls.
Proof. destruct Ls as [|L r]; cbn [gseq snd]; [discriminate | exists L; left; reflexivity]. Qed.

Fixpoint key_iter_with (now : Z) (pat : bytes) (ktype count : Z) (steps : list (option op)) (d : db) (cursor : Z)
  : list keyrow * bool :=
  match steps with
  | [] => ([], false)
  | Some o :: rest => key_iter_with now pat ktype count rest (fst (exec_db now o d)) cursor
  | None :: rest =>
      match snd (key_scan now cursor pat ktype count d) with
      | Ok (c, page) =>
          match page with
          | [] => ([], true)
          | _ => (page ++ fst (key_iter_with now pat ktype count rest d c),
                  snd (key_iter_with now pat ktype count rest d c))
          end
      | Err _ => ([], false)
      end
  end.

Definition Lkey (now : Z) (pat : bytes) (ktype : Z) (d : db) : list keyrow :=
  filter (key_matches now pat ktype) (rkey d).

Lemma key_iter_with_gseq now pat ktype count : forall steps d c,
  key_iter_with now pat ktype count steps d c =
  gseq k_id (cnt_of count) key_cur (map (Lkey now pat ktype) (page_dbs now steps d)) c.
Proof.
  induction steps as [|[o|] rest IH]; intros d c; cbn [key_iter_with page_dbs map gseq].
  - reflexivity.
  - apply IH.
  - rewrite key_scan_unfold. cbv zeta. fold (cnt_of count). fold (Lkey now pat ktype d).
    destruct (gpage k_id (cnt_of count) (Lkey now pat ktype d) c) as [|y pg] eqn:E; [reflexivity|].
    rewrite IH. reflexivity.
Qed.

Lemma Lkey_good now pat ktype d : ids_ascending d = true -> goodL k_id (Lkey now pat ktype d).
Proof.
  intros H. destruct (ids_ascending_inv d H) as [[Ha Hp] _].
  destruct (filtered_ok k_id (key_matches now pat ktype) _ Ha Hp) as [Ha' Hp']. split; assumption.
Qed.

Lemma key_iter_with_finished now pat ktype count more : forall steps d c,
  snd (key_iter_with now pat ktype count steps d c) = true ->
  key_iter_with now pat ktype count (steps ++ more) d c = key_iter_with now pat ktype count steps d c.
Proof.
  induction steps as [|[o|] rest IH]; intros d c; cbn [app key_iter_with].
  - discriminate.
  - apply IH.
  - destruct (snd (key_scan now c pat ktype count d)) as [[c' page]|]; [|discriminate].
    destruct page as [|y pg]; [reflexivity|]. cbn [snd]. intros H. rewrite (IH d c' H). reflexivity.
Qed.

(* the key [name] exists with the id [kid], is live and passes the filters *)
Definition key_present (now : Z) (pat : bytes) (ktype : Z) (name : bytes) (kid : Z) (d : db) : Prop :=
  exists k, In k (rkey d) /\ k_id k = kid /\ k_key k = name /\ key_matches now pat ktype k = true.

(* Every operation is allowed in the run, and the key only has to be there -- under
   the same id -- whenever a page is fetched. *)
Theorem C16_key_present_throughout_exactly_once : forall now pat ktype count steps d name kid,
  Inv d -> ids_ascending d = true ->
  Forall (key_present now pat ktype name kid) (page_dbs now steps d) ->
  snd (key_iter_with now pat ktype count steps d 0) = true ->
  List.length (filter (fun k => String.eqb (k_key k) name)
                      (fst (key_iter_with now pat ktype count steps d 0))) = 1%nat.
Proof.
  intros now pat ktype count steps d name kid I H Hm Hfin.
  pose proof (run_dbs_good now steps d I H) as Hgood.
  rewrite Forall_forall in Hgood, Hm.
  rewrite key_iter_with_gseq in Hfin |- *.
  set (Ls := map (Lkey now pat ktype) (page_dbs now steps d)) in *.
  assert (HG : Forall (goodL k_id) Ls).
  { apply Forall_forall. intros L HL. apply in_map_iff in HL as [D [<- HD]].
    apply Lkey_good. apply Hgood, page_dbs_incl, HD. }
  assert (Hpos : 0 < kid).
  { destruct (gseq_fin_ne k_id (cnt_of count) key_cur Ls 0 Hfin) as [L HL].
    apply in_map_iff in HL as [D [_ HD]].
    destruct (Hm D HD) as [k [Hk [Hid _]]].
    destruct (Hgood D (page_dbs_incl _ _ _ _ HD)) as [_ HD'].
    destruct (ids_ascending_inv D HD') as [[_ Hp] _]. rewrite <- Hid. apply Hp, Hk. }
  rewrite (filter_ext_in _ (fun a => Z.eqb (k_id a) kid)).
  - apply (gseq_exactly_once k_id (cnt_of count) key_cur); auto.
    + apply count_norm_nz.
    + intros p y _ _. apply key_cur_last.
    + intros L HL. apply in_map_iff in HL as [D [<- HD]].
      destruct (Hm D HD) as [k [Hk [Hid [_ Hmt]]]]. exists k. split; [|exact Hid].
      unfold Lkey. apply filter_In. auto.
  - intros y Hy.
    destruct (gseq_in k_id (cnt_of count) key_cur (fun p y _ _ => key_cur_last p y) Ls 0 y HG Hy)
      as [L [HL HyL]].
    apply in_map_iff in HL as [D [<- HD]].
    destruct (Hm D HD) as [k [Hk [Hid [Hn _]]]].
    unfold Lkey in HyL. apply filter_In in HyL as [HyD _].
    destruct (Hgood D (page_dbs_incl _ _ _ _ HD)) as [ID _]. apply Inv_iff in ID.
    destruct (String.eqb_spec (k_key y) name) as [E|E]; destruct (Z.eqb_spec (k_id y) kid) as [E'|E']; auto.
    + exfalso. apply E'. rewrite <- Hid. f_equal.
      apply (NoDup_map_inj k_key (rkey D) y k (a_names _ _ _ (i_a _ _ ID)) HyD Hk). congruence.
    + exfalso. apply E. rewrite <- Hn. f_equal.
      apply (NoDup_map_inj k_id (rkey D) y k (a_ids _ _ _ (i_a _ _ ID)) HyD Hk). congruence.
Qed.

(* no key id is ever returned twice, whatever happens in between *)
Theorem C16_key_at_most_once : forall now pat ktype count steps d kid,
  Inv d -> ids_ascending d = true ->
  (List.length (filter (fun k => Z.eqb (k_id k) kid)
                       (fst (key_iter_with now pat ktype count steps d 0))) <= 1)%nat.
Proof.
  intros now pat ktype count steps d kid I H.
  pose proof (run_dbs_good now steps d I H) as Hgood. rewrite Forall_forall in Hgood.
  rewrite key_iter_with_gseq.
  apply (gseq_at_most_once k_id (cnt_of count) key_cur (fun p y _ _ => key_cur_last p y)).
  apply Forall_forall. intros L HL. apply in_map_iff in HL as [D [<- HD]].
  apply Lkey_good. apply Hgood, page_dbs_incl, HD.
Qed.

(* ---------- more counter-examples; the boolean relation of the task ---------- *)

(* the same defect for sorted sets: a store into the iterated key renumbers its rows *)
Definition cex_zset_db : db :=
  fst (run_impl [(0, ZAdd "z" (AStr "b") 2%float); (0, ZAdd "z" (AStr "a") 1%float)] empty_db).

Example cex_zstore_during_iteration :
  map z_elem (fst (zset_iter_with 0 "z" "*" 1 [None; Some (ZStore false GSum "z" ["z"]); None; None] cex_zset_db 0))
  = ["b"; "b"]
  /\ snd (zset_iter_with 0 "z" "*" 1 [None; Some (ZStore false GSum "z" ["z"]); None; None] cex_zset_db 0) = true.
Proof. split; vm_compute; reflexivity. Qed.

(* "every (kid, elem) present in both has the same rowid; every rowid present only
   in d' is larger than all rowids of d", for rset *)
Definition rowids_stable_set (d d' : db) : bool :=
  forallb (fun x => forallb (fun x' =>
             negb ((e_kid x =? e_kid x') && String.eqb (e_elem x) (e_elem x')) || (e_rid x =? e_rid x'))
           (rset d')) (rset d)
  && forallb (fun x' => existsb (fun x => e_rid x =? e_rid x') (rset d)
                        || (zmax_list (map e_rid (rset d)) <? e_rid x')) (rset d').

(* it holds for every operation that does not insert into rset ... *)
Theorem rowids_stable_set_nonadding : forall now o d,
  Inv d -> adds_set o = false -> rowids_stable_set d (fst (exec_db now o d)) = true.
Proof.
  intros now o d I Ha. pose proof (set_rows_only_removed now o d Ha) as Hin.
  unfold rowids_stable_set. apply andb_true_iff. split.
  - apply forallb_forall. intros x Hx. apply forallb_forall. intros x' Hx'.
    destruct ((e_kid x =? e_kid x') && String.eqb (e_elem x) (e_elem x')) eqn:E; [|reflexivity].
    apply andb_true_iff in E as [E1 E2]. apply Z.eqb_eq in E1. apply String.eqb_eq in E2.
    rewrite (set_row_unique d x x' I Hx (Hin x' Hx')) by congruence.
    rewrite Z.eqb_refl. reflexivity.
  - apply forallb_forall. intros x' Hx'. apply orb_true_iff. left.
    apply existsb_exists. exists x'. split; [apply Hin, Hx' | apply Z.eqb_refl].
Qed.

(* ... and fails for the three inserting operations: *)
Example cex_stable_store :
  rowids_stable_set cex_set_db (fst (exec_db 0 (EStore AUnion "k" ["k"]) cex_set_db)) = false.
Proof. vm_compute. reflexivity. Qed.
Example cex_stable_move_same :
  rowids_stable_set cex_set_db (fst (exec_db 0 (EMove "k" "k" (AStr "b")) cex_set_db)) = false.
Proof. vm_compute. reflexivity. Qed.
(* second half: rowids are max+1 over the current table; after deletions have left
   gaps (rows 1 and 4 remain) the row created by EMove gets the rowid 2 < 4 *)
Definition cex_gap_db : db :=
  fst (run_impl [(0, EAdd "k" [AStr "a"; AStr "b"; AStr "c"]); (0, EAdd "k2" [AStr "x"]);
                 (0, EDelete "k" [AStr "b"; AStr "c"])] empty_db).
Example cex_stable_move_other :
  rset cex_gap_db = [mkE 1 1 "a"; mkE 4 2 "x"] /\
  rset (fst (exec_db 0 (EMove "k2" "k3" (AStr "x")) cex_gap_db)) = [mkE 1 1 "a"; mkE 2 3 "x"] /\
  rowids_stable_set cex_gap_db (fst (exec_db 0 (EMove "k2" "k3" (AStr "x")) cex_gap_db)) = false.
Proof. repeat split; vm_compute; reflexivity. Qed.

(* EAdd on a key whose row is still in rkey but EXPIRED: the rkey_on_insert trigger
   empties it first, so a physically persisting (kid, elem) pair changes its
   rowid (2 -> 1).  This is why set_rowid_stable asks for a live key row. *)
Definition cex_expired_db : db :=
  fst (run_impl [(0, EAdd "k" [AStr "b"]); (0, EAdd "k" [AStr "a"]); (0, KExpireAt "k" 5)] empty_db).
Example cex_stable_add_expired :
  rset cex_expired_db = [mkE 1 1 "b"; mkE 2 1 "a"] /\
  rset (fst (exec_db 10 (EAdd "k" [AStr "a"]) cex_expired_db)) = [mkE 1 1 "a"] /\
  rowids_stable_set cex_expired_db (fst (exec_db 10 (EAdd "k" [AStr "a"]) cex_expired_db)) = false.
Proof. repeat split; vm_compute; reflexivity. Qed.

Print Assumptions ids_ascending_preserved.
Print Assumptions ids_ascending_reachable.
Print Assumptions set_rows_only_removed.
Print Assumptions set_rowid_stable.
Print Assumptions hash_rowid_stable.
Print Assumptions zset_rowid_stable.
Print Assumptions C16_set_present_throughout_exactly_once.
Print Assumptions C16_set_at_most_once.
Print Assumptions C16_hash_present_throughout_exactly_once.
Print Assumptions C16_hash_at_most_once.
Print Assumptions C16_zset_present_throughout_exactly_once.
Print Assumptions C16_zset_at_most_once.
Print Assumptions C16_key_present_throughout_exactly_once.
Print Assumptions C16_key_at_most_once.
Print Assumptions rowids_stable_set_nonadding.
Print Assumptions cex_store_during_iteration.
Print Assumptions cex_zstore_during_iteration.
