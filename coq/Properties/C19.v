(* C19 — Key metadata tells the truth about modifications.
   Statements only; proofs are in ProofMeta.v.  [meta_ok now d d'] (Inv.v): for
   every key row of d' that is the same incarnation as a row of d (same id,
   name and type) either nothing about the row changed, or its version strictly
   increased (or restarted at 1: replaced by a storing operation) and its
   modification time did not run backwards. *)
From Redka Require Import Base Db Ops Inv Refine ProofMeta.

Theorem C19_metadata_rule_for_every_operation : forall now o d,
  Inv d -> mtimes_le now d -> meta_ok now d (fst (exec_db now o d)) = true.
Proof. exact C19_meta_step. Qed.

(* the clock premise is kept by every operation and by the passing of time,
   so the rule holds along every history with non-decreasing times *)
Theorem C19_clock_premise_kept : forall now o d,
  Inv d -> mtimes_le now d -> mtimes_le now (fst (exec_db now o d)).
Proof. exact C19_mtimes_step. Qed.
Theorem C19_clock_premise_monotone : forall now now' d,
  now <= now' -> mtimes_le now d -> mtimes_le now' d.
Proof. exact C19_mtimes_mono. Qed.

(* reads, refusals and nothing-to-do outcomes touch no key row at all *)
Theorem C19_untouched_by_reads_and_refusals : forall now o d,
  classify o (snd (exec_db now o d)) <> CChanged -> rkey (fst (exec_db now o d)) = rkey d.
Proof. exact C19_untouched. Qed.

(* a value change bumps the version by one, refreshes mtime, and (plain set) clears the expiry *)
Theorem C19_set_bumps_version_and_mtime : forall now k v d r,
  Inv d -> live_any now d k = Some r -> k_type r = 1 -> is_value_type v = true ->
  exists r', find_key (fst (exec_db now (SSet k v) d)) k = Some r' /\ k_id r' = k_id r /\
             k_ver r' = k_ver r + 1 /\ k_mtime r' = now /\ k_etime r' = None.
Proof. exact C19_set_bumps. Qed.

(* a key created again after deletion starts a new history *)
Theorem C19_recreated_key_starts_at_version_one : forall now k v d,
  Inv d -> find_key d k = None -> is_value_type v = true ->
  exists r', find_key (fst (exec_db now (SSet k v) d)) k = Some r' /\ k_ver r' = 1 /\ k_mtime r' = now.
Proof. exact C19_recreate_restarts. Qed.

Print Assumptions C19_metadata_rule_for_every_operation.
Print Assumptions C19_clock_premise_kept.
Print Assumptions C19_clock_premise_monotone.
Print Assumptions C19_untouched_by_reads_and_refusals.
Print Assumptions C19_set_bumps_version_and_mtime.
Print Assumptions C19_recreated_key_starts_at_version_one.
