(* C12 — Reads and refused operations leave no trace.
   Statements only; proofs are in ProofNoTrace.v.  Equality is equality of the
   whole faithful state: every column of every table, so version, mtime, etime
   and the cached lengths are included by construction. *)
From Redka Require Import Base Db Ops Inv ProofNoTrace.

(* On the handle (DB level): an operation classified as a pure read, as
   refused (any error) or as "nothing to do" (not-found, zero count, unmet
   condition) leaves the database exactly as it was -- for every operation of
   every type, every state and all arguments. *)
Theorem C12_no_trace_on_the_handle : forall now o d,
  classify o (snd (exec_db now o d)) <> CChanged -> fst (exec_db now o d) = d.
Proof. exact C12_no_trace_db. Qed.

(* Inside a caller-managed transaction or MULTI block (Tx level, partial
   effects stay): reads and the nothing-to-do outcomes leave the state exactly
   as it was at the moment they return, so a block that goes on to commit
   commits nothing for them. *)
Theorem C12_no_trace_inside_a_transaction : forall now o d,
  match classify o (snd (exec_tx true now o d)) with
  | CRead | CNothing => fst (exec_tx true now o d) = d
  | _ => True
  end.
Proof. exact C12_no_trace_tx. Qed.

(* the three causes separately *)
Theorem C12_reads : forall b now o d, is_read o = true -> fst (exec_tx b now o d) = d.
Proof. exact read_no_trace. Qed.
Theorem C12_refusals : forall now o d,
  is_err (snd (exec_db now o d)) = true -> fst (exec_db now o d) = d.
Proof. exact db_error_no_trace. Qed.
Theorem C12_nothing_to_do : forall now o d,
  o_err (snd (exec_db now o d)) = None -> nothing_result o (snd (exec_db now o d)) = true ->
  fst (exec_db now o d) = d.
Proof. exact db_nothing_no_trace. Qed.

(* non-vacuity: a refused write, a nothing-to-do write and a read on a
   non-trivial state, each classified as such *)
Example C12_classes_are_inhabited :
  let d := fst (exec_db 10 (SSet "k" (AStr "v")) empty_db) in
  classify (LPushBack "k" (AStr "x")) (snd (exec_db 11 (LPushBack "k" (AStr "x")) d)) = CRefused /\
  classify (KDelete ["nope"]) (snd (exec_db 11 (KDelete ["nope"]) d)) = CNothing /\
  classify (SGet "k") (snd (exec_db 11 (SGet "k") d)) = CRead /\
  classify (SSet "k" (AStr "w")) (snd (exec_db 11 (SSet "k" (AStr "w")) d)) = CChanged.
Proof. vm_compute. repeat split; reflexivity. Qed.

Print Assumptions C12_no_trace_on_the_handle.
Print Assumptions C12_no_trace_inside_a_transaction.
Print Assumptions C12_reads.
Print Assumptions C12_refusals.
Print Assumptions C12_nothing_to_do.
