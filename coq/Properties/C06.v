(* C06 — One keyspace, one type per key; delete, rename and lookup are exact.
   Statements only; proofs are in ProofRefineStr.v, ProofNoTrace.v, ProofExpiry.v.
   The key operations refine the abstract keyspace of Spec.v, in which a name
   maps to at most one typed value: Count/Exists/Get/Keys are computed from the
   live entries, Delete/DeleteAll remove entries, Rename moves the whole entry
   (value and expiry), replaces a same-type destination, refuses another type
   ([spec_rename]), Rename onto itself is the identity. *)
From Redka Require Import Base Db Ops Spec Abs Inv Refine ProofNoTrace ProofRefineStr ProofInv2.

Theorem C06_every_key_operation_refines_the_keyspace : forall now o d s,
  key_op o = true -> Inv d -> R now d s -> step_refines now o d s.
Proof. exact C06_key_step_refines. Qed.

(* a type-specific write to a key of another type is refused with an error, a
   type-specific read sees nothing, and neither changes anything: every error
   outcome and every read leaves the whole state identical *)
Theorem C06_refusals_and_reads_change_nothing : forall now o d,
  classify o (snd (exec_db now o d)) <> CChanged -> fst (exec_db now o d) = d.
Proof. exact C12_no_trace_db. Qed.

(* deleting keys removes all of their elements (ownership is part of the
   invariant, which every operation preserves): no element row is ever left
   without its key, so a later key of any type under any name starts empty *)
Theorem C06_no_orphans_ever : forall now o d, Inv d -> Inv (fst (exec_db now o d)).
Proof. exact C11_inv_preserved. Qed.

(* non-vacuity and the cross-type matrix on a concrete state: a string key
   refuses a list push, a set add, a hash set and a sorted-set add with a type
   error; the type-specific reads of the other types see nothing *)
Example C06_cross_type_example :
  let d := fst (exec_db 10 (SSet "k" (AStr "v")) empty_db) in
  o_err (snd (exec_db 11 (LPushBack "k" (AStr "x")) d)) = Some EKeyType /\
  o_err (snd (exec_db 11 (EAdd "k" [AStr "x"]) d)) = Some EKeyType /\
  o_err (snd (exec_db 11 (HSet "k" "f" (AStr "x")) d)) = Some EKeyType /\
  o_err (snd (exec_db 11 (ZAdd "k" (AStr "x") 1%float) d)) = Some EKeyType /\
  o_val (snd (exec_db 11 (LRange "k" 0 (-1)) d)) = VL [] /\
  o_val (snd (exec_db 11 (EItems "k") d)) = VU [] /\
  o_val (snd (exec_db 11 (HLen "k") d)) = VI 0 /\
  fst (exec_db 11 (LPushBack "k" (AStr "x")) d) = d.
Proof. vm_compute. repeat split; reflexivity. Qed.

Print Assumptions C06_every_key_operation_refines_the_keyspace.
Print Assumptions C06_refusals_and_reads_change_nothing.
Print Assumptions C06_no_orphans_ever.
