(* C18 — Pattern matching is glob, the same everywhere, as documented.
   Statements only; proofs are in ProofGlob.v.  [glob] is the model of SQLite's
   GLOB that all five pattern-taking statements of the model call (Glob.v). *)
From Redka Require Import Base Glob ProofGlob.

(* '*' selects everything *)
Theorem C18_star_matches_everything : forall s, glob "*" s = true.
Proof. exact glob_star_all. Qed.

(* a name without metacharacters used as a pattern selects exactly that name:
   every other character matches only itself, case-sensitively *)
Theorem C18_literal_selects_itself : forall p s,
  plain p = true -> nonul s = true -> (glob p s = true <-> s = p).
Proof. exact glob_literal. Qed.

(* '?' matches exactly one character *)
Theorem C18_question_matches_one : forall s,
  ascii_nonul s = true -> (glob "?" s = true <-> String.length s = 1%nat).
Proof. exact glob_question_ascii. Qed.

(* a literal prefix followed by '*' selects exactly the names with that prefix *)
Theorem C18_prefix_star : forall p s, plain p = true -> ascii_nonul s = true ->
  (glob (String.append p "*") s = true <-> String.prefix p s = true).
Proof. exact glob_prefix_star. Qed.

(* the empty pattern selects only the empty name *)
Theorem C18_empty_pattern : forall s, nonul s = true -> (glob "" s = true <-> s = "").
Proof. exact glob_empty_pattern. Qed.

(* the documented example patterns, bracket classes and negation with '^' *)
Theorem C18_documented_examples :
  glob "k*" "k1" = true /\ glob "k*" "a" = false /\ glob "k?" "k1" = true /\ glob "k?" "k12" = false /\
  glob "k[12]" "k2" = true /\ glob "k[12]" "k3" = false /\ glob "k[^1]" "k2" = true /\ glob "k[^1]" "k1" = false /\
  glob "k[a-c]" "kb" = true /\ glob "k[a-c]" "kd" = false /\ glob "[" "[" = false /\ glob "K1" "k1" = false /\
  glob "k[]]" "k]" = true /\ glob "*" "" = true.
Proof. exact glob_examples. Qed.

Print Assumptions C18_star_matches_everything.
Print Assumptions C18_literal_selects_itself.
Print Assumptions C18_question_matches_one.
Print Assumptions C18_prefix_star.
Print Assumptions C18_empty_pattern.
Print Assumptions C18_documented_examples.
