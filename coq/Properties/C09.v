(* C09 — Acknowledged writes survive process death; recovery is consistent (the part that is logic).
   Statements copied verbatim from ProofCrash.v and closed with `exact`.
   Crash.v: the durable state is the state after the last committed DB-level operation; a crash
   while operation number n is in flight leaves either the acknowledged prefix or that plus the
   whole in-flight operation (`recovered`); `reopen` re-runs the idempotent schema script.
   What the model cannot exhibit (exercised by `sysrun c09`: a child process exiting before/after
   every storage step, SIGKILL of the server, close/re-open cycles): WAL recovery,
   synchronous=normal, the file system. *)
From Redka Require Import Base Db Ops Inv Refine Crash ProofCrash.

(* ---------- C09 ---------- *)
Theorem C09_recovered_is_prefix : forall h n d d',
  recovered h n d d' -> d' = run_prefix h n d \/ d' = run_prefix h (S n) d.
Proof. exact C09_recovered_is_prefix. Qed.

Theorem C09_recovered_consistent : forall h n d d',
  Inv d -> recovered h n d d' -> Inv d'.
Proof. exact C09_recovered_consistent. Qed.

(* prefix composition: the state after n operations is the state after the
   first m of them, continued with the next n - m *)
Theorem C09_acknowledged_survive : forall h n d m, (m <= n)%nat ->
  run_prefix h n d = run_prefix (skipn m h) (n - m) (run_prefix h m d).
Proof. exact C09_acknowledged_survive. Qed.

(* so whatever is recovered after a crash at n is the acknowledged state after
   any m <= n operations, followed by further whole operations of the workload
   and nothing else *)
Theorem C09_recovered_extends_acknowledged : forall h n d d' m, (m <= n)%nat ->
  recovered h n d d' ->
  exists j, d' = run_prefix (skipn m h) j (run_prefix h m d).
Proof. exact C09_recovered_extends_acknowledged. Qed.

Theorem C09_reopen_identity : forall k d, Nat.iter k reopen d = d.
Proof. exact C09_reopen_identity. Qed.

(* from an empty database, crash anywhere, reopen any number of times: consistent *)
Theorem C09_crash_reopen_consistent : forall h n d' k,
  recovered h n empty_db d' -> Inv (Nat.iter k reopen d').
Proof. exact C09_crash_reopen_consistent. Qed.

Print Assumptions C09_recovered_is_prefix.
Print Assumptions C09_recovered_consistent.
Print Assumptions C09_acknowledged_survive.
Print Assumptions C09_recovered_extends_acknowledged.
Print Assumptions C09_reopen_identity.
Print Assumptions C09_crash_reopen_consistent.
