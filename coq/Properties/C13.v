(* C13 — Each wire command is exactly its documented API call (the parsing part).
   Statements only; proofs are in ProofParser.v.  [run_prim] / [run_loop] /
   [run_pipeline] interpret internal/parser's combinators (Parser.v); the trees
   in gen/ParseSpecs.v are REGENERATED FROM /repo's SOURCE on every run by
   harness/cmd/srcfacts, so the last three theorems are re-checked against what
   the command files say now.  strconv.ParseFloat is a parameter ([is_float]).
   That the reply is the Redis-typed encoding of the documented API call and
   that the database content is that of the API call is decided by the wire
   differential run against an independent oracle (see DESIGN.md), not here. *)
From Redka Require Import Base Parser ProofParser ProofParserOrder.
From Coq Require Import Permutation.
From Redka.gen Require ParseSpecs.

(* option keywords are recognised regardless of letter case: two tokens that
   fold to the same text are both the keyword or both not, with the same outcome *)
Theorem C13_flag_keywords_case_insensitive : forall is_float fuel name d e a a' r,
  fold_special a = fold_special a' ->
  equal_fold a name = equal_fold a' name /\
  (equal_fold a name = true ->
   run_prim is_float (S fuel) (PFlag name d) e (a :: r) = run_prim is_float (S fuel) (PFlag name d) e (a' :: r)).
Proof. exact flag_case_insensitive. Qed.
Theorem C13_named_keywords_case_insensitive : forall is_float fuel name ps e a a' r,
  fold_special a = fold_special a' ->
  equal_fold a name = equal_fold a' name /\
  (equal_fold a name = true ->
   run_prim is_float (S fuel) (PNamed name ps) e (a :: r) = run_prim is_float (S fuel) (PNamed name ps) e (a' :: r)).
Proof. exact named_case_insensitive. Qed.
Theorem C13_enum_keywords_case_insensitive : forall is_float fuel d allowed e a a' r,
  lower a = lower a' -> str_in (lower a) allowed = true ->
  run_prim is_float (S fuel) (PEnum d allowed) e (a :: r) = run_prim is_float (S fuel) (PEnum d allowed) e (a' :: r).
Proof. exact enum_case_insensitive. Qed.

(* a value that happens to spell a keyword is still treated as a value: a
   positional parser at the head binds the next argument whatever it spells *)
Theorem C13_positional_value_never_a_keyword : forall is_float f d rest e a r,
  run_loop is_float (S f) (PString d :: rest) e (a :: r) = run_loop is_float f rest (pset e d (PVStr a)) r.
Proof. exact positional_string_binds. Qed.
Theorem C13_positional_bytes_never_a_keyword : forall is_float f d rest e a r,
  run_loop is_float (S f) (PBytes d :: rest) e (a :: r) = run_loop is_float f rest (pset e d (PVStr a)) r.
Proof. exact positional_bytes_binds. Qed.

(* malformed invocations are errors *)
Theorem C13_too_few_arguments : forall is_float p args,
  zlen args < pl_required p -> run_pipeline is_float p args = inr PErrArgNum.
Proof. exact too_few_arguments_is_an_error. Qed.
Theorem C13_bad_integer : forall is_float f d rest e a r,
  atoi a = None -> run_loop is_float (S f) (PInt d :: rest) e (a :: r) = inr PErrInt.
Proof. exact bad_integer_is_an_error. Qed.
Theorem C13_bad_float : forall is_float f d rest e a r,
  is_float a = false -> run_loop is_float (S f) (PFloat d :: rest) e (a :: r) = inr PErrFloat.
Proof. exact bad_float_is_an_error. Qed.
Theorem C13_leftover_arguments : forall is_float f e a r,
  run_loop is_float (S f) [] e (a :: r) = inr PErrSyntax.
Proof. exact leftover_arguments_are_an_error. Qed.
Theorem C13_negative_count_is_refused : forall is_float fuel d nvar e a r n,
  pget e nvar = Some (PVInt n) -> n < 0 ->
  run_prim is_float (S fuel) (PStringsN d nvar) e (a :: r) = (true, a :: r, e, Some PErrArgNum).
Proof. exact negative_count_is_an_error. Qed.

(* about the trees of the current source: positional arguments come first in
   every command, and every keyword is lower-case ASCII (what case folding needs) *)
Theorem C13_all_commands_positional_first :
  forallb (fun s => positional_first (pl_parsers (snd s))) ParseSpecs.all_specs = true.
Proof. exact all_specs_positional_first. Qed.
Theorem C13_all_keywords_lower_case_in_source :
  forallb (fun s => forallb keywords_lower (pl_parsers (snd s))) ParseSpecs.all_specs = true.
Proof. exact all_specs_keywords_lower. Qed.

(* ---- optional arguments are accepted in any order (ProofParserOrder.v) ----
   order_ok p (boolean, evaluated on every generated spec below): positional parsers first; every
   option is a Flag, a Named whose sub-parsers take one argument each, or a OneOf of such; keywords
   and destinations of different options are distinct.  An occurrence of an option is its keyword in
   any letter case followed by one accepted value per sub-parser (a value may spell another keyword).
   penv_equiv: the same error, or environments that bind every variable alike.
   sib_ok o rest: what follows does not start with the keyword of another alternative of the same
   OneOf (the OneOf combinator runs all its alternatives one after another: without this condition
   both orders still fail or succeed together - options_commute_weak - but may name different errors:
   C13_error_kind_may_depend_on_order). *)
Theorem C13_two_options_commute :
  forall (is_float : bytes -> bool) (p : pipeline) (pre s1 s2 rest posargs : list bytes)
         (e0 : penv) (mid : list (prim * list bytes)) (o1 o2 : prim),
    order_ok p = true ->
    pre = posargs ++ flat mid ->
    run_pos is_float (pos_part p) [] posargs = Some (e0, []) ->
    occs_ok is_float (opt_part p) (mid ++ [(o1, s1); (o2, s2)]) ->
    sib_ok o1 rest ->
    sib_ok o2 rest ->
    penv_equiv (run_pipeline is_float p (pre ++ s1 ++ s2 ++ rest))
               (run_pipeline is_float p (pre ++ s2 ++ s1 ++ rest)).
Proof. exact options_commute. Qed.

Theorem C13_options_in_any_order :
  forall (is_float : bytes -> bool) (p : pipeline) (posargs : list bytes) (e0 : penv)
         (l1 l2 : list (prim * list bytes)) (rest : list bytes),
    order_ok p = true ->
    run_pos is_float (pos_part p) [] posargs = Some (e0, []) ->
    occs_ok is_float (opt_part p) l1 ->
    rest_ok l1 rest ->
    Permutation l1 l2 ->
    penv_equiv (run_pipeline is_float p (posargs ++ flat l1 ++ rest))
               (run_pipeline is_float p (posargs ++ flat l2 ++ rest)).
Proof. exact options_permute. Qed.

Theorem C13_two_options_commute_weakly_whatever_follows :
  forall (is_float : bytes -> bool) (p : pipeline) (pre s1 s2 rest posargs : list bytes)
         (e0 : penv) (mid : list (prim * list bytes)) (o1 o2 : prim),
    order_ok p = true ->
    pre = posargs ++ flat mid ->
    run_pos is_float (pos_part p) [] posargs = Some (e0, []) ->
    occs_ok is_float (opt_part p) (mid ++ [(o1, s1); (o2, s2)]) ->
    weak_equiv (run_pipeline is_float p (pre ++ s1 ++ s2 ++ rest))
               (run_pipeline is_float p (pre ++ s2 ++ s1 ++ rest)).
Proof. exact options_commute_weak. Qed.

Theorem C13_all_generated_specs_admit_reordering :
  forallb (fun s => order_ok (snd s)) ParseSpecs.all_specs = true.
Proof. exact all_specs_order_ok. Qed.

Theorem C13_error_kind_may_depend_on_order :
  run_pipeline fl ParseSpecs.spec_string_ParseSet (["k"; "v"] ++ ["ex"; "10"] ++ ["get"] ++ ["px"; "abc"]) = inr PErrSyntax /\
  run_pipeline fl ParseSpecs.spec_string_ParseSet (["k"; "v"] ++ ["get"] ++ ["ex"; "10"] ++ ["px"; "abc"]) = inr PErrInt /\
  sib_okb set_ttl ["px"; "abc"] = false.
Proof. exact oneof_needs_rest_condition. Qed.

Print Assumptions C13_flag_keywords_case_insensitive.
Print Assumptions C13_named_keywords_case_insensitive.
Print Assumptions C13_enum_keywords_case_insensitive.
Print Assumptions C13_positional_value_never_a_keyword.
Print Assumptions C13_positional_bytes_never_a_keyword.
Print Assumptions C13_too_few_arguments.
Print Assumptions C13_bad_integer.
Print Assumptions C13_bad_float.
Print Assumptions C13_leftover_arguments.
Print Assumptions C13_negative_count_is_refused.
Print Assumptions C13_all_commands_positional_first.
Print Assumptions C13_all_keywords_lower_case_in_source.
Print Assumptions C13_two_options_commute.
Print Assumptions C13_options_in_any_order.
Print Assumptions C13_two_options_commute_weakly_whatever_follows.
Print Assumptions C13_all_generated_specs_admit_reordering.
Print Assumptions C13_error_kind_may_depend_on_order.
