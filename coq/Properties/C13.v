(* C13 — Each wire command is exactly its documented API call (the parsing part).
   Statements only; proofs are in ProofParser.v.  [run_prim] / [run_loop] /
   [run_pipeline] interpret internal/parser's combinators (Parser.v); the trees
   in gen/ParseSpecs.v are REGENERATED FROM /repo's SOURCE on every run by
   harness/cmd/srcfacts, so the last three theorems are re-checked against what
   the command files say now.  strconv.ParseFloat is a parameter ([is_float]).
   That the reply is the Redis-typed encoding of the documented API call and
   that the database content is that of the API call is decided by the wire
   differential run against an independent oracle (see DESIGN.md), not here. *)
From Redka Require Import Base Parser ProofParser.
From Redka.gen Require ParseSpecs.

(* option keywords are recognised regardless of letter case: two tokens that
   fold to the same text are both the keyword or both not, with the same outcome *)
Theorem C13_flag_keywords_case_insensitive : forall is_float fuel name d e a a' r,
  fold_special a = fold_special a' ->
  equal_fold a name = equal_fold a' name /\
  (equal_fold a name = true ->
   run_prim is_float (S fuel) (PFlag name d) e (a :: r) = run_prim is_float (S fuel) (PFlag name d) e (a' :: r)).
Proof. exact flag_case_insensitive. Qed.
Theorem C13_named_keywords_case_insensitive : forall is_float fuel name ps e a a' r,
  fold_special a = fold_special a' ->
  equal_fold a name = equal_fold a' name /\
  (equal_fold a name = true ->
   run_prim is_float (S fuel) (PNamed name ps) e (a :: r) = run_prim is_float (S fuel) (PNamed name ps) e (a' :: r)).
Proof. exact named_case_insensitive. Qed.
Theorem C13_enum_keywords_case_insensitive : forall is_float fuel d allowed e a a' r,
  lower a = lower a' -> str_in (lower a) allowed = true ->
  run_prim is_float (S fuel) (PEnum d allowed) e (a :: r) = run_prim is_float (S fuel) (PEnum d allowed) e (a' :: r).
Proof. exact enum_case_insensitive. Qed.

(* a value that happens to spell a keyword is still treated as a value: a
   positional parser at the head binds the next argument whatever it spells *)
Theorem C13_positional_value_never_a_keyword : forall is_float f d rest e a r,
  run_loop is_float (S f) (PString d :: rest) e (a :: r) = run_loop is_float f rest (pset e d (PVStr a)) r.
Proof. exact positional_string_binds. Qed.
Theorem C13_positional_bytes_never_a_keyword : forall is_float f d rest e a r,
  run_loop is_float (S f) (PBytes d :: rest) e (a :: r) = run_loop is_float f rest (pset e d (PVStr a)) r.
Proof. exact positional_bytes_binds. Qed.

(* malformed invocations are errors *)
Theorem C13_too_few_arguments : forall is_float p args,
  zlen args < pl_required p -> run_pipeline is_float p args = inr PErrArgNum.
Proof. exact too_few_arguments_is_an_error. Qed.
Theorem C13_bad_integer : forall is_float f d rest e a r,
  atoi a = None -> run_loop is_float (S f) (PInt d :: rest) e (a :: r) = inr PErrInt.
Proof. exact bad_integer_is_an_error. Qed.
Theorem C13_bad_float : forall is_float f d rest e a r,
  is_float a = false -> run_loop is_float (S f) (PFloat d :: rest) e (a :: r) = inr PErrFloat.
Proof. exact bad_float_is_an_error. Qed.
Theorem C13_leftover_arguments : forall is_float f e a r,
  run_loop is_float (S f) [] e (a :: r) = inr PErrSyntax.
Proof. exact leftover_arguments_are_an_error. Qed.
Theorem C13_negative_count_is_refused : forall is_float fuel d nvar e a r n,
  pget e nvar = Some (PVInt n) -> n < 0 ->
  run_prim is_float (S fuel) (PStringsN d nvar) e (a :: r) = (true, a :: r, e, Some PErrArgNum).
Proof. exact negative_count_is_an_error. Qed.

(* about the trees of the current source: positional arguments come first in
   every command, and every keyword is lower-case ASCII (what case folding needs) *)
Theorem C13_all_commands_positional_first :
  forallb (fun s => positional_first (pl_parsers (snd s))) ParseSpecs.all_specs = true.
Proof. exact all_specs_positional_first. Qed.
Theorem C13_all_keywords_lower_case_in_source :
  forallb (fun s => forallb keywords_lower (pl_parsers (snd s))) ParseSpecs.all_specs = true.
Proof. exact all_specs_keywords_lower. Qed.

Print Assumptions C13_flag_keywords_case_insensitive.
Print Assumptions C13_named_keywords_case_insensitive.
Print Assumptions C13_enum_keywords_case_insensitive.
Print Assumptions C13_positional_value_never_a_keyword.
Print Assumptions C13_positional_bytes_never_a_keyword.
Print Assumptions C13_too_few_arguments.
Print Assumptions C13_bad_integer.
Print Assumptions C13_bad_float.
Print Assumptions C13_leftover_arguments.
Print Assumptions C13_negative_count_is_refused.
Print Assumptions C13_all_commands_positional_first.
Print Assumptions C13_all_keywords_lower_case_in_source.
