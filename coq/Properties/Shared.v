(* Shared — C01..C06 together: every history of covered operations on strings, keys, hashes, sets,
   lists and sorted sets, interleaved in any way, produces the outputs of the abstract keyspace
   (Spec.v: one in-memory value per key) and ends in a state related to it; the structural invariant
   holds at the end.  Statements only; proofs in ProofRefineAll.v.

   `covered`  : the operations with a step theorem: all but the cursor scans (C16), the random key,
                the count of keys (a recorded known finding) and the bulk expiry deletion (C20);
   `side_ok`  : at every state reached, the arguments are Go values (ints in range, maps with distinct
                keys, scores that are numbers), a member chosen for SPOP/SRANDMEMBER is a member, a push
                did not collide at position 2^53, rank lookups see number scores (an invariant:
                C05_stored_scores_stay_numbers), rank deletion sees a table below 2^63 rows, a multi-key
                sum adds up to the same value in row order and in key order (wf_zalg, Properties/C05.v), list
                positions are at most 2^1022 and a pivot insert found a new midpoint (Properties/C02.v);
   `times_ok` : the clock does not go backwards.
   The IEEE-754 order facts the list proofs need are theorems of ProofFloat.v (see Properties/C02.v). *)
From Redka Require Import Base Db Ops Spec Abs Inv Refine ProofRefineStr ProofRefineAll.
From Coq Require Import Floats.

Theorem every_history_over_all_types_refines_the_keyspace : forall h t0 d s,
  side_ok h d -> times_ok t0 h -> Inv d -> R t0 d s ->
  Forall2 (fun (po : (Z * op) * out) (so : out) => out_equiv (snd (fst po)) (snd po) so)
          (combine h (snd (run_impl h d))) (snd (run_spec h s))
  /\ (forall tl, (match rev h with (t, _) :: _ => t | [] => t0 end) = tl -> R tl (fst (run_impl h d)) (fst (run_spec h s)))
  /\ Inv (fst (run_impl h d)).
Proof. exact all_history_refines_closed. Qed.

(* one step of any covered operation *)
Theorem every_covered_operation_refines : forall now o d s,
  covered o = true -> step_ok now o d -> Inv d -> R now d s -> step_refines now o d s.
Proof. exact all_step_refines_closed. Qed.

(* From the empty database the conditions on stored scores (numbers, never -0) need not be assumed:
   they are invariants of every operation (C05_stored_scores_stay_numbers_under_every_operation,
   C05_stored_scores_never_negative_zero).  side_ok' keeps what reachability does not give: Go-typed
   arguments, a legal random choice, no position collision on push / insert and positions below
   2^1022, fewer than 2^63 sorted-set rows for rank deletion, exact sums for SUM aggregation. *)
Theorem every_history_from_the_empty_database_refines_the_keyspace : forall h t0,
  side_ok' h empty_db -> times_ok t0 h ->
  Forall2 (fun (po : (Z * op) * out) (so : out) => out_equiv (snd (fst po)) (snd po) so)
          (combine h (snd (run_impl h empty_db))) (snd (run_spec h []))
  /\ (forall tl, (match rev h with (t, _) :: _ => t | [] => t0 end) = tl ->
        R tl (fst (run_impl h empty_db)) (fst (run_spec h [])))
  /\ Inv (fst (run_impl h empty_db)).
Proof. exact history_from_empty_refines. Qed.

(* the premises are met by a history that touches every family, from the empty database *)
Theorem the_premises_are_satisfiable :
  side_ok demo_history empty_db /\ times_ok 0 demo_history /\ Inv empty_db.
Proof. exact demo_history_side_ok. Qed.


(* ---- EVERY operation of the model (proofs in ProofRefineEvery.v) ----
   The seven operations without a full step theorem above - the four cursor scans, the random key,
   the count of keys and the bulk expiry deletion - are covered by the mode-aware relation
   [step_refines_m]: the state refinement ALWAYS holds, the result agrees whenever the specification
   determines it ([spec_mode false o = CmpFull]).  Premises for those seven: a legal oracle choice for
   KRandom; for the RESULT of KLen that no stored key is expired (the recorded finding
   kf_keylen_counts_expired - refuted below without it); none for the scans and the expiry deletion.
   [side_ok_every] = [side_ok] on covered operations + these. *)
From Redka Require Import Excl ProofRefineEvery.
From Coq Require Import String.
Local Open Scope string_scope.

Theorem every_history_over_every_operation_refines_the_keyspace : forall h t0 d s,
  side_ok_every h d -> times_ok t0 h -> Inv d -> R t0 d s ->
  Forall2 (fun (po : (Z * op) * out) (so : out) =>
             spec_mode false (snd (fst po)) = CmpFull -> out_equiv (snd (fst po)) (snd po) so)
          (combine h (snd (run_impl h d))) (snd (run_spec h s))
  /\ (forall tl, (match rev h with (t, _) :: _ => t | [] => t0 end) = tl -> R tl (fst (run_impl h d)) (fst (run_spec h s)))
  /\ Inv (fst (run_impl h d))
  /\ trace_refines_m h d s.
Proof. exact every_history_refines. Qed.

Theorem every_history_over_every_operation_from_the_empty_database : forall h t0,
  side_ok_every' h empty_db -> times_ok t0 h ->
  Forall2 (fun (po : (Z * op) * out) (so : out) =>
             spec_mode false (snd (fst po)) = CmpFull -> out_equiv (snd (fst po)) (snd po) so)
          (combine h (snd (run_impl h empty_db))) (snd (run_spec h []))
  /\ (forall tl, (match rev h with (t, _) :: _ => t | [] => t0 end) = tl ->
        R tl (fst (run_impl h empty_db)) (fst (run_spec h [])))
  /\ Inv (fst (run_impl h empty_db))
  /\ trace_refines_m h empty_db [].
Proof. exact every_history_from_empty_refines. Qed.

Theorem every_operation_refines : forall now o d s,
  step_ok_every now o d -> Inv d -> R now d s -> step_refines_m now o d s.
Proof. exact every_step_refines. Qed.

(* the state part needs no premise at all for the seven *)
Theorem scans_random_count_and_expiry_deletion_keep_the_refinement : forall now o d s,
  uncovered_op o = true -> Inv d -> R now d s -> state_refines now o d s.
Proof. exact uncovered_state_refines. Qed.

Theorem bulk_expiry_deletion_removes_only_expired_keys : forall now n d r,
  Inv d -> In r (rkey d) -> ~ In r (rkey (fst (exec_db now (KDeleteExpired n) d))) -> expired now r = true.
Proof. exact KDeleteExpired_removes_only_expired. Qed.

(* the count of keys: false of the code when an expired key is stored (recorded finding) *)
Theorem key_count_result_refuted :
  Inv klen_cex_d /\ R 10 klen_cex_d [] /\
  ~ klen_ok 10 klen_cex_d /\
  excluded 10 klen_cex_d KLen = Some "kf_keylen_counts_expired"%string /\
  snd (exec_db 10 KLen klen_cex_d) = out_ok (VI 1) /\
  snd (spec_step 10 KLen []) = out_ok (VI 0) /\
  ~ step_refines_m 10 KLen klen_cex_d [] /\
  ~ (forall now d s, Inv d -> R now d s -> step_refines_m now KLen d s).
Proof. exact KLen_result_refuted. Qed.

(* non-vacuity: a history from the empty database with all seven in it (a KDeleteExpired with an
   expired key stored, KLen with none stored) *)
Theorem the_premises_for_every_operation_are_satisfiable :
  side_ok_every' demo_every_history empty_db /\ times_ok 0 demo_every_history /\ Inv empty_db.
Proof. exact demo_every_side_ok. Qed.


(* ---- caller-managed transactions (proofs in ProofRefineTx.v) ---- *)
From Redka Require Import ProofRefineTx.

(* a caller-managed transaction whose callback returns the first error it sees (DB.Update; EXEC): same results, same error at the same call, same committed / rolled-back outcome, final states related, invariant kept.  [block_ok]: the side conditions of the step theorems at every working state of the block; KDeleteAll is excluded (inside a transaction it cannot run: refuted below) *)
Theorem a_transaction_refines_the_specifications_transaction : forall now ops d s,
  no_delete_all ops -> block_ok now ops d -> Inv d -> R now d s ->
  let '(d', rs) := exec_update now ops true d in
  let '(s', rs') := spec_update now ops true s in
  R now d' s' /\ Inv d'
  /\ Forall2 (res_agree true) (combine ops rs) rs'
  /\ map o_err rs = map o_err rs'
  /\ snd (exec_block now ops true d) = snd (spec_block now ops true s).
Proof. exact tx_refines. Qed.

(* a callback that ignores errors: as long as no call fails *)
Theorem a_transaction_without_errors_refines_too : forall now ops d s,
  no_delete_all ops -> block_ok now ops d ->
  Forall no_err (snd (exec_update now ops false d)) ->
  Inv d -> R now d s ->
  let '(d', rs) := exec_update now ops false d in
  let '(s', rs') := spec_update now ops false s in
  R now d' s' /\ Inv d'
  /\ Forall2 (res_agree true) (combine ops rs) rs'
  /\ map o_err rs = map o_err rs'
  /\ Forall no_err rs'.
Proof. exact tx_refines_no_error. Qed.

Theorem a_committed_transaction_is_its_operations_one_by_one : forall now ops d,
  no_delete_all ops -> snd (exec_block now ops true d) = false ->
  exec_update now ops true d = run_impl (map (fun o => (now, o)) ops) d.
Proof. exact committed_block_is_singles. Qed.

Theorem a_call_inside_a_transaction_that_succeeds_is_the_method_on_the_handle : forall now o d,
  o <> KDeleteAll -> is_err (snd (exec_tx true now o d)) = false -> exec_tx true now o d = exec_db now o d.
Proof. exact exec_tx_ok_is_db. Qed.

Theorem code_and_specification_fail_alike : forall now o d s,
  step_ok_every now o d -> Inv d -> R now d s ->
  o_err (snd (exec_db now o d)) = o_err (snd (spec_step now o s)).
Proof. exact every_step_err_agrees. Qed.

(* histories whose items are single operations or transactions *)
Theorem every_history_with_transactions_refines_the_keyspace : forall h t0 d s,
  side_ok_items h d -> times_ok_items t0 h -> Inv d -> R t0 d s ->
  Forall2 (fun (ir : (Z * item) * list out) (rs' : list out) => item_agree (snd (fst ir)) (snd ir) rs')
          (combine h (snd (run_impl_items h d))) (snd (run_spec_items h s))
  /\ (forall tl, (match rev h with (t, _) :: _ => t | [] => t0 end) = tl ->
        R tl (fst (run_impl_items h d)) (fst (run_spec_items h s)))
  /\ Inv (fst (run_impl_items h d)).
Proof. exact every_history_with_transactions_refines. Qed.

Theorem every_history_with_transactions_from_the_empty_database : forall h t0,
  side_ok_items' h empty_db -> times_ok_items t0 h ->
  Forall2 (fun (ir : (Z * item) * list out) (rs' : list out) => item_agree (snd (fst ir)) (snd ir) rs')
          (combine h (snd (run_impl_items h empty_db))) (snd (run_spec_items h []))
  /\ (forall tl, (match rev h with (t, _) :: _ => t | [] => t0 end) = tl ->
        R tl (fst (run_impl_items h empty_db)) (fst (run_spec_items h [])))
  /\ Inv (fst (run_impl_items h empty_db)).
Proof. exact every_history_with_transactions_from_empty_refines. Qed.

(* a callback that ignores a failed call and commits keeps that call's partial effects (a multi-key SetMany that hit a key of another type has stored the keys before it): the specification does not describe that state.  This is the "transaction body that swallows an error" judged outside C07/C12 in DESIGN section 9 *)
Theorem ignoring_an_error_and_committing_refuted :
  Inv partial_d /\ R 2 partial_d ignored_s
  /\ no_delete_all [partial_op] /\ block_ok 2 [partial_op] partial_d
  /\ snd (exec_update 2 [partial_op] false partial_d) = [out_err EKeyType]
  /\ snd (spec_update 2 [partial_op] false ignored_s) = [out_err EKeyType]
  /\ ~ R 2 (fst (exec_update 2 [partial_op] false partial_d)) (fst (spec_update 2 [partial_op] false ignored_s))
  /\ ~ (forall now ops d s, no_delete_all ops -> block_ok now ops d -> Inv d -> R now d s ->
          R now (fst (exec_update now ops false d)) (fst (spec_update now ops false s))).
Proof. exact tx_ignored_error_refuted. Qed.

(* DeleteAll inside a transaction: the storage refuses (VACUUM), everything is rolled back *)
Theorem delete_all_inside_a_transaction_refuted :
  Inv delall_d /\ R 2 delall_d delall_s
  /\ spec_mode true KDeleteAll = CmpNone
  /\ exec_update 2 [KDeleteAll] true delall_d = (delall_d, [out_err (ESql SqVacuum)])
  /\ spec_update 2 [KDeleteAll] true delall_s = ([], [out_ok VNone])
  /\ snd (exec_block 2 [KDeleteAll] true delall_d) <> snd (spec_block 2 [KDeleteAll] true delall_s)
  /\ ~ R 2 (fst (exec_update 2 [KDeleteAll] true delall_d)) (fst (spec_update 2 [KDeleteAll] true delall_s)).
Proof. exact tx_delete_all_refuted. Qed.

(* non-vacuity: a history with a committing block of three writes on three types, a block whose second call fails after its first changed something (rolled back), a block that ignores errors without meeting one *)
Theorem the_premises_for_transactions_are_satisfiable :
  side_ok_items' demo_tx_history empty_db /\ times_ok_items 0 demo_tx_history.
Proof. exact demo_tx_side_ok. Qed.

Print Assumptions every_history_over_all_types_refines_the_keyspace.
Print Assumptions every_covered_operation_refines.
Print Assumptions every_history_from_the_empty_database_refines_the_keyspace.
Print Assumptions the_premises_are_satisfiable.
Print Assumptions every_history_over_every_operation_refines_the_keyspace.
Print Assumptions every_history_over_every_operation_from_the_empty_database.
Print Assumptions every_operation_refines.
Print Assumptions scans_random_count_and_expiry_deletion_keep_the_refinement.
Print Assumptions bulk_expiry_deletion_removes_only_expired_keys.
Print Assumptions key_count_result_refuted.
Print Assumptions the_premises_for_every_operation_are_satisfiable.
Print Assumptions a_transaction_refines_the_specifications_transaction.
Print Assumptions a_transaction_without_errors_refines_too.
Print Assumptions a_committed_transaction_is_its_operations_one_by_one.
Print Assumptions a_call_inside_a_transaction_that_succeeds_is_the_method_on_the_handle.
Print Assumptions code_and_specification_fail_alike.
Print Assumptions every_history_with_transactions_refines_the_keyspace.
Print Assumptions every_history_with_transactions_from_the_empty_database.
Print Assumptions ignoring_an_error_and_committing_refuted.
Print Assumptions delete_all_inside_a_transaction_refuted.
Print Assumptions the_premises_for_transactions_are_satisfiable.
