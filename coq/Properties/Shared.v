(* Shared — C01..C06 together: every history of covered operations on strings, keys, hashes, sets,
   lists and sorted sets, interleaved in any way, produces the outputs of the abstract keyspace
   (Spec.v: one in-memory value per key) and ends in a state related to it; the structural invariant
   holds at the end.  Statements only; proofs in ProofRefineAll.v.

   `covered`  : the operations with a step theorem: all but the cursor scans (C16), the random key,
                the count of keys (a recorded known finding) and the bulk expiry deletion (C20);
   `side_ok`  : at every state reached, the arguments are Go values (ints in range, maps with distinct
                keys, scores that are numbers), a member chosen for SPOP/SRANDMEMBER is a member, a push
                did not collide at position 2^53, rank lookups see number scores (an invariant:
                C05_stored_scores_stay_numbers), rank deletion sees a table below 2^63 rows, a multi-key
                sum adds up to the same value in row order and in key order (wf_zalg, Properties/C05.v), list
                positions are at most 2^1022 and a pivot insert found a new midpoint (Properties/C02.v);
   `times_ok` : the clock does not go backwards.
   The IEEE-754 order facts the list proofs need are theorems of ProofFloat.v (see Properties/C02.v). *)
From Redka Require Import Base Db Ops Spec Abs Inv Refine ProofRefineStr ProofRefineAll.
From Coq Require Import Floats.

Theorem every_history_over_all_types_refines_the_keyspace : forall h t0 d s,
  side_ok h d -> times_ok t0 h -> Inv d -> R t0 d s ->
  Forall2 (fun (po : (Z * op) * out) (so : out) => out_equiv (snd (fst po)) (snd po) so)
          (combine h (snd (run_impl h d))) (snd (run_spec h s))
  /\ (forall tl, (match rev h with (t, _) :: _ => t | [] => t0 end) = tl -> R tl (fst (run_impl h d)) (fst (run_spec h s)))
  /\ Inv (fst (run_impl h d)).
Proof. exact all_history_refines_closed. Qed.

(* one step of any covered operation *)
Theorem every_covered_operation_refines : forall now o d s,
  covered o = true -> step_ok now o d -> Inv d -> R now d s -> step_refines now o d s.
Proof. exact all_step_refines_closed. Qed.

(* From the empty database the conditions on stored scores (numbers, never -0) need not be assumed:
   they are invariants of every operation (C05_stored_scores_stay_numbers_under_every_operation,
   C05_stored_scores_never_negative_zero).  side_ok' keeps what reachability does not give: Go-typed
   arguments, a legal random choice, no position collision on push / insert and positions below
   2^1022, fewer than 2^63 sorted-set rows for rank deletion, exact sums for SUM aggregation. *)
Theorem every_history_from_the_empty_database_refines_the_keyspace : forall h t0,
  side_ok' h empty_db -> times_ok t0 h ->
  Forall2 (fun (po : (Z * op) * out) (so : out) => out_equiv (snd (fst po)) (snd po) so)
          (combine h (snd (run_impl h empty_db))) (snd (run_spec h []))
  /\ (forall tl, (match rev h with (t, _) :: _ => t | [] => t0 end) = tl ->
        R tl (fst (run_impl h empty_db)) (fst (run_spec h [])))
  /\ Inv (fst (run_impl h empty_db)).
Proof. exact history_from_empty_refines. Qed.

(* the premises are met by a history that touches every family, from the empty database *)
Theorem the_premises_are_satisfiable :
  side_ok demo_history empty_db /\ times_ok 0 demo_history /\ Inv empty_db.
Proof. exact demo_history_side_ok. Qed.


(* ---- EVERY operation of the model (proofs in ProofRefineEvery.v) ----
   The seven operations without a full step theorem above - the four cursor scans, the random key,
   the count of keys and the bulk expiry deletion - are covered by the mode-aware relation
   [step_refines_m]: the state refinement ALWAYS holds, the result agrees whenever the specification
   determines it ([spec_mode false o = CmpFull]).  Premises for those seven: a legal oracle choice for
   KRandom; for the RESULT of KLen that no stored key is expired (the recorded finding
   kf_keylen_counts_expired - refuted below without it); none for the scans and the expiry deletion.
   [side_ok_every] = [side_ok] on covered operations + these. *)
From Redka Require Import Excl ProofRefineEvery.
From Coq Require Import String.
Local Open Scope string_scope.

Theorem every_history_over_every_operation_refines_the_keyspace : forall h t0 d s,
  side_ok_every h d -> times_ok t0 h -> Inv d -> R t0 d s ->
  Forall2 (fun (po : (Z * op) * out) (so : out) =>
             spec_mode false (snd (fst po)) = CmpFull -> out_equiv (snd (fst po)) (snd po) so)
          (combine h (snd (run_impl h d))) (snd (run_spec h s))
  /\ (forall tl, (match rev h with (t, _) :: _ => t | [] => t0 end) = tl -> R tl (fst (run_impl h d)) (fst (run_spec h s)))
  /\ Inv (fst (run_impl h d))
  /\ trace_refines_m h d s.
Proof. exact every_history_refines. Qed.

Theorem every_history_over_every_operation_from_the_empty_database : forall h t0,
  side_ok_every' h empty_db -> times_ok t0 h ->
  Forall2 (fun (po : (Z * op) * out) (so : out) =>
             spec_mode false (snd (fst po)) = CmpFull -> out_equiv (snd (fst po)) (snd po) so)
          (combine h (snd (run_impl h empty_db))) (snd (run_spec h []))
  /\ (forall tl, (match rev h with (t, _) :: _ => t | [] => t0 end) = tl ->
        R tl (fst (run_impl h empty_db)) (fst (run_spec h [])))
  /\ Inv (fst (run_impl h empty_db))
  /\ trace_refines_m h empty_db [].
Proof. exact every_history_from_empty_refines. Qed.

Theorem every_operation_refines : forall now o d s,
  step_ok_every now o d -> Inv d -> R now d s -> step_refines_m now o d s.
Proof. exact every_step_refines. Qed.

(* the state part needs no premise at all for the seven *)
Theorem scans_random_count_and_expiry_deletion_keep_the_refinement : forall now o d s,
  uncovered_op o = true -> Inv d -> R now d s -> state_refines now o d s.
Proof. exact uncovered_state_refines. Qed.

Theorem bulk_expiry_deletion_removes_only_expired_keys : forall now n d r,
  Inv d -> In r (rkey d) -> ~ In r (rkey (fst (exec_db now (KDeleteExpired n) d))) -> expired now r = true.
Proof. exact KDeleteExpired_removes_only_expired. Qed.

(* the count of keys: false of the code when an expired key is stored (recorded finding) *)
Theorem key_count_result_refuted :
  Inv klen_cex_d /\ R 10 klen_cex_d [] /\
  ~ klen_ok 10 klen_cex_d /\
  excluded 10 klen_cex_d KLen = Some "kf_keylen_counts_expired"%string /\
  snd (exec_db 10 KLen klen_cex_d) = out_ok (VI 1) /\
  snd (spec_step 10 KLen []) = out_ok (VI 0) /\
  ~ step_refines_m 10 KLen klen_cex_d [] /\
  ~ (forall now d s, Inv d -> R now d s -> step_refines_m now KLen d s).
Proof. exact KLen_result_refuted. Qed.

(* non-vacuity: a history from the empty database with all seven in it (a KDeleteExpired with an
   expired key stored, KLen with none stored) *)
Theorem the_premises_for_every_operation_are_satisfiable :
  side_ok_every' demo_every_history empty_db /\ times_ok 0 demo_every_history /\ Inv empty_db.
Proof. exact demo_every_side_ok. Qed.

Print Assumptions every_history_over_all_types_refines_the_keyspace.
Print Assumptions every_covered_operation_refines.
Print Assumptions every_history_from_the_empty_database_refines_the_keyspace.
Print Assumptions the_premises_are_satisfiable.
Print Assumptions every_history_over_every_operation_refines_the_keyspace.
Print Assumptions every_history_over_every_operation_from_the_empty_database.
Print Assumptions every_operation_refines.
Print Assumptions scans_random_count_and_expiry_deletion_keep_the_refinement.
Print Assumptions bulk_expiry_deletion_removes_only_expired_keys.
Print Assumptions key_count_result_refuted.
Print Assumptions the_premises_for_every_operation_are_satisfiable.
