(* C08 — Concurrent callers see one atomic operation at a time (the part that is logic).
   Statements copied verbatim from ProofLin.v and closed with `exact`.
   Lin.v: clients invoke DB-level operations or whole transaction blocks; the labelled transition
   system has invocation, ONE atomic effect step per call (exec_db, or exec_update for a block) and
   return; `trace d tr d'` are its executions, `effects tr` the calls in the order of their effect
   steps (the linearization), `seq_run` sequential execution.
   What the model cannot exhibit (exercised by `sysrun c08`): that the real system IS this LTS -
   the single read-write connection, `_txlock=immediate`, WAL snapshots for readers, table-level
   locks in shared-cache mode, busy / locked errors. *)
From Redka Require Import Base Db Ops Inv Refine Lin ProofLin.
From Coq Require Import Permutation.

(* ================================================================== *)
Theorem C08_linearizable : forall d tr d', trace d tr d' ->
  (* the final state is that of the sequential run of the calls in the order of their effects *)
  d' = fst (seq_run d (effects tr)) /\
  (* every answer is the one the sequential run gives that call: the call took
     effect before it returned, and at its place in the linearization the
     sequential run produces exactly the reply the client got *)
  (forall tr1 c r tr2, tr = tr1 ++ Ret c r :: tr2 ->
     exists tr0 tr0', tr1 = tr0 ++ Eff c :: tr0' /\ quiet (c_client c) tr0' /\
       nth_error (effects tr) (lin_index tr0) = Some c /\
       nth_error (snd (seq_run d (effects tr))) (lin_index tr0) = Some r) /\
  (* a call takes effect after it was invoked *)
  (forall tr1 c tr2, tr = tr1 ++ Eff c :: tr2 ->
     exists tr0 tr0', tr1 = tr0 ++ Inv_ c :: tr0' /\ quiet (c_client c) tr0') /\
  (* real time: if c1 returned before c2 was invoked, c1 comes before c2 in the linearization *)
  (forall tr1 c1 r1 tr2 c2 tr3, tr = tr1 ++ Ret c1 r1 :: tr2 ++ Inv_ c2 :: tr3 ->
     exists tr0 tr0', tr1 = tr0 ++ Eff c1 :: tr0' /\ quiet (c_client c1) tr0' /\
       forall tr3a tr3b, tr3 = tr3a ++ Eff c2 :: tr3b ->
         (lin_index tr0 < lin_index (tr1 ++ Ret c1 r1 :: tr2 ++ Inv_ c2 :: tr3a))%nat).
Proof. exact C08_linearizable. Qed.

(* a caller-managed transaction is ONE effect: every state the system passes
   through is the outcome of a whole number of whole calls - there is no state
   in which part of a block (or part of a method) is visible *)
Theorem C08_block_not_torn : forall d tr d', trace d tr d' ->
  forall tr1 tr2 x p, tr = tr1 ++ tr2 -> reach d tr1 (x, p) ->
    x = fst (seq_run d (firstn (lin_index tr1) (effects tr))).
Proof. exact C08_block_not_torn. Qed.

(* the same for one block and one other call, spelled out: the other call is
   answered either from the state before the block or from the state after the
   whole block *)
Theorem C08_block_seen_whole : forall d c rd ops o tr d' tr1 r tr2,
  c_work c = Block ops -> c_work rd = One o ->
  trace d tr d' -> Permutation [c; rd] (effects tr) ->
  tr = tr1 ++ Ret rd r :: tr2 ->
  r = [snd (exec_db (c_time rd) o d)] \/
  r = [snd (exec_db (c_time rd) o (fst (exec_update (c_time c) ops true d)))].
Proof. exact C08_block_seen_whole. Qed.

(* N increments by one of a counter (a missing key, or a string key that reads
   as an integer) with no expiry, executed one after the other at any times,
   leave it at initial + N, and the callers are told initial+1 ... initial+N *)
Theorem C08_no_lost_update : forall d k (cs : list call) v0,
  (forall c, In c cs -> c_work c = One (SIncr k 1)) -> Inv d ->
  stored_int d k = Some v0 -> no_expiry d k -> v0 + zlen cs <= int64_max ->
  let d' := fst (seq_run d cs) in
  stored_int d' k = Some (v0 + zlen cs) /\ no_expiry d' k /\
  (cs <> [] -> stored_text d' k = Some (itoa (v0 + zlen cs))) /\
  snd (seq_run d cs) =
    map (fun i => [out_ok (VI (v0 + Z.of_nat i))]) (seq 1 (List.length cs)).
Proof. exact C08_no_lost_update. Qed.

(* hence for any interleaving of any number of clients: whatever the trace, if
   the calls that took effect are increments of k, none is lost *)
Theorem C08_no_lost_update_concurrent : forall d tr d' k v0,
  trace d tr d' -> (forall c, In c (effects tr) -> c_work c = One (SIncr k 1)) -> Inv d ->
  stored_int d k = Some v0 -> no_expiry d k -> v0 + zlen (effects tr) <= int64_max ->
  stored_int d' k = Some (v0 + zlen (effects tr)).
Proof. exact C08_no_lost_update_concurrent. Qed.

(* Any number of pops from either end of one list key, executed one after the
   other at any times on any consistent state: the rows handed out, together
   with the rows still stored, are exactly the rows stored at the start (as a
   multiset), the values returned are the values of those rows, and no row is
   handed out twice.  Pops that fail (no such key, expired, wrong type, empty)
   hand out nothing. *)
Theorem C08_pop_unique : forall d key cs,
  Inv d -> (forall c, In c cs -> is_pop key c) ->
  exists popped : list lrow,
    Permutation (popped ++ list_of (fst (seq_run d cs)) key) (list_of d key) /\
    popped_values (snd (seq_run d cs)) = map l_elem popped /\
    NoDup popped.
Proof. exact C08_pop_unique. Qed.

(* in numbers: the list is shorter by exactly the number of successful pops *)
Theorem C08_pop_count : forall d key cs,
  Inv d -> (forall c, In c cs -> is_pop key c) ->
  zlen (list_of (fst (seq_run d cs)) key) =
  zlen (list_of d key) - zlen (popped_values (snd (seq_run d cs))).
Proof. exact C08_pop_count. Qed.

Print Assumptions C08_linearizable.
Print Assumptions C08_block_not_torn.
Print Assumptions C08_block_seen_whole.
Print Assumptions C08_no_lost_update.
Print Assumptions C08_no_lost_update_concurrent.
Print Assumptions C08_pop_unique.
Print Assumptions C08_pop_count.
