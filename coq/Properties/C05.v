(* C05 — Sorted sets keep members ordered by score then bytes, at every rank.
   Statements copied verbatim from ProofRefineZSet.v and closed with `exact`.
   `step_refines` (Refine.v): same error, same result, abstraction relation re-established.
   The abstract side (Spec.v: spec_zadd, spec_zincr, spec_zrange_rank, spec_zrange_score,
   spec_zdelete_rank, ...) keeps a member-to-score map and answers every ordered query by
   sorting that map by (score, member bytes).
   Side conditions: wf_zop — scores and deltas passed in are numbers (SQLite binds NaN as NULL,
   which the NOT NULL column refuses; the harness never passes NaN), AddMany's items have distinct
   members (a Go map), rank arguments of DeleteRank are Go ints; wf_zdb — for GetRank every stored
   score is a number (an invariant of all operations: C05_stored_scores_stay_numbers), for
   DeleteRank the table has at most 2^63-1 rows.  Without the NaN premise the statement is false
   of the model (C05_refuted_for_a_stored_nan): the SQL ordering puts NaN last, the sorted map
   does not.  Union / intersection (with and without storing): members for any key list
   (repetitions, missing and wrong-type keys included) and the full refinement, aggregated scores
   included, at the end of this file. *)
From Redka Require Import Base Db ImplZSet Ops Spec Abs Inv Refine ProofRange ProofRefineStr ProofRefineZSet ProofRefineZAlg.
From Coq Require Import Floats.

Theorem C05_every_sorted_set_operation_refines_the_sorted_map : forall now o d s,
  zset_op o = true -> wf_zop o -> wf_zdb o d -> Inv d -> R now d s -> step_refines now o d s.
Proof. exact C05_zset_step_refines_partial. Qed.

Theorem C05_all_but_rank_lookup_refine_without_score_premise : forall now o d s,
  zset_op o = true -> handled o = true -> wf_zop o ->
  (match o with ZDeleteRank _ _ _ => zlen (rzset d) <= int64_max | _ => True end) ->
  Inv d -> R now d s -> step_refines now o d s.
Proof. exact C05_zset_step_refines_handled. Qed.

Theorem C05_stored_scores_stay_numbers : forall now o d,
  zset_op o = true ->
  Forall (fun r => not_nan (z_score r)) (rzset d) ->
  Forall (fun r => not_nan (z_score r)) (rzset (fst (exec_db now o d))).
Proof. exact C05_scores_stay_numbers. Qed.

Theorem C05_refuted_for_a_stored_nan :
  ~ (forall now o d s, zset_op o = true -> wf_zop o -> Inv d -> R now d s -> step_refines now o d s).
Proof. exact C05_zset_step_refines_counterexample. Qed.

(* rank queries select exactly the segment of the sorted sequence, for every pair of integers *)
Theorem C05_rank_range_is_the_segment_of_the_sorted_rows : forall now key start stop desc d r,
  live_key now d key T_ZSET = Some r ->
  snd (zset_range_rank now key start stop desc d) = Ok (rank_segment (z_sorted desc (zset_rows d (k_id r))) start stop).
Proof. exact C05_range_rank_is_segment. Qed.

(* the element at index i of the sorted row list has member e and score sc
   (and all members of a key are distinct, so it is the only such row) *)
Theorem C05_rank_is_the_position_in_the_sorted_rows : forall now key e desc d r i sc,
  live_key now d key T_ZSET = Some r ->
  snd (zset_get_rank now key (AStr e) desc d) = Ok (i, sc) ->
  0 <= i /\ exists x, nth_error (z_sorted desc (zset_rows d (k_id r))) (Z.to_nat i) = Some x /\
                      z_kid x = k_id r /\ z_elem x = e /\ z_score x = sc.
Proof. exact C05_rank_is_position_clean. Qed.

Theorem C05_sql_order_is_score_then_member_bytes : forall desc rows,
  map (fun r => (z_elem r, z_score r)) (z_sorted desc rows) = zorder desc (map (fun r => (z_elem r, z_score r)) rows).
Proof. exact zsorted_map. Qed.

Theorem C05_union_inter_no_duplicates : forall g need now d keys, NoDup (map z_elem (zq g need now d keys)).
Proof. exact C05_alg_no_duplicates. Qed.

(* union / intersection of several keys: exactly the members of the mathematical result, for ANY key list *)
Theorem C05_union_members_for_any_key_list : forall g now d keys e, Inv d ->
  In e (map z_elem (zq g None now d keys)) <->
  exists k r, In k keys /\ live_key now d k T_ZSET = Some r /\ In e (map z_elem (zset_rows d (k_id r))).
Proof. exact C05_union_membership. Qed.

Theorem C05_inter_members_for_any_key_list : forall g now d keys e, Inv d -> keys <> [] ->
  In e (map z_elem (zq g (Some (zlen (dedup keys))) now d keys)) <->
  forall k, In k keys -> exists r, live_key now d k T_ZSET = Some r /\ In e (map z_elem (zset_rows d (k_id r))).
Proof. exact C05_inter_membership. Qed.

(* ---- union / intersection over several keys, with and without storing (ProofRefineZAlg.v) ----
   wf_zalg: for min / max every stored score is a number and none is -0 (both are invariants of
   every operation: C05_stored_scores_stay_numbers_under_every_operation, ..._never_negative_zero);
   for sum, the sum the model computes (scores of a member added in row order, as SQLite's sum()
   visits them) equals the sum the specification computes (added in key-list order): binary64
   addition is not associative, so with three or more keys the two can differ
   (C05_sum_order_counterexample, scores 1e16, -1e16, 1); with at most two distinct keys the
   condition always holds (C05_side_condition_holds_for_two_keys).  The generators draw scores from
   {-inf, -1, 0, 0.5, 1, +inf}, the property's domain, whose sums are exact in any order. *)
Theorem C05_union_and_intersection_refine : forall now o d s,
  zalg_op o = true -> wf_zalg o d -> Inv d -> R now d s -> step_refines now o d s.
Proof. exact C05_zalg_step_refines_partial. Qed.

Theorem C05_sum_order_counterexample :
  ~ (forall now o d s, zalg_op o = true -> nums d -> normals d -> NoDup (keys_of o) ->
       Inv d -> R now d s -> step_refines now o d s).
Proof. exact C05_zalg_step_refines_counterexample. Qed.

Theorem C05_side_condition_holds_for_two_keys : forall o d,
  zalg_op o = true -> Inv d -> nums d -> normals d -> zlen (dedup (keys_of o)) <= 2 -> wf_zalg o d.
Proof. exact C05_wf_zalg_two_keys. Qed.

Theorem C05_stored_scores_stay_numbers_under_every_operation : forall now o d,
  Forall (fun r => not_nan (z_score r)) (rzset d) ->
  Forall (fun r => not_nan (z_score r)) (rzset (fst (exec_db now o d))).
Proof. exact C05_scores_stay_numbers_all. Qed.

Theorem C05_stored_scores_never_negative_zero : forall now o d,
  Forall (fun r => normal (z_score r)) (rzset d) ->
  Forall (fun r => normal (z_score r)) (rzset (fst (exec_db now o d))).
Proof. exact C05_scores_stay_normal_all. Qed.

Print Assumptions C05_every_sorted_set_operation_refines_the_sorted_map.
Print Assumptions C05_all_but_rank_lookup_refine_without_score_premise.
Print Assumptions C05_stored_scores_stay_numbers.
Print Assumptions C05_refuted_for_a_stored_nan.
Print Assumptions C05_rank_range_is_the_segment_of_the_sorted_rows.
Print Assumptions C05_rank_is_the_position_in_the_sorted_rows.
Print Assumptions C05_sql_order_is_score_then_member_bytes.
Print Assumptions C05_union_inter_no_duplicates.
Print Assumptions C05_union_members_for_any_key_list.
Print Assumptions C05_inter_members_for_any_key_list.
Print Assumptions C05_union_and_intersection_refine.
Print Assumptions C05_sum_order_counterexample.
Print Assumptions C05_side_condition_holds_for_two_keys.
Print Assumptions C05_stored_scores_stay_numbers_under_every_operation.
Print Assumptions C05_stored_scores_never_negative_zero.
