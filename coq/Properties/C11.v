(* C11 — Stored structure stays consistent: counts, ownership, uniqueness.
   Statements only; proofs are in ProofInv.v and ProofInv2.v.
   [Inv d] = [inv_ok d = true /\ fk_on d = true] where [inv_ok] (Inv.v) says:
   one row per key name and per id; every element row belongs to an existing
   key of the matching type; (kid), (kid,pos), (kid,elem), (kid,field) and the
   rowids are unique; list positions are numbers; the cached length of a list,
   set, hash or sorted set equals the number of its element rows; a string key
   has exactly one value row. *)
From Redka Require Import Base Db Ops Inv Refine ProofInv ProofInv2.

(* every operation of every type, successful or not, for every state and all arguments *)
Theorem C11_consistency_preserved_by_every_operation : forall now o d,
  Inv d -> Inv (fst (exec_db now o d)).
Proof. exact C11_inv_preserved. Qed.

(* hence in every state reachable from the empty database by any history *)
Theorem C11_consistency_of_every_reachable_state : forall (h : list (Z * op)),
  Inv (fold_left (fun acc p => fst (exec_db (fst p) (snd p) acc)) h empty_db).
Proof. exact C11_inv_reachable. Qed.

(* a caller-managed transaction whose callback stops at the first error *)
Theorem C11_consistency_preserved_by_transactions : forall now ops d,
  Inv d -> Inv (fst (exec_update now ops true d)).
Proof. exact C11_inv_update_stop. Qed.

(* a caller-managed transaction that goes on and commits: consistent whenever
   no call in it reported an error ... *)
Theorem C11_transactions_that_continue_partial : forall now ops d,
  Inv d ->
  forallb (fun r => negb (is_err r)) (snd (exec_update now ops false d)) = true ->
  Inv (fst (exec_update now ops false d)).
Proof. exact C11_inv_update_continue_partial. Qed.

(* ... and the full statement (errors ignored, block committed) is FALSE of the
   model in one corner: a list whose last position is +infinity (or >= 2^53,
   where x+1 = x) makes the push's position collide AFTER the key row has been
   bumped; ignoring that storage error commits len = rows + 1.  The witness is
   not reachable by fewer than 2^53 pushes; see DESIGN.md. *)
Theorem C11_transactions_that_ignore_errors_refuted :
  Inv cex_db /\ ~ Inv (fst (exec_update 0 [LPushBack "a" (AStr "y")] false cex_db)).
Proof. exact C11_inv_update_continue_counterexample. Qed.

Print Assumptions C11_consistency_preserved_by_every_operation.
Print Assumptions C11_consistency_of_every_reachable_state.
Print Assumptions C11_consistency_preserved_by_transactions.
Print Assumptions C11_transactions_that_continue_partial.
Print Assumptions C11_transactions_that_ignore_errors_refuted.
