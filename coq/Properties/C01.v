(* C01 — Strings behave like a map from key to byte string.
   Statements only; proofs are in ProofRefineStr.v (refinement) and
   ProofConv.v (canonical text of numbers).
   [step_refines now o d s] (Refine.v): running operation o at time now on the
   faithful state d and on the abstract map s gives the same error, the same
   result (unordered collections up to order) and re-establishes the relation
   [R] between the two states.  The abstract side (Spec.v: spec_set,
   spec_set_with, spec_incr, ...) is the plain in-memory map of the property:
   an unconditional set replaces the value and clears the expiry unless told
   to keep it, a conditional set acts only when its condition holds and
   reports created/updated/previous value, an increment fails without effect
   on a non-number and stores the canonical text of the sum.
   Side conditions: [wf_op] - the item list of SetMany has distinct keys (it is
   a Go map); [int_ok] - an integer increment's delta is a Go int (int64).
   Without the latter the statement is false of the model, see
   C01_refuted_without_int_ok. *)
From Redka Require Import Base Db Ops Spec Abs Inv Refine ProofConv ProofRefineStr.

Theorem C01_every_string_operation_refines_the_map : forall now o d s,
  str_op o = true -> wf_op o -> int_ok o -> Inv d -> R now d s -> step_refines now o d s.
Proof. exact C01_string_step_refines_partial. Qed.

(* whole histories of string and key operations, with non-decreasing times,
   from any consistent pair of states: every call returns what the map
   returns, and afterwards every key holds what the map holds *)
Theorem C01_every_history_refines_the_map : forall h t0 d s,
  (forall p, In p h -> (str_op (snd p) || key_op (snd p)) = true /\ wf_op (snd p) /\ int_ok (snd p)) ->
  times_ok t0 h -> Inv d -> R t0 d s ->
  Forall2 (fun (po : (Z * op) * out) (so : out) => out_equiv (snd (fst po)) (snd po) so)
          (combine h (snd (run_impl h d))) (snd (run_spec h s))
  /\ (forall tl, (match rev h with (t, _) :: _ => t | [] => t0 end) = tl -> R tl (fst (run_impl h d)) (fst (run_spec h s))).
Proof. exact C01_history_refines_partial. Qed.

(* the relation holds initially, and survives the passing of time *)
Theorem C01_initially : forall now, R now empty_db [].
Proof. exact R_empty. Qed.
Theorem C01_relation_survives_time : forall now now' d s, Inv d -> now <= now' -> R now d s -> R now' d s.
Proof. exact R_mono_partial. Qed.

(* an increment stores the canonical text of the sum, which reads back as that number *)
Theorem C01_increment_text_reads_back : forall z, in_int64 z = true -> value_int (itoa z) = Some z.
Proof. exact value_int_itoa. Qed.

(* why [int_ok] is needed: a delta outside int64 (impossible in Go) separates model and spec *)
Theorem C01_refuted_without_int_ok :
  ~ (forall now o d s, str_op o = true -> wf_op o -> Inv d -> R now d s -> step_refines now o d s).
Proof. exact C01_counterexample. Qed.

Print Assumptions C01_every_string_operation_refines_the_map.
Print Assumptions C01_every_history_refines_the_map.
Print Assumptions C01_initially.
Print Assumptions C01_relation_survives_time.
Print Assumptions C01_increment_text_reads_back.
Print Assumptions C01_refuted_without_int_ok.
