(* C04 — Hashes behave like a field-to-value map.
   Statements copied verbatim from ProofRefineHash.v and closed with `exact`.
   `step_refines` (Refine.v): same error, same result, abstraction relation re-established.
   The abstract side (Spec.v: spec_hset_many, spec_hset_nx, spec_hdelete, spec_hincr, ...) is the
   plain in-memory field map: set / multi-set / set-if-absent report which fields were created,
   delete reports the number removed, increments treat a missing field as 0 and fail without effect
   on a non-number.  Side conditions (wf_hop): SetMany's item list has distinct fields (a Go map),
   an integer delta is a Go int.  HScan is covered by C16. *)
From Redka Require Import Base Db ImplHash Ops Spec Abs Inv Refine ProofRefineStr ProofRefineHash.

(* ================================================================== *)
Theorem C04_every_hash_operation_refines_the_field_map : forall now o d s,
  hash_op o = true -> wf_hop o -> Inv d -> R now d s -> step_refines now o d s.
Proof. exact C04_hash_step_refines. Qed.

(* whole histories of hash, string and key operations *)
Theorem C04_every_history_refines : forall h t0 d s,
  (forall p, In p h -> (hash_op (snd p) || str_op (snd p) || key_op (snd p)) = true /\ wf_hop (snd p) /\ wf_op (snd p) /\ int_ok (snd p)) ->
  times_ok t0 h -> Inv d -> R t0 d s ->
  Forall2 (fun (po : (Z * op) * out) (so : out) => out_equiv (snd (fst po)) (snd po) so)
          (combine h (snd (run_impl h d))) (snd (run_spec h s))
  /\ (forall tl, (match rev h with (t, _) :: _ => t | [] => t0 end) = tl -> R tl (fst (run_impl h d)) (fst (run_spec h s))).
Proof. exact C04_history_refines. Qed.

(* the readers agree with one another: all are images of the same field map *)
Theorem C04_readers_agree : forall now d key,
  Inv d ->
  let items := snd (hash_items now key d) in
  match items with
  | Ok l =>
      snd (hash_len now key d) = Ok (zlen l) /\
      snd (hash_fields now key d) = Ok (map fst l) /\
      snd (hash_values now key d) = Ok (map snd l) /\
      (forall f, snd (hash_exists now key f d) = Ok (existsb (fun p => String.eqb (fst p) f) l)) /\
      (forall f, snd (hash_get now key f d) = match find (fun p => String.eqb (fst p) f) l with Some p => Ok (snd p) | None => Err ENotFound end)
  | Err _ => False
  end.
Proof. exact C04_readers_agree. Qed.

Print Assumptions C04_every_hash_operation_refines_the_field_map.
Print Assumptions C04_every_history_refines.
Print Assumptions C04_readers_agree.
