(* C02 — Lists behave like an ordered sequence under every index.
   Statements only; proofs are in ProofRange.v.  This file carries the
   index-arithmetic part of the property: for ALL integers start, stop, idx the
   window the SQL computes is the Redis slice of the sequence. *)
From Redka Require Import Base Db Ops Spec Abs Inv Refine ImplList ProofRange ProofRefineList.
From Redka Require ProofFloat ProofFloatMid.
From Redka Require Import ProofRefineZAlg.

(* the LIMIT window of sqlRange / sqlTrim is the Redis slice: negative indexes
   count from the tail, out-of-range bounds are clamped, inverted or empty
   ranges select nothing *)
Theorem C02_range_window_is_redis_slice : forall (A : Type) (l : list A) (start stop : Z),
  let '(off, cnt) := range_window (Some (zlen l)) start stop in
  sql_limit off cnt l = slice l start stop.
Proof. exact range_window_is_slice. Qed.

(* Range on a live list returns exactly the slice of its element sequence *)
Theorem C02_range_returns_slice : forall now d key start stop k,
  live_key now d key T_LIST = Some k ->
  k_len k = Some (zlen (rows_asc d (k_id k))) ->
  list_range now key start stop d = (d, Ok (slice (map l_elem (rows_asc d (k_id k))) start stop)).
Proof. exact list_range_spec. Qed.

(* a missing key reads as an empty list and never as an error *)
Theorem C02_range_missing_key_is_empty : forall now d key start stop,
  live_key now d key T_LIST = None -> list_range now key start stop d = (d, Ok []).
Proof. exact list_range_missing. Qed.

(* index access: negative indexes count from the tail *)
Theorem C02_index_from_tail : forall (A : Type) (l : list A) (idx : Z),
  int64_min <= idx <= int64_max ->
  (let '(rev_, i) := norm_idx idx in znth i (if rev_ then rev l else l))
  = match norm_index (zlen l) idx with Some j => znth j l | None => None end.
Proof. exact norm_index_nth. Qed.

(* ---- the sequence behaviour of the list operations (ProofRefineList.v) ----
   Elements are ordered by a binary64 position; a push takes max+1 / min-1.  The order
   proofs rest on nine IEEE-754 order facts about Coq's primitive floats, which are theorems of
   ProofFloat.v (from Coq.Floats.FloatAxioms - the standard library's specification of the
   primitive operations - and Flocq's rounding theory, hence the Reals axioms under
   Print Assumptions; see DESIGN.md section 6). *)
Ltac ff := first [ exact ProofFloat.fle_refl | exact ProofFloat.fle_trans | exact ProofFloat.fle_total
  | exact ProofFloat.flt_le | exact ProofFloat.feq_le | exact ProofFloat.fle_num | exact ProofFloat.fadd1_ge
  | exact ProofFloat.fsub1_le | exact ProofFloat.fzero_num ].

(* pushing at the back appends to the sequence and returns its new length *)
Theorem C02_push_back_appends : forall now key v d d' n k b,
  Inv d -> live_key now d key T_LIST = Some k -> to_bytes v = Some (Some b) ->
  list_push now key v false d = (d', Ok n) ->
  seq_of d' (k_id k) = seq_of d (k_id k) ++ [b] /\ n = zlen (seq_of d' (k_id k)).
Proof. intros; eapply push_back_appends; try ff; eauto. Qed.
Theorem C02_push_front_prepends : forall now key v d d' n k b,
  Inv d -> live_key now d key T_LIST = Some k -> to_bytes v = Some (Some b) ->
  list_push now key v true d = (d', Ok n) ->
  seq_of d' (k_id k) = b :: seq_of d (k_id k) /\ n = zlen (seq_of d' (k_id k)).
Proof. intros; eapply push_front_prepends; try ff; eauto. Qed.
(* popping removes exactly the last / first element *)
Theorem C02_pop_back_removes_last : forall now key d d' e k,
  Inv d -> live_key now d key T_LIST = Some k -> list_pop now key true d = (d', Ok e) ->
  seq_of d (k_id k) = seq_of d' (k_id k) ++ [e].
Proof. intros; eapply pop_back_removes_last; try ff; eauto. Qed.
Theorem C02_pop_front_removes_first : forall now key d d' e k,
  Inv d -> live_key now d key T_LIST = Some k -> list_pop now key false d = (d', Ok e) ->
  seq_of d (k_id k) = e :: seq_of d' (k_id k).
Proof. intros; eapply pop_front_removes_first; try ff; eauto. Qed.

(* every list operation other than the pivot inserts refines the abstract
   sequence: push and pop at both ends, pop-and-push between lists (also with
   source = destination), set by index, remove occurrences from front, back or
   all, trim, range, index, length.  For the three pushing operations the
   premise push_free says that max+1 (min-1) was a new position, i.e. the push
   did not fail on the UNIQUE (kid, pos) index (it does once a position
   reaches 2^53, where x+1 = x: see the refutation below). *)
Theorem C02_every_list_operation_refines : forall now o d s,
  list_op o = true -> wf_lop o -> Inv d -> R now d s ->
  (is_push o = true -> push_free now o d) -> step_refines now o d s.
Proof. intros; eapply C02_list_step_refines_partial; try ff; eauto. Qed.
Theorem C02_operations_that_do_not_push_refine : forall now o d s,
  list_op o = true -> is_push o = false -> wf_lop o -> Inv d -> R now d s -> step_refines now o d s.
Proof. intros; eapply C02_list_step_refines_nopush; try ff; eauto. Qed.

(* without the premise the statement is false of the model: a list whose last
   position is 2^53 refuses the next push (position collision, nothing changes) *)
Theorem C02_push_refuted_at_2_pow_53 :
  ~ (forall now o d s,
       list_op o = true -> wf_lop o -> Inv d -> R now d s -> step_refines now o d s).
Proof. exact C02_list_step_refines_counterexample. Qed.

(* ---- the pivot inserts (ProofRefineZAlg.v, Section LInsertGen) ----
   LInsertBefore / LInsertAfter place the new element at the midpoint of the pivot's position and
   its neighbour's (max+1 / min-1 at the ends).  Premises: every stored position is at most 2^1022
   in magnitude (ProofFloatMid.small: the sum of two such positions is finite; positions start at 0
   and move by +-1 and by midpoints, so this is far beyond reach), and the midpoint was a new position
   (insert_free: no UNIQUE (kid, pos) collision - the implementation refuses the insert once
   two neighbours are adjacent binary64 values, after 52 halvings). Without the bound the statement is
   false of the model (C02_linsert_refuted_at_2_pow_1023: the sum overflows to +inf). *)
Theorem C02_pivot_inserts_refine : forall now o d s,
  is_linsert o -> Inv d -> R now d s ->
  (forall x, In x (rlist d) -> ProofFloatMid.small (l_pos x) = true) ->
  insert_free now o d -> step_refines now o d s.
Proof.
  intros; eapply (C02_linsert_step_refines_bounded ProofFloat.fle_refl ProofFloat.fle_trans ProofFloat.fle_total
    ProofFloat.flt_le ProofFloat.feq_le ProofFloat.fle_num ProofFloat.fadd1_ge ProofFloat.fsub1_le ProofFloat.fzero_num
    ProofFloatMid.small ProofFloatMid.fmid_small); eauto.
Qed.

Theorem C02_linsert_refuted_at_2_pow_1023 :
  ~ (forall now o d s, is_linsert o -> Inv d -> R now d s -> insert_free now o d -> step_refines now o d s).
Proof. exact C02_linsert_step_refines_counterexample. Qed.

Print Assumptions C02_range_window_is_redis_slice.
Print Assumptions C02_range_returns_slice.
Print Assumptions C02_range_missing_key_is_empty.
Print Assumptions C02_index_from_tail.
Print Assumptions C02_push_back_appends.
Print Assumptions C02_pop_back_removes_last.
Print Assumptions C02_every_list_operation_refines.
Print Assumptions C02_operations_that_do_not_push_refine.
Print Assumptions C02_push_refuted_at_2_pow_53.
Print Assumptions C02_push_front_prepends.
Print Assumptions C02_pop_front_removes_first.
Print Assumptions C02_pivot_inserts_refine.
Print Assumptions C02_linsert_refuted_at_2_pow_1023.
