(* C02 — Lists behave like an ordered sequence under every index.
   Statements only; proofs are in ProofRange.v.  This file carries the
   index-arithmetic part of the property: for ALL integers start, stop, idx the
   window the SQL computes is the Redis slice of the sequence. *)
From Redka Require Import Base Db Ops Spec ImplList ProofRange.

(* the LIMIT window of sqlRange / sqlTrim is the Redis slice: negative indexes
   count from the tail, out-of-range bounds are clamped, inverted or empty
   ranges select nothing *)
Theorem C02_range_window_is_redis_slice : forall (A : Type) (l : list A) (start stop : Z),
  let '(off, cnt) := range_window (Some (zlen l)) start stop in
  sql_limit off cnt l = slice l start stop.
Proof. exact range_window_is_slice. Qed.

(* Range on a live list returns exactly the slice of its element sequence *)
Theorem C02_range_returns_slice : forall now d key start stop k,
  live_key now d key T_LIST = Some k ->
  k_len k = Some (zlen (rows_asc d (k_id k))) ->
  list_range now key start stop d = (d, Ok (slice (map l_elem (rows_asc d (k_id k))) start stop)).
Proof. exact list_range_spec. Qed.

(* a missing key reads as an empty list and never as an error *)
Theorem C02_range_missing_key_is_empty : forall now d key start stop,
  live_key now d key T_LIST = None -> list_range now key start stop d = (d, Ok []).
Proof. exact list_range_missing. Qed.

(* index access: negative indexes count from the tail *)
Theorem C02_index_from_tail : forall (A : Type) (l : list A) (idx : Z),
  int64_min <= idx <= int64_max ->
  (let '(rev_, i) := norm_idx idx in znth i (if rev_ then rev l else l))
  = match norm_index (zlen l) idx with Some j => znth j l | None => None end.
Proof. exact norm_index_nth. Qed.

Print Assumptions C02_range_window_is_redis_slice.
Print Assumptions C02_range_returns_slice.
Print Assumptions C02_range_missing_key_is_empty.
Print Assumptions C02_index_from_tail.
