(* C14 — One well-formed reply per request; the server never goes down.
   Statements only; proofs are in ProofServer.v.  What the model can carry:
   for every connection state, every database and every request (parse error,
   MULTI, EXEC, DISCARD or any command) the handler chain writes exactly one
   complete reply value - EXEC's array included, also when a queued command
   fails - and a pipeline of n requests yields n replies in order.
   Assumption (validated by the wire runs for every command): a command's Run
   writes exactly one complete value.  Process survival, redcon's protocol
   reader and hangs are outside the model and are exercised by the wire runs. *)
From Coq Require Import List Bool Arith.
Import ListNotations.
From Redka Require Import Server ProofServer.

Theorem C14_exactly_one_reply : forall (DB Cmd : Type) (run : Cmd -> DB -> DB * bool) st d r,
  let '(_, _, ts) := handle run st d r in complete_values ts = Some 1.
Proof. exact one_reply. Qed.

Theorem C14_pipeline_of_n_gives_n_replies : forall (DB Cmd : Type) (run : Cmd -> DB -> DB * bool) rs st d,
  let '(_, _, out) := serve DB Cmd run st d rs in
  length out = length rs /\ Forall (fun ts => complete_values ts = Some 1) out.
Proof. exact pipeline_replies. Qed.

Print Assumptions C14_exactly_one_reply.
Print Assumptions C14_pipeline_of_n_gives_n_replies.
