(* C14 — One well-formed reply per request; the server never goes down.
   Statements only; proofs are in ProofServer.v.  What the model can carry:
   for every connection state, every database and every request (parse error,
   MULTI, EXEC, DISCARD or any command) the handler chain writes exactly one
   complete reply value - EXEC's array included, also when a queued command
   fails - and a pipeline of n requests yields n replies in order.
   The handler model takes for granted that a command's Run writes exactly one
   complete value.  That is no longer an assumption: harness/cmd/wprogs translates
   the Run method of every command type in /repo (93; helpers that receive the
   writer inlined) into a small IR of writer calls, branches, loops over named
   collections and returns (gen/WriterProgs.v, regenerated on every run);
   Writer.v gives the IR its trace semantics and a checker that tracks the number of
   values still owed as a linear expression over collection lengths; check_sound
   (ProofWriter.v) proves that an accepted program emits exactly one complete value
   on every path for EVERY environment, i.e. whatever the lengths of the collections;
   and every generated program is accepted (by computation).  What remains trusted is
   the Go -> IR translation.  Process survival, redcon's protocol reader and hangs
   are outside the model and are exercised by the wire runs. *)
From Coq Require Import List Bool Arith.
Import ListNotations.
From Redka Require Import Server ProofServer Writer ProofWriter ProofWriterProgs.
From Redka.gen Require WriterProgs.
From Coq Require Import String.

Theorem C14_exactly_one_reply : forall (DB Cmd : Type) (run : Cmd -> DB -> DB * bool) st d r,
  let '(_, _, ts) := handle run st d r in complete_values ts = Some 1.
Proof. exact one_reply. Qed.

Theorem C14_pipeline_of_n_gives_n_replies : forall (DB Cmd : Type) (run : Cmd -> DB -> DB * bool) rs st d,
  let '(_, _, out) := serve DB Cmd run st d rs in
  List.length out = List.length rs /\ Forall (fun ts => complete_values ts = Some 1) out.
Proof. exact pipeline_replies. Qed.

(* ---- every command's Run writes exactly one complete value ---- *)
(* the checker is sound: for all environments (lengths unbounded) *)
Theorem C14_accepted_writer_programs_emit_one_value : forall p, check p = true ->
  forall env tr ret, runs p env tr ret -> one_value tr.
Proof. exact check_sound. Qed.

(* every program generated from the current source is accepted ... *)
Theorem C14_all_generated_command_programs_are_accepted :
  forallb (fun p => check (snd p)) WriterProgs.progs = true.
Proof. exact all_commands_check. Qed.

(* ... hence every command writes one complete value on every path, whatever the data *)
Theorem C14_every_command_writes_exactly_one_value : forall name p,
  In (name, p) WriterProgs.progs ->
  forall env tr ret, runs p env tr ret -> one_value tr.
Proof. exact every_command_writes_one_value. Qed.

(* the checker is not vacuous: it refuses an array header of 2*len followed by one value per
   element, two values in a row, and a path that writes nothing *)
Theorem C14_checker_refuses_malformed_programs :
  check [WArr (LMul 2 (LLen "items")); WFor "items" [WVal]] = false /\
  check [WVal; WVal] = false /\
  check [WIf [WVal] []] = false.
Proof. repeat split; vm_compute; reflexivity. Qed.

Print Assumptions C14_exactly_one_reply.
Print Assumptions C14_pipeline_of_n_gives_n_replies.
Print Assumptions C14_accepted_writer_programs_emit_one_value.
Print Assumptions C14_all_generated_command_programs_are_accepted.
Print Assumptions C14_every_command_writes_exactly_one_value.
Print Assumptions C14_checker_refuses_malformed_programs.
