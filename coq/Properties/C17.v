(* C17 — Keys, fields, members and values are binary-safe; values given as
   integers or booleans are stored as their canonical text.
   Statements only; proofs are in ProofConv.v. *)
From Redka Require Import Base ProofConv.

(* the canonical text of an integer reads back as that integer ... *)
Theorem C17_int_text_roundtrip : forall z, in_int64 z = true -> atoi (itoa z) = Some z.
Proof. exact atoi_itoa. Qed.

(* ... and distinct integers have distinct texts *)
Theorem C17_int_text_injective : forall a b,
  in_int64 a = true -> in_int64 b = true -> itoa a = itoa b -> a = b.
Proof. exact itoa_injective. Qed.

(* a value given as an integer / boolean is stored exactly as the string of its canonical text *)
Theorem C17_int_value_is_its_text : forall z, to_bytes (AInt z) = to_bytes (AStr (itoa z)).
Proof. exact to_bytes_int. Qed.
Theorem C17_bool_value_is_its_text : forall b, to_bytes (ABool b) = to_bytes (AStr (if b then "1" else "0")).
Proof. exact to_bytes_bool. Qed.

(* the string and byte-slice forms of an argument denote the same bytes *)
Theorem C17_string_and_bytes_agree : forall s, to_bytes (AStr s) = to_bytes (ABytes s).
Proof. exact to_bytes_str_bytes. Qed.

Print Assumptions C17_int_text_roundtrip.
Print Assumptions C17_int_text_injective.
Print Assumptions C17_int_value_is_its_text.
Print Assumptions C17_bool_value_is_its_text.
Print Assumptions C17_string_and_bytes_agree.
