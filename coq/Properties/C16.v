(* C16 — Cursor iteration returns every element exactly once.
   Statements only; proofs are in ProofScan.v.  [key_iter] / [set_iter] /
   [hash_iter] / [zset_iter] are the iteration protocol itself: call scan, feed
   the returned cursor back, stop at the first empty page.  The equations say
   that the concatenation of all pages IS the list of matching elements in
   id order: every one, exactly once, for every page size (0 = default 10,
   negative = unlimited) and every pattern.
   Hypothesis [ids_ascending]: ids / rowids ascend in table order (SQLite hands
   out max+1 and the model appends); it holds for the empty database and is kept
   by the row-appending primitive (last two theorems); that the real tables are
   read in rowid order is what "order by id / order by rowid" in the four scan
   statements says (checked as source facts and by the lock-step runs). *)
From Redka Require Import Base Db Glob ImplKey ImplSet ImplHash ImplZSet Ops ProofScan.

Theorem C16_key_iteration : forall now pat ktype count d,
  ids_ascending d = true ->
  key_iter (S (List.length (rkey d))) now pat ktype count d 0 = filter (key_matches now pat ktype) (rkey d).
Proof. exact C16_key_iteration_complete. Qed.

Theorem C16_set_iteration : forall now key pat count d k,
  ids_ascending d = true -> live_key now d key T_SET = Some k ->
  set_iter (S (List.length (rset d))) now key pat count d 0
  = map e_elem (filter (fun r => (e_kid r =? k_id k) && glob pat (e_elem r)) (rset d)).
Proof. exact C16_set_iteration_complete. Qed.

Theorem C16_hash_iteration : forall now key pat count d k,
  ids_ascending d = true -> live_key now d key T_HASH = Some k ->
  hash_iter (S (List.length (rhash d))) now key pat count d 0
  = map (fun r => (h_field r, h_val r)) (filter (fun r => (h_kid r =? k_id k) && glob pat (h_field r)) (rhash d)).
Proof. exact C16_hash_iteration_complete. Qed.

Theorem C16_zset_iteration : forall now key pat count d k,
  ids_ascending d = true -> live_key now d key T_ZSET = Some k ->
  zset_iter (S (List.length (rzset d))) now key pat count d 0
  = filter (fun r => (z_kid r =? k_id k) && glob pat (z_elem r)) (rzset d).
Proof. exact C16_zset_iteration_complete. Qed.

(* a finished iteration is signalled unambiguously: an empty page carries
   cursor 0, a non-empty page a positive cursor beyond the one given *)
Theorem C16_end_signal : forall now cursor pat ktype count d c page,
  ids_ascending d = true -> snd (key_scan now cursor pat ktype count d) = Ok (c, page) ->
  (page = [] -> c = 0) /\ (page <> [] -> 0 < c /\ cursor < c \/ cursor < 0 /\ 0 < c).
Proof. exact C16_key_scan_end_signal. Qed.

Theorem C16_missing_key_iterates_empty : forall now key pat count d fuel,
  live_key now d key T_SET = None -> set_iter fuel now key pat count d 0 = [].
Proof. exact C16_set_iteration_missing. Qed.

Theorem C16_ascending_initially : ids_ascending empty_db = true.
Proof. exact ids_ascending_empty. Qed.
Theorem C16_ascending_kept_by_append : forall d r,
  ids_ascending d = true -> k_id r = next_key_id d -> ids_ascending (set_rkey d (rkey d ++ [r])) = true.
Proof. exact ids_ascending_append_key. Qed.

(* non-vacuity: a reachable state with three keys, iterated with page size 2 *)
Example C16_example :
  let d := fst (exec_db 3 (SSet "c" (AStr "3")) (fst (exec_db 2 (SSet "b" (AStr "2")) (fst (exec_db 1 (SSet "a" (AStr "1")) empty_db))))) in
  ids_ascending d = true /\
  map k_key (key_iter 4 10 "*" 0 2 d 0) = ["a"; "b"; "c"].
Proof. vm_compute. split; reflexivity. Qed.

Print Assumptions C16_key_iteration.
Print Assumptions C16_set_iteration.
Print Assumptions C16_hash_iteration.
Print Assumptions C16_zset_iteration.
Print Assumptions C16_end_signal.
Print Assumptions C16_missing_key_iterates_empty.
Print Assumptions C16_ascending_initially.
Print Assumptions C16_ascending_kept_by_append.
