(* C16 — Cursor iteration returns every element exactly once.
   Statements only; proofs are in ProofScan.v.  [key_iter] / [set_iter] /
   [hash_iter] / [zset_iter] are the iteration protocol itself: call scan, feed
   the returned cursor back, stop at the first empty page.  The equations say
   that the concatenation of all pages IS the list of matching elements in
   id order: every one, exactly once, for every page size (0 = default 10,
   negative = unlimited) and every pattern.
   Hypothesis [ids_ascending]: ids / rowids ascend in table order (SQLite hands
   out max+1 and the model appends); it holds for the empty database and is kept
   by the row-appending primitive (last two theorems); that the real tables are
   read in rowid order is what "order by id / order by rowid" in the four scan
   statements says (checked as source facts and by the lock-step runs). *)
From Redka Require Import Base Db Glob ImplKey ImplSet ImplHash ImplZSet Ops ProofScan.

Theorem C16_key_iteration : forall now pat ktype count d,
  ids_ascending d = true ->
  key_iter (S (List.length (rkey d))) now pat ktype count d 0 = filter (key_matches now pat ktype) (rkey d).
Proof. exact C16_key_iteration_complete. Qed.

Theorem C16_set_iteration : forall now key pat count d k,
  ids_ascending d = true -> live_key now d key T_SET = Some k ->
  set_iter (S (List.length (rset d))) now key pat count d 0
  = map e_elem (filter (fun r => (e_kid r =? k_id k) && glob pat (e_elem r)) (rset d)).
Proof. exact C16_set_iteration_complete. Qed.

Theorem C16_hash_iteration : forall now key pat count d k,
  ids_ascending d = true -> live_key now d key T_HASH = Some k ->
  hash_iter (S (List.length (rhash d))) now key pat count d 0
  = map (fun r => (h_field r, h_val r)) (filter (fun r => (h_kid r =? k_id k) && glob pat (h_field r)) (rhash d)).
Proof. exact C16_hash_iteration_complete. Qed.

Theorem C16_zset_iteration : forall now key pat count d k,
  ids_ascending d = true -> live_key now d key T_ZSET = Some k ->
  zset_iter (S (List.length (rzset d))) now key pat count d 0
  = filter (fun r => (z_kid r =? k_id k) && glob pat (z_elem r)) (rzset d).
Proof. exact C16_zset_iteration_complete. Qed.

(* a finished iteration is signalled unambiguously: an empty page carries
   cursor 0, a non-empty page a positive cursor beyond the one given *)
Theorem C16_end_signal : forall now cursor pat ktype count d c page,
  ids_ascending d = true -> snd (key_scan now cursor pat ktype count d) = Ok (c, page) ->
  (page = [] -> c = 0) /\ (page <> [] -> 0 < c /\ cursor < c \/ cursor < 0 /\ 0 < c).
Proof. exact C16_key_scan_end_signal. Qed.

Theorem C16_missing_key_iterates_empty : forall now key pat count d fuel,
  live_key now d key T_SET = None -> set_iter fuel now key pat count d 0 = [].
Proof. exact C16_set_iteration_missing. Qed.

Theorem C16_ascending_initially : ids_ascending empty_db = true.
Proof. exact ids_ascending_empty. Qed.
Theorem C16_ascending_kept_by_append : forall d r,
  ids_ascending d = true -> k_id r = next_key_id d -> ids_ascending (set_rkey d (rkey d ++ [r])) = true.
Proof. exact ids_ascending_append_key. Qed.

(* non-vacuity: a reachable state with three keys, iterated with page size 2 *)
Example C16_example :
  let d := fst (exec_db 3 (SSet "c" (AStr "3")) (fst (exec_db 2 (SSet "b" (AStr "2")) (fst (exec_db 1 (SSet "a" (AStr "1")) empty_db))))) in
  ids_ascending d = true /\
  map k_key (key_iter 4 10 "*" 0 2 d 0) = ["a"; "b"; "c"].
Proof. vm_compute. split; reflexivity. Qed.


(* ---- iterations that run while the database changes (proofs in ProofScan2.v) ----
   [set_iter_with now key pat count steps d 0] is the iteration protocol with the operations
   [steps] of other clients interleaved: before each page fetch the next entry of [steps] is
   applied ([None] = nothing happens).  [run_dbs] lists every state the database goes through,
   [page_dbs] the states in which a page is fetched.  The result is (items returned, finished?).
   "Present for the whole iteration" = a member in every state of [run_dbs]. *)
From Redka Require Import ImplString ImplList Inv Refine ProofInv ProofInv2 ProofRefineStr ProofNoTrace ProofScan2.

(* the hypothesis ids_ascending is an invariant of EVERY operation of the model, so it holds in every reachable state *)
Theorem C16_ids_ascending_preserved_ : forall now o d,
  Inv d -> ids_ascending d = true -> ids_ascending (fst (exec_db now o d)) = true.
Proof. exact ids_ascending_preserved. Qed.

Theorem C16_ids_ascending_reachable_ : forall h, ids_ascending (fst (run_impl h empty_db)) = true.
Proof. exact ids_ascending_reachable. Qed.

(* sets: a member that is present throughout is returned exactly once, for every page size, pattern and interleaved run of operations other than a store / move (those re-create rows: see the refutations below) *)
Theorem C16_set_present_throughout_exactly_once_ : forall now key pat count steps d kid e,
  Inv d -> ids_ascending d = true ->
  safe_steps set_safe steps ->
  glob pat e = true ->
  Forall (set_member now key kid e) (run_dbs now steps d) ->
  snd (set_iter_with now key pat count steps d 0) = true ->
  count_occ string_dec (fst (set_iter_with now key pat count steps d 0)) e = 1%nat.
Proof. exact C16_set_present_throughout_exactly_once. Qed.

Theorem C16_set_at_most_once_ : forall now key pat count steps d e r,
  Inv d -> ids_ascending d = true ->
  (forall D k y, In D (page_dbs now steps d) -> live_key now D key T_SET = Some k ->
                 In y (rset D) -> e_kid y = k_id k -> e_elem y = e -> e_rid y = r) ->
  (count_occ string_dec (fst (set_iter_with now key pat count steps d 0)) e <= 1)%nat.
Proof. exact C16_set_at_most_once. Qed.

(* hashes: every interleaved operation is allowed *)
Theorem C16_hash_present_throughout_exactly_once_ : forall now key pat count steps d kid f,
  Inv d -> ids_ascending d = true ->
  glob pat f = true ->
  Forall (hash_member now key kid f) (run_dbs now steps d) ->
  snd (hash_iter_with now key pat count steps d 0) = true ->
  List.length (filter (fun fv => String.eqb (fst fv) f)
                      (fst (hash_iter_with now key pat count steps d 0))) = 1%nat.
Proof. exact C16_hash_present_throughout_exactly_once. Qed.

Theorem C16_hash_at_most_once_ : forall now key pat count steps d f r,
  Inv d -> ids_ascending d = true ->
  (forall D k y, In D (page_dbs now steps d) -> live_key now D key T_HASH = Some k ->
                 In y (rhash D) -> h_kid y = k_id k -> h_field y = f -> h_rid y = r) ->
  (List.length (filter (fun fv => String.eqb (fst fv) f)
                       (fst (hash_iter_with now key pat count steps d 0))) <= 1)%nat.
Proof. exact C16_hash_at_most_once. Qed.

(* sorted sets: every interleaved operation but a store *)
Theorem C16_zset_present_throughout_exactly_once_ : forall now key pat count steps d kid e,
  Inv d -> ids_ascending d = true ->
  safe_steps zset_safe steps ->
  glob pat e = true ->
  Forall (zset_member now key kid e) (run_dbs now steps d) ->
  snd (zset_iter_with now key pat count steps d 0) = true ->
  List.length (filter (fun r => String.eqb (z_elem r) e)
                      (fst (zset_iter_with now key pat count steps d 0))) = 1%nat.
Proof. exact C16_zset_present_throughout_exactly_once. Qed.

Theorem C16_zset_at_most_once_ : forall now key pat count steps d e r,
  Inv d -> ids_ascending d = true ->
  (forall D k y, In D (page_dbs now steps d) -> live_key now D key T_ZSET = Some k ->
                 In y (rzset D) -> z_kid y = k_id k -> z_elem y = e -> z_rid y = r) ->
  (List.length (filter (fun r => String.eqb (z_elem r) e)
                       (fst (zset_iter_with now key pat count steps d 0))) <= 1)%nat.
Proof. exact C16_zset_at_most_once. Qed.

(* the keyspace: every interleaved operation is allowed; the key only has to be there, under the same id, whenever a page is fetched *)
Theorem C16_key_present_throughout_exactly_once_ : forall now pat ktype count steps d name kid,
  Inv d -> ids_ascending d = true ->
  Forall (key_present now pat ktype name kid) (page_dbs now steps d) ->
  snd (key_iter_with now pat ktype count steps d 0) = true ->
  List.length (filter (fun k => String.eqb (k_key k) name)
                      (fst (key_iter_with now pat ktype count steps d 0))) = 1%nat.
Proof. exact C16_key_present_throughout_exactly_once. Qed.

Theorem C16_key_at_most_once_ : forall now pat ktype count steps d kid,
  Inv d -> ids_ascending d = true ->
  (List.length (filter (fun k => Z.eqb (k_id k) kid)
                       (fst (key_iter_with now pat ktype count steps d 0))) <= 1)%nat.
Proof. exact C16_key_at_most_once. Qed.

(* The full statement - for EVERY interleaved run - is false of the faithful model, and of the
   code (recorded findings kf_iteration_across_store_into_iterated_key and
   kf_iteration_across_move_to_same_key; the harness replays both on the implementation):
   a store INTO the iterated key re-creates its rows; "a" is a member in every state of the run
   and yet "b" is returned twice and "a" never. *)
Theorem C16_refuted_store_during_iteration :
  set_iter_with 0 "k" "*" 1 [None; Some (EStore AUnion "k" ["k"]); None; None] cex_set_db 0
  = (["b"; "b"], true)
  /\ Forall (set_member 0 "k" 1 "a") (run_dbs 0 [None; Some (EStore AUnion "k" ["k"]); None; None] cex_set_db).
Proof. exact cex_store_during_iteration. Qed.

Theorem C16_refuted_zstore_during_iteration :
  map z_elem (fst (zset_iter_with 0 "z" "*" 1 [None; Some (ZStore false GSum "z" ["z"]); None; None] cex_zset_db 0))
  = ["b"; "b"]
  /\ snd (zset_iter_with 0 "z" "*" 1 [None; Some (ZStore false GSum "z" ["z"]); None; None] cex_zset_db 0) = true.
Proof. exact cex_zstore_during_iteration. Qed.

Theorem C16_refuted_move_same_key_during_iteration :
  set_iter_with 0 "k" "*" 1 [None; Some (EMove "k" "k" (AStr "b")); None; None; None] cex_set_db 0
  = (["b"; "a"; "b"], true).
Proof. exact cex_move_same_key_during_iteration. Qed.

Print Assumptions C16_ids_ascending_preserved_.
Print Assumptions C16_ids_ascending_reachable_.
Print Assumptions C16_set_present_throughout_exactly_once_.
Print Assumptions C16_set_at_most_once_.
Print Assumptions C16_hash_present_throughout_exactly_once_.
Print Assumptions C16_hash_at_most_once_.
Print Assumptions C16_zset_present_throughout_exactly_once_.
Print Assumptions C16_zset_at_most_once_.
Print Assumptions C16_key_present_throughout_exactly_once_.
Print Assumptions C16_key_at_most_once_.
Print Assumptions C16_refuted_store_during_iteration.
Print Assumptions C16_refuted_zstore_during_iteration.
Print Assumptions C16_refuted_move_same_key_during_iteration.


(* ---- the ids of keys are stable (proofs in ProofScan3.v) ----
   The "same id" premise of C16_key_present_throughout_exactly_once_ is discharged from a condition
   on the interleaved operations: the (id, name) table only grows under every operation that
   deletes no key row, and the only operation that gives a live name another id is a rename ONTO
   it (the source row takes the name; refuted below - to a scanner the key jumps to another id). *)
From Redka Require Import ProofScan3.

Theorem C16_key_table_only_grows : forall now o d,
  NoDup (map k_id (rkey d)) -> deletes_keys o = false ->
  exists extra, map idn (rkey (fst (exec_db now o d))) = map idn (rkey d) ++ extra.
Proof. exact exec_db_names_prefix. Qed.

Theorem C16_key_id_stable : forall now o d n i,
  Inv d -> safe_for_key n o = true -> live_named_id now d n i ->
  forall k', In k' (rkey (fst (exec_db now o d))) -> k_key k' = n -> k_id k' = i.
Proof. exact key_id_stable_strong. Qed.

Theorem C16_key_present_throughout_exactly_once_whatever_else_happens : forall now pat ktype count steps d name kid,
  Inv d -> ids_ascending d = true ->
  safe_steps_for_key name steps ->
  Forall (key_matching now pat ktype name) (run_dbs now steps d) ->
  key_present now pat ktype name kid d ->
  snd (key_iter_with now pat ktype count steps d 0) = true ->
  List.length (filter (fun k => String.eqb (k_key k) name)
                      (fst (key_iter_with now pat ktype count steps d 0))) = 1%nat.
Proof. exact C16_key_present_throughout_exactly_once_ids. Qed.

(* a rename onto the iterated name between two pages: the name is live and matching in every state
   of the run, and is returned twice (or, with the ids the other way round, never) *)
Theorem C16_refuted_rename_onto_during_iteration :
  map k_key (fst (key_iter_with 0 "*" 0 1 [None; Some (KRename "a" "n"); None; None] cex_rename_db 0))
  = ["n"; "n"] /\
  snd (key_iter_with 0 "*" 0 1 [None; Some (KRename "a" "n"); None; None] cex_rename_db 0) = true /\
  map (fun D => map idn (rkey D)) (run_dbs 0 [None; Some (KRename "a" "n"); None; None] cex_rename_db)
  = [[(1, "n"); (2, "a")]; [(1, "n"); (2, "a")]; [(2, "n")]; [(2, "n")]; [(2, "n")]].
Proof. exact cex_rename_onto_during_iteration. Qed.

Theorem C16_refuted_rename_onto_during_iteration_missed :
  map k_key (fst (key_iter_with 0 "*" 0 1 [None; Some (KRename "a" "n"); None] cex_keys_db 0))
  = ["a"] /\
  snd (key_iter_with 0 "*" 0 1 [None; Some (KRename "a" "n"); None] cex_keys_db 0) = true.
Proof. exact cex_rename_onto_during_iteration_missed. Qed.

Print Assumptions C16_key_iteration.
Print Assumptions C16_set_iteration.
Print Assumptions C16_hash_iteration.
Print Assumptions C16_zset_iteration.
Print Assumptions C16_end_signal.
Print Assumptions C16_missing_key_iterates_empty.
Print Assumptions C16_ascending_initially.
Print Assumptions C16_ascending_kept_by_append.
Print Assumptions C16_key_table_only_grows.
Print Assumptions C16_key_id_stable.
Print Assumptions C16_key_present_throughout_exactly_once_whatever_else_happens.
Print Assumptions C16_refuted_rename_onto_during_iteration.
Print Assumptions C16_refuted_rename_onto_during_iteration_missed.
