(* C07 — Every write is all-or-nothing, whatever fails and wherever (the part that is logic).
   Statements copied verbatim from ProofTx.v and closed with `exact`.
   Tx.v models a writable transaction (sqlx.DB.execTx) with an injected fault: failing begin, a
   storage failure at the k-th call of the body, a panic or a cancelled context after k calls, a
   failing commit; `update_with_fault` returns the resulting state and whether it committed;
   `read_only_handle` is a handle on which only reads are executed.
   What the model cannot exhibit (exercised by `sysrun c07` with an interposing database/sql driver):
   that database/sql and the driver really roll back, the deferred Rollback on panic, SQLite's own
   statement atomicity, connection replacement. *)
From Redka Require Import Base Db Ops Inv Refine Tx ProofNoTrace ProofTx.

(* ---------- C07 ---------- *)
Theorem C07_all_or_nothing : forall now ops f d,
  let '(d', committed) := update_with_fault now ops f d in
  (committed = false -> d' = d) /\
  (committed = true ->
     f = NoFault /\ d' = fst (exec_update now ops true d) /\
     forallb (fun r => negb (is_err r)) (snd (exec_update now ops true d)) = true).
Proof. exact C07_all_or_nothing. Qed.

Theorem C07_single_operation_atomic : forall now o d,
  is_err (snd (exec_db now o d)) = true -> fst (exec_db now o d) = d.
Proof. exact C07_single_operation_atomic. Qed.

Theorem C07_same_behaviour_afterwards : forall now ops f d,
  fst (update_with_fault now ops f d) = d \/
  fst (update_with_fault now ops f d) = fst (exec_update now ops true d).
Proof. exact C07_same_behaviour_afterwards. Qed.

Theorem C07_usable_afterwards : forall now ops f d,
  Inv d -> Inv (fst (update_with_fault now ops f d)).
Proof. exact C07_usable_afterwards. Qed.

Theorem C07_read_only_never_writes : forall now o d, fst (read_only_handle now o d) = d.
Proof. exact C07_read_only_never_writes. Qed.

(* every DB-level method that is not wrapped in a transaction is a read or one
   of the six single-statement key writes *)
Theorem C07_only_single_statement_writes_are_unwrapped : forall o, wrapped o = false ->
  is_read o = true \/ (exists ks, o = KDelete ks) \/ o = KDeleteAll \/
  (exists n, o = KDeleteExpired n) \/ (exists k t, o = KExpire k t) \/
  (exists k t, o = KExpireAt k t) \/ (exists k, o = KPersist k).
Proof. exact C07_wrapped_table. Qed.

Print Assumptions C07_all_or_nothing.
Print Assumptions C07_single_operation_atomic.
Print Assumptions C07_same_behaviour_afterwards.
Print Assumptions C07_usable_afterwards.
Print Assumptions C07_read_only_never_writes.
Print Assumptions C07_only_single_statement_writes_are_unwrapped.
