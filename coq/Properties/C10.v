(* C10 — An expired key does not exist, for any operation.
   Statements only; proofs are in ProofExpiry.v.  [purge now d] is the state
   with every key whose expiry has been reached physically removed together
   with its elements - what the background cleaner produces.  "Whether or not
   the cleaner has removed it yet" is therefore: the same answer on [d] and on
   [purge now d]. *)
From Redka Require Import Base Db Glob ImplKey Ops Spec Abs Inv Refine ProofExpiry Spec Abs Refine ProofRefineAll.

(* the boundary is sharp, and reads and the cleaner agree on it *)
Theorem C10_expiry_boundary : forall r e, k_etime r = Some e ->
  live (e - 1) r = true /\ live e r = false /\ expired e r = true /\ expired (e - 1) r = false.
Proof. exact C10_boundary. Qed.

(* every read operation of every type answers the same whether or not the
   expired keys are still stored (Key.Len is the recorded known finding) *)
Theorem C10_reads_do_not_see_expired_keys : forall b now o d,
  Inv d -> is_read o = true -> o <> KLen ->
  snd (exec_tx b now o (purge now d)) = snd (exec_tx b now o d).
Proof. exact C10_reads_ignore_expired. Qed.

(* the abstract keyspace (what every refinement theorem speaks about) does not
   contain expired keys at all *)
Theorem C10_abstraction_ignores_expired : forall now d, Inv d -> abs now (purge now d) = abs now d.
Proof. exact C10_purge_abs. Qed.

(* a write to an expired name starts from a fresh, empty key of the requested
   type with no expiry and none of the old elements *)
Theorem C10_write_to_expired_starts_fresh : forall now key typ d r,
  find_key d key = Some r -> expired now r = true ->
  let d' := reset_expired now key typ d in
  exists r', find_key d' key = Some r' /\ k_id r' = k_id r /\ k_type r' = typ /\ k_etime r' = None /\
             k_len r' = (if typ =? 1 then None else Some 0) /\
             (forall x, In x (rstring d') -> s_kid x <> k_id r) /\ (forall x, In x (rlist d') -> l_kid x <> k_id r) /\
             (forall x, In x (rset d') -> e_kid x <> k_id r) /\ (forall x, In x (rhash d') -> h_kid x <> k_id r) /\
             (forall x, In x (rzset d') -> z_kid x <> k_id r).
Proof. exact C10_reset_makes_fresh. Qed.

(* the cleaner removes exactly the expired keys together with all their
   elements and nothing else *)
Theorem C10_cleaner_removes_exactly_the_expired : forall now d, Inv d ->
  let '(d', r) := key_delete_expired now 0 d in
  d' = purge now d /\
  r = Ok (zlen (filter (expired now) (rkey d))) /\
  rkey d' = filter (fun k => negb (expired now k)) (rkey d) /\
  (forall x, In x (rstring d') <-> In x (rstring d) /\ exists k, In k (rkey d') /\ k_id k = s_kid x) /\
  (forall x, In x (rlist d') <-> In x (rlist d) /\ exists k, In k (rkey d') /\ k_id k = l_kid x) /\
  (forall x, In x (rset d') <-> In x (rset d) /\ exists k, In k (rkey d') /\ k_id k = e_kid x) /\
  (forall x, In x (rhash d') <-> In x (rhash d) /\ exists k, In k (rkey d') /\ k_id k = h_kid x) /\
  (forall x, In x (rzset d') <-> In x (rzset d) /\ exists k, In k (rkey d') /\ k_id k = z_kid x).
Proof. exact C10_cleaner_exact. Qed.

Theorem C10_limited_cleaner : forall now n d, 0 < n -> Inv d ->
  let '(d', r) := key_delete_expired now n d in
  r = Ok (Z.min n (zlen (filter (expired now) (rkey d)))) /\
  (forall k, In k (rkey d) -> expired now k = false -> In k (rkey d')) /\
  (forall k, In k (rkey d') -> In k (rkey d)).
Proof. exact C10_cleaner_limited. Qed.

Theorem C10_purge_keeps_consistency : forall now d, Inv d -> Inv (purge now d).
Proof. exact C10_purge_inv. Qed.

(* writes too: every covered operation of every type (ProofRefineAll.covered: all but the cursor scans,
   the random key, Key.Len and the bulk expiry deletion), run where expired keys are still stored and
   run where they have been physically removed, gives the specification's answer and ends with the
   specification's abstraction - nothing a client can observe depends on whether the cleaner has run.
   step_ok: the side conditions of the step theorems (Properties/Shared.v). *)
Theorem C10_writes_do_not_see_expired_keys_either : forall now o d s,
  covered o = true -> step_ok now o d -> step_ok now o (purge now d) -> Inv d -> R now d s ->
  let '(d1, x1) := exec_db now o d in
  let '(d2, x2) := exec_db now o (purge now d) in
  let '(s', y) := spec_step now o s in
  out_equiv o x1 y /\ out_equiv o x2 y /\ R now d1 s' /\ R now d2 s'.
Proof. exact expired_keys_make_no_difference. Qed.

Print Assumptions C10_expiry_boundary.
Print Assumptions C10_reads_do_not_see_expired_keys.
Print Assumptions C10_abstraction_ignores_expired.
Print Assumptions C10_write_to_expired_starts_fresh.
Print Assumptions C10_cleaner_removes_exactly_the_expired.
Print Assumptions C10_limited_cleaner.
Print Assumptions C10_purge_keeps_consistency.
Print Assumptions C10_writes_do_not_see_expired_keys_either.
