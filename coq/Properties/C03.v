(* C03 — Sets behave like mathematical sets, including algebra and store.
   Statements copied verbatim from ProofRefineSet.v and closed with `exact`.
   The membership theorems are about the SQL queries of the model (q_union / q_inter / q_diff:
   "group by elem", "having count(distinct kid) = number of distinct key names", "elem not in
   (others)") for ANY key list: repeated keys, missing keys, keys holding another type.
   `C03_every_set_operation_refines` covers add, remove, the three algebra reads, the three
   stores (also when the destination is one of the sources: the result is read before the
   destination is emptied), membership, items, length, move and - with the implementation's
   random choice as an oracle input that must be a member (`legal_choice`) - pop and random.
   EScan is covered by C16. *)
From Redka Require Import Base Db ImplSet Ops Spec Abs Inv Refine ProofRefineStr ProofRefineSet.

Theorem C03_union_membership : forall now d keys e, Inv d ->
  In e (q_union now d keys) <-> exists k r, In k keys /\ live_key now d k T_SET = Some r /\ In e (map e_elem (set_rows d (k_id r))).
Proof. exact C03_union_membership. Qed.

Theorem C03_inter_membership : forall now d keys e, Inv d -> keys <> [] ->
  In e (q_inter now d keys) <-> forall k, In k keys -> exists r, live_key now d k T_SET = Some r /\ In e (map e_elem (set_rows d (k_id r))).
Proof. exact C03_inter_membership. Qed.

Theorem C03_diff_membership : forall now d first others e, Inv d ->
  In e (q_diff now d (first :: others)) <->
  (exists r, live_key now d first T_SET = Some r /\ In e (map e_elem (set_rows d (k_id r)))) /\
  (forall k r, In k others -> live_key now d k T_SET = Some r -> ~ In e (map e_elem (set_rows d (k_id r)))).
Proof. exact C03_diff_membership. Qed.

(* C03_algebra_no_duplicates as stated (no hypothesis on d) is false for the difference:
   two rows of one key with the same element; see C03_nodup_counterexample *)
Theorem C03_algebra_results_have_no_duplicates : forall a now d keys, Inv d -> NoDup (q_alg a now d keys).
Proof. exact C03_algebra_no_duplicates_partial. Qed.

Theorem C03_every_set_operation_refines : forall now o d s,
  set_op o = true -> legal_choice now d o -> Inv d -> R now d s -> step_refines now o d s.
Proof. exact C03_set_step_refines. Qed.

Theorem C03_add_counts_new_members : forall now key vs d es,
  Inv d -> values_of vs = Some es ->
  match snd (exec_db now (EAdd key vs) d) with
  | mkOut (VI n) None =>
      let before := match live_key now d key T_SET with Some r => map e_elem (set_rows d (k_id r)) | None => [] end in
      n = zlen (filter (fun e => negb (str_in e before)) (dedup es))
  | mkOut _ (Some e) => e = EKeyType
  | _ => False
  end.
Proof. exact C03_add_counts_new_members. Qed.

Print Assumptions C03_union_membership.
Print Assumptions C03_inter_membership.
Print Assumptions C03_diff_membership.
Print Assumptions C03_algebra_results_have_no_duplicates.
Print Assumptions C03_every_set_operation_refines.
Print Assumptions C03_add_counts_new_members.
