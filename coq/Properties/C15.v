(* C15 — MULTI/EXEC runs the queued commands as one isolated transaction.
   Statements only; proofs are in ProofServer.v.  The theorems are generic in
   the database type, the command type and what a command does ([run]): they
   hold for every instantiation, in particular for the faithful model's
   Tx-level step.  [handle] is the server's middleware chain (Server.v),
   [ref_step] the reference machine of the property text. *)
From Coq Require Import List Bool Arith.
Import ListNotations.
From Redka Require Import Server ProofServer.

(* the connection automaton IS the reference machine: same state, same effect
   on the data, one reply - step by step, hence for request sequences of any length *)
Theorem C15_state_machine : forall (DB Cmd : Type) (run : Cmd -> DB -> DB * bool) st d r,
  wf st ->
  let '(st', d', ts) := handle run st d r in
  let '(rs', rd', n) := ref_step run (abs_state st) d r in
  abs_state st' = rs' /\ d' = rd' /\ complete_values ts = Some n /\ wf st'.
Proof. exact step_simulates. Qed.

(* queued commands are acknowledged but have no effect until EXEC *)
Theorem C15_queued_has_no_effect : forall (DB Cmd : Type) (run : Cmd -> DB -> DB * bool) st d c,
  in_multi st = true -> let '(_, d', _) := handle run st d (RCmd c) in d' = d.
Proof. exact queued_has_no_effect. Qed.

(* EXEC runs them in order as one unit: all applied, or - if any fails - none *)
Theorem C15_exec_all_or_nothing : forall (DB Cmd : Type) (run : Cmd -> DB -> DB * bool) st d,
  in_multi st = true ->
  let '(st', d', _) := handle run st d RExec in
  in_multi st' = false /\ cmds st' = [] /\
  (let '(d2, ok) := all_ok run (cmds st) d in d' = if ok then d2 else d).
Proof. exact exec_all_or_nothing. Qed.

(* DISCARD drops them *)
Theorem C15_discard_drops : forall (DB Cmd : Type) (run : Cmd -> DB -> DB * bool) st d,
  in_multi st = true ->
  let '(st', d', _) := handle run st d RDiscard in st' = mkC false [] /\ d' = d.
Proof. exact discard_drops. Qed.

(* each connection independently: a request on one connection never disturbs
   another connection's block, and only ever runs its own queue *)
Theorem C15_connections_independent : forall (DB Cmd : Type) (run : Cmd -> DB -> DB * bool) cs d i r j,
  i <> j -> let '(cs', _, _) := server_step run cs d i r in cs' j = cs j.
Proof. exact connections_independent. Qed.
Theorem C15_own_queue_only : forall (DB Cmd : Type) (run : Cmd -> DB -> DB * bool) cs cs' d i r,
  cs i = cs' i ->
  snd (server_step run cs d i r) = snd (server_step run cs' d i r) /\
  snd (fst (server_step run cs d i r)) = snd (fst (server_step run cs' d i r)).
Proof. exact step_depends_only_on_own_connection. Qed.

(* non-vacuity: a block with a failing command on a counter database *)
Example C15_example :
  let run := fun (c : bool) (d : nat) => (S d, c) in      (* every command increments; [false] fails after writing *)
  let '(s1, d1, _) := handle run cinit 0 RMulti in
  let '(s2, d2, _) := handle run s1 d1 (RCmd true) in
  let '(s3, d3, _) := handle run s2 d2 (RCmd false) in
  let '(s4, d4, t4) := handle run s3 d3 (RCmd true) in
  let '(s5, d5, t5) := handle run s4 d4 RExec in
  d4 = 0 /\ d5 = 0 /\ in_multi s5 = false /\ t5 = [TArrayHdr 3; TValue true; TValue false; TValue false].
Proof. vm_compute. repeat split; reflexivity. Qed.


(* ---- instantiated with the model's operations (proofs in ProofServerTx.v) ----
   [run_op now o d] = one queued command at Tx level.  The database EXEC leaves is the database the
   caller-managed transaction of Ops.v leaves, and therefore (ProofRefineTx.v) related to the
   abstract keyspace after the specification's transaction; the structural invariant holds. *)
From Coq Require Import ZArith.
From Redka Require Import Base Db Ops Spec Inv Refine ProofRefineEvery ProofRefineTx ProofServerTx.

Theorem C15_exec_is_the_transaction : forall now q d,
  fst (@Server.exec_block db op (run_op now) q d) = fst (exec_update now q true d).
Proof. exact exec_is_the_transaction. Qed.

Theorem C15_exec_refines_the_specification : forall now q d s,
  no_delete_all q -> block_ok now q d -> Inv d -> R now d s ->
  R now (fst (@Server.exec_block db op (run_op now) q d)) (fst (spec_update now q true s))
  /\ Inv (fst (@Server.exec_block db op (run_op now) q d)).
Proof. exact exec_refines_the_specification. Qed.

Print Assumptions C15_state_machine.
Print Assumptions C15_queued_has_no_effect.
Print Assumptions C15_exec_all_or_nothing.
Print Assumptions C15_discard_drops.
Print Assumptions C15_connections_independent.
Print Assumptions C15_own_queue_only.
Print Assumptions C15_exec_is_the_transaction.
Print Assumptions C15_exec_refines_the_specification.
