#!/usr/bin/env python3
"""mk_props.py OUT.v HEADER.txt IMPORTS 'ProofFile:thm[=NewName]' ...
Writes a property file: for every named theorem the statement is copied verbatim from the proof
file (from 'Theorem name :' up to 'Proof.') under the new name and closed with `exact name`."""
import re, sys
out, header, imports = sys.argv[1], sys.argv[2], sys.argv[3]
items = sys.argv[4:]
body = []
names = []
for it in items:
    f, rest = it.split(":", 1)
    old, _, new = rest.partition("=")
    new = new or old
    src = open(f).read()
    m = re.search(r"(?ms)^\s*(?:Theorem|Lemma|Corollary)\s+%s\b(.*?)\n\s*Proof\." % re.escape(old), src)
    if not m:
        sys.exit(f"theorem {old} not found in {f}")
    stmt = m.group(1).rstrip()
    comment = ""
    # the comment block directly above the theorem, if any
    pre = src[:m.start()].rstrip()
    cm = re.search(r"(?s)(\(\*(?:(?!\*\)).)*\*\))\s*$", pre)
    if cm:
        comment = cm.group(1) + "\n"
    body.append(f"{comment}Theorem {new}{stmt}\nProof. exact {old}. Qed.\n")
    names.append(new)
with open(out, "w") as w:
    w.write(open(header).read().rstrip() + "\n")
    w.write(imports.rstrip() + "\n\n")
    w.write("\n".join(body))
    w.write("\n" + "\n".join(f"Print Assumptions {n}." for n in names) + "\n")
print("wrote", out, len(names), "theorems")
