#!/bin/bash
# sweep_mutants.sh : run every seeded mutant through the diff-based detection and record the outcome.
declare -A PROF=( [C01]=str [C02]=list [C03]=set [C04]=hash [C05]=zset [C06]=key,mixed [C10]=expiry,expcoll,mixed [C11]=mixed,txmix,zset,list [C12]=refuse,mixed,txmix [C16]=scan [C17]=binary [C18]=glob [C19]=mixed,key,zset,list,str )
out=/verif/seeded/SWEEP.txt
: > $out
for d in ${@:-/verif/seeded/C*-m*}; do
  p=$(basename $d | cut -d- -f1)
  prof=${PROF[$p]:-mixed}
  /verif/tools/try_mutant.sh $d $prof 300 >> $out 2>&1
done
echo done >> $out
