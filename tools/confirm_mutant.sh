#!/bin/bash
# confirm_mutant.sh <mutant-dir> : confirm, in a scratch worktree of /repo's HEAD, that
#  the patch applies, builds, passes the existing suite, and that the demo fails with it and passes without.
set -u
M=$1
export GOFLAGS=-mod=mod GOPROXY=off GOSUMDB=off GOTOOLCHAIN=local
WT=$(mktemp -d /tmp/confirm-XXXX)
DD=$(python3 -c "import json;print(json.load(open('$M/meta.json')).get('demo_dir','.'))" 2>/dev/null || echo .)
git -C /repo worktree add -q --detach $WT HEAD || exit 2
res="ok"
cd $WT
cp $M/demo_test.go $WT/$DD/mut_demo_test.go
if ! go test -mod=mod -vet=off -count=1 -run TestMutDemo ./$DD/ >/tmp/confirm-clean.log 2>&1; then res="demo-fails-on-clean"; fi
if [ "$res" = ok ]; then
  if ! git apply $M/patch.diff 2>/tmp/confirm-apply.log; then res="patch-does-not-apply"; fi
fi
if [ "$res" = ok ]; then
  if ! go build ./... >/tmp/confirm-build.log 2>&1; then res="does-not-build"; fi
fi
if [ "$res" = ok ]; then
  rm -f $WT/$DD/mut_demo_test.go
  if ! go test -mod=mod -vet=off -count=1 ./... >/tmp/confirm-suite.log 2>&1; then res="suite-fails"; fi
  cp $M/demo_test.go $WT/$DD/mut_demo_test.go
fi
if [ "$res" = ok ]; then
  if go test -mod=mod -vet=off -count=1 -run TestMutDemo ./$DD/ >/tmp/confirm-mut.log 2>&1; then res="demo-passes-with-mutant"; fi
fi
cd /
git -C /repo worktree remove --force $WT
echo "$res"
