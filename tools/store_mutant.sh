#!/bin/bash
# store_mutant.sh <src-dir with patch.diff demo_test.go meta.json> <dest name, e.g. C04-m4>
# Confirms the change in a scratch worktree and, if confirmed, stores it under /verif/seeded/<dest>.
set -u
src=$1; dst=/verif/seeded/$2
r=$(/verif/tools/confirm_mutant.sh $src 2>&1 | tail -1)
echo "$2: $r"
[ "$r" = ok ] || exit 1
mkdir -p $dst
cp $src/patch.diff $src/demo_test.go $src/meta.json $dst/
python3 - $dst/meta.json <<'PY'
import json,sys
p=sys.argv[1]; m=json.load(open(p)); m["round"]=2
m["confirmed"]="tools/confirm_mutant.sh on a scratch worktree of /repo HEAD: demo passes on the clean tree, patch applies, go build ./... ok, the full existing suite passes with the patch, demo fails with the patch"
json.dump(m,open(p,'w'),indent=1)
PY
