#!/bin/bash
# try_mutant.sh <seeded-dir> <profiles> [n] : in an isolated scratch worktree of /repo with the patch
# applied, build a private copy of the harness against it and run diffrun; nothing in /repo or /verif/build changes.
set -u
D=$1; PROF=$2; N=${3:-300}
export GOFLAGS=-mod=mod GOPROXY=off GOSUMDB=off GOTOOLCHAIN=local CGO_ENABLED=1
P=$(python3 -c "import json;print(json.load(open('$D/meta.json'))['property'])")
W=$(mktemp -d /tmp/trymut-XXXX)
git -C /repo worktree add -q --detach $W/repo HEAD || exit 2
( cd $W/repo && git apply $D/patch.diff ) || { echo "$D cannot apply"; git -C /repo worktree remove --force $W/repo; rm -rf $W; exit 2; }
cp -r /verif/harness $W/harness
rm -f $W/harness/hx/wireoracle.go $W/harness/hx/*_test.go
sed -i "s#=> /repo#=> $W/repo#" $W/harness/go.mod
cp $W/repo/go.sum $W/harness/go.sum
( cd $W/harness && go build -tags verif -o $W/diffrun ./cmd/diffrun ) > $W/build.log 2>&1 || { echo "$D build failed: $(tail -3 $W/build.log)"; git -C /repo worktree remove --force $W/repo; rm -rf $W; exit 2; }
$W/diffrun -prop $P -profiles $PROF -seed 77 -n $N -out $W/replays > $W/out.json 2>$W/err.log
rc=$?
python3 - <<PY
import json
try:
    d=json.load(open('$W/out.json'))
    kinds=[f['kind'] for f in (d['failures'] or [])]
    print("$(basename $D) rc=$rc failures:", kinds, "wall", round(d['wall_s'],1))
    for f in (d['failures'] or [])[:1]: print("   ", f['detail'][:260].replace("\n"," | "))
except Exception as e:
    print("$(basename $D) rc=$rc no summary", e, open('$W/err.log').read()[-300:])
PY
git -C /repo worktree remove --force $W/repo
rm -rf $W
