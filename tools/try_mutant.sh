#!/bin/bash
# try_mutant.sh <seeded-dir> <what> [n]
#   <what> = comma-separated diffrun profiles, or sys:<mode>, or wire:<mode>
# In an isolated scratch worktree of /repo with the patch applied, build a private copy of the harness
# (and, for wire modes, the server binary) against it and run the check; nothing in /repo or /verif/build changes.
set -u
D=$1; WHAT=$2; N=${3:-300}
export GOFLAGS=-mod=mod GOPROXY=off GOSUMDB=off GOTOOLCHAIN=local CGO_ENABLED=1
P=$(python3 -c "import json;print(json.load(open('$D/meta.json'))['property'])")
W=$(mktemp -d /tmp/trymut-XXXX)
cleanup() { git -C /repo worktree remove --force $W/repo 2>/dev/null; rm -rf $W; }
git -C /repo worktree add -q --detach $W/repo HEAD || exit 2
( cd $W/repo && git apply $D/patch.diff ) || { echo "$(basename $D) cannot apply"; cleanup; exit 2; }
cp -r /verif/harness $W/harness
rm -f $W/harness/hx/*_test.go
sed -i "s#=> /repo#=> $W/repo#" $W/harness/go.mod
cp $W/repo/go.sum $W/harness/go.sum
case "$WHAT" in
  sys:*)  BIN=sysrun;  ARGS="-mode ${WHAT#sys:} -seed 77 -n $N -out $W/replays" ;;
  wire:*) BIN=wirerun; ARGS="-mode ${WHAT#wire:} -seed 77 -n $N -out $W/replays" ;;
  *)      BIN=diffrun; ARGS="-prop $P -profiles $WHAT -seed 77 -n $N -out $W/replays" ;;
esac
( cd $W/harness && go build -tags verif -o $W/$BIN ./cmd/$BIN ) > $W/build.log 2>&1 || { echo "$(basename $D) build failed: $(tail -3 $W/build.log)"; cleanup; exit 2; }
if [ "$BIN" = wirerun ] || [ "$BIN" = sysrun ]; then
  ( cd $W/repo && go build -o $W/redka-server ./cmd/redka ) > $W/build2.log 2>&1 || { echo "$(basename $D) server build failed"; cleanup; exit 2; }
  ( cd $W/harness && go build -tags verif -o $W/srcfacts ./cmd/srcfacts ) >> $W/build2.log 2>&1
  export HX_SERVER_BIN=$W/redka-server HX_SRCFACTS="$W/srcfacts -repo $W/repo"
fi
timeout 900 $W/$BIN $ARGS > $W/out.json 2>$W/err.log
rc=$?
python3 - <<PY
import json
try:
    d=json.load(open('$W/out.json'))
    kinds=[f['kind'] for f in (d['failures'] or [])]
    print("$(basename $D) [$WHAT] rc=$rc failures:", kinds, "wall", round(d['wall_s'],1))
    for f in (d['failures'] or [])[:1]: print("   ", f['detail'][:260].replace("\n"," | "))
except Exception as e:
    print("$(basename $D) [$WHAT] rc=$rc no summary", e, open('$W/err.log').read()[-300:])
PY
cleanup
