#!/bin/bash
# try_mutant.sh <seeded-dir> <profiles> [n] : apply the patch to /repo, rebuild the harness, run diffrun, revert.
set -u
D=$1; PROF=$2; N=${3:-300}
P=$(python3 -c "import json;print(json.load(open('$D/meta.json'))['property'])")
git -C /repo apply $D/patch.diff || { echo "cannot apply"; exit 2; }
/verif/harness/build.sh > /tmp/try-build.log 2>&1 || { echo "build failed"; git -C /repo checkout -- .; exit 2; }
/verif/build/diffrun -prop $P -profiles $PROF -seed 77 -n $N -out /tmp/try-replays > /tmp/try-out.json 2>/tmp/try-err.log
rc=$?
git -C /repo checkout -- .
/verif/harness/build.sh > /dev/null 2>&1
python3 - <<PY
import json
try:
    d=json.load(open('/tmp/try-out.json'))
    kinds=[f['kind'] for f in (d['failures'] or [])]
    print("$D rc=$rc failures:", kinds, "wall", round(d['wall_s'],1))
    for f in (d['failures'] or [])[:1]: print("   ", f['detail'][:300].replace("\n"," | "))
except Exception as e:
    print("$D rc=$rc no summary", e, open('/tmp/try-err.log').read()[-300:])
PY
