#!/usr/bin/env python3
"""Regenerates /verif/MANIFEST.json from the table below."""
import json, os
props={l['id']:l for l in map(json.loads,open('/verif/properties.jsonl'))}
CLAIMS = json.load(open('/verif/tools/claims.json'))
m={"version":1,"setup_cmd":"./setup.sh",
 "hooks":{"guard":"verif","enable":"go build -tags verif (the harness imports github.com/nalgeon/redka/verifhook, a //go:build verif package)","baseline_off_cmd":"cd /repo && GOFLAGS=-mod=mod GOPROXY=off GOSUMDB=off go test -mod=mod -vet=off -count=1 ./...","source_commits":["6ac4ac6"],"add_only":True},
 "engines":[{"name":"coq-model","path":"coq/","serves_properties":sorted(CLAIMS),"kind_free_text":"Coq 8.16.1 development: hand-written executable model of redka (six SQLite tables, triggers, Go control flow), abstract specification, theorems; extracted to OCaml"},
 {"name":"diffrun","path":"harness/cmd/diffrun","serves_properties":sorted(CLAIMS),"kind_free_text":"Go harness: seeded history generation, lock-step execution against the real library built from /repo and the extracted model, direct comparison with the specification, shrinking, replay"}],
 "checks":[],"notes":"see DESIGN.md; KNOWN_FINDINGS.jsonl lists repaired defects (fix: commits in /repo) and recorded known findings","not_applicable":[]}
for pid,c in sorted(CLAIMS.items()):
    m['checks'].append({"property_id":pid,"quick_cmd":f"./check {pid} --tier quick","thorough_cmd":f"./check {pid} --tier thorough","evidence_file":f"evidence/{pid}.json","replay_cmd_template":f"./check {pid} --replay {{path}}","engine":"coq-model","level_claimed":{"category":"proof","text":c['text'],"design_ref":"DESIGN.md section 5"},"level_note":c.get('note',"trusted: Coq kernel; the hand-written model of SQLite/Go semantics (tied to /repo by the lock-step correspondence run on every check); extraction; harness. See DESIGN.md section 6."),"technique":c['technique']})
m['not_applicable']=[{"property_id":p,"reason":"check under construction in this round (see DESIGN.md section 5); it will be claimed when its theorems compile"} for p in sorted(props) if p not in CLAIMS]
json.dump(m,open('/verif/MANIFEST.json','w'),indent=1)
print("claimed:",sorted(CLAIMS))
