#!/bin/bash
# sweep_all.sh [out-file] : every stored change against the check that is expected to catch it
# (seeded/MODES.json: the property's own mode unless noted), quick-tier sizes, 6 at a time.
cd /verif
out=${1:-/verif/seeded/SWEEP-6.txt}
: > $out
python3 - <<'PY' > /tmp/sweep_jobs.txt
import json,glob,os
M=json.load(open('/verif/seeded/MODES.json'))
for d in sorted(glob.glob('/verif/seeded/C*-m*')):
    mid=os.path.basename(d); prop=mid.split('-')[0]
    mode=M.get(mid, M['_default'][prop])
    n=M['_n'].get(mode.split(' ')[0], 300 if not mode.startswith(('sys','wire')) else 40)
    if not mode.startswith(('sys','wire')):
        n={'C02':500,'C11':100,'C12':100,'C19':100}.get(prop,200) if prop not in ('C01','C03','C04','C05') else 300
    print(d, mode.replace(' ','_'), n)
PY
cat /tmp/sweep_jobs.txt | xargs -P 6 -L 1 bash -c '/verif/tools/try_mutant.sh $0 "${1//_/ }" $2 >> '$out' 2>&1'
echo done >> $out
# the build cache grows by ~0.3 GB per worktree build: empty it after a sweep
GOFLAGS=-mod=mod go clean -cache 2>/dev/null || true
