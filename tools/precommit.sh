#!/bin/sh
# precommit.sh: everything builds (harness against /repo, Coq development, extracted driver) before a commit
set -e
cd "$(dirname "$0")/.."
./harness/build.sh
( cd coq && make -j16 > /dev/null )
./ocaml/build.sh > /dev/null
echo "precommit: builds ok"
