package hx

import (
	"bytes"
	"fmt"
	"os"
	"os/exec"
	"strings"
)

// ModelBin is the path of the extracted model driver.
var ModelBin = func() string {
	if b := os.Getenv("HX_MODEL_BIN"); b != "" {
		return b
	}
	return "/verif/build/modelrun"
}()

// HistTrace is an executed history.
type HistTrace struct {
	H     *History
	Steps []StepTrace
	Err   error // harness-level failure (could not run)
	// VerifyFail is the first end-to-end condition of a dynamic step that
	// failed (with the index of the recorded step after which it was checked).
	VerifyFail string
	VerifyStep int
	VerifyKind string // kind reported for VerifyFail (default: iteration)
}

// Execute runs the history on a fresh in-memory database.
func Execute(h *History) *HistTrace {
	ht := &HistTrace{H: h}
	x, err := OpenMem(fmt.Sprintf("h%d", h.ID))
	if err != nil {
		ht.Err = err
		return ht
	}
	defer x.Close()
	for _, st := range h.Steps {
		if st.Gen != nil {
			for i := 0; i < 500; i++ {
				op := st.Gen(x)
				if op == nil {
					break
				}
				tr, err := x.RunStep(&Step{Ops: []*Op{op}})
				if err != nil {
					ht.Err = err
					return ht
				}
				ht.Steps = append(ht.Steps, tr)
			}
			if st.Verify != nil && ht.VerifyFail == "" {
				if msg := st.Verify(x); msg != "" {
					ht.VerifyFail = msg
					ht.VerifyStep = len(ht.Steps) - 1
				}
			}
			continue
		}
		tr, err := x.RunStep(st)
		if err != nil {
			ht.Err = err
			return ht
		}
		ht.Steps = append(ht.Steps, tr)
	}
	if ViewAudit && ht.VerifyFail == "" && len(ht.Steps) > 0 {
		if msg := AuditViews(x); msg != "" {
			ht.VerifyFail = msg
			ht.VerifyStep = len(ht.Steps) - 1
			ht.VerifyKind = KindAudit
		}
	}
	return ht
}

// ExecuteOn runs the history on an existing database (no fresh state).
func ExecuteOn(x *Exec, h *History) *HistTrace {
	ht := &HistTrace{H: h}
	for _, st := range h.Steps {
		if st.Gen != nil {
			continue
		}
		tr, err := x.RunStep(st)
		if err != nil {
			ht.Err = err
			return ht
		}
		ht.Steps = append(ht.Steps, tr)
	}
	return ht
}

// AuditState asks the model to adopt the given dump and reports whether the
// structural invariant holds on it; then runs the continuation in lock-step
// from that state.
func AuditAndContinue(x *Exec, cont *History) (string, Verdict) {
	d0, err := x.Dump()
	if err != nil {
		return "harness: " + err.Error(), Verdict{Kind: KindHarness, Detail: err.Error()}
	}
	ht := ExecuteOn(x, cont)
	var in bytes.Buffer
	fmt.Fprintf(&in, "H %d\n", cont.ID)
	fmt.Fprintf(&in, "S %d %s\n", nowMs(), d0)
	for _, st := range ht.Steps {
		in.WriteString("r " + st.R + "\n")
		in.WriteString("d " + st.D + "\n")
		for _, l := range st.Input {
			in.WriteString(l + "\n")
		}
	}
	cmd := exec.Command(ModelBin)
	cmd.Stdin = &in
	var out, errb bytes.Buffer
	cmd.Stdout = &out
	cmd.Stderr = &errb
	if err := cmd.Run(); err != nil {
		return "harness: modelrun: " + err.Error(), Verdict{Kind: KindHarness, Detail: errb.String()}
	}
	audit := "?"
	var cur []ModelStep
	var ms ModelStep
	first := true
	for _, line := range strings.Split(out.String(), "\n") {
		if line == "" {
			continue
		}
		switch line[0] {
		case 'N':
			if first {
				audit = line[2:]
				first = false
			} else {
				ms.N = line[2:]
				cur = append(cur, ms)
			}
		case 'R':
			ms = ModelStep{R: line[2:]}
		case 'D':
			ms.D = line[2:]
		case 'V':
			ms.V = line[2:]
		case 'E':
			return "harness: " + line, Verdict{Kind: KindHarness, Detail: line}
		}
	}
	if ht.Err != nil {
		return audit, Verdict{Kind: KindHarness, Detail: ht.Err.Error()}
	}
	return audit, Compare(ht, cur)
}

// ModelStep is the model's output for one step.
type ModelStep struct {
	R, D, V string
	N       string // structural audit of the model state: "ok" or the failed checks
}

// RunModel feeds the traces to modelrun and returns its per-step output.
func RunModel(hts []*HistTrace) ([][]ModelStep, error) {
	var in bytes.Buffer
	for _, ht := range hts {
		fmt.Fprintf(&in, "H %d\n", ht.H.ID)
		for _, st := range ht.Steps {
			// the implementation's observables first, then the operation
			in.WriteString("r " + st.R + "\n")
			in.WriteString("d " + st.D + "\n")
			for _, l := range st.Input {
				in.WriteString(l)
				in.WriteString("\n")
			}
		}
	}
	cmd := exec.Command(ModelBin)
	cmd.Stdin = &in
	var out, errb bytes.Buffer
	cmd.Stdout = &out
	cmd.Stderr = &errb
	if err := cmd.Run(); err != nil {
		return nil, fmt.Errorf("modelrun: %v: %s", err, errb.String())
	}
	res := make([][]ModelStep, 0, len(hts))
	var cur []ModelStep
	var ms ModelStep
	started := false
	for _, line := range strings.Split(out.String(), "\n") {
		if line == "" {
			continue
		}
		switch line[0] {
		case 'H':
			if started {
				res = append(res, cur)
			}
			started = true
			cur = nil
		case 'R':
			ms = ModelStep{R: line[2:]}
		case 'D':
			ms.D = line[2:]
		case 'V':
			ms.V = line[2:]
		case 'N':
			ms.N = line[2:]
			cur = append(cur, ms)
		case 'E':
			return nil, fmt.Errorf("modelrun: %s", line)
		}
	}
	if started {
		res = append(res, cur)
	}
	if len(res) != len(hts) {
		return nil, fmt.Errorf("modelrun: %d histories in, %d out", len(hts), len(res))
	}
	return res, nil
}

// Finding kinds.
const (
	KindNone     = ""
	KindImplRes  = "impl-result" // real result differs from the faithful model's
	KindImplDump = "impl-dump"   // real tables differ from the faithful model's
	KindSpec     = "spec"        // behaviour deviates from the abstract specification
	KindAudit    = "audit"       // the reached state breaks a structural / no-trace / metadata rule
	KindVerify   = "iteration"   // an end-to-end condition of a cursor iteration failed
	KindHarness  = "harness"     // could not run
)

// Verdict is the outcome of comparing one history.
type Verdict struct {
	Kind   string
	Step   int
	Detail string
	Excl   map[string]int // known-finding exclusions hit (name -> count)
	Skips  int
}

// Compare decides one executed history against the model output.
func Compare(ht *HistTrace, ms []ModelStep) Verdict {
	v := Verdict{Excl: map[string]int{}}
	if ht.Err != nil {
		return Verdict{Kind: KindHarness, Detail: ht.Err.Error()}
	}
	if len(ms) != len(ht.Steps) {
		return Verdict{Kind: KindHarness, Detail: fmt.Sprintf("model produced %d steps for %d", len(ms), len(ht.Steps))}
	}
	// 1. the implementation against the specification and the structural rules
	//    (both are evaluated on the implementation's own observables)
	for i, st := range ht.Steps {
		m := ms[i]
		if m.N != "ok" {
			v.Kind, v.Step = KindAudit, i
			v.Detail = fmt.Sprintf("step %d %v\n  audit failed: %s\n  state: %s", i, st.Input, m.N, st.D)
			return v
		}
		switch {
		case m.V == "ok":
		case strings.HasPrefix(m.V, "skip"):
			v.Skips++
		case strings.HasPrefix(m.V, "excl "):
			v.Excl[strings.Fields(m.V)[1]]++
		default:
			v.Kind, v.Step = KindSpec, i
			v.Detail = fmt.Sprintf("step %d %v\n  real R: %s\n  %s", i, st.Input, st.R, m.V)
			return v
		}
	}
	// 2. the implementation against the faithful model (correspondence)
	for i, st := range ht.Steps {
		m := ms[i]
		if st.R != m.R {
			v.Kind, v.Step = KindImplRes, i
			v.Detail = fmt.Sprintf("step %d %v\n  real : %s\n  model: %s", i, st.Input, st.R, m.R)
			return v
		}
		if st.D != m.D {
			v.Kind, v.Step = KindImplDump, i
			v.Detail = fmt.Sprintf("step %d %v\n  real : %s\n  model: %s", i, st.Input, st.D, m.D)
			return v
		}
	}
	if ht.VerifyFail != "" {
		v.Kind, v.Step = KindVerify, ht.VerifyStep
		if ht.VerifyKind != "" {
			v.Kind = ht.VerifyKind
		}
		v.Detail = ht.VerifyFail
	}
	return v
}

// CheckOne executes and decides a single history.
func CheckOne(h *History) (Verdict, *HistTrace) {
	ht := Execute(h)
	if ht.Err != nil {
		return Verdict{Kind: KindHarness, Detail: ht.Err.Error()}, ht
	}
	ms, err := RunModel([]*HistTrace{ht})
	if err != nil {
		return Verdict{Kind: KindHarness, Detail: err.Error()}, ht
	}
	return Compare(ht, ms[0]), ht
}

// Shrink minimises a failing history by removing steps (and operations inside
// blocks) while the same kind of failure remains.
func Shrink(h *History, kind string) *History {
	cur := h
	fails := func(c *History) bool {
		v, _ := CheckOne(c)
		return v.Kind == kind
	}
	// truncate after the failing step first
	if v, _ := CheckOne(cur); v.Kind == kind && v.Step+1 < len(cur.Steps) {
		cur = &History{ID: h.ID, Tag: h.Tag, Steps: cur.Steps[:v.Step+1]}
	}
	changed := true
	for changed {
		changed = false
		for chunk := len(cur.Steps) / 2; chunk >= 1; chunk /= 2 {
			for i := 0; i+chunk <= len(cur.Steps); {
				cand := &History{ID: h.ID, Tag: h.Tag}
				cand.Steps = append(cand.Steps, cur.Steps[:i]...)
				cand.Steps = append(cand.Steps, cur.Steps[i+chunk:]...)
				if len(cand.Steps) > 0 && fails(cand) {
					cur = cand
					changed = true
				} else {
					i += chunk
				}
			}
		}
		// operations inside blocks
		for si, st := range cur.Steps {
			if !st.Block {
				continue
			}
			for oi := 0; oi < len(st.Ops); {
				ns := &Step{Block: true, StopOnErr: st.StopOnErr, Idx: st.Idx}
				ns.Ops = append(ns.Ops, st.Ops[:oi]...)
				ns.Ops = append(ns.Ops, st.Ops[oi+1:]...)
				ns.OpIdx = append(ns.OpIdx, st.OpIdx[:oi]...)
				ns.OpIdx = append(ns.OpIdx, st.OpIdx[oi+1:]...)
				cand := &History{ID: h.ID, Tag: h.Tag}
				cand.Steps = append(cand.Steps, cur.Steps[:si]...)
				cand.Steps = append(cand.Steps, ns)
				cand.Steps = append(cand.Steps, cur.Steps[si+1:]...)
				if fails(cand) {
					cur = cand
					st = ns
					changed = true
				} else {
					oi++
				}
			}
		}
	}
	return cur
}

// Describe renders a history with what was observed, for replay files.
func Describe(ht *HistTrace, ms []ModelStep) string {
	var b strings.Builder
	for i, st := range ht.Steps {
		for _, l := range st.Input {
			fmt.Fprintf(&b, "%s\n", l)
		}
		fmt.Fprintf(&b, "   real R: %s\n", st.R)
		if i < len(ms) {
			fmt.Fprintf(&b, "  model R: %s\n", ms[i].R)
			if st.D != ms[i].D {
				fmt.Fprintf(&b, "   real D: %s\n  model D: %s\n", st.D, ms[i].D)
			}
			fmt.Fprintf(&b, "        V: %s   audit: %s\n", ms[i].V, ms[i].N)
		}
	}
	return b.String()
}
