package hx

import (
	"encoding/json"
	"math/rand"
	"os"
	"os/exec"
	"regexp"
	"sort"
	"strconv"
	"strings"
)

// Facts is the output of harness/cmd/srcfacts.
type Facts struct {
	SQL      map[string]string `json:"sql"`
	Schema   []string          `json:"schema"`
	Methods  map[string]string `json:"methods"`
	Dispatch map[string]string `json:"dispatch"`
	Parsers  map[string]string `json:"parsers"`
	Consts   map[string]string `json:"consts"`
}

// LoadFacts runs srcfacts on /repo.
func LoadFacts() (*Facts, error) {
	cmdline := "/verif/build/srcfacts"
	if c := os.Getenv("HX_SRCFACTS"); c != "" {
		cmdline = c
	}
	parts := strings.Fields(cmdline)
	out, err := exec.Command(parts[0], parts[1:]...).Output()
	if err != nil {
		return nil, err
	}
	var f Facts
	if err := json.Unmarshal(out, &f); err != nil {
		return nil, err
	}
	return &f, nil
}

// Comb is a parser-combinator tree node.
type Comb struct {
	Name string   // String Bytes Int Float Enum Strings Anys StringsN AnyMap FloatMap Flag Named OneOf
	Dst  string   // destination field
	Lit  []string // Flag/Named: keyword; Enum: allowed values
	Sub  []*Comb
}

// CmdGrammar is what the generator knows about one command.
type CmdGrammar struct {
	Name     string
	Parser   string
	Required int
	Combs    []*Comb  // nil for hand-written parsers
	Arity    []int    // hand-written: accepted argument counts (exact), or nil
	MinArity int      // hand-written: minimum (when the check is "<")
	Lits     []string // hand-written: the string literals the parser compares arguments with (subcommands)
}

var reCaseLit = regexp.MustCompile(`"([a-zA-Z][a-zA-Z0-9_-]*)"`)

var reArityNe = regexp.MustCompile(`len\(cmd\.Args\(\)\) != (\d+)`)
var reArityLt = regexp.MustCompile(`len\(cmd\.Args\(\)\) < (\d+)`)

// Grammars derives a generator grammar for every dispatched command.
func (f *Facts) Grammars() []*CmdGrammar {
	var out []*CmdGrammar
	names := make([]string, 0, len(f.Dispatch))
	for n := range f.Dispatch {
		if n != "<default>" {
			names = append(names, n)
		}
	}
	sort.Strings(names)
	for _, n := range names {
		call := f.Dispatch[n] // e.g. key.ParseExpire(b, 1000)
		pk := call
		if i := strings.Index(pk, "("); i >= 0 {
			pk = pk[:i]
		}
		pk = strings.Replace(pk, "str.", "string.", 1)
		g := &CmdGrammar{Name: n, Parser: pk}
		tree := f.Parsers[pk]
		if strings.HasPrefix(tree, "pipeline(") {
			inner := tree[len("pipeline(") : len(tree)-1]
			semi := strings.Index(inner, ";")
			g.Required, _ = strconv.Atoi(strings.TrimSpace(inner[:semi]))
			for _, p := range splitTopLevel(inner[semi+1:]) {
				g.Combs = append(g.Combs, parseComb(strings.TrimSpace(p)))
			}
		} else {
			for _, m := range reArityNe.FindAllStringSubmatch(tree, -1) {
				k, _ := strconv.Atoi(m[1])
				g.Arity = append(g.Arity, k)
			}
			if m := reArityLt.FindStringSubmatch(tree); m != nil {
				g.MinArity, _ = strconv.Atoi(m[1])
			}
			for _, m := range reCaseLit.FindAllStringSubmatch(tree, -1) {
				g.Lits = append(g.Lits, m[1])
			}
		}
		out = append(out, g)
	}
	return out
}

func splitTopLevel(s string) []string {
	var out []string
	depth, start := 0, 0
	inq := false
	for i, c := range s {
		switch {
		case c == '"':
			inq = !inq
		case inq:
		case c == '(':
			depth++
		case c == ')':
			depth--
		case c == ',' && depth == 0:
			out = append(out, s[start:i])
			start = i + 1
		}
	}
	if strings.TrimSpace(s[start:]) != "" {
		out = append(out, s[start:])
	}
	return out
}

var enumConsts = map[string]string{"sqlx.Sum": "sum", "sqlx.Min": "min", "sqlx.Max": "max", "Before": "before", "After": "after",
	"TypeHash": "hash", "TypeList": "list", "TypeSet": "set", "TypeString": "string", "TypeZSet": "zset"}

func parseComb(t string) *Comb {
	open := strings.Index(t, "(")
	if open < 0 {
		return &Comb{Name: "?"}
	}
	c := &Comb{Name: t[:open]}
	args := splitTopLevel(t[open+1 : len(t)-1])
	for i := range args {
		args[i] = strings.TrimSpace(args[i])
	}
	unq := func(a string) string {
		if s, err := strconv.Unquote(a); err == nil {
			return s
		}
		if v, ok := enumConsts[a]; ok {
			return v
		}
		return a
	}
	switch c.Name {
	case "Flag":
		c.Lit = []string{unq(args[0])}
		c.Dst = strings.TrimPrefix(args[1], "&")
	case "Named":
		c.Lit = []string{unq(args[0])}
		for _, a := range args[1:] {
			c.Sub = append(c.Sub, parseComb(a))
		}
	case "OneOf":
		for _, a := range args {
			c.Sub = append(c.Sub, parseComb(a))
		}
	case "Enum":
		c.Dst = strings.TrimPrefix(args[0], "&")
		for _, a := range args[1:] {
			c.Lit = append(c.Lit, unq(a))
		}
	case "StringsN":
		c.Dst = strings.TrimPrefix(args[0], "&")
	default:
		if len(args) > 0 {
			c.Dst = strings.TrimPrefix(args[0], "&")
		}
	}
	return c
}

// WireGen generates argument vectors.
type WireGen struct {
	R       *rand.Rand
	Keys    []string
	Hostile bool // C14: hostile tokens everywhere
	NowSec  int64
	// Lits: command name -> literals its hand-written parser knows (subcommands)
	Lits map[string][]string
	// KeySeq, when set, is handed out in order by key() (cyclically): the first key
	// argument gets KeySeq[0], the second KeySeq[1], ...
	KeySeq []string
	keyPos int
	// CursorZero: iterations start at cursor 0 with a page that holds everything (complete listings
	// can be compared as multisets even when row ids differ between two databases)
	CursorZero bool
	// curKeywords: the option keywords of the command being generated; now and then a positional
	// value spells one of them (it must still be taken as a value)
	curKeywords []string
	curCmd      string // the command being generated (lower case)
	// NKeysForce, when positive, is the value of a "numkeys" argument (instead of a random 1..3)
	NKeysForce int
	// ForceKeyword: the next positional value (not a key) of the vector being generated spells one
	// of the command's own option keywords
	ForceKeyword bool
	// IntSeq, when set, supplies the values of the small-integer positional arguments (start, stop,
	// index, count, offset) in order; EnumForce the value of the next enumerated argument
	IntSeq    []string
	intPos    int
	EnumForce string
	// MemberForce, when set, is used for member / element / field / pivot arguments
	MemberForce string
}

// SmallInts is the grid the sweep enumerates for index-like arguments.
var SmallInts = []string{"0", "1", "2", "-1", "-2", "-3", "5", "10"}

func smallIntDst(d string) bool {
	switch d {
	case "count", "offset", "start", "stop", "index":
		return true
	}
	return false
}

// SmallIntArgs counts the positional small-integer arguments of a grammar.
func (cg *CmdGrammar) SmallIntArgs() int {
	n := 0
	for _, c := range cg.Combs {
		if c.Name == "Int" && smallIntDst(strings.ToLower(c.Dst)) {
			n++
		}
	}
	return n
}

// SetIntSeq fixes the small-integer positionals of the next vector.
func (g *WireGen) SetIntSeq(v ...string) { g.IntSeq = v; g.intPos = 0 }

func collectKeywords(cs []*Comb, out *[]string) {
	for _, c := range cs {
		switch c.Name {
		case "Flag", "Named":
			*out = append(*out, c.Lit...)
			collectKeywords(c.Sub, out)
		case "OneOf":
			collectKeywords(c.Sub, out)
		}
	}
}

// ResetKeySeq restarts the key sequence for the next vector.
func (g *WireGen) ResetKeySeq(seq ...string) {
	g.KeySeq = seq
	g.keyPos = 0
}

var wireVals = []string{"a", "b", "c", "v1", "", "10", "-1", "0", "1.5", "nx", "EX", "get", "match", "withscores", "limit", "x\x00y", "\xff\xfe", "*"}
var wireInts = []string{"0", "1", "2", "-1", "-2", "3", "10", "100", "+5", "05", "9223372036854775807", "-9223372036854775808"}
var wireBadInts = []string{"", "abc", "1.5", " 1", "9223372036854775808", "1e3", "0x10"}
var wireFloats = []string{"0", "1", "-1", "0.5", "1.5", "2", "inf", "-inf", "+inf", "1e2", "3.0", "1000000", "1234567.25", "0.00001", "1e21"}
var wireBadFloats = []string{"", "abc", "1..2", "nan"}
var hostileToks = []string{"", "-1", "0", "1", "-9223372036854775808", "9223372036854775807", "99999999999999999999", "abc", "nan", "inf", "-inf",
	"NX", "xx", "EX", "px", "keepttl", "get", "match", "count", "type", "withscores", "aggregate", "sum", "limit", "byscore", "rev", "before", "after",
	"\x00", "\r\n", "*", "[", "\xff\xfe\xfd", "k1", "k2", "1.5", "-0", "+5", "1e400", "*3\r\n$3\r\nfoo\r\n"}

func (g *WireGen) pick(n int) int        { return g.R.Intn(n) }
func (g *WireGen) chance(p float64) bool { return g.R.Float64() < p }
func (g *WireGen) key() string {
	if len(g.KeySeq) > 0 {
		k := g.KeySeq[g.keyPos%len(g.KeySeq)] // beyond the sequence: round again (distinct sources for multi-key commands)
		g.keyPos++
		return k
	}
	return g.Keys[g.pick(len(g.Keys))]
}
func (g *WireGen) randCase(s string) string {
	b := []byte(s)
	for i := range b {
		if g.chance(0.5) {
			b[i] = byte(strings.ToUpper(string(b[i]))[0])
		} else {
			b[i] = byte(strings.ToLower(string(b[i]))[0])
		}
	}
	return string(b)
}

func keyish(dst string) bool {
	d := strings.ToLower(dst)
	return d == "key" || d == "keys" || d == "src" || d == "dst" || d == "dest" || d == "newkey" || strings.Contains(d, "key")
}

func (g *WireGen) val(dst string) string {
	if g.Hostile && g.chance(0.5) {
		return hostileToks[g.pick(len(hostileToks))]
	}
	if keyish(dst) {
		return g.key()
	}
	if len(g.curKeywords) > 0 && (g.ForceKeyword || g.chance(0.08)) {
		kw := g.curKeywords[g.pick(len(g.curKeywords))]
		if g.ForceKeyword || g.chance(0.5) {
			g.ForceKeyword = false
			return kw // exactly as spelled in the source (stored elements may be named like that)
		}
		return g.randCase(kw)
	}
	switch strings.ToLower(dst) {
	case "field", "fields", "member", "elem", "elems", "members", "pivot":
		if g.MemberForce != "" {
			return g.MemberForce
		}
	}
	switch strings.ToLower(dst) {
	case "field", "fields":
		return []string{"f1", "f2", "f3"}[g.pick(3)]
	case "member", "elem", "elems", "members", "pivot":
		return []string{"a", "b", "c", "d", "zz"}[g.pick(5)] // "zz" is nowhere
	case "match", "pattern":
		// ("[!k]*": to SQLite's GLOB - and so to every documented call - a class holding "!" and "k")
		return []string{"*", "k*", "a*", "?", "[ab]", "f[12]", "[!k]*", "[[!]*", "[!a-c]*", "k[!1]", ""}[g.pick(11)]
	}
	return wireVals[g.pick(len(wireVals))]
}
func (g *WireGen) intTok(bad bool) string {
	if g.Hostile && g.chance(0.4) {
		return hostileToks[g.pick(len(hostileToks))]
	}
	if bad {
		return wireBadInts[g.pick(len(wireBadInts))]
	}
	return wireInts[g.pick(len(wireInts))]
}
func (g *WireGen) floatTok(bad bool) string {
	if g.Hostile && g.chance(0.4) {
		return hostileToks[g.pick(len(hostileToks))]
	}
	if bad {
		return wireBadFloats[g.pick(len(wireBadFloats))]
	}
	return wireFloats[g.pick(len(wireFloats))]
}

// genComb renders one combinator into tokens. malformed is the probability of
// deliberately breaking this piece.
func (g *WireGen) genComb(c *Comb, malformed float64, nkeys *int) []string {
	bad := g.chance(malformed)
	switch c.Name {
	case "String", "Bytes":
		return []string{g.val(c.Dst)}
	case "Int":
		d := strings.ToLower(c.Dst)
		if d == "nkeys" {
			n := 1 + g.pick(3)
			if g.NKeysForce > 0 {
				n = g.NKeysForce
			}
			if bad {
				n = []int{0, -1, 5}[g.pick(3)]
			}
			*nkeys = n
			return []string{strconv.Itoa(n)}
		}
		if !bad && (d == "ttl" || d == "ttlsec" || d == "ttlms") {
			// never a TTL that could pass while the run lasts (also when read as milliseconds)
			return []string{[]string{"3600000", "86400000", "0", "-5", "7200000"}[g.pick(5)]}
		}
		if !bad && (d == "at" || d == "atsec") {
			if g.chance(0.2) {
				// an instant that has already passed (an hour ago, the epoch)
				return []string{[]string{strconv.FormatInt(g.NowSec-3600, 10), "1", "0"}[g.pick(3)]}
			}
			return []string{strconv.FormatInt(g.NowSec+int64(3600*(1+g.pick(3))), 10)}
		}
		if !bad && d == "atms" && g.chance(0.2) {
			return []string{[]string{strconv.FormatInt((g.NowSec-3600)*1000+7, 10), "1", "0"}[g.pick(3)]}
		}
		if !bad && d == "atms" {
			// not only whole seconds
			return []string{strconv.FormatInt((g.NowSec+int64(3600*(1+g.pick(3))))*1000+[]int64{0, 1, 250, 999}[g.pick(4)], 10)}
		}
		if !bad && (d == "cursor") {
			if g.CursorZero {
				return []string{"0"}
			}
			return []string{[]string{"0", "1", "2", "5"}[g.pick(4)]}
		}
		if !bad && g.CursorZero && d == "count" {
			return []string{[]string{"100", "0", "1000", "50", "-1"}[g.pick(5)]}
		}
		if !bad && smallIntDst(d) && g.intPos < len(g.IntSeq) {
			g.intPos++
			return []string{g.IntSeq[g.intPos-1]}
		}
		if !bad && (d == "count" || d == "offset" || d == "start" || d == "stop" || d == "index") {
			return []string{[]string{"0", "1", "2", "-1", "-2", "5", "10"}[g.pick(7)]}
		}
		return []string{g.intTok(bad)}
	case "Float":
		return []string{g.floatTok(bad)}
	case "Enum":
		if bad {
			return []string{"bogus"}
		}
		if g.EnumForce != "" {
			for _, l := range c.Lit {
				if l == g.EnumForce {
					g.EnumForce = ""
					return []string{g.randCase(l)}
				}
			}
		}
		return []string{g.randCase(c.Lit[g.pick(len(c.Lit))])}
	case "Strings", "Anys":
		n := 1 + g.pick(3)
		var t []string
		for i := 0; i < n; i++ {
			t = append(t, g.val(c.Dst))
		}
		return t
	case "StringsN":
		n := *nkeys
		if n < 0 {
			n = 1
		}
		if bad && n > 0 {
			n--
		}
		var t []string
		for i := 0; i < n; i++ {
			t = append(t, g.key())
		}
		return t
	case "AnyMap":
		n := 1 + g.pick(3)
		var t []string
		for i := 0; i < n; i++ {
			if g.curCmd == "mset" || g.curCmd == "msetnx" {
				t = append(t, g.key(), g.val("value")) // the names of a multi-set are KEYS
			} else {
				t = append(t, g.val("field"), g.val("value"))
			}
		}
		if bad {
			t = t[:len(t)-1]
		}
		return t
	case "FloatMap":
		n := 1 + g.pick(3)
		var t []string
		for i := 0; i < n; i++ {
			t = append(t, g.floatTok(bad && i == 0), g.val("member"))
		}
		if bad && g.chance(0.5) {
			t = t[:len(t)-1]
		}
		return t
	case "Flag":
		return []string{g.randCase(c.Lit[0])}
	case "Named":
		t := []string{g.randCase(c.Lit[0])}
		for _, s := range c.Sub {
			if bad && g.chance(0.5) {
				continue // missing sub-argument
			}
			t = append(t, g.genComb(s, malformed, nkeys)...)
		}
		return t
	case "OneOf":
		k := g.pick(len(c.Sub))
		t := g.genComb(c.Sub[k], malformed, nkeys)
		if bad { // conflicting options
			k2 := g.pick(len(c.Sub))
			t = append(t, g.genComb(c.Sub[k2], 0, nkeys)...)
		}
		return t
	}
	return []string{g.val("")}
}

func positional(c *Comb) bool {
	switch c.Name {
	case "String", "Bytes", "Int", "Float", "Enum", "Strings", "Anys", "StringsN", "AnyMap", "FloatMap":
		return true
	}
	return false
}

// Vector generates one argument vector (command name included) for the grammar.
func (g *WireGen) Vector(cg *CmdGrammar, malformed float64) []string {
	name := cg.Name
	if g.chance(0.4) {
		name = g.randCase(name)
	}
	out := []string{name}
	nkeys := 1
	g.curKeywords = nil
	g.curCmd = cg.Name
	collectKeywords(cg.Combs, &g.curKeywords)
	if cg.Combs != nil {
		var opts [][]string
		for _, c := range cg.Combs {
			if positional(c) {
				out = append(out, g.genComb(c, malformed, &nkeys)...)
			} else if g.chance(0.45) {
				opts = append(opts, g.genComb(c, malformed, &nkeys))
			}
		}
		g.R.Shuffle(len(opts), func(i, j int) { opts[i], opts[j] = opts[j], opts[i] })
		for _, o := range opts {
			out = append(out, o...)
		}
		if g.chance(malformed) {
			switch g.pick(3) {
			case 0:
				if len(out) > 1 {
					out = out[:len(out)-1]
				}
			case 1:
				out = append(out, g.val(""))
			default:
				if len(opts) > 0 { // a repeated option
					out = append(out, opts[0]...)
				}
			}
		}
		return out
	}
	// hand-written parsers: arity from the source
	n := 1
	if len(cg.Arity) > 0 {
		n = cg.Arity[g.pick(len(cg.Arity))]
	} else if cg.MinArity > 0 {
		n = cg.MinArity + g.pick(3)
	} else {
		n = g.pick(5)
	}
	if g.chance(malformed) {
		n += []int{-1, 1}[g.pick(2)]
		if n < 0 {
			n = 0
		}
	}
	for i := 0; i < n; i++ {
		if len(cg.Lits) > 0 && (i == 0 && g.chance(0.8) || i > 0 && g.chance(0.15)) {
			out = append(out, g.randCase(cg.Lits[g.pick(len(cg.Lits))]))
		} else if i == 0 || (cg.Name == "rename" || cg.Name == "renamenx" || cg.Name == "mget") {
			out = append(out, g.key())
		} else if cg.Name == "incr" || cg.Name == "decr" {
			out = append(out, g.key())
		} else {
			out = append(out, g.val("value"))
		}
	}
	return out
}

// OptChoice names one way of writing an option: a non-positional combinator (index in cg.Combs)
// and, for a OneOf, which of its alternatives.
type OptChoice struct {
	Comb, Alt int
	Enum      string // for a Named option whose value is enumerated: the value to use
}

// VectorOpts generates a well-formed vector with exactly the option choices listed, in that order.
func (g *WireGen) VectorOpts(cg *CmdGrammar, which []OptChoice) []string {
	out := []string{cg.Name}
	nkeys := 1
	g.curKeywords = nil
	g.curCmd = cg.Name
	collectKeywords(cg.Combs, &g.curKeywords)
	for _, c := range cg.Combs {
		if positional(c) {
			out = append(out, g.genComb(c, 0, &nkeys)...)
		}
	}
	for _, w := range which {
		c := cg.Combs[w.Comb]
		if c.Name == "OneOf" && w.Alt >= 0 && w.Alt < len(c.Sub) {
			c = c.Sub[w.Alt]
		}
		g.EnumForce = w.Enum
		out = append(out, g.genComb(c, 0, &nkeys)...)
		g.EnumForce = ""
	}
	return out
}

// Options lists the option choices of the grammar (every alternative of a OneOf separately).
func (cg *CmdGrammar) Options() []OptChoice {
	var o []OptChoice
	for i, c := range cg.Combs {
		if positional(c) {
			continue
		}
		if c.Name == "OneOf" {
			for j := range c.Sub {
				o = append(o, OptChoice{i, j, ""})
			}
		} else if c.Name == "Named" && len(c.Sub) == 1 && c.Sub[0].Name == "Enum" {
			for _, l := range c.Sub[0].Lit {
				o = append(o, OptChoice{i, -1, l})
			}
		} else {
			o = append(o, OptChoice{i, -1, ""})
		}
	}
	return o
}

// HostileVector is an arbitrary vector over the hostile pool (C14).
func (g *WireGen) HostileVector(names []string) []string {
	var out []string
	var lits []string
	if g.chance(0.85) {
		nm := names[g.pick(len(names))]
		lits = g.Lits[nm]
		out = append(out, g.randCase(nm))
	} else {
		out = append(out, hostileToks[g.pick(len(hostileToks))])
	}
	n := g.pick(7)
	for i := 0; i < n; i++ {
		if len(lits) > 0 && (i == 0 && g.chance(0.7) || g.chance(0.1)) {
			out = append(out, g.randCase(lits[g.pick(len(lits))]))
		} else if g.chance(0.3) {
			out = append(out, g.key())
		} else {
			out = append(out, hostileToks[g.pick(len(hostileToks))])
		}
	}
	return out
}

// Keywords lists the option keywords of the grammar as spelled in the source.
func (cg *CmdGrammar) Keywords() []string {
	var out []string
	collectKeywords(cg.Combs, &out)
	return out
}
