package hx

import (
	"bufio"
	"encoding/json"
	"os"
)

// KnownNames returns the names of the findings the committed known-findings file lists with
// status "known".  A deviation is only treated as a known finding when its name is in there.
func KnownNames(path string) map[string]bool {
	out := map[string]bool{}
	f, err := os.Open(path)
	if err != nil {
		return out
	}
	defer f.Close()
	sc := bufio.NewScanner(f)
	sc.Buffer(make([]byte, 1<<20), 1<<20)
	for sc.Scan() {
		var k struct {
			Status string `json:"status"`
			Name   string `json:"name"`
		}
		if json.Unmarshal(sc.Bytes(), &k) == nil && k.Status == "known" {
			out[k.Name] = true
		}
	}
	return out
}
