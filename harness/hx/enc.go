// Package hx is the Go side of the correspondence check: it generates
// operation histories, runs them against the real redka library built from
// /repo, records canonical observables and compares them with the extracted
// Coq model (modelrun).
package hx

import (
	"encoding/hex"
	"errors"
	"fmt"
	"math"
	"sort"
	"strconv"
	"strings"

	"github.com/nalgeon/redka"
)

// Res is the canonical form of what a call returned.
type Res struct {
	Val string
	Err string // "" = nil error
}

func (r Res) String() string {
	if r.Err == "" {
		return "ok " + r.Val
	}
	return "err " + r.Err + " " + r.Val
}

const None = "_"

func I(n int) string     { return "i" + strconv.Itoa(n) }
func I64(n int64) string { return "i" + strconv.FormatInt(n, 10) }
func B(b bool) string {
	if b {
		return "b1"
	}
	return "b0"
}
func S(b []byte) string  { return "s" + hex.EncodeToString(b) }
func SS(s string) string { return "s" + hex.EncodeToString([]byte(s)) }
func F(f float64) string {
	if f != f {
		return "fnan"
	}
	return fmt.Sprintf("f%016x", math.Float64bits(f))
}
func L(items ...string) string {
	var b strings.Builder
	b.WriteString("[")
	for _, it := range items {
		b.WriteString(" ")
		b.WriteString(it)
	}
	b.WriteString(" ]")
	return b.String()
}
func U(items ...string) string {
	s := append([]string(nil), items...)
	sort.Strings(s)
	var b strings.Builder
	b.WriteString("{")
	for _, it := range s {
		b.WriteString(" ")
		b.WriteString(it)
	}
	b.WriteString(" }")
	return b.String()
}

// Val is redka.Value or nil.
func V(v redka.Value) string {
	if v == nil {
		return None
	}
	return S(v)
}

// EncErr maps an error to its class.
func EncErr(err error) string {
	if err == nil {
		return ""
	}
	switch {
	case errors.Is(err, redka.ErrNotFound):
		return "!notfound"
	case errors.Is(err, redka.ErrKeyType):
		return "!keytype"
	case errors.Is(err, redka.ErrValueType):
		return "!valuetype"
	}
	msg := err.Error()
	if i := strings.Index(msg, "NOT NULL constraint failed: "); i >= 0 {
		return "!sql:notnull:" + strings.ReplaceAll(msg[i+len("NOT NULL constraint failed: "):], ", ", ",")
	}
	if i := strings.Index(msg, "UNIQUE constraint failed: "); i >= 0 {
		return "!sql:unique:" + strings.ReplaceAll(msg[i+len("UNIQUE constraint failed: "):], ", ", ",")
	}
	switch {
	case strings.Contains(msg, "datatype mismatch"):
		return "!sql:mismatch"
	case strings.Contains(msg, "cannot VACUUM"):
		return "!sql:vacuum"
	case strings.Contains(msg, "converting NULL to"):
		return "!sql:scannull"
	case strings.Contains(msg, "readonly database"):
		return "!sql:readonly"
	case strings.Contains(msg, "injected fault"):
		return "!sql:fault"
	}
	return "!sql:other:" + strings.ReplaceAll(msg, " ", "_")
}

func ok(val string) Res            { return Res{Val: val} }
func mk(val string, err error) Res { return Res{Val: val, Err: EncErr(err)} }
func errOnly(err error) Res        { return Res{Val: None, Err: EncErr(err)} }
func valOrErr(val string, err error) Res {
	if err != nil {
		return errOnly(err)
	}
	return ok(val)
}

// KeyRV encodes a core.Key; times carry markers that the executor
// canonicalises once the step's time window is known.
func KeyRV(k redka.Key) string {
	e := None
	if k.ETime != nil {
		e = "E" + strconv.FormatInt(*k.ETime, 10)
	}
	return L(I(k.ID), SS(k.Key), I(int(k.Type)), I(k.Version), e, "M"+strconv.FormatInt(k.MTime, 10))
}

// ---- tokens for the model input ----

func TokStrs(ss []string) string {
	items := make([]string, len(ss))
	for i, s := range ss {
		items[i] = SS(s)
	}
	return L(items...)
}

// Value is an `any` argument of the API with its model token.
type Value struct {
	Go  any
	Tok string
}

func VStr(s string) Value   { return Value{s, "vs" + hex.EncodeToString([]byte(s))} }
func VBytes(b []byte) Value { return Value{b, "vb" + hex.EncodeToString(b)} }
func VNil() Value           { return Value{[]byte(nil), "vn"} }
func VInt(n int) Value      { return Value{n, "vi" + strconv.Itoa(n)} }
func VBool(b bool) Value {
	if b {
		return Value{b, "vB1"}
	}
	return Value{b, "vB0"}
}
func VFloat(f float64) Value {
	text := strconv.FormatFloat(f, 'f', -1, 64)
	return Value{f, fmt.Sprintf("vf%016x:%s", math.Float64bits(f), hex.EncodeToString([]byte(text)))}
}
func VBad() Value { return Value{int64(7), "v?"} }
