package hx

// The wire oracle: an independent statement of "what the documented Go API
// call for a wire command returns, Redis-typed".
//
// For every command the grammar is the one quoted in the doc comment of
// /repo/internal/command/<group>/<cmd>.go (Redis syntax), the API call is the
// one docs/commands/*.md maps the command to, and the reply type follows the
// Redis conventions (RESP2).  Malformed invocations are answered with an error
// reply before the database is touched.
//
// "Malformed" means ONLY: a wrong number of arguments, a token that
// strconv.Atoi / strconv.ParseFloat rejects where the grammar has a number, an
// unknown / repeated / conflicting option, or an odd number of field-value /
// score-member arguments.  Everything else is passed to the documented API call
// as it is and the API decides (NaN and underscored floats, COUNT <= 0, LIMIT
// edge values, numkeys 0, ...).
//
// Conventions fixed here (see the comments at the individual commands):
//   - Redis features that the quoted grammar does not list (ZADD NX, WEIGHTS,
//     exclusive score bounds "(1", LPUSH with several elements, LPOP count,
//     FLUSHDB ASYNC, EXPIRE .. NX, ...) are malformed invocations;
//   - server conventions kept: PING answers the bulk "PONG"; a SCAN-family
//     MATCH "" means "*"; SET .. EX/PX/EXAT/PXAT <= 0 mean "no expiry";
//     ZRANK .. WITHSCORE on a missing member answers a null bulk;
//   - handled=false (no statement): expiry arguments beyond woExpMax /
//     woExpMaxAbsMs, INCRBY/DECRBY/LREM with math.MinInt64, ZRANGE by rank with
//     non-integer ranks, PING with an empty message, ECHO with != 1 argument,
//     TTL of a key that has an expiry;
//   - specification kept although the server differs (at the time of writing):
//     ZREVRANGEBYSCORE and ZRANGE .. BYSCORE REV take "max min"; SET .. XX GET
//     on a missing key answers a null bulk.

import (
	"errors"
	"math"
	"strconv"
	"strings"
	"time"

	"github.com/nalgeon/redka"
)

// WireUnordered reports whether the reply of the command is an array whose
// element order is unspecified (compare as a multiset of elements).
// HGETALL is not in this list: it is unordered as field/value PAIRS, see
// WirePaired.
func WireUnordered(name string) bool {
	switch strings.ToLower(name) {
	case "smembers", "sunion", "sinter", "sdiff", "hkeys", "hvals", "keys":
		return true
	}
	return false
}

// WireScan reports whether the command is of the SCAN family.  The oracle
// returns the items in the order of the API (row ids) and the API's cursor;
// both agree with the server only if the twin assigned the same row ids, which
// is NOT guaranteed after commands whose API call takes a Go map with several
// entries (MSET, HSET/HMSET, ZADD with more than one pair: the insertion order
// is the map iteration order).  Callers that generate such commands should
// compare scan replies more weakly (item multiset of a full iteration).
func WireScan(name string) bool {
	switch strings.ToLower(name) {
	case "scan", "sscan", "hscan", "zscan":
		return true
	}
	return false
}

// WirePaired reports whether the reply of the command is a flat array of
// pairs whose order (as pairs) is unspecified.
func WirePaired(name string) bool {
	return strings.ToLower(name) == "hgetall"
}

// WireOracle: see WireOracleFunc in wireoracle_api.go.
func WireOracle(db *redka.DB, args [][]byte) (reply RV, handled bool) {
	if len(args) == 0 {
		return RV{}, false
	}
	name := strings.ToLower(string(args[0]))
	h, ok := wireTable[name]
	if !ok {
		return RV{}, false
	}
	return h(db, name, args[1:])
}

var _ WireOracleFunc = WireOracle

type wireHandler func(db *redka.DB, name string, a [][]byte) (RV, bool)

var wireTable map[string]wireHandler

func init() {
	wireTable = map[string]wireHandler{
		// connection / server
		"ping":     woPing,
		"echo":     woEcho,
		"dbsize":   woDBSize,
		"flushdb":  woFlush,
		"flushall": woFlush,
		// keys
		"del":       woDel,
		"exists":    woExists,
		"expire":    woExpire,
		"pexpire":   woExpire,
		"expireat":  woExpireAt,
		"pexpireat": woExpireAt,
		"keys":      woKeys,
		"persist":   woPersist,
		"rename":    woRename,
		"renamenx":  woRenameNX,
		"scan":      woScan,
		"ttl":       woTTL,
		"type":      woType,
		// strings
		"get":         woGet,
		"getset":      woGetSet,
		"incr":        woIncr,
		"decr":        woIncr,
		"incrby":      woIncrBy,
		"decrby":      woIncrBy,
		"incrbyfloat": woIncrByFloat,
		"mget":        woMGet,
		"mset":        woMSet,
		"set":         woSet,
		"setex":       woSetEX,
		"psetex":      woSetEX,
		"setnx":       woSetNX,
		"strlen":      woStrlen,
		// lists
		"lindex":    woLIndex,
		"linsert":   woLInsert,
		"llen":      woLLen,
		"lpop":      woPop,
		"rpop":      woPop,
		"lpush":     woPush,
		"rpush":     woPush,
		"lrange":    woLRange,
		"lrem":      woLRem,
		"lset":      woLSet,
		"ltrim":     woLTrim,
		"rpoplpush": woRPopLPush,
		// sets
		"sadd":        woSAdd,
		"scard":       woSCard,
		"sdiff":       woSetOp,
		"sinter":      woSetOp,
		"sunion":      woSetOp,
		"sdiffstore":  woSetOpStore,
		"sinterstore": woSetOpStore,
		"sunionstore": woSetOpStore,
		"sismember":   woSIsMember,
		"smembers":    woSMembers,
		"smove":       woSMove,
		"srem":        woSRem,
		"sscan":       woSScan,
		// hashes
		"hdel":         woHDel,
		"hexists":      woHExists,
		"hget":         woHGet,
		"hgetall":      woHGetAll,
		"hincrby":      woHIncrBy,
		"hincrbyfloat": woHIncrByFloat,
		"hkeys":        woHKeys,
		"hlen":         woHLen,
		"hmget":        woHMGet,
		"hmset":        woHSet,
		"hset":         woHSet,
		"hsetnx":       woHSetNX,
		"hvals":        woHVals,
		"hscan":        woHScan,
		// sorted sets
		"zadd":             woZAdd,
		"zcard":            woZCard,
		"zcount":           woZCount,
		"zincrby":          woZIncrBy,
		"zinter":           woZCombine,
		"zunion":           woZCombine,
		"zinterstore":      woZCombineStore,
		"zunionstore":      woZCombineStore,
		"zrange":           woZRange,
		"zrangebyscore":    woZRangeByScore,
		"zrevrangebyscore": woZRangeByScore,
		"zrank":            woZRank,
		"zrevrank":         woZRank,
		"zrem":             woZRem,
		"zremrangebyrank":  woZRemRangeByRank,
		"zremrangebyscore": woZRemRangeByScore,
		"zrevrange":        woZRevRange,
		"zscan":            woZScan,
		"zscore":           woZScore,
	}
}

// ---------------------------------------------------------------------------
// helpers

func woErrArgs() (RV, bool)   { return ErrReply("ERR wrong number of arguments"), true }
func woErrSyntax() (RV, bool) { return ErrReply("ERR syntax error"), true }
func woErrInt() (RV, bool)    { return ErrReply("ERR value is not an integer or out of range"), true }
func woErrFloat() (RV, bool)  { return ErrReply("ERR value is not a valid float"), true }

// woErr turns an API error into an error reply.
func woErr(err error) (RV, bool) { return ErrReply("ERR " + err.Error()), true }

func woIsNotFound(err error) bool { return errors.Is(err, redka.ErrNotFound) }

func woInt(b []byte) (int, bool) {
	n, err := strconv.Atoi(string(b))
	if err != nil {
		return 0, false
	}
	return n, true
}

func woFloat(b []byte) (float64, bool) {
	f, err := strconv.ParseFloat(string(b), 64)
	if err != nil {
		return 0, false
	}
	return f, true
}

func woFmtFloat(f float64) RV { return BulkS(strconv.FormatFloat(f, 'f', -1, 64)) }

func woBool(b bool) RV {
	if b {
		return Int(1)
	}
	return Int(0)
}

func woStrings(a [][]byte) []string {
	out := make([]string, len(a))
	for i, x := range a {
		out[i] = string(x)
	}
	return out
}

func woAnys(a [][]byte) []any {
	out := make([]any, len(a))
	for i, x := range a {
		out[i] = x
	}
	return out
}

func woBulks[T ~[]byte](vals []T) RV {
	items := make([]RV, len(vals))
	for i, v := range vals {
		items[i] = Bulk([]byte(v))
	}
	return Arr(items...)
}

// woOpts scans trailing options.  spec maps a lower-case keyword to the number
// of values that follow it.  Unknown keywords, repeated keywords and missing
// values make the invocation malformed.
func woOpts(rest [][]byte, spec map[string]int) (map[string][][]byte, bool) {
	out := map[string][][]byte{}
	for i := 0; i < len(rest); {
		kw := strings.ToLower(string(rest[i]))
		n, known := spec[kw]
		if !known {
			return nil, false
		}
		if _, dup := out[kw]; dup {
			return nil, false
		}
		if i+1+n > len(rest) {
			return nil, false
		}
		out[kw] = rest[i+1 : i+1+n]
		i += 1 + n
	}
	return out, true
}

// Expiry arguments beyond these bounds (in absolute value) are not covered:
// the server and the API types wrap around in different ways there.
const (
	woExpMax      = 4_000_000_000      // seconds or milliseconds
	woExpMaxAbsMs = 9_000_000_000_000 // absolute milliseconds (PXAT, PEXPIREAT)
)

// woExpCovered reports whether the expiry argument is within the covered range.
func woExpCovered(n int, lim int) bool { return n <= lim && n >= -lim }

// ---------------------------------------------------------------------------
// connection / server

// PING [message]: the bulk "PONG" (server convention; Redis: simple string),
// or the message as a bulk.  An empty message is not covered.
func woPing(db *redka.DB, name string, a [][]byte) (RV, bool) {
	switch len(a) {
	case 0:
		return BulkS("PONG"), true
	case 1:
		if len(a[0]) == 0 {
			return RV{}, false
		}
		return Bulk(a[0]), true
	}
	return woErrArgs()
}

// ECHO message (other argument counts are not covered)
func woEcho(db *redka.DB, name string, a [][]byte) (RV, bool) {
	if len(a) != 1 {
		return RV{}, false
	}
	return Bulk(a[0]), true
}

// DBSIZE -> Key().Len
func woDBSize(db *redka.DB, name string, a [][]byte) (RV, bool) {
	if len(a) != 0 {
		return woErrArgs()
	}
	n, err := db.Key().Len()
	if err != nil {
		return woErr(err)
	}
	return Int(int64(n)), true
}

// FLUSHDB / FLUSHALL -> Key().DeleteAll
func woFlush(db *redka.DB, name string, a [][]byte) (RV, bool) {
	if len(a) != 0 {
		return woErrSyntax()
	}
	if err := db.Key().DeleteAll(); err != nil {
		return woErr(err)
	}
	return Simple("OK"), true
}

// ---------------------------------------------------------------------------
// keys

// DEL key [key ...] -> Key().Delete
func woDel(db *redka.DB, name string, a [][]byte) (RV, bool) {
	if len(a) < 1 {
		return woErrArgs()
	}
	n, err := db.Key().Delete(woStrings(a)...)
	if err != nil {
		return woErr(err)
	}
	return Int(int64(n)), true
}

// EXISTS key [key ...] -> Key().Count
func woExists(db *redka.DB, name string, a [][]byte) (RV, bool) {
	if len(a) < 1 {
		return woErrArgs()
	}
	n, err := db.Key().Count(woStrings(a)...)
	if err != nil {
		return woErr(err)
	}
	return Int(int64(n)), true
}

// EXPIRE key seconds / PEXPIRE key milliseconds -> Key().Expire (relative)
func woExpire(db *redka.DB, name string, a [][]byte) (RV, bool) {
	if len(a) != 2 {
		return woErrArgs()
	}
	n, ok := woInt(a[1])
	if !ok {
		return woErrInt()
	}
	unit := time.Second
	if name == "pexpire" {
		unit = time.Millisecond
	}
	if !woExpCovered(n, woExpMax) {
		return RV{}, false
	}
	err := db.Key().Expire(string(a[0]), time.Duration(n)*unit)
	if woIsNotFound(err) {
		return Int(0), true
	}
	if err != nil {
		return woErr(err)
	}
	return Int(1), true
}

// EXPIREAT key unix-time-seconds / PEXPIREAT key unix-time-milliseconds
// -> Key().ExpireAt (absolute)
func woExpireAt(db *redka.DB, name string, a [][]byte) (RV, bool) {
	if len(a) != 2 {
		return woErrArgs()
	}
	n, ok := woInt(a[1])
	if !ok {
		return woErrInt()
	}
	var at time.Time
	if name == "pexpireat" {
		if !woExpCovered(n, woExpMaxAbsMs) {
			return RV{}, false
		}
		at = time.UnixMilli(int64(n))
	} else {
		if !woExpCovered(n, woExpMax) {
			return RV{}, false
		}
		at = time.Unix(int64(n), 0)
	}
	err := db.Key().ExpireAt(string(a[0]), at)
	if woIsNotFound(err) {
		return Int(0), true
	}
	if err != nil {
		return woErr(err)
	}
	return Int(1), true
}

// KEYS pattern -> Key().Keys (unordered)
func woKeys(db *redka.DB, name string, a [][]byte) (RV, bool) {
	if len(a) != 1 {
		return woErrArgs()
	}
	keys, err := db.Key().Keys(string(a[0]))
	if err != nil {
		return woErr(err)
	}
	items := make([]RV, len(keys))
	for i, k := range keys {
		items[i] = BulkS(k.Key)
	}
	return Arr(items...), true
}

// PERSIST key -> Key().Persist
func woPersist(db *redka.DB, name string, a [][]byte) (RV, bool) {
	if len(a) != 1 {
		return woErrArgs()
	}
	err := db.Key().Persist(string(a[0]))
	if woIsNotFound(err) {
		return Int(0), true
	}
	if err != nil {
		return woErr(err)
	}
	return Int(1), true
}

// RENAME key newkey -> Key().Rename; a missing source is an error (Redis).
func woRename(db *redka.DB, name string, a [][]byte) (RV, bool) {
	if len(a) != 2 {
		return woErrArgs()
	}
	if err := db.Key().Rename(string(a[0]), string(a[1])); err != nil {
		return woErr(err)
	}
	return Simple("OK"), true
}

// RENAMENX key newkey -> Key().RenameNotExists
func woRenameNX(db *redka.DB, name string, a [][]byte) (RV, bool) {
	if len(a) != 2 {
		return woErrArgs()
	}
	ok, err := db.Key().RenameNotExists(string(a[0]), string(a[1]))
	if err != nil {
		return woErr(err)
	}
	return woBool(ok), true
}

// woScanOpts parses [MATCH pattern] [COUNT count] (and [TYPE type] if withType).
// COUNT is passed to the API as given; MATCH "" means "*" (server convention).
func woScanOpts(rest [][]byte, withType bool) (match string, count int, ktype string, errReply *RV) {
	spec := map[string]int{"match": 1, "count": 1}
	if withType {
		spec["type"] = 1
	}
	fail := func(rv RV) (string, int, string, *RV) { return "", 0, "", &rv }
	o, ok := woOpts(rest, spec)
	if !ok {
		return fail(ErrReply("ERR syntax error"))
	}
	match = "*"
	if v, ok := o["match"]; ok && len(v[0]) > 0 {
		match = string(v[0])
	}
	if v, ok := o["count"]; ok {
		n, ok := woInt(v[0])
		if !ok {
			return fail(ErrReply("ERR value is not an integer or out of range"))
		}
		count = n
	}
	if v, ok := o["type"]; ok {
		ktype = strings.ToLower(string(v[0]))
		switch ktype {
		case "string", "list", "set", "hash", "zset":
		default:
			return fail(ErrReply("ERR unknown type name"))
		}
	}
	return match, count, ktype, nil
}

// SCAN cursor [MATCH pattern] [COUNT count] [TYPE type] -> Key().Scan
func woScan(db *redka.DB, name string, a [][]byte) (RV, bool) {
	if len(a) < 1 {
		return woErrArgs()
	}
	cursor, ok := woInt(a[0])
	if !ok {
		return ErrReply("ERR invalid cursor"), true
	}
	match, count, ktype, e := woScanOpts(a[1:], true)
	if e != nil {
		return *e, true
	}
	kt := redka.TypeAny
	switch ktype {
	case "string":
		kt = redka.TypeString
	case "list":
		kt = redka.TypeList
	case "set":
		kt = redka.TypeSet
	case "hash":
		kt = redka.TypeHash
	case "zset":
		kt = redka.TypeZSet
	}
	res, err := db.Key().Scan(cursor, match, kt, count)
	if err != nil {
		return woErr(err)
	}
	items := make([]RV, len(res.Keys))
	for i, k := range res.Keys {
		items[i] = BulkS(k.Key)
	}
	return Arr(Int(int64(res.Cursor)), Arr(items...)), true
}

// TTL key -> Key().Get.  Only the clock-independent answers are covered:
// -2 (no such key) and -1 (no expiry).
func woTTL(db *redka.DB, name string, a [][]byte) (RV, bool) {
	if len(a) != 1 {
		return woErrArgs()
	}
	k, err := db.Key().Get(string(a[0]))
	if woIsNotFound(err) {
		return Int(-2), true
	}
	if err != nil {
		return woErr(err)
	}
	if k.ETime == nil {
		return Int(-1), true
	}
	return RV{}, false
}

// TYPE key -> Key().Get; simple string.
func woType(db *redka.DB, name string, a [][]byte) (RV, bool) {
	if len(a) != 1 {
		return woErrArgs()
	}
	k, err := db.Key().Get(string(a[0]))
	if woIsNotFound(err) {
		return Simple("none"), true
	}
	if err != nil {
		return woErr(err)
	}
	return Simple(k.TypeName()), true
}

// ---------------------------------------------------------------------------
// strings

// GET key -> Str().Get
func woGet(db *redka.DB, name string, a [][]byte) (RV, bool) {
	if len(a) != 1 {
		return woErrArgs()
	}
	v, err := db.Str().Get(string(a[0]))
	if woIsNotFound(err) {
		return NullBulk(), true
	}
	if err != nil {
		return woErr(err)
	}
	return Bulk(v), true
}

// GETSET key value -> Str().SetWith(key, value).Run: previous value or null.
func woGetSet(db *redka.DB, name string, a [][]byte) (RV, bool) {
	if len(a) != 2 {
		return woErrArgs()
	}
	out, err := db.Str().SetWith(string(a[0]), a[1]).Run()
	if err != nil {
		return woErr(err)
	}
	if out.Created {
		return NullBulk(), true
	}
	return Bulk(out.Prev), true
}

// INCR key / DECR key -> Str().Incr(key, +-1)
func woIncr(db *redka.DB, name string, a [][]byte) (RV, bool) {
	if len(a) != 1 {
		return woErrArgs()
	}
	delta := 1
	if name == "decr" {
		delta = -1
	}
	n, err := db.Str().Incr(string(a[0]), delta)
	if err != nil {
		return woErr(err)
	}
	return Int(int64(n)), true
}

// INCRBY key increment / DECRBY key decrement -> Str().Incr(key, +-n)
func woIncrBy(db *redka.DB, name string, a [][]byte) (RV, bool) {
	if len(a) != 2 {
		return woErrArgs()
	}
	delta, ok := woInt(a[1])
	if !ok {
		return woErrInt()
	}
	if delta == math.MinInt64 {
		return RV{}, false // the negation wraps around; not covered
	}
	if name == "decrby" {
		delta = -delta
	}
	n, err := db.Str().Incr(string(a[0]), delta)
	if err != nil {
		return woErr(err)
	}
	return Int(int64(n)), true
}

// INCRBYFLOAT key increment -> Str().IncrFloat; the new value as a bulk.
func woIncrByFloat(db *redka.DB, name string, a [][]byte) (RV, bool) {
	if len(a) != 2 {
		return woErrArgs()
	}
	delta, ok := woFloat(a[1])
	if !ok {
		return woErrFloat()
	}
	f, err := db.Str().IncrFloat(string(a[0]), delta)
	if err != nil {
		return woErr(err)
	}
	return woFmtFloat(f), true
}

// MGET key [key ...] -> Str().GetMany; values in the order of the keys,
// null for keys without a string value.
func woMGet(db *redka.DB, name string, a [][]byte) (RV, bool) {
	if len(a) < 1 {
		return woErrArgs()
	}
	keys := woStrings(a)
	m, err := db.Str().GetMany(keys...)
	if err != nil {
		return woErr(err)
	}
	items := make([]RV, len(keys))
	for i, k := range keys {
		if v, ok := m[k]; ok {
			items[i] = Bulk(v)
		} else {
			items[i] = NullBulk()
		}
	}
	return Arr(items...), true
}

// MSET key value [key value ...] -> Str().SetMany
func woMSet(db *redka.DB, name string, a [][]byte) (RV, bool) {
	if len(a) < 2 || len(a)%2 != 0 {
		return woErrArgs()
	}
	m := make(map[string]any, len(a)/2)
	for i := 0; i < len(a); i += 2 {
		m[string(a[i])] = a[i+1]
	}
	if err := db.Str().SetMany(m); err != nil {
		return woErr(err)
	}
	return Simple("OK"), true
}

// SET key value [NX | XX] [GET] [EX seconds | PX milliseconds |
// EXAT unix-time-seconds | PXAT unix-time-milliseconds | KEEPTTL]
// -> Str().Set (no options) or Str().SetWith(...).Run.
//
// EX/PX/EXAT/PXAT <= 0 mean "no expiry" (recorded redka behaviour, SetExpires:
// "optional expiration time (if ttl > 0)").  Values beyond woExpMax /
// woExpMaxAbsMs are not covered.
func woSet(db *redka.DB, name string, a [][]byte) (RV, bool) {
	if len(a) < 2 {
		return woErrArgs()
	}
	o, ok := woOpts(a[2:], map[string]int{
		"nx": 0, "xx": 0, "get": 0, "ex": 1, "px": 1, "exat": 1, "pxat": 1, "keepttl": 0,
	})
	if !ok {
		return woErrSyntax()
	}
	_, nx := o["nx"]
	_, xx := o["xx"]
	_, get := o["get"]
	_, keepTTL := o["keepttl"]
	if nx && xx {
		return woErrSyntax()
	}
	var ttl time.Duration
	var at time.Time
	nExp := 0
	covered := true
	if keepTTL {
		nExp++
	}
	for _, kw := range []string{"ex", "px", "exat", "pxat"} {
		v, given := o[kw]
		if !given {
			continue
		}
		nExp++
		n, ok := woInt(v[0])
		if !ok {
			return woErrInt()
		}
		if n <= 0 {
			continue // no expiry
		}
		switch kw {
		case "ex":
			covered = woExpCovered(n, woExpMax)
			ttl = time.Duration(n) * time.Second
		case "px":
			covered = woExpCovered(n, woExpMax)
			ttl = time.Duration(n) * time.Millisecond
		case "exat":
			covered = woExpCovered(n, woExpMax)
			at = time.Unix(int64(n), 0)
		case "pxat":
			covered = woExpCovered(n, woExpMaxAbsMs)
			at = time.UnixMilli(int64(n))
		}
	}
	if nExp > 1 {
		return woErrSyntax()
	}

	if !covered {
		return RV{}, false
	}

	key := string(a[0])
	if len(o) == 0 {
		if err := db.Str().Set(key, a[1]); err != nil {
			return woErr(err)
		}
		return Simple("OK"), true
	}
	op := db.Str().SetWith(key, a[1])
	if nx {
		op = op.IfNotExists()
	}
	if xx {
		op = op.IfExists()
	}
	switch {
	case ttl > 0:
		op = op.TTL(ttl)
	case !at.IsZero():
		op = op.At(at)
	case keepTTL:
		op = op.KeepTTL()
	}
	out, err := op.Run()
	if err != nil {
		return woErr(err)
	}
	written := out.Created || out.Updated
	if get {
		// the previous value; null if there was none
		if out.Created || (xx && !written) {
			return NullBulk(), true
		}
		return Bulk(out.Prev), true
	}
	if !written {
		return NullBulk(), true
	}
	return Simple("OK"), true
}

// SETEX key seconds value / PSETEX key milliseconds value -> Str().SetExpires
// (ttl <= 0: no expiry - recorded redka behaviour).
func woSetEX(db *redka.DB, name string, a [][]byte) (RV, bool) {
	if len(a) != 3 {
		return woErrArgs()
	}
	n, ok := woInt(a[1])
	if !ok {
		return woErrInt()
	}
	unit := time.Second
	if name == "psetex" {
		unit = time.Millisecond
	}
	if !woExpCovered(n, woExpMax) {
		return RV{}, false
	}
	if err := db.Str().SetExpires(string(a[0]), a[2], time.Duration(n)*unit); err != nil {
		return woErr(err)
	}
	return Simple("OK"), true
}

// SETNX key value -> Str().SetWith(key, value).IfNotExists().Run
func woSetNX(db *redka.DB, name string, a [][]byte) (RV, bool) {
	if len(a) != 2 {
		return woErrArgs()
	}
	out, err := db.Str().SetWith(string(a[0]), a[1]).IfNotExists().Run()
	if err != nil {
		return woErr(err)
	}
	return woBool(out.Created), true
}

// STRLEN key -> Str().Get
func woStrlen(db *redka.DB, name string, a [][]byte) (RV, bool) {
	if len(a) != 1 {
		return woErrArgs()
	}
	v, err := db.Str().Get(string(a[0]))
	if woIsNotFound(err) {
		return Int(0), true
	}
	if err != nil {
		return woErr(err)
	}
	return Int(int64(len(v))), true
}

// ---------------------------------------------------------------------------
// lists

// LINDEX key index -> List().Get
func woLIndex(db *redka.DB, name string, a [][]byte) (RV, bool) {
	if len(a) != 2 {
		return woErrArgs()
	}
	idx, ok := woInt(a[1])
	if !ok {
		return woErrInt()
	}
	v, err := db.List().Get(string(a[0]), idx)
	if woIsNotFound(err) {
		return NullBulk(), true
	}
	if err != nil {
		return woErr(err)
	}
	return Bulk(v), true
}

// LINSERT key <BEFORE | AFTER> pivot element -> List().InsertBefore/InsertAfter
// The API reports "no pivot" as (-1, ErrNotFound) and "no list" as
// (0, ErrNotFound); Redis replies with that integer.
func woLInsert(db *redka.DB, name string, a [][]byte) (RV, bool) {
	if len(a) != 4 {
		return woErrArgs()
	}
	var n int
	var err error
	switch strings.ToLower(string(a[1])) {
	case "before":
		n, err = db.List().InsertBefore(string(a[0]), a[2], a[3])
	case "after":
		n, err = db.List().InsertAfter(string(a[0]), a[2], a[3])
	default:
		return woErrSyntax()
	}
	if err != nil && !woIsNotFound(err) {
		return woErr(err)
	}
	return Int(int64(n)), true
}

// LLEN key -> List().Len
func woLLen(db *redka.DB, name string, a [][]byte) (RV, bool) {
	if len(a) != 1 {
		return woErrArgs()
	}
	n, err := db.List().Len(string(a[0]))
	if err != nil {
		return woErr(err)
	}
	return Int(int64(n)), true
}

// LPOP key -> List().PopFront; RPOP key -> List().PopBack
func woPop(db *redka.DB, name string, a [][]byte) (RV, bool) {
	if len(a) != 1 {
		return woErrArgs()
	}
	var v []byte
	var err error
	if name == "lpop" {
		v, err = db.List().PopFront(string(a[0]))
	} else {
		v, err = db.List().PopBack(string(a[0]))
	}
	if woIsNotFound(err) {
		return NullBulk(), true
	}
	if err != nil {
		return woErr(err)
	}
	return Bulk(v), true
}

// LPUSH key element -> List().PushFront; RPUSH key element -> List().PushBack
func woPush(db *redka.DB, name string, a [][]byte) (RV, bool) {
	if len(a) != 2 {
		return woErrArgs()
	}
	var n int
	var err error
	if name == "lpush" {
		n, err = db.List().PushFront(string(a[0]), a[1])
	} else {
		n, err = db.List().PushBack(string(a[0]), a[1])
	}
	if err != nil {
		return woErr(err)
	}
	return Int(int64(n)), true
}

// LRANGE key start stop -> List().Range
func woLRange(db *redka.DB, name string, a [][]byte) (RV, bool) {
	if len(a) != 3 {
		return woErrArgs()
	}
	start, ok1 := woInt(a[1])
	stop, ok2 := woInt(a[2])
	if !ok1 || !ok2 {
		return woErrInt()
	}
	vals, err := db.List().Range(string(a[0]), start, stop)
	if err != nil {
		return woErr(err)
	}
	return woBulks(vals), true
}

// LREM key count element -> List().DeleteFront (count > 0),
// List().DeleteBack (count < 0, with -count), List().Delete (count = 0)
func woLRem(db *redka.DB, name string, a [][]byte) (RV, bool) {
	if len(a) != 3 {
		return woErrArgs()
	}
	count, ok := woInt(a[1])
	if !ok {
		return woErrInt()
	}
	var n int
	var err error
	switch {
	case count > 0:
		n, err = db.List().DeleteFront(string(a[0]), a[2], count)
	case count == math.MinInt64:
		return RV{}, false // the negation wraps around; not covered
	case count < 0:
		n, err = db.List().DeleteBack(string(a[0]), a[2], -count)
	default:
		n, err = db.List().Delete(string(a[0]), a[2])
	}
	if err != nil {
		return woErr(err)
	}
	return Int(int64(n)), true
}

// LSET key index element -> List().Set; a missing key or an index out of
// range is an error (Redis).
func woLSet(db *redka.DB, name string, a [][]byte) (RV, bool) {
	if len(a) != 3 {
		return woErrArgs()
	}
	idx, ok := woInt(a[1])
	if !ok {
		return woErrInt()
	}
	if err := db.List().Set(string(a[0]), idx, a[2]); err != nil {
		return woErr(err)
	}
	return Simple("OK"), true
}

// LTRIM key start stop -> List().Trim
func woLTrim(db *redka.DB, name string, a [][]byte) (RV, bool) {
	if len(a) != 3 {
		return woErrArgs()
	}
	start, ok1 := woInt(a[1])
	stop, ok2 := woInt(a[2])
	if !ok1 || !ok2 {
		return woErrInt()
	}
	if _, err := db.List().Trim(string(a[0]), start, stop); err != nil {
		return woErr(err)
	}
	return Simple("OK"), true
}

// RPOPLPUSH source destination -> List().PopBackPushFront
func woRPopLPush(db *redka.DB, name string, a [][]byte) (RV, bool) {
	if len(a) != 2 {
		return woErrArgs()
	}
	v, err := db.List().PopBackPushFront(string(a[0]), string(a[1]))
	if woIsNotFound(err) {
		return NullBulk(), true
	}
	if err != nil {
		return woErr(err)
	}
	return Bulk(v), true
}

// ---------------------------------------------------------------------------
// sets

// SADD key member [member ...] -> Set().Add
func woSAdd(db *redka.DB, name string, a [][]byte) (RV, bool) {
	if len(a) < 2 {
		return woErrArgs()
	}
	n, err := db.Set().Add(string(a[0]), woAnys(a[1:])...)
	if err != nil {
		return woErr(err)
	}
	return Int(int64(n)), true
}

// SCARD key -> Set().Len
func woSCard(db *redka.DB, name string, a [][]byte) (RV, bool) {
	if len(a) != 1 {
		return woErrArgs()
	}
	n, err := db.Set().Len(string(a[0]))
	if err != nil {
		return woErr(err)
	}
	return Int(int64(n)), true
}

// SDIFF / SINTER / SUNION key [key ...] -> Set().Diff / Inter / Union (unordered)
func woSetOp(db *redka.DB, name string, a [][]byte) (RV, bool) {
	if len(a) < 1 {
		return woErrArgs()
	}
	keys := woStrings(a)
	f := db.Set().Union
	switch name {
	case "sdiff":
		f = db.Set().Diff
	case "sinter":
		f = db.Set().Inter
	}
	vals, err := f(keys...)
	if err != nil {
		return woErr(err)
	}
	return woBulks(vals), true
}

// SDIFFSTORE / SINTERSTORE / SUNIONSTORE destination key [key ...]
// -> Set().DiffStore / InterStore / UnionStore
func woSetOpStore(db *redka.DB, name string, a [][]byte) (RV, bool) {
	if len(a) < 2 {
		return woErrArgs()
	}
	dest := string(a[0])
	keys := woStrings(a[1:])
	var n int
	var err error
	switch name {
	case "sdiffstore":
		n, err = db.Set().DiffStore(dest, keys...)
	case "sinterstore":
		n, err = db.Set().InterStore(dest, keys...)
	default:
		n, err = db.Set().UnionStore(dest, keys...)
	}
	if err != nil {
		return woErr(err)
	}
	return Int(int64(n)), true
}

// SISMEMBER key member -> Set().Exists
func woSIsMember(db *redka.DB, name string, a [][]byte) (RV, bool) {
	if len(a) != 2 {
		return woErrArgs()
	}
	ok, err := db.Set().Exists(string(a[0]), a[1])
	if err != nil {
		return woErr(err)
	}
	return woBool(ok), true
}

// SMEMBERS key -> Set().Items (unordered)
func woSMembers(db *redka.DB, name string, a [][]byte) (RV, bool) {
	if len(a) != 1 {
		return woErrArgs()
	}
	vals, err := db.Set().Items(string(a[0]))
	if err != nil {
		return woErr(err)
	}
	return woBulks(vals), true
}

// SMOVE source destination member -> Set().Move; 0 if the member (or the
// source set) does not exist.
func woSMove(db *redka.DB, name string, a [][]byte) (RV, bool) {
	if len(a) != 3 {
		return woErrArgs()
	}
	err := db.Set().Move(string(a[0]), string(a[1]), a[2])
	if woIsNotFound(err) {
		return Int(0), true
	}
	if err != nil {
		return woErr(err)
	}
	return Int(1), true
}

// SREM key member [member ...] -> Set().Delete
func woSRem(db *redka.DB, name string, a [][]byte) (RV, bool) {
	if len(a) < 2 {
		return woErrArgs()
	}
	n, err := db.Set().Delete(string(a[0]), woAnys(a[1:])...)
	if err != nil {
		return woErr(err)
	}
	return Int(int64(n)), true
}

// woKeyCursor parses "key cursor [MATCH pattern] [COUNT count]".
func woKeyCursor(a [][]byte) (key string, cursor int, match string, count int, errReply *RV) {
	fail := func(rv RV) (string, int, string, int, *RV) { return "", 0, "", 0, &rv }
	if len(a) < 2 {
		return fail(ErrReply("ERR wrong number of arguments"))
	}
	cursor, ok := woInt(a[1])
	if !ok {
		return fail(ErrReply("ERR invalid cursor"))
	}
	match, count, _, e := woScanOpts(a[2:], false)
	if e != nil {
		return fail(*e)
	}
	return string(a[0]), cursor, match, count, nil
}

// SSCAN key cursor [MATCH pattern] [COUNT count] -> Set().Scan
func woSScan(db *redka.DB, name string, a [][]byte) (RV, bool) {
	key, cursor, match, count, e := woKeyCursor(a)
	if e != nil {
		return *e, true
	}
	res, err := db.Set().Scan(key, cursor, match, count)
	if err != nil {
		return woErr(err)
	}
	return Arr(Int(int64(res.Cursor)), woBulks(res.Items)), true
}

// ---------------------------------------------------------------------------
// hashes

// HDEL key field [field ...] -> Hash().Delete
func woHDel(db *redka.DB, name string, a [][]byte) (RV, bool) {
	if len(a) < 2 {
		return woErrArgs()
	}
	n, err := db.Hash().Delete(string(a[0]), woStrings(a[1:])...)
	if err != nil {
		return woErr(err)
	}
	return Int(int64(n)), true
}

// HEXISTS key field -> Hash().Exists
func woHExists(db *redka.DB, name string, a [][]byte) (RV, bool) {
	if len(a) != 2 {
		return woErrArgs()
	}
	ok, err := db.Hash().Exists(string(a[0]), string(a[1]))
	if err != nil {
		return woErr(err)
	}
	return woBool(ok), true
}

// HGET key field -> Hash().Get
func woHGet(db *redka.DB, name string, a [][]byte) (RV, bool) {
	if len(a) != 2 {
		return woErrArgs()
	}
	v, err := db.Hash().Get(string(a[0]), string(a[1]))
	if woIsNotFound(err) {
		return NullBulk(), true
	}
	if err != nil {
		return woErr(err)
	}
	return Bulk(v), true
}

// HGETALL key -> Hash().Items; flat field,value array (unordered as pairs).
func woHGetAll(db *redka.DB, name string, a [][]byte) (RV, bool) {
	if len(a) != 1 {
		return woErrArgs()
	}
	m, err := db.Hash().Items(string(a[0]))
	if err != nil {
		return woErr(err)
	}
	items := make([]RV, 0, 2*len(m))
	for f, v := range m {
		items = append(items, BulkS(f), Bulk(v))
	}
	return Arr(items...), true
}

// HINCRBY key field increment -> Hash().Incr
func woHIncrBy(db *redka.DB, name string, a [][]byte) (RV, bool) {
	if len(a) != 3 {
		return woErrArgs()
	}
	delta, ok := woInt(a[2])
	if !ok {
		return woErrInt()
	}
	n, err := db.Hash().Incr(string(a[0]), string(a[1]), delta)
	if err != nil {
		return woErr(err)
	}
	return Int(int64(n)), true
}

// HINCRBYFLOAT key field increment -> Hash().IncrFloat; new value as a bulk.
func woHIncrByFloat(db *redka.DB, name string, a [][]byte) (RV, bool) {
	if len(a) != 3 {
		return woErrArgs()
	}
	delta, ok := woFloat(a[2])
	if !ok {
		return woErrFloat()
	}
	f, err := db.Hash().IncrFloat(string(a[0]), string(a[1]), delta)
	if err != nil {
		return woErr(err)
	}
	return woFmtFloat(f), true
}

// HKEYS key -> Hash().Fields (docs: "Keys"; unordered)
func woHKeys(db *redka.DB, name string, a [][]byte) (RV, bool) {
	if len(a) != 1 {
		return woErrArgs()
	}
	fields, err := db.Hash().Fields(string(a[0]))
	if err != nil {
		return woErr(err)
	}
	items := make([]RV, len(fields))
	for i, f := range fields {
		items[i] = BulkS(f)
	}
	return Arr(items...), true
}

// HLEN key -> Hash().Len
func woHLen(db *redka.DB, name string, a [][]byte) (RV, bool) {
	if len(a) != 1 {
		return woErrArgs()
	}
	n, err := db.Hash().Len(string(a[0]))
	if err != nil {
		return woErr(err)
	}
	return Int(int64(n)), true
}

// HMGET key field [field ...] -> Hash().GetMany; values in the order of the
// fields, null for missing fields.
func woHMGet(db *redka.DB, name string, a [][]byte) (RV, bool) {
	if len(a) < 2 {
		return woErrArgs()
	}
	fields := woStrings(a[1:])
	m, err := db.Hash().GetMany(string(a[0]), fields...)
	if err != nil {
		return woErr(err)
	}
	items := make([]RV, len(fields))
	for i, f := range fields {
		if v, ok := m[f]; ok {
			items[i] = Bulk(v)
		} else {
			items[i] = NullBulk()
		}
	}
	return Arr(items...), true
}

// HSET key field value [field value ...] -> Hash().SetMany: number of fields
// created.  HMSET: same call, reply OK.
func woHSet(db *redka.DB, name string, a [][]byte) (RV, bool) {
	if len(a) < 3 || len(a)%2 != 1 {
		return woErrArgs()
	}
	m := make(map[string]any, len(a)/2)
	for i := 1; i < len(a); i += 2 {
		m[string(a[i])] = a[i+1]
	}
	n, err := db.Hash().SetMany(string(a[0]), m)
	if err != nil {
		return woErr(err)
	}
	if name == "hmset" {
		return Simple("OK"), true
	}
	return Int(int64(n)), true
}

// HSETNX key field value -> Hash().SetNotExists
func woHSetNX(db *redka.DB, name string, a [][]byte) (RV, bool) {
	if len(a) != 3 {
		return woErrArgs()
	}
	ok, err := db.Hash().SetNotExists(string(a[0]), string(a[1]), a[2])
	if err != nil {
		return woErr(err)
	}
	return woBool(ok), true
}

// HVALS key -> Hash().Values (unordered)
func woHVals(db *redka.DB, name string, a [][]byte) (RV, bool) {
	if len(a) != 1 {
		return woErrArgs()
	}
	vals, err := db.Hash().Values(string(a[0]))
	if err != nil {
		return woErr(err)
	}
	return woBulks(vals), true
}

// HSCAN key cursor [MATCH pattern] [COUNT count] -> Hash().Scan;
// [cursor, [field, value, ...]]
func woHScan(db *redka.DB, name string, a [][]byte) (RV, bool) {
	key, cursor, match, count, e := woKeyCursor(a)
	if e != nil {
		return *e, true
	}
	res, err := db.Hash().Scan(key, cursor, match, count)
	if err != nil {
		return woErr(err)
	}
	items := make([]RV, 0, 2*len(res.Items))
	for _, it := range res.Items {
		items = append(items, BulkS(it.Field), Bulk(it.Value))
	}
	return Arr(Int(int64(res.Cursor)), Arr(items...)), true
}

// ---------------------------------------------------------------------------
// sorted sets

// woZI is an element-score pair (rzset.SetItem is internal).
type woZI struct {
	Elem  []byte
	Score float64
}

// woZItems encodes element(-score) lists.
func woZItems(items []woZI, withScores bool) RV {
	out := make([]RV, 0, 2*len(items))
	for _, it := range items {
		out = append(out, Bulk(it.Elem))
		if withScores {
			out = append(out, woFmtFloat(it.Score))
		}
	}
	return Arr(out...)
}

// ZADD key score member [score member ...] -> ZSet().AddMany: number of
// elements created.
func woZAdd(db *redka.DB, name string, a [][]byte) (RV, bool) {
	if len(a) < 3 {
		return woErrArgs()
	}
	if len(a)%2 != 1 {
		return woErrSyntax()
	}
	m := make(map[any]float64, len(a)/2)
	for i := 1; i < len(a); i += 2 {
		f, ok := woFloat(a[i])
		if !ok {
			return woErrFloat()
		}
		m[string(a[i+1])] = f
	}
	n, err := db.ZSet().AddMany(string(a[0]), m)
	if err != nil {
		return woErr(err)
	}
	return Int(int64(n)), true
}

// ZCARD key -> ZSet().Len
func woZCard(db *redka.DB, name string, a [][]byte) (RV, bool) {
	if len(a) != 1 {
		return woErrArgs()
	}
	n, err := db.ZSet().Len(string(a[0]))
	if err != nil {
		return woErr(err)
	}
	return Int(int64(n)), true
}

// ZCOUNT key min max -> ZSet().Count
func woZCount(db *redka.DB, name string, a [][]byte) (RV, bool) {
	if len(a) != 3 {
		return woErrArgs()
	}
	min, ok1 := woFloat(a[1])
	max, ok2 := woFloat(a[2])
	if !ok1 || !ok2 {
		return woErrFloat()
	}
	n, err := db.ZSet().Count(string(a[0]), min, max)
	if err != nil {
		return woErr(err)
	}
	return Int(int64(n)), true
}

// ZINCRBY key increment member -> ZSet().Incr; the new score as a bulk.
func woZIncrBy(db *redka.DB, name string, a [][]byte) (RV, bool) {
	if len(a) != 3 {
		return woErrArgs()
	}
	delta, ok := woFloat(a[1])
	if !ok {
		return woErrFloat()
	}
	f, err := db.ZSet().Incr(string(a[0]), a[2], delta)
	if err != nil {
		return woErr(err)
	}
	return woFmtFloat(f), true
}

// woNumKeys parses "numkeys key [key ...]" and returns the keys and the rest.
// numkeys must not be negative and that many keys must follow (numkeys 0: the
// API is called with an empty key list).
func woNumKeys(a [][]byte) (keys []string, rest [][]byte, errReply *RV) {
	fail := func(rv RV) ([]string, [][]byte, *RV) { return nil, nil, &rv }
	n, ok := woInt(a[0])
	if !ok {
		return fail(ErrReply("ERR value is not an integer or out of range"))
	}
	if n < 0 {
		return fail(ErrReply("ERR wrong number of arguments"))
	}
	if n > len(a)-1 {
		return fail(ErrReply("ERR syntax error"))
	}
	return woStrings(a[1 : 1+n]), a[1+n:], nil
}

func woAggregate(o map[string][][]byte) (string, bool) {
	v, ok := o["aggregate"]
	if !ok {
		return "", true
	}
	agg := strings.ToLower(string(v[0]))
	switch agg {
	case "sum", "min", "max":
		return agg, true
	}
	return "", false
}

// woZCombineRun performs ZSet().InterWith / UnionWith with the aggregate,
// either returning the items (Run) or storing them in dest (Store).
func woZCombineRun(db *redka.DB, inter bool, keys []string, agg string, store bool, dest string) (items []woZI, n int, err error) {
	if inter {
		c := db.ZSet().InterWith(keys...)
		switch agg {
		case "sum":
			c = c.Sum()
		case "min":
			c = c.Min()
		case "max":
			c = c.Max()
		}
		if store {
			n, err = c.Dest(dest).Store()
			return nil, n, err
		}
		res, err := c.Run()
		for _, it := range res {
			items = append(items, woZI{it.Elem, it.Score})
		}
		return items, 0, err
	}
	c := db.ZSet().UnionWith(keys...)
	switch agg {
	case "sum":
		c = c.Sum()
	case "min":
		c = c.Min()
	case "max":
		c = c.Max()
	}
	if store {
		n, err = c.Dest(dest).Store()
		return nil, n, err
	}
	res, err := c.Run()
	for _, it := range res {
		items = append(items, woZI{it.Elem, it.Score})
	}
	return items, 0, err
}

// ZINTER / ZUNION numkeys key [key ...] [AGGREGATE <SUM | MIN | MAX>] [WITHSCORES]
// -> ZSet().InterWith / UnionWith (...).Run
func woZCombine(db *redka.DB, name string, a [][]byte) (RV, bool) {
	if len(a) < 2 {
		return woErrArgs()
	}
	keys, rest, e := woNumKeys(a)
	if e != nil {
		return *e, true
	}
	o, ok := woOpts(rest, map[string]int{"aggregate": 1, "withscores": 0})
	if !ok {
		return woErrSyntax()
	}
	agg, ok := woAggregate(o)
	if !ok {
		return woErrSyntax()
	}
	_, withScores := o["withscores"]
	items, _, err := woZCombineRun(db, name == "zinter", keys, agg, false, "")
	if err != nil {
		return woErr(err)
	}
	return woZItems(items, withScores), true
}

// ZINTERSTORE / ZUNIONSTORE dest numkeys key [key ...] [AGGREGATE <SUM | MIN | MAX>]
// -> ZSet().InterWith / UnionWith (...).Dest(dest).Store
func woZCombineStore(db *redka.DB, name string, a [][]byte) (RV, bool) {
	if len(a) < 3 {
		return woErrArgs()
	}
	dest := string(a[0])
	keys, rest, e := woNumKeys(a[1:])
	if e != nil {
		return *e, true
	}
	o, ok := woOpts(rest, map[string]int{"aggregate": 1})
	if !ok {
		return woErrSyntax()
	}
	agg, ok := woAggregate(o)
	if !ok {
		return woErrSyntax()
	}
	_, n, err := woZCombineRun(db, name == "zinterstore", keys, agg, true, dest)
	if err != nil {
		return woErr(err)
	}
	return Int(int64(n)), true
}

// woLimit parses the values of LIMIT offset count.
func woLimit(o map[string][][]byte) (has bool, offset, count int, ok bool) {
	v, has := o["limit"]
	if !has {
		return false, 0, 0, true
	}
	offset, ok1 := woInt(v[0])
	count, ok2 := woInt(v[1])
	return true, offset, count, ok1 && ok2
}

// woZRangeSpec describes one ZSet().RangeWith call.
type woZRangeSpec struct {
	key         string
	byScore     bool
	lo, hi      float64 // by score (min, max)
	start, stop int     // by rank
	desc        bool
	hasLimit    bool
	offset      int
	count       int
}

// woRunRange runs ZSet().RangeWith(key).ByRank/ByScore[.Desc()][.Offset().Count()].Run().
// LIMIT offset and count are passed to the API as given (the API ignores
// values <= 0, and ignores both when ranging by rank).
func woRunRange(db *redka.DB, sp woZRangeSpec) ([]woZI, error) {
	c := db.ZSet().RangeWith(sp.key)
	if sp.byScore {
		c = c.ByScore(sp.lo, sp.hi)
	} else {
		c = c.ByRank(sp.start, sp.stop)
	}
	if sp.desc {
		c = c.Desc()
	}
	if sp.hasLimit {
		c = c.Offset(sp.offset).Count(sp.count)
	}
	res, err := c.Run()
	if err != nil {
		return nil, err
	}
	items := make([]woZI, 0, len(res))
	for _, it := range res {
		items = append(items, woZI{it.Elem, it.Score})
	}
	return items, nil
}

// ZRANGE key start stop [BYSCORE] [REV] [LIMIT offset count] [WITHSCORES]
// -> ZSet().RangeWith(key).ByRank/ByScore...Run
//
// With BYSCORE and REV the arguments are "max min" (Redis).  Without BYSCORE
// start/stop are ranks: numbers that are not integers are not covered; LIMIT
// is accepted (and ignored by the API's by-rank range).
func woZRange(db *redka.DB, name string, a [][]byte) (RV, bool) {
	if len(a) < 3 {
		return woErrArgs()
	}
	o, ok := woOpts(a[3:], map[string]int{"byscore": 0, "rev": 0, "limit": 2, "withscores": 0})
	if !ok {
		return woErrSyntax()
	}
	_, byScore := o["byscore"]
	_, rev := o["rev"]
	_, withScores := o["withscores"]
	hasLimit, offset, count, ok := woLimit(o)
	if !ok {
		return woErrInt()
	}
	sp := woZRangeSpec{key: string(a[0]), byScore: byScore, desc: rev,
		hasLimit: hasLimit, offset: offset, count: count}
	if byScore {
		lo, ok1 := woFloat(a[1])
		hi, ok2 := woFloat(a[2])
		if !ok1 || !ok2 {
			return woErrFloat()
		}
		if rev {
			lo, hi = hi, lo
		}
		sp.lo, sp.hi = lo, hi
	} else {
		start, ok1 := woInt(a[1])
		stop, ok2 := woInt(a[2])
		if !ok1 || !ok2 {
			_, f1 := woFloat(a[1])
			_, f2 := woFloat(a[2])
			if f1 && f2 {
				return RV{}, false // a number, but not an integer rank
			}
			return woErrInt()
		}
		sp.start, sp.stop = start, stop
	}
	items, err := woRunRange(db, sp)
	if err != nil {
		return woErr(err)
	}
	return woZItems(items, withScores), true
}

// ZRANGEBYSCORE key min max [WITHSCORES] [LIMIT offset count]
// ZREVRANGEBYSCORE key max min [WITHSCORES] [LIMIT offset count]
// -> ZSet().RangeWith(key).ByScore(min, max)[.Desc()]...Run
func woZRangeByScore(db *redka.DB, name string, a [][]byte) (RV, bool) {
	if len(a) < 3 {
		return woErrArgs()
	}
	o, ok := woOpts(a[3:], map[string]int{"limit": 2, "withscores": 0})
	if !ok {
		return woErrSyntax()
	}
	_, withScores := o["withscores"]
	hasLimit, offset, count, ok := woLimit(o)
	if !ok {
		return woErrInt()
	}
	lo, ok1 := woFloat(a[1])
	hi, ok2 := woFloat(a[2])
	if !ok1 || !ok2 {
		return woErrFloat()
	}
	rev := name == "zrevrangebyscore"
	if rev {
		lo, hi = hi, lo
	}
	items, err := woRunRange(db, woZRangeSpec{key: string(a[0]), byScore: true, lo: lo, hi: hi,
		desc: rev, hasLimit: hasLimit, offset: offset, count: count})
	if err != nil {
		return woErr(err)
	}
	return woZItems(items, withScores), true
}

// ZRANK / ZREVRANK key member [WITHSCORE] -> ZSet().GetRank / GetRankRev.
// Missing: null bulk (also with WITHSCORE; server convention).
func woZRank(db *redka.DB, name string, a [][]byte) (RV, bool) {
	if len(a) < 2 {
		return woErrArgs()
	}
	o, ok := woOpts(a[2:], map[string]int{"withscore": 0})
	if !ok {
		return woErrSyntax()
	}
	_, withScore := o["withscore"]
	var rank int
	var score float64
	var err error
	if name == "zrank" {
		rank, score, err = db.ZSet().GetRank(string(a[0]), a[1])
	} else {
		rank, score, err = db.ZSet().GetRankRev(string(a[0]), a[1])
	}
	if woIsNotFound(err) {
		return NullBulk(), true
	}
	if err != nil {
		return woErr(err)
	}
	if withScore {
		return Arr(Int(int64(rank)), woFmtFloat(score)), true
	}
	return Int(int64(rank)), true
}

// ZREM key member [member ...] -> ZSet().Delete
func woZRem(db *redka.DB, name string, a [][]byte) (RV, bool) {
	if len(a) < 2 {
		return woErrArgs()
	}
	n, err := db.ZSet().Delete(string(a[0]), woAnys(a[1:])...)
	if err != nil {
		return woErr(err)
	}
	return Int(int64(n)), true
}

// ZREMRANGEBYRANK key start stop -> ZSet().DeleteWith(key).ByRank(start, stop).Run
func woZRemRangeByRank(db *redka.DB, name string, a [][]byte) (RV, bool) {
	if len(a) != 3 {
		return woErrArgs()
	}
	start, ok1 := woInt(a[1])
	stop, ok2 := woInt(a[2])
	if !ok1 || !ok2 {
		return woErrInt()
	}
	n, err := db.ZSet().DeleteWith(string(a[0])).ByRank(start, stop).Run()
	if err != nil {
		return woErr(err)
	}
	return Int(int64(n)), true
}

// ZREMRANGEBYSCORE key min max -> ZSet().DeleteWith(key).ByScore(min, max).Run
func woZRemRangeByScore(db *redka.DB, name string, a [][]byte) (RV, bool) {
	if len(a) != 3 {
		return woErrArgs()
	}
	min, ok1 := woFloat(a[1])
	max, ok2 := woFloat(a[2])
	if !ok1 || !ok2 {
		return woErrFloat()
	}
	n, err := db.ZSet().DeleteWith(string(a[0])).ByScore(min, max).Run()
	if err != nil {
		return woErr(err)
	}
	return Int(int64(n)), true
}

// ZREVRANGE key start stop [WITHSCORES]
// -> ZSet().RangeWith(key).ByRank(start, stop).Desc().Run
func woZRevRange(db *redka.DB, name string, a [][]byte) (RV, bool) {
	if len(a) < 3 {
		return woErrArgs()
	}
	o, ok := woOpts(a[3:], map[string]int{"withscores": 0})
	if !ok {
		return woErrSyntax()
	}
	_, withScores := o["withscores"]
	start, ok1 := woInt(a[1])
	stop, ok2 := woInt(a[2])
	if !ok1 || !ok2 {
		return woErrInt()
	}
	items, err := woRunRange(db, woZRangeSpec{key: string(a[0]), start: start, stop: stop, desc: true})
	if err != nil {
		return woErr(err)
	}
	return woZItems(items, withScores), true
}

// ZSCAN key cursor [MATCH pattern] [COUNT count] -> ZSet().Scan;
// [cursor, [member, score, ...]]
func woZScan(db *redka.DB, name string, a [][]byte) (RV, bool) {
	key, cursor, match, count, e := woKeyCursor(a)
	if e != nil {
		return *e, true
	}
	res, err := db.ZSet().Scan(key, cursor, match, count)
	if err != nil {
		return woErr(err)
	}
	items := make([]woZI, 0, len(res.Items))
	for _, it := range res.Items {
		items = append(items, woZI{it.Elem, it.Score})
	}
	return Arr(Int(int64(res.Cursor)), woZItems(items, true)), true
}

// ZSCORE key member -> ZSet().GetScore; the score as a bulk, null if missing.
func woZScore(db *redka.DB, name string, a [][]byte) (RV, bool) {
	if len(a) != 2 {
		return woErrArgs()
	}
	f, err := db.ZSet().GetScore(string(a[0]), a[1])
	if woIsNotFound(err) {
		return NullBulk(), true
	}
	if err != nil {
		return woErr(err)
	}
	return woFmtFloat(f), true
}
