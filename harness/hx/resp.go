package hx

import (
	"bufio"
	"encoding/hex"
	"errors"
	"fmt"
	"io"
	"net"
	"os"
	"os/exec"
	"strconv"
	"strings"
	"time"
)

// RV is a RESP2 value, type-preserving.
type RV struct {
	Kind byte // '+' simple string, '-' error, ':' integer, '$' bulk, '*' array
	Str  []byte
	Int  int64
	Arr  []RV
	Null bool // null bulk ($-1) or null array (*-1)
}

func Simple(s string) RV { return RV{Kind: '+', Str: []byte(s)} }
func ErrReply(s string) RV { return RV{Kind: '-', Str: []byte(s)} }
func Int(n int64) RV      { return RV{Kind: ':', Int: n} }
func Bulk(b []byte) RV {
	if b == nil {
		b = []byte{}
	}
	return RV{Kind: '$', Str: b}
}
func BulkS(s string) RV  { return RV{Kind: '$', Str: []byte(s)} }
func NullBulk() RV       { return RV{Kind: '$', Null: true} }
func Arr(items ...RV) RV { return RV{Kind: '*', Arr: append([]RV{}, items...)} }

// Canon renders the value; error replies are reduced to "-ERR" (the class,
// not the wording, is what is compared).
func (v RV) Canon() string {
	switch v.Kind {
	case '+':
		return "+" + string(v.Str)
	case '-':
		return "-ERR"
	case ':':
		return ":" + strconv.FormatInt(v.Int, 10)
	case '$':
		if v.Null {
			return "$nil"
		}
		return "$" + hex.EncodeToString(v.Str)
	case '*':
		if v.Null {
			return "*nil"
		}
		parts := make([]string, len(v.Arr))
		for i, a := range v.Arr {
			parts[i] = a.Canon()
		}
		return "*[" + strings.Join(parts, " ") + "]"
	}
	return "?"
}

// Verbose keeps error texts (for replay files).
func (v RV) Verbose() string {
	if v.Kind == '-' {
		return "-" + string(v.Str)
	}
	if v.Kind == '*' && !v.Null {
		parts := make([]string, len(v.Arr))
		for i, a := range v.Arr {
			parts[i] = a.Verbose()
		}
		return "*[" + strings.Join(parts, " ") + "]"
	}
	if v.Kind == '$' && !v.Null {
		return "$" + strconv.Quote(string(v.Str))
	}
	return v.Canon()
}

// ReadRV reads exactly one RESP2 value, strictly.
func ReadRV(r *bufio.Reader) (RV, error) {
	line, err := r.ReadBytes('\n')
	if err != nil {
		return RV{}, err
	}
	if len(line) < 3 || line[len(line)-2] != '\r' {
		return RV{}, fmt.Errorf("malformed line %q", line)
	}
	body := line[1 : len(line)-2]
	switch line[0] {
	case '+':
		return RV{Kind: '+', Str: append([]byte{}, body...)}, nil
	case '-':
		return RV{Kind: '-', Str: append([]byte{}, body...)}, nil
	case ':':
		n, err := strconv.ParseInt(string(body), 10, 64)
		if err != nil {
			return RV{}, fmt.Errorf("malformed integer %q", line)
		}
		return RV{Kind: ':', Int: n}, nil
	case '$':
		n, err := strconv.Atoi(string(body))
		if err != nil {
			return RV{}, fmt.Errorf("malformed bulk length %q", line)
		}
		if n == -1 {
			return RV{Kind: '$', Null: true}, nil
		}
		if n < 0 {
			return RV{}, fmt.Errorf("negative bulk length %q", line)
		}
		buf := make([]byte, n+2)
		if _, err := io.ReadFull(r, buf); err != nil {
			return RV{}, err
		}
		if buf[n] != '\r' || buf[n+1] != '\n' {
			return RV{}, errors.New("bulk not terminated by CRLF")
		}
		return RV{Kind: '$', Str: buf[:n]}, nil
	case '*':
		n, err := strconv.Atoi(string(body))
		if err != nil {
			return RV{}, fmt.Errorf("malformed array length %q", line)
		}
		if n == -1 {
			return RV{Kind: '*', Null: true}, nil
		}
		if n < 0 {
			return RV{}, fmt.Errorf("negative array length %q", line)
		}
		v := RV{Kind: '*', Arr: make([]RV, 0, n)}
		for i := 0; i < n; i++ {
			e, err := ReadRV(r)
			if err != nil {
				return RV{}, err
			}
			v.Arr = append(v.Arr, e)
		}
		return v, nil
	}
	return RV{}, fmt.Errorf("unknown RESP type byte %q", line[0])
}

// Client is a strict RESP client over one TCP connection.
type Client struct {
	Conn net.Conn
	R    *bufio.Reader
}

func Dial(addr string) (*Client, error) {
	c, err := net.DialTimeout("tcp", addr, 2*time.Second)
	if err != nil {
		return nil, err
	}
	return &Client{Conn: c, R: bufio.NewReader(c)}, nil
}

func (c *Client) Close() { c.Conn.Close() }

// Encode renders a command as a RESP array of bulk strings.
func Encode(args [][]byte) []byte {
	var b []byte
	b = append(b, '*')
	b = strconv.AppendInt(b, int64(len(args)), 10)
	b = append(b, '\r', '\n')
	for _, a := range args {
		b = append(b, '$')
		b = strconv.AppendInt(b, int64(len(a)), 10)
		b = append(b, '\r', '\n')
		b = append(b, a...)
		b = append(b, '\r', '\n')
	}
	return b
}

// Send writes one command.
func (c *Client) Send(args [][]byte) error {
	_ = c.Conn.SetWriteDeadline(time.Now().Add(5 * time.Second))
	_, err := c.Conn.Write(Encode(args))
	return err
}

// Recv reads one reply (with a deadline, so that a hung connection is noticed).
func (c *Client) Recv(timeout time.Duration) (RV, error) {
	_ = c.Conn.SetReadDeadline(time.Now().Add(timeout))
	return ReadRV(c.R)
}

// Do sends one command and reads one reply.
func (c *Client) Do(args ...string) (RV, error) {
	b := make([][]byte, len(args))
	for i, a := range args {
		b[i] = []byte(a)
	}
	if err := c.Send(b); err != nil {
		return RV{}, err
	}
	return c.Recv(5 * time.Second)
}

// Server is a redka server process built from /repo.
type Server struct {
	Cmd  *exec.Cmd
	Addr string
	Path string // database file ("" = in-memory)
	Log  string
}

// ServerBin is the server binary built by harness/build.sh.
var ServerBin = "/verif/build/redka-server"

func freePort() int {
	l, err := net.Listen("tcp", "127.0.0.1:0")
	if err != nil {
		return 0
	}
	defer l.Close()
	return l.Addr().(*net.TCPAddr).Port
}

// StartServer launches the server on a free port with the given database path.
func StartServer(dbPath string) (*Server, error) {
	port := freePort()
	logf, err := os.CreateTemp("", "redka-server-*.log")
	if err != nil {
		return nil, err
	}
	args := []string{"-h", "127.0.0.1", "-p", strconv.Itoa(port)}
	if dbPath != "" {
		args = append(args, dbPath)
	}
	bin := ServerBin
	if b := os.Getenv("HX_SERVER_BIN"); b != "" {
		bin = b
	}
	cmd := exec.Command(bin, args...)
	cmd.Stdout = logf
	cmd.Stderr = logf
	if err := cmd.Start(); err != nil {
		return nil, err
	}
	s := &Server{Cmd: cmd, Addr: fmt.Sprintf("127.0.0.1:%d", port), Path: dbPath, Log: logf.Name()}
	// wait until it accepts connections
	for i := 0; i < 200; i++ {
		c, err := net.DialTimeout("tcp", s.Addr, 100*time.Millisecond)
		if err == nil {
			c.Close()
			return s, nil
		}
		time.Sleep(20 * time.Millisecond)
	}
	s.Stop()
	return nil, errors.New("server did not start; log: " + s.Log)
}

// Alive reports whether the process is still running and answers PING.
func (s *Server) Alive() bool {
	c, err := Dial(s.Addr)
	if err != nil {
		return false
	}
	defer c.Close()
	v, err := c.Do("PING")
	return err == nil && (v.Kind == '+' || v.Kind == '$') && !v.Null
}

func (s *Server) Stop() {
	if s.Cmd.Process != nil {
		_ = s.Cmd.Process.Signal(os.Interrupt)
		done := make(chan struct{})
		go func() { _, _ = s.Cmd.Process.Wait(); close(done) }()
		select {
		case <-done:
		case <-time.After(2 * time.Second):
			_ = s.Cmd.Process.Kill()
		}
	}
	os.Remove(s.Log)
}

func (s *Server) Kill() {
	if s.Cmd.Process != nil {
		_ = s.Cmd.Process.Kill()
		_, _ = s.Cmd.Process.Wait()
	}
}
