package hx

import "github.com/nalgeon/redka"

// WireOracle computes, for one wire command, the reply the server must give:
// the Redis-typed encoding of what the documented Go API call for that command
// (docs/commands/*.md) returns on the given database - and performs that API
// call on the database (the "twin").  handled=false means the oracle does not
// cover this command or argument shape; the caller then falls back to a weaker
// comparison.  now is the wall clock in ms at the time of the call.
//
// Implemented in wireoracle.go.
type WireOracleFunc func(db *redka.DB, args [][]byte) (reply RV, handled bool)
