package hx

import (
	"fmt"
	"math"
	"sort"
	"strconv"
	"strings"
	"time"

	"github.com/nalgeon/redka"
	"github.com/nalgeon/redka/verifhook"
)

type R = verifhook.Redka

func ms(d int64) time.Duration { return time.Duration(d) * time.Millisecond }

// ---------- rkey ----------

func KCount(keys ...string) *Op {
	return &Op{Name: "KCount", Tok: "KCount " + TokStrs(keys),
		Run: func(r R, x *Exec, op *Op) Res { n, err := r.Key().Count(keys...); return valOrErr(I(n), err) }}
}
func KDelete(keys ...string) *Op {
	return &Op{Name: "KDelete", Tok: "KDelete " + TokStrs(keys), Write: true,
		Run: func(r R, x *Exec, op *Op) Res { n, err := r.Key().Delete(keys...); return valOrErr(I(n), err) }}
}
func KDeleteAll() *Op {
	return &Op{Name: "KDeleteAll", Tok: "KDeleteAll", Write: true,
		Run: func(r R, x *Exec, op *Op) Res { return errOnly(r.Key().DeleteAll()) }}
}
func KDeleteExpired(n int) *Op {
	return &Op{Name: "KDeleteExpired", Tok: "KDeleteExpired " + I(n), Write: true,
		Run: func(r R, x *Exec, op *Op) Res { return Res{Val: None, Err: "!unsupported-in-tx"} },
		RunDB: func(db *redka.DB, x *Exec, op *Op) Res {
			c, err := db.Key().DeleteExpired(n)
			return valOrErr(I(c), err)
		}}
}
func KExists(key string) *Op {
	return &Op{Name: "KExists", Tok: "KExists " + SS(key),
		Run: func(r R, x *Exec, op *Op) Res { b, err := r.Key().Exists(key); return valOrErr(B(b), err) }}
}
func KExpire(key string, ttlMs int64) *Op {
	return &Op{Name: "KExpire", Tok: "KExpire " + SS(key) + " " + I64(ttlMs), Write: true, RelTTL: []int64{ttlMs},
		Run: func(r R, x *Exec, op *Op) Res { return errOnly(r.Key().Expire(key, ms(ttlMs))) }}
}
func KExpireAt(key string, atMs int64) *Op {
	return &Op{Name: "KExpireAt", Tok: "KExpireAt " + SS(key) + " " + I64(atMs), Write: true,
		Run: func(r R, x *Exec, op *Op) Res { return errOnly(r.Key().ExpireAt(key, time.UnixMilli(atMs))) }}
}
func KGet(key string) *Op {
	return &Op{Name: "KGet", Tok: "KGet " + SS(key),
		Run: func(r R, x *Exec, op *Op) Res {
			k, err := r.Key().Get(key)
			if err != nil {
				return errOnly(err)
			}
			return ok(KeyRV(k))
		}}
}
func KKeys(pat string) *Op {
	return &Op{Name: "KKeys", Tok: "KKeys " + SS(pat),
		Run: func(r R, x *Exec, op *Op) Res {
			ks, err := r.Key().Keys(pat)
			if err != nil {
				return errOnly(err)
			}
			items := make([]string, len(ks))
			for i, k := range ks {
				items[i] = KeyRV(k)
			}
			return ok("{" + joinSp(items) + " }")
		}}
}
func KLen() *Op {
	return &Op{Name: "KLen", Tok: "KLen",
		Run: func(r R, x *Exec, op *Op) Res { n, err := r.Key().Len(); return valOrErr(I(n), err) }}
}
func KPersist(key string) *Op {
	return &Op{Name: "KPersist", Tok: "KPersist " + SS(key), Write: true,
		Run: func(r R, x *Exec, op *Op) Res { return errOnly(r.Key().Persist(key)) }}
}
func KRandom() *Op {
	return &Op{Name: "KRandom", Tok: "KRandom n",
		Run: func(r R, x *Exec, op *Op) Res {
			k, err := r.Key().Random()
			if err != nil {
				op.Tok = "KRandom n"
				return errOnly(err)
			}
			op.Tok = "KRandom " + SS(k.Key)
			return ok(KeyRV(k))
		}}
}
func KRename(key, nk string) *Op {
	return &Op{Name: "KRename", Tok: "KRename " + SS(key) + " " + SS(nk), Write: true,
		Run: func(r R, x *Exec, op *Op) Res { return errOnly(r.Key().Rename(key, nk)) }}
}
func KRenameNX(key, nk string) *Op {
	return &Op{Name: "KRenameNX", Tok: "KRenameNX " + SS(key) + " " + SS(nk), Write: true,
		Run: func(r R, x *Exec, op *Op) Res { b, err := r.Key().RenameNotExists(key, nk); return valOrErr(B(b), err) }}
}
func KScan(cursor int, pat string, ktype int, count int) *Op {
	return &Op{Name: "KScan", Tok: fmt.Sprintf("KScan %s %s %s %s", I(cursor), SS(pat), I(ktype), I(count)),
		Run: func(r R, x *Exec, op *Op) Res {
			res, err := r.Key().Scan(cursor, pat, redka.TypeID(ktype), count)
			if err != nil {
				return errOnly(err)
			}
			items := make([]string, len(res.Keys))
			for i, k := range res.Keys {
				items[i] = KeyRV(k)
			}
			return ok(L(I(res.Cursor), L(items...)))
		}}
}

func joinSp(items []string) string {
	var b strings.Builder
	for _, it := range items {
		b.WriteString(" ")
		b.WriteString(it)
	}
	return b.String()
}

// ---------- rstring ----------

func SGet(key string) *Op {
	return &Op{Name: "SGet", Tok: "SGet " + SS(key),
		Run: func(r R, x *Exec, op *Op) Res {
			v, err := r.Str().Get(key)
			if err != nil {
				return errOnly(err)
			}
			return ok(S(v))
		}}
}
func SGetMany(keys ...string) *Op {
	return &Op{Name: "SGetMany", Tok: "SGetMany " + TokStrs(keys),
		Run: func(r R, x *Exec, op *Op) Res {
			m, err := r.Str().GetMany(keys...)
			if err != nil {
				return errOnly(err)
			}
			items := make([]string, 0, len(m))
			for k, v := range m {
				items = append(items, L(SS(k), S(v)))
			}
			return ok(U(items...))
		}}
}
func SIncr(key string, delta int) *Op {
	return &Op{Name: "SIncr", Tok: "SIncr " + SS(key) + " " + I(delta), Write: true,
		Run: func(r R, x *Exec, op *Op) Res { n, err := r.Str().Incr(key, delta); return valOrErr(I(n), err) }}
}

// parseOracle is the strconv.ParseFloat oracle entry for a stored text.
func parseOracle(text []byte) string {
	f, err := strconv.ParseFloat(string(text), 64)
	if err != nil {
		return "( " + S(text) + " n )"
	}
	return "( " + S(text) + " " + F(f) + " )"
}

func SIncrFloat(key string, delta float64) *Op {
	return &Op{Name: "SIncrFloat", Write: true,
		Tok: fmt.Sprintf("SIncrFloat %s %s [ ] s", SS(key), F(delta)),
		Run: func(r R, x *Exec, op *Op) Res {
			cur, _ := r.Str().Get(key)
			f, err := r.Str().IncrFloat(key, delta)
			text := ""
			if err == nil {
				text = strconv.FormatFloat(f, 'f', -1, 64)
			}
			tbl := "[ ]"
			if len(cur) > 0 {
				tbl = "[ " + parseOracle(cur) + " ]"
			}
			op.Tok = fmt.Sprintf("SIncrFloat %s %s %s %s", SS(key), F(delta), tbl, SS(text))
			return valOrErr(F(f), err)
		}}
}
func SSet(key string, v Value) *Op {
	return &Op{Name: "SSet", Tok: "SSet " + SS(key) + " " + v.Tok, Write: true,
		Run: func(r R, x *Exec, op *Op) Res { return errOnly(r.Str().Set(key, v.Go)) }}
}
func SSetExpires(key string, v Value, ttlMs int64) *Op {
	return &Op{Name: "SSetExpires", Tok: fmt.Sprintf("SSetExpires %s %s %s", SS(key), v.Tok, I64(ttlMs)), Write: true,
		RelTTL: []int64{ttlMs},
		Run:    func(r R, x *Exec, op *Op) Res { return errOnly(r.Str().SetExpires(key, v.Go, ms(ttlMs))) }}
}

type KV struct {
	K string
	V Value
}

// SSetMany: items must have distinct keys (a Go map).
func SSetMany(items ...KV) *Op {
	toks := make([]string, len(items))
	m := map[string]any{}
	for i, it := range items {
		toks[i] = "( " + SS(it.K) + " " + it.V.Tok + " )"
		m[it.K] = it.V.Go
	}
	return &Op{Name: "SSetMany", Tok: "SSetMany " + L(toks...), Write: true, MultiMap: len(items) > 1,
		Run: func(r R, x *Exec, op *Op) Res { return errOnly(r.Str().SetMany(m)) },
		Post: func(x *Exec, op *Op) {
			// order the items by the id of their key row
			ord := map[string]int64{}
			for _, it := range items {
				var id int64
				if x.Raw.QueryRow(`select id from rkey where key = ?`, it.K).Scan(&id) == nil {
					ord[it.K] = id
				} else {
					ord[it.K] = 1 << 62
				}
			}
			idx := make([]int, len(items))
			for i := range idx {
				idx[i] = i
			}
			sort.SliceStable(idx, func(a, b int) bool { return ord[items[idx[a]].K] < ord[items[idx[b]].K] })
			t := make([]string, len(items))
			for i, j := range idx {
				t[i] = toks[j]
			}
			op.Tok = "SSetMany " + L(t...)
		}}
}

// SetCall is one builder call on rstring.SetCmd.
type SetCall struct {
	Kind byte // 'X' IfExists, 'N' IfNotExists, 'T' TTL, 'A' At, 'K' KeepTTL
	Arg  int64
	Zero bool // At(time.Time{})
}

func (c SetCall) tok() string {
	switch c.Kind {
	case 'X':
		return "cX"
	case 'N':
		return "cN"
	case 'K':
		return "cK"
	case 'T':
		return "cT" + strconv.FormatInt(c.Arg, 10)
	default:
		if c.Zero {
			return "cAz"
		}
		return "cA" + strconv.FormatInt(c.Arg, 10)
	}
}

func SSetWith(key string, v Value, calls ...SetCall) *Op {
	toks := make([]string, len(calls))
	var ttls []int64
	for i, c := range calls {
		toks[i] = c.tok()
		if c.Kind == 'T' {
			ttls = append(ttls, c.Arg)
		}
	}
	return &Op{Name: "SSetWith", Tok: fmt.Sprintf("SSetWith %s %s %s", SS(key), v.Tok, L(toks...)), Write: true,
		RelTTL: ttls,
		Run: func(r R, x *Exec, op *Op) Res {
			c := r.Str().SetWith(key, v.Go)
			for _, call := range calls {
				switch call.Kind {
				case 'X':
					c = c.IfExists()
				case 'N':
					c = c.IfNotExists()
				case 'K':
					c = c.KeepTTL()
				case 'T':
					c = c.TTL(ms(call.Arg))
				case 'A':
					if call.Zero {
						c = c.At(time.Time{})
					} else {
						c = c.At(time.UnixMilli(call.Arg))
					}
				}
			}
			out, err := c.Run()
			return mk(L(V(out.Prev), B(out.Created), B(out.Updated)), err)
		}}
}

var _ = math.Inf
