package hx

import (
	"context"
	"fmt"
	"math"
	"sort"
	"strings"

	"github.com/nalgeon/redka"
	"github.com/nalgeon/redka/verifhook"
)

// Cursor iterations (C16): a dynamic step feeds the returned cursor back into
// the next scan call until a page comes back empty; every call is an ordinary
// recorded operation (compared with the model page by page).  Afterwards the
// collected elements are compared with the full listing and with what the
// iterator object of the API returns.

var negInf, posInf = math.Inf(-1), math.Inf(1)

type iterState struct {
	owner  *Exec // the execution this state belongs to (a re-execution, e.g. while shrinking, starts afresh)
	cursor int
	done   bool
	pages  int
	items  []string // canonical items in the order returned
}

func multiset(items []string) string {
	s := append([]string(nil), items...)
	sort.Strings(s)
	return strings.Join(s, " ")
}

// KeyIteration scans the keyspace.
func KeyIteration(pat string, ktype, count int) *Step {
	it := &iterState{}
	st := &Step{}
	st.Gen = func(x *Exec) *Op {
		if it.owner != x {
			*it = iterState{owner: x}
		}
		if it.done {
			return nil
		}
		cur := it.cursor
		return &Op{Name: "KScan-iter", Tok: fmt.Sprintf("KScan %s %s %s %s", I(cur), SS(pat), I(ktype), I(count)),
			Run: func(r R, x *Exec, op *Op) Res {
				res, err := r.Key().Scan(cur, pat, redka.TypeID(ktype), count)
				if err != nil {
					it.done = true
					return errOnly(err)
				}
				items := make([]string, len(res.Keys))
				for i, k := range res.Keys {
					items[i] = KeyRV(k)
					it.items = append(it.items, SS(k.Key))
				}
				it.cursor = res.Cursor
				it.pages++
				if len(res.Keys) == 0 {
					it.done = true
				}
				return ok(L(I(res.Cursor), L(items...)))
			}}
	}
	st.Verify = func(x *Exec) string {
		r := verifhook.DB(x.DB)
		// the iterator object must return the same sequence
		sc := r.Key().Scanner(pat, redka.TypeID(ktype), count)
		var viaScanner []string
		for sc.Scan() {
			viaScanner = append(viaScanner, SS(sc.Key().Key))
		}
		if sc.Err() != nil {
			return "key scanner error: " + sc.Err().Error()
		}
		if strings.Join(viaScanner, " ") != strings.Join(it.items, " ") {
			return fmt.Sprintf("key iteration pat=%q type=%d count=%d: scan calls returned [%s], Scanner returned [%s]",
				pat, ktype, count, strings.Join(it.items, " "), strings.Join(viaScanner, " "))
		}
		// every matching live key exactly once: compare with Keys(pattern)
		ks, err := r.Key().Keys(pat)
		if err != nil {
			return "keys error: " + err.Error()
		}
		var want []string
		for _, k := range ks {
			if ktype == 0 || int(k.Type) == ktype {
				want = append(want, SS(k.Key))
			}
		}
		if multiset(want) != multiset(it.items) {
			return fmt.Sprintf("key iteration pat=%q type=%d count=%d returned {%s}, the matching live keys are {%s}",
				pat, ktype, count, multiset(it.items), multiset(want))
		}
		return abortedIteration(x, "key", len(it.items), func(r R) (func() bool, func() error) {
			sc := r.Key().Scanner(pat, redka.TypeID(ktype), count)
			return sc.Scan, sc.Err
		})
	}
	return st
}

// abortedIteration runs the iterator object inside a read-only transaction whose context is
// cancelled after the first element: the iteration either still delivers everything (the pages were
// already fetched) or ends early - and then it must say so through Err(); an incomplete iteration
// that looks like a finished one is ambiguous.
func abortedIteration(x *Exec, what string, full int, mk func(r R) (func() bool, func() error)) string {
	if full < 2 {
		return ""
	}
	ctx, cancel := context.WithCancel(context.Background())
	defer cancel()
	got := 0
	var scanErr error
	_ = x.DB.ViewContext(ctx, func(tx *redka.Tx) error {
		next, errf := mk(verifhook.Tx(tx))
		for next() {
			got++
			if got == 1 {
				cancel()
			}
			if got > full+5 {
				break
			}
		}
		scanErr = errf()
		return nil
	})
	if got < full && scanErr == nil {
		return fmt.Sprintf("%s iteration whose transaction was cancelled after the first element delivered %d of %d elements and reported no error: an aborted iteration looks like a finished one", what, got, full)
	}
	return ""
}

// CollIteration scans a set ('E'), hash ('H') or sorted set ('Z').
func CollIteration(fam byte, key, pat string, count int) *Step {
	it := &iterState{}
	st := &Step{}
	name := map[byte]string{'E': "EScan", 'H': "HScan", 'Z': "ZScan"}[fam]
	st.Gen = func(x *Exec) *Op {
		if it.owner != x {
			*it = iterState{owner: x}
		}
		if it.done {
			return nil
		}
		cur := it.cursor
		return &Op{Name: name + "-iter", Tok: fmt.Sprintf("%s %s %s %s %s", name, SS(key), I(cur), SS(pat), I(count)),
			Run: func(r R, x *Exec, op *Op) Res {
				var items, plain []string
				var next int
				switch fam {
				case 'E':
					res, err := r.Set().Scan(key, cur, pat, count)
					if err != nil {
						it.done = true
						return errOnly(err)
					}
					for _, v := range res.Items {
						items = append(items, S(v))
						plain = append(plain, S(v))
					}
					next = res.Cursor
				case 'H':
					res, err := r.Hash().Scan(key, cur, pat, count)
					if err != nil {
						it.done = true
						return errOnly(err)
					}
					for _, v := range res.Items {
						items = append(items, L(SS(v.Field), S(v.Value)))
						plain = append(plain, SS(v.Field)+"="+S(v.Value))
					}
					next = res.Cursor
				default:
					res, err := r.ZSet().Scan(key, cur, pat, count)
					if err != nil {
						it.done = true
						return errOnly(err)
					}
					for _, v := range res.Items {
						items = append(items, L(S(v.Elem), F(v.Score)))
						plain = append(plain, S(v.Elem)+"="+F(v.Score))
					}
					next = res.Cursor
				}
				it.items = append(it.items, plain...)
				it.cursor = next
				it.pages++
				if len(items) == 0 {
					it.done = true
				}
				return ok(L(I(next), L(items...)))
			}}
	}
	st.Verify = func(x *Exec) string {
		r := verifhook.DB(x.DB)
		var viaScanner, all []string
		switch fam {
		case 'E':
			sc := r.Set().Scanner(key, pat, count)
			for sc.Scan() {
				viaScanner = append(viaScanner, S(sc.Item()))
			}
			if sc.Err() != nil {
				return "set scanner error: " + sc.Err().Error()
			}
			vs, _ := r.Set().Items(key)
			for _, v := range vs {
				all = append(all, S(v))
			}
		case 'H':
			sc := r.Hash().Scanner(key, pat, count)
			for sc.Scan() {
				viaScanner = append(viaScanner, SS(sc.Item().Field)+"="+S(sc.Item().Value))
			}
			if sc.Err() != nil {
				return "hash scanner error: " + sc.Err().Error()
			}
			m, _ := r.Hash().Items(key)
			for f, v := range m {
				all = append(all, SS(f)+"="+S(v))
			}
		default:
			sc := r.ZSet().Scanner(key, pat, count)
			for sc.Scan() {
				viaScanner = append(viaScanner, S(sc.Item().Elem)+"="+F(sc.Item().Score))
			}
			if sc.Err() != nil {
				return "zset scanner error: " + sc.Err().Error()
			}
			vs, _ := r.ZSet().RangeWith(key).ByScore(negInf, posInf).Run()
			for _, v := range vs {
				all = append(all, S(v.Elem)+"="+F(v.Score))
			}
		}
		if strings.Join(viaScanner, " ") != strings.Join(it.items, " ") {
			return fmt.Sprintf("%s iteration key=%q pat=%q count=%d: scan calls returned [%s], Scanner returned [%s]",
				name, key, pat, count, strings.Join(it.items, " "), strings.Join(viaScanner, " "))
		}
		if pat == "*" && multiset(all) != multiset(it.items) {
			return fmt.Sprintf("%s iteration key=%q count=%d returned {%s}, the collection holds {%s}",
				name, key, count, multiset(it.items), multiset(all))
		}
		return abortedIteration(x, name, len(it.items), func(r R) (func() bool, func() error) {
			switch fam {
			case 'E':
				sc := r.Set().Scanner(key, pat, count)
				return sc.Scan, sc.Err
			case 'H':
				sc := r.Hash().Scanner(key, pat, count)
				return sc.Scan, sc.Err
			default:
				sc := r.ZSet().Scanner(key, pat, count)
				return sc.Scan, sc.Err
			}
		})
	}
	return st
}


// IterationAcross iterates a set ('E') or sorted set ('Z') page by page (page size 1) and, after the
// first page, runs one operation that leaves every member a member at every instant (a store of
// the collection into itself, a move of a member from the key to the same key).  Every member is
// therefore present for the whole iteration and must be returned exactly once.  (These
// operations re-create rows under new row ids; a member whose new id is below the cursor is never
// returned, one whose new id is above it is returned again: recorded finding, named by tag.)
func IterationAcross(fam byte, key string, mid func() *Op, tag string) *Step {
	it := &iterState{}
	did := false
	st := &Step{}
	name := map[byte]string{'E': "EScan", 'Z': "ZScan", 'H': "HScan"}[fam]
	st.Gen = func(x *Exec) *Op {
		if it.owner != x {
			*it = iterState{owner: x}
			did = false
		}
		if it.done {
			return nil
		}
		if it.pages == 1 && !did {
			did = true
			return mid()
		}
		cur := it.cursor
		return &Op{Name: name + "-iter", Tok: fmt.Sprintf("%s %s %s %s %s", name, SS(key), I(cur), SS("*"), I(1)),
			Run: func(r R, x *Exec, op *Op) Res {
				var items []string
				var next int
				if fam == 'H' {
					res, err := r.Hash().Scan(key, cur, "*", 1)
					if err != nil {
						it.done = true
						return errOnly(err)
					}
					for _, v := range res.Items {
						items = append(items, L(SS(v.Field), S(v.Value)))
						it.items = append(it.items, SS(v.Field))
					}
					next = res.Cursor
				} else if fam == 'E' {
					res, err := r.Set().Scan(key, cur, "*", 1)
					if err != nil {
						it.done = true
						return errOnly(err)
					}
					for _, v := range res.Items {
						items = append(items, S(v))
						it.items = append(it.items, S(v))
					}
					next = res.Cursor
				} else {
					res, err := r.ZSet().Scan(key, cur, "*", 1)
					if err != nil {
						it.done = true
						return errOnly(err)
					}
					for _, v := range res.Items {
						items = append(items, L(S(v.Elem), F(v.Score)))
						it.items = append(it.items, S(v.Elem))
					}
					next = res.Cursor
				}
				it.cursor = next
				it.pages++
				if len(items) == 0 {
					it.done = true
				}
				return ok(L(I(next), L(items...)))
			}}
	}
	st.Verify = func(x *Exec) string {
		r := verifhook.DB(x.DB)
		var all []string
		if fam == 'H' {
			fs, err := r.Hash().Fields(key)
			if err != nil {
				return "fields: " + err.Error()
			}
			for _, f := range fs {
				all = append(all, SS(f))
			}
		} else if fam == 'E' {
			vs, err := r.Set().Items(key)
			if err != nil {
				return "items: " + err.Error()
			}
			for _, v := range vs {
				all = append(all, S(v))
			}
		} else {
			vs, err := r.ZSet().RangeWith(key).ByScore(negInf, posInf).Run()
			if err != nil {
				return "range: " + err.Error()
			}
			for _, v := range vs {
				all = append(all, S(v.Elem))
			}
		}
		if multiset(all) != multiset(it.items) {
			return fmt.Sprintf("%s: iterating %q page by page with an operation in between that keeps every member a member returned {%s}; the collection held {%s} at every instant",
				tag, key, multiset(it.items), multiset(all))
		}
		return ""
	}
	return st
}
