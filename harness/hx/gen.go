package hx

import (
	"fmt"
	"math"
	"math/rand"
	"os"
	"strconv"
	"strings"
	"time"
)

// Gen generates histories; every random choice comes from one PRNG.
type Gen struct {
	R    *rand.Rand
	Base int64 // harness start time (ms); absolute expiries are whole hours away from it
	Keys []string
	Prof Profile
	// pools (replaced per history by the binary / glob profiles)
	elemP, fieldP, memberP, patP, pat2P []string
}

// Profile selects what a generator draws from.
type Profile struct {
	Name       string
	Families   map[string]int // family -> weight: key str list set hash zset
	MaxSteps   int
	MinSteps   int
	Blocks     bool    // caller-managed transactions
	Expiry     bool    // expiry-related operations and options
	Scan       bool    // cursor iterations as dynamic steps
	Binary     bool    // hostile byte strings in every role
	Glob       bool    // names and patterns from the glob grammar
	BlockProb  float64 // probability that a step is a caller-managed transaction (default 0.15)
	ExpireProb float64 // probability of following a step by an ExpireAt on one of the keys
}

const hour = int64(3600000)

func NewGen(seed int64, prof Profile) *Gen {
	return &Gen{R: rand.New(rand.NewSource(seed)), Base: time.Now().UnixMilli(), Prof: prof,
		Keys: []string{"k1", "k2", "k3"}, elemP: elemPool, fieldP: fieldPool, memberP: memberPool,
		patP: patPool, pat2P: pat2Pool}
}

// hostile byte strings for the binary-safety profile
var hostileBytes = []byte{0x00, 0x0a, 0x0d, 0x20, 0x22, 0x27, '*', '?', '[', ']', '\\', '5', 'a', 0x7f, 0x80, 0xc3, 0xe2, 0xf0, 0xff}

func (g *Gen) hostile() string {
	switch g.pick(10) {
	case 0:
		return string([]byte{byte(g.pick(256))})
	case 1, 2, 3:
		return string([]byte{hostileBytes[g.pick(len(hostileBytes))], hostileBytes[g.pick(len(hostileBytes))]})
	case 4:
		return ""
	case 5:
		n := 1 + g.pick(40)
		b := make([]byte, n)
		for i := range b {
			b[i] = byte(g.pick(256))
		}
		return string(b)
	case 6:
		// a long value (kilobytes)
		n := 1000 + g.pick(3000)
		if os.Getenv("HX_BIG") != "" {
			n = 1000 + g.pick(60000)
			if g.chance(0.02) {
				n = 1<<20 + g.pick(1<<21) // a multi-megabyte value
			}
		}
		b := make([]byte, n)
		for i := range b {
			b[i] = byte(g.pick(256))
		}
		return string(b)
	case 7:
		return []string{"123", "-5", "1.5", "true", "nil", "héllo", "日本", "a\x00b", "\r\n", "k1"}[g.pick(10)]
	default:
		n := 1 + g.pick(4)
		b := make([]byte, n)
		for i := range b {
			b[i] = hostileBytes[g.pick(len(hostileBytes))]
		}
		return string(b)
	}
}

var globAlphabet = []string{"a", "b", "*", "?", "[", "]", "^", "!", "-", "\\", "c"}

func (g *Gen) globName() string {
	n := g.pick(5)
	var b strings.Builder
	for i := 0; i < n; i++ {
		// names: mostly letters, sometimes metacharacters
		if g.chance(0.7) {
			b.WriteString([]string{"a", "b", "c"}[g.pick(3)])
		} else {
			b.WriteString(globAlphabet[g.pick(len(globAlphabet))])
		}
	}
	return b.String()
}

func (g *Gen) globPattern() string {
	n := g.pick(7)
	var b strings.Builder
	for i := 0; i < n; i++ {
		switch g.pick(10) {
		case 0, 1:
			b.WriteString("*")
		case 2:
			b.WriteString("?")
		case 3:
			b.WriteString([]string{"[ab]", "[a-c]", "[^a]", "[!a]", "[", "[]]", "[^]a]", "[a-]", "[b-a]", "[]"}[g.pick(10)])
		default:
			b.WriteString(globAlphabet[g.pick(len(globAlphabet))])
		}
	}
	return b.String()
}

// prepare draws the per-history universes of the binary and glob profiles.
func (g *Gen) prepare() {
	if g.Prof.Binary {
		g.Keys = []string{g.hostile(), g.hostile(), g.hostile()}
		g.elemP = []string{g.hostile(), g.hostile(), g.hostile(), g.hostile(), "", "a\x00", "\xff"}
		g.fieldP = []string{g.hostile(), g.hostile(), g.hostile(), ""}
		g.memberP = []string{g.hostile(), g.hostile(), g.hostile(), g.hostile()}
	}
	if g.Prof.Glob {
		g.Keys = []string{g.globName(), g.globName(), g.globName(), g.globName(), g.globName()}
		g.elemP = []string{g.globName(), g.globName(), g.globName(), g.globName(), g.globName(), g.globName(), g.globName()}
		g.fieldP = []string{g.globName(), g.globName(), g.globName(), g.globName()}
		g.memberP = []string{g.globName(), g.globName(), g.globName(), g.globName()}
		g.patP = nil
		g.pat2P = nil
		for i := 0; i < 12; i++ {
			g.patP = append(g.patP, g.globPattern())
			g.pat2P = append(g.pat2P, g.globPattern())
		}
		g.patP = append(g.patP, "*", g.Keys[0])
		g.pat2P = append(g.pat2P, "*", g.elemP[0])
	}
}

func (g *Gen) pick(n int) int        { return g.R.Intn(n) }
func (g *Gen) chance(p float64) bool { return g.R.Float64() < p }
func (g *Gen) key() string           { return g.Keys[g.pick(len(g.Keys))] }
func (g *Gen) keys(max int) []string {
	n := g.pick(max + 1)
	ks := make([]string, n)
	for i := range ks {
		ks[i] = g.key()
	}
	return ks
}

// future / past absolute times, whole hours away from now
func (g *Gen) future() int64 { return g.Base + hour*int64(1+g.pick(3)) }
func (g *Gen) past() int64   { return g.Base - hour*int64(1+g.pick(3)) }
func (g *Gen) at() int64 {
	if g.chance(0.12) {
		// at or before the epoch; instants whose decimal text has fewer or more digits than the
		// present one and sorts the other way as text (1970 + a day, the year 2300, the year 5138)
		return []int64{0, -100, 1, -3600000, 86400000, 999, 10413792000000, 99999999999999}[g.pick(8)]
	}
	if g.chance(0.7) {
		return g.future()
	}
	return g.past()
}
func (g *Gen) ttl() int64 {
	switch g.pick(8) {
	case 0:
		return 0
	case 1:
		return -5
	case 2:
		return -hour
	default:
		return hour * int64(1+g.pick(3))
	}
}

var strPool = []string{"", "0", "-1", "+5", "05", " 5", "5 ", "-0", "7", "41",
	"9223372036854775807", "-9223372036854775808", "9223372036854775806", "9223372036854775808",
	"1.5", "1e2", "-2.25", "inf", "nan", "0x10", "1_000", "abc", "v", "\x00", "a\x00b", "\xff\xfe", "héllo", "*", "k1"}

func (g *Gen) bytesVal() string {
	if g.chance(0.15) {
		n := g.pick(6)
		b := make([]byte, n)
		for i := range b {
			b[i] = byte(g.pick(256))
		}
		return string(b)
	}
	return strPool[g.pick(len(strPool))]
}

var floatPool = []float64{0, 1, -1, 0.5, 1.5, -2.25, 1e2, 1e21, 1e-7, 0.1, math.Inf(1), math.Inf(-1), 3.0000000000000004}

func (g *Gen) float() float64 { return floatPool[g.pick(len(floatPool))] }

var intPool = []int{0, 1, -1, 5, -7, 100, math.MaxInt64, math.MinInt64, math.MaxInt64 - 1}

func (g *Gen) int() int { return intPool[g.pick(len(intPool))] }

// value draws an `any` argument in one of the Go forms the API accepts.
func (g *Gen) value() Value {
	switch g.pick(20) {
	case 0:
		return VInt(g.int())
	case 1:
		return VBool(g.chance(0.5))
	case 2:
		return VFloat(g.float())
	case 3:
		if g.chance(0.3) {
			return VNil()
		}
		return VBytes([]byte(g.bytesVal()))
	case 4:
		if g.chance(0.3) {
			return VBad()
		}
		return VStr(g.bytesVal())
	case 5, 6, 7:
		return VBytes([]byte(g.bytesVal()))
	default:
		return VStr(g.bytesVal())
	}
}

func (g *Gen) setCalls() []SetCall {
	var cs []SetCall
	n := g.pick(4)
	for i := 0; i < n; i++ {
		switch g.pick(6) {
		case 0:
			cs = append(cs, SetCall{Kind: 'X'})
		case 1:
			cs = append(cs, SetCall{Kind: 'N'})
		case 2:
			if g.Prof.Expiry {
				cs = append(cs, SetCall{Kind: 'T', Arg: g.ttl()})
			}
		case 3:
			if g.Prof.Expiry {
				if g.chance(0.15) {
					cs = append(cs, SetCall{Kind: 'A', Zero: true})
				} else {
					cs = append(cs, SetCall{Kind: 'A', Arg: g.at()})
				}
			}
		case 4:
			cs = append(cs, SetCall{Kind: 'K'})
		default:
		}
	}
	return cs
}

func (g *Gen) strOp() *Op {
	k := g.key()
	switch g.pick(14) {
	case 0, 1:
		return SGet(k)
	case 2:
		return SGetMany(g.keys(4)...)
	case 3, 4:
		return SIncr(k, g.int())
	case 5:
		return SIncrFloat(k, g.float())
	case 6, 7:
		return SSet(k, g.value())
	case 8:
		if g.Prof.Expiry {
			return SSetExpires(k, g.value(), g.ttl())
		}
		return SSet(k, g.value())
	case 9:
		n := g.pick(4)
		seen := map[string]bool{}
		var items []KV
		for i := 0; i < n; i++ {
			kk := g.key()
			if seen[kk] {
				continue
			}
			seen[kk] = true
			items = append(items, KV{kk, g.value()})
		}
		return SSetMany(items...)
	default:
		return SSetWith(k, g.value(), g.setCalls()...)
	}
}

var patPool = []string{"*", "k*", "k?", "k[12]", "k[^1]", "k[!1]", "?2", "k1", "", "[", "k[1-2]", "*1*", "\\k1", "k[]1]"}

func (g *Gen) pattern() string { return g.patP[g.pick(len(g.patP))] }

// renameTarget: another key of the universe, or - now and then - the same name in the other
// letter case (a different name byte-wise; it is renamed back later by the same rule).
func (g *Gen) renameTarget(k string) string {
	if g.chance(0.1) {
		t := strings.ToUpper(k)
		if t == k {
			t = strings.ToLower(k)
		}
		if t != k {
			return t
		}
	}
	return g.key()
}

func (g *Gen) keyOp() *Op {
	k := g.key()
	switch g.pick(22) {
	case 0:
		return KCount(g.keys(4)...)
	case 1, 2:
		return KDelete(g.keys(3)...)
	case 3:
		if g.chance(0.2) {
			return KDeleteAll()
		}
		return KExists(k)
	case 4:
		if g.Prof.Expiry {
			return KDeleteExpired(g.pick(3))
		}
		return KExists(k)
	case 5:
		return KExists(k)
	case 6, 7:
		if g.Prof.Expiry {
			return KExpire(k, g.ttl())
		}
		return KGet(k)
	case 8, 9:
		if g.Prof.Expiry {
			return KExpireAt(k, g.at())
		}
		return KGet(k)
	case 10, 11:
		return KGet(k)
	case 12:
		return KKeys(g.pattern())
	case 13:
		return KLen()
	case 14:
		if g.Prof.Expiry {
			return KPersist(k)
		}
		return KLen()
	case 15:
		return KRandom()
	case 16, 17:
		return KRename(k, g.renameTarget(k))
	case 18:
		return KRenameNX(k, g.renameTarget(k))
	default:
		return KScan(g.pick(4), g.pattern(), g.pick(6), g.pick(4)-1)
	}
}

func (g *Gen) op() *Op {
	total := 0
	for _, w := range g.Prof.Families {
		total += w
	}
	n := g.pick(total)
	for _, fam := range []string{"key", "str", "list", "set", "hash", "zset"} {
		w := g.Prof.Families[fam]
		if n < w {
			return g.famOp(fam)
		}
		n -= w
	}
	return g.keyOp()
}

func (g *Gen) famOp(fam string) *Op {
	switch fam {
	case "str":
		return g.strOp()
	case "list":
		return g.listOp()
	case "set":
		return g.setOp()
	case "hash":
		return g.hashOp()
	case "zset":
		return g.zsetOp()
	default:
		return g.keyOp()
	}
}

// ---- element pools: small universes so that operations collide ----

var elemPool = []string{"a", "b", "c", "", "a\x00", "10", "\xff", "A"}

func (g *Gen) elem() Value {
	e := g.elemP[g.pick(3)]
	if g.chance(0.12) {
		e = g.elemP[g.pick(len(g.elemP))]
	}
	switch g.pick(12) {
	case 0:
		return VBytes([]byte(e))
	case 1:
		if g.chance(0.25) {
			return VNil()
		}
		if g.chance(0.25) {
			return VBad()
		}
		return VInt(g.pick(3))
	case 2:
		// members given as Go bools and floats: stored under their canonical text ("1", "2500000")
		if g.chance(0.4) {
			return VBool(g.chance(0.5))
		}
		if g.chance(0.5) {
			return VFloat([]float64{2500000, 0.00001, 1.5, 1e21, -0.5}[g.pick(5)])
		}
		return VStr(e)
	default:
		return VStr(e)
	}
}
func (g *Gen) elems(max int) []Value {
	n := g.pick(max + 1)
	vs := make([]Value, n)
	for i := range vs {
		vs[i] = g.elem()
	}
	return vs
}

func (g *Gen) index() int {
	switch g.pick(12) {
	case 0:
		return math.MaxInt64
	case 1:
		return math.MinInt64
	case 2:
		return 1 << 40
	default:
		return g.pick(19) - 9
	}
}

func (g *Gen) listOp() *Op {
	k := g.key()
	switch g.pick(27) {
	case 0:
		return LDelete(k, g.elem())
	case 1, 24, 25:
		return LDeleteBack(k, g.elem(), g.pick(4))
	case 2, 26:
		return LDeleteFront(k, g.elem(), g.pick(4))
	case 3, 4:
		return LGet(k, g.index())
	case 5, 6:
		return LInsertAfter(k, g.elem(), g.elem())
	case 7, 8:
		return LInsertBefore(k, g.elem(), g.elem())
	case 9:
		return LLen(k)
	case 10:
		return LPopBack(k)
	case 11:
		return LPopBackPushFront(k, g.key())
	case 12:
		return LPopFront(k)
	case 13, 14, 15:
		return LPushBack(k, g.elem())
	case 16, 17:
		return LPushFront(k, g.elem())
	case 18, 19, 20:
		return LRange(k, g.index(), g.index())
	case 21:
		return LSet(k, g.index(), g.elem())
	default:
		return LTrim(k, g.index(), g.index())
	}
}

var algs = []string{"union", "inter", "diff"}

func (g *Gen) keyList(max int) []string {
	n := g.pick(max + 1)
	ks := make([]string, n)
	for i := range ks {
		ks[i] = g.key()
	}
	return ks
}

func (g *Gen) setOp() *Op {
	k := g.key()
	switch g.pick(22) {
	case 0, 1, 2, 3:
		return EAdd(k, g.elems(3)...)
	case 4, 5:
		return EDelete(k, g.elems(3)...)
	case 6, 7, 8:
		return EAlg(algs[g.pick(3)], g.keyList(3)...)
	case 9, 10, 11:
		return EStore(algs[g.pick(3)], g.key(), g.keyList(3)...)
	case 12:
		return EExists(k, g.elem())
	case 13, 14:
		return EItems(k)
	case 15:
		return ELen(k)
	case 16, 17:
		return EMove(k, g.key(), g.elem())
	case 18:
		return EPop(k)
	case 19:
		return ERandom(k)
	default:
		return EScan(k, g.pick(4), g.pattern2(), g.pick(4)-1)
	}
}

var pat2Pool = []string{"*", "a*", "?", "[ab]", "[^a]", "b", "", "*0"}

func (g *Gen) pattern2() string { return g.pat2P[g.pick(len(g.pat2P))] }

var fieldPool = []string{"f1", "f2", "f3", "", "F1"}

func (g *Gen) field() string {
	if g.chance(0.1) {
		return g.fieldP[3]
	}
	if len(g.fieldP) > 4 && g.chance(0.08) {
		return g.fieldP[4] // a name that differs from another one only in letter case
	}
	return g.fieldP[g.pick(3)]
}
func (g *Gen) fields(max int) []string {
	n := g.pick(max + 1)
	fs := make([]string, n)
	for i := range fs {
		fs[i] = g.field()
	}
	return fs
}
func (g *Gen) hashItems() []KV {
	n := g.pick(4)
	seen := map[string]bool{}
	var items []KV
	for i := 0; i < n; i++ {
		f := g.field()
		if seen[f] {
			continue
		}
		seen[f] = true
		items = append(items, KV{f, g.value()})
	}
	return items
}

func (g *Gen) hashOp() *Op {
	k := g.key()
	switch g.pick(22) {
	case 0, 1:
		return HDelete(k, g.fields(3)...)
	case 2:
		return HExists(k, g.field())
	case 3:
		return HFields(k)
	case 4, 5:
		return HGet(k, g.field())
	case 6:
		return HGetMany(k, g.fields(3)...)
	case 7, 8:
		return HIncr(k, g.field(), g.int())
	case 9:
		return HIncrFloat(k, g.field(), g.float())
	case 10, 11:
		return HItems(k)
	case 12:
		return HLen(k)
	case 13:
		if g.Prof.Glob {
			return HScan(k, g.pick(4), g.pattern2(), g.pick(4)-1)
		}
		return HScan(k, g.pick(4), []string{"*", "f*", "f[12]", "?1", ""}[g.pick(5)], g.pick(4)-1)
	case 14, 15, 16:
		return HSet(k, g.field(), g.value())
	case 17, 18:
		return HSetMany(k, g.hashItems()...)
	case 19, 20:
		return HSetNX(k, g.field(), g.value())
	default:
		return HValues(k)
	}
}

var scorePool = []float64{math.Inf(-1), -1, 0, 0.5, 1, 1, math.Inf(1)}

func (g *Gen) score() float64 {
	if g.chance(0.03) {
		return math.NaN()
	}
	if g.chance(0.05) {
		return math.Copysign(0, -1)
	}
	return scorePool[g.pick(len(scorePool))]
}

var memberPool = []string{"a", "b", "c", "d", "A"}

func (g *Gen) member() Value {
	if g.chance(0.08) {
		return g.elem()
	}
	if len(g.memberP) > 4 && g.chance(0.08) {
		return VStr(g.memberP[4]) // differs from another member only in letter case
	}
	return VStr(g.memberP[g.pick(4)])
}
func (g *Gen) members(max int) []Value {
	n := g.pick(max + 1)
	vs := make([]Value, n)
	for i := range vs {
		vs[i] = g.member()
	}
	return vs
}
func (g *Gen) rank() int {
	if g.chance(0.05) {
		return []int{math.MaxInt64, math.MinInt64}[g.pick(2)]
	}
	return g.pick(9) - 2
}

var aggs = []string{"sum", "min", "max", "default"}

func (g *Gen) zsetOp() *Op {
	k := g.key()
	switch g.pick(30) {
	case 0, 1, 2, 3:
		return ZAdd(k, g.member(), g.score())
	case 4, 5:
		n := g.pick(4)
		seen := map[string]bool{}
		var items []ZV
		for i := 0; i < n; i++ {
			m := g.memberP[g.pick(4)]
			v := VStr(m)
			if g.chance(0.2) {
				// a member given as a Go bool, float or int: stored under its canonical text
				switch g.pick(3) {
				case 0:
					v = VBool(g.chance(0.5))
					m = map[bool]string{true: "1", false: "0"}[v.Go.(bool)]
				case 1:
					f := []float64{2500000, 0.00001, 1.5, 1e21}[g.pick(4)]
					v = VFloat(f)
					m = strconv.FormatFloat(f, 'f', -1, 64)
				default:
					n := g.pick(3)
					v = VInt(n)
					m = strconv.Itoa(n)
				}
			}
			if seen[m] {
				continue
			}
			seen[m] = true
			items = append(items, ZV{v, g.score()})
		}
		return ZAddMany(k, items...)
	case 6:
		return ZCount(k, g.score(), g.score())
	case 7:
		return ZDelete(k, g.members(3)...)
	case 8, 9:
		return ZDeleteRank(k, g.rank(), g.rank())
	case 10:
		return ZDeleteScore(k, g.score(), g.score())
	case 11, 12:
		return ZGetRank(k, g.member(), g.chance(0.5))
	case 13:
		return ZGetScore(k, g.member())
	case 14, 15:
		return ZIncr(k, g.member(), g.score())
	case 16, 17, 18:
		return ZAlg(g.chance(0.5), aggs[g.pick(len(aggs))], g.keyList(3)...)
	case 19, 20, 21:
		return ZStore(g.chance(0.5), aggs[g.pick(len(aggs))], g.key(), g.keyList(3)...)
	case 22:
		return ZLen(k)
	case 23, 24, 25:
		return ZRangeRank(k, g.rank(), g.rank(), g.chance(0.5))
	case 26, 27, 28:
		return ZRangeScore(k, g.score(), g.score(), g.chance(0.5), g.pick(5)-1, g.pick(5)-1)
	default:
		return ZScan(k, g.pick(4), g.pattern2(), g.pick(4)-1)
	}
}

// burst returns a short scripted sequence for the families of the profile:
// duplicates placed out of insertion order in a list followed by counted
// removals from either end; set / sorted-set algebra where a non-first key has
// expired but is still stored.
// scanCases: a pattern, names it matches, names it does not (the glob grammar's corner cases:
// literal brackets outside a class, an escaped star, ranges, negation, the empty pattern).
var scanCases = []struct {
	pat     string
	yes, no []string
}{
	{"m*", []string{"m0", "m1"}, nil},
	{"*]", []string{"a]", "b]"}, []string{"]a"}},
	{"[[]*", []string{"[a", "[b"}, []string{"a["}},
	{"?]?", []string{"a]b"}, []string{"]]"}},
	{"*\\**", []string{"a*b", "*"}, []string{"ab"}},
	{"[a-c]1", []string{"a1", "b1", "c1"}, []string{"d1", "a2"}},
	{"[^x]*", []string{"m0", "a1"}, []string{""}},
	{"[!x]?", []string{"m0"}, []string{"m00"}},
	{"", []string{""}, []string{"m"}},
	{"*", []string{"m0", "", "]"}, nil},
	{"a[1]", []string{"a1"}, []string{"a[1]", "a"}},
	{"a\\[1]", []string{"a[1]"}, []string{"a1"}},
	{"k[bce]y", []string{"kby", "key"}, []string{"kay", "k[bce]y"}},
	{"[]a]", []string{"]", "a"}, []string{"b", "[]a]"}},
	{"[a-]", []string{"a", "-"}, []string{"b"}},
	{"a\\", []string{"a\\"}, []string{"a"}},
	{"[^a-]x", []string{"bx"}, []string{"ax", "-x"}},
	// a literal prefix followed by characters outside the basic plane, and by a byte that is no UTF-8 at all
	{"tag:*", []string{"tag:\xf0\x9f\x98\x80", "tag:\xff", "tag:a", "tag:", "tag:\xef\xbf\xbf\xf0\x9f\x98\x80"}, []string{"tag", "tah:"}},
	{"tag:[^a-z]*", []string{"tag:\xf0\x9f\x98\x80x", "tag:1"}, []string{"tag:a", "tag:"}},
	{"t\xc3\xa9*", []string{"t\xc3\xa9x", "t\xc3\xa9"}, []string{"te", "t\xc3"}},
	// patterns without a star over names of several bytes per character
	{"?", []string{"\xc3\xa9", "a", "\xe6\x97\xa5"}, []string{"ab", ""}},
	{"??", []string{"\xc3\xa9a", "\xe6\x97\xa5\xe6\x9c\xac", "ab"}, []string{"a", "abc"}},
	{"\xc3\xa9", []string{"\xc3\xa9"}, []string{"e", "\xc3"}},
	{"t?", []string{"t\xc3\xa9", "ta"}, []string{"t", "tab"}},
}

// scanBurst fills one collection with more elements than a default page holds (10), the ones the
// pattern matches stored last, and iterates it with the pattern: the page limit must apply to the
// matching elements, not to the stored ones.
func (g *Gen) scanBurst() []*Step {
	c := scanCases[g.pick(len(scanCases))]
	key := g.key()
	fam := []byte{'E', 'H', 'Z'}[g.pick(3)]
	var names []string
	for i := 0; i < 10; i++ {
		names = append(names, fmt.Sprintf("x%d", i))
	}
	if c.pat == "*" {
		names = names[:9]
	}
	names = append(names, c.no...)
	names = append(names, c.yes...)
	st := []*Step{{Ops: []*Op{KDelete(key)}}}
	for i, n := range names {
		switch fam {
		case 'E':
			st = append(st, &Step{Ops: []*Op{EAdd(key, VStr(n))}})
		case 'H':
			st = append(st, &Step{Ops: []*Op{HSet(key, n, VStr("v"))}})
		default:
			st = append(st, &Step{Ops: []*Op{ZAdd(key, VStr(n), float64(i%3))}})
		}
	}
	if g.chance(0.3) {
		// the collection carries a time-to-live that is still far away
		st = append(st, &Step{Ops: []*Op{KExpire(key, hour*int64(1+g.pick(3)))}})
	}
	st = append(st, CollIteration(fam, key, c.pat, []int{0, 1, 3, 10, 11}[g.pick(5)]))
	return st
}

// keyScanBurst builds a keyspace in which keys of one type are separated (in creation order) by
// a run of keys of another type at least as long as the page, and iterates it with that type as
// filter: the page limit must apply to the keys of the requested type, not to the stored ones.
func (g *Gen) keyScanBurst() []*Step {
	mk := func(t int, k string) *Op {
		switch t {
		case 1:
			return SSet(k, VStr("v"))
		case 2:
			return LPushBack(k, VStr("v"))
		case 3:
			return EAdd(k, VStr("v"))
		case 4:
			return HSet(k, "f", VStr("v"))
		default:
			return ZAdd(k, VStr("v"), 1)
		}
	}
	want := 1 + g.pick(5)
	other := 1 + (want+g.pick(4))%5
	small := g.chance(0.5)
	var st []*Step
	st = append(st, &Step{Ops: []*Op{KDelete(g.Keys...)}})
	if small {
		// the three usual keys: wanted, other, wanted - pages of one
		ks := g.Keys
		st = append(st, &Step{Ops: []*Op{mk(want, ks[0])}}, &Step{Ops: []*Op{mk(other, ks[1%len(ks)])}}, &Step{Ops: []*Op{mk(want, ks[2%len(ks)])}})
		st = append(st, KeyIteration("*", want, 1), KeyIteration(g.pattern(), want, 1))
		return st
	}
	// a run of 11 other keys between two wanted ones - default pages (10)
	st = append(st, &Step{Ops: []*Op{mk(want, "w-first")}})
	for i := 0; i < 11; i++ {
		st = append(st, &Step{Ops: []*Op{mk(other, fmt.Sprintf("o%02d", i))}})
	}
	st = append(st, &Step{Ops: []*Op{mk(want, "w-last")}})
	st = append(st, KeyIteration("*", want, []int{0, 10, 3}[g.pick(3)]), KeyIteration("w*", 0, 0))
	// leave the usual small keyspace behind
	var names []string
	for i := 0; i < 11; i++ {
		names = append(names, fmt.Sprintf("o%02d", i))
	}
	st = append(st, &Step{Ops: []*Op{KDelete(append(names, "w-first", "w-last")...)}})
	return st
}

// midIterationBurst: an iteration page by page during which an element that has already been
// returned (or one still to come) is UPDATED in place - a new score, a new field value, a member
// added again.  The element is present throughout, under the same row: it is returned exactly once.
func (g *Gen) midIterationBurst() []*Step {
	key := g.key()
	fam := []byte{'E', 'H', 'Z'}[g.pick(3)]
	n := 3 + g.pick(4)
	target := fmt.Sprintf("m%d", g.pick(n)) // first, middle or last in row order
	st := []*Step{{Ops: []*Op{KDelete(key)}}}
	for i := 0; i < n; i++ {
		name := fmt.Sprintf("m%d", i)
		switch fam {
		case 'E':
			st = append(st, &Step{Ops: []*Op{EAdd(key, VStr(name))}})
		case 'H':
			st = append(st, &Step{Ops: []*Op{HSet(key, name, VStr("v"))}})
		default:
			st = append(st, &Step{Ops: []*Op{ZAdd(key, VStr(name), float64(i))}})
		}
	}
	other := "m0" // a second element for the multi-element forms (a Go map: distinct names)
	if target == other {
		other = "m1"
	}
	var mid func() *Op
	switch fam {
	case 'E':
		mid = func() *Op { return EAdd(key, VStr(target), VStr(other)) }
	case 'H':
		if g.chance(0.5) {
			mid = func() *Op { return HSet(key, target, VStr("changed")) }
		} else {
			mid = func() *Op { return HSetMany(key, KV{K: target, V: VStr("1")}, KV{K: other, V: VStr("2")}) }
		}
	default:
		switch g.pick(3) {
		case 0:
			mid = func() *Op { return ZAdd(key, VStr(target), 100) }
		case 1:
			mid = func() *Op { return ZIncr(key, VStr(target), 50) }
		default:
			mid = func() *Op { return ZAddMany(key, ZV{V: VStr(target), Score: -1}, ZV{V: VStr(other), Score: 77}) }
		}
	}
	return append(st, IterationAcross(fam, key, mid, "iteration"))
}

// systematicBurst: situations that stored changes once hit only by a lucky draw, now built on
// purpose (the sweep of all stored changes is the regression test for them).
func (g *Gen) systematicBurst() []*Step {
	fam := func(f string) bool { return g.Prof.Families[f] > 0 }
	steps := func(ops ...*Op) []*Step {
		var st []*Step
		for _, o := range ops {
			st = append(st, &Step{Ops: []*Op{o}})
		}
		return st
	}
	var kinds []string
	if fam("zset") {
		kinds = append(kinds, "ties")
	}
	if g.Prof.Expiry {
		for _, f := range []string{"list", "set", "hash", "zset", "str"} {
			if fam(f) {
				kinds = append(kinds, "expired-"+f)
			}
		}
	}
	if g.Prof.Scan {
		kinds = append(kinds, "default-page")
	}
	if fam("key") || g.Prof.Binary {
		kinds = append(kinds, "like-names")
	}
	if g.Prof.Scan || g.Prof.Glob {
		kinds = append(kinds, "case-prefix")
	}
	for _, f := range []string{"set", "hash", "zset"} {
		if fam(f) && !g.Prof.Scan {
			kinds = append(kinds, "big-"+f)
		}
	}
	if g.Prof.Binary || fam("set") || fam("zset") || fam("list") {
		kinds = append(kinds, "empty-member")
	}
	if len(kinds) == 0 {
		return nil
	}
	k, k2 := g.Keys[0], g.Keys[1%len(g.Keys)]
	switch kind := kinds[g.pick(len(kinds))]; {
	case kind == "ties":
		// equal scores, inserted against the byte order of the members (and one moved into the
		// tie group later); then ranks that cut through the group
		names := [][]string{{"c", "a", "b"}, {"b", "c", "a"}, {"z", "m", "a", "k"}}[g.pick(3)]
		ops := []*Op{KDelete(k)}
		for _, n := range names {
			ops = append(ops, ZAdd(k, VStr(n), 1))
		}
		ops = append(ops, ZAdd(k, VStr("late"), 5), ZAdd(k, VStr("late"), 1))
		a, b := g.pick(3), g.pick(3)
		switch g.pick(5) {
		case 0:
			ops = append(ops, ZDeleteRank(k, a, a), ZRangeRank(k, 0, -1, false))
		case 1:
			ops = append(ops, ZDeleteRank(k, a, a+b), ZRangeRank(k, 0, -1, true))
		case 2:
			ops = append(ops, ZRangeRank(k, a, a+b, g.chance(0.5)), ZGetRank(k, VStr(names[0]), false), ZGetRank(k, VStr(names[1]), true))
		case 3:
			ops = append(ops, ZRangeScore(k, 1, 1, g.chance(0.5), a, 1+b), ZRangeScore(k, 0, 9, false, a, -1))
		default:
			ops = append(ops, ZGetRank(k, VStr("late"), false), ZDeleteRank(k, 1, 2), ZGetRank(k, VStr("late"), true), ZRangeRank(k, 0, -1, false))
		}
		return steps(ops...)
	case strings.HasPrefix(kind, "expired-"):
		// a collection that has expired but is still stored, then an operation that would find
		// its elements: it must see nothing and leave no trace
		past := g.past()
		var build, probes []*Op
		switch kind {
		case "expired-list":
			build = []*Op{LPushBack(k, VStr("a")), LPushBack(k, VStr("b")), LPushBack(k, VStr("a"))}
			probes = []*Op{LDelete(k, VStr("a")), LDeleteFront(k, VStr("a"), 1), LDeleteBack(k, VStr("a"), 2), LSet(k, 0, VStr("v")), LTrim(k, 0, 0),
				LPopFront(k), LPopBack(k), LInsertBefore(k, VStr("b"), VStr("x")), LInsertAfter(k, VStr("a"), VStr("x")), LRange(k, 0, -1), LLen(k), LGet(k, -1), LPopBackPushFront(k, k2)}
		case "expired-set":
			build = []*Op{EAdd(k, VStr("a"), VStr("b"))}
			probes = []*Op{EDelete(k, VStr("a")), EMove(k, k2, VStr("a")), EExists(k, VStr("a")), ELen(k), EItems(k), EAlg("union", k, k2), EStore("inter", k2, k, k)}
		case "expired-hash":
			build = []*Op{HSet(k, "f", VStr("5")), HSet(k, "g", VStr("x"))}
			probes = []*Op{HDelete(k, "f"), HIncr(k, "f", 1), HGet(k, "f"), HLen(k), HFields(k), HSet(k, "f", VStr("n"))}
		case "expired-zset":
			build = []*Op{ZAdd(k, VStr("a"), 1), ZAdd(k, VStr("b"), 2)}
			probes = []*Op{ZDelete(k, VStr("a")), ZDeleteRank(k, 0, 0), ZDeleteScore(k, 0, 5), ZIncr(k, VStr("a"), 1), ZGetRank(k, VStr("a"), false), ZLen(k),
				ZRangeRank(k, 0, -1, false), ZGetScore(k, VStr("b")), ZAlg(true, "sum", k, k), ZStore(false, "sum", k2, k)}
		default:
			build = []*Op{SSet(k, VStr("5"))}
			probes = []*Op{SIncr(k, 1), SGet(k), KPersist(k), KExpire(k, hour), KRename(k, k2), KExists(k), KGet(k)}
		}
		var ops []*Op
		for i := 0; i < 3; i++ {
			ops = append(ops, KDelete(k, k2))
			ops = append(ops, build...)
			ops = append(ops, KExpireAt(k, past), probes[g.pick(len(probes))])
		}
		return steps(ops...)
	case strings.HasPrefix(kind, "big-"):
		// one call that adds several hundred elements, one call that removes most of them (and
		// names some that are not there): counts and lengths must add up
		n := 520 + g.pick(200)
		var vals []Value
		var fields []string
		var kvs []KV
		var zvs []ZV
		for i := 0; i < n; i++ {
			name := fmt.Sprintf("e%03d", i)
			vals = append(vals, VStr(name))
			fields = append(fields, name)
			kvs = append(kvs, KV{K: name, V: VStr("v")})
			zvs = append(zvs, ZV{V: VStr(name), Score: float64(i % 7)})
		}
		cut := 20 + g.pick(40)
		gone := append(append([]Value{}, vals[:n-cut]...), VStr("absent-1"), VStr("absent-2"))
		goneF := append(append([]string{}, fields[:n-cut]...), "absent-1")
		if g.chance(0.5) {
			// ... the absent ones last, so that the last part of the call removes nothing
			for i := 0; i < 510; i++ {
				gone = append(gone, VStr(fmt.Sprintf("never-%d", i)))
				goneF = append(goneF, fmt.Sprintf("never-%d", i))
			}
		}
		switch kind {
		case "big-set":
			return steps(KDelete(k), EAdd(k, vals...), ELen(k), EDelete(k, gone...), ELen(k), EItems(k))
		case "big-hash":
			return steps(KDelete(k), HSetMany(k, kvs...), HLen(k), HDelete(k, goneF...), HLen(k), HFields(k))
		default:
			return steps(KDelete(k), ZAddMany(k, zvs...), ZLen(k), ZDelete(k, gone...), ZLen(k), ZRangeRank(k, 0, -1, false))
		}
	case kind == "empty-member":
		// the empty byte string as an element, spelled "" and as a nil slice, in every role
		switch g.pick(4) {
		case 0:
			return steps(KDelete(k), EAdd(k, VStr(""), VStr("a")), EExists(k, VNil()), EExists(k, VStr("")), EExists(k, VBytes([]byte{})), EDelete(k, VNil()), EExists(k, VStr("")), EAdd(k, VNil()), EItems(k), EMove(k, k2, VNil()), EItems(k2))
		case 1:
			return steps(KDelete(k), ZAdd(k, VStr(""), 1), ZAdd(k, VStr("a"), 2), ZGetScore(k, VNil()), ZGetRank(k, VNil(), false), ZIncr(k, VNil(), 2), ZDelete(k, VNil()), ZGetScore(k, VStr("")), ZAdd(k, VNil(), 3), ZRangeRank(k, 0, -1, false))
		case 2:
			return steps(KDelete(k), LPushBack(k, VStr("")), LPushBack(k, VStr("a")), LPushBack(k, VNil()), LDelete(k, VNil()), LRange(k, 0, -1), LPushFront(k, VNil()), LInsertBefore(k, VNil(), VStr("x")), LInsertAfter(k, VStr(""), VNil()), LSet(k, 0, VNil()), LRange(k, 0, -1))
		default:
			return steps(KDelete(k), SSet(k, VNil()), SGet(k), HSet(k2, "", VNil()), HGet(k2, ""), HSetNX(k2, "", VStr("x")), HDelete(k2, ""), SSet(k, VStr("")), SIncr(k, 1))
		}
	case kind == "case-prefix":
		// key names that differ from a prefix only in letter case, or only at a position where the
		// prefix has "_" or "%": a prefix pattern selects by bytes
		names := []string{"ab", "Ab", "ABc", "abc", "aBd", "a_c", "axc", "a%c", "AB"}
		ops := []*Op{KDelete(names...)}
		for _, n := range names {
			ops = append(ops, SSet(n, VStr("v")))
		}
		st := steps(ops...)
		pat := []string{"ab*", "A*", "a_*", "a%*", "AB*", "a*", "*b*", "*B*", "*ab*", "*_c*", "*B", "*c"}[g.pick(12)]
		st = append(st, steps(KKeys(pat))...)
		st = append(st, KeyIteration(pat, 0, []int{0, 1, 2, 5}[g.pick(4)]))
		return append(st, steps(KDelete(names...))...)
	case kind == "default-page":
		// more elements than the default page holds (10), iterated with the default page size
		fm := []byte{'E', 'H', 'Z'}[g.pick(3)]
		n := 11 + g.pick(15)
		st := steps(KDelete(k))
		for i := 0; i < n; i++ {
			name := fmt.Sprintf("m%02d", i)
			switch fm {
			case 'E':
				st = append(st, &Step{Ops: []*Op{EAdd(k, VStr(name))}})
			case 'H':
				st = append(st, &Step{Ops: []*Op{HSet(k, name, VStr("v"))}})
			default:
				st = append(st, &Step{Ops: []*Op{ZAdd(k, VStr(name), float64(i%4))}})
			}
		}
		if g.chance(0.4) {
			st = append(st, &Step{Ops: []*Op{KExpire(k, hour*int64(1+g.pick(3)))}})
		}
		return append(st, CollIteration(fm, k, []string{"*", "m*", "m1*"}[g.pick(3)], 0))
	default:
		// names that are patterns to LIKE, and names that differ only in letter case - all with
		// a time-to-live, then by-name operations on one of them: the twins must not move
		names := []string{"a_c", "abc", "ABC", "a%c", "aXc", "a%"}
		var ops []*Op
		ops = append(ops, KDelete(names...))
		for i, n := range names {
			ops = append(ops, SSet(n, VStr(fmt.Sprint(i))), KExpire(n, hour*int64(1+i)))
		}
		target := []string{"a_c", "a%c", "AbC", "a%", "ABC"}[g.pick(5)]
		switch g.pick(6) {
		case 0:
			ops = append(ops, KPersist(target))
		case 1:
			ops = append(ops, KExpire(target, 5*hour))
		case 2:
			ops = append(ops, KDelete(target))
		case 3:
			ops = append(ops, KRename(target, "renamed"))
		case 4:
			ops = append(ops, SIncr(target, 1))
		default:
			ops = append(ops, KExists(target), SGet(target))
		}
		for _, n := range names {
			ops = append(ops, KGet(n))
		}
		return steps(ops...)
	}
}

func (g *Gen) burst() []*Step {
	if g.Prof.Scan && !g.Prof.Glob && !g.Prof.Binary && g.chance(0.3) {
		return g.keyScanBurst()
	}
	if g.Prof.Scan && g.chance(0.2) {
		return g.midIterationBurst()
	}
	if g.Prof.Scan && g.chance(0.6) {
		return g.scanBurst()
	}
	if g.chance(0.5) {
		if st := g.systematicBurst(); st != nil {
			return st
		}
	}
	var ops []*Op
	k1, k2 := g.Keys[0], g.Keys[1%len(g.Keys)]
	x, y := VStr(g.elemP[0]), VStr(g.elemP[1])
	switch {
	case g.Prof.Families["list"] > 0 && g.chance(0.12):
		// midpoint exhaustion: inserts at one pivot halve the gap between two positions until the
		// midpoint coincides with a neighbour (after 52 halvings); from then on the insert is
		// refused with nothing changed, and everything before it must still be in order
		ops = []*Op{KDelete(k1), LPushBack(k1, x), LPushBack(k1, y)}
		// (towards the position 1.0 of the second element: next to 0 the halving could go on for
		// a thousand steps)
		for i := 0; i < 56; i++ {
			ops = append(ops, LInsertBefore(k1, y, VStr(fmt.Sprintf("m%d", i))))
		}
		ops = append(ops, LInsertAfter(k1, x, VStr("after-first")))
		ops = append(ops, LRange(k1, 0, -1), LSet(k1, 3, VStr("set")), LPopBack(k1), LLen(k1), LRange(k1, 0, 5))
	case g.Prof.Families["list"] > 0 && g.chance(0.5):
		ops = []*Op{LPushFront(k1, x), LPushBack(k1, x), LPushFront(k1, y), LPushFront(k1, x), LPushBack(k1, y),
			LDeleteBack(k1, x, 1+g.pick(2)), LRange(k1, 0, -1), LDeleteFront(k1, x, 1), LRange(k1, 0, -1)}
	case g.Prof.Families["set"] > 0 && g.Prof.Expiry && g.chance(0.6):
		ops = []*Op{EAdd(k1, VStr("a"), VStr("b"), VStr("c")), EAdd(k2, VStr("b"), VStr("c")), KExpireAt(k2, g.past()),
			EAlg("diff", k1, k2), EAlg("inter", k1, k2), EAlg("union", k1, k2), EStore("diff", g.key(), k1, k2)}
	case g.Prof.Families["zset"] > 0 && g.Prof.Expiry:
		ops = []*Op{ZAdd(k1, VStr("a"), 1), ZAdd(k1, VStr("b"), 2), ZAdd(k2, VStr("b"), 5), KExpireAt(k2, g.past()),
			ZAlg(false, "sum", k1, k2), ZAlg(true, "sum", k1, k2), ZStore(false, "max", g.key(), k1, k2)}
	default:
		return nil
	}
	var st []*Step
	for _, o := range ops {
		st = append(st, &Step{Ops: []*Op{o}})
	}
	return st
}

func (g *Gen) scanPat() string {
	if g.chance(0.5) {
		return "*"
	}
	if !g.Prof.Glob && !g.Prof.Binary && g.chance(0.5) {
		// patterns that hit the default field / member names
		return []string{"f[12]", "f?", "f*", "[fg]1", "a", "[a-c]", "?", "f1"}[g.pick(8)]
	}
	return g.pattern2()
}

// txOK reports whether the operation exists at Tx level.
func txOK(op *Op) bool { return op.RunDB == nil && !op.MultiMap }

func (g *Gen) History(id int) *History {
	h := &History{ID: id, Tag: g.Prof.Name}
	g.prepare()
	n := g.Prof.MinSteps + g.pick(g.Prof.MaxSteps-g.Prof.MinSteps+1)
	for i := 0; i < n; i++ {
		bp := g.Prof.BlockProb
		if bp == 0 {
			bp = 0.15
		}
		if g.Prof.ExpireProb > 0 && g.chance(g.Prof.ExpireProb) {
			h.Steps = append(h.Steps, &Step{Ops: []*Op{KExpireAt(g.key(), g.at())}})
		}
		if g.chance(0.04) || g.Prof.Scan && g.chance(0.03) {
			// bursts that set up situations single random draws rarely reach
			h.Steps = append(h.Steps, g.burst()...)
			continue
		}
		if g.Prof.Scan && g.chance(0.12) {
			count := []int{0, 1, 2, 3, 5, -1}[g.pick(6)]
			switch g.pick(4) {
			case 0:
				h.Steps = append(h.Steps, KeyIteration(g.pattern(), g.pick(6), count))
			case 1:
				h.Steps = append(h.Steps, CollIteration('E', g.key(), g.scanPat(), count))
			case 2:
				h.Steps = append(h.Steps, CollIteration('H', g.key(), g.scanPat(), count))
			default:
				h.Steps = append(h.Steps, CollIteration('Z', g.key(), g.scanPat(), count))
			}
			continue
		}
		if g.Prof.Blocks && g.chance(bp) {
			st := &Step{Block: true, StopOnErr: g.chance(0.6)}
			m := 1 + g.pick(4)
			for j := 0; j < m; j++ {
				op := g.op()
				for !txOK(op) {
					op = g.op()
				}
				st.Ops = append(st.Ops, op)
			}
			h.Steps = append(h.Steps, st)
		} else {
			h.Steps = append(h.Steps, &Step{Ops: []*Op{g.op()}})
		}
	}
	h.Number()
	return h
}

// Number records every step's and operation's position, so that a shrunk
// history can be named by the positions it keeps.
func (h *History) Number() {
	for i, st := range h.Steps {
		st.Idx = i
		st.OpIdx = make([]int, len(st.Ops))
		for j := range st.Ops {
			st.OpIdx[j] = j
		}
	}
}

// Keep lists, per remaining step, its original index followed by the original
// indices of its remaining operations.
func (h *History) Keep() [][]int {
	var k [][]int
	for _, st := range h.Steps {
		k = append(k, append([]int{st.Idx}, st.OpIdx...))
	}
	return k
}

// Select rebuilds the sub-history named by keep.
func (h *History) Select(keep [][]int) *History {
	out := &History{ID: h.ID, Tag: h.Tag}
	for _, k := range keep {
		src := h.Steps[k[0]]
		ns := &Step{Block: src.Block, StopOnErr: src.StopOnErr, Idx: src.Idx}
		for _, oi := range k[1:] {
			ns.Ops = append(ns.Ops, src.Ops[oi])
			ns.OpIdx = append(ns.OpIdx, oi)
		}
		out.Steps = append(out.Steps, ns)
	}
	return out
}

// Profiles are the named generator configurations.
var Profiles = map[string]Profile{
	"str":     {Name: "str", Families: map[string]int{"str": 8, "key": 2}, MinSteps: 5, MaxSteps: 60, Blocks: true, Expiry: true},
	"key":     {Name: "key", Families: map[string]int{"str": 3, "key": 7}, MinSteps: 5, MaxSteps: 60, Blocks: true, Expiry: true},
	"list":    {Name: "list", Families: map[string]int{"list": 10, "key": 1}, MinSteps: 5, MaxSteps: 60, Blocks: true, Expiry: true, ExpireProb: 0.06},
	"set":     {Name: "set", Families: map[string]int{"set": 10, "key": 1}, MinSteps: 5, MaxSteps: 60, Blocks: true, Expiry: true, ExpireProb: 0.06},
	"hash":    {Name: "hash", Families: map[string]int{"hash": 10, "key": 1}, MinSteps: 5, MaxSteps: 60, Blocks: true, Expiry: true, ExpireProb: 0.06},
	"zset":    {Name: "zset", Families: map[string]int{"zset": 10, "key": 1}, MinSteps: 5, MaxSteps: 60, Blocks: true, Expiry: true, ExpireProb: 0.06},
	"expiry":  {Name: "expiry", Families: map[string]int{"str": 2, "list": 2, "set": 2, "hash": 2, "zset": 2, "key": 4}, MinSteps: 5, MaxSteps: 80, Blocks: true, Expiry: true, ExpireProb: 0.25},
	"txmix":   {Name: "txmix", Families: map[string]int{"str": 2, "list": 3, "set": 2, "hash": 2, "zset": 2, "key": 2}, MinSteps: 3, MaxSteps: 40, Blocks: true, Expiry: true, BlockProb: 0.6},
	"refuse":  {Name: "refuse", Families: map[string]int{"str": 2, "list": 2, "set": 2, "hash": 2, "zset": 2, "key": 1}, MinSteps: 5, MaxSteps: 60, Blocks: true, Expiry: false, BlockProb: 0.3},
	"scan":    {Name: "scan", Families: map[string]int{"str": 1, "list": 1, "set": 4, "hash": 4, "zset": 4, "key": 3}, MinSteps: 10, MaxSteps: 70, Blocks: true, Expiry: true, Scan: true},
	"binary":  {Name: "binary", Families: map[string]int{"str": 3, "list": 2, "set": 2, "hash": 3, "zset": 2, "key": 3}, MinSteps: 5, MaxSteps: 50, Blocks: true, Expiry: false, Binary: true, Scan: true},
	"glob":    {Name: "glob", Families: map[string]int{"str": 3, "set": 2, "hash": 2, "zset": 2, "key": 6}, MinSteps: 10, MaxSteps: 60, Blocks: false, Expiry: false, Glob: true, Scan: true},
	"expcoll": {Name: "expcoll", Families: map[string]int{"set": 5, "zset": 5, "list": 2, "hash": 2, "key": 3}, MinSteps: 8, MaxSteps: 60, Blocks: true, Expiry: true, ExpireProb: 0.3},
	"mixed":   {Name: "mixed", Families: map[string]int{"str": 2, "list": 2, "set": 2, "hash": 2, "zset": 2, "key": 3}, MinSteps: 5, MaxSteps: 80, Blocks: true, Expiry: true},
}

// Regenerate reproduces history number hid of a seeded run.
func Regenerate(profile string, seed int64, hid int) (*History, bool) {
	prof, ok := Profiles[profile]
	if !ok {
		return nil, false
	}
	g := NewGen(seed, prof)
	var h *History
	for i := 0; i <= hid; i++ {
		h = g.History(i)
	}
	return h, true
}
