package hx

import (
	"fmt"
	"sort"
	"strconv"

	"github.com/nalgeon/redka"
)

func vals(vs []redka.Value) string {
	items := make([]string, len(vs))
	for i, v := range vs {
		items[i] = S(v)
	}
	return L(items...)
}
func valsU(vs []redka.Value) string {
	items := make([]string, len(vs))
	for i, v := range vs {
		items[i] = S(v)
	}
	return U(items...)
}
func tokVals(vs []Value) (string, []any) {
	toks := make([]string, len(vs))
	gos := make([]any, len(vs))
	for i, v := range vs {
		toks[i] = v.Tok
		gos[i] = v.Go
	}
	return L(toks...), gos
}

// ---------- rlist ----------

func LDelete(key string, v Value) *Op {
	return &Op{Name: "LDelete", Tok: "LDelete " + SS(key) + " " + v.Tok, Write: true,
		Run: func(r R, x *Exec, op *Op) Res { n, err := r.List().Delete(key, v.Go); return valOrErr(I(n), err) }}
}
func LDeleteBack(key string, v Value, count int) *Op {
	return &Op{Name: "LDeleteBack", Tok: fmt.Sprintf("LDeleteBack %s %s %s", SS(key), v.Tok, I(count)), Write: true,
		Run: func(r R, x *Exec, op *Op) Res {
			n, err := r.List().DeleteBack(key, v.Go, count)
			return valOrErr(I(n), err)
		}}
}
func LDeleteFront(key string, v Value, count int) *Op {
	return &Op{Name: "LDeleteFront", Tok: fmt.Sprintf("LDeleteFront %s %s %s", SS(key), v.Tok, I(count)), Write: true,
		Run: func(r R, x *Exec, op *Op) Res {
			n, err := r.List().DeleteFront(key, v.Go, count)
			return valOrErr(I(n), err)
		}}
}
func LGet(key string, idx int) *Op {
	return &Op{Name: "LGet", Tok: "LGet " + SS(key) + " " + I(idx),
		Run: func(r R, x *Exec, op *Op) Res {
			v, err := r.List().Get(key, idx)
			if err != nil {
				return errOnly(err)
			}
			return ok(S(v))
		}}
}
func LInsertAfter(key string, pivot, elem Value) *Op {
	return &Op{Name: "LInsertAfter", Tok: fmt.Sprintf("LInsertAfter %s %s %s", SS(key), pivot.Tok, elem.Tok), Write: true,
		Run: func(r R, x *Exec, op *Op) Res {
			n, err := r.List().InsertAfter(key, pivot.Go, elem.Go)
			return mk(I(n), err)
		}}
}
func LInsertBefore(key string, pivot, elem Value) *Op {
	return &Op{Name: "LInsertBefore", Tok: fmt.Sprintf("LInsertBefore %s %s %s", SS(key), pivot.Tok, elem.Tok), Write: true,
		Run: func(r R, x *Exec, op *Op) Res {
			n, err := r.List().InsertBefore(key, pivot.Go, elem.Go)
			return mk(I(n), err)
		}}
}
func LLen(key string) *Op {
	return &Op{Name: "LLen", Tok: "LLen " + SS(key),
		Run: func(r R, x *Exec, op *Op) Res { n, err := r.List().Len(key); return valOrErr(I(n), err) }}
}
func LPopBack(key string) *Op {
	return &Op{Name: "LPopBack", Tok: "LPopBack " + SS(key), Write: true,
		Run: func(r R, x *Exec, op *Op) Res {
			v, err := r.List().PopBack(key)
			if err != nil {
				return errOnly(err)
			}
			return ok(S(v))
		}}
}
func LPopBackPushFront(src, dest string) *Op {
	return &Op{Name: "LPopBackPushFront", Tok: "LPopBackPushFront " + SS(src) + " " + SS(dest), Write: true,
		Run: func(r R, x *Exec, op *Op) Res {
			v, err := r.List().PopBackPushFront(src, dest)
			if err != nil && v == nil {
				return errOnly(err)
			}
			return mk(S(v), err)
		}}
}
func LPopFront(key string) *Op {
	return &Op{Name: "LPopFront", Tok: "LPopFront " + SS(key), Write: true,
		Run: func(r R, x *Exec, op *Op) Res {
			v, err := r.List().PopFront(key)
			if err != nil {
				return errOnly(err)
			}
			return ok(S(v))
		}}
}
func LPushBack(key string, v Value) *Op {
	return &Op{Name: "LPushBack", Tok: "LPushBack " + SS(key) + " " + v.Tok, Write: true,
		Run: func(r R, x *Exec, op *Op) Res { n, err := r.List().PushBack(key, v.Go); return valOrErr(I(n), err) }}
}
func LPushFront(key string, v Value) *Op {
	return &Op{Name: "LPushFront", Tok: "LPushFront " + SS(key) + " " + v.Tok, Write: true,
		Run: func(r R, x *Exec, op *Op) Res { n, err := r.List().PushFront(key, v.Go); return valOrErr(I(n), err) }}
}
func LRange(key string, start, stop int) *Op {
	return &Op{Name: "LRange", Tok: fmt.Sprintf("LRange %s %s %s", SS(key), I(start), I(stop)),
		Run: func(r R, x *Exec, op *Op) Res {
			vs, err := r.List().Range(key, start, stop)
			if err != nil {
				return errOnly(err)
			}
			return ok(vals(vs))
		}}
}
func LSet(key string, idx int, v Value) *Op {
	return &Op{Name: "LSet", Tok: fmt.Sprintf("LSet %s %s %s", SS(key), I(idx), v.Tok), Write: true,
		Run: func(r R, x *Exec, op *Op) Res { return errOnly(r.List().Set(key, idx, v.Go)) }}
}
func LTrim(key string, start, stop int) *Op {
	return &Op{Name: "LTrim", Tok: fmt.Sprintf("LTrim %s %s %s", SS(key), I(start), I(stop)), Write: true,
		Run: func(r R, x *Exec, op *Op) Res { n, err := r.List().Trim(key, start, stop); return valOrErr(I(n), err) }}
}

// ---------- rset ----------

func EAdd(key string, vs ...Value) *Op {
	tok, gos := tokVals(vs)
	return &Op{Name: "EAdd", Tok: "EAdd " + SS(key) + " " + tok, Write: true,
		Run: func(r R, x *Exec, op *Op) Res { n, err := r.Set().Add(key, gos...); return valOrErr(I(n), err) }}
}
func EDelete(key string, vs ...Value) *Op {
	tok, gos := tokVals(vs)
	return &Op{Name: "EDelete", Tok: "EDelete " + SS(key) + " " + tok, Write: true,
		Run: func(r R, x *Exec, op *Op) Res { n, err := r.Set().Delete(key, gos...); return valOrErr(I(n), err) }}
}
func EAlg(alg string, keys ...string) *Op {
	return &Op{Name: "EAlg-" + alg, Tok: "EAlg " + alg + " " + TokStrs(keys),
		Run: func(r R, x *Exec, op *Op) Res {
			var vs []redka.Value
			var err error
			switch alg {
			case "union":
				vs, err = r.Set().Union(keys...)
			case "inter":
				vs, err = r.Set().Inter(keys...)
			default:
				vs, err = r.Set().Diff(keys...)
			}
			if err != nil {
				return errOnly(err)
			}
			return ok(valsU(vs))
		}}
}
func EStore(alg string, dest string, keys ...string) *Op {
	return &Op{Name: "EStore-" + alg, Tok: "EStore " + alg + " " + SS(dest) + " " + TokStrs(keys), Write: true,
		Run: func(r R, x *Exec, op *Op) Res {
			var n int
			var err error
			switch alg {
			case "union":
				n, err = r.Set().UnionStore(dest, keys...)
			case "inter":
				n, err = r.Set().InterStore(dest, keys...)
			default:
				n, err = r.Set().DiffStore(dest, keys...)
			}
			return valOrErr(I(n), err)
		}}
}
func EExists(key string, v Value) *Op {
	return &Op{Name: "EExists", Tok: "EExists " + SS(key) + " " + v.Tok,
		Run: func(r R, x *Exec, op *Op) Res { b, err := r.Set().Exists(key, v.Go); return valOrErr(B(b), err) }}
}
func EItems(key string) *Op {
	return &Op{Name: "EItems", Tok: "EItems " + SS(key),
		Run: func(r R, x *Exec, op *Op) Res {
			vs, err := r.Set().Items(key)
			if err != nil {
				return errOnly(err)
			}
			return ok(valsU(vs))
		}}
}
func ELen(key string) *Op {
	return &Op{Name: "ELen", Tok: "ELen " + SS(key),
		Run: func(r R, x *Exec, op *Op) Res { n, err := r.Set().Len(key); return valOrErr(I(n), err) }}
}
func EMove(src, dest string, v Value) *Op {
	return &Op{Name: "EMove", Tok: fmt.Sprintf("EMove %s %s %s", SS(src), SS(dest), v.Tok), Write: true,
		Run: func(r R, x *Exec, op *Op) Res { return errOnly(r.Set().Move(src, dest, v.Go)) }}
}
func EPop(key string) *Op {
	return &Op{Name: "EPop", Tok: "EPop " + SS(key) + " n", Write: true,
		Run: func(r R, x *Exec, op *Op) Res {
			v, err := r.Set().Pop(key)
			if err != nil {
				op.Tok = "EPop " + SS(key) + " n"
				return errOnly(err)
			}
			op.Tok = "EPop " + SS(key) + " " + S(v)
			return ok(S(v))
		}}
}
func ERandom(key string) *Op {
	return &Op{Name: "ERandom", Tok: "ERandom " + SS(key) + " n",
		Run: func(r R, x *Exec, op *Op) Res {
			v, err := r.Set().Random(key)
			if err != nil {
				op.Tok = "ERandom " + SS(key) + " n"
				return errOnly(err)
			}
			op.Tok = "ERandom " + SS(key) + " " + S(v)
			return ok(S(v))
		}}
}
func EScan(key string, cursor int, pat string, count int) *Op {
	return &Op{Name: "EScan", Tok: fmt.Sprintf("EScan %s %s %s %s", SS(key), I(cursor), SS(pat), I(count)),
		Run: func(r R, x *Exec, op *Op) Res {
			res, err := r.Set().Scan(key, cursor, pat, count)
			if err != nil {
				return errOnly(err)
			}
			return ok(L(I(res.Cursor), vals(res.Items)))
		}}
}

// ---------- rhash ----------

func pairsU(m map[string]redka.Value) string {
	items := make([]string, 0, len(m))
	for k, v := range m {
		items = append(items, L(SS(k), S(v)))
	}
	return U(items...)
}

func HDelete(key string, fields ...string) *Op {
	return &Op{Name: "HDelete", Tok: "HDelete " + SS(key) + " " + TokStrs(fields), Write: true,
		Run: func(r R, x *Exec, op *Op) Res { n, err := r.Hash().Delete(key, fields...); return valOrErr(I(n), err) }}
}
func HExists(key, field string) *Op {
	return &Op{Name: "HExists", Tok: "HExists " + SS(key) + " " + SS(field),
		Run: func(r R, x *Exec, op *Op) Res { b, err := r.Hash().Exists(key, field); return valOrErr(B(b), err) }}
}
func HFields(key string) *Op {
	return &Op{Name: "HFields", Tok: "HFields " + SS(key),
		Run: func(r R, x *Exec, op *Op) Res {
			fs, err := r.Hash().Fields(key)
			if err != nil {
				return errOnly(err)
			}
			items := make([]string, len(fs))
			for i, f := range fs {
				items[i] = SS(f)
			}
			return ok(U(items...))
		}}
}
func HGet(key, field string) *Op {
	return &Op{Name: "HGet", Tok: "HGet " + SS(key) + " " + SS(field),
		Run: func(r R, x *Exec, op *Op) Res {
			v, err := r.Hash().Get(key, field)
			if err != nil {
				return errOnly(err)
			}
			return ok(S(v))
		}}
}
func HGetMany(key string, fields ...string) *Op {
	return &Op{Name: "HGetMany", Tok: "HGetMany " + SS(key) + " " + TokStrs(fields),
		Run: func(r R, x *Exec, op *Op) Res {
			m, err := r.Hash().GetMany(key, fields...)
			if err != nil {
				return errOnly(err)
			}
			return ok(pairsU(m))
		}}
}
func HIncr(key, field string, delta int) *Op {
	return &Op{Name: "HIncr", Tok: fmt.Sprintf("HIncr %s %s %s", SS(key), SS(field), I(delta)), Write: true,
		Run: func(r R, x *Exec, op *Op) Res { n, err := r.Hash().Incr(key, field, delta); return valOrErr(I(n), err) }}
}
func HIncrFloat(key, field string, delta float64) *Op {
	return &Op{Name: "HIncrFloat", Write: true,
		Tok: fmt.Sprintf("HIncrFloat %s %s %s [ ] s", SS(key), SS(field), F(delta)),
		Run: func(r R, x *Exec, op *Op) Res {
			cur, _ := r.Hash().Get(key, field)
			f, err := r.Hash().IncrFloat(key, field, delta)
			text := ""
			if err == nil {
				text = strconv.FormatFloat(f, 'f', -1, 64)
			}
			tbl := "[ ]"
			if len(cur) > 0 {
				tbl = "[ " + parseOracle(cur) + " ]"
			}
			op.Tok = fmt.Sprintf("HIncrFloat %s %s %s %s %s", SS(key), SS(field), F(delta), tbl, SS(text))
			return valOrErr(F(f), err)
		}}
}
func HItems(key string) *Op {
	return &Op{Name: "HItems", Tok: "HItems " + SS(key),
		Run: func(r R, x *Exec, op *Op) Res {
			m, err := r.Hash().Items(key)
			if err != nil {
				return errOnly(err)
			}
			return ok(pairsU(m))
		}}
}
func HLen(key string) *Op {
	return &Op{Name: "HLen", Tok: "HLen " + SS(key),
		Run: func(r R, x *Exec, op *Op) Res { n, err := r.Hash().Len(key); return valOrErr(I(n), err) }}
}
func HScan(key string, cursor int, pat string, count int) *Op {
	return &Op{Name: "HScan", Tok: fmt.Sprintf("HScan %s %s %s %s", SS(key), I(cursor), SS(pat), I(count)),
		Run: func(r R, x *Exec, op *Op) Res {
			res, err := r.Hash().Scan(key, cursor, pat, count)
			if err != nil {
				return errOnly(err)
			}
			items := make([]string, len(res.Items))
			for i, it := range res.Items {
				items[i] = L(SS(it.Field), S(it.Value))
			}
			return ok(L(I(res.Cursor), L(items...)))
		}}
}
func HSet(key, field string, v Value) *Op {
	return &Op{Name: "HSet", Tok: fmt.Sprintf("HSet %s %s %s", SS(key), SS(field), v.Tok), Write: true,
		Run: func(r R, x *Exec, op *Op) Res { b, err := r.Hash().Set(key, field, v.Go); return valOrErr(B(b), err) }}
}

// HSetMany: items must have distinct fields; Go iterates the map in random
// order, which the model receives as the listed order (the result does not
// depend on it unless an item fails).
func HSetMany(key string, items ...KV) *Op {
	toks := make([]string, len(items))
	m := map[string]any{}
	for i, it := range items {
		toks[i] = "( " + SS(it.K) + " " + it.V.Tok + " )"
		m[it.K] = it.V.Go
	}
	return &Op{Name: "HSetMany", Tok: "HSetMany " + SS(key) + " " + L(toks...), Write: true, MultiMap: len(items) > 1,
		Run: func(r R, x *Exec, op *Op) Res { n, err := r.Hash().SetMany(key, m); return valOrErr(I(n), err) },
		Post: func(x *Exec, op *Op) {
			ord := map[string]int64{}
			for _, it := range items {
				var id int64
				if x.Raw.QueryRow(`select rhash.rowid from rhash join rkey on kid = rkey.id where key = ? and field = ?`, key, it.K).Scan(&id) == nil {
					ord[it.K] = id
				} else {
					ord[it.K] = 1 << 62
				}
			}
			idx := make([]int, len(items))
			for i := range idx {
				idx[i] = i
			}
			sort.SliceStable(idx, func(a, b int) bool { return ord[items[idx[a]].K] < ord[items[idx[b]].K] })
			t := make([]string, len(items))
			for i, j := range idx {
				t[i] = toks[j]
			}
			op.Tok = "HSetMany " + SS(key) + " " + L(t...)
		}}
}
func HSetNX(key, field string, v Value) *Op {
	return &Op{Name: "HSetNX", Tok: fmt.Sprintf("HSetNX %s %s %s", SS(key), SS(field), v.Tok), Write: true,
		Run: func(r R, x *Exec, op *Op) Res {
			b, err := r.Hash().SetNotExists(key, field, v.Go)
			return valOrErr(B(b), err)
		}}
}
func HValues(key string) *Op {
	return &Op{Name: "HValues", Tok: "HValues " + SS(key),
		Run: func(r R, x *Exec, op *Op) Res {
			vs, err := r.Hash().Values(key)
			if err != nil {
				return errOnly(err)
			}
			return ok(valsU(vs))
		}}
}

// ---------- rzset ----------

type ZV struct {
	V     Value
	Score float64
}

func ZAdd(key string, v Value, score float64) *Op {
	return &Op{Name: "ZAdd", Tok: fmt.Sprintf("ZAdd %s %s %s", SS(key), v.Tok, F(score)), Write: true,
		Run: func(r R, x *Exec, op *Op) Res { b, err := r.ZSet().Add(key, v.Go, score); return valOrErr(B(b), err) }}
}

// ZAddMany: members must be distinct and hashable Go values.
func ZAddMany(key string, items ...ZV) *Op {
	toks := make([]string, len(items))
	m := map[any]float64{}
	for i, it := range items {
		toks[i] = "( " + it.V.Tok + " " + F(it.Score) + " )"
		m[it.V.Go] = it.Score
	}
	return &Op{Name: "ZAddMany", Tok: "ZAddMany " + SS(key) + " " + L(toks...), Write: true, MultiMap: len(items) > 1,
		Run: func(r R, x *Exec, op *Op) Res { n, err := r.ZSet().AddMany(key, m); return valOrErr(I(n), err) },
		Post: func(x *Exec, op *Op) {
			ord := make([]int64, len(items))
			for i, it := range items {
				var id int64
				var eb []byte
				switch g := it.V.Go.(type) {
				case string:
					eb = []byte(g)
				case []byte:
					eb = g
				case int:
					eb = []byte(strconv.Itoa(g))
				case bool:
					eb = []byte(map[bool]string{true: "1", false: "0"}[g])
				case float64:
					eb = []byte(strconv.FormatFloat(g, 'f', -1, 64))
				}
				if x.Raw.QueryRow(`select rzset.rowid from rzset join rkey on kid = rkey.id where key = ? and elem = ?`, key, eb).Scan(&id) == nil {
					ord[i] = id
				} else {
					ord[i] = 1 << 62
				}
			}
			idx := make([]int, len(items))
			for i := range idx {
				idx[i] = i
			}
			sort.SliceStable(idx, func(a, b int) bool { return ord[idx[a]] < ord[idx[b]] })
			t := make([]string, len(items))
			for i, j := range idx {
				t[i] = toks[j]
			}
			op.Tok = "ZAddMany " + SS(key) + " " + L(t...)
		}}
}
func ZCount(key string, lo, hi float64) *Op {
	return &Op{Name: "ZCount", Tok: fmt.Sprintf("ZCount %s %s %s", SS(key), F(lo), F(hi)),
		Run: func(r R, x *Exec, op *Op) Res { n, err := r.ZSet().Count(key, lo, hi); return valOrErr(I(n), err) }}
}
func ZDelete(key string, vs ...Value) *Op {
	tok, gos := tokVals(vs)
	return &Op{Name: "ZDelete", Tok: "ZDelete " + SS(key) + " " + tok, Write: true,
		Run: func(r R, x *Exec, op *Op) Res { n, err := r.ZSet().Delete(key, gos...); return valOrErr(I(n), err) }}
}
func ZDeleteRank(key string, start, stop int) *Op {
	return &Op{Name: "ZDeleteRank", Tok: fmt.Sprintf("ZDeleteRank %s %s %s", SS(key), I(start), I(stop)), Write: true,
		Run: func(r R, x *Exec, op *Op) Res {
			// (the selectors of a builder replace each other, the last one given counts: now and
			// then a score range that covers everything is given first)
			c := r.ZSet().DeleteWith(key)
			if (start+stop)%3 == 0 {
				c = c.ByScore(negInf, posInf)
			}
			n, err := c.ByRank(start, stop).Run()
			return valOrErr(I(n), err)
		}}
}
func ZDeleteScore(key string, lo, hi float64) *Op {
	return &Op{Name: "ZDeleteScore", Tok: fmt.Sprintf("ZDeleteScore %s %s %s", SS(key), F(lo), F(hi)), Write: true,
		Run: func(r R, x *Exec, op *Op) Res {
			c := r.ZSet().DeleteWith(key)
			if lo != hi {
				c = c.ByRank(0, 0) // replaced by the score range given after it
			}
			n, err := c.ByScore(lo, hi).Run()
			return valOrErr(I(n), err)
		}}
}
func ZGetRank(key string, v Value, desc bool) *Op {
	return &Op{Name: "ZGetRank", Tok: fmt.Sprintf("ZGetRank %s %s %s", SS(key), v.Tok, B(desc)),
		Run: func(r R, x *Exec, op *Op) Res {
			var rank int
			var score float64
			var err error
			if desc {
				rank, score, err = r.ZSet().GetRankRev(key, v.Go)
			} else {
				rank, score, err = r.ZSet().GetRank(key, v.Go)
			}
			if err != nil {
				return errOnly(err)
			}
			return ok(L(I(rank), F(score)))
		}}
}
func ZGetScore(key string, v Value) *Op {
	return &Op{Name: "ZGetScore", Tok: "ZGetScore " + SS(key) + " " + v.Tok,
		Run: func(r R, x *Exec, op *Op) Res { f, err := r.ZSet().GetScore(key, v.Go); return valOrErr(F(f), err) }}
}
func ZIncr(key string, v Value, delta float64) *Op {
	return &Op{Name: "ZIncr", Tok: fmt.Sprintf("ZIncr %s %s %s", SS(key), v.Tok, F(delta)), Write: true,
		Run: func(r R, x *Exec, op *Op) Res { f, err := r.ZSet().Incr(key, v.Go, delta); return valOrErr(F(f), err) }}
}

// aggTok is the aggregate the model is told: leaving the builder's aggregate unset means sum.
func aggTok(agg string) string {
	if agg == "default" {
		return "sum"
	}
	return agg
}

func ZAlg(inter bool, agg string, keys ...string) *Op {
	name := "ZUnion"
	if inter {
		name = "ZInter"
	}
	return &Op{Name: name + "-" + agg, Tok: fmt.Sprintf("ZAlg %s %s %s", B(inter), aggTok(agg), TokStrs(keys)),
		Run: func(r R, x *Exec, op *Op) Res {
			if inter {
				c := r.ZSet().InterWith(keys...)
				switch agg {
				case "min":
					c = c.Min()
				case "max":
					c = c.Max()
				case "sum":
					c = c.Sum()
				default: // "default": no aggregate call - the documented default is the sum
				}
				items, err := c.Run()
				if err != nil {
					return errOnly(err)
				}
				out := make([]string, len(items))
				for i, it := range items {
					out[i] = L(S(it.Elem), F(it.Score))
				}
				return ok(L(out...))
			}
			c := r.ZSet().UnionWith(keys...)
			switch agg {
			case "min":
				c = c.Min()
			case "max":
				c = c.Max()
			case "sum":
				c = c.Sum()
			default: // "default": no aggregate call - the documented default is the sum
			}
			items, err := c.Run()
			if err != nil {
				return errOnly(err)
			}
			out := make([]string, len(items))
			for i, it := range items {
				out[i] = L(S(it.Elem), F(it.Score))
			}
			return ok(L(out...))
		}}
}
func ZStore(inter bool, agg string, dest string, keys ...string) *Op {
	name := "ZUnionStore"
	if inter {
		name = "ZInterStore"
	}
	return &Op{Name: name + "-" + agg, Tok: fmt.Sprintf("ZStore %s %s %s %s", B(inter), aggTok(agg), SS(dest), TokStrs(keys)), Write: true,
		Run: func(r R, x *Exec, op *Op) Res {
			var n int
			var err error
			if inter {
				c := r.ZSet().InterWith(keys...).Dest(dest)
				switch agg {
				case "min":
					c = c.Min()
				case "max":
					c = c.Max()
				case "sum":
					c = c.Sum()
				default: // "default": no aggregate call - the documented default is the sum
				}
				n, err = c.Store()
			} else {
				c := r.ZSet().UnionWith(keys...).Dest(dest)
				switch agg {
				case "min":
					c = c.Min()
				case "max":
					c = c.Max()
				case "sum":
					c = c.Sum()
				default: // "default": no aggregate call - the documented default is the sum
				}
				n, err = c.Store()
			}
			return valOrErr(I(n), err)
		}}
}
func ZLen(key string) *Op {
	return &Op{Name: "ZLen", Tok: "ZLen " + SS(key),
		Run: func(r R, x *Exec, op *Op) Res { n, err := r.ZSet().Len(key); return valOrErr(I(n), err) }}
}
func ZRangeRank(key string, start, stop int, desc bool) *Op {
	return &Op{Name: "ZRangeRank", Tok: fmt.Sprintf("ZRangeRank %s %s %s %s", SS(key), I(start), I(stop), B(desc)),
		Run: func(r R, x *Exec, op *Op) Res {
			c := r.ZSet().RangeWith(key).ByRank(start, stop)
			// (a second command derived from the same builder value must not change the first)
			_ = c.ByRank(start+5, stop+7).Desc()
			// Offset and Count are documented to "only take effect when filtering by score":
			// on a rank range they must change nothing (given in either order around ByRank)
			switch ((start%5)+5)%5 + ((stop%3)+3)%3 {
			case 1:
				c = c.Offset(1)
			case 2:
				c = c.Count(1)
			case 3:
				c = r.ZSet().RangeWith(key).Offset(2).Count(1).ByRank(start, stop)
			}
			if desc {
				c = c.Desc()
			} else if start%2 == 0 {
				c = c.Asc() // the default direction, spelled out
			}
			items, err := c.Run()
			if err != nil {
				return errOnly(err)
			}
			out := make([]string, len(items))
			for i, it := range items {
				out[i] = L(S(it.Elem), F(it.Score))
			}
			return ok(L(out...))
		}}
}
func ZRangeScore(key string, lo, hi float64, desc bool, offset, count int) *Op {
	return &Op{Name: "ZRangeScore",
		Tok: fmt.Sprintf("ZRangeScore %s %s %s %s %s %s", SS(key), F(lo), F(hi), B(desc), I(offset), I(count)),
		Run: func(r R, x *Exec, op *Op) Res {
			c := r.ZSet().RangeWith(key)
			if offset%2 == 0 {
				c = c.ByRank(0, 0) // replaced by the score range given after it
			}
			c = c.ByScore(lo, hi).Offset(offset).Count(count)
			_ = c.ByScore(lo-100, hi+100).Offset(offset + 3) // derived from the same value: must not change c
			if desc {
				c = c.Desc()
			}
			items, err := c.Run()
			if err != nil {
				return errOnly(err)
			}
			out := make([]string, len(items))
			for i, it := range items {
				out[i] = L(S(it.Elem), F(it.Score))
			}
			return ok(L(out...))
		}}
}
func ZScan(key string, cursor int, pat string, count int) *Op {
	return &Op{Name: "ZScan", Tok: fmt.Sprintf("ZScan %s %s %s %s", SS(key), I(cursor), SS(pat), I(count)),
		Run: func(r R, x *Exec, op *Op) Res {
			res, err := r.ZSet().Scan(key, cursor, pat, count)
			if err != nil {
				return errOnly(err)
			}
			out := make([]string, len(res.Items))
			for i, it := range res.Items {
				out[i] = L(S(it.Elem), F(it.Score))
			}
			return ok(L(I(res.Cursor), L(out...)))
		}}
}
