package hx

import (
	"database/sql"
	"fmt"
	"sort"
	"strings"
	"time"

	"github.com/nalgeon/redka"
	"github.com/nalgeon/redka/verifhook"
)

// Content is the logical content of a database: per live-or-stored key its
// type and elements (no ids, versions or modification times).
type Content struct {
	Text   string           // keys sorted by name, with their elements
	ETimes map[string]int64 // key -> etime (absent = no expiry)
}

func contentOfRaw(raw *sql.DB) (Content, error) {
	c := Content{ETimes: map[string]int64{}}
	rows, err := raw.Query(`select id, key, type, etime, len from rkey order by key`)
	if err != nil {
		return c, err
	}
	type krow struct {
		id  int64
		key []byte
		typ int64
		et  sql.NullInt64
		ln  sql.NullInt64
	}
	var ks []krow
	for rows.Next() {
		var k krow
		if err := rows.Scan(&k.id, &k.key, &k.typ, &k.et, &k.ln); err != nil {
			rows.Close()
			return c, err
		}
		ks = append(ks, k)
	}
	rows.Close()
	var b strings.Builder
	for _, k := range ks {
		name := hx(k.key)
		if k.et.Valid {
			c.ETimes[name] = k.et.Int64
		}
		var elems []string
		var q string
		switch k.typ {
		case 1:
			q = `select hex(value) from rstring where kid = ?`
		case 2:
			q = `select hex(elem) from rlist where kid = ? order by pos`
		case 3:
			q = `select hex(elem) from rset where kid = ?`
		case 4:
			q = `select hex(field) || '=' || hex(value) from rhash where kid = ?`
		case 5:
			q = `select hex(elem) || '=' || score from rzset where kid = ?`
		}
		if q != "" {
			er, err := raw.Query(q, k.id)
			if err != nil {
				return c, err
			}
			for er.Next() {
				var s string
				if err := er.Scan(&s); err != nil {
					er.Close()
					return c, err
				}
				elems = append(elems, s)
			}
			er.Close()
		}
		if k.typ != 2 {
			sort.Strings(elems)
		}
		ln := "_"
		if k.ln.Valid {
			ln = fmt.Sprint(k.ln.Int64)
		}
		fmt.Fprintf(&b, "%s:t%d:len%s[%s] ", name, k.typ, ln, strings.Join(elems, ","))
	}
	c.Text = b.String()
	return c, nil
}

// ContentOfFile reads a database file through a fresh read-only connection.
func ContentOfFile(path string) (Content, error) {
	raw, err := sql.Open("sqlite3", "file:"+path+"?mode=ro")
	if err != nil {
		return Content{}, err
	}
	defer raw.Close()
	return contentOfRaw(raw)
}

// ContentOfDB reads a redka handle's database through its read-only handle.
func ContentOfDB(db *redka.DB) (Content, error) { return contentOfRaw(db.RO) }

// SameContent compares two contents; expiry instants may differ by the clock
// skew between the two executions.
func SameContent(a, b Content) (bool, string) {
	// what is compared is the VISIBLE content: a key whose expiry instant has passed is gone for
	// every reader; when its rows are physically removed is the business of each side's
	// background cleaner (the two tick at different moments)
	now := time.Now().UnixMilli()
	a, b = a.visible(now), b.visible(now)
	if a.Text != b.Text {
		return false, "elements differ"
	}
	for k, ea := range a.ETimes {
		eb, ok := b.ETimes[k]
		if !ok {
			return false, "key " + k + " has an expiry only on one side"
		}
		d := ea - eb
		if d < 0 {
			d = -d
		}
		if d > 3000 {
			return false, fmt.Sprintf("key %s: expiry differs by %d ms", k, d)
		}
	}
	for k := range b.ETimes {
		if _, ok := a.ETimes[k]; !ok {
			return false, "key " + k + " has an expiry only on one side"
		}
	}
	return true, ""
}

// visible drops the keys whose expiry instant is not after now.
func (c Content) visible(now int64) Content {
	gone := map[string]bool{}
	for k, et := range c.ETimes {
		if et <= now {
			gone[strings.ToLower(k)] = true
		}
	}
	if len(gone) == 0 {
		return c
	}
	out := Content{ETimes: map[string]int64{}}
	var b strings.Builder
	for _, ent := range strings.Fields(c.Text) {
		name := strings.ToLower(strings.SplitN(ent, ":", 2)[0])
		if !gone[name] {
			b.WriteString(ent + " ")
		}
	}
	out.Text = b.String()
	for k, et := range c.ETimes {
		if !gone[strings.ToLower(k)] {
			out.ETimes[k] = et
		}
	}
	return out
}

type discard struct{}

func (discard) WriteAny(v any)              {}
func (discard) WriteArray(count int)        {}
func (discard) WriteBulk(bulk []byte)       {}
func (discard) WriteBulkString(bulk string) {}
func (discard) WriteError(msg string)       {}
func (discard) WriteInt(num int)            {}
func (discard) WriteInt64(num int64)        {}
func (discard) WriteNull()                  {}
func (discard) WriteRaw(data []byte)        {}
func (discard) WriteString(str string)      {}
func (discard) WriteUint64(num uint64)      {}

// ApplyThroughCommandLayer runs a wire command against a handle through the
// server's own parse + run code (used to keep a twin in step for commands the
// independent oracle does not cover).
func ApplyThroughCommandLayer(db *redka.DB, args [][]byte) {
	defer func() { _ = recover() }()
	cmd, err := verifhook.Parse(args)
	if err != nil {
		return
	}
	_, _ = cmd.Run(discard{}, verifhook.DB(db))
}

// recWriter records what a command writes (the reply, token by token).
type recWriter struct{ b strings.Builder }

func (w *recWriter) WriteAny(v any)              { fmt.Fprintf(&w.b, "any:%v ", v) }
func (w *recWriter) WriteArray(count int)        { fmt.Fprintf(&w.b, "*%d ", count) }
func (w *recWriter) WriteBulk(bulk []byte)       { fmt.Fprintf(&w.b, "$%x ", bulk) }
func (w *recWriter) WriteBulkString(bulk string) { fmt.Fprintf(&w.b, "$%x ", bulk) }
func (w *recWriter) WriteError(msg string)       { fmt.Fprintf(&w.b, "-%s ", msg) }
func (w *recWriter) WriteInt(num int)            { fmt.Fprintf(&w.b, ":%d ", num) }
func (w *recWriter) WriteInt64(num int64)        { fmt.Fprintf(&w.b, ":%d ", num) }
func (w *recWriter) WriteNull()                  { w.b.WriteString("_ ") }
func (w *recWriter) WriteRaw(data []byte)        { fmt.Fprintf(&w.b, "raw:%x ", data) }
func (w *recWriter) WriteString(str string)      { fmt.Fprintf(&w.b, "+%s ", str) }
func (w *recWriter) WriteUint64(num uint64)      { fmt.Fprintf(&w.b, ":%d ", num) }

// CommandOp is a wire command executed in-process through the server's own parse and run code
// on the plain handle (what the server does for a command outside MULTI); its result is the
// reply it writes.  write says whether it can change the database.
func CommandOp(write bool, args ...string) *Op {
	return &Op{Name: "cmd:" + strings.ToUpper(args[0]), Tok: "cmd " + strings.Join(args, " "), Write: write,
		RunDB: func(db *redka.DB, x *Exec, op *Op) Res {
			bs := make([][]byte, len(args))
			for i, a := range args {
				bs[i] = []byte(a)
			}
			cmd, err := verifhook.Parse(bs)
			if err != nil {
				return Res{Val: None, Err: "parse: " + err.Error()}
			}
			w := &recWriter{}
			_, _ = cmd.Run(w, verifhook.DB(db))
			return ok(strings.TrimSpace(w.b.String()))
		}}
}
