package hx

import (
	"database/sql"
	"encoding/hex"
	"errors"
	"fmt"
	"regexp"
	"sort"
	"strconv"
	"strings"
	"sync/atomic"
	"time"

	_ "github.com/mattn/go-sqlite3"
	"github.com/nalgeon/redka"
	"github.com/nalgeon/redka/verifhook"
)

// Op is one operation of a history.
type Op struct {
	Name string
	// Tok is the model input for this operation; operations with oracle
	// inputs (random choices, float texts) fill it in while running.
	Tok string
	// Run executes the operation through the uniform DB-level or Tx-level view.
	Run func(r verifhook.Redka, x *Exec, op *Op) Res
	// RunDB, when set, is used instead of Run at DB level (methods that only
	// exist on the handle).
	RunDB func(db *redka.DB, x *Exec, op *Op) Res
	// RelTTL > 0: the operation stores etime = now + RelTTL (ms).
	RelTTL []int64
	Write  bool // may change the database
	// Post runs after a DB-level step: operations taking a Go map learn the
	// iteration order the implementation happened to use from the row ids it
	// produced, and pass it to the model as an oracle input.
	Post func(x *Exec, op *Op)
	// MultiMap marks a map argument with more than one entry (only generated
	// at DB level, where Post can recover the order).
	MultiMap bool
}

// Step is a DB-level call or a caller-managed transaction.
type Step struct {
	Ops       []*Op
	Block     bool
	StopOnErr bool
	Idx       int   // index in the generated history (for replays)
	OpIdx     []int // indices of Ops in the generated block
	// Gen, when set, makes this a dynamic step: it is asked for one DB-level
	// operation after another (each run and recorded as a step of its own)
	// until it returns nil.  Verify then checks an end-to-end condition on
	// what the operations observed and returns a description of a failure.
	Gen    func(x *Exec) *Op
	Verify func(x *Exec) string
}

type History struct {
	ID    int
	Steps []*Step
	Tag   string
}

type win struct{ t0, t1 int64 }

// Exec runs histories against one database.
type Exec struct {
	DB   *redka.DB
	Raw  *sql.DB // independent connection for dumps
	Path string
	wins []win
	rel  map[int64]int64 // raw etime -> canonical etime (relative TTLs)
	last int64
}

var dbCounter atomic.Int64

// OpenMem opens a fresh isolated in-memory database.
func OpenMem(tag string) (*Exec, error) {
	n := dbCounter.Add(1)
	path := fmt.Sprintf("file:/hx_%s_%d_%d.db?vfs=memdb", tag, time.Now().UnixNano(), n)
	return OpenPath(path)
}

func OpenPath(path string) (*Exec, error) { return OpenPathDriver(path, "") }

// OpenMemDriver opens a fresh in-memory database through the named database/sql driver.
func OpenMemDriver(tag, driverName string) (*Exec, error) {
	n := dbCounter.Add(1)
	path := fmt.Sprintf("file:/hx_%s_%d_%d.db?vfs=memdb", tag, time.Now().UnixNano(), n)
	return OpenPathDriver(path, driverName)
}

func OpenPathDriver(path, driverName string) (*Exec, error) {
	var opts *redka.Options
	if driverName != "" {
		opts = &redka.Options{DriverName: driverName}
	}
	return OpenPathOpts(path, opts)
}

// OpenPathOpts opens the database with the given public options (nil = defaults).
func OpenPathOpts(path string, opts *redka.Options) (*Exec, error) {
	db, err := redka.Open(path, opts)
	if err != nil {
		return nil, err
	}
	raw, err := sql.Open("sqlite3", path)
	if err != nil {
		db.Close()
		return nil, err
	}
	raw.SetMaxOpenConns(1)
	return &Exec{DB: db, Raw: raw, Path: path, rel: map[int64]int64{}}, nil
}

// OpenPathOneHandle connects the way redka's own TestOpenDB does: the caller opens one *sql.DB
// (plain data source, no pragmas in it) and hands it to redka.OpenDB for both roles.
func OpenPathOneHandle(path string, opts *redka.Options) (*Exec, error) {
	sdb, err := sql.Open("sqlite3", path)
	if err != nil {
		return nil, err
	}
	db, err := redka.OpenDB(sdb, sdb, opts)
	if err != nil {
		sdb.Close()
		return nil, err
	}
	raw, err := sql.Open("sqlite3", path)
	if err != nil {
		db.Close()
		return nil, err
	}
	raw.SetMaxOpenConns(1)
	return &Exec{DB: db, Raw: raw, Path: path, rel: map[int64]int64{}}, nil
}

// OpenPathTwoHandles connects with redka.OpenDB on two caller-opened handles: a read-write one and
// one opened with mode=ro (the file must exist).
func OpenPathTwoHandles(file string) (*Exec, error) {
	rw, err := sql.Open("sqlite3", "file:"+file+"?_foreign_keys=on&_busy_timeout=5000")
	if err != nil {
		return nil, err
	}
	ro, err := sql.Open("sqlite3", "file:"+file+"?mode=ro&_busy_timeout=5000")
	if err != nil {
		rw.Close()
		return nil, err
	}
	db, err := redka.OpenDB(rw, ro, nil)
	if err != nil {
		rw.Close()
		ro.Close()
		return nil, err
	}
	raw, err := sql.Open("sqlite3", file)
	if err != nil {
		db.Close()
		return nil, err
	}
	raw.SetMaxOpenConns(1)
	return &Exec{DB: db, Raw: raw, Path: file, rel: map[int64]int64{}}, nil
}

func (x *Exec) Close() {
	x.Raw.Close()
	x.DB.Close()
}

func nowMs() int64 { return time.Now().UnixMilli() }

// begin waits for a fresh millisecond, so that the time windows of
// consecutive steps are disjoint, and returns the window start.
func (x *Exec) begin() int64 {
	for {
		t := nowMs()
		if t > x.last {
			return t
		}
		time.Sleep(40 * time.Microsecond)
	}
}

func (x *Exec) end(t0 int64) int64 {
	t1 := nowMs()
	x.wins = append(x.wins, win{t0, t1})
	x.last = t1
	return t1
}

// canonM maps a raw "now"-derived time to the start of its step's window.
func (x *Exec) canonM(v int64) int64 {
	i := sort.Search(len(x.wins), func(i int) bool { return x.wins[i].t1 >= v })
	if i < len(x.wins) && x.wins[i].t0 <= v {
		return x.wins[i].t0
	}
	return v
}

func (x *Exec) canonE(v int64) int64 {
	if c, ok := x.rel[v]; ok {
		return c
	}
	return v
}

var reM = regexp.MustCompile(`\bM(-?\d+)\b`)
var reE = regexp.MustCompile(`\bE(-?\d+)\b`)

func (x *Exec) canon(s string) string {
	s = reM.ReplaceAllStringFunc(s, func(m string) string {
		v, _ := strconv.ParseInt(m[1:], 10, 64)
		return "i" + strconv.FormatInt(x.canonM(v), 10)
	})
	s = reE.ReplaceAllStringFunc(s, func(m string) string {
		v, _ := strconv.ParseInt(m[1:], 10, 64)
		return "i" + strconv.FormatInt(x.canonE(v), 10)
	})
	if strings.Contains(s, "{") {
		s = SortGroups(s)
	}
	return s
}

// SortGroups re-sorts every "{ ... }" group of a canonical result text (the
// unordered collections), innermost first.
func SortGroups(s string) string {
	toks := strings.Fields(s)
	pos := 0
	var parse func(closer string) []string
	parse = func(closer string) []string {
		var items []string
		for pos < len(toks) {
			t := toks[pos]
			pos++
			switch t {
			case "[":
				inner := parse("]")
				items = append(items, "["+joinSp(inner)+" ]")
			case "{":
				inner := parse("}")
				sort.Strings(inner)
				items = append(items, "{"+joinSp(inner)+" }")
			case "]", "}":
				if t == closer {
					return items
				}
				items = append(items, t)
			default:
				items = append(items, t)
			}
		}
		return items
	}
	return strings.Join(parse(""), " ")
}

// rawEtimes lists the etime values currently stored.
func (x *Exec) rawEtimes() ([]int64, error) {
	rows, err := x.Raw.Query(`select etime from rkey where etime is not null`)
	if err != nil {
		return nil, err
	}
	defer rows.Close()
	var out []int64
	for rows.Next() {
		var e int64
		if err := rows.Scan(&e); err != nil {
			return nil, err
		}
		out = append(out, e)
	}
	return out, rows.Err()
}

// noteRel records the canonical form of etimes written as now+ttl in the
// window [t0,t1].
func (x *Exec) noteRel(ttls []int64, t0, t1 int64, results []Res) error {
	if len(ttls) == 0 {
		return nil
	}
	es, err := x.rawEtimes()
	if err != nil {
		return err
	}
	// etimes that were returned by a call of this step but overwritten later
	// in the same step
	for _, r := range results {
		for _, m := range reE.FindAllString(r.Val, -1) {
			if v, err := strconv.ParseInt(m[1:], 10, 64); err == nil {
				es = append(es, v)
			}
		}
	}
	for _, e := range es {
		if _, done := x.rel[e]; done {
			continue
		}
		for _, ttl := range ttls {
			if n := e - ttl; n >= t0 && n <= t1 {
				x.rel[e] = t0 + ttl
				break
			}
		}
	}
	return nil
}

func hx(b []byte) string { return "x" + hex.EncodeToString(b) }

func optI(v sql.NullInt64) string {
	if !v.Valid {
		return "_"
	}
	return strconv.FormatInt(v.Int64, 10)
}

// DumpRaw is Dump without the canonicalisation of times (for comparing two
// states of one database literally).
func (x *Exec) DumpRaw() (string, error) {
	w, r := x.wins, x.rel
	x.wins, x.rel = nil, map[int64]int64{}
	defer func() { x.wins, x.rel = w, r }()
	return x.Dump()
}

// Dump reads the six tables through the independent connection and renders
// them in the model's canonical form.
func (x *Exec) Dump() (string, error) {
	var b strings.Builder
	b.WriteString("K")
	rows, err := x.Raw.Query(`select id, key, type, version, etime, mtime, len from rkey order by id`)
	if err != nil {
		return "", err
	}
	for rows.Next() {
		var id, typ, ver, mtime int64
		var key []byte
		var etime, ln sql.NullInt64
		if err := rows.Scan(&id, &key, &typ, &ver, &etime, &mtime, &ln); err != nil {
			rows.Close()
			return "", err
		}
		e := "_"
		if etime.Valid {
			e = strconv.FormatInt(x.canonE(etime.Int64), 10)
		}
		fmt.Fprintf(&b, " (%d %s %d %d %s %d %s)", id, hx(key), typ, ver, e, x.canonM(mtime), optI(ln))
	}
	rows.Close()
	if err := rows.Err(); err != nil {
		return "", err
	}

	b.WriteString(" | S")
	rows, err = x.Raw.Query(`select kid, value from rstring order by kid, hex(value)`)
	if err != nil {
		return "", err
	}
	type srow struct {
		kid int64
		v   string
	}
	var srows []srow
	for rows.Next() {
		var kid int64
		var v []byte
		if err := rows.Scan(&kid, &v); err != nil {
			rows.Close()
			return "", err
		}
		srows = append(srows, srow{kid, hx(v)})
	}
	rows.Close()
	sort.Slice(srows, func(i, j int) bool {
		if srows[i].kid != srows[j].kid {
			return srows[i].kid < srows[j].kid
		}
		return srows[i].v < srows[j].v
	})
	for _, r := range srows {
		fmt.Fprintf(&b, " (%d %s)", r.kid, r.v)
	}

	b.WriteString(" | L")
	rows, err = x.Raw.Query(`select kid, elem from rlist order by kid, pos`)
	if err != nil {
		return "", err
	}
	for rows.Next() {
		var kid int64
		var v []byte
		if err := rows.Scan(&kid, &v); err != nil {
			rows.Close()
			return "", err
		}
		fmt.Fprintf(&b, " (%d %s)", kid, hx(v))
	}
	rows.Close()

	b.WriteString(" | E")
	rows, err = x.Raw.Query(`select rowid, kid, elem from rset order by rowid`)
	if err != nil {
		return "", err
	}
	for rows.Next() {
		var rid, kid int64
		var v []byte
		if err := rows.Scan(&rid, &kid, &v); err != nil {
			rows.Close()
			return "", err
		}
		fmt.Fprintf(&b, " (%d %d %s)", rid, kid, hx(v))
	}
	rows.Close()

	b.WriteString(" | H")
	rows, err = x.Raw.Query(`select rowid, kid, field, value from rhash order by rowid`)
	if err != nil {
		return "", err
	}
	for rows.Next() {
		var rid, kid int64
		var f, v []byte
		if err := rows.Scan(&rid, &kid, &f, &v); err != nil {
			rows.Close()
			return "", err
		}
		fmt.Fprintf(&b, " (%d %d %s %s)", rid, kid, hx(f), hx(v))
	}
	rows.Close()

	b.WriteString(" | Z")
	rows, err = x.Raw.Query(`select rowid, kid, elem, score from rzset order by rowid`)
	if err != nil {
		return "", err
	}
	for rows.Next() {
		var rid, kid int64
		var v []byte
		var sc float64
		if err := rows.Scan(&rid, &kid, &v, &sc); err != nil {
			rows.Close()
			return "", err
		}
		fmt.Fprintf(&b, " (%d %d %s %s)", rid, kid, hx(v), F(sc)[1:])
	}
	rows.Close()
	return b.String(), nil
}

// StepTrace is what one executed step contributes to the trace.
type StepTrace struct {
	Input  []string // model input lines
	R      string   // observed results
	D      string   // observed dump
	T0, T1 int64
}

var errAbort = errors.New("hx: abort transaction")

// RunStep executes one step and records its observables.
func (x *Exec) RunStep(st *Step) (StepTrace, error) {
	var tr StepTrace
	t0 := x.begin()
	var results []Res
	var ttls []int64
	if !st.Block {
		op := st.Ops[0]
		var res Res
		if op.RunDB != nil {
			res = op.RunDB(x.DB, x, op)
		} else {
			res = op.Run(verifhook.DB(x.DB), x, op)
		}
		results = append(results, res)
		ttls = append(ttls, op.RelTTL...)
		if op.Post != nil {
			op.Post(x, op)
		}
	} else {
		_ = x.DB.Update(func(tx *redka.Tx) error {
			r := verifhook.Tx(tx)
			for _, op := range st.Ops {
				res := op.Run(r, x, op)
				results = append(results, res)
				ttls = append(ttls, op.RelTTL...)
				if st.StopOnErr && res.Err != "" {
					return errAbort
				}
			}
			return nil
		})
	}
	t1 := x.end(t0)
	tr.T0, tr.T1 = t0, t1
	if err := x.noteRel(ttls, t0, t1, results); err != nil {
		return tr, err
	}
	if !st.Block {
		tr.Input = []string{fmt.Sprintf("O %d %s", t0, st.Ops[0].Tok)}
	} else {
		s := 0
		if st.StopOnErr {
			s = 1
		}
		tr.Input = append(tr.Input, fmt.Sprintf("T %d %d %d", t0, s, len(st.Ops)))
		for _, op := range st.Ops {
			tr.Input = append(tr.Input, "o "+op.Tok)
		}
	}
	parts := make([]string, len(results))
	for i, r := range results {
		parts[i] = x.canon(r.String())
	}
	tr.R = strings.Join(parts, " ; ")
	d, err := x.Dump()
	if err != nil {
		return tr, err
	}
	tr.D = d
	return tr, nil
}
