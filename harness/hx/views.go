package hx

import (
	"fmt"
	"sort"
	"strings"
	"time"

	"github.com/nalgeon/redka/verifhook"
)

// ViewAudit, when set, makes Execute compare the documented SQL views (vkey, vstring, vlist,
// vset, vhash, vzset) with what the API shows at the end of every history: exactly the live keys
// and their elements, lists in list order.
var ViewAudit bool

// AuditViews returns a description of the first difference, or "".
func AuditViews(x *Exec) string {
	r := verifhook.DB(x.DB)
	keys, err := r.Key().Keys("*")
	if err != nil {
		return "views: cannot list keys: " + err.Error()
	}
	var wantK, wantS, wantL, wantE, wantH, wantZ []string
	for _, k := range keys {
		wantK = append(wantK, fmt.Sprintf("%x:%d", k.Key, k.Type))
		switch int(k.Type) {
		case 1:
			v, err := r.Str().Get(k.Key)
			if err == nil {
				wantS = append(wantS, fmt.Sprintf("%x=%x", k.Key, v.Bytes()))
			}
		case 2:
			vs, _ := r.List().Range(k.Key, 0, -1)
			for i, v := range vs {
				wantL = append(wantL, fmt.Sprintf("%x#%d=%x", k.Key, i+1, v.Bytes()))
			}
		case 3:
			vs, _ := r.Set().Items(k.Key)
			for _, v := range vs {
				wantE = append(wantE, fmt.Sprintf("%x=%x", k.Key, v.Bytes()))
			}
		case 4:
			m, _ := r.Hash().Items(k.Key)
			for f, v := range m {
				wantH = append(wantH, fmt.Sprintf("%x.%x=%x", k.Key, f, v.Bytes()))
			}
		case 5:
			vs, _ := r.ZSet().RangeWith(k.Key).ByScore(negInf, posInf).Run()
			for _, v := range vs {
				wantZ = append(wantZ, fmt.Sprintf("%x=%x:%v", k.Key, v.Elem.Bytes(), v.Score))
			}
		}
	}
	q := func(sqlText string, n int) ([]string, error) {
		rows, err := x.Raw.Query(sqlText)
		if err != nil {
			return nil, err
		}
		defer rows.Close()
		var out []string
		for rows.Next() {
			vals := make([]any, n)
			ptrs := make([]any, n)
			for i := range vals {
				ptrs[i] = &vals[i]
			}
			if err := rows.Scan(ptrs...); err != nil {
				return nil, err
			}
			out = append(out, fmtViewRow(vals))
		}
		return out, rows.Err()
	}
	type vw struct {
		name, sql string
		n         int
		want      []string
		ordered   bool
	}
	views := []vw{
		{"vkey", "select key, type from vkey", 2, wantK, false},
		{"vstring", "select key, value from vstring", 2, wantS, false},
		{"vlist", "select key, idx, elem from vlist order by key, idx", 3, wantL, false},
		{"vset", "select key, elem from vset", 2, wantE, false},
		{"vhash", "select key, field, value from vhash", 3, wantH, false},
		{"vzset", "select key, elem, score from vzset", 3, wantZ, false},
	}
	for _, v := range views {
		got, err := q(v.sql, v.n)
		if err != nil {
			return fmt.Sprintf("views: %s cannot be read: %v", v.name, err)
		}
		a, b := append([]string(nil), got...), append([]string(nil), v.want...)
		sort.Strings(a)
		sort.Strings(b)
		if strings.Join(a, " ") != strings.Join(b, " ") {
			return fmt.Sprintf("views: %s shows {%s}, the API shows {%s}", v.name, strings.Join(a, " "), strings.Join(b, " "))
		}
	}
	return ""
}

func fmtViewRow(vals []any) string {
	b := func(v any) string {
		switch t := v.(type) {
		case []byte:
			return fmt.Sprintf("%x", t)
		case string:
			return fmt.Sprintf("%x", t)
		default:
			return fmt.Sprint(t)
		}
	}
	switch len(vals) {
	case 2:
		if _, isInt := vals[1].(int64); isInt {
			return b(vals[0]) + ":" + fmt.Sprint(vals[1]) // vkey: key, type
		}
		return b(vals[0]) + "=" + b(vals[1])
	default:
		switch t := vals[1].(type) {
		case int64: // vlist: key, idx, elem
			return fmt.Sprintf("%s#%d=%s", b(vals[0]), t, b(vals[2]))
		}
		if f, isF := vals[2].(float64); isF { // vzset: key, elem, score
			return fmt.Sprintf("%s=%s:%v", b(vals[0]), b(vals[1]), f)
		}
		return fmt.Sprintf("%s.%s=%s", b(vals[0]), b(vals[1]), b(vals[2])) // vhash
	}
}

// ViewsInTheLastSecond: keys of all five types that are alive but will expire within the current
// wall-clock second (at 900 ms into it; the check starts within the first 250 ms).  The views
// must show them exactly as the API does.  Returns "" when consistent (or when the timing could
// not be arranged), else the difference.
func ViewsInTheLastSecond() string {
	for attempt := 0; attempt < 3; attempt++ {
		x, err := OpenMem("viewsec")
		if err != nil {
			return ""
		}
		for time.Now().UnixMilli()%1000 > 150 {
			time.Sleep(3 * time.Millisecond)
		}
		at := time.UnixMilli(time.Now().UnixMilli()/1000*1000 + 900)
		_ = x.DB.Str().Set("vs", "v")
		_, _ = x.DB.List().PushBack("vl", "a")
		_, _ = x.DB.Set().Add("ve", "m")
		_, _ = x.DB.Hash().Set("vh", "f", "v")
		_, _ = x.DB.ZSet().Add("vz", "m", 1)
		_ = x.DB.Str().Set("control", "v")
		for _, k := range []string{"vs", "vl", "ve", "vh", "vz"} {
			_ = x.DB.Key().ExpireAt(k, at)
		}
		msg := AuditViews(x)
		done := time.Now()
		x.Close()
		if done.Before(at.Add(-100 * time.Millisecond)) {
			if msg != "" && msg != "ok" {
				return "keys alive in the wall-clock second in which they expire: " + msg
			}
			return ""
		}
	}
	return ""
}
