package hx

import (
	"fmt"
	"time"
)

// CorpusEntry is a hand-written history kept because it once exposed a
// deviation: the witnesses of the repaired defects (they must pass now) and
// of the recorded known findings (they must still deviate in the listed way).
type CorpusEntry struct {
	Name  string
	Props []string // properties it speaks to
	Known string   // name of the known finding it witnesses ("" = must pass)
	Build func(base int64) []*Step
}

func one(ops ...*Op) []*Step {
	var st []*Step
	for _, o := range ops {
		st = append(st, &Step{Ops: []*Op{o}})
	}
	return st
}
func block(stop bool, ops ...*Op) *Step { return &Step{Block: true, StopOnErr: stop, Ops: ops} }

var Corpus = []CorpusEntry{
	{Name: "lrange_out_of_range_bounds", Props: []string{"C02"}, Build: func(b int64) []*Step {
		s := one(LPushBack("k1", VStr("a")), LPushBack("k1", VStr("b")), LPushBack("k1", VStr("c")),
			LPushBack("k1", VStr("d")), LPushBack("k1", VStr("e")),
			LRange("k1", -10, 1), LRange("k1", 0, -10), LRange("k1", -2, 1), LRange("k1", 3, 100),
			LRange("missing", 0, -1), LRange("missing", -3, -1), LRange("k1", 0, 9223372036854775807),
			LTrim("missing", -4, -9), LTrim("k1", -10, 2), LRange("k1", 0, -1), LTrim("k1", 0, -10), LLen("k1"))
		return s
	}},
	{Name: "nil_byte_slice_values", Props: []string{"C17", "C01", "C02", "C03", "C04", "C05"}, Build: func(b int64) []*Step {
		return one(SSet("k1", VNil()), SGet("k1"), LPushBack("k2", VNil()), LRange("k2", 0, -1),
			EAdd("k3", VNil(), VStr("")), EItems("k3"), HSet("k4", "f", VNil()), HGet("k4", "f"),
			ZAdd("k5", VNil(), 1), ZRangeRank("k5", 0, -1, false), ZRangeRank("k5", 0, 5, false))
	}},
	{Name: "zset_delete_by_inverted_rank", Props: []string{"C05"}, Build: func(b int64) []*Step {
		return one(ZAdd("k1", VStr("a"), 1), ZAdd("k1", VStr("b"), 2), ZAdd("k1", VStr("c"), 3), ZAdd("k1", VStr("d"), 4),
			ZDeleteRank("k1", 2, 0), ZLen("k1"), ZRangeRank("k1", 0, 10, false), ZDeleteRank("k1", 1, 2), ZRangeRank("k1", 0, 10, false))
	}},
	{Name: "intersection_with_repeated_key", Props: []string{"C03", "C05"}, Build: func(b int64) []*Step {
		return one(EAdd("k1", VStr("a"), VStr("b")), EAdd("k2", VStr("b"), VStr("c")),
			EAlg("inter", "k1", "k1"), EAlg("inter", "k1", "k2", "k1"), EStore("inter", "k3", "k1", "k1"), EItems("k3"),
			KDelete("k1", "k2", "k3"),
			ZAdd("k1", VStr("a"), 1), ZAdd("k1", VStr("b"), 2), ZAdd("k2", VStr("b"), 5),
			ZAlg(true, "sum", "k1", "k1"), ZAlg(true, "max", "k1", "k2", "k2"), ZStore(true, "min", "k3", "k1", "k1"), ZRangeRank("k3", 0, 9, false))
	}},
	{Name: "collection_scan_after_descending_inserts", Props: []string{"C16"}, Build: func(b int64) []*Step {
		return one(EAdd("k1", VStr("z")), EAdd("k1", VStr("y")), EAdd("k1", VStr("x")), EAdd("k1", VStr("w")),
			EScan("k1", 0, "*", 2), EScan("k1", 2, "*", 2), EScan("k1", 4, "*", 2),
			HSet("k2", "z", VStr("1")), HSet("k2", "y", VStr("2")), HSet("k2", "x", VStr("3")), HSet("k2", "w", VStr("4")),
			HScan("k2", 0, "*", 2), HScan("k2", 2, "*", 2), HScan("k2", 4, "*", 2),
			ZAdd("k3", VStr("a"), 4), ZAdd("k3", VStr("b"), 3), ZAdd("k3", VStr("c"), 2), ZAdd("k3", VStr("d"), 1),
			ZScan("k3", 0, "*", 2), ZScan("k3", 2, "*", 2), ZScan("k3", 4, "*", 2))
	}},
	{Name: "writes_to_expired_but_stored_keys", Props: []string{"C10", "C01", "C02", "C03", "C04", "C05", "C06"}, Build: func(b int64) []*Step {
		past := b - 2*hour
		return one(
			SSet("k1", VStr("5")), KExpireAt("k1", past), SIncr("k1", 1), SGet("k1"), KGet("k1"),
			SSet("k2", VStr("v")), KExpireAt("k2", past), SSetWith("k2", VStr("w"), SetCall{Kind: 'K'}), SGet("k2"),
			SSet("k3", VStr("v")), KExpireAt("k3", past), LPushBack("k3", VStr("a")), LRange("k3", 0, -1), KGet("k3"),
			KDelete("k1", "k2", "k3"),
			EAdd("k1", VStr("old")), KExpireAt("k1", past), EAdd("k1", VStr("new")), EItems("k1"), KGet("k1"),
			LPushBack("k2", VStr("old")), KExpireAt("k2", past), LPushBack("k2", VStr("new")), LRange("k2", 0, -1), LLen("k2"),
			HSet("k3", "f", VStr("old")), KExpireAt("k3", past), HSet("k3", "g", VStr("new")), HItems("k3"),
			KDelete("k1", "k2", "k3"),
			ZAdd("k1", VStr("old"), 1), KExpireAt("k1", past), ZIncr("k1", VStr("new"), 2), ZRangeRank("k1", 0, 9, false),
			EAdd("k2", VStr("x")), EAdd("k3", VStr("x")), KExpireAt("k3", past), EStore("union", "k3", "k2"), EItems("k3"), KGet("k3"),
		)
	}},
	{Name: "list_insert_without_pivot", Props: []string{"C02", "C11", "C12", "C19"}, Build: func(b int64) []*Step {
		return []*Step{
			{Ops: []*Op{LPushBack("k1", VStr("a"))}}, {Ops: []*Op{LPopBack("k1")}},
			{Ops: []*Op{LInsertBefore("k1", VStr("a"), VStr("x"))}}, {Ops: []*Op{LLen("k1")}}, {Ops: []*Op{LRange("k1", 0, -1)}},
			{Ops: []*Op{LPushBack("k2", VStr("a"))}},
			block(false, LInsertAfter("k2", VStr("nope"), VStr("x")), LLen("k2")),
			{Ops: []*Op{LLen("k2")}}, {Ops: []*Op{KGet("k2")}},
		}
	}},
	{Name: "store_with_destination_among_sources", Props: []string{"C03", "C05"}, Build: func(b int64) []*Step {
		return one(EAdd("k1", VStr("a"), VStr("b")), EAdd("k2", VStr("b"), VStr("c")),
			EStore("union", "k1", "k1", "k2"), EItems("k1"), EStore("inter", "k1", "k1", "k2"), EItems("k1"),
			EStore("diff", "k2", "k2", "k1"), EItems("k2"),
			KDelete("k1", "k2"),
			ZAdd("k1", VStr("a"), 1), ZAdd("k2", VStr("a"), 2), ZAdd("k2", VStr("b"), 3),
			ZStore(false, "sum", "k1", "k1", "k2"), ZRangeRank("k1", 0, 9, false),
			ZStore(true, "max", "k2", "k1", "k2"), ZRangeRank("k2", 0, 9, false))
	}},
	{Name: "integer_increment_overflow", Props: []string{"C01", "C04"}, Build: func(b int64) []*Step {
		return one(SSet("k1", VStr("9223372036854775807")), SIncr("k1", 1), SGet("k1"), SIncr("k1", -1), SGet("k1"),
			HSet("k2", "f", VStr("-9223372036854775808")), HIncr("k2", "f", -1), HGet("k2", "f"), HIncr("k2", "f", 1))
	}},
	{Name: "empty_key_name", Props: []string{"C17", "C06"}, Build: func(b int64) []*Step {
		return one(SSet("", VStr("v")), SGet(""), KGet(""), KExists(""), KRename("", "k2"), SGet("k2"), KRenameNX("k2", ""), KGet(""),
			HSet("", "", VStr("")), LPushBack("k3", VStr("")), KKeys(""), KKeys("*"))
	}},
	{Name: "list_insert_53_times_before_one_element", Props: []string{"C02"}, Known: "kf_list_position_exhausted", Build: func(b int64) []*Step {
		ops := []*Op{LPushBack("k1", VStr("a")), LPushBack("k1", VStr("b"))}
		for i := 0; i < 55; i++ {
			ops = append(ops, LInsertBefore("k1", VStr("b"), VStr(fmt.Sprintf("m%d", i))))
		}
		ops = append(ops, LLen("k1"), LRange("k1", 0, 3), LPopBack("k1"), LInsertAfter("k1", VStr("a"), VStr("z")), LRange("k1", 0, 2))
		return one(ops...)
	}},
	{Name: "scan_across_a_store_into_the_iterated_set", Props: []string{"C16"}, Known: "kf_iteration_across_store_into_iterated_key", Build: func(b int64) []*Step {
		st := one(EAdd("k1", VStr("b")), EAdd("k1", VStr("a")))
		return append(st, IterationAcross('E', "k1", func() *Op { return EStore("union", "k1", "k1") }, "kf_iteration_across_store_into_iterated_key"))
	}},
	{Name: "scan_across_a_store_into_the_iterated_sorted_set", Props: []string{"C16"}, Known: "kf_iteration_across_store_into_iterated_key", Build: func(b int64) []*Step {
		st := one(ZAdd("k1", VStr("b"), 2), ZAdd("k1", VStr("a"), 1))
		return append(st, IterationAcross('Z', "k1", func() *Op { return ZStore(false, "sum", "k1", "k1") }, "kf_iteration_across_store_into_iterated_key"))
	}},
	{Name: "scan_across_a_move_from_the_set_to_itself", Props: []string{"C16"}, Known: "kf_iteration_across_move_to_same_key", Build: func(b int64) []*Step {
		st := one(EAdd("k1", VStr("b")), EAdd("k1", VStr("a")))
		return append(st, IterationAcross('E', "k1", func() *Op { return EMove("k1", "k1", VStr("b")) }, "kf_iteration_across_move_to_same_key"))
	}},
	{Name: "key_len_counts_expired_keys", Props: []string{"C06", "C10"}, Known: "kf_keylen_counts_expired", Build: func(b int64) []*Step {
		return one(SSet("k1", VStr("v")), SSet("k2", VStr("w")), KExpireAt("k1", b-2*hour), KLen(), KCount("k1", "k2"))
	}},
}

// CorpusHistory builds the named entry as a history.
func CorpusHistory(i int) *History {
	e := Corpus[i]
	h := &History{ID: 100000 + i, Tag: "corpus:" + e.Name, Steps: e.Build(time.Now().UnixMilli())}
	h.Number()
	return h
}
