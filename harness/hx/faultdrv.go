package hx

import (
	"context"
	"database/sql"
	"database/sql/driver"
	"errors"
	"fmt"
	"os"
	"regexp"
	"strings"
	"sync"
	"sync/atomic"

	sqlite3 "github.com/mattn/go-sqlite3"
)

// FaultDriver is an interposing database/sql driver around the mattn SQLite
// driver.  It counts the storage steps a handle issues (statement executions,
// queries, begins, commits) and can make the k-th step fail, or make the
// process exit at the k-th step (crash points).  Selected through the public
// redka.Options.DriverName.
const FaultDriverName = "sqlite3-hxfault"

// ErrInjected is what a failed step returns.
var ErrInjected = errors.New("injected fault")

// FaultPlan is shared by all connections of the interposing driver.
type FaultPlan struct {
	mu       sync.Mutex
	enabled  bool
	count    int64 // steps seen since Arm
	failAt   int64 // fail this step (1-based); 0 = never
	exitAt   int64 // os.Exit at this step; 0 = never
	exitPost bool  // exit after the step has been executed instead of before
	Fired    bool
	Trace    []string // kinds of the steps seen
	// OnStep, when set, is called with the step kind before it runs
	// (used to interleave a reader between a writer's statements).
	OnStep func(kind string, n int64)
	// DDL, when set before a connection is opened, makes every CREATE TABLE / INDEX /
	// TRIGGER / VIEW statement a step of its own (kind "ddl", seen through SQLite's
	// authorizer callback when the statement is compiled, i.e. before it runs): the
	// schema script is one driver-level statement, and this is how a crash in the
	// middle of it is placed.
	DDL bool
	// Stmt likewise makes every statement inside one driver-level call a step of its own (kind
	// "stmt": the authorizer sees a DELETE / INSERT / UPDATE / SELECT being compiled, which in a
	// multi-statement string happens after the previous statement has run): a second caller can
	// be placed between the statements of a script executed with one Exec.
	Stmt     bool
	lastStmt string
	// Done makes the END of a query that runs outside a transaction a step of its own (kind
	// "done", when its rows are closed): the moment at which a caller that has read on one
	// connection and not yet asked for the next one holds no connection at all.
	Done bool
	// SQL, when set, records the text and arguments of every statement (Stmts), with instants
	// (integers that look like a millisecond or second clock) replaced by "T".
	SQL   bool
	Stmts []string
}

var wsRe = regexp.MustCompile(`\s+`)

// "... (kid, pos, elem) values (" or "... (kid, pos, elem) select " right before the first placeholder
var kidFirstRe = regexp.MustCompile(`\(kid,[^)]*\) (values \(|select )$`)

func (p *FaultPlan) record(kind, query string, args []driver.NamedValue) {
	if !p.SQL {
		return
	}
	var b strings.Builder
	b.WriteString(kind)
	b.WriteString(": ")
	b.WriteString(strings.TrimSpace(wsRe.ReplaceAllString(query, " ")))
	// the placeholders that stand for a key's row id (they depend on the order in which keys
	// were created, which for a multi-key call is the order a Go map was walked in)
	norm := strings.TrimSpace(wsRe.ReplaceAllString(query, " "))
	idArg := map[int]bool{}
	n := 0
	for i := 0; i < len(norm); i++ {
		if norm[i] != '?' {
			continue
		}
		before := norm[:i]
		if strings.HasSuffix(before, "kid = ") || kidFirstRe.MatchString(before) {
			idArg[n] = true
		}
		n++
	}
	for i, a := range args {
		b.WriteString(" | ")
		if idArg[i] {
			b.WriteString("KID")
			continue
		}
		switch v := a.Value.(type) {
		case int64:
			if v > 1500000000 {
				b.WriteString("T")
			} else {
				fmt.Fprint(&b, v)
			}
		case []byte:
			fmt.Fprintf(&b, "x%x", v)
		case string:
			fmt.Fprintf(&b, "s%x", v)
		case float64:
			fmt.Fprint(&b, v)
		default:
			fmt.Fprintf(&b, "%v", v)
		}
	}
	p.mu.Lock()
	if p.enabled {
		p.Stmts = append(p.Stmts, b.String())
	}
	p.mu.Unlock()
}

var Plan = &FaultPlan{}

// Arm resets the counter; failAt/exitAt = 0 just counts.
func (p *FaultPlan) Arm(failAt, exitAt int64, exitPost bool) {
	p.mu.Lock()
	defer p.mu.Unlock()
	p.enabled = true
	p.count = 0
	p.failAt = failAt
	p.exitAt = exitAt
	p.exitPost = exitPost
	p.Fired = false
	p.Trace = nil
	p.Stmts = nil
	p.lastStmt = ""
}

// Disarm stops counting and returns the number of steps seen.
func (p *FaultPlan) Disarm() int64 {
	p.mu.Lock()
	defer p.mu.Unlock()
	p.enabled = false
	p.OnStep = nil
	return p.count
}

var stepSerial atomic.Int64

// step is called before a storage step; a non-nil error makes the step fail.
func (p *FaultPlan) step(kind string) (err error, post func()) {
	p.mu.Lock()
	if !p.enabled {
		p.mu.Unlock()
		return nil, nil
	}
	p.count++
	n := p.count
	p.Trace = append(p.Trace, kind)
	cb := p.OnStep
	fail := p.failAt != 0 && n == p.failAt && kind != "done"
	exit := p.exitAt != 0 && n == p.exitAt && kind != "done"
	exitPost := p.exitPost
	if fail {
		p.Fired = true
	}
	p.mu.Unlock()
	if cb != nil {
		cb(kind, n)
	}
	if exit && !exitPost {
		os.Exit(77)
	}
	if fail {
		return ErrInjected, nil
	}
	if exit && exitPost {
		return nil, func() { os.Exit(77) }
	}
	return nil, nil
}

type faultDriver struct{ inner *sqlite3.SQLiteDriver }

func (d *faultDriver) Open(name string) (driver.Conn, error) {
	c, err := d.inner.Open(name)
	if err != nil {
		return nil, err
	}
	return &faultConn{c: c.(*sqlite3.SQLiteConn)}, nil
}

type faultConn struct {
	c    *sqlite3.SQLiteConn
	inTx bool
}

// faultRows reports the end of an autocommitted query as a step.
type faultRows struct {
	driver.Rows
	closed bool
}

func (r *faultRows) Close() error {
	e := r.Rows.Close()
	if !r.closed {
		r.closed = true
		_, _ = Plan.step("done")
	}
	return e
}

func (fc *faultConn) Prepare(query string) (driver.Stmt, error) { return fc.c.Prepare(query) }
func (fc *faultConn) Close() error                              { return fc.c.Close() }
func (fc *faultConn) Begin() (driver.Tx, error) {
	return fc.BeginTx(context.Background(), driver.TxOptions{})
}

func (fc *faultConn) BeginTx(ctx context.Context, opts driver.TxOptions) (driver.Tx, error) {
	err, post := Plan.step("begin")
	if err != nil {
		return nil, err
	}
	tx, e := fc.c.BeginTx(ctx, opts)
	if post != nil {
		post()
	}
	if e != nil {
		return nil, e
	}
	fc.inTx = true
	return &faultTx{tx: tx, fc: fc}, nil
}

func (fc *faultConn) ExecContext(ctx context.Context, query string, args []driver.NamedValue) (driver.Result, error) {
	Plan.record("exec", query, args)
	err, post := Plan.step("exec")
	if err != nil {
		return nil, err
	}
	r, e := fc.c.ExecContext(ctx, query, args)
	if post != nil {
		post()
	}
	return r, e
}

func (fc *faultConn) QueryContext(ctx context.Context, query string, args []driver.NamedValue) (driver.Rows, error) {
	Plan.record("query", query, args)
	err, post := Plan.step("query")
	if err != nil {
		return nil, err
	}
	r, e := fc.c.QueryContext(ctx, query, args)
	if post != nil {
		post()
	}
	if e == nil && r != nil && Plan.Done && !fc.inTx {
		return &faultRows{Rows: r}, nil
	}
	return r, e
}

func (fc *faultConn) PrepareContext(ctx context.Context, query string) (driver.Stmt, error) {
	return fc.c.PrepareContext(ctx, query)
}
func (fc *faultConn) Ping(ctx context.Context) error { return fc.c.Ping(ctx) }

type faultTx struct {
	tx driver.Tx
	fc *faultConn
}

func (t *faultTx) Commit() error {
	if t.fc != nil {
		t.fc.inTx = false
	}
	err, post := Plan.step("commit")
	if err != nil {
		// a failed commit leaves the transaction to be rolled back
		_ = t.tx.Rollback()
		return err
	}
	e := t.tx.Commit()
	if post != nil {
		post()
	}
	return e
}
func (t *faultTx) Rollback() error {
	if t.fc != nil {
		t.fc.inTx = false
	}
	return t.tx.Rollback()
}

func init() {
	inner := &sqlite3.SQLiteDriver{ConnectHook: func(c *sqlite3.SQLiteConn) error {
		if !Plan.DDL && !Plan.Stmt {
			return nil
		}
		c.RegisterAuthorizer(func(op int, a1, a2, a3 string) int {
			switch op {
			case sqlite3.SQLITE_CREATE_TABLE, sqlite3.SQLITE_CREATE_INDEX, sqlite3.SQLITE_CREATE_TRIGGER, sqlite3.SQLITE_CREATE_VIEW:
				if Plan.DDL {
					if _, post := Plan.step("ddl"); post != nil {
						post()
					}
				}
			case sqlite3.SQLITE_DELETE, sqlite3.SQLITE_INSERT:
				// one step per (action, table): the columns and sub-selects of one statement
				// produce further callbacks that are not statement boundaries
				if Plan.Stmt {
					key := fmt.Sprint(op, a1)
					if key != Plan.lastStmt {
						Plan.lastStmt = key
						_, _ = Plan.step("stmt")
					}
				}
			}
			return sqlite3.SQLITE_OK
		})
		return nil
	}}
	sql.Register(FaultDriverName, &faultDriver{inner})
}
