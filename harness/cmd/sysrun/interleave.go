package main

import (
	"encoding/hex"
	"fmt"
	"github.com/nalgeon/redka"
	"os"
	"path/filepath"
	"sort"
	"strings"
	"sync/atomic"
	"time"

	"verif/harness/hx"
)

// c08Interleave: statement-level interleavings of one write operation W with a second caller X.
// W runs on one goroutine through the interposing driver; before its k-th storage step (begin,
// statement, query, commit) it is held while X - a deletion of the keys, another write, or a
// reader of the whole content - is started on a second goroutine.  X either completes there and
// then, or has to wait for W (W is released as soon as X is seen waiting for the handle's
// connection).  Whatever happens, the two results and the final content must be those of
// one of the two sequential orders, W;X or X;W, which are obtained by running them
// on twin databases with the same pre-state.
type ilOutcome struct{ rw, rx, content string }

func (o ilOutcome) String() string {
	return fmt.Sprintf("W -> %s | X -> %s | content: %s", o.rw, o.rx, o.content)
}

type ilX struct {
	name string
	op   *hx.Op // nil = reader of the whole content
	pre  *hx.Op // when set: X is ONE transaction that first runs pre (an observation), then op
}

func ilEligible(st *hx.Step) bool {
	if st.Block || st.Gen != nil || len(st.Ops) != 1 {
		return false
	}
	op := st.Ops[0]
	if !op.Write || len(op.RelTTL) > 0 {
		return false
	}
	switch op.Name {
	case "EPop", "ERandom", "KRandom", "KDeleteExpired":
		return false
	}
	return true
}

func ilOpen(dir string, onFile bool, tag string, prefix []*hx.Step) (*hx.Exec, error) {
	var x *hx.Exec
	var err error
	if onFile {
		x, err = hx.OpenPathDriver(filepath.Join(dir, tag+".db"), hx.FaultDriverName)
	} else {
		x, err = hx.OpenMemDriver("il"+tag, hx.FaultDriverName)
	}
	if err != nil {
		return nil, err
	}
	for _, st := range prefix {
		runStepRaw(x, st)
	}
	return x, nil
}

func ilRunX(x *hx.Exec, xx ilX) string {
	if xx.op == nil {
		c, err := hx.ContentOfDB(x.DB)
		if err != nil {
			return "err " + err.Error()
		}
		return c.Text
	}
	if xx.pre != nil {
		var r1, r2 hx.Res
		err := x.DB.Update(func(tx *redka.Tx) error {
			r1 = xx.pre.Run(hxTx(tx), x, xx.pre)
			r2 = xx.op.Run(hxTx(tx), x, xx.op)
			return nil
		})
		if err != nil {
			return "err " + err.Error()
		}
		return r1.String() + " ; " + r2.String()
	}
	return runOpDB(x, xx.op)
}

func ilContent(x *hx.Exec) string {
	c, err := hx.ContentOfDB(x.DB)
	if err != nil {
		return "unreadable: " + err.Error()
	}
	return c.Text
}

// runC08CommandInterleave: the same for COMMANDS, executed in-process through the server's parse
// and run code on the plain handle: a command that writes several elements, or reads several, is
// one atomic step however the command layer maps it onto the Go API.
func runC08CommandInterleave() {
	dir, err := os.MkdirTemp("", "sysrun-ilc-")
	if err != nil {
		fail("harness", err.Error(), nil)
		return
	}
	defer os.RemoveAll(dir)
	cmd := func(write bool, args ...string) *hx.Op { return hx.CommandOp(write, args...) }
	step := func(op *hx.Op) *hx.Step { return &hx.Step{Ops: []*hx.Op{op}} }
	prefix := []*hx.Step{
		step(cmd(true, "MSET", "k1", "a", "k2", "a")), step(cmd(true, "HSET", "h", "f1", "0", "f2", "0")),
		step(cmd(true, "SADD", "e", "x")), step(cmd(true, "SADD", "e2", "y")), step(cmd(true, "ZADD", "z", "1", "x")),
		step(cmd(true, "RPUSH", "l", "a")), step(cmd(true, "RPUSH", "l", "b")), step(cmd(true, "RPUSH", "l", "c")),
	}
	X := func(name string, write bool, args ...string) ilX { return ilX{name: name, op: cmd(write, args...)} }
	type cc struct {
		w  *hx.Op
		xs []ilX
	}
	cases := []cc{
		{cmd(true, "HSET", "h", "f1", "1", "f2", "1"), []ilX{X("reader", false, "HMGET", "h", "f1", "f2"), X("rival", true, "HSET", "h", "f2", "2", "f1", "2")}},
		{cmd(true, "HMSET", "h", "f1", "1", "f2", "1"), []ilX{X("reader", false, "HMGET", "h", "f1", "f2"), X("rival", true, "HMSET", "h", "f2", "2", "f1", "2")}},
		{cmd(true, "HDEL", "h", "f1", "f2"), []ilX{X("reader", false, "HMGET", "h", "f1", "f2"), X("reader", false, "HLEN", "h")}},
		{cmd(true, "MSET", "k1", "1", "k2", "1"), []ilX{X("reader", false, "MGET", "k1", "k2"), X("rival", true, "MSET", "k2", "2", "k1", "2")}},
		{cmd(true, "DEL", "k1", "k2"), []ilX{X("reader", false, "MGET", "k1", "k2"), X("reader", false, "EXISTS", "k1", "k2")}},
		{cmd(true, "RENAME", "k1", "k3"), []ilX{X("reader", false, "EXISTS", "k1", "k3"), X("reader", false, "MGET", "k1", "k3")}},
		{cmd(true, "SADD", "e", "m1", "m2"), []ilX{X("reader", false, "SCARD", "e"), X("rival", true, "SREM", "e", "m1", "m2", "x")}},
		{cmd(true, "SREM", "e", "x", "nothing"), []ilX{X("reader", false, "SCARD", "e")}},
		{cmd(true, "SUNIONSTORE", "d", "e", "e2"), []ilX{X("reader", false, "SCARD", "d"), X("rival", true, "SADD", "e2", "late")}},
		{cmd(true, "SMOVE", "e", "e2", "x"), []ilX{X("reader", true, "SUNIONSTORE", "probe", "e", "e2"), X("reader", false, "SISMEMBER", "e2", "x")}},
		{cmd(true, "ZADD", "z", "1", "m1", "2", "m2"), []ilX{X("reader", false, "ZCARD", "z"), X("reader", false, "ZRANGE", "z", "0", "-1")}},
		{cmd(true, "ZREM", "z", "x", "nothing"), []ilX{X("reader", false, "ZCARD", "z")}},
		{cmd(true, "RPUSH", "l", "x"), []ilX{X("reader", false, "LRANGE", "l", "0", "-1"), X("reader", false, "LLEN", "l"), X("rival", true, "LPUSH", "l", "p")}},
		{cmd(true, "LPUSH", "l", "x"), []ilX{X("reader", false, "LRANGE", "l", "-2", "-1"), X("rival", true, "RPOP", "l")}},
		{cmd(true, "RPOPLPUSH", "l", "l2"), []ilX{X("reader", false, "LLEN", "l"), X("reader", false, "LRANGE", "l2", "0", "-1")}},
		{cmd(true, "LINSERT", "l", "BEFORE", "b", "n"), []ilX{X("reader", false, "LRANGE", "l", "0", "-1"), X("rival", true, "LREM", "l", "0", "b")}},
		{cmd(true, "SET", "k1", "v", "EX", "1000"), []ilX{X("rival", true, "SET", "k1", "w"), X("rival", true, "DEL", "k1")}},
		{cmd(true, "SETNX", "lock", "v1"), []ilX{X("rival", true, "SETNX", "lock", "v2"), X("rival", true, "SET", "lock", "w", "NX"), X("rival", true, "SET", "lock", "w")}},
		{cmd(true, "SET", "lock", "v1", "NX"), []ilX{X("rival", true, "SETNX", "lock", "v2"), X("rival", true, "SET", "lock", "w", "XX")}},
		{cmd(true, "HSETNX", "h", "fnew", "v1"), []ilX{X("rival", true, "HSETNX", "h", "fnew", "v2"), X("rival", true, "HSET", "h", "fnew", "w")}},
		{cmd(true, "RENAMENX", "k1", "k9"), []ilX{X("rival", true, "SET", "k9", "w"), X("rival", true, "RENAMENX", "k2", "k9")}},
		{cmd(true, "SDIFFSTORE", "d", "e", "e2"), []ilX{X("rival", true, "SADD", "e2", "x"), X("rival", true, "SREM", "e", "x")}},
		{cmd(true, "GETSET", "k1", "n"), []ilX{X("rival", true, "GETSET", "k1", "m"), X("rival", true, "SETNX", "k1", "q")}},
		{cmd(true, "INCRBYFLOAT", "z9", "1.5"), []ilX{X("rival", true, "INCRBYFLOAT", "z9", "2.5")}},
		{cmd(true, "HINCRBY", "h", "f1", "5"), []ilX{X("rival", true, "HINCRBY", "h", "f1", "7"), X("rival", true, "HSET", "h", "f1", "100")}},
		{cmd(true, "ZINCRBY", "z", "2", "x"), []ilX{X("rival", true, "ZINCRBY", "z", "3", "x"), X("rival", true, "ZADD", "z", "10", "x")}},
		// reads held between their statements
		{cmd(false, "MGET", "k1", "k2"), []ilX{X("writer", true, "MSET", "k1", "1", "k2", "1"), X("writer", true, "DEL", "k1", "k2")}},
		{cmd(false, "HMGET", "h", "f1", "f2"), []ilX{X("writer", true, "HSET", "h", "f1", "1", "f2", "1")}},
		{cmd(false, "EXISTS", "k1", "k3"), []ilX{X("writer", true, "RENAME", "k1", "k3")}},
		{cmd(false, "LRANGE", "l", "0", "-1"), []ilX{X("writer", true, "LPUSH", "l", "x"), X("writer", true, "LPOP", "l")}},
		{cmd(false, "LRANGE", "l", "-2", "-1"), []ilX{X("writer", true, "LPUSH", "l", "x"), X("writer", true, "RPOP", "l")}},
		{cmd(false, "LINDEX", "l", "-1"), []ilX{X("writer", true, "RPUSH", "l", "x"), X("writer", true, "RPOP", "l")}},
		{cmd(false, "ZRANGE", "z", "0", "-1", "WITHSCORES"), []ilX{X("writer", true, "ZADD", "z", "5", "x", "6", "n")}},
		{cmd(false, "ZRANGEBYSCORE", "z", "-inf", "+inf"), []ilX{X("writer", true, "ZADD", "z", "5", "x", "6", "n")}},
		{cmd(false, "SCARD", "e"), []ilX{X("writer", true, "SADD", "e", "m1", "m2")}},
		{cmd(false, "STRLEN", "k1"), []ilX{X("writer", true, "APPEND", "k1", "xyz")}},
		{cmd(false, "TTL", "k1"), []ilX{X("writer", true, "SET", "k1", "v", "EX", "1000")}},
	}
	dbNo := 0
	for i, c := range cases {
		if len(sum.Failures) > 0 {
			return
		}
		before := sum.Cases
		c08InterleaveCase(dir, nil, 4*i+1, &dbNo, opCase{Hist: &hx.History{ID: 800000 + i}, Prefix: prefix, Target: step(c.w), Kind: c.w.Name, Xs: c.xs})
		if sum.Cases > before {
			count("command_interleaved_" + c.w.Name)
		}
	}
}

// traceShape classifies the storage steps of ONE call on the plain handle: "single" (one
// statement, atomic by itself), "bracket" (everything between one begin and its commit), "none",
// or a description of what is outside (several statements with no transaction around them,
// statements before or after the bracket, two brackets).
func traceShape(trace []string) string {
	var steps []string
	for _, t := range trace {
		if t != "done" && t != "stmt" && t != "ddl" {
			steps = append(steps, t)
		}
	}
	if len(steps) == 0 {
		return "none"
	}
	if len(steps) == 1 && steps[0] != "begin" {
		return "single"
	}
	if steps[0] == "begin" && steps[len(steps)-1] == "commit" {
		inner := 0
		for _, t := range steps[1 : len(steps)-1] {
			if t == "begin" || t == "commit" {
				inner++
			}
		}
		if inner == 0 {
			return "bracket"
		}
		return "several transactions: " + strings.Join(steps, ",")
	}
	if steps[0] == "begin" {
		// a transaction that was rolled back (refused operation): begin, statements, no commit
		for _, t := range steps[1:] {
			if t == "begin" || t == "commit" {
				return "statements outside the transaction: " + strings.Join(steps, ",")
			}
		}
		return "bracket"
	}
	return "statements outside a transaction: " + strings.Join(steps, ",")
}

// runC08TraceShapes: every kind of operation of the Go API and every command (one well-formed
// vector each, through the server's parse-and-run code) is run once on the plain handle with the
// interposing driver recording its storage steps: a call is ONE statement or ONE transaction.
func runC08TraceShapes(seed int64) { traceShapes(seed, "c08-not-atomic", false) }

// traceShapes: see runC08TraceShapes; failKind names the failure, writesOnly leaves the reads out
// (all-or-nothing and durability speak about calls that write).
func traceShapes(seed int64, failKind string, writesOnly bool) {
	tweak := func(p *hx.Profile) {
		p.MinSteps, p.MaxSteps = 8, 20
	}
	pool := newCasePool(seed+91, allFamilies, 30, tweak, func(st *hx.Step) bool {
		return !st.Block && st.Gen == nil && len(st.Ops) == 1
	})
	bad := map[string]string{}
	shapes := map[string]int{}
	for _, kind := range pool.kinds {
		for try := 0; try < 3; try++ {
			c, found := pool.Take(kind)
			if !found {
				break
			}
			x, err := hx.OpenMemDriver(fmt.Sprintf("shape_%s_%d", strings.ReplaceAll(kind, ":", "_"), try), hx.FaultDriverName)
			if err != nil {
				fail("harness", err.Error(), nil)
				return
			}
			for _, st := range c.Prefix {
				runStepRaw(x, st)
			}
			hx.Plan.Arm(0, 0, false)
			runOpDB(x, c.Target.Ops[0])
			trace := append([]string(nil), hx.Plan.Trace...)
			hx.Plan.Disarm()
			x.Close()
			sh := traceShape(trace)
			if writesOnly && !c.Target.Ops[0].Write {
				break
			}
			if c.Target.Ops[0].Name == "SIncrFloat" || c.Target.Ops[0].Name == "HIncrFloat" {
				continue // (the harness wrapper of these two reads the old value itself first; covered as commands below)
			}
			sum.Cases++
			if sh == "single" || sh == "bracket" || sh == "none" {
				shapes[sh]++
			} else if _, seen := bad[kind]; !seen {
				bad[kind] = fmt.Sprintf("[%s]: %s", c.Target.Ops[0].Tok, sh)
			}
		}
	}
	// ... and every command of the dispatch table, on keys that exist (and on a wrong-type key)
	cmds := [][]string{
		{"DEL", "k1", "k2"}, {"EXISTS", "k1", "k2", "k1"}, {"EXPIRE", "k1", "1000"}, {"EXPIREAT", "k1", "9999999999"}, {"KEYS", "*"}, {"PERSIST", "k1"},
		{"PEXPIRE", "k1", "1000000"}, {"PEXPIREAT", "k1", "9999999999000"}, {"RANDOMKEY"}, {"RENAME", "k1", "k9"}, {"RENAMENX", "k1", "k8"}, {"SCAN", "0"},
		{"TTL", "k1"}, {"TYPE", "k1"}, {"DBSIZE"},
		{"LINDEX", "l", "-1"}, {"LINSERT", "l", "BEFORE", "b", "x"}, {"LLEN", "l"}, {"LPOP", "l"}, {"LPUSH", "l", "x"}, {"LRANGE", "l", "-2", "-1"}, {"LREM", "l", "0", "a"},
		{"LSET", "l", "0", "v"}, {"LTRIM", "l", "0", "1"}, {"RPOP", "l"}, {"RPOPLPUSH", "l", "l2"}, {"RPUSH", "l", "x"},
		{"DECR", "n"}, {"DECRBY", "n", "2"}, {"GET", "k1"}, {"GETSET", "k1", "v"}, {"INCR", "n"}, {"INCRBY", "n", "5"}, {"INCRBYFLOAT", "n", "1.5"}, {"MGET", "k1", "k2"},
		{"MSET", "k1", "a", "k2", "b", "k7", "c"}, {"PSETEX", "k1", "100000", "v"}, {"SET", "k1", "v"}, {"SET", "k1", "v", "NX"}, {"SET", "k1", "v", "XX", "GET", "EX", "1000"},
		{"SET", "k1", "v", "KEEPTTL"}, {"SETEX", "k1", "1000", "v"}, {"SETNX", "k6", "v"}, {"STRLEN", "k1"},
		{"HDEL", "h", "f1", "f2"}, {"HEXISTS", "h", "f1"}, {"HGET", "h", "f1"}, {"HGETALL", "h"}, {"HINCRBY", "h", "f1", "2"}, {"HINCRBYFLOAT", "h", "f1", "1.5"}, {"HKEYS", "h"},
		{"HLEN", "h"}, {"HMGET", "h", "f1", "f2"}, {"HMSET", "h", "f1", "1", "f3", "3"}, {"HSCAN", "h", "0"}, {"HSET", "h", "f1", "1", "f4", "4"}, {"HSETNX", "h", "f9", "v"}, {"HVALS", "h"},
		{"SADD", "e", "m1", "m2"}, {"SCARD", "e"}, {"SDIFF", "e", "e2"}, {"SDIFFSTORE", "d", "e", "e2"}, {"SINTER", "e", "e2"}, {"SINTERSTORE", "d", "e", "e2"}, {"SISMEMBER", "e", "x"},
		{"SMEMBERS", "e"}, {"SMOVE", "e", "e2", "x"}, {"SPOP", "e"}, {"SRANDMEMBER", "e"}, {"SREM", "e", "x", "y"}, {"SSCAN", "e", "0"}, {"SUNION", "e", "e2"}, {"SUNIONSTORE", "d", "e", "e2"},
		{"ZADD", "z", "1", "m1", "2", "m2"}, {"ZCARD", "z"}, {"ZCOUNT", "z", "0", "5"}, {"ZINCRBY", "z", "2", "x"}, {"ZINTER", "2", "z", "z2"}, {"ZINTERSTORE", "zd", "2", "z", "z2"},
		{"ZRANGE", "z", "0", "-1"}, {"ZRANGEBYSCORE", "z", "0", "5"}, {"ZRANK", "z", "x"}, {"ZREM", "z", "x", "y"}, {"ZREMRANGEBYRANK", "z", "0", "0"}, {"ZREMRANGEBYSCORE", "z", "0", "1"},
		{"ZREVRANGE", "z", "0", "-1"}, {"ZREVRANGEBYSCORE", "z", "5", "0"}, {"ZREVRANK", "z", "x"}, {"ZSCAN", "z", "0"}, {"ZSCORE", "z", "x"}, {"ZUNION", "2", "z", "z2"}, {"ZUNIONSTORE", "zd", "2", "z", "z2"},
		// refused: a key of another type in a later role
		{"MSET", "k1", "a", "l", "b"}, {"SMOVE", "e", "k1", "x"}, {"RPOPLPUSH", "l", "k1"}, {"SUNIONSTORE", "k1", "e"}, {"ZUNIONSTORE", "k1", "1", "z"}, {"RENAME", "nokey", "k1"},
	}
	setup := [][]string{{"MSET", "k1", "a", "k2", "b"}, {"SET", "n", "5"}, {"HSET", "h", "f1", "1", "f2", "b"}, {"SADD", "e", "x", "y"}, {"SADD", "e2", "y", "w"},
		{"ZADD", "z", "1", "x", "2", "y"}, {"ZADD", "z2", "5", "y"}, {"RPUSH", "l", "a"}, {"RPUSH", "l", "b"}, {"RPUSH", "l", "c"}, {"EXPIRE", "k1", "5000"}}
	for i, c := range cmds {
		x, err := hx.OpenMemDriver(fmt.Sprintf("shapec_%d", i), hx.FaultDriverName)
		if err != nil {
			fail("harness", err.Error(), nil)
			return
		}
		for _, st := range setup {
			runOpDB(x, hx.CommandOp(true, st...))
		}
		hx.Plan.Arm(0, 0, false)
		res := runOpDB(x, hx.CommandOp(true, c...))
		trace := append([]string(nil), hx.Plan.Trace...)
		hx.Plan.Disarm()
		x.Close()
		if strings.HasPrefix(res, "err parse") {
			continue // not a command of this server
		}
		sh := traceShape(trace)
		if writesOnly {
			wrote := false
			for _, t := range trace {
				if t == "exec" || t == "begin" {
					wrote = true
				}
			}
			if !wrote {
				continue
			}
		}
		sum.Cases++
		if sh == "single" || sh == "bracket" || sh == "none" {
			shapes["command_"+sh]++
		} else if _, seen := bad["cmd:"+c[0]]; !seen {
			bad["cmd:"+c[0]+fmt.Sprint(i)] = fmt.Sprintf("[%s]: %s", strings.Join(c, " "), sh)
		}
	}
	for k, v := range shapes {
		sum.Counters["trace_shape_"+k] += v
	}
	var names []string
	for k := range bad {
		names = append(names, k)
	}
	sort.Strings(names)
	for _, k := range names {
		fail(failKind, "one call on the plain handle is neither one statement nor one transaction: "+bad[k], map[string]any{"kind": k})
	}
}

// readEligible: a single reading operation on the plain handle whose result is determined by the content.
func readEligible(st *hx.Step) bool {
	if st.Block || st.Gen != nil || len(st.Ops) != 1 {
		return false
	}
	op := st.Ops[0]
	if op.Write || op.RunDB != nil {
		return false
	}
	switch op.Name {
	case "ERandom", "KRandom", "KLen", "KScan", "EScan", "HScan", "ZScan", "KGet", "KKeys": // (random, or carrying modification times, which differ between twin databases)
		return false
	}
	return true
}

// runC08ReadInterleave: a READ on the plain handle is one atomic look.  It is held before each of
// its storage steps while a writer of what it reads commits; its result must be the one it gives
// before or after that write.
func runC08ReadInterleave(seed int64, n int) {
	dir, err := os.MkdirTemp("", "sysrun-ilr-")
	if err != nil {
		fail("harness", err.Error(), nil)
		return
	}
	defer os.RemoveAll(dir)
	tweak := func(p *hx.Profile) {
		p.MinSteps, p.MaxSteps = 8, 24
		p.Expiry = false
		p.ExpireProb = 0
	}
	pool := newCasePool(seed+57, allFamilies, 40, tweak, func(st *hx.Step) bool { return readEligible(st) || ilEligible(st) })
	dbNo := 0
	informative := map[string]int{}
	defer func() { coverageCounters("read_interleaved_", informative) }()
	taken, ci := 0, 0
	for _, kind := range pool.kinds {
		if len(sum.Failures) > 0 {
			break
		}
		// two occurrences per kind of read: the first one met, and one with a negative index
		// argument (resolved against the length) if the generators produced any
		var picks []opCase
		var neg *opCase
		for try := 0; try < 60; try++ {
			c, found := pool.Take(kind)
			if !found || c.Target.Ops[0].Write {
				break // (kinds are per operation name: a write kind has no reads)
			}
			if len(c.Prefix) < 3 {
				continue // a read of something that is there
			}
			if len(picks) == 0 {
				picks = append(picks, c)
			} else if neg == nil && strings.Contains(c.Target.Ops[0].Tok, " i-") {
				cc := c
				neg = &cc
			}
			if neg != nil {
				break
			}
		}
		if neg != nil {
			picks = append(picks, *neg)
		}
		for _, c := range picks {
			if taken >= 2*n || len(sum.Failures) > 0 {
				break
			}
			ci++
			before := sum.Cases
			c08InterleaveCase(dir, pool, ci, &dbNo, c)
			if sum.Cases > before {
				taken++
				informative[kind]++
			}
		}
	}
}

func runC08Interleave(seed int64, n int) {
	dir, err := os.MkdirTemp("", "sysrun-il-")
	if err != nil {
		fail("harness", err.Error(), nil)
		return
	}
	defer os.RemoveAll(dir)
	pool := newCasePool(seed+31, allFamilies, 60, func(p *hx.Profile) {
		p.MinSteps, p.MaxSteps = 6, 24
		p.Expiry = false
		p.ExpireProb = 0
	}, ilEligible)
	dbNo := 0
	informative := map[string]int{}
	defer func() { coverageCounters("interleaved_", informative) }()
	taken := 0
	ci := 0
	for round := 0; round < 40 && taken < n && len(sum.Failures) == 0; round++ {
		for _, kind := range pool.kinds {
			if taken >= n || len(sum.Failures) > 0 {
				break
			}
			// the next occurrence of this kind of operation that does something in its pre-state
			for try := 0; try < 15; try++ {
				c, found := pool.Take(kind)
				if !found {
					break
				}
				ci++
				if c08InterleaveCase(dir, pool, ci, &dbNo, c) {
					taken++
					informative[kind]++
					// now and then the same pre-state also gets the deletion of all keys in one call
					// as the operation under test (a multi-key operation is one atomic step as well)
					if taken%4 == 0 {
						dk := c
						dk.Target = &hx.Step{Ops: []*hx.Op{hx.KDelete("k1", "k2", "k3")}}
						dk.Kind = "KDelete-all-keys"
						dk.Rest = nil
						ci++
						if c08InterleaveCase(dir, pool, ci, &dbNo, dk) {
							informative[dk.Kind]++
						}
					}
					break
				}
				count("skipped_no_effect")
			}
		}
	}
}

// writersOf: up to three generated writes of different kinds whose first argument is the key the
// read r looks at.
func writersOf(pool *casePool, r *hx.Op) []ilX {
	rf := strings.Fields(r.Tok)
	if len(rf) < 2 {
		return nil
	}
	var out []ilX
	var names []string
	for name := range pool.Ops {
		names = append(names, name)
	}
	// writers of the read's own family first (they change what it reads), then the others
	sort.Slice(names, func(i, j int) bool {
		si, sj := names[i][0] == r.Name[0], names[j][0] == r.Name[0]
		if si != sj {
			return si
		}
		return names[i] < names[j]
	})
	for _, name := range names {
		for _, op := range pool.Ops[name] {
			f := strings.Fields(op.Tok)
			if op.Write && len(f) >= 2 && f[1] == rf[1] && len(op.RelTTL) == 0 {
				out = append(out, ilX{name: "writer-of-the-key:" + name, op: op})
				break
			}
		}
		if len(out) >= 5 {
			break
		}
	}
	return out
}

// runC08StoreInterleave: stores with a destination that is none of the sources, on a missing and on
// an existing destination, against the transactional observer (and the usual second callers).
func runC08StoreInterleave() {
	dir, err := os.MkdirTemp("", "sysrun-ils-")
	if err != nil {
		fail("harness", err.Error(), nil)
		return
	}
	defer os.RemoveAll(dir)
	step := func(op *hx.Op) *hx.Step { return &hx.Step{Ops: []*hx.Op{op}} }
	setPrefix := []*hx.Step{step(hx.EAdd("sa", hx.VStr("1"), hx.VStr("2"), hx.VStr("3"))), step(hx.EAdd("sb", hx.VStr("3"), hx.VStr("4"))), step(hx.EAdd("sold", hx.VStr("old")))}
	zPrefix := []*hx.Step{step(hx.ZAdd("za", hx.VStr("1"), 1)), step(hx.ZAdd("za", hx.VStr("2"), 2)), step(hx.ZAdd("zb", hx.VStr("2"), 5)), step(hx.ZAdd("zold", hx.VStr("old"), 9))}
	var cases []opCase
	id := 0
	add := func(prefix []*hx.Step, w *hx.Op) {
		id++
		cases = append(cases, opCase{Hist: &hx.History{ID: 810000 + id}, Prefix: prefix, Target: step(w), Kind: w.Name})
	}
	for _, dest := range []string{"snew", "sold"} {
		for _, alg := range []string{"diff", "inter", "union"} {
			add(setPrefix, hx.EStore(alg, dest, "sa", "sb"))
		}
	}
	for _, dest := range []string{"znew", "zold"} {
		add(zPrefix, hx.ZStore(false, "sum", dest, "za", "zb"))
		add(zPrefix, hx.ZStore(true, "max", dest, "za", "zb"))
	}
	dbNo := 0
	for i, c := range cases {
		if len(sum.Failures) > 0 {
			return
		}
		before := sum.Cases
		c08InterleaveCase(dir, &casePool{Ops: map[string][]*hx.Op{}}, 4*i+1, &dbNo, c)
		if sum.Cases > before {
			count("store_interleaved_" + c.Kind)
		}
	}
}

// rival finds, among the generated operations of the same name, the one that shares the longest
// run of leading arguments (key, field, member ...) with w without being the same call: two
// callers doing the same kind of thing to the same place with different values.
func rival(pool *casePool, w *hx.Op) *hx.Op {
	wf := strings.Fields(w.Tok)
	var best *hx.Op
	bestN := 1 // at least the key must be shared
	for _, o := range pool.Ops[w.Name] {
		if o.Tok == w.Tok || len(o.RelTTL) > 0 {
			continue
		}
		of := strings.Fields(o.Tok)
		n := 0
		for n < len(wf) && n < len(of) && wf[n] == of[n] {
			n++
		}
		if n > bestN {
			best, bestN = o, n
		}
	}
	return best
}

// rivalTail is the counterpart for operations whose contended place is their LAST argument (a
// rename onto / a move into the same destination from a different source): the generated
// operation of the same name sharing the longest run of trailing arguments but not the first one.
func rivalTail(pool *casePool, w *hx.Op) *hx.Op {
	wf := strings.Fields(w.Tok)
	if len(wf) < 3 {
		return nil
	}
	var best *hx.Op
	bestN := 0
	for _, o := range pool.Ops[w.Name] {
		if o.Tok == w.Tok || len(o.RelTTL) > 0 {
			continue
		}
		of := strings.Fields(o.Tok)
		if len(of) != len(wf) || of[1] == wf[1] {
			continue
		}
		n := 0
		for n < len(wf)-2 && wf[len(wf)-1-n] == of[len(of)-1-n] {
			n++
		}
		if n > bestN {
			best, bestN = o, n
		}
	}
	return best
}

// c08InterleaveCase runs all interleavings of one case; false = the operation has no effect in its pre-state.
func c08InterleaveCase(dir string, pool *casePool, ci int, dbNoP *int, c opCase) bool {
	dbNo := *dbNoP
	hx.Plan.Done = true
	defer func() { *dbNoP = dbNo; hx.Plan.Stmt = false; hx.Plan.Done = false }()
	{
		w := c.Target.Ops[0]
		onFile := ci%4 == 0 || !w.Write // (a read is held while the writer commits: WAL lets it)
		// the twins must reach the same pre-state: no random pops while building it
		var prefix []*hx.Step
		for _, st := range c.Prefix {
			random := false
			for _, op := range st.Ops {
				if op.Name == "EPop" {
					random = true
				}
			}
			if !random {
				prefix = append(prefix, st)
			}
		}
		c.Prefix = prefix
		// only operations that do something in their pre-state are worth interleaving
		if w.Write {
			dbNo++
			x, err := ilOpen(dir, false, fmt.Sprintf("p%d", dbNo), c.Prefix)
			if err != nil {
				fail("harness", err.Error(), nil)
				return true
			}
			before := ilContent(x)
			rw := runOpDB(x, w)
			after := ilContent(x)
			x.Close()
			if strings.HasPrefix(rw, "err ") || before == after {
				return false
			}
		}
		// the second caller: delete every key, the next write of the history, a later write of the
		// same kind (two callers doing the same thing), a reader
		xs := []ilX{{name: "delete-keys", op: hx.KDelete("k1", "k2", "k3")}, {name: "reader"}}
		var next, same *hx.Op
		for _, st := range c.Rest {
			if !ilEligible(st) {
				continue
			}
			if next == nil {
				next = st.Ops[0]
			}
			if same == nil && st.Ops[0].Name == w.Name && st.Ops[0].Tok != w.Tok {
				same = st.Ops[0]
			}
		}
		if next != nil {
			xs = append(xs, ilX{name: "next-write", op: next})
		}
		if c.Xs != nil {
			// scripted second callers
		} else if !w.Write {
			// a read: the second callers are writers of the key it reads
			xs = []ilX{{name: "delete-keys", op: hx.KDelete("k1", "k2", "k3")}}
			if next != nil {
				xs = append(xs, ilX{name: "next-write", op: next})
			}
			xs = append(xs, writersOf(pool, w)...)
		} else if rv := rival(pool, w); rv != nil && rv != same && rv != next {
			xs = append(xs, ilX{name: "rival", op: rv})
		}
		if c.Xs != nil {
		} else if rv := rivalTail(pool, w); rv != nil && rv != next {
			xs = append(xs, ilX{name: "rival-for-the-destination", op: rv})
		}
		_ = same
		// a store: a second caller that, in ONE transaction, looks at the destination and then
		// changes a source (if it saw the destination unwritten, the store comes after its change)
		if c.Xs == nil && (strings.HasPrefix(w.Name, "EStore") || strings.Contains(w.Name, "Store")) {
			f := strings.Fields(w.Tok)
			at := -1
			for i, t := range f {
				if t == "[" {
					at = i
				}
			}
			if at >= 2 && at+1 < len(f) && f[at+1] != "]" {
				dest, derr := hex.DecodeString(strings.TrimPrefix(f[at-1], "s"))
				src, serr := hex.DecodeString(strings.TrimPrefix(f[at+1], "s"))
				if derr == nil && serr == nil {
					var wr, look *hx.Op
					if strings.HasPrefix(w.Name, "E") {
						wr = hx.EAdd(string(src), hx.VStr("added-by-the-observer"))
						look = hx.EItems(string(dest))
					} else {
						wr = hx.ZAdd(string(src), hx.VStr("added-by-the-observer"), 42)
						look = hx.ZRangeRank(string(dest), 0, -1, false)
					}
					xs = append(xs, ilX{name: "observe-destination-then-change-source", op: wr, pre: look})
					count("stores_with_a_transactional_observer")
				}
			}
		}
		// a second call of the very same operation (e.g. two SETNX-style calls racing) is always tried
		if w.Write {
			xs = append(xs, ilX{name: "same-call", op: w})
		}
		if c.Xs != nil {
			xs = c.Xs
		}
		for _, xx := range xs {
			if len(sum.Failures) > 0 {
				return true
			}
			hx.Plan.Stmt = false
			// the two sequential orders
			var refs [2]ilOutcome
			steps := int64(0)
			refTrace := ""
			for order := 0; order < 2; order++ {
				dbNo++
				x, err := ilOpen(dir, onFile, fmt.Sprintf("r%d", dbNo), c.Prefix)
				if err != nil {
					fail("harness", err.Error(), nil)
					return true
				}
				var o ilOutcome
				if order == 0 {
					hx.Plan.Arm(0, 0, false)
					o.rw = runOpDB(x, w)
					refTrace = strings.Join(hx.Plan.Trace, ",")
					steps = hx.Plan.Disarm()
					o.rx = ilRunX(x, xx)
				} else {
					o.rx = ilRunX(x, xx)
					o.rw = runOpDB(x, w)
				}
				o.content = ilContent(x)
				refs[order] = o
				x.Close()
			}
			// an operation that runs outside a transaction is also entered between the statements of
			// each driver-level call (a script executed with one Exec)
			stmtLevel := false
			if !strings.Contains(refTrace, "begin") {
				stmtLevel = true
				hx.Plan.Stmt = true
				dbNo++
				if x, err := ilOpen(dir, onFile, fmt.Sprintf("s%d", dbNo), c.Prefix); err == nil {
					hx.Plan.Arm(0, 0, false)
					runOpDB(x, w)
					steps = hx.Plan.Disarm()
					x.Close()
				}
			}
			for k := int64(1); k <= steps && k <= 40 && len(sum.Failures) == 0; k++ {
				dbNo++
				x, err := ilOpen(dir, onFile, fmt.Sprintf("i%d", dbNo), c.Prefix)
				if err != nil {
					fail("harness", err.Error(), nil)
					return true
				}
				var got ilOutcome
				doneX := make(chan struct{})
				var trig atomic.Bool
				var blocked atomic.Bool
				hx.Plan.OnStep = func(kind string, nn int64) {
					if nn != k || !trig.CompareAndSwap(false, true) {
						return
					}
					base := x.DB.RW.Stats().WaitCount
					go func() {
						got.rx = ilRunX(x, xx)
						close(doneX)
					}()
					deadline := time.Now().Add(100 * time.Millisecond)
					for {
						select {
						case <-doneX:
							return
						default:
						}
						if x.DB.RW.Stats().WaitCount > base {
							blocked.Store(true)
							return
						}
						if time.Now().After(deadline) {
							return
						}
						time.Sleep(20 * time.Microsecond)
					}
				}
				hx.Plan.Arm(0, 0, false)
				got.rw = runOpDB(x, w)
				if !trig.Load() {
					// W took fewer steps this time (cannot happen with equal pre-states); nothing interleaved
					hx.Plan.Disarm()
					x.Close()
					break
				}
				<-doneX
				trace := strings.Join(hx.Plan.Trace, ",")
				hx.Plan.Disarm()
				got.content = ilContent(x)
				sum.Cases++
				count("interleavings")
				if stmtLevel {
					count("interleavings_at_statement_level")
				}
				if blocked.Load() {
					count("second_caller_waited")
				} else {
					count("second_caller_ran_in_between")
				}
				distinct(fmt.Sprintf("%s|%s|%d", w.Tok, xx.name, k))
				if got != refs[0] && got != refs[1] {
					xd := "a reader of the whole content"
					if xx.op != nil {
						xd = xx.op.Tok
					}
					if strings.Contains(got.rx, "locked") || strings.Contains(got.rw, "locked") || strings.Contains(got.rx, "busy") || strings.Contains(got.rw, "busy") {
						fail("c08-spurious-error", fmt.Sprintf("[%s] held before its storage step %d while [%s] ran: an operation failed merely because the other one was running\n got: %s", w.Tok, k, xd, got), nil)
					} else {
						fail("c08-not-atomic", fmt.Sprintf("[%s] (storage steps %s) held before step %d while a second caller ran [%s]: the results and final content are those of neither sequential order\n interleaved: %s\n W then X   : %s\n X then W   : %s",
							w.Tok, trace, k, xd, got, refs[0], refs[1]),
							map[string]any{"w": w.Tok, "x": xd, "step": k, "prefix": describeSteps(c.Prefix)})
					}
				}
				x.Close()
				if onFile {
					os.Remove(filepath.Join(dir, fmt.Sprintf("i%d.db", dbNo)))
				}
			}
		}
	}
	return true
}

func describeSteps(sts []*hx.Step) []string {
	var out []string
	for _, st := range sts {
		out = append(out, stepText(st))
	}
	return out
}
