package main

import (
	"bufio"
	"context"
	"database/sql"
	"encoding/hex"
	"errors"
	"fmt"
	"io"
	"log/slog"
	"math/rand"
	"os"
	"os/exec"
	"path/filepath"
	"sort"
	"strconv"
	"strings"
	"sync"
	"sync/atomic"
	"time"

	"github.com/nalgeon/redka"
	"verif/harness/hx"
)

// ---------- C08: concurrent callers ----------

type concCfg struct {
	name string
	path func(dir string, i int) string
}

func runC08(seed int64, n int, long bool) {
	dir, err := os.MkdirTemp("", "sysrun-c08-")
	if err != nil {
		fail("harness", err.Error(), nil)
		return
	}
	defer os.RemoveAll(dir)
	cfgs := []concCfg{
		{"file-wal", func(dir string, i int) string { return filepath.Join(dir, fmt.Sprintf("c08_%d.db", i)) }},
		{"vfs-memdb", func(dir string, i int) string {
			return fmt.Sprintf("file:/c08_%d_%d.db?vfs=memdb", time.Now().UnixNano(), i)
		}},
		{"shared-cache-memory", func(dir string, i int) string { return ":memory:" }},
		// connected with OpenDB on one caller-opened handle for both roles (redka's TestOpenDB)
		{"opendb-one-handle", func(dir string, i int) string { return filepath.Join(dir, fmt.Sprintf("c08_%d.db", i)) }},
	}
	rounds := n
	for ci, cfg := range cfgs {
		if len(sum.Failures) > 0 {
			break
		}
		var db *redka.DB
		var err error
		path := cfg.path(dir, ci)
		if cfg.name == "opendb-one-handle" {
			var sdb *sql.DB
			if sdb, err = sql.Open("sqlite3", path); err == nil {
				db, err = redka.OpenDB(sdb, sdb, nil)
			}
		} else {
			db, err = redka.Open(path, nil)
		}
		if err != nil {
			fail("harness", cfg.name+": "+err.Error(), nil)
			continue
		}
		r := rounds
		if cfg.name == "opendb-one-handle" {
			r = rounds/4 + 1
		}
		lockErrs := c08Handle(db, cfg.name, seed+int64(ci), r)
		if cfg.name == "opendb-one-handle" || cfg.name == "file-wal" {
			lockErrs += c08KeyChurn(db, path, cfg.name)
		}
		if cfg.name == "file-wal" || cfg.name == "vfs-memdb" {
			c08SlowTransaction(db, cfg.name)
		}
		db.Close()
		if lockErrs > 0 {
			if cfg.name == "shared-cache-memory" && listedKnown["kf_memory_shared_cache_locked"] {
				known["property=C08 with the \":memory:\" path (SQLite shared-cache mode) operations fail with 'database table is locked' merely because another one is running (kf_memory_shared_cache_locked)"] += lockErrs
			} else {
				fail("c08-spurious-error", fmt.Sprintf("%s: %d operations failed merely because another one was running (database is locked / table is locked)", cfg.name, lockErrs), nil)
			}
		}
	}
	if len(sum.Failures) == 0 {
		runC08Interleave(seed, rounds+rounds/4)
	}
	if len(sum.Failures) == 0 {
		runC08ReadInterleave(seed, rounds)
	}
	if len(sum.Failures) == 0 {
		runC08TraceShapes(seed)
	}
	if len(sum.Failures) == 0 {
		runC08StoreInterleave()
	}
	if len(sum.Failures) == 0 {
		runC08CommandInterleave()
	}
	if len(sum.Failures) == 0 {
		c08Server(seed, rounds)
	}
}

// c08SlowTransaction: one goroutine keeps a transaction open for longer than SQLite's busy timeout
// (5 s) while others write and read.  The writes wait and then succeed, the reads are answered at
// once from the last committed state: nothing fails merely because the transaction is running.
func c08SlowTransaction(db *redka.DB, cfg string) {
	sum.Cases++
	_ = db.Str().Set("slow", "0")
	var wg sync.WaitGroup
	started := make(chan struct{})
	var txErr error
	wg.Add(1)
	go func() {
		defer wg.Done()
		txErr = db.Update(func(tx *redka.Tx) error {
			if err := tx.Str().Set("slow", "1"); err != nil {
				return err
			}
			close(started)
			time.Sleep(5600 * time.Millisecond)
			return tx.Str().Set("slow", "2")
		})
	}()
	<-started
	errs := make([]error, 3)
	for w := 0; w < 2; w++ {
		wg.Add(1)
		go func(w int) {
			defer wg.Done()
			time.Sleep(time.Duration(50+200*w) * time.Millisecond)
			if w == 0 {
				errs[w] = db.Str().Set("other", "w")
			} else {
				_, errs[w] = db.List().PushBack("otherlist", "w")
			}
		}(w)
	}
	v, rerr := db.Str().Get("slow")
	errs[2] = rerr
	wg.Wait()
	if txErr != nil {
		fail("c08-spurious-error", fmt.Sprintf("%s: a transaction that stayed open for 5.6 s failed: %v", cfg, txErr), nil)
		return
	}
	for i, err := range errs {
		if err != nil && i == 2 && cfg == "vfs-memdb" && isLockErr(err) && listedKnown["kf_memdb_read_times_out_behind_long_transaction"] {
			// recorded finding: on the in-memory VFS a reader cannot start while a write transaction
			// is open (no WAL there), and gives up after the busy timeout
			known["property=C08 on a vfs=memdb database a read fails with 'database is locked' when another goroutine's write transaction stays open longer than the busy timeout (5 s): the in-memory VFS has no WAL, so readers wait for an open writer (kf_memdb_read_times_out_behind_long_transaction)"]++
			continue
		}
		if err != nil {
			what := []string{"Str().Set", "List().PushBack", "Str().Get"}[i]
			fail("c08-spurious-error", fmt.Sprintf("%s: %s failed merely because another goroutine's transaction was open for 5.6 s (longer than the busy timeout): %v", cfg, what, err), nil)
			return
		}
	}
	if rerr == nil && v.String() != "0" {
		fail("c08-torn-transaction", fmt.Sprintf("%s: a read during an open transaction saw its uncommitted write (slow=%q)", cfg, v.String()), nil)
	}
	if g, _ := db.Str().Get("slow"); g.String() != "2" {
		fail("c08-lost-update", fmt.Sprintf("%s: after the slow transaction committed, its last write is not there (slow=%q)", cfg, g.String()), nil)
	}
	if g, _ := db.Str().Get("other"); g.String() != "w" {
		fail("c08-lost-update", fmt.Sprintf("%s: the write that waited for the slow transaction reported success but is not there", cfg), nil)
	}
	count("slow_transaction_scenarios")
}

// c08KeyChurn: goroutines create collections and delete them again while others read inside
// db.View (holding a connection for a moment).  Afterwards no element row may be left without
// its key row (every connection that writes enforces the foreign keys), and a key created later
// holds exactly what was put into it.  Returns the number of spurious lock errors.
func c08KeyChurn(db *redka.DB, path, cfg string) int {
	sum.Cases++
	var lockErrs atomic.Int64
	var wg sync.WaitGroup
	stop := make(chan struct{})
	for rd := 0; rd < 3; rd++ {
		wg.Add(1)
		go func() {
			defer wg.Done()
			for {
				select {
				case <-stop:
					return
				default:
				}
				_ = db.View(func(tx *redka.Tx) error {
					_, _ = tx.Key().Len()
					time.Sleep(300 * time.Microsecond)
					return nil
				})
			}
		}()
	}
	var ww sync.WaitGroup
	for w := 0; w < 4; w++ {
		ww.Add(1)
		go func(w int) {
			defer ww.Done()
			for i := 0; i < 40; i++ {
				k := fmt.Sprintf("churn%d_%d", w, i)
				var err error
				switch i % 4 {
				case 0:
					_, err = db.Set().Add(k, "a", "b", "c")
				case 1:
					_, err = db.Hash().SetMany(k, map[string]any{"f1": "1", "f2": "2"})
				case 2:
					_, err = db.List().PushBack(k, "a")
					if err == nil {
						_, err = db.List().PushBack(k, "b")
					}
				default:
					_, err = db.ZSet().AddMany(k, map[any]float64{"m1": 1, "m2": 2})
				}
				if err == nil {
					_, err = db.Key().Delete(k)
				}
				if err != nil {
					if isLockErr(err) {
						lockErrs.Add(1)
					} else {
						fail("c08-error", fmt.Sprintf("%s: creating and deleting %s failed under concurrency: %v", cfg, k, err), nil)
					}
				}
			}
		}(w)
	}
	ww.Wait()
	close(stop)
	wg.Wait()
	raw, err := sql.Open("sqlite3", path)
	if err != nil {
		return int(lockErrs.Load())
	}
	defer raw.Close()
	for _, t := range []string{"rstring", "rlist", "rset", "rhash", "rzset"} {
		var n int
		if err := raw.QueryRow("select count(*) from " + t + " where kid not in (select id from rkey)").Scan(&n); err == nil && n > 0 {
			fail("c08-orphan-rows", fmt.Sprintf("%s: after concurrent create/delete of collections %d rows of %s belong to no key (a connection wrote without foreign-key enforcement); a key created next would inherit them", cfg, n, t), nil)
			break
		}
	}
	// a fresh collection holds exactly what is put into it
	if _, err := db.Set().Add("churn-after", "x"); err == nil {
		if items, err := db.Set().Items("churn-after"); err == nil && len(items) != 1 {
			fail("c08-orphan-rows", fmt.Sprintf("%s: a set created with one member after the churn holds %d members", cfg, len(items)), nil)
		}
	}
	count("key_churn_scenarios")
	return int(lockErrs.Load())
}

func isLockErr(err error) bool {
	if err == nil {
		return false
	}
	m := err.Error()
	return strings.Contains(m, "locked") || strings.Contains(m, "busy")
}

// c08Handle: goroutines sharing one handle. Returns the number of spurious lock errors.
func c08Handle(db *redka.DB, cfg string, seed int64, rounds int) int {
	var lockErrs atomic.Int64
	otherErr := func(what string, err error) {
		if err == nil {
			return
		}
		if isLockErr(err) {
			lockErrs.Add(1)
			return
		}
		fail("c08-error", fmt.Sprintf("%s: %s failed under concurrency: %v", cfg, what, err), nil)
	}
	for round := 0; round < rounds && len(sum.Failures) == 0; round++ {
		workers := 2 + round%7
		per := 3 + round%4
		sfx := fmt.Sprintf("%d", round)
		sum.Cases++
		distinct(fmt.Sprintf("%s-%d-%d", cfg, workers, per))
		// (a) no lost update: concurrent increments add up, every returned value is unique
		var wg sync.WaitGroup
		results := make([][]int, workers)
		okIncr := make([]int, workers)
		start := make(chan struct{})
		for w := 0; w < workers; w++ {
			wg.Add(1)
			go func(w int) {
				defer wg.Done()
				<-start
				if w%2 == 1 {
					time.Sleep(time.Duration(rand.Intn(200)) * time.Microsecond)
				}
				for i := 0; i < per; i++ {
					v, err := db.Str().Incr("ctr"+sfx, 1)
					if err != nil {
						otherErr("Incr", err)
						continue
					}
					okIncr[w]++
					results[w] = append(results[w], v)
				}
			}(w)
		}
		close(start)
		wg.Wait()
		total := 0
		seenV := map[int]bool{}
		for w := range results {
			total += okIncr[w]
			for _, v := range results[w] {
				if seenV[v] {
					fail("c08-lost-update", fmt.Sprintf("%s: two concurrent increments returned the same value %d", cfg, v), nil)
				}
				seenV[v] = true
			}
		}
		final, err := db.Str().Get("ctr" + sfx)
		if err == nil {
			if f, _ := strconv.Atoi(final.String()); f != total {
				fail("c08-lost-update", fmt.Sprintf("%s: %d successful concurrent increments left the counter at %d", cfg, total, f), nil)
			}
		} else if total > 0 {
			otherErr("Get", err)
		}
		count("increment_rounds")

		// (b) no element is delivered to two poppers, none is lost
		items := workers * per
		for i := 0; i < items; i++ {
			if _, err := db.List().PushBack("q"+sfx, fmt.Sprintf("e%d", i)); err != nil {
				otherErr("PushBack", err)
			}
		}
		popped := make([][]string, workers)
		start2 := make(chan struct{})
		for w := 0; w < workers; w++ {
			wg.Add(1)
			go func(w int) {
				defer wg.Done()
				<-start2
				for i := 0; i < per+1; i++ {
					var v redka.Value
					var err error
					if (w+i)%2 == 0 {
						v, err = db.List().PopFront("q" + sfx)
					} else {
						v, err = db.List().PopBack("q" + sfx)
					}
					if err == redka.ErrNotFound {
						continue
					}
					if err != nil {
						otherErr("Pop", err)
						continue
					}
					popped[w] = append(popped[w], v.String())
				}
			}(w)
		}
		close(start2)
		wg.Wait()
		rest, err := db.List().Range("q"+sfx, 0, -1)
		otherErr("Range", err)
		all := map[string]int{}
		for _, p := range popped {
			for _, e := range p {
				all[e]++
			}
		}
		for _, e := range rest {
			all[e.String()]++
		}
		if lockErrs.Load() == 0 {
			for i := 0; i < items; i++ {
				e := fmt.Sprintf("e%d", i)
				if all[e] != 1 {
					fail("c08-pop", fmt.Sprintf("%s: element %s was delivered %d times (popped by concurrent callers + remaining)", cfg, e, all[e]), nil)
					break
				}
			}
		}
		count("pop_rounds")

		// (c) a reader never observes part of a transaction
		stop := make(chan struct{})
		var torn atomic.Int64
		wg.Add(1)
		go func() {
			defer wg.Done()
			for i := 1; i <= per*4; i++ {
				v := strconv.Itoa(i)
				err := db.Update(func(tx *redka.Tx) error {
					if err := tx.Str().Set("ta"+sfx, v); err != nil {
						return err
					}
					if _, err := tx.Hash().Set("tb"+sfx, "f", v); err != nil {
						return err
					}
					_, err := tx.Set().Add("tc"+sfx, v)
					return err
				})
				otherErr("Update", err)
			}
			close(stop)
		}()
		for w := 0; w < 2; w++ {
			wg.Add(1)
			go func() {
				defer wg.Done()
				for {
					select {
					case <-stop:
						return
					default:
					}
					err := db.View(func(tx *redka.Tx) error {
						a, e1 := tx.Str().Get("ta" + sfx)
						b, e2 := tx.Hash().Get("tb"+sfx, "f")
						if e1 == redka.ErrNotFound && e2 == redka.ErrNotFound {
							return nil
						}
						if e1 != nil || e2 != nil {
							if e1 != nil && e1 != redka.ErrNotFound {
								return e1
							}
							if e2 != nil && e2 != redka.ErrNotFound {
								return e2
							}
							torn.Add(1)
							if os.Getenv("HX_DEBUG") != "" {
								fmt.Fprintf(os.Stderr, "torn: e1=%v e2=%v a=%q b=%q\n", e1, e2, a, b)
							}
							return nil
						}
						if a.String() != b.String() {
							torn.Add(1)
							if os.Getenv("HX_DEBUG") != "" {
								fmt.Fprintf(os.Stderr, "torn: a=%q b=%q\n", a, b)
							}
						}
						// the third write of the same block must be visible as well
						in, e3 := tx.Set().Exists("tc"+sfx, a.String())
						if e3 != nil {
							return e3
						}
						if !in {
							torn.Add(1)
						}
						return nil
					})
					otherErr("View", err)
				}
			}()
		}
		wg.Wait()
		if torn.Load() > 0 {
			fail("c08-torn-transaction", fmt.Sprintf("%s: a reader observed part of a transaction %d times", cfg, torn.Load()), nil)
		}
		count("transaction_rounds")
	}
	return int(lockErrs.Load())
}

// c08Server: clients sharing one server: increments add up, blocks are not torn.
func c08Server(seed int64, rounds int) {
	srv, err := hx.StartServer("")
	if err != nil {
		fail("harness", err.Error(), nil)
		return
	}
	defer srv.Stop()
	for round := 0; round < rounds/4+1 && len(sum.Failures) == 0; round++ {
		clients := 2 + round%7
		per := 4
		sfx := fmt.Sprintf("s%d", round)
		sum.Cases++
		var wg sync.WaitGroup
		vals := make([][]int64, clients)
		var errs atomic.Int64
		for c := 0; c < clients; c++ {
			wg.Add(1)
			go func(c int) {
				defer wg.Done()
				cl, err := hx.Dial(srv.Addr)
				if err != nil {
					errs.Add(1)
					return
				}
				defer cl.Close()
				for i := 0; i < per; i++ {
					if c%2 == 0 {
						v, err := cl.Do("INCR", "ctr"+sfx)
						if err != nil || v.Kind != ':' {
							errs.Add(1)
							continue
						}
						vals[c] = append(vals[c], v.Int)
					} else {
						// a block of two increments is one atomic unit
						cl.Do("MULTI")
						cl.Do("INCR", "ctr"+sfx)
						cl.Do("INCR", "ctr"+sfx)
						v, err := cl.Do("EXEC")
						if err != nil || v.Kind != '*' || len(v.Arr) != 2 || v.Arr[0].Kind != ':' || v.Arr[1].Kind != ':' {
							errs.Add(1)
							continue
						}
						if v.Arr[1].Int != v.Arr[0].Int+1 {
							fail("c08-torn-transaction", fmt.Sprintf("server: the two increments of one MULTI block returned %d and %d: another client's command ran inside the block", v.Arr[0].Int, v.Arr[1].Int), nil)
						}
						vals[c] = append(vals[c], v.Arr[0].Int, v.Arr[1].Int)
					}
				}
			}(c)
		}
		wg.Wait()
		if errs.Load() > 0 {
			fail("c08-error", fmt.Sprintf("server: %d requests failed merely because other clients were active", errs.Load()), nil)
		}
		var all []int64
		for _, v := range vals {
			all = append(all, v...)
		}
		sort.Slice(all, func(i, j int) bool { return all[i] < all[j] })
		for i, v := range all {
			if v != int64(i+1) {
				fail("c08-lost-update", fmt.Sprintf("server: the values returned by concurrent INCRs are not 1..%d: %v", len(all), all), nil)
				break
			}
		}
		count("server_rounds")
	}
	// exchanges: concurrent clients swap a value in and the previous one out (SET k v GET,
	// GETSET, with and without an expiry option).  Every written value must come back exactly
	// once - as somebody's previous value or as the final value: no value may be handed to two
	// clients and none may vanish.
	for round := 0; round < rounds/4+1 && len(sum.Failures) == 0; round++ {
		clients := 3 + round%5
		per := 150
		key := fmt.Sprintf("xchg%d", round)
		startX := make(chan struct{})
		sum.Cases++
		var wg sync.WaitGroup
		var mu sync.Mutex
		seen := map[string]int{}
		written := map[string]bool{}
		var errs atomic.Int64
		for c := 0; c < clients; c++ {
			wg.Add(1)
			go func(c int) {
				defer wg.Done()
				cl, err := hx.Dial(srv.Addr)
				if err != nil {
					errs.Add(1)
					return
				}
				defer cl.Close()
				<-startX
				for i := 0; i < per; i++ {
					val := fmt.Sprintf("c%d-%d", c, i)
					var v hx.RV
					var err error
					switch (c + i + round) % 4 {
					case 0:
						v, err = cl.Do("SET", key, val, "GET")
					case 1:
						v, err = cl.Do("GETSET", key, val)
					case 2:
						v, err = cl.Do("SET", key, val, "GET", "EX", "100000")
					default:
						v, err = cl.Do("SET", key, val, "PX", "100000000", "GET")
					}
					if err != nil || v.Kind != '$' {
						errs.Add(1)
						continue
					}
					mu.Lock()
					written[val] = true
					if !v.Null {
						seen[string(v.Str)]++
					}
					mu.Unlock()
				}
			}(c)
		}
		time.Sleep(20 * time.Millisecond) // let every client connect, then start them together
		close(startX)
		wg.Wait()
		if errs.Load() > 0 {
			fail("c08-error", fmt.Sprintf("server: %d exchange requests failed merely because other clients were active", errs.Load()), nil)
			break
		}
		cl, err := hx.Dial(srv.Addr)
		if err == nil {
			if v, err := cl.Do("GET", key); err == nil && v.Kind == '$' && !v.Null {
				seen[string(v.Str)]++
			}
			cl.Close()
		}
		for val := range written {
			if seen[val] != 1 {
				fail("c08-lost-update", fmt.Sprintf("server: %d clients exchanging values on one key with SET ... GET / GETSET: the value %q came back %d times (as a previous value or as the final value); each written value must come back exactly once", clients, val, seen[val]), nil)
				break
			}
		}
		count("exchange_rounds")
	}
	// a write with an option is one atomic change: a reader that takes an atomic look (MULTI GET
	// TTL EXEC) never sees the new value without its expiry
	for round := 0; round < 2 && len(sum.Failures) == 0; round++ {
		key := fmt.Sprintf("opt%d", round)
		sum.Cases++
		stop := make(chan struct{})
		var torn atomic.Int64
		var tornMsg atomic.Value
		var wg sync.WaitGroup
		for rd := 0; rd < 3; rd++ {
			wg.Add(1)
			go func() {
				defer wg.Done()
				cl, err := hx.Dial(srv.Addr)
				if err != nil {
					return
				}
				defer cl.Close()
				for {
					select {
					case <-stop:
						return
					default:
					}
					cl.Do("MULTI")
					cl.Do("GET", key)
					cl.Do("TTL", key)
					v, err := cl.Do("EXEC")
					if err != nil || v.Kind != '*' || len(v.Arr) != 2 {
						continue
					}
					if !v.Arr[0].Null && v.Arr[1].Kind == ':' && v.Arr[1].Int < 0 {
						torn.Add(1)
						tornMsg.Store(fmt.Sprintf("value %q with TTL %d", v.Arr[0].Str, v.Arr[1].Int))
					}
				}
			}()
		}
		wcl, err := hx.Dial(srv.Addr)
		if err == nil {
			at := time.Now().Add(48 * time.Hour)
			for i := 0; i < 1500; i++ {
				val := fmt.Sprintf("v%d", i)
				switch i % 4 {
				case 0:
					wcl.Do("SET", key, val, "EXAT", fmt.Sprint(at.Unix()))
				case 1:
					wcl.Do("SET", key, val, "PXAT", fmt.Sprint(at.UnixMilli()))
				case 2:
					wcl.Do("SET", key, val, "EX", "200000")
				default:
					wcl.Do("SETEX", key, "200000", val)
				}
			}
			wcl.Close()
		}
		close(stop)
		wg.Wait()
		if torn.Load() > 0 {
			fail("c08-torn-transaction", fmt.Sprintf("server: while one client kept writing the key with an expiry option (SET ... EXAT/PXAT/EX, SETEX), another client's atomic look (MULTI GET TTL EXEC) saw the value without its expiry %d times, e.g. %v", torn.Load(), tornMsg.Load()), nil)
		}
		count("option_atomicity_rounds")
	}
	// a single multi-key read is one atomic look: while a writer changes several keys in one
	// atomic unit (MSET, a MULTI block, RENAME), a reader's single command never sees half of it
	for round := 0; round < 2 && len(sum.Failures) == 0; round++ {
		sfx := fmt.Sprintf("mk%d", round)
		a, b, sa, sb, ra, rb := "a"+sfx, "b"+sfx, "sa"+sfx, "sb"+sfx, "ra"+sfx, "rb"+sfx
		sum.Cases++
		stop := make(chan struct{})
		var torn atomic.Int64
		var tornMsg atomic.Value
		var wg sync.WaitGroup
		if cl, err := hx.Dial(srv.Addr); err == nil {
			cl.Do("MSET", a, "0", b, "0")
			cl.Do("SET", ra, "x")
			cl.Close()
		}
		for rd := 0; rd < 3; rd++ {
			wg.Add(1)
			go func(rd int) {
				defer wg.Done()
				cl, err := hx.Dial(srv.Addr)
				if err != nil {
					return
				}
				defer cl.Close()
				for i := 0; ; i++ {
					select {
					case <-stop:
						return
					default:
					}
					switch (i + rd) % 7 {
					case 3:
						v, err := cl.Do("HMGET", "h"+sfx, "f1", "f2")
						if err == nil && v.Kind == '*' && len(v.Arr) == 2 && string(v.Arr[0].Str) != string(v.Arr[1].Str) {
							torn.Add(1)
							tornMsg.Store(fmt.Sprintf("HMGET h%s f1 f2 answered %q and %q; the writer sets both fields to the same value in ONE HSET / HMSET command", sfx, v.Arr[0].Str, v.Arr[1].Str))
						}
					case 4:
						v, err := cl.Do("SCARD", "e"+sfx)
						if err == nil && v.Kind == ':' && v.Int%2 != 0 {
							torn.Add(1)
							tornMsg.Store(fmt.Sprintf("SCARD e%s answered %d; the writer adds two members per SADD command", sfx, v.Int))
						}
					case 5:
						v, err := cl.Do("ZCARD", "z"+sfx)
						if err == nil && v.Kind == ':' && v.Int%2 != 0 {
							torn.Add(1)
							tornMsg.Store(fmt.Sprintf("ZCARD z%s answered %d; the writer adds two members per ZADD command", sfx, v.Int))
						}
					case 6:
						v, err := cl.Do("LLEN", "l"+sfx)
						if err == nil && v.Kind == ':' && v.Int%2 != 0 {
							torn.Add(1)
							tornMsg.Store(fmt.Sprintf("LLEN l%s answered %d; the writer pushes two elements per RPUSH / LPUSH command", sfx, v.Int))
						}
					case 0:
						v, err := cl.Do("MGET", a, b)
						if err == nil && v.Kind == '*' && len(v.Arr) == 2 && string(v.Arr[0].Str) != string(v.Arr[1].Str) {
							torn.Add(1)
							tornMsg.Store(fmt.Sprintf("MGET %s %s answered %q and %q; the writer only ever sets both to the same value in one MSET / MULTI block", a, b, v.Arr[0].Str, v.Arr[1].Str))
						}
					case 1:
						v, err := cl.Do("SDIFF", sa, sb)
						if err == nil && v.Kind == '*' && len(v.Arr) != 0 {
							torn.Add(1)
							tornMsg.Store(fmt.Sprintf("SDIFF %s %s answered %d members; the writer only ever adds a member to both sets in one MULTI block", sa, sb, len(v.Arr)))
						}
					default:
						v, err := cl.Do("EXISTS", ra, rb)
						if err == nil && v.Kind == ':' && v.Int != 1 {
							torn.Add(1)
							tornMsg.Store(fmt.Sprintf("EXISTS %s %s answered %d; the writer only ever renames one to the other, exactly one exists at every instant", ra, rb, v.Int))
						}
					}
				}
			}(rd)
		}
		wcl, err := hx.Dial(srv.Addr)
		if err == nil {
			for i := 1; i <= 1200; i++ {
				val := fmt.Sprint(i)
				// one command writing several elements is one atomic change
				switch i % 5 {
				case 0:
					wcl.Do("HSET", "h"+sfx, "f1", val, "f2", val)
				case 1:
					wcl.Do("SADD", "e"+sfx, "a"+val, "b"+val)
				case 2:
					wcl.Do("ZADD", "z"+sfx, "1", "a"+val, "2", "b"+val)
				case 3:
					wcl.Do("RPUSH", "l"+sfx, val, val)
				default:
					wcl.Do("HMSET", "h"+sfx, "f2", val+"x", "f1", val+"x")
				}
				switch i % 4 {
				case 0:
					wcl.Do("MSET", a, val, b, val)
				case 1:
					wcl.Do("MULTI")
					wcl.Do("SET", b, val)
					wcl.Do("SET", a, val)
					wcl.Do("EXEC")
				case 2:
					wcl.Do("MULTI")
					wcl.Do("SADD", sa, val)
					wcl.Do("SADD", sb, val)
					wcl.Do("EXEC")
				default:
					if i%8 == 3 {
						wcl.Do("RENAME", ra, rb)
					} else {
						wcl.Do("RENAME", rb, ra)
					}
				}
			}
			wcl.Close()
		}
		close(stop)
		wg.Wait()
		if torn.Load() > 0 {
			fail("c08-torn-transaction", fmt.Sprintf("server: a single multi-key read saw half of an atomic multi-key write %d times, e.g. %v", torn.Load(), tornMsg.Load()), nil)
		}
		count("multi_key_read_rounds")
	}
}

// ---------- C09: process death ----------

// the scripted workloads of the crash runs: workload w is a function of (seed, w).  Each is a
// history of one family profile (so that most operations find keys of their type), followed by
// one operation of every kind of that family the generators produce.
var crashFamilies = []string{"list", "set", "zset", "hash", "str", "mixed"}

type crashCand struct {
	op   *hx.Op
	kind string // "" = part of the base history
}

// crashCandidates: the base history of the workload's family followed, kind by kind, by up to 8
// occurrences of every kind of write the generators produce (deterministic, no database involved).
func crashCandidates(seed int64, wl int) []crashCand {
	fam := crashFamilies[wl%len(crashFamilies)]
	usable := func(st *hx.Step) bool {
		if st.Gen != nil || st.Block || len(st.Ops) != 1 || st.Ops[0].RunDB != nil && st.Ops[0].MultiMap {
			return false
		}
		switch st.Ops[0].Name {
		case "EPop", "ERandom", "KRandom", "KDeleteAll": // random choices cannot be replayed on the twin
			return false
		}
		return true
	}
	pool := newCasePool(seed+int64(wl)*77, []string{fam}, 30, func(p *hx.Profile) {
		p.Blocks = false
		p.Expiry = true // keys with a time-to-live take part (instants whole hours away: nothing passes during the run)
		p.ExpireProb = 0.1
		p.MinSteps, p.MaxSteps = 20, 20
	}, func(st *hx.Step) bool { return usable(st) && st.Ops[0].Write })
	var out []crashCand
	if len(pool.kinds) > 0 {
		if c, ok := pool.Take(pool.kinds[0]); ok {
			for _, st := range c.Hist.Steps {
				if usable(st) {
					out = append(out, crashCand{st.Ops[0], ""})
				}
			}
		}
	}
	for _, k := range pool.kinds {
		// a refill, used only when no occurrence of the kind does anything in the state reached
		for _, op := range crashRefill(fam) {
			out = append(out, crashCand{op, "refill:" + k})
		}
		for i := 0; i < 8; i++ {
			if c, ok := pool.Take(k); ok {
				out = append(out, crashCand{c.Target.Ops[0], k})
			}
		}
	}
	return out
}

// crashRefill puts a little of the family's data back under the usual key names.
func crashRefill(fam string) []*hx.Op {
	v := hx.VStr
	switch fam {
	case "list":
		return []*hx.Op{hx.KDelete("k1", "k2"), hx.LPushBack("k1", v("a")), hx.LPushBack("k1", v("b")), hx.LPushBack("k1", v("a")), hx.LPushBack("k2", v("c")), hx.KDelete("k3")}
	case "set":
		return []*hx.Op{hx.KDelete("k1", "k2"), hx.EAdd("k1", v("a"), v("b"), v("c")), hx.EAdd("k2", v("b"), v("c"), v("")), hx.KDelete("k3")}
	case "zset":
		return []*hx.Op{hx.KDelete("k1", "k2"), hx.ZAdd("k1", v("a"), 1), hx.ZAdd("k1", v("b"), 2), hx.ZAdd("k2", v("b"), 5), hx.ZAdd("k2", v("c"), 0.5), hx.KDelete("k3")}
	case "hash":
		return []*hx.Op{hx.KDelete("k1", "k2"), hx.HSet("k1", "f1", v("1")), hx.HSet("k1", "f2", v("x")), hx.HSet("k2", "f1", v("2")), hx.KDelete("k3")}
	default:
		return []*hx.Op{hx.KDelete("k1", "k2", "k3"), hx.SSet("k1", v("5")), hx.SSet("k2", v("text")), hx.LPushBack("k3", v("a"))}
	}
}

// crashSelect chooses the workload: the base history, then for every kind of write (twice round)
// the next occurrence that CHANGES the content in the state reached so far - an operation that
// does nothing has no crash behaviour worth looking at.  The choice is made once, on a scratch
// database, and handed to the child processes as a list of indices.
func crashSelect(seed int64, wl int) []int {
	cands := crashCandidates(seed, wl)
	db, err := redka.Open(fmt.Sprintf("file:/c09sel_%d_%d.db?vfs=memdb", time.Now().UnixNano(), wl), nil)
	if err != nil {
		return nil
	}
	defer db.Close()
	x := &hx.Exec{DB: db}
	var sel []int
	used := map[int]bool{}
	content := func() string { c, _ := hx.ContentOfDB(db); return c.Text }
	for i, c := range cands {
		if c.kind == "" {
			c.op.Run(hxDB(db), x, c.op)
			sel = append(sel, i)
			used[i] = true
		}
	}
	// candidates are grouped: refill:<kind> ..., <kind> ...
	type group struct {
		kind         string
		refill, occs []int
	}
	var groups []*group
	for i, c := range cands {
		if c.kind == "" {
			continue
		}
		k := strings.TrimPrefix(c.kind, "refill:")
		if len(groups) == 0 || groups[len(groups)-1].kind != k {
			groups = append(groups, &group{kind: k})
		}
		g := groups[len(groups)-1]
		if strings.HasPrefix(c.kind, "refill:") {
			g.refill = append(g.refill, i)
		} else {
			g.occs = append(g.occs, i)
		}
	}
	tryOccs := func(g *group) bool {
		for _, i := range g.occs {
			if used[i] {
				continue
			}
			before := content()
			cands[i].op.Run(hxDB(db), x, cands[i].op)
			if content() != before {
				used[i] = true
				sel = append(sel, i)
				return true
			}
		}
		return false
	}
	for round := 0; round < 2; round++ {
		for _, g := range groups {
			if tryOccs(g) {
				continue
			}
			if round == 0 {
				for _, i := range g.refill {
					cands[i].op.Run(hxDB(db), x, cands[i].op)
					sel = append(sel, i)
				}
				tryOccs(g)
			}
		}
	}
	return sel
}

var crashSelCache = map[string][]int{}

// crashOps returns the chosen workload (in a child: the indices come from the parent).
func crashOps(seed int64, wl int) []*hx.Op {
	key := fmt.Sprintf("%d/%d", seed, wl)
	sel, ok := crashSelCache[key]
	if !ok {
		if env := os.Getenv("HX_CRASH_SEL"); env != "" {
			for _, f := range strings.Split(env, ",") {
				n, _ := strconv.Atoi(f)
				sel = append(sel, n)
			}
		} else {
			sel = crashSelect(seed, wl)
		}
		crashSelCache[key] = sel
	}
	cands := crashCandidates(seed, wl)
	var ops []*hx.Op
	for _, i := range sel {
		if i < len(cands) {
			ops = append(ops, cands[i].op)
		}
	}
	return ops
}

func crashSelEnv(seed int64, wl int) string {
	crashOps(seed, wl)
	sel := crashSelCache[fmt.Sprintf("%d/%d", seed, wl)]
	parts := make([]string, len(sel))
	for i, n := range sel {
		parts[i] = strconv.Itoa(n)
	}
	return "HX_CRASH_SEL=" + strings.Join(parts, ",")
}

// crashChild runs the workload on the file and acknowledges every completed operation on stdout
// (with the number of storage steps seen so far); the interposing driver makes the process exit
// at storage step exitAt.  With atOpen the steps of Open itself are counted as well (and the
// statements of the schema script one by one).
func crashChild(path string, seed int64, wl int, exitAt int64, post bool, atOpen bool) {
	w := bufio.NewWriter(os.Stdout)
	if atOpen {
		hx.Plan.DDL = true
		hx.Plan.Arm(0, exitAt, post)
	}
	db, err := redka.Open(path, &redka.Options{DriverName: hx.FaultDriverName})
	if err != nil {
		fmt.Println("OPENERR", err)
		os.Exit(3)
	}
	if atOpen {
		fmt.Fprintf(w, "OPENED %d %s\n", hx.Plan.Disarm(), strings.Join(hx.Plan.Trace, ","))
		w.Flush()
		if exitAt != 0 {
			os.Exit(0) // the crash point lay beyond Open
		}
	}
	x := &hx.Exec{DB: db}
	ops := crashOps(seed, wl)
	hx.Plan.Arm(0, exitAt, post)
	for i, op := range ops {
		op.Run(hxDB(db), x, op)
		fmt.Fprintf(w, "ACK %d %d %s\n", i, len(hx.Plan.Trace), op.Name)
		w.Flush()
	}
	n := hx.Plan.Disarm()
	fmt.Fprintf(w, "TRACE %s\n", strings.Join(hx.Plan.Trace, ","))
	fmt.Fprintf(w, "DONE %d\n", n)
	w.Flush()
	os.Exit(0) // without Close: the process just ends
}

// crashChildBig acknowledges a baseline of 300 values, then dies inside ONE transaction that has
// overwritten all of them and added 1500 more (about 5 MB of changed pages, more than the page
// cache holds, so that SQLite has had to write uncommitted pages out).
func crashChildBig(path string) {
	db, err := redka.Open(path, nil)
	if err != nil {
		fmt.Println("OPENERR", err)
		os.Exit(3)
	}
	for i := 0; i < 300; i++ {
		if err := db.Str().Set(fmt.Sprintf("b%03d", i), strings.Repeat("o", 3000)); err != nil {
			fmt.Println("SETERR", err)
			os.Exit(3)
		}
	}
	_, _ = db.Hash().Set("bh", "f", "v")
	fmt.Println("BASELINE")
	_ = db.Update(func(tx *redka.Tx) error {
		for i := 0; i < 300; i++ {
			_ = tx.Str().Set(fmt.Sprintf("b%03d", i), strings.Repeat("N", 3000))
		}
		for i := 0; i < 1500; i++ {
			_ = tx.Str().Set(fmt.Sprintf("n%04d", i), strings.Repeat("n", 3000))
		}
		_, _ = tx.Key().Delete("bh")
		fmt.Println("INFLIGHT")
		os.Exit(77) // the process dies before the commit
		return nil
	})
	os.Exit(0)
}

func contentAfter(seed int64, wl int, nOps int) (string, error) {
	db, err := redka.Open(fmt.Sprintf("file:/c09twin_%d_%d.db?vfs=memdb", time.Now().UnixNano(), nOps), nil)
	if err != nil {
		return "", err
	}
	defer db.Close()
	x := &hx.Exec{DB: db}
	for i, op := range crashOps(seed, wl) {
		if i >= nOps {
			break
		}
		op.Run(hxDB(db), x, op)
	}
	c, err := hx.ContentOfDB(db)
	return c.Text, err
}

// crashPoints chooses where to crash, from the storage-step trace of an undisturbed run and the
// step count at which each operation was acknowledged: every write statement that runs outside
// a begin..commit bracket (an auto-committed statement: anything after it in the same
// operation is a separate durable unit), for the first two occurrences of every kind of operation
// the commit and the statement after its first write, and an even sample of the rest up to the budget.
func crashPoints(trace []string, ackAt []int, names []string, budget int) []int64 {
	chosen := map[int64]bool{}
	var order []int64
	add := func(k int64) {
		if k >= 1 && k <= int64(len(trace)) && !chosen[k] {
			chosen[k] = true
			order = append(order, k)
		}
	}
	inTx := false
	for i, kind := range trace {
		switch kind {
		case "begin":
			inTx = true
		case "commit":
			inTx = false
		case "exec":
			if !inTx {
				add(int64(i + 1))
				add(int64(i + 2))
			}
		}
	}
	seen := map[string]int{}
	start := 0
	for oi, end := range ackAt {
		name := names[oi]
		if seen[name] < 2 {
			seen[name]++
			firstExec := -1
			for j := start; j < end && j < len(trace); j++ {
				if trace[j] == "exec" && firstExec < 0 {
					firstExec = j
				}
				if trace[j] == "commit" {
					add(int64(j + 1))
				}
			}
			if firstExec >= 0 {
				add(int64(firstExec + 2))
			}
		}
		start = end
	}
	if rest := budget - len(order); rest > 0 {
		stride := len(trace)/rest + 1
		for k := 1; k <= len(trace); k += stride {
			add(int64(k))
		}
	}
	return order
}

func runC09(seed int64, n int, long bool) {
	dir, err := os.MkdirTemp("", "sysrun-c09-")
	if err != nil {
		fail("harness", err.Error(), nil)
		return
	}
	defer os.RemoveAll(dir)
	// a write that is acknowledged is ONE durable unit: one statement or one transaction
	traceShapes(seed, "c09-not-atomic", true)
	if len(sum.Failures) > 0 {
		return
	}
	self, _ := os.Executable()
	caseNo := 0
	recovered := func(path string, what string, wl int, acked int, checkContent bool) {
		// re-open: must succeed, content = acknowledged prefix (+ the in-flight operation as a whole or not at all)
		x, err := hx.OpenPath(path)
		if err != nil {
			fail("c09-reopen", fmt.Sprintf("after %s the database does not re-open: %v", what, err), nil)
			return
		}
		defer x.Close()
		got, err := hx.ContentOfDB(x.DB)
		if err != nil {
			fail("c09-reopen", fmt.Sprintf("after %s the recovered database cannot be read: %v", what, err), nil)
			return
		}
		if checkContent {
			wantA, _ := contentAfter(seed, wl, acked+1)
			wantB, _ := contentAfter(seed, wl, acked+2)
			if got.Text != wantA && got.Text != wantB {
				fail("c09-content", fmt.Sprintf("%s, %d operations acknowledged: the recovered content is neither the acknowledged prefix nor that plus the in-flight operation\n recovered: %s\n prefix   : %s\n prefix+1 : %s",
					what, acked+1, got.Text, wantA, wantB), nil)
			}
		} else if got.Text != "" {
			fail("c09-content", fmt.Sprintf("%s: nothing was written, the recovered database contains %s", what, got.Text), nil)
		}
		var ic string
		_ = x.Raw.QueryRow("pragma integrity_check").Scan(&ic)
		if ic != "ok" {
			fail("c09-integrity", "pragma integrity_check after recovery: "+ic, nil)
		}
		// the recovered database must work: one operation of every type, then the structural audit
		probe := &hx.History{ID: caseNo, Steps: []*hx.Step{
			{Ops: []*hx.Op{hx.SSet("zz1", hx.VStr("v"))}}, {Ops: []*hx.Op{hx.LPushBack("zz2", hx.VStr("a"))}},
			{Ops: []*hx.Op{hx.EAdd("zz3", hx.VStr("m"))}}, {Ops: []*hx.Op{hx.HSet("zz4", "f", hx.VStr("v"))}},
			{Ops: []*hx.Op{hx.ZAdd("zz5", hx.VStr("m"), 1)}}, {Ops: []*hx.Op{hx.KDelete("zz1", "zz2", "zz3", "zz4", "zz5")}}}}
		probe.Number()
		audit, v := hx.AuditAndContinue(x, probe)
		if audit != "ok" {
			fail("c09-inconsistent", fmt.Sprintf("after %s the recovered database breaks the structural rules: %s", what, audit), nil)
		} else if v.Kind != hx.KindNone {
			fail("c09-unusable", fmt.Sprintf("after %s the recovered database does not behave like a database: %s: %s", what, v.Kind, v.Detail), nil)
		}
	}
	cleanup := func(path string) {
		os.Remove(path)
		os.Remove(path + "-wal")
		os.Remove(path + "-shm")
	}
	// (0) death inside one large uncommitted transaction: the acknowledged baseline must be intact
	{
		path := filepath.Join(dir, "big.db")
		out, _ := exec.Command(self, "-child", path, "-childbig").Output()
		sum.Cases++
		count("large_transaction_crash")
		if !strings.Contains(string(out), "INFLIGHT") {
			fail("harness", "large-transaction child did not reach the transaction: "+string(out), nil)
			return
		}
		x, err := hx.OpenPath(path)
		if err != nil {
			fail("c09-reopen", "after a crash inside a large uncommitted transaction the database does not re-open: "+err.Error(), nil)
			return
		}
		bad, missing, extra := 0, 0, 0
		var firstErr error
		for i := 0; i < 300; i++ {
			v, err := x.DB.Str().Get(fmt.Sprintf("b%03d", i))
			if err != nil {
				missing++
				if firstErr == nil {
					firstErr = err
				}
			} else if v.String() != strings.Repeat("o", 3000) {
				bad++
			}
		}
		if n, err := x.DB.Key().Len(); err == nil {
			extra = n - 301
		} else if firstErr == nil {
			firstErr = err
		}
		var ic string
		_ = x.Raw.QueryRow("pragma integrity_check").Scan(&ic)
		if bad > 0 || missing > 0 || extra != 0 || ic != "ok" {
			fail("c09-content", fmt.Sprintf("a process died inside one large uncommitted transaction (300 acknowledged values overwritten, 1500 added, one key deleted): after re-opening, %d acknowledged values hold in-flight data, %d cannot be read (%v), %d keys too many; integrity_check: %s",
				bad, missing, firstErr, extra, ic), nil)
		}
		x.Close()
		cleanup(path)
	}
	// (1) crashes during the very first Open of a new file
	{
		out, _ := exec.Command(self, "-child", filepath.Join(dir, "probe_open.db"), "-childseed", fmt.Sprint(seed), "-childopen").Output()
		openSteps := int64(0)
		for _, l := range strings.Split(string(out), "\n") {
			if strings.HasPrefix(l, "OPENED ") {
				f := strings.Fields(l)
				openSteps, _ = strconv.ParseInt(f[1], 10, 64)
				if len(f) > 2 {
					count("open_steps_ddl_" + fmt.Sprint(strings.Count(f[2], "ddl")))
				}
			}
		}
		if openSteps == 0 {
			fail("harness", "crash child did not open: "+string(out), nil)
			return
		}
		for k := int64(1); k <= openSteps && len(sum.Failures) == 0; k++ {
			for _, post := range []bool{false, true} {
				caseNo++
				path := filepath.Join(dir, fmt.Sprintf("open_%d.db", caseNo))
				args := []string{"-child", path, "-childseed", fmt.Sprint(seed), "-childopen", "-childexit", fmt.Sprint(k)}
				if post {
					args = append(args, "-childpost")
				}
				_, _ = exec.Command(self, args...).Output()
				sum.Cases++
				count("crash_points_during_open")
				distinct(fmt.Sprintf("open-step%d-%v", k, post))
				recovered(path, fmt.Sprintf("a crash at storage step %d (post=%v) of the first Open of a new file", k, post), 0, -1, false)
				cleanup(path)
			}
		}
	}
	// (2) crashes during the workloads
	nwl := len(crashFamilies)
	for wl := 0; wl < nwl && len(sum.Failures) == 0; wl++ {
		probe := filepath.Join(dir, fmt.Sprintf("probe_%d.db", wl))
		selEnv := crashSelEnv(seed, wl)
		pc := exec.Command(self, "-child", probe, "-childseed", fmt.Sprint(seed), "-childwl", fmt.Sprint(wl))
		pc.Env = append(os.Environ(), selEnv)
		out, _ := pc.Output()
		var trace []string
		var ackAt []int
		var names []string
		done := false
		for _, l := range strings.Split(string(out), "\n") {
			f := strings.Fields(l)
			switch {
			case strings.HasPrefix(l, "ACK ") && len(f) == 4:
				a, _ := strconv.Atoi(f[2])
				ackAt = append(ackAt, a)
				names = append(names, f[3])
			case strings.HasPrefix(l, "TRACE "):
				if len(f) > 1 {
					trace = strings.Split(f[1], ",")
				}
			case strings.HasPrefix(l, "DONE "):
				done = true
			}
		}
		if !done || len(trace) == 0 {
			fail("harness", "crash child did not finish: "+string(out), nil)
			return
		}
		count(fmt.Sprintf("workload_%s_ops_%d_steps_%d", crashFamilies[wl], len(ackAt), len(trace)))
		budget := n / nwl * 2
		if long {
			budget = len(trace)
		}
		for _, k := range crashPoints(trace, ackAt, names, budget) {
			if len(sum.Failures) > 0 {
				break
			}
			for _, post := range []bool{false, true} {
				caseNo++
				path := filepath.Join(dir, fmt.Sprintf("crash_%d.db", caseNo))
				args := []string{"-child", path, "-childseed", fmt.Sprint(seed), "-childwl", fmt.Sprint(wl), "-childexit", fmt.Sprint(k)}
				if post {
					args = append(args, "-childpost")
				}
				cc := exec.Command(self, args...)
				cc.Env = append(os.Environ(), selEnv)
				out, _ := cc.Output()
				acked := -1
				for _, l := range strings.Split(string(out), "\n") {
					if strings.HasPrefix(l, "ACK ") {
						acked, _ = strconv.Atoi(strings.Fields(l)[1])
					}
				}
				sum.Cases++
				distinct(fmt.Sprintf("wl%d-step%d-%v", wl, k, post))
				count("crash_points")
				count("crash_at_" + trace[k-1])
				opName := "?"
				if acked+1 < len(names) {
					opName = names[acked+1]
				}
				recovered(path, fmt.Sprintf("a crash at storage step %d (%s, post=%v) of workload %q, during %s", k, trace[k-1], post, crashFamilies[wl], opName), wl, acked, true)
				cleanup(path)
			}
		}
	}
	if len(sum.Failures) == 0 {
		c09Reopen(dir, seed)
		if len(sum.Failures) == 0 {
			c09Transactions(dir, seed)
		}
	}
	if len(sum.Failures) == 0 {
		c09ServerKill(dir, seed, long)
	}
}

// c09Reopen: clean close / re-open cycles after every prefix, read-write and read-only.
func c09Reopen(dir string, seed int64) {
	path := filepath.Join(dir, "reopen.db")
	ops := crashOps(seed+1, 5)
	for i, op := range ops {
		x, err := hx.OpenPath(path)
		if err != nil {
			fail("c09-reopen", "re-open (rw): "+err.Error(), nil)
			return
		}
		op.Run(hxDB(x.DB), x, op)
		before, _ := hx.ContentOfDB(x.DB)
		x.Close()
		sum.Cases++
		count("reopen_cycles")
		for cycle := 0; cycle < 2; cycle++ {
			ro, err := redka.OpenRead(path, nil)
			if err != nil {
				fail("c09-reopen", fmt.Sprintf("re-open (read-only) after %d operations: %v", i+1, err), nil)
				return
			}
			c, err := hx.ContentOfDB(ro)
			ro.Close()
			if err != nil || c.Text != before.Text {
				fail("c09-content", fmt.Sprintf("content changed by close / read-only re-open after %d operations\n before: %s\n after : %s (%v)", i+1, before.Text, c.Text, err), nil)
				return
			}
			// ... and through a caller-opened read-only handle (OpenReadDB)
			if sdb, err := sql.Open("sqlite3", "file:"+path+"?mode=ro&_busy_timeout=5000"); err == nil {
				rdb, err := redka.OpenReadDB(sdb, nil)
				if err != nil {
					sdb.Close()
					fail("c09-reopen", fmt.Sprintf("re-open through OpenReadDB on a read-only handle after %d operations: %v", i+1, err), nil)
					return
				}
				c3, err := hx.ContentOfDB(rdb)
				rdb.Close()
				sdb.Close()
				if err != nil || c3.Text != before.Text {
					fail("c09-content", fmt.Sprintf("content changed by close / OpenReadDB re-open after %d operations\n before: %s\n after : %s (%v)", i+1, before.Text, c3.Text, err), nil)
					return
				}
			}
			rw, err := redka.Open(path, nil)
			if err != nil {
				fail("c09-reopen", "re-open (rw): "+err.Error(), nil)
				return
			}
			c2, _ := hx.ContentOfDB(rw)
			rw.Close()
			if c2.Text != before.Text {
				fail("c09-content", fmt.Sprintf("content changed by close / re-open after %d operations\n before: %s\n after : %s", i+1, before.Text, c2.Text), nil)
				return
			}
		}
	}
}

// c09Transactions: the workloads once more, three operations per db.Update block.  A block whose
// operations all succeeded and whose Update returned nil is acknowledged; the database - before
// Close, after Close and read-only re-open, after read-write re-open - then holds what the same
// operations issued one by one on the plain handle give (a crash-free twin in memory).
func c09Transactions(dir string, seed int64) {
	skip := map[string]bool{"EPop": true, "ERandom": true, "KRandom": true, "KDeleteAll": true, "KDeleteExpired": true}
	for wl := range crashFamilies {
		path := filepath.Join(dir, fmt.Sprintf("tx%d.db", wl))
		x, err := hx.OpenPath(path)
		if err != nil {
			fail("harness", err.Error(), nil)
			return
		}
		twin, err := redka.Open(fmt.Sprintf("file:/c09tx_%d_%d.db?vfs=memdb", time.Now().UnixNano(), wl), nil)
		if err != nil {
			x.Close()
			fail("harness", err.Error(), nil)
			return
		}
		xt := &hx.Exec{DB: twin}
		var ops []*hx.Op
		for _, op := range crashOps(seed+2, wl) {
			if !skip[op.Name] && op.Run != nil {
				ops = append(ops, op)
			}
		}
		var acked []string
		for i := 0; i < len(ops); i += 3 {
			blk := ops[i:min(i+3, len(ops))]
			failed := false
			err := x.DB.Update(func(tx *redka.Tx) error {
				for _, op := range blk {
					if res := op.Run(hxTx(tx), x, op); res.Err != "" {
						failed = true
						return errors.New("abort")
					}
				}
				return nil
			})
			if err != nil || failed {
				count("transactions_rolled_back")
				continue
			}
			count("transactions_acknowledged")
			for _, op := range blk {
				op.Run(hxDB(twin), xt, op)
			}
			acked = append(acked, "["+describeOps(blk...)+"]")
		}
		want, _ := hx.ContentOfDB(twin)
		twin.Close()
		sum.Cases++
		tail := acked
		if len(tail) > 6 {
			tail = tail[len(tail)-6:]
		}
		check := func(when string, got hx.Content, err error) bool {
			if err != nil || got.Text != want.Text {
				fail("c09-content", fmt.Sprintf("workload %s, %d acknowledged transactions (the last: %s): %s the database does not hold what the same operations give one by one (%v)\n stored  : %s\n expected: %s",
					crashFamilies[wl], len(acked), strings.Join(tail, " "), when, err, got.Text, want.Text), nil)
				return false
			}
			return true
		}
		got, err := hx.ContentOfDB(x.DB)
		x.Close()
		if !check("before Close", got, err) {
			return
		}
		ro, err := redka.OpenRead(path, nil)
		if err != nil {
			fail("c09-reopen", "re-open (read-only): "+err.Error(), nil)
			return
		}
		got, err = hx.ContentOfDB(ro)
		ro.Close()
		if !check("after Close and read-only re-open", got, err) {
			return
		}
		rw, err := redka.Open(path, nil)
		if err != nil {
			fail("c09-reopen", "re-open (rw): "+err.Error(), nil)
			return
		}
		got, err = hx.ContentOfDB(rw)
		rw.Close()
		if !check("after Close and re-open", got, err) {
			return
		}
	}
}

// c09ServerKill: SIGKILL of the server under pipelined multi-connection load.
func c09ServerKill(dir string, seed int64, long bool) {
	rounds := 2
	if long {
		rounds = 10
	}
	for round := 0; round < rounds && len(sum.Failures) == 0; round++ {
		path := filepath.Join(dir, fmt.Sprintf("kill_%d.db", round))
		srv, err := hx.StartServer(path)
		if err != nil {
			fail("harness", err.Error(), nil)
			return
		}
		var mu sync.Mutex
		acked := map[string]string{}
		var wg sync.WaitGroup
		stop := make(chan struct{})
		for c := 0; c < 4; c++ {
			wg.Add(1)
			go func(c int) {
				defer wg.Done()
				cl, err := hx.Dial(srv.Addr)
				if err != nil {
					return
				}
				defer cl.Close()
				for i := 0; ; i++ {
					select {
					case <-stop:
						return
					default:
					}
					k := fmt.Sprintf("c%d_%d", c, i)
					v, err := cl.Do("SET", k, k+"-value")
					if err != nil {
						return
					}
					if v.Canon() == "+OK" {
						mu.Lock()
						acked[k] = k + "-value"
						mu.Unlock()
					}
				}
			}(c)
		}
		time.Sleep(time.Duration(150+50*round) * time.Millisecond)
		srv.Kill()
		close(stop)
		wg.Wait()
		sum.Cases++
		count("server_kills")
		db, err := redka.Open(path, nil)
		if err != nil {
			fail("c09-reopen", "after SIGKILL the database does not re-open: "+err.Error(), nil)
			return
		}
		missing := 0
		for k, v := range acked {
			got, err := db.Str().Get(k)
			if err != nil || got.String() != v {
				missing++
			}
		}
		nKeys, _ := db.Key().Len()
		db.Close()
		if missing > 0 {
			fail("c09-content", fmt.Sprintf("after SIGKILL of the server %d of %d acknowledged SETs are missing", missing, len(acked)), nil)
		}
		// nothing else: at most one in-flight SET per connection beyond the acknowledged ones
		if nKeys > len(acked)+4 {
			fail("c09-content", fmt.Sprintf("after SIGKILL the database holds %d keys, %d were acknowledged (at most 4 in flight)", nKeys, len(acked)), nil)
		}
		count(fmt.Sprintf("acked_%d", len(acked)/100*100))
		os.Remove(srv.Log)
	}
}

// ---------- C20: background reclamation ----------

func rowCounts(x *hx.Exec) (map[string]int, error) {
	out := map[string]int{}
	for _, t := range []string{"rkey", "rstring", "rlist", "rset", "rhash", "rzset"} {
		var n int
		if err := x.Raw.QueryRow("select count(*) from " + t).Scan(&n); err != nil {
			return nil, err
		}
		out[t] = n
	}
	return out, nil
}

// deadTime spreads the expiry of the i-th expired key over the past: an hour ago, a millisecond
// ago, the epoch itself and times before it.
func deadTime(i int) time.Time {
	switch i % 7 {
	case 1:
		return time.Now().Add(-time.Millisecond)
	case 2:
		return time.UnixMilli(0)
	case 3:
		return time.UnixMilli(-5000)
	case 4:
		return time.UnixMilli(1)
	case 5:
		return time.UnixMilli(86400000) // 1970 + a day: fewer digits, a larger leading one
	case 6:
		return time.UnixMilli(999)
	default:
		return time.Now().Add(-time.Hour)
	}
}

func populate(x *hx.Exec, n int, expired func(i int) bool) (live, dead int) {
	for i := 0; i < n; i++ {
		past := deadTime(i)
		k := fmt.Sprintf("p%d", i)
		switch i % 5 {
		case 0:
			_ = x.DB.Str().Set(k, "v")
		case 1:
			_, _ = x.DB.List().PushBack(k, "a")
			_, _ = x.DB.List().PushBack(k, "b")
		case 2:
			_, _ = x.DB.Set().Add(k, "a", "b")
		case 3:
			_, _ = x.DB.Hash().Set(k, "f", "v")
		default:
			_, _ = x.DB.ZSet().Add(k, "m", 1)
		}
		if expired(i) {
			_ = x.DB.Key().ExpireAt(k, past)
			dead++
		} else {
			if i%3 == 0 {
				_ = x.DB.Key().Expire(k, time.Hour)
			} else if i%7 == 1 {
				_ = x.DB.Key().ExpireAt(k, time.UnixMilli(10413792000000)) // the year 2300: one digit more
			}
			live++
		}
	}
	return
}

// logRecorder is a slog handler that keeps the records logged after closedAt.
type logRecorder struct {
	mu       sync.Mutex
	closedAt atomic.Int64
	late     []string
	// onFirst, when set, is called once, on the first record (the first tick reporting)
	onFirst func()
	first   atomic.Bool
}

func (l *logRecorder) Enabled(context.Context, slog.Level) bool { return true }
func (l *logRecorder) Handle(_ context.Context, r slog.Record) error {
	if l.onFirst != nil && l.first.CompareAndSwap(false, true) {
		l.onFirst()
	}
	if c := l.closedAt.Load(); c != 0 && time.Now().UnixNano() > c {
		l.mu.Lock()
		var attrs []string
		r.Attrs(func(a slog.Attr) bool { attrs = append(attrs, a.String()); return true })
		l.late = append(l.late, r.Level.String()+" "+r.Message+" "+strings.Join(attrs, " "))
		l.mu.Unlock()
	}
	return nil
}
func (l *logRecorder) WithAttrs([]slog.Attr) slog.Handler { return l }
func (l *logRecorder) WithGroup(string) slog.Handler      { return l }
func (l *logRecorder) after() []string {
	l.mu.Lock()
	defer l.mu.Unlock()
	return append([]string(nil), l.late...)
}

// bgRun is one observation of the real background goroutine: a file database populated with
// expired and live keys, client load running, polled until the expired keys are gone.
type bgRun struct {
	x          *hx.Exec
	name       string
	live, dead int
	opened     time.Time
	stop       chan struct{}
	wg         sync.WaitGroup
	clientErrs atomic.Int64
	wrong      atomic.Int64
	loadN      atomic.Int64
	ready      time.Time // when the population was complete
	extra      int       // keys the client load adds (the counter it increments)
}

func startBg(dir, name string, opts *redka.Options, total int, expired func(i int) bool) (*bgRun, error) {
	return startBgLoad(dir, name, opts, total, expired, true)
}

func startBgLoad(dir, name string, opts *redka.Options, total int, expired func(i int) bool, load bool) (*bgRun, error) {
	oneHandle := strings.HasPrefix(name, "opendb-")
	var x *hx.Exec
	var err error
	if oneHandle {
		// connected through OpenDB with one caller-opened handle for both roles
		x, err = hx.OpenPathOneHandle(filepath.Join(dir, name+".db"), opts)
	} else {
		x, err = hx.OpenPathOpts(filepath.Join(dir, name+".db"), opts)
	}
	if err != nil {
		return nil, err
	}
	b := &bgRun{x: x, name: name, opened: time.Now(), stop: make(chan struct{})}
	if strings.HasPrefix(name, "flushed-") {
		// the database is flushed once before anything is stored in it
		_ = x.DB.Str().Set("before-the-flush", "v")
		_, _ = x.DB.Hash().Set("before-the-flush-h", "f", "v")
		if err := x.DB.Key().DeleteAll(); err != nil {
			return nil, err
		}
	}
	b.live, b.dead = populate(x, total, expired)
	// make database/sql replace the read-write connection before the tick (a transaction whose
	// context is cancelled while it runs): the reclamation must work on the new connection as well
	// (not on a caller-opened handle: there the caller is responsible for per-connection settings)
	// (nor on the flushed handle: it is the connection that did the flush that has to do the reclamation)
	if !oneHandle && !strings.HasPrefix(name, "flushed-") {
		ctx, cancel := context.WithCancel(context.Background())
		_ = x.DB.UpdateContext(ctx, func(tx *redka.Tx) error {
			_ = tx.Str().Set("cancelled-1", "1")
			cancel()
			_ = tx.Str().Set("cancelled-2", "2")
			return nil
		})
		cancel()
		// ... and once more by age (under load the cancellation above does not always cost the
		// connection): a connection older than a millisecond is not reused
		x.DB.RW.SetConnMaxLifetime(time.Millisecond)
		time.Sleep(5 * time.Millisecond)
		_ = x.DB.Str().Set("after-replacement", "1")
		x.DB.RW.SetConnMaxLifetime(0)
		b.extra++
	}
	b.ready = time.Now()
	if oneHandle && load {
		// a client transaction is open on the handle when the tick comes (60 s after Open): the
		// reclamation has to wait for the one connection and then run on it
		b.extra++
		b.wg.Add(1)
		go func() {
			defer b.wg.Done()
			select {
			case <-b.stop:
				return
			case <-time.After(time.Until(b.opened.Add(58500 * time.Millisecond))):
			}
			err := x.DB.Update(func(tx *redka.Tx) error {
				if err := tx.Str().Set("held-across-the-tick", "1"); err != nil {
					return err
				}
				time.Sleep(3 * time.Second)
				return nil
			})
			if err != nil {
				b.clientErrs.Add(1)
			}
		}()
	}
	if !load {
		return b, nil
	}
	b.extra++
	b.wg.Add(1)
	go func() {
		defer b.wg.Done()
		for {
			select {
			case <-b.stop:
				return
			default:
			}
			n := b.loadN.Add(1)
			if v, err := x.DB.Str().Incr("load", 1); err != nil {
				b.clientErrs.Add(1)
			} else if int64(v) != n {
				b.wrong.Add(1)
			}
			if v, err := x.DB.Str().Get("load"); err != nil {
				b.clientErrs.Add(1)
			} else if i, _ := v.Int(); int64(i) != n {
				b.wrong.Add(1)
			}
			time.Sleep(2 * time.Millisecond)
		}
	}()
	return b, nil
}

// finish waits until the expired keys have been reclaimed (at most `limit` after the handle was opened).
func (b *bgRun) finish(limit time.Duration) {
	reclaimedAt := time.Duration(0)
	var last map[string]int
	// the bound counts from the moment every expired key was in place: a tick that fires while
	// the population is still being written (a slow machine) may leave the rest to the next one
	if late := b.ready.Sub(b.opened); late > 5*time.Second {
		limit += late
		count("slow_population")
	}
	for time.Since(b.opened) < limit {
		rc, err := rowCounts(b.x)
		if err == nil {
			last = rc
			if rc["rkey"] <= b.live+b.extra {
				reclaimedAt = time.Since(b.opened)
				break
			}
		}
		time.Sleep(500 * time.Millisecond)
	}
	close(b.stop)
	b.wg.Wait()
	sum.Cases++
	if reclaimedAt == 0 {
		fail("c20-not-reclaimed", fmt.Sprintf("%s: of %d expired keys %d were still stored %d s after opening the handle (documented: reclaimed within one minute); %d live keys",
			b.name, b.dead, last["rkey"]-b.live-b.extra, int(limit.Seconds()), b.live), nil)
	} else {
		count(fmt.Sprintf("reclaimed_after_%ds", int(reclaimedAt.Seconds())/10*10))
	}
	if b.clientErrs.Load() > 0 {
		fail("c20-disturbed", fmt.Sprintf("%s: %d client operations failed while the reclamation ran", b.name, b.clientErrs.Load()), nil)
	}
	if b.wrong.Load() > 0 {
		fail("c20-disturbed", fmt.Sprintf("%s: %d client operations returned a wrong result while the reclamation ran", b.name, b.wrong.Load()), nil)
	}
	rc, _ := rowCounts(b.x)
	if reclaimedAt != 0 && rc["rkey"] != b.live+b.extra {
		fail("c20-live-touched", fmt.Sprintf("%s: %d key rows after the reclamation, %d keys are live", b.name, rc["rkey"], b.live+b.extra), nil)
	}
	audit, _ := hx.AuditAndContinue(b.x, &hx.History{ID: 1})
	if audit != "ok" {
		fail("c20-inconsistent", b.name+": after the background reclamation the structural audit fails (elements of removed keys left behind?): "+audit, nil)
	}
	// closing stops the reclamation cleanly
	b.x.Raw.Close()
	if err := b.x.DB.Close(); err != nil {
		fail("c20-close", b.name+": Close after the reclamation: "+err.Error(), nil)
	}
}

// withoutKeys drops the entries of the named keys (hex names) from a content text.
func withoutKeys(text string, names map[string]bool) string {
	var b strings.Builder
	for _, ent := range strings.Fields(text) {
		name := strings.ToLower(strings.SplitN(ent, ":", 2)[0])
		if !names[name] {
			b.WriteString(ent + " ")
		}
	}
	return b.String()
}

func runC20(seed int64, n int, long bool) {
	r := rand.New(rand.NewSource(seed))
	// the real background goroutine (60 s period) runs on two file handles while the rest of the
	// check goes on: default options, and options that only set a logger
	dir, err := os.MkdirTemp("", "sysrun-c20-")
	if err != nil {
		fail("harness", err.Error(), nil)
		return
	}
	defer os.RemoveAll(dir)
	nBig := 3000
	if long {
		nBig = 10000
	}
	quiet := slog.New(slog.NewTextHandler(io.Discard, nil))
	// closing stops the reclamation: a handle with a recording logger is opened and closed at once;
	// whatever it logs afterwards (its tick would come 60 s after Open) shows the goroutine still runs
	rec := &logRecorder{}
	if hc, err := redka.Open(filepath.Join(dir, "closed-at-once.db"), &redka.Options{Logger: slog.New(rec)}); err == nil {
		_ = hc.Str().Set("k", "v")
		if err := hc.Close(); err != nil {
			fail("c20-close", "Close: "+err.Error(), nil)
		}
		rec.closedAt.Store(time.Now().UnixNano())
	}
	defer func() {
		// by now the other handles' ticks (60 s after their Open, which came later) have been observed
		if msgs := rec.after(); len(msgs) > 0 && len(sum.Failures) == 0 {
			fail("c20-close", fmt.Sprintf("a handle that had been closed kept running its reclamation: %d log records after Close, e.g. %s", len(msgs), msgs[0]), nil)
		}
		count("closed_handle_observed")
	}()
	bgA, err := startBg(dir, "default-options", nil, nBig, func(i int) bool { return i%6 != 0 })
	if err != nil {
		fail("harness", err.Error(), nil)
		return
	}
	bgB, err := startBg(dir, "logger-only-options", &redka.Options{Logger: quiet}, 600, func(i int) bool { return i%2 == 0 })
	if err != nil {
		fail("harness", err.Error(), nil)
		return
	}
	// ... and a database connected with OpenDB on one caller-opened handle (as redka's TestOpenDB does)
	bgE, err := startBg(dir, "opendb-one-handle", nil, 600, func(i int) bool { return i%2 == 0 })
	if err != nil {
		fail("harness", err.Error(), nil)
		return
	}
	// ... one that was flushed once right after it was opened
	bgG, err := startBgLoad(dir, "flushed-once", nil, 300, func(i int) bool { return i%2 == 0 }, false)
	if err != nil {
		fail("harness", err.Error(), nil)
		return
	}
	// ... and one that nobody touches between its population and the tick (an idle minute)
	bgF, err := startBgLoad(dir, "opendb-idle-handle", nil, 300, func(i int) bool { return i%2 == 0 }, false)
	if err != nil {
		fail("harness", err.Error(), nil)
		return
	}
	// the reclamation step itself (what the background goroutine calls) on mixed populations
	for round := 0; round < n && len(sum.Failures) == 0; round++ {
		var x *hx.Exec
		if round%3 == 2 {
			x, err = hx.OpenPathOpts(fmt.Sprintf("file:/hx_c20o_%d_%d.db?vfs=memdb", time.Now().UnixNano(), round), &redka.Options{Logger: quiet})
		} else {
			x, err = hx.OpenMem(fmt.Sprintf("c20_%d", round))
		}
		if err != nil {
			fail("harness", err.Error(), nil)
			return
		}
		size := r.Intn(200)
		if round == 0 {
			size = 0
		}
		p := r.Float64()
		deadNames := map[string]bool{}
		live, dead := populate(x, size, func(i int) bool {
			if r.Float64() < p {
				deadNames["x"+strings.ToLower(hex.EncodeToString([]byte(fmt.Sprintf("p%d", i))))] = true
				return true
			}
			return false
		})
		before, _ := hx.ContentOfDB(x.DB)
		sum.Cases++
		distinct(fmt.Sprintf("%d-%d", live, dead))
		cnt, err := x.DB.Key().DeleteExpired(0)
		if err != nil {
			fail("c20-error", "DeleteExpired: "+err.Error(), nil)
		}
		if cnt != dead {
			fail("c20-count", fmt.Sprintf("DeleteExpired(0) removed %d keys, %d had expired (expiry times: an hour ago, 1 ms ago, the epoch, before the epoch)", cnt, dead), nil)
		}
		rc, _ := rowCounts(x)
		if rc["rkey"] != live {
			fail("c20-rows", fmt.Sprintf("after reclamation %d key rows remain, %d keys are live", rc["rkey"], live), nil)
		}
		audit, _ := hx.AuditAndContinue(x, &hx.History{ID: round})
		if audit != "ok" {
			fail("c20-inconsistent", "after reclamation the structural audit fails (elements of removed keys left behind?): "+audit, nil)
		}
		// live keys untouched: the visible content is the same as before
		after, _ := hx.ContentOfDB(x.DB)
		if want := withoutKeys(before.Text, deadNames); want != after.Text {
			fail("c20-live-touched", "reclamation changed live keys\n live keys before: "+want+"\n stored after    : "+after.Text, nil)
		}
		count("reclamation_steps")
		// a second generation on the same handle: keys that expire EARLIER than anything the first
		// run left behind (new keys already expired, and live keys whose expiry is moved into the
		// past) must go in the next run
		if len(sum.Failures) == 0 && size > 0 {
			gen2 := 0
			for i := 0; i < 12; i++ {
				k := fmt.Sprintf("g2_%d", i)
				switch i % 5 {
				case 0:
					_ = x.DB.Str().Set(k, "v")
				case 1:
					_, _ = x.DB.List().PushBack(k, "a")
				case 2:
					_, _ = x.DB.Set().Add(k, "a")
				case 3:
					_, _ = x.DB.Hash().Set(k, "f", "v")
				default:
					_, _ = x.DB.ZSet().Add(k, "m", 1)
				}
				if x.DB.Key().ExpireAt(k, deadTime(i)) == nil {
					gen2++
				}
			}
			// shorten the life of one surviving key with a time-to-live
			if ks, err := x.DB.Key().Keys("p*"); err == nil {
				for _, k := range ks {
					if k.ETime != nil {
						if x.DB.Key().ExpireAt(k.Key, time.Now().Add(-time.Second)) == nil {
							gen2++
							live--
						}
						break
					}
				}
			}
			cnt2, err := x.DB.Key().DeleteExpired(0)
			rc2, _ := rowCounts(x)
			if err != nil || cnt2 != gen2 || rc2["rkey"] != live {
				fail("c20-count", fmt.Sprintf("second run on the same handle: DeleteExpired(0) removed %d keys (%v), %d had expired since the first run (new keys already expired, one key whose expiry was moved into the past); %d key rows remain, %d keys are live", cnt2, err, gen2, rc2["rkey"], live), nil)
			}
			count("second_generation_steps")
		}
		x.Close()
	}
	limit := 75 * time.Second
	bgA.finish(limit)
	bgB.finish(limit)
	bgE.finish(limit)
	bgF.finish(limit)
	bgG.finish(limit)
	if !long || len(sum.Failures) > 0 {
		return
	}
	// thorough: a second period on a fresh handle, keys expiring DURING the observation window
	bgC, err := startBg(dir, "expiring-during-window", nil, 2000, func(i int) bool { return false })
	if err != nil {
		fail("harness", err.Error(), nil)
		return
	}
	for i := 0; i < 1500; i++ {
		k := fmt.Sprintf("w%d", i)
		_ = bgC.x.DB.Str().SetExpires(k, "v", time.Duration(1+i%20)*time.Second)
	}
	bgC.dead = 1500
	// everything has expired 20 s after this point; the tick at 60 s must take all of it (on a
	// machine so slow that this point lies beyond 38 s, the tick after that one)
	limitC := limit
	if time.Since(bgC.opened) > 38*time.Second {
		limitC = 135 * time.Second
		count("slow_population")
	}
	bgC.finish(limitC)
	if len(sum.Failures) > 0 {
		return
	}
	// a tick that fails (another connection holds the write lock across it for longer than the
	// busy timeout) must not end the reclamation: the next tick, one period later, does the work
	bgD, err := startBgLoad(dir, "after-a-failed-tick", nil, 300, func(i int) bool { return i%2 == 0 }, false)
	if err != nil {
		fail("harness", err.Error(), nil)
		return
	}
	time.Sleep(time.Until(bgD.opened.Add(56 * time.Second)))
	if _, err := bgD.x.Raw.Exec("BEGIN IMMEDIATE"); err != nil {
		fail("harness", "cannot take the write lock: "+err.Error(), nil)
		return
	}
	time.Sleep(time.Until(bgD.opened.Add(68 * time.Second)))
	_, _ = bgD.x.Raw.Exec("ROLLBACK")
	rc, _ := rowCounts(bgD.x)
	if rc["rkey"] <= bgD.live {
		count("failed_tick_not_provoked") // the tick got through before the lock: nothing learnt
	}
	bgD.finish(135 * time.Second)
	if len(sum.Failures) > 0 {
		return
	}
	// Close called WHILE a tick is at work (the tick's own log record is the signal): the
	// reclamation must not come back a period later on the closed handle
	rec2 := &logRecorder{}
	var hd *redka.DB
	closed := make(chan struct{})
	rec2.onFirst = func() {
		// (called from inside the tick, which is about to finish: Close returns before the tick does)
		_ = hd.Close()
		rec2.closedAt.Store(time.Now().Add(5 * time.Second).UnixNano()) // (what the tick in flight still says is its own business)
		close(closed)
	}
	hd, err = redka.Open(filepath.Join(dir, "closed-during-a-tick.db"), &redka.Options{Logger: slog.New(rec2)})
	if err != nil {
		fail("harness", err.Error(), nil)
		return
	}
	for i := 0; i < 400; i++ {
		_ = hd.Str().SetExpires(fmt.Sprintf("t%d", i), "v", time.Millisecond)
	}
	select {
	case <-closed:
		time.Sleep(70 * time.Second) // one more period
		sum.Cases++
		if msgs := rec2.after(); len(msgs) > 0 {
			fail("c20-close", fmt.Sprintf("a handle closed while a tick was at work kept running its reclamation: %d log records more than 5 s after Close, e.g. %s", len(msgs), msgs[0]), nil)
		}
		count("closed_during_a_tick_observed")
	case <-time.After(75 * time.Second):
		_ = hd.Close()
		count("tick_did_not_report") // the tick logs nothing on this build: nothing learnt
	}
}
