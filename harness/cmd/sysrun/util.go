package main

import (
	"github.com/nalgeon/redka"
	"github.com/nalgeon/redka/verifhook"
)

func hxTx(tx *redka.Tx) verifhook.Redka { return verifhook.Tx(tx) }
func hxDB(db *redka.DB) verifhook.Redka { return verifhook.DB(db) }
