package main

import (
	"fmt"
	"sort"
	"strings"
	"time"

	"github.com/nalgeon/redka"
	"github.com/nalgeon/redka/verifhook"
	"verif/harness/hx"
)

func hxTx(tx *redka.Tx) verifhook.Redka { return verifhook.Tx(tx) }
func hxDB(db *redka.DB) verifhook.Redka { return verifhook.DB(db) }

// kindOf names the code path a step exercises: the operation (with the variant of the
// multi-key algebra / store operations), or a caller-managed transaction.
func kindOf(st *hx.Step) string {
	if st.Block {
		return fmt.Sprintf("TX%d", len(st.Ops))
	}
	op := st.Ops[0]
	k := op.Name
	switch op.Name {
	case "ZAlg", "ZStore":
		f := strings.Fields(op.Tok)
		if len(f) > 1 {
			k += ":" + f[1]
		}
	}
	return k
}

// opCase is an operation under test with the steps that build its pre-state.
type opCase struct {
	Hist   *hx.History
	Prefix []*hx.Step
	Target *hx.Step
	Rest   []*hx.Step
	Kind   string
	Xs     []ilX // interleavings: the second callers to use (nil = chosen from the history and the pool)
}

// casePool indexes, by kind, the eligible steps of a few hundred seeded histories (generated
// without touching a database), so that every kind of write operation the generators can produce
// is put under test, each time in a different pre-state.
type casePool struct {
	kinds []string
	occ   map[string][]opCase
	next  map[string]int
	// Ops lists every eligible single-operation step's operation, by operation name
	Ops map[string][]*hx.Op
}

func newCasePool(seed int64, profiles []string, perProfile int, tweak func(*hx.Profile), ok func(*hx.Step) bool) *casePool {
	p := &casePool{occ: map[string][]opCase{}, next: map[string]int{}, Ops: map[string][]*hx.Op{}}
	for i, name := range profiles {
		prof := hx.Profiles[name]
		if tweak != nil {
			tweak(&prof)
		}
		g := hx.NewGen(seed+int64(i)*1000, prof)
		for hid := 0; hid < perProfile; hid++ {
			h := g.History(i*100000 + hid)
			for j := 1; j < len(h.Steps); j++ {
				st := h.Steps[j]
				if st.Gen != nil || !ok(st) {
					continue
				}
				var prefix, rest []*hx.Step
				for _, s := range h.Steps[:j] {
					if s.Gen == nil {
						prefix = append(prefix, s)
					}
				}
				for _, s := range h.Steps[j+1:] {
					if s.Gen == nil {
						rest = append(rest, s)
					}
				}
				k := kindOf(st)
				p.occ[k] = append(p.occ[k], opCase{Hist: h, Prefix: prefix, Target: st, Rest: rest, Kind: k})
				if !st.Block {
					p.Ops[st.Ops[0].Name] = append(p.Ops[st.Ops[0].Name], st.Ops[0])
				}
			}
		}
	}
	for k := range p.occ {
		p.kinds = append(p.kinds, k)
	}
	sort.Strings(p.kinds)
	return p
}

// Take returns the next unused occurrence of the kind.
func (p *casePool) Take(kind string) (opCase, bool) {
	i := p.next[kind]
	if i >= len(p.occ[kind]) {
		return opCase{}, false
	}
	p.next[kind] = i + 1
	return p.occ[kind][i], true
}

// TakeWhere returns the next unused occurrence of the kind that satisfies pred, looking at up to
// `look` unused occurrences; when none does, the next unused one.
func (p *casePool) TakeWhere(kind string, look int, pred func(opCase) bool) (opCase, bool) {
	occ := p.occ[kind]
	i := p.next[kind]
	for j := i; j < len(occ) && j < i+look; j++ {
		if pred(occ[j]) {
			occ[i], occ[j] = occ[j], occ[i]
			break
		}
	}
	return p.Take(kind)
}

// changesDatabase runs the case's prefix and target on a scratch in-memory database and reports
// whether the target changes the stored content (so that a fault in it has something to undo).
func changesDatabase(c opCase) bool {
	x, err := hx.OpenMemDriver(fmt.Sprintf("eff_%d", time.Now().UnixNano()), hx.FaultDriverName)
	if err != nil {
		return false
	}
	defer x.Close()
	for _, st := range c.Prefix {
		runStepRaw(x, st)
	}
	d0, _ := x.DumpRaw()
	runStepRaw(x, c.Target)
	d1, _ := x.DumpRaw()
	return d0 != d1
}

// fullEffect runs the case's prefix and target on a scratch database and returns the logical
// content afterwards (no times in it): what the target leaves behind when nothing disturbs it.
func fullEffect(c opCase) (string, bool) {
	x, err := hx.OpenMemDriver(fmt.Sprintf("full_%d", time.Now().UnixNano()), hx.FaultDriverName)
	if err != nil {
		return "", false
	}
	defer x.Close()
	for _, st := range c.Prefix {
		runStepRaw(x, st)
	}
	runStepRaw(x, c.Target)
	ct, err := hx.ContentOfDB(x.DB)
	if err != nil {
		return "", false
	}
	return ct.Text, true
}

// opCasesWhere is opCases with a preference: of each kind, occurrences satisfying pred come first.
func opCasesWhere(seed int64, n int, profiles []string, tweak func(*hx.Profile), ok func(*hx.Step) bool, covered map[string]int, pred func(opCase) bool) []opCase {
	p := newCasePool(seed, profiles, 40, tweak, ok)
	var out []opCase
	for round := 0; len(out) < n && round < 40; round++ {
		for _, k := range p.kinds {
			if len(out) >= n {
				break
			}
			if c, found := p.TakeWhere(k, 80, pred); found {
				covered[k]++
				out = append(out, c)
			}
		}
	}
	return out
}

// opCases takes n cases round-robin over the kinds.
func opCases(seed int64, n int, profiles []string, tweak func(*hx.Profile), ok func(*hx.Step) bool, covered map[string]int) []opCase {
	p := newCasePool(seed, profiles, 40, tweak, ok)
	var out []opCase
	for round := 0; len(out) < n && round < 40; round++ {
		for _, k := range p.kinds {
			if len(out) >= n {
				break
			}
			if c, found := p.Take(k); found {
				covered[k]++
				out = append(out, c)
			}
		}
	}
	return out
}

// coverageCounters records which kinds were put under test.
func coverageCounters(prefix string, covered map[string]int) {
	var ks []string
	for k := range covered {
		ks = append(ks, k)
	}
	sort.Strings(ks)
	for _, k := range ks {
		sum.Counters[prefix+k] += covered[k]
	}
	sum.Counters[prefix+"kinds"] = len(ks)
}

// runOpDB runs one operation at DB level and returns its result text.
func runOpDB(x *hx.Exec, op *hx.Op) string {
	var res hx.Res
	if op.RunDB != nil {
		res = op.RunDB(x.DB, x, op)
	} else {
		res = op.Run(hxDB(x.DB), x, op)
	}
	return res.String()
}

func describeOps(ops ...*hx.Op) string {
	var p []string
	for _, o := range ops {
		p = append(p, o.Tok)
	}
	return fmt.Sprint(strings.Join(p, " ; "))
}

var allFamilies = []string{"mixed", "list", "set", "zset", "hash", "str", "key"}
